/-
  The *meaning* side of C09: which positions a segment list / a region touches ("cover"),
  how often, and the guards of the inversion theorems.  Core Lean only.  Everything here is
  decidable and is answered over the line protocol as `spec.cover` / `spec.count`.
-/
import Gts.Model.Region
namespace Gts

/-- `x` lies in the half-open interval `[s.1, s.2)` (empty when `s.2 ≤ s.1`) -/
def segHas (s : Seg) (x : Int) : Bool := decide (s.1 ≤ x) && decide (x < s.2)

/-- position `x` is covered by some segment of the list -/
def segsCover (ss : List Seg) (x : Int) : Prop := ∃ s ∈ ss, s.1 ≤ x ∧ x < s.2

instance (ss : List Seg) (x : Int) : Decidable (segsCover ss x) := by
  unfold segsCover; infer_instance

/-- how many segments of the list contain `x` ("emitted how often") -/
def coverCount (ss : List Seg) (x : Int) : Nat := ss.countP (segHas · x)

namespace Reg

mutual
/-- the leaf segments of a region tree, left to right, as written (head, tail) -/
def leaves : Reg → List Seg
  | seg h t => [(h, t)]
  | many rs => leavesList rs
def leavesList : List Reg → List Seg
  | [] => []
  | r :: rs => leaves r ++ leavesList rs
end

/-- a (head, tail) pair read in forward orientation -/
def orient (s : Seg) : Seg := if s.2 < s.1 then (s.2, s.1) else s

/-- position `x` is covered by the region: it lies between the two ends of some leaf segment,
whatever its strand and wherever it sits in the tree -/
def cover (r : Reg) (x : Int) : Prop := ∃ s ∈ leaves r, min s.1 s.2 ≤ x ∧ x < max s.1 s.2

instance (r : Reg) (x : Int) : Decidable (cover r x) := by unfold cover; infer_instance

/-- guard of the inversion theorems: every end of every leaf lies in `[0, n]` -/
def within (n : Int) (r : Reg) : Prop := ∀ s ∈ leaves r, 0 ≤ s.1 ∧ s.1 ≤ n ∧ 0 ≤ s.2 ∧ s.2 ≤ n

instance (n : Int) (r : Reg) : Decidable (within n r) := by unfold within; infer_instance

/-- no leaf is a zero-length segment `Segment{p, p}` -/
def nonEmpty (r : Reg) : Prop := ∀ s ∈ leaves r, s.1 ≠ s.2

instance (r : Reg) : Decidable (nonEmpty r) := by unfold nonEmpty; infer_instance

end Reg

/-- the positions of `[lo, lo + k)` covered by a region (protocol answer of `spec.cover`) -/
def coverList (r : Reg) (lo : Int) : Nat → List Int
  | 0 => []
  | k + 1 => (if Reg.cover r lo then [lo] else []) ++ coverList r (lo + 1) k

end Gts
