package main

// C14 — the ENCODING of the cache-key payload (cmd/gts/io.go `exact`, `encodePayload`).
//
// cmd/gts is package main and cannot be imported: the two functions (and the type they work on)
// are copied VERBATIM from /repo/cmd/gts/io.go below.  That the copy stays in step with the tree is
// not assumed here: go2lean regenerates both functions from the tree on every run
// (lean/Gts/Gen/KeyEnc.lean) and lean/Gts/Bridge/KeyEnc.lean proves them equal to the model
// `Gts.KeyEnc.encodePayload`; the ops below compare that same model with this copy running on the
// REAL strconv.QuoteToASCII and json.Marshal.
//
//	key.enc     (<tuple>…)   → x<encodePayload(tuples)>
//	key.rawjson (<tuple>…)   → x<json.Marshal(tuples)>         (the encoder before 1c2c272)
//	key.quote   x<bytes>     → x<strconv.QuoteToASCII(bytes)>
//	tuple = (x<key> <value>);  value = (S x<bytes>) string | (L x<bytes>…) []string | (B 0|1) bool
//	                                 | (I <n>) integer | (D x<bytes>) []byte

import (
	"bytes"
	"encoding/json"
	"fmt"
	"strconv"
	"strings"
)

// ---- verbatim from /repo/cmd/gts/io.go ------------------------------------------------------

type tuple [2]interface{}

// exact replaces the strings of a payload value by their quoted ASCII form:
// json.Marshal writes invalid UTF-8 as U+FFFD, which would give arguments
// that differ only in such bytes the same cache key.
func exact(v interface{}) interface{} {
	switch v := v.(type) {
	case string:
		return strconv.QuoteToASCII(v)
	case []string:
		ss := make([]string, len(v))
		for i, s := range v {
			ss[i] = strconv.QuoteToASCII(s)
		}
		return ss
	default:
		return v
	}
}

func encodePayload(tt []tuple) []byte {
	qq := make([]tuple, len(tt))
	for i, t := range tt {
		qq[i] = tuple{exact(t[0]), exact(t[1])}
	}
	p, err := json.Marshal(qq)
	if err != nil {
		panic(err)
	}
	return p
}

// ---- end of the verbatim part ---------------------------------------------------------------

func decKeyValue(s sexp) interface{} {
	if !s.isL || len(s.list) == 0 {
		panic("bad payload value")
	}
	switch s.list[0].atom {
	case "S":
		return string(decBytes(s.list[1]))
	case "L":
		ss := make([]string, 0, len(s.list)-1)
		for _, x := range s.list[1:] {
			ss = append(ss, string(decBytes(x)))
		}
		return ss
	case "B":
		return s.list[1].atom == "1"
	case "I":
		return decInt(s.list[1])
	case "D":
		return decBytes(s.list[1])
	}
	panic("bad payload value kind " + s.list[0].atom)
}

func decKeyPayload(s sexp) []tuple {
	tt := make([]tuple, 0, len(s.list))
	for _, t := range s.list {
		if !t.isL || len(t.list) != 2 {
			panic("bad payload tuple")
		}
		tt = append(tt, tuple{string(decBytes(t.list[0])), decKeyValue(t.list[1])})
	}
	return tt
}

func encKeyValue(v interface{}) string {
	switch v := v.(type) {
	case string:
		return "(S " + encStr(v) + ")"
	case []string:
		b := strings.Builder{}
		b.WriteString("(L")
		for _, s := range v {
			b.WriteByte(' ')
			b.WriteString(encStr(s))
		}
		b.WriteByte(')')
		return b.String()
	case bool:
		return "(B " + b01(v) + ")"
	case int:
		return "(I " + strconv.Itoa(v) + ")"
	case []byte:
		return "(D " + encBytes(v) + ")"
	}
	panic(fmt.Sprintf("payload value of type %T", v))
}

func encKeyPayload(tt []tuple) string {
	xs := make([]string, len(tt))
	for i, t := range tt {
		xs[i] = "(" + encStr(t[0].(string)) + " " + encKeyValue(t[1]) + ")"
	}
	return "(" + strings.Join(xs, " ") + ")"
}

func init() {
	extraOps["key.enc"] = func(a []sexp) string { return encBytes(encodePayload(decKeyPayload(a[0]))) }
	extraOps["key.rawjson"] = func(a []sexp) string {
		p, err := json.Marshal(decKeyPayload(a[0]))
		if err != nil {
			return "ERR"
		}
		return encBytes(p)
	}
	extraOps["key.quote"] = func(a []sexp) string { return encStr(strconv.QuoteToASCII(string(decBytes(a[0])))) }
}

// ---- generators -----------------------------------------------------------------------------

// c14KeyStrings: byte strings that stress the quoting — invalid UTF-8 of every kind (lone
// continuation and lead bytes, truncated, overlong, surrogate, above U+10FFFF), the boundary runes
// of each encoded length, quotes, backslashes, control bytes, DEL, the HTML characters json
// escapes, U+2028 / U+2029, U+FFFD itself, text that looks like an escape already.
var c14KeyStrings = []string{
	"", "a", "acgt", "1..10", "join(1..3,7..9)", "note=a b", " ", "\"", "\\", "\\\\", "\"\"", "a\"b\\c",
	"\a\b\f\n\r\t\v", "\x00", "\x01\x1f", "\x7f", "<>&", "'", "`", "/", "\\x41", "\\u0041", "\\n", "\\\"",
	"a\xffb", "a\xfeb", "\xff", "\x80", "\xbf", "\xc0\x80", "\xc1\xbf", "\xc2", "\xc2\x41", "\xc2\x80", "\xdf\xbf",
	"\xe0\x80\x80", "\xe0\x9f\xbf", "\xe0\xa0\x80", "\xe0\xa0", "\xe1\x80", "\xed\x9f\xbf", "\xed\xa0\x80", "\xed\xbf\xbf",
	"\xee\x80\x80", "\xef\xbf\xbd", "\xef\xbf\xbf", "\xf0\x8f\xbf\xbf", "\xf0\x90\x80\x80", "\xf0\x90\x80", "\xf0\x90",
	"\xf4\x8f\xbf\xbf", "\xf4\x90\x80\x80", "\xf5\x80\x80\x80", "\xf8\x88\x80\x80\x80", "\xe2\x80\xa8", "\xe2\x80\xa9",
	"\xe2\x80\xa7", "\u00e9", "caf\xe9", "caf\u00e9", "\u65e5\u672c\u8a9e", "\U0001F600", "a b", "\u00ad", "\ufeffx", "x\xe2\x82",
	"\xe2\x82\xac\xe2\x82", "\"a\\xffb\"", "[[\"k\",1]]", "],[", "\",\"", "true", "null", "-1", "AQID", "=",
}

func c14KeyString(r *rng) string {
	switch r.intn(4) {
	case 0, 1:
		return c14KeyStrings[r.intn(len(c14KeyStrings))]
	case 2:
		// two fragments glued: rune boundaries move
		return c14KeyStrings[r.intn(len(c14KeyStrings))] + c14KeyStrings[r.intn(len(c14KeyStrings))]
	}
	n := r.intn(7)
	p := make([]byte, n)
	for i := range p {
		switch r.intn(5) {
		case 0:
			p[i] = byte(r.intn(256))
		case 1:
			p[i] = byte(0x80 + r.intn(0x80))
		case 2:
			p[i] = []byte{0xc2, 0xe0, 0xe2, 0xed, 0xef, 0xf0, 0xf4, 0x80, 0xbf, 0xa0, 0x9f, 0x90, 0x8f}[r.intn(13)]
		case 3:
			p[i] = byte(r.intn(0x21))
		default:
			p[i] = []byte("\"\\<>&a1 /x")[r.intn(10)]
		}
	}
	return string(p)
}

func c14KeyValue(r *rng, kind int) interface{} {
	switch kind {
	case 0:
		return c14KeyString(r)
	case 1:
		n := r.intn(4)
		ss := make([]string, n)
		for i := range ss {
			ss[i] = c14KeyString(r)
		}
		return ss
	case 2:
		return r.bool()
	case 3:
		return []int{0, 1, 2, 3, 4, 9, 10, 44, 59, 99, 100, 1114111, -1, -10, -2147483648, 9223372036854775807, -9223372036854775808, 65533, 8232}[r.intn(19)]
	default:
		n := []int{0, 1, 2, 3, 4, 5, 6, 20, 20, 20}[r.intn(10)]
		p := make([]byte, n)
		for i := range p {
			p[i] = byte(r.next())
		}
		return p
	}
}

var c14KeyNames = []string{"command", "version", "locator", "locators", "filetype", "erase", "host", "qualifiers", "comma", "k", "", "a\"b", "\xff"}

// c14KeyDecode inverts the encoding with the real json.Unmarshal / strconv.Unquote; kinds tells
// how to read each value (the kinds are fixed by the command, they are not part of the key).
func c14KeyDecode(p []byte, kinds []interface{}) ([]tuple, error) {
	var raw [][2]json.RawMessage
	if err := json.Unmarshal(p, &raw); err != nil {
		return nil, err
	}
	if len(raw) != len(kinds) {
		return nil, fmt.Errorf("%d tuples, want %d", len(raw), len(kinds))
	}
	unq := func(m json.RawMessage) (string, error) {
		var q string
		if err := json.Unmarshal(m, &q); err != nil {
			return "", err
		}
		return strconv.Unquote(q)
	}
	out := make([]tuple, len(raw))
	for i, t := range raw {
		k, err := unq(t[0])
		if err != nil {
			return nil, err
		}
		var v interface{}
		switch kinds[i].(type) {
		case string:
			v, err = unq(t[1])
		case []string:
			var qs []json.RawMessage
			if err = json.Unmarshal(t[1], &qs); err == nil {
				ss := make([]string, len(qs))
				for j, q := range qs {
					if ss[j], err = unq(q); err != nil {
						break
					}
				}
				v = ss
			}
		case bool:
			var b bool
			err = json.Unmarshal(t[1], &b)
			v = b
		case int:
			var n int
			err = json.Unmarshal(t[1], &n)
			v = n
		case []byte:
			b := []byte{}
			err = json.Unmarshal(t[1], &b)
			v = b
		}
		if err != nil {
			return nil, err
		}
		out[i] = tuple{k, v}
	}
	return out, nil
}

// c14KeyEncoding: correspondence of the key encoding (model ↔ real strconv / encoding/json) and,
// on the real code, the oracle "the key bytes determine the payload": every generated payload is
// read back from its key, and no two different payloads share a key.
func c14KeyEncoding(r *Run) {
	n := 400
	if r.tier == "thorough" {
		n = 4000
	}
	seen := map[string]string{}
	check := func(tt []tuple, what string) {
		line := "key.enc " + encKeyPayload(tt)
		ans := r.op(line)
		r.count("key/" + what)
		r.eval(line, true)
		key := decBytes(sexp{atom: ans})
		kinds := make([]interface{}, len(tt))
		for i, t := range tt {
			kinds[i] = t[1]
		}
		back, err := c14KeyDecode(key, kinds)
		if err != nil || encKeyPayload(back) != encKeyPayload(tt) {
			got := "ERR"
			if err == nil {
				got = encKeyPayload(back)
			}
			r.fail(Failure{Oracle: "the cache key determines the payload: the tuples read back from encodePayload(tuples) with json.Unmarshal + strconv.Unquote are the tuples", Op: line, Got: got, Want: encKeyPayload(tt)})
		}
		if other, ok := seen[string(key)]; ok && other != line {
			r.fail(Failure{Oracle: "two different payloads have different cache keys", Op: line, Got: ans, Want: "a key different from that of " + other})
		}
		seen[string(key)] = line
		for i := 0; i < len(key); i++ {
			if key[i] >= 0x80 || key[i] < 0x20 {
				r.fail(Failure{Oracle: "the key is printable ASCII", Op: line, Got: ans, Want: "no byte outside 0x20..0x7e"})
				break
			}
		}
	}
	// every stress string alone, as a string value and as a list element; pairs that the old
	// encoder confused
	for _, s := range c14KeyStrings {
		check([]tuple{{"locator", s}}, "string")
		check([]tuple{{"locators", []string{s, "x", s}}}, "list")
		r.op("key.quote " + encStr(s))
		r.op("key.rawjson " + encKeyPayload([]tuple{{"locator", s}, {"l", []string{s}}}))
		r.count("key/quote+rawjson")
	}
	check([]tuple{}, "empty")
	check([]tuple{{"locators", []string{}}}, "list")
	check([]tuple{{"locators", []string{""}}}, "list")
	check([]tuple{{"locators", []string{"", ""}}}, "list")
	check([]tuple{{"locators", []string{"a,b"}}}, "list")
	check([]tuple{{"locators", []string{"a", "b"}}}, "list")
	check([]tuple{{"locators", []string{"b", "a"}}}, "list")
	check([]tuple{{"locators", []string{"a\",\"b"}}}, "list")
	// one byte changed anywhere in a string: different keys
	for _, s := range []string{"a\xffb", "join(1..3,7..9)", "caf\xc3\xa9", "\xf0\x9f\x98\x80"} {
		for i := 0; i < len(s); i++ {
			for _, d := range []byte{1, 0x80, 0xff} {
				p := []byte(s)
				p[i] ^= d
				check([]tuple{{"command", "gts-rotate"}, {"locator", string(p)}, {"filetype", 0}}, "flip")
			}
		}
	}
	// the payload shapes of the nineteen commands, random values
	shapes := [][]struct {
		key  string
		kind int
	}{
		{{"command", 0}, {"version", 0}, {"filetype", 3}},
		{{"command", 0}, {"version", 0}, {"featin", 0}, {"filetype", 3}},
		{{"command", 0}, {"version", 0}, {"key", 0}, {"location", 0}, {"qualifiers", 1}, {"filetype", 3}},
		{{"command", 0}, {"version", 0}, {"locator", 0}, {"erase", 2}, {"filetype", 3}},
		{{"command", 0}, {"version", 0}, {"locators", 1}, {"invert", 2}, {"filetype", 3}},
		{{"command", 0}, {"version", 0}, {"locator", 0}, {"host", 4}, {"embed", 2}, {"filetype", 3}},
		{{"command", 0}, {"version", 0}, {"names", 1}, {"delim", 0}, {"comma", 3}, {"noheader", 2}, {"source", 2}, {"empty", 2}},
		{{"command", 0}, {"version", 0}, {"query", 0}, {"filetype", 3}, {"featureKey", 0}, {"propstrs", 1}, {"exact", 2}, {"nocomplement", 2}},
		{{"command", 0}, {"version", 0}, {"selectors", 1}, {"strand", 0}, {"invert", 2}, {"filetype", 3}},
	}
	for k := 0; k < n; k++ {
		var tt []tuple
		if k%4 == 3 {
			// free shape
			m := r.rng.intn(5)
			for j := 0; j < m; j++ {
				tt = append(tt, tuple{c14KeyNames[r.rng.intn(len(c14KeyNames))], c14KeyValue(r.rng, r.rng.intn(5))})
			}
			if tt == nil {
				tt = []tuple{}
			}
			check(tt, "free")
			continue
		}
		sh := shapes[r.rng.intn(len(shapes))]
		for _, f := range sh {
			tt = append(tt, tuple{f.key, c14KeyValue(r.rng, f.kind)})
		}
		check(tt, "command-shape")
		if k%8 == 0 {
			r.op("key.rawjson " + encKeyPayload(tt))
			r.count("key/quote+rawjson")
		}
	}
	// small scope, exhaustive: every byte string of length 1 and 2, and every lead byte of a three
	// or four byte sequence with every second byte and the boundary values of the later ones —
	// the whole decision table of utf8.DecodeRuneInString
	var scope []string
	for a := 0; a < 256; a++ {
		scope = append(scope, string([]byte{byte(a)}))
		for b := 0; b < 256; b++ {
			scope = append(scope, string([]byte{byte(a), byte(b)}))
		}
	}
	for a := 0xe0; a <= 0xf5; a++ {
		for b := 0; b < 256; b++ {
			for _, c := range []byte{0x7f, 0x80, 0xbf, 0xc0} {
				scope = append(scope, string([]byte{byte(a), byte(b), c}))
				if a >= 0xf0 {
					for _, d := range []byte{0x7f, 0x80, 0xbf, 0xc0} {
						scope = append(scope, string([]byte{byte(a), byte(b), c, d}))
					}
				}
			}
		}
	}
	for _, s := range scope {
		line := "key.quote " + encStr(s)
		ans := r.op(line)
		r.eval(line, true)
		q := string(decBytes(sexp{atom: ans}))
		if back, err := strconv.Unquote(q); err != nil || back != s {
			r.fail(Failure{Oracle: "strconv.Unquote(strconv.QuoteToASCII(s)) = s", Op: line, Got: ans, Want: encStr(s)})
		}
		if r.tier == "thorough" {
			r.op("key.rawjson " + encKeyPayload([]tuple{{"k", s}}))
		}
	}
	r.count("key/quote small scope")
	r.hist["key/quote small scope"] += len(scope) - 1
	// the F32 pair under the old encoder: one text
	a := execOp("key.rawjson " + encKeyPayload([]tuple{{"locator", "a\xffb"}}))
	b := execOp("key.rawjson " + encKeyPayload([]tuple{{"locator", "a\xfeb"}}))
	if !bytes.Equal([]byte(a), []byte(b)) {
		r.fail(Failure{Oracle: "json.Marshal of the raw tuples writes a\\xffb and a\\xfeb alike (the witness of old_encoding_not_injective)", Op: "key.rawjson", Got: a, Want: b})
	}
	r.notes = append(r.notes, fmt.Sprintf("key encoding: %d payloads through key.enc (model = encodePayload on the real strconv / encoding/json), each read back from its key and checked for key collisions; key.quote / key.rawjson on %d stress strings; key.quote on all %d byte strings of the small scope (lengths 1, 2; lead x second x boundary bytes for lengths 3, 4), each unquoted again", len(seen), len(c14KeyStrings), len(scope)))
}
