package main

// C08: "^ is the region's 5' end and $ its 3' end": the region of a location has one segment per
// contiguous part, in order, the ZERO-LENGTH parts (between-sites) included — a join that begins or
// ends in a site has its 5' / 3' end there (seeded change W20-1: Joined / Ordered .Region() leaving
// out parts with an empty region).  Oracle only: an independent reading of the location.

import (
	"github.com/go-gts/gts"
)

// c08SpecSegs: the segments of l in reading order: (head, tail) pairs, tail < head on the
// complement strand; a between-site p gives (p, p).
func c08SpecSegs(l gts.Location) [][2]int {
	switch v := l.(type) {
	case gts.Between:
		return [][2]int{{int(v), int(v)}}
	case gts.Point:
		return [][2]int{{int(v), int(v) + 1}}
	case gts.Ranged:
		return [][2]int{{v.Start, v.End}}
	case gts.Ambiguous:
		return [][2]int{{v.Start, v.End}}
	case gts.Joined:
		var out [][2]int
		for _, u := range v {
			out = append(out, c08SpecSegs(u)...)
		}
		return out
	case gts.Ordered:
		var out [][2]int
		for _, u := range v {
			out = append(out, c08SpecSegs(u)...)
		}
		return out
	case gts.Complemented:
		in := c08SpecSegs(v.Location)
		out := make([][2]int, len(in))
		for i, s := range in {
			out[len(in)-1-i] = [2]int{s[1], s[0]}
		}
		return out
	}
	return nil
}

func c08FlatSegs(r gts.Region) [][2]int {
	switch v := r.(type) {
	case gts.Segment:
		return [][2]int{{v[0], v[1]}}
	case gts.Regions:
		var out [][2]int
		for _, u := range v {
			out = append(out, c08FlatSegs(u)...)
		}
		return out
	}
	return nil
}

func c08RegionOfLocation(r *Run) {
	n := 3000
	if r.tier == "thorough" {
		n = 30000
	}
	for t := 0; t < n; t++ {
		L := 8 + r.rng.intn(20)
		l := genLoc(r.rng, r.rng.intn(4), L, 3, true)
		line := "loc.region " + encLoc(l)
		got := c08FlatSegs(l.Region())
		want := c08SpecSegs(l)
		r.count("region-of-location/" + kindOf(l))
		r.eval(line, len(want) > 1)
		same := len(got) == len(want)
		for i := 0; same && i < len(got); i++ {
			same = got[i] == want[i]
		}
		if !same {
			r.fail(Failure{Oracle: "the region of a location has one segment per contiguous part in reading order, zero-length sites included (its 5' end is the first part's, its 3' end the last part's)",
				Op: line, Got: encReg(l.Region())})
			continue
		}
		if len(want) > 0 {
			if h, tl := l.Region().Head(), l.Region().Tail(); h != want[0][0] || tl != want[len(want)-1][1] {
				r.fail(Failure{Oracle: "Head / Tail of a location's region are the 5' end of its first part and the 3' end of its last part", Op: line,
					Got: itoa(h) + " " + itoa(tl), Want: itoa(want[0][0]) + " " + itoa(want[len(want)-1][1])})
			}
		}
	}
}
