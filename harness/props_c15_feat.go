package main

// C15 — the FEATURE clause for `gts extract` and circular `gts split`, decided from the denotation
// on what the binary wrote ("features in every output denote the residues they denoted in the
// input").  Lean side: Gts/Props/C15Extract.lean (extract_features_back_partial,
// extract_pieces_leaves, extract_features_cover_partial, split_features_circular_partial,
// split_features_circular_one_partial).
//
// Every written record is a VIEW of the input: residue k of the record is input residue D[k], read
// on strand D[k].rev (extract: D = the residues the region reads, leaf by leaf — a backward leaf
// downwards on the complement strand; circular split: the window of the piece, across the origin
// for the first one, forward strand).  An output feature residue (k, strand) therefore stands for
// the input residue (D[k].x, D[k].rev != strand).  Read back like this,
//
//   * every output feature with residues lies inside ONE stretch of the record (extract: the
//     stretch of one leaf segment of the region; split: the whole piece) and denotes, in order,
//     exactly the residues of ONE input feature with the same key and qualifiers that lie in that
//     stretch, on their original strand;
//   * and every input feature has such a piece in every stretch in which it has a residue.
//
// Both are decided as one comparison of multisets of (class, stretch, residue list).  The
// quantifier is the theorems': classes (key + qualifiers) all of whose members have a well-formed,
// duplicate-free location inside the record — for a piece that goes through gts.Rotate also the
// domain of the Normalize law (no full-length part, no ambiguous span ACROSS THE NEW ORIGIN of that
// rotation — an ambiguous span elsewhere is inside the quantifier and checked); known finding K2 is
// attributed through the guard lines of exactly the Expand / Reverse / Normalize calls made
// (`k2.*`, answered by the model: Cli.Piece.abs / Cli.cwinAbs of the theorems).

import (
	"fmt"
	"sort"
	"strings"

	"github.com/go-gts/gts"
)

// c15Stretch: output positions [off, off+n)
type c15Stretch struct{ off, n int }

// c15SegDen: the residues Segment.Locate reads, in order; a position before the origin is read off the
// circle (mod L: leaves "shifted" and "wrap" of c15LeafKind)
func c15SegDen(s gts.Segment, L int) []pos {
	h, t := s[0], s[1]
	md := func(x int) int {
		if L > 0 && x < 0 {
			return x + L
		}
		return x
	}
	var out []pos
	if t < h {
		for x := h - 1; x >= t; x-- {
			out = append(out, pos{md(x), true})
		}
		return out
	}
	for x := h; x < t; x++ {
		out = append(out, pos{md(x), false})
	}
	return out
}

// c15RegionView: the residues Region.Locate reads and the stretch of every leaf
func c15RegionView(x gts.Region, L int) ([]pos, []c15Stretch) {
	var d []pos
	var st []c15Stretch
	for _, s := range c15Leaves(x) {
		sd := c15SegDen(s, L)
		st = append(st, c15Stretch{len(d), len(sd)})
		d = append(d, sd...)
	}
	return d, st
}

// wfLoc: every range / ambiguous span has Start < End (Gts.Loc.wf)
func wfLoc(l gts.Location) bool {
	for _, u := range leaves(l) {
		switch v := u.(type) {
		case gts.Ranged:
			if v.Start >= v.End {
				return false
			}
		case gts.Ambiguous:
			if v.Start >= v.End {
				return false
			}
		}
	}
	return true
}

// c15RotDomain: the domain of the Normalize law (Gts.Loc.normOk on non-negative coordinates) for the
// rotations the record goes through (`rots`: the amounts m, 0 <= m < L, of the gts.Rotate calls made for
// this record): no part as long as the record, and no ambiguous span ACROSS THE NEW ORIGIN of one of
// them (`ambCrossesOrigin`, the ambiguous clause of normOk; before the audit follow-up every
// ambiguous leaf was excluded, which is more than the theorems' guard excludes).
func c15RotDomain(l gts.Location, L int, rots []int) bool {
	for _, u := range leaves(l) {
		if v, ok := u.(gts.Ranged); ok && v.End-v.Start >= L {
			return false
		}
		if v, ok := u.(gts.Ambiguous); ok && v.End-v.Start >= L {
			return false
		}
	}
	for _, m := range rots {
		if ambCrossesOrigin(l, m, L) {
			return false
		}
	}
	return true
}

// c15FeatView decides the feature clause for ONE written record.  guard(f) yields the k2.* lines
// of the calls made on feature f for this record.
func c15FeatView(r *Run, line, cmd string, in, out gts.Sequence, D []pos, stretches []c15Stretch, rots []int,
	guard func(f gts.Feature) []string) {
	rot := len(rots) > 0
	L := len(in.Bytes())
	r.count("feature-oracle/" + cmd + "/records")
	// classes of the input and whether the theorems speak about them
	classOK := map[string]bool{}
	members := map[string][]gts.Feature{}
	for _, f := range in.Features() {
		k := featKey(f)
		if _, seen := classOK[k]; !seen {
			classOK[k] = true
		}
		members[k] = append(members[k], f)
		d := den(f.Loc)
		if !wfLoc(f.Loc) || !coordsWithin(f.Loc, L) || !nodup(d) || (rot && !c15RotDomain(f.Loc, L, rots)) {
			classOK[k] = false
			if rot && hasAmbiguous(f.Loc) && wfLoc(f.Loc) && coordsWithin(f.Loc, L) && nodup(d) {
				for _, m := range rots {
					if ambCrossesOrigin(f.Loc, m, L) {
						r.count("feature-oracle/" + cmd + "/skipped: ambiguous span across the new origin of the rotation (normOk)")
						break
					}
				}
			}
		}
	}
	for k, ok := range classOK {
		if !ok {
			continue
		}
		for _, f := range members[k] {
			if hasAmbiguous(f.Loc) {
				r.count("feature-oracle/" + cmd + "/features with an ambiguous span evaluated")
				if rot {
					r.count("feature-oracle/" + cmd + "/features with an ambiguous span evaluated through a rotation")
				}
			}
		}
	}
	want := map[string]int{}
	for k, ok := range classOK {
		if !ok {
			r.count("feature-oracle/" + cmd + "/class-outside-the-quantifier")
			continue
		}
		for _, f := range members[k] {
			d := den(f.Loc)
			for _, st := range stretches {
				in1 := map[int]bool{}
				for _, p := range D[st.off : st.off+st.n] {
					in1[p.x] = true
				}
				var lst []pos
				for _, p := range d {
					if in1[p.x] {
						lst = append(lst, p)
					}
				}
				if len(lst) > 0 {
					want[fmt.Sprintf("%s @%d %s", k, st.off, denStr(lst))]++
					r.count("feature-oracle/" + cmd + "/pieces")
					if D[st.off].rev {
						r.count("feature-oracle/" + cmd + "/pieces-on-a-backward-leaf")
					}
					if len(lst) < len(d) {
						r.count("feature-oracle/" + cmd + "/pieces-cut-by-the-stretch")
					}
				}
			}
		}
	}
	got := map[string]int{}
	for _, g := range out.Features() {
		k := featKey(g)
		ok, seen := classOK[k]
		if !seen {
			r.fail(Failure{Oracle: cmd + ": every feature of a written record carries the key and qualifiers of an input feature", Op: line,
				Got: k + " " + encLoc(g.Loc)})
			return
		}
		if !ok {
			continue
		}
		d := den(g.Loc)
		if len(d) == 0 {
			continue
		}
		guards := func() string {
			var ls []string
			for _, f := range members[k] {
				ls = append(ls, guard(f)...)
			}
			return strings.Join(ls, " ; ")
		}
		var st *c15Stretch
		for i := range stretches {
			if stretches[i].off <= d[0].x && d[0].x < stretches[i].off+stretches[i].n {
				st = &stretches[i]
			}
		}
		inside := st != nil
		for _, q := range d {
			if st == nil || q.x < st.off || q.x >= st.off+st.n {
				inside = false
			}
		}
		if !inside {
			r.fail(Failure{Oracle: cmd + ": a written feature lies inside one stretch (leaf / piece) of its record", Op: line,
				Got: k + " " + encLoc(g.Loc) + " den=" + denStr(d), Guard: guards()})
			return
		}
		back := make([]pos, len(d))
		for i, q := range d {
			back[i] = pos{D[q.x].x, D[q.x].rev != q.rev}
		}
		got[fmt.Sprintf("%s @%d %s", k, st.off, denStr(back))]++
	}
	keys := map[string]bool{}
	for k := range want {
		keys[k] = true
	}
	for k := range got {
		keys[k] = true
	}
	var ks []string
	for k := range keys {
		ks = append(ks, k)
	}
	sort.Strings(ks)
	for _, k := range ks {
		if want[k] != got[k] {
			class := k[:strings.Index(k, " @")]
			var ls []string
			for _, f := range members[class] {
				ls = append(ls, guard(f)...)
			}
			r.fail(Failure{Oracle: cmd + ": read back in input coordinates, every written feature denotes exactly the residues of its input feature inside its stretch, on their strand, and every such piece is written",
				Op: line, Got: fmt.Sprintf("%s written %d times", k, got[k]), Want: fmt.Sprintf("%d times", want[k]),
				Guard: strings.Join(ls, " ; ")})
			return
		}
	}
}

// c15LocateGuards: the k2.* lines of the calls Region.Locate makes on the location of f
// (gts.Slice: two Expands; backward segment: Reverse of the complemented slice; gts.Concat:
// Expand(0, offset) for every element but the first), made with the library's own methods.
func c15LocateGuards(f gts.Feature, x gts.Region, L int, lines *[]string) (locs []gts.Location) {
	defer func() {
		if recover() != nil {
			locs = nil
		}
	}()
	switch v := x.(type) {
	case gts.Segment:
		h, t := v[0], v[1]
		a, b := h, t
		if t < h {
			a, b = t, h
		}
		switch c15LeafKind(v, L) {
		case "shifted":
			a, b = a+L, b+L
		case "wrap":
			// gts.Slice(seq, a+L, b): Rotate(seq, -(a+L)) — Expand(0, m), Normalize(L) —, then the forward
			// slice [0, b-a) of the rotated record (Gts.Cli.cwinAbs), whose Overlap filter sees the ROTATED location
			m := ((-(a + L))%L + L) % L
			*lines = append(*lines, fmt.Sprintf("k2.expand %s 0 %d", encLoc(f.Loc), m))
			mid := f.Loc.Expand(0, m)
			*lines = append(*lines, fmt.Sprintf("k2.normalize %s %d", encLoc(mid), L))
			rot := mid.Normalize(L)
			w := b - a
			if !gts.Overlap(0, w)(gts.NewFeature(f.Key, rot, f.Props)) {
				return nil
			}
			*lines = append(*lines, fmt.Sprintf("k2.expand %s %d %d", encLoc(rot), w, w-L))
			mid2 := rot.Expand(w, w-L)
			*lines = append(*lines, fmt.Sprintf("k2.expand %s 0 0", encLoc(mid2)))
			loc := mid2.Expand(0, 0)
			if f.Key == "source" {
				loc = gts.VerifAsComplete(loc)
			}
			if t < h {
				c := loc.Complement()
				*lines = append(*lines, fmt.Sprintf("k2.reverse %s %d", encLoc(c), w))
				loc = c.Reverse(w)
			}
			return []gts.Location{loc}
		}
		if !gts.Overlap(a, b)(f) {
			return nil
		}
		*lines = append(*lines, fmt.Sprintf("k2.expand %s %d %d", encLoc(f.Loc), b, b-L))
		mid := f.Loc.Expand(b, b-L)
		*lines = append(*lines, fmt.Sprintf("k2.expand %s 0 %d", encLoc(mid), -a))
		loc := mid.Expand(0, -a)
		if f.Key == "source" {
			loc = gts.VerifAsComplete(loc)
		}
		if t < h {
			c := loc.Complement()
			*lines = append(*lines, fmt.Sprintf("k2.reverse %s %d", encLoc(c), h-t))
			loc = c.Reverse(h - t)
		}
		return []gts.Location{loc}
	case gts.Regions:
		off := 0
		for i, y := range v {
			for _, p := range c15LocateGuards(f, y, L, lines) {
				if i > 0 {
					*lines = append(*lines, fmt.Sprintf("k2.expand %s 0 %d", encLoc(p), off))
					p = p.Expand(0, off)
				}
				locs = append(locs, p)
			}
			off += c15ResLen(y)
		}
	}
	return locs
}

// c15WindowGuards: the k2.* lines of the piece of circular split for the window from a to b
// (a <= b: a forward gts.Slice; b < a: gts.Rotate(seq, -a) then the forward slice [0, L-a+b);
// a == b with whole: the rotation alone).
func c15WindowGuards(f gts.Feature, a, b, L int, whole bool) (lines []string) {
	defer func() { recover() }()
	if !whole && a <= b {
		lines = append(lines, fmt.Sprintf("k2.expand %s %d %d", encLoc(f.Loc), b, b-L))
		mid := f.Loc.Expand(b, b-L)
		lines = append(lines, fmt.Sprintf("k2.expand %s 0 %d", encLoc(mid), -a))
		return lines
	}
	m := ((-a)%L + L) % L
	lines = append(lines, fmt.Sprintf("k2.expand %s 0 %d", encLoc(f.Loc), m))
	mid := f.Loc.Expand(0, m)
	lines = append(lines, fmt.Sprintf("k2.normalize %s %d", encLoc(mid), L))
	if whole {
		return lines
	}
	rot := mid.Normalize(L)
	w := L - a + b
	lines = append(lines, fmt.Sprintf("k2.expand %s %d %d", encLoc(rot), w, w-L))
	mid2 := rot.Expand(w, w-L)
	lines = append(lines, fmt.Sprintf("k2.expand %s 0 0", encLoc(mid2)))
	return lines
}

// c15ExtractFeatures: the feature clause for what `gts extract` wrote (GenBank output; the
// residues already agree with regs, record by record).
func c15ExtractFeatures(r *Run, c c15Case, line string, regs []gts.Region, outs []gts.Sequence) {
	L := len(c.seq.Bytes())
	for i, x := range regs {
		D, st := c15RegionView(x, L)
		if len(D) != len(outs[i].Bytes()) {
			return
		}
		rot := false
		var rots []int // a wrap leaf lo < 0 <= hi is cut by gts.Slice(seq, lo+L, hi) = Rotate(seq, -(lo+L)) then Slice(0, …)
		for _, s := range c15Leaves(x) {
			if c15LeafKind(s, L) == "wrap" {
				rot = true
				lo := s[0]
				if s[1] < lo {
					lo = s[1]
				}
				rots = append(rots, ((-lo)%L+L)%L)
			}
		}
		switch {
		case rot && len(st) > 1:
			r.count("feature-oracle/extract/composite-region-with-a-part-across-the-origin")
		case rot && c15Tail(x) < c15Head(x):
			r.count("feature-oracle/extract/backward-segment-across-the-origin")
		case rot:
			r.count("feature-oracle/extract/forward-segment-across-the-origin")
		case len(st) > 1:
			r.count("feature-oracle/extract/composite-region")
		case len(st) == 1 && c15Tail(x) < c15Head(x):
			r.count("feature-oracle/extract/backward-segment")
		default:
			r.count("feature-oracle/extract/forward-segment")
		}
		x := x
		c15FeatView(r, line, "extract", c.seq, outs[i], D, st, rots, func(f gts.Feature) []string {
			var ls []string
			c15LocateGuards(f, x, L, &ls)
			return ls
		})
	}
}

// c15SplitCircularFeatures: the feature clause for what circular `gts split` wrote (GenBank
// output; piece count and residues already agree).
func c15SplitCircularFeatures(r *Run, c c15Case, line string, rr gts.Regions, outs []gts.Sequence) {
	L := len(c.seq.Bytes())
	cuts := c15Cuts(rr)
	type win struct {
		a, b  int
		whole bool
	}
	var wins []win
	switch {
	case len(rr) == 1:
		wins = []win{{c15Head(rr[0]), c15Head(rr[0]), true}}
		r.count("feature-oracle/split-circular/one-region")
	case len(cuts) == 1:
		wins = []win{{cuts[0], cuts[0], true}}
		r.count("feature-oracle/split-circular/one-distinct-cut")
	default:
		wins = append(wins, win{cuts[len(cuts)-1], cuts[0], false})
		for i := 0; i+1 < len(cuts); i++ {
			wins = append(wins, win{cuts[i], cuts[i+1], false})
		}
		r.count("feature-oracle/split-circular/several-cuts")
	}
	if len(wins) != len(outs) {
		return
	}
	for i, w := range wins {
		var D []pos
		wrap := w.whole || w.b < w.a
		if wrap {
			for x := w.a; x < L; x++ {
				D = append(D, pos{x, false})
			}
			for x := 0; x < w.b; x++ {
				D = append(D, pos{x, false})
			}
		} else {
			for x := w.a; x < w.b; x++ {
				D = append(D, pos{x, false})
			}
		}
		if len(D) != len(outs[i].Bytes()) {
			return
		}
		w := w
		var rots []int
		if wrap && L > 0 {
			rots = []int{((-w.a)%L + L) % L}
		}
		c15FeatView(r, line, "split-circular", c.seq, outs[i], D, []c15Stretch{{0, len(D)}}, rots, func(f gts.Feature) []string {
			return c15WindowGuards(f, w.a, w.b, L, w.whole)
		})
	}
}
