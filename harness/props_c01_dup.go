package main

// C01, hand-built Props with a REPEATED qualifier name (F31, repo 7b61a9a).
//
// The generators of props_c01.go build every Props with Props.Add, so a name
// occurs in one row only.  A Props value is a plain [][]string, though, and
// a caller may put two rows of one name into it.  INSDCFormatter.String and
// Props.Items used to walk Keys() and look every key up with Get(key) - the
// FIRST row of that name: the first row's values were written once per row
// and the later row's values were lost.  Since 7b61a9a the rows are written
// one by one under their own name.
//
// This file ties the repaired writer to the model on that shape on every run:
//   gb.tabletext / gb.write   correspondence of the writer (write only),
//   gb.read / gb.wrw          correspondence of reader and second write,
// and evaluates on the real code
//   - every (name, value) of every row is written, row by row, in row order
//     (Gts.C01.write_keeps_every_value),
//   - no value is lost by write -> read (as a multiset of items; the reader
//     gathers the rows of one name with Props.Add),
//   - when the written qualifiers of one name are consecutive (rows of one
//     name adjacent; rows without a value do not count) the second write is
//     byte-identical (Gts.C01.write_read_write_partial, guard namesAdjacent);
//     for NON-adjacent rows only the order differs
//     (Gts.C01.write_read_write_full_refuted).

import (
	"fmt"
	"sort"
	"strings"

	"github.com/go-gts/gts"
	"github.com/go-gts/gts/seqio"
)

// valueFor draws a value of the domain for a name under the registry.
func valueFor(r *rng, name string, reg registry) string {
	switch qualifierType(name, reg) {
	case seqio.LiteralQualifier:
		return literalValue(r)
	case seqio.ToggleQualifier:
		return ""
	default:
		return quotedValue(r)
	}
}

// itemsOf: the (name, value) pairs of the rows, row by row (independent of
// Props.Items); toggles carry the empty value when `read` is set.
func itemsOf(ps gts.Props, reg registry, read bool) []string {
	var out []string
	for _, row := range ps {
		for _, v := range row[1:] {
			if read && qualifierType(row[0], reg) == seqio.ToggleQualifier {
				v = ""
			}
			out = append(out, row[0]+"\x00"+v)
		}
	}
	return out
}

// namesAdjacent: the written items of one name are consecutive (Lean: propsAdjacent).
func namesAdjacent(ps gts.Props) bool {
	closed := map[string]bool{}
	last, have := "", false
	for _, row := range ps {
		for range row[1:] {
			if have && last != row[0] {
				closed[last] = true
			}
			if closed[row[0]] {
				return false
			}
			last, have = row[0], true
		}
	}
	return true
}

// expectedTable: the text INSDCFormatter has to write, built row by row from
// QualifierIO alone (key column of 21, keys of at most 15 bytes).
func expectedTable(tab []gts.Feature) string {
	b := strings.Builder{}
	pre := strings.Repeat(" ", 21)
	for i, f := range tab {
		if i != 0 {
			b.WriteByte('\n')
		}
		b.WriteString("     " + f.Key + strings.Repeat(" ", 16-len(f.Key)) + f.Loc.String())
		for _, row := range f.Props {
			for _, v := range row[1:] {
				b.WriteByte('\n')
				b.WriteString(seqio.QualifierIO{row[0], v}.Format(pre).String())
			}
		}
	}
	return b.String()
}

// repeatName rebuilds a Props of distinct names into one with a repeated
// name; shape: 0 adjacent, 1 non-adjacent, 2 adjacent with a valueless row of
// another name in between, 3 a valueless row of the repeated name.
func repeatName(r *rng, ps gts.Props, reg registry, shape int) (gts.Props, string, bool) {
	var rows gts.Props
	for _, row := range ps {
		if len(row) >= 2 {
			rows = append(rows, append([]string(nil), row...))
		}
	}
	if len(rows) == 0 {
		return nil, "", false
	}
	i := r.intn(len(rows))
	name := rows[i][0]
	extra := []string{name}
	for k := r.rangeInt(1, 2); k > 0; k-- {
		extra = append(extra, valueFor(r, name, reg))
	}
	kind := "quoted-or-unknown"
	switch qualifierType(name, reg) {
	case seqio.LiteralQualifier:
		kind = "literal"
	case seqio.ToggleQualifier:
		kind = "toggle"
	}
	out := gts.Props{}
	switch shape {
	case 0:
		out = append(out, rows[:i+1]...)
		out = append(out, extra)
		out = append(out, rows[i+1:]...)
	case 1:
		if len(rows) < 2 {
			return nil, "", false
		}
		// behind some other row that carries a value
		out = append(out, rows...)
		if i == len(rows)-1 {
			out = append(gts.Props{extra}, out...)
		} else {
			out = append(out, extra)
		}
	case 2:
		other := "note"
		if name == "note" {
			other = "gene"
		}
		for _, row := range rows {
			if row[0] == other {
				return nil, "", false
			}
		}
		out = append(out, rows[:i+1]...)
		out = append(out, []string{other})
		out = append(out, extra)
		out = append(out, rows[i+1:]...)
	default:
		out = append(out, rows[:i+1]...)
		out = append(out, rows[i+1:]...)
		out = append(out, []string{name})
	}
	return out, kind, true
}

func repeatedNameCases(r *Run, n int) {
	g := qualGen{}
	// fixed: the witness of F31, and an empty row (prop[0] panics, before and after)
	fixed := []gts.Props{
		{{"note", "a"}, {"gene", "b"}, {"note", "c"}},
		{{"note", "a"}, {"note", "c"}, {"gene", "b"}},
		{{"pseudo", ""}, {"note", "a"}, {"pseudo", ""}},
		{{"note"}, {"note", "a"}, {"gene"}, {"note", "b"}},
		{{"note", "a"}, {}},
	}
	for _, ps := range fixed {
		f := gts.Feature{Key: "gene", Loc: gts.Range(0, 3), Props: ps}
		r.op("gb.tabletext " + encRegistry(registry{}) + " " + encFeature(f))
		r.count("repeated-name/fixed")
	}
	for i := 0; i < n; i++ {
		reg := registry{}
		L := r.rng.pick2([]int{0, 9, 60, 61})
		tab := g.table(r.rng, L, 3, &reg)
		shape := r.rng.intn(4)
		changed, kind := false, ""
		for j := range tab {
			if len(tab[j].Key) > 15 {
				tab[j].Key = "misc_feature"
			}
			if changed {
				continue
			}
			if ps, k, ok := repeatName(r.rng, tab[j].Props, reg, shape); ok {
				tab[j].Props, kind, changed = ps, k, true
			}
		}
		if !changed || conflict(reg) {
			continue
		}
		adjacent := true
		for _, f := range tab {
			adjacent = adjacent && namesAdjacent(f.Props)
		}
		shapeName := []string{"adjacent", "non-adjacent", "adjacent+row-without-value-between", "row-without-value"}[shape]
		r.count("repeated-name/" + shapeName)
		r.count("repeated-name/type/" + kind)
		if adjacent {
			r.count("repeated-name/items-consecutive")
		} else {
			r.count("repeated-name/items-not-consecutive")
		}

		regS := encRegistry(reg)
		fs := make([]string, len(tab))
		for j, f := range tab {
			fs[j] = encFeature(f)
		}
		// writer, table level
		tline := "gb.tabletext " + regS + " " + strings.Join(fs, " ")
		tout := r.op(tline)
		want := ""
		withRegistry(reg, func() { want = encStr(expectedTable(tab)) })
		if tout != want {
			r.fail(Failure{Oracle: "every value of every row is written under its row's name, row by row", Op: tline, Got: tout, Want: want})
		}
		// writer and reader, record level
		gb := seqio.GenBank{Fields: genFields(r.rng, false), Table: tab, Origin: seqio.NewOrigin(genResidues(r.rng, L))}
		recS := encRecord(gb)
		wline := "gb.write " + regS + " " + recS
		wout := r.op(wline)
		r.eval("repeated|"+regS+recS, true)
		if !strings.HasPrefix(wout, "x") {
			r.fail(Failure{Oracle: "a record with a repeated qualifier name is written without panic", Op: wline, Got: wout})
			continue
		}
		rline := "gb.read " + regS + " " + wout
		r.op(rline)
		r.op("gb.wrw " + regS + " " + wout)
		withRegistry(reg, func() {
			text := string(decBytes(sexp{atom: wout}))
			recs, ok, pn := scanAll(text)
			if pn || !ok || len(recs) != 1 || len(recs[0].Table) != len(tab) {
				r.fail(Failure{Oracle: "write -> read succeeds with exactly one record and every feature", Op: rline,
					Got: fmt.Sprintf("records=%d ok=%v panic=%v", len(recs), ok, pn), Want: "records=1 ok=true"})
				return
			}
			got := recs[0]
			for j := range tab {
				a, b := itemsOf(tab[j].Props, reg, true), itemsOf(got.Table[j].Props, reg, false)
				sort.Strings(a)
				sort.Strings(b)
				if !sameStrings(a, b) {
					r.fail(Failure{Oracle: "write -> read loses no value of a repeated qualifier name", Op: rline,
						Got: encStr(strings.Join(b, "|")), Want: encStr(strings.Join(a, "|"))})
					return
				}
			}
			for _, ok := range canonicalLocs(tab) {
				if !ok {
					r.count("repeated-name/fixed-point-skipped(non-canonical location)")
					return
				}
			}
			setRegistry(reg)
			text2, p := safeString(got)
			if p {
				r.fail(Failure{Oracle: "the re-read record is written without panic", Op: rline, Got: "PANIC"})
				return
			}
			if adjacent && text2 != text {
				r.fail(Failure{Oracle: "write(read(write r)) = write r byte for byte when the qualifiers of one name are consecutive",
					Op: rline, Got: encStr(text2), Want: encStr(text)})
			}
			if !adjacent {
				if text2 != text {
					r.count("repeated-name/second-write-reordered")
				}
				l1, l2 := strings.Split(text, "\n"), strings.Split(text2, "\n")
				sort.Strings(l1)
				sort.Strings(l2)
				if !sameStrings(l1, l2) {
					r.fail(Failure{Oracle: "the second write of non-adjacent repeated names has the same lines in another order",
						Op: rline, Got: encStr(text2), Want: encStr(text)})
				}
			}
		})
	}
}
