package main

import (
	"fmt"
	"sort"
	"strings"

	"github.com/go-gts/gts"
)

// C12 — Repair re-assembles features fragmented by split/join, changes nothing else.
//
// Protocol ops (answered by both sides):
//   feat.repair F…      -> (F…) | PANIC | NILLOC      gts.Repair on the table
//   feat.repair.rev F…  -> the same; the model iterates the class map in the opposite order
//                          (Go iterates it in a random order on every call)
//   feat.classkey F     -> the grouping text fmt.Sprintf("%q:%q", Key, Props)
//   c12.shape F…        -> the decidable guards of Gts/Spec/RepairGuard.lean (Go re-statement
//                          below), one bit each
//   feat.repair.sorted … , c12.sortshape, c12.k2.sorted: props_c12_sort.go (tables with a class
//                          of more than 12 members, where sort.Sort is no longer insertion sort)
//
// Oracles on the real code, clauses (a)–(g) of the property; a failure is attributed to a
// known finding only when the finding's shape (checked here, in Go) holds for the class /
// table in which the failure occurred.

func init() {
	props["C12"] = propC12
	extraOps["feat.repair"] = c12OpRepair
	extraOps["feat.repair.rev"] = c12OpRepair
	extraOps["feat.classkey"] = func(a []sexp) string {
		return encStr(c12TextKey(decFeature(a[0])))
	}
	extraOps["c12.shape"] = func(a []sexp) string {
		ff := make([]gts.Feature, len(a))
		for i := range a {
			ff[i] = decFeature(a[i])
		}
		return c12ShapeBits(ff)
	}
}

func c12OpRepair(a []sexp) string {
	ff := make([]gts.Feature, len(a))
	for i := range a {
		ff[i] = decFeature(a[i])
	}
	out := gts.Repair(ff)
	return c12EncTable(out)
}

func c12EncTable(ff []gts.Feature) string {
	out := make([]string, len(ff))
	for i, f := range ff {
		if f.Loc == nil {
			return "NILLOC"
		}
		out[i] = encFeature(f)
	}
	return encList(out)
}

func c12Line(op string, ff []gts.Feature) string {
	b := strings.Builder{}
	b.WriteString(op)
	for _, f := range ff {
		b.WriteByte(' ')
		b.WriteString(encFeature(f))
	}
	return b.String()
}

// c12Run: Repair on a private copy, panics caught.
func c12Run(ff []gts.Feature) (out []gts.Feature, panicked bool) {
	defer func() {
		if rec := recover(); rec != nil {
			out, panicked = nil, true
		}
	}()
	cp := make([]gts.Feature, len(ff))
	copy(cp, ff)
	return gts.Repair(cp), false
}

// ---------------------------------------------------------------------------
// keys and shapes

// the text the code groups by
func c12TextKey(f gts.Feature) string { return fmt.Sprintf("%q:%q", f.Key, f.Props) }

// key + qualifiers, injective
func c12TrueKey(f gts.Feature) string { return encStr(f.Key) + encProps(f.Props) }

func c12Classes(ff []gts.Feature, key func(gts.Feature) string) (order []string, m map[string][]int) {
	m = map[string][]int{}
	for i, f := range ff {
		k := key(f)
		if _, ok := m[k]; !ok {
			order = append(order, k)
		}
		m[k] = append(m[k], i)
	}
	return
}

// c12Void: a Joined that flattens to nothing (empty Joined{} literals; outside the domain).
func c12Void(l gts.Location) bool {
	j, ok := l.(gts.Joined)
	if !ok {
		return false
	}
	for _, u := range j {
		if !c12Void(u) {
			return false
		}
	}
	return true
}

type c12Shape struct {
	join  bool // K12G: a member is a Joined location (flattened by Push)
	compl bool // K12B: two or more Complemented members
	site  bool // K12D: >= 2 members, one of them a Between or Point
	other bool // K12E: a member that is neither Ranged, Joined nor Complemented (never merged)
}

func c12ClassShape(ff []gts.Feature, idx []int) c12Shape {
	var s c12Shape
	ncompl := 0
	for _, i := range idx {
		switch ff[i].Loc.(type) {
		case gts.Joined:
			s.join = true
		case gts.Complemented:
			ncompl++
		case gts.Between, gts.Point:
			if len(idx) >= 2 {
				s.site = true
			}
		case gts.Ranged:
		default:
			s.other = true
		}
	}
	s.compl = ncompl >= 2
	return s
}

// c12Attribute names the known finding that explains a failure located in the class of
// feature index at (at < 0: a failure of the whole table), or "".  A panic, a duplicated
// feature or a fusion across different qualifiers has no explanation any more (F18-F20).
func c12Attribute(ff []gts.Feature, at int, cover bool) string {
	if cover {
		// fusing complemented members or flattening a join never changes the covered
		// residues; the only reduction rule that does is K2 (a Point dropped after a Ranged
		// ending there), decided exactly by the model guard `c12.k2` (Failure.Guard)
		return ""
	}
	_, classes := c12Classes(ff, c12TextKey)
	var shapes []c12Shape
	if at >= 0 {
		shapes = append(shapes, c12ClassShape(ff, classes[c12TextKey(ff[at])]))
	} else {
		for _, idx := range classes {
			shapes = append(shapes, c12ClassShape(ff, idx))
		}
	}
	for _, s := range shapes {
		if s.join {
			return "K12G"
		}
	}
	for _, s := range shapes {
		if s.compl {
			return "K12B"
		}
	}
	for _, s := range shapes {
		if s.site {
			return "K12D"
		}
	}
	return ""
}

// c12ShapeBits: the Go re-statement of the Lean guards (Gts/Spec/RepairGuard.lean), in the
// order plain noNil: one bit each.
func c12ShapeBits(ff []gts.Feature) string {
	_, classes := c12Classes(ff, c12TextKey)
	plain, noNil := true, true
	for _, idx := range classes {
		allVoid := true
		for _, i := range idx {
			if _, ok := ff[i].Loc.(gts.Ranged); !ok && len(idx) != 1 {
				plain = false
			}
			if !c12Void(ff[i].Loc) {
				allVoid = false
			}
		}
		if allVoid && len(idx) >= 2 {
			noNil = false
		}
	}
	return b01(plain) + b01(noNil)
}

// c12HasComplClass: some class has two or more Complemented members (the shape of K12B).
func c12HasComplClass(ff []gts.Feature) bool {
	_, classes := c12Classes(ff, c12TextKey)
	for _, idx := range classes {
		if c12ClassShape(ff, idx).compl {
			return true
		}
	}
	return false
}

func c12HasJoin(ff []gts.Feature) bool {
	for _, f := range ff {
		if _, ok := f.Loc.(gts.Joined); ok {
			return true
		}
	}
	return false
}

// ---------------------------------------------------------------------------
// spec side

// mergeable: the pair the property allows Repair to fuse (v before u).
func c12Mergeable(v, u gts.Location, source bool) bool {
	a, ok1 := v.(gts.Ranged)
	b, ok2 := u.(gts.Ranged)
	if !ok1 || !ok2 || a.End != b.Start {
		return false
	}
	return source || (a.Partial.Partial3 && b.Partial.Partial5)
}

func c12HasMergeablePair(ff []gts.Feature) bool {
	_, classes := c12Classes(ff, c12TrueKey)
	for _, idx := range classes {
		src := ff[idx[0]].Key == "source"
		for _, i := range idx {
			for _, j := range idx {
				if i != j && c12Mergeable(ff[i].Loc, ff[j].Loc, src) {
					return true
				}
			}
		}
	}
	return false
}

// c12Explain: can the multiset out be obtained from the multiset in by replacing disjoint
// chains of mergeable ranges by their spans (and nothing else)?
func c12Explain(in, out []gts.Location, source bool) bool {
	// cancel common elements
	cnt := map[string]int{}
	for _, l := range in {
		cnt[encLoc(l)]++
	}
	var created []gts.Ranged
	for _, l := range out {
		k := encLoc(l)
		if cnt[k] > 0 {
			cnt[k]--
			continue
		}
		rg, ok := l.(gts.Ranged)
		if !ok {
			return false
		}
		created = append(created, rg)
	}
	var consumed []gts.Ranged
	for _, l := range in {
		k := encLoc(l)
		if cnt[k] > 0 {
			cnt[k]--
			rg, ok := l.(gts.Ranged)
			if !ok {
				return false
			}
			consumed = append(consumed, rg)
		}
	}
	used := make([]bool, len(consumed))
	// extend a chain that currently ends with cur towards target
	var chain func(cur gts.Ranged, n int, target gts.Ranged, next func() bool) bool
	chain = func(cur gts.Ranged, n int, target gts.Ranged, next func() bool) bool {
		if n >= 2 && cur.End == target.End && cur.Partial.Partial3 == target.Partial.Partial3 {
			if next() {
				return true
			}
		}
		for i, c := range consumed {
			if !used[i] && c12Mergeable(cur, c, source) {
				used[i] = true
				if chain(c, n+1, target, next) {
					return true
				}
				used[i] = false
			}
		}
		return false
	}
	var solve func(k int) bool
	solve = func(k int) bool {
		if k == len(created) {
			for _, u := range used {
				if !u {
					return false
				}
			}
			return true
		}
		t := created[k]
		for i, c := range consumed {
			if !used[i] && c.Start == t.Start && c.Partial.Partial5 == t.Partial.Partial5 {
				used[i] = true
				if chain(c, 1, t, func() bool { return solve(k + 1) }) {
					return true
				}
				used[i] = false
			}
		}
		return false
	}
	return solve(0)
}

func c12PosSet(ls []gts.Location) map[int]bool {
	m := map[int]bool{}
	for _, l := range ls {
		for _, p := range den(l) {
			m[p.x] = true
		}
	}
	return m
}

func c12SetStr(m map[int]bool) string {
	var xs []int
	for x := range m {
		xs = append(xs, x)
	}
	sort.Ints(xs)
	return fmt.Sprint(xs)
}

func c12TableEq(a, b []gts.Feature) bool {
	if len(a) != len(b) {
		return false
	}
	for i := range a {
		if encFeature(a[i]) != encFeature(b[i]) {
			return false
		}
	}
	return true
}

func c12Locs(ff []gts.Feature, idx []int) []gts.Location {
	out := make([]gts.Location, len(idx))
	for j, i := range idx {
		out[j] = ff[i].Loc
	}
	return out
}

// ---------------------------------------------------------------------------
// oracles for one table: clauses (a)–(f)

func c12Table(r *Run, ff []gts.Feature, tag string) {
	// a class of more than 12 members: the ops that carry what sort.Sort returned (props_c12_sort.go)
	big := c12Big(ff)
	line := c12RepairLine(ff, false)
	got := r.op(line)
	r.op(c12RepairLine(ff, true))
	r.op(c12Line("c12.shape", ff))
	if big {
		c12SortOracles(r, ff, line)
	}
	r.count(fmt.Sprintf("%s/features%d", tag, minInt(len(ff), 8)))
	_, tclasses := c12Classes(ff, c12TextKey)
	maxc := 0
	for _, idx := range tclasses {
		maxc = maxInt(maxc, len(idx))
		for _, i := range idx {
			r.count("member/" + c12Kind(ff[i].Loc))
		}
	}
	r.count(fmt.Sprintf("%s/maxclass%d", tag, minInt(maxc, 6)))
	r.eval(line, maxc >= 2)

	// under the guard of the _partial theorems (plain table) clauses (a)–(f) are proved: no
	// known finding can explain a failure there
	bits := c12ShapeBits(ff)
	proved := bits[0] == '1'
	if proved {
		r.count("guard/plain")
	}
	hasJoin := c12HasJoin(ff)
	if len(ff) > 0 {
		r.op(c12Line("feat.classkey", ff[len(ff)-1:]))
	}
	fail := func(oracle, g, want string, at int, cover bool) {
		f := Failure{Oracle: oracle, Op: line, Got: g, Want: want, Finding: c12Attribute(ff, at, cover)}
		if cover && f.Finding == "" {
			f.Guard = c12K2Line(ff)
		}
		if proved {
			f.Finding, f.Guard = "", ""
		}
		r.fail(f)
	}

	// (a) never panics (F18: at full strength; no finding explains a panic)
	out, panicked := c12Run(ff)
	if panicked {
		r.count("result/panic")
		r.fail(Failure{Oracle: "(a) Repair never panics", Op: line, Got: got, Want: "a feature table"})
		return
	}
	for _, f := range out {
		if f.Loc == nil {
			r.count("result/nil")
			if bits[1] == '1' {
				r.fail(Failure{Oracle: "(a) Repair never produces a nil Location", Op: line, Got: got, Want: "a feature table"})
			}
			// else: a class of empty Joined{} literals, outside the domain
			return
		}
	}
	changed := !c12TableEq(out, ff)
	if changed {
		r.count("result/changed")
	} else {
		r.count("result/unchanged")
	}

	// (b) idempotent
	out2, p2 := c12Run(out)
	r.op(c12RepairLine(out, false))
	if p2 {
		r.fail(Failure{Oracle: "(b) Repair is idempotent (second Repair panics)", Op: line, Got: "PANIC", Want: got})
	} else if !c12TableEq(out2, out) {
		// what is known to break idempotence is a class that is written back unsorted: a flattened
		// join (K12G), or fused complemented members (K12B: the inner Join, always with force, can
		// move the fused location to the right of where it was sorted;
		// Gts.C12.idempotent_compl_refuted).  Beyond 12 members sort.Sort is not stable, and the
		// second Repair may then also return ties elsewhere in the class in another order than the
		// first did (Gts.C12.idempotent_with_full_refuted).  On plain tables idempotence is proved.
		f := Failure{Oracle: "(b) Repair is idempotent", Op: line, Got: c12EncTable(out2), Want: got}
		if hasJoin && !proved {
			f.Finding = "K12G"
		} else if !proved && c12HasComplClass(ff) {
			f.Finding = "K12B"
		}
		r.fail(f)
	}

	// (c) no mergeable pair -> unchanged
	if !c12HasMergeablePair(ff) && changed {
		// locate the first class whose members changed
		at := -1
		order, classes := c12Classes(ff, c12TrueKey)
		_, oclasses := c12Classes(out, c12TrueKey)
		for _, k := range order {
			a, b := c12Locs(ff, classes[k]), c12Locs(out, oclasses[k])
			same := len(a) == len(b)
			for j := 0; same && j < len(a); j++ {
				same = locEq(a[j], b[j])
			}
			if !same {
				at = classes[k][0]
				break
			}
		}
		fail("(c) a table without a mergeable pair is unchanged", got, "the input table", at, false)
	}

	// (d)(e)(f) per key+qualifier class
	order, classes := c12Classes(ff, c12TrueKey)
	_, oclasses := c12Classes(out, c12TrueKey)
	for k := range oclasses {
		if _, ok := classes[k]; !ok {
			fail("(e) every feature of the result has the key and qualifiers of an input feature", got, "", -1, false)
		}
	}
	for _, k := range order {
		idx := classes[k]
		in, res := c12Locs(ff, idx), c12Locs(out, oclasses[k])
		src := ff[idx[0]].Key == "source"
		if !c12Explain(in, res, src) {
			fail("(d)(e) the class changes only by fusing chains of same-class ranges that abut 3'-partial to 5'-partial (any abutting ranges for source)",
				encList(c12EncLocs(res)), encList(c12EncLocs(in)), idx[0], false)
		}
		a, b := c12PosSet(in), c12PosSet(res)
		same := len(a) == len(b)
		for x := range a {
			if !b[x] {
				same = false
			}
		}
		if !same {
			fail("(f) the residues covered by a (key, qualifiers) class are unchanged", c12SetStr(b), c12SetStr(a), idx[0], true)
		}
	}
}

func c12EncLocs(ls []gts.Location) []string {
	out := make([]string, len(ls))
	for i, l := range ls {
		out[i] = encLoc(l)
	}
	return out
}

func c12Kind(l gts.Location) string {
	switch v := l.(type) {
	case gts.Joined:
		return "joined"
	case gts.Ordered:
		return "ordered"
	case gts.Complemented:
		return "compl(" + c12Kind(v.Location) + ")"
	case gts.Ranged:
		if v.Partial.Partial5 || v.Partial.Partial3 {
			return "ranged-partial"
		}
		return "ranged"
	}
	return kindOf(l)
}

// ---------------------------------------------------------------------------
// generators

type c12Class struct {
	key   string
	props gts.Props
}

var c12ClassPool = []c12Class{
	{"gene", gts.Props{}},
	{"gene", gts.Props{{"note", "a b"}}},
	{"gene", gts.Props{{"note", "a", "b"}}}, // same %v text as the previous one (F20)
	{"gene", gts.Props{{"note", "a\" \"b"}, {"x\\", "]", "["}}},
	{"ge\"ne", gts.Props{{"note", "a"}, {}}},
	{"CDS", gts.Props{{"gene", "x"}, {"note", "a"}}},
	{"CDS", gts.Props{{"gene", "x"}}},
	{"source", gts.Props{}},
	{"source", gts.Props{{"organism", "E"}}},
	{"misc_feature", gts.Props{{"note", ""}}},
}

// c12GenMember draws a location for a new member of a class whose earlier members are prev:
// biased towards fragments that abut an earlier member.
func c12GenMember(r *rng, L int, prev []gts.Location) gts.Location {
	// the end / start of a random earlier ranged member (through complement)
	anchorS, anchorE := r.intn(L), r.intn(L)+1
	have := false
	var prevCompl bool
	if len(prev) > 0 {
		p := prev[r.intn(len(prev))]
		if c, ok := p.(gts.Complemented); ok {
			p = c.Location
			prevCompl = true
		}
		if rg, ok := p.(gts.Ranged); ok {
			anchorS, anchorE, have = rg.Start, rg.End, true
		}
	}
	rangedAfter := func(s int, bias bool) gts.Location {
		if s >= L {
			s = r.intn(L)
		}
		e := r.rangeInt(s+1, minInt(L, s+1+r.intn(5)))
		pt := partials[r.intn(4)]
		if bias && r.intn(4) != 0 {
			pt.Partial5 = true
		}
		return gts.Ranged{Start: s, End: e, Partial: pt}
	}
	k := r.intn(20)
	switch {
	case k < 6 && have: // the next fragment
		l := rangedAfter(anchorE, true)
		if prevCompl && r.intn(3) != 0 {
			return gts.Complemented{Location: l}
		}
		return l
	case k < 8 && have && anchorS > 0: // the previous fragment
		s := r.intn(anchorS)
		pt := partials[r.intn(4)]
		if r.intn(4) != 0 {
			pt.Partial3 = true
		}
		return gts.Ranged{Start: s, End: anchorS, Partial: pt}
	case k < 9 && have: // a site at the end of an earlier member
		switch r.intn(3) {
		case 0:
			return gts.Between(anchorE)
		case 1:
			return gts.Point(minInt(anchorE, L-1))
		default:
			return gts.Point(maxInt(anchorE-1, 0))
		}
	case k < 10 && len(prev) > 0: // an exact duplicate
		return prev[r.intn(len(prev))]
	case k < 12:
		return gts.Complemented{Location: rangedAfter(r.intn(L), false)}
	case k < 14:
		return gts.Joined(genParts(r, 0, L, 3, false))
	case k < 15:
		return gts.Ordered(genParts(r, 0, L, 3, false))
	case k < 16:
		return genLoc(r, 2, L, 3, true)
	case k < 17:
		s := r.intn(L)
		return gts.Ambiguous{Start: s, End: r.rangeInt(s+1, L)}
	default:
		if r.intn(4) == 0 {
			return genContig(r, L, false)
		}
		l := rangedAfter(r.intn(L), false).(gts.Ranged)
		if r.intn(2) == 0 {
			l.Partial = gts.Partial{Partial5: r.bool(), Partial3: true}
		}
		return l
	}
}

// c12GenTable: 0..maxF features in 1..3 classes of the pool (so that classes of 1..3 and
// more members arise), every location kind, sorted (as FeatureSlice.Insert builds a table)
// or in arbitrary order.
func c12GenTable(r *rng, L, maxF int) []gts.Feature {
	n := r.intn(maxF + 1)
	nc := r.rangeInt(1, 3)
	cls := make([]c12Class, nc)
	for i := range cls {
		cls[i] = c12ClassPool[r.intn(len(c12ClassPool))]
	}
	if nc >= 2 && r.intn(6) == 0 { // the colliding pair
		cls[0], cls[1] = c12ClassPool[1], c12ClassPool[2]
	}
	members := make([][]gts.Location, nc)
	var ff []gts.Feature
	for i := 0; i < n; i++ {
		c := r.intn(nc)
		l := c12GenMember(r, L, members[c])
		members[c] = append(members[c], l)
		ff = append(ff, gts.Feature{Key: cls[c].key, Loc: l, Props: cls[c].props})
	}
	if r.intn(2) == 0 {
		var sorted gts.FeatureSlice
		for _, f := range ff {
			sorted = sorted.Insert(f)
		}
		return sorted
	}
	for i := len(ff) - 1; i > 0; i-- {
		j := r.intn(i + 1)
		ff[i], ff[j] = ff[j], ff[i]
	}
	return ff
}

// ---------------------------------------------------------------------------
// (g) restoration: slice;…;slice;concat;repair

// c12GenUniqueSeq: a sequence whose features all have a table-unique class.
func c12GenUniqueSeq(r *rng, L, maxF int, plainOnly bool) gts.Sequence {
	var ff gts.FeatureSlice
	n := r.rangeInt(1, maxF)
	for i := 0; i < n; i++ {
		key := []string{"gene", "CDS", "misc_feature", "source"}[r.intn(4)]
		props := gts.Props{{"id", fmt.Sprintf("f%d", i)}}
		var l gts.Location
		switch {
		case key == "source" && r.intn(2) == 0:
			l = gts.Range(0, L)
		case plainOnly || r.intn(3) != 0:
			s := r.intn(L)
			l = gts.Ranged{Start: s, End: r.rangeInt(s+1, L), Partial: partials[r.intn(4)]}
		default:
			l = genLoc(r, 2, L, 3, true)
		}
		ff = ff.Insert(gts.Feature{Key: key, Loc: l, Props: props})
	}
	return gts.New(nil, ff, genBytes(r, L))
}

func c12StripSource(ff []gts.Feature) []gts.Feature {
	out := make([]gts.Feature, len(ff))
	for i, f := range ff {
		out[i] = f
		if f.Key == "source" {
			out[i].Loc = gts.VerifAsComplete(f.Loc)
		}
	}
	return out
}

// c12RestoreFinding: which known finding explains that feature f (cut into npieces pieces)
// did not come back.
func c12RestoreFinding(f gts.Feature, npieces int) string {
	if npieces < 2 {
		return ""
	}
	switch f.Loc.(type) {
	case gts.Ranged:
		return ""
	case gts.Joined:
		return "K12G"
	case gts.Complemented:
		return "K12B"
	default:
		return "K12E"
	}
}

func c12Restore(r *Run, s gts.Sequence, cuts []int) {
	L := len(s.Bytes())
	pts := append(append([]int{0}, cuts...), L)
	pl := "seq.concat"
	pieces := make([]gts.Sequence, 0, len(pts)-1)
	npieces := map[string]int{}
	for j := 0; j+1 < len(pts); j++ {
		pc := gts.Slice(copySeq(s), pts[j], pts[j+1])
		r.op(fmt.Sprintf("seq.slice %s %d %d", encSeq(s), pts[j], pts[j+1]))
		pieces = append(pieces, pc)
		pl += " " + encSeq(pc)
		for _, f := range pc.Features() {
			npieces[c12TrueKey(f)]++
		}
	}
	r.op(pl)
	cat := gts.Concat(pieces...)
	table := append([]gts.Feature{}, cat.Features()...)
	line := c12Line("feat.repair", table)
	got := r.op(line)
	r.count(fmt.Sprintf("restore/cuts%d", len(cuts)))
	orig := c12StripSource(s.Features())
	ncut := 0
	for _, f := range orig {
		if npieces[c12TrueKey(f)] >= 2 {
			ncut++
			r.count("restore/cut-" + c12Kind(f.Loc))
		}
	}
	r.eval(line, ncut > 0)

	// uncut features must have survived slice;concat unchanged, else the case says nothing
	// about Repair (zero-length sites at a cut position are dropped by Slice)
	for _, f := range orig {
		if npieces[c12TrueKey(f)] < 2 {
			found := false
			for _, g := range c12StripSource(table) {
				if encFeature(g) == encFeature(f) {
					found = true
				}
			}
			if !found {
				r.count("restore/skipped-uncut-feature-altered-by-slice-concat")
				return
			}
		}
	}

	out, panicked := c12Run(table)
	if panicked {
		r.fail(Failure{Oracle: "(g)(a) slice;concat;repair never panics", Op: line, Got: got})
		return
	}
	out = c12StripSource(out)
	if c12TableEq(out, orig) {
		r.count("restore/restored")
		return
	}
	// which features differ?
	finding, bad := "", ""
	have := map[string]bool{}
	for _, g := range out {
		have[encFeature(g)] = true
	}
	allExplained := true
	for _, f := range orig {
		if !have[encFeature(f)] {
			fd := c12RestoreFinding(f, npieces[c12TrueKey(f)])
			if fd == "" {
				allExplained = false
				bad = encFeature(f)
			} else if finding == "" {
				finding = fd
			}
		}
	}
	if len(out) == len(orig) && finding == "" && allExplained {
		// every feature is back, only the table order differs
		r.count("restore/order-differs")
		r.fail(Failure{Oracle: "(g) slice;concat;repair restores the table order", Op: line, Got: got, Want: encList(c12EncFeats(orig)), Finding: "K12F"})
		return
	}
	if !allExplained {
		finding = ""
	}
	r.fail(Failure{Oracle: "(g) slice;concat;repair restores every cut feature with a table-unique class", Op: line,
		Got: got, Want: encList(c12EncFeats(orig)) + " first missing " + bad, Finding: finding})
}

func c12EncFeats(ff []gts.Feature) []string {
	out := make([]string, len(ff))
	for i, f := range ff {
		out[i] = encFeature(f)
	}
	return out
}

func c12GenCuts(r *rng, L int) []int {
	n := r.rangeInt(1, 3)
	set := map[int]bool{}
	for len(set) < n && len(set) < L-1 {
		set[r.rangeInt(1, L-1)] = true
	}
	var cuts []int
	for c := range set {
		cuts = append(cuts, c)
	}
	sort.Ints(cuts)
	return cuts
}

// ---------------------------------------------------------------------------

func propC12(r *Run) {
	defer c12CliRepair(r)
	thorough := r.tier == "thorough"
	r.exhaustive = true

	// hand-written witnesses and corner cases
	g := func(l gts.Location) gts.Feature { return gts.Feature{Key: "gene", Loc: l, Props: gts.Props{}} }
	fixed := [][]gts.Feature{
		{},
		{g(gts.Joined{gts.Range(0, 3), gts.Range(5, 8)})},
		{g(gts.Joined{}), g(gts.Joined{})},
		{g(gts.Joined{})},
		{g(gts.Complemented{Location: gts.Range(0, 3)}), g(gts.Complemented{Location: gts.Range(5, 8)})},
		{g(gts.Range(0, 3)), g(gts.Point(3))},
		{g(gts.Point(3)), g(gts.Point(3))},
		{g(gts.Range(0, 3)), g(gts.Between(3))},
		{{Key: "gene", Loc: gts.PartialRange(0, 3, gts.Partial3), Props: gts.Props{{"note", "a b"}}},
			{Key: "gene", Loc: gts.PartialRange(3, 6, gts.Partial5), Props: gts.Props{{"note", "a", "b"}}}},
	}
	// the witnesses of the theorems in Gts/Props/C12.lean
	cds := func(l gts.Location) gts.Feature { return gts.Feature{Key: "CDS", Loc: l, Props: gts.Props{}} }
	fixed = append(fixed,
		[]gts.Feature{g(gts.PartialRange(0, 2, gts.Partial3)), cds(gts.Point(1)), g(gts.PartialRange(2, 4, gts.Partial5))},
		[]gts.Feature{g(gts.Joined{gts.Range(0, 1), gts.Range(2, 3)}), g(gts.Range(4, 5)), g(gts.Range(6, 7)),
			cds(gts.PartialRange(10, 12, gts.Partial3)), cds(gts.PartialRange(12, 14, gts.Partial5))},
		[]gts.Feature{g(gts.PartialRange(0, 2, gts.Partial3)), g(gts.PartialRange(2, 4, gts.PartialBoth)), g(gts.PartialRange(4, 5, gts.Partial5)),
			g(gts.Joined{gts.Range(6, 15), gts.Between(6)})},
		[]gts.Feature{g(gts.Range(0, 5)), g(gts.Range(6, 15)), g(gts.Between(6))},
		[]gts.Feature{g(gts.Ambiguous{Start: 0, End: 5}), g(gts.Ambiguous{Start: 5, End: 9})},
		// idempotent_compl_refuted
		[]gts.Feature{g(gts.Complemented{Location: gts.Joined{gts.Range(1, 3), gts.PartialRange(3, 6, gts.Partial5), gts.PartialRange(6, 7, gts.Partial5)}}),
			g(gts.PartialRange(1, 4, gts.Partial3)),
			g(gts.Complemented{Location: gts.Joined{gts.Range(1, 3), gts.PartialRange(3, 6, gts.Partial5), gts.PartialRange(6, 7, gts.Partial5)}}),
			g(gts.Complemented{Location: gts.Ambiguous{Start: 2, End: 3}})},
		[]gts.Feature{g(gts.Range(0, 3)), g(gts.Range(3, 6)), g(gts.PartialRange(6, 8, gts.Partial3)),
			g(gts.PartialRange(9, 12, gts.Partial5)), g(gts.PartialRange(1, 2, gts.PartialBoth)), g(gts.PartialRange(1, 2, gts.PartialBoth))},
		[]gts.Feature{g(gts.Complemented{Location: gts.Range(0, 3)}), g(gts.Complemented{Location: gts.Range(5, 8)}),
			g(gts.Between(3)), g(gts.PartialRange(8, 9, gts.Partial3)), g(gts.PartialRange(9, 12, gts.Partial5))},
	)
	// … and of Gts/Props/C12Sort.lean (ties; a 13-member class sorted by pdqsort)
	fixed = append(fixed, c12SortFixed()...)
	for _, ff := range fixed {
		c12Table(r, ff, "fixed")
	}
	// … and of the two restoration refutations
	c12Restore(r, gts.New(nil, []gts.Feature{g(gts.Complemented{Location: gts.Range(0, 6)})}, []byte("acgtac")), []int{3})
	c12Restore(r, gts.New(nil, []gts.Feature{cds(gts.PartialRange(1, 2, gts.PartialBoth)), g(gts.Range(1, 3))}, []byte("acgt")), []int{1, 2})

	// exhaustive small scope: every table of 2 features over a location set and two classes,
	// every table of 3 same-class features over a smaller set
	var locs2 []gts.Location
	for _, c := range allContig(3, true) {
		locs2 = append(locs2, c)
	}
	for _, c := range []gts.Location{gts.Range(0, 1), gts.Range(1, 3), gts.PartialRange(1, 2, gts.Partial3)} {
		locs2 = append(locs2, gts.Complemented{Location: c})
	}
	locs2 = append(locs2, gts.Joined{gts.Range(0, 1), gts.Range(2, 3)}, gts.Joined{gts.PartialRange(0, 1, gts.Partial3), gts.PartialRange(1, 2, gts.Partial5)},
		gts.Ordered{gts.Range(0, 1), gts.Range(2, 3)})
	cl := []c12Class{c12ClassPool[0], c12ClassPool[5]}
	for _, a := range locs2 {
		for _, b := range locs2 {
			for _, ca := range cl {
				for _, cb := range cl {
					c12Table(r, []gts.Feature{{Key: ca.key, Loc: a, Props: ca.props}, {Key: cb.key, Loc: b, Props: cb.props}}, "pairs")
				}
			}
		}
	}
	locs3 := []gts.Location{
		gts.PartialRange(0, 2, gts.Partial3), gts.PartialRange(2, 4, gts.PartialBoth), gts.PartialRange(4, 6, gts.Partial5),
		gts.Range(2, 4), gts.Range(0, 4), gts.Point(2), gts.Between(2), gts.Point(4),
		gts.Complemented{Location: gts.PartialRange(0, 2, gts.Partial3)}, gts.Complemented{Location: gts.PartialRange(2, 4, gts.Partial5)},
		gts.Joined{gts.Range(0, 1), gts.Range(3, 4)},
	}
	if thorough {
		locs3 = append(locs3, gts.Ambiguous{Start: 0, End: 2}, gts.Ordered{gts.Range(0, 1), gts.Range(3, 4)}, gts.PartialRange(1, 2, gts.PartialBoth))
	}
	for _, a := range locs3 {
		for _, b := range locs3 {
			for _, c := range locs3 {
				c12Table(r, []gts.Feature{g(a), g(b), g(c)}, "triples")
			}
		}
	}
	r.notes = append(r.notes, fmt.Sprintf("exhaustive: all 2-feature tables over %d locations x 2 classes (gene, source); all 3-feature one-class tables over %d locations", len(locs2), len(locs3)))

	// seeded random tables
	nRandom := 3000
	if thorough {
		nRandom = 40000
	}
	for t := 0; t < nRandom; t++ {
		L := r.rng.rangeInt(4, 16)
		maxF := 6
		if t%5 == 0 {
			maxF = 9 // classes of 5+ members: spare capacity 8
		}
		ff := c12GenTable(r.rng, L, maxF)
		c12Table(r, ff, "random")
		if t < 4 {
			r.sample(c12Line("feat.repair", ff))
		}
	}

	// classes beyond the insertion-sort threshold of sort.Sort (13..32 members), with ties
	nBig := 400
	if thorough {
		nBig = 6000
	}
	for t := 0; t < nBig; t++ {
		ff := c12GenBigTable(r.rng)
		c12Table(r, ff, "big")
		if t < 2 {
			r.sample(c12RepairLine(ff, false))
		}
	}

	// (g) programs slice;…;slice;concat;repair on sequences with table-unique classes
	nProg := 1500
	if thorough {
		nProg = 20000
	}
	for t := 0; t < nProg; t++ {
		L := r.rng.rangeInt(3, 20)
		s := c12GenUniqueSeq(r.rng, L, 5, t%2 == 0)
		cuts := c12GenCuts(r.rng, L)
		c12Restore(r, s, cuts)
		if t < 3 {
			r.sample(fmt.Sprintf("slice;concat;repair %s cuts %v", encSeq(s), cuts))
		}
	}
}
