package main

// C11 — the location methods in memory (op `mem.loc`).
//
// A receiver is laid out in a heap of `[]gts.Location` arrays the way the theorems of
// Gts/Props/C11Fresh.lean quantify over it: every Joined / Ordered is a window
// `arr[off : off+len : off+cap]` of some array (cells before / behind the window hold other
// values, spare capacity), a part that occurs twice is ONE slice (or two overlapping windows of one
// array).  The real method runs, then EVERY array is dumped (whole array, every cell, slice headers
// resolved back to (array, offset, len, cap) by pointer) and the result is printed as a GRAPH:
// a slice header that points into an argument array is printed as such, an array allocated by the
// call is numbered by first visit.  So the answer states exactly which slices of the result are
// slices of the receiver — the pointer identity the freshness theorems are about.
//
//   correspondence: the Lean heap programs (Gts/Model/MemLoc.lean via OpsMem.lean) must predict
//   dump and graph symbol for symbol.
//
//   oracle (real code only): the dump equals the input heap (FRAME); for Expand / Shift /
//   Normalize / Reverse / the asComplete call site the graph contains no header into an argument
//   array and visits no new array twice (FRESH, and a tree); Complement shares, by design.
//
//   mem.loc <method> (H (cell…)…) <root cell> <args…>
//   cell = (B p) | (P p) | (R s e p5 p3) | (A s e) | (MJ arr off len cap) | (MO arr off len cap) | (MC cell)

import (
	"fmt"
	"reflect"
	"strings"
	"unsafe"

	"github.com/go-gts/gts"
)

func init() {
	extraOps["mem.loc"] = c11LocOp
}

type c11LocWorld struct {
	arrays [][]gts.Location
}

const c11LocCell = unsafe.Sizeof(gts.Location(nil))

func c11LocBuild(h sexp) *c11LocWorld {
	w := &c11LocWorld{}
	if !h.isL || len(h.list) == 0 || h.list[0].atom != "H" {
		panic("bad location heap")
	}
	// cells refer to arrays with a smaller index only: build in order
	for _, arr := range h.list[1:] {
		cells := make([]gts.Location, len(arr.list))
		for i, c := range arr.list {
			cells[i] = w.cell(c)
		}
		w.arrays = append(w.arrays, cells)
	}
	return w
}

func (w *c11LocWorld) window(args []sexp) []gts.Location {
	a, off, n, c := decInt(args[0]), decInt(args[1]), decInt(args[2]), decInt(args[3])
	return w.arrays[a][off : off+n : off+c]
}

func (w *c11LocWorld) cell(s sexp) gts.Location {
	if s.isL && len(s.list) > 0 {
		switch s.list[0].atom {
		case "MJ":
			return gts.Joined(w.window(s.list[1:]))
		case "MO":
			return gts.Ordered(w.window(s.list[1:]))
		case "MC":
			return gts.Complemented{Location: w.cell(s.list[1])}
		}
	}
	return decLoc(s)
}

// find resolves a slice header to (array, offset) of the world
func (w *c11LocWorld) find(s []gts.Location) (int, int, bool) {
	p := reflect.ValueOf(s).Pointer()
	for a, arr := range w.arrays {
		if len(arr) == 0 {
			continue
		}
		base := reflect.ValueOf(arr).Pointer()
		if base <= p && p < base+uintptr(len(arr))*c11LocCell {
			return a, int((p - base) / c11LocCell), true
		}
	}
	return 0, 0, false
}

func (w *c11LocWorld) encHeader(tag string, s []gts.Location) (string, bool) {
	if cap(s) == 0 {
		return "(M" + tag + " ~)", true
	}
	if a, off, ok := w.find(s); ok {
		return fmt.Sprintf("(M%s %d %d %d %d)", tag, a, off, len(s), cap(s)), true
	}
	return "", false
}

func (w *c11LocWorld) encCellArg(l gts.Location) string {
	switch v := l.(type) {
	case gts.Joined:
		if s, ok := w.encHeader("J", v); ok {
			return s
		}
		return "(?J)"
	case gts.Ordered:
		if s, ok := w.encHeader("O", v); ok {
			return s
		}
		return "(?O)"
	case gts.Complemented:
		return "(MC " + w.encCellArg(v.Location) + ")"
	}
	return encLoc(l)
}

func (w *c11LocWorld) dump() string {
	b := strings.Builder{}
	b.WriteString("(H")
	for _, arr := range w.arrays {
		cells := make([]string, len(arr))
		for i, c := range arr {
			cells[i] = w.encCellArg(c)
		}
		b.WriteString(" (" + strings.Join(cells, " ") + ")")
	}
	b.WriteString(")")
	return b.String()
}

func (w *c11LocWorld) encGraph(l gts.Location, seen map[uintptr]int, b *strings.Builder) {
	slice := func(tag string, s []gts.Location) {
		if h, ok := w.encHeader(tag, s); ok {
			b.WriteString(h)
			return
		}
		p := reflect.ValueOf(s).Pointer()
		if k, ok := seen[p]; ok {
			fmt.Fprintf(b, "(N%s %d)", tag, k)
			return
		}
		k := len(seen)
		seen[p] = k
		fmt.Fprintf(b, "(N%s %d %d", tag, k, len(s))
		for _, c := range s {
			b.WriteByte(' ')
			w.encGraph(c, seen, b)
		}
		b.WriteByte(')')
	}
	switch v := l.(type) {
	case gts.Joined:
		slice("J", v)
	case gts.Ordered:
		slice("O", v)
	case gts.Complemented:
		b.WriteString("(MC ")
		w.encGraph(v.Location, seen, b)
		b.WriteByte(')')
	default:
		b.WriteString(encLoc(l))
	}
}

func c11LocOp(a []sexp) string {
	w := c11LocBuild(a[1])
	m := w.cell(a[2])
	x := a[3:]
	var res gts.Location
	switch a[0].atom {
	case "expand":
		res = m.Expand(decInt(x[0]), decInt(x[1]))
	case "shift":
		res = m.Shift(decInt(x[0]), decInt(x[1]))
	case "normalize":
		res = m.Normalize(decInt(x[0]))
	case "reverse":
		res = m.Reverse(decInt(x[0]))
	case "complement":
		res = m.Complement()
	case "slice":
		// the location part of the loop body of gts.Slice (sequence.go:276-279)
		L, start, end := decInt(x[0]), decInt(x[1]), decInt(x[2])
		res = m.Expand(end, end-L).Expand(0, -start)
		if x[3].atom == "1" {
			res = gts.VerifAsComplete(res)
		}
	default:
		panic("bad location method")
	}
	b := strings.Builder{}
	w.encGraph(res, map[uintptr]int{}, &b)
	return w.dump() + " " + b.String()
}

// ---------------------------------------------------------------------------
// generator: a location value laid out as text

type c11LocLayout struct {
	r      *Run
	L      int
	arrays []string
	sizes  []int
	memo   map[uintptr]string // a part that occurs twice is one slice
	shared int
	offset int
	spare  int
}

func (g *c11LocLayout) filler() string {
	return encLoc(genContig(g.r.rng, g.L, true))
}

func (g *c11LocLayout) slice(tag string, parts []gts.Location) string {
	key := reflect.ValueOf(parts).Pointer()
	if s, ok := g.memo[key]; ok && strings.HasPrefix(s, "(M"+tag+" ") {
		g.shared++
		if g.r.rng.intn(3) == 0 {
			// an overlapping window of the same array: the first len-1 cells
			var a, off, n, c int
			fmt.Sscanf(s, "(M"+tag+" %d %d %d %d)", &a, &off, &n, &c)
			if n >= 2 {
				return fmt.Sprintf("(M%s %d %d %d %d)", tag, a, off, n-1, c)
			}
		}
		return s
	}
	cells := []string{}
	pre := 0
	if g.r.rng.intn(3) == 0 {
		pre = g.r.rng.rangeInt(1, 2)
		g.offset++
	}
	for i := 0; i < pre; i++ {
		cells = append(cells, g.filler())
	}
	for _, p := range parts {
		cells = append(cells, g.cell(p))
	}
	post := 0
	if g.r.rng.intn(2) == 0 {
		post = g.r.rng.rangeInt(1, 3)
	}
	for i := 0; i < post; i++ {
		cells = append(cells, g.filler())
	}
	capacity := len(parts) + g.r.rng.intn(post+1)
	if capacity > len(parts) {
		g.spare++
	}
	a := len(g.arrays)
	g.arrays = append(g.arrays, "("+strings.Join(cells, " ")+")")
	s := fmt.Sprintf("(M%s %d %d %d %d)", tag, a, pre, len(parts), capacity)
	g.memo[key] = s
	return s
}

func (g *c11LocLayout) cell(l gts.Location) string {
	switch v := l.(type) {
	case gts.Joined:
		return g.slice("J", v)
	case gts.Ordered:
		return g.slice("O", v)
	case gts.Complemented:
		return "(MC " + g.cell(v.Location) + ")"
	}
	return encLoc(l)
}

// c11SplitAnswer cuts `(H …) graph` into its two parts
func c11SplitAnswer(ans string) (string, string) {
	depth := 0
	for i, c := range ans {
		switch c {
		case '(':
			depth++
		case ')':
			depth--
			if depth == 0 {
				return ans[:i+1], strings.TrimSpace(ans[i+1:])
			}
		}
	}
	return ans, ""
}

func (r *Run) c11LocMethods() {
	rounds := 6000
	if r.tier == "thorough" {
		rounds = 60000
	}
	methods := []string{"expand", "expand", "expand", "slice", "slice", "shift", "normalize", "reverse", "complement"}
	for it := 0; it < rounds; it++ {
		L := r.rng.rangeInt(4, 20)
		l := genLoc(r.rng, 3, L, 4, true)
		if r.rng.intn(3) == 0 {
			l = c11ShareParts(r.rng, l)
		}
		g := &c11LocLayout{r: r, L: L, memo: map[uintptr]string{}}
		root := g.cell(l)
		heap := "(H"
		for _, a := range g.arrays {
			heap += " " + a
		}
		heap += ")"
		meth := methods[it%len(methods)]
		args := ""
		switch meth {
		case "expand", "shift":
			args = fmt.Sprintf("%d %d", r.rng.rangeInt(0, L), r.rng.rangeInt(-5, 5))
		case "normalize":
			args = itoa(r.rng.rangeInt(maxInt(1, L/2), L))
		case "reverse":
			args = itoa(L)
		case "slice":
			start := r.rng.intn(L)
			end := r.rng.rangeInt(start, L)
			args = fmt.Sprintf("%d %d %d %s", L, start, end, b01(r.rng.bool()))
		}
		line := strings.TrimSpace(fmt.Sprintf("mem.loc %s %s %s %s", meth, heap, root, args))
		ans := r.op(line)
		r.count("mem.loc/" + meth + "/" + c11TopKind(l))
		if g.shared > 0 {
			r.count("mem.loc/layout/shared-slice")
		}
		if g.offset > 0 {
			r.count("mem.loc/layout/offset")
		}
		if g.spare > 0 {
			r.count("mem.loc/layout/spare-capacity")
		}
		if ans == "PANIC" {
			r.count("skipped/panic")
			continue
		}
		dump, graph := c11SplitAnswer(ans)
		if dump != heap {
			r.fail(Failure{Oracle: "a location method writes into no array that existed before the call (every cell of every array of location cells)",
				Op: line, Got: dump, Want: heap})
		}
		if meth != "complement" {
			if strings.Contains(graph, "(MJ ") || strings.Contains(graph, "(MO ") {
				// `(MJ ~)` (no capacity) is not a slice of anything
				if g2 := strings.ReplaceAll(strings.ReplaceAll(graph, "(MJ ~)", ""), "(MO ~)", ""); strings.Contains(g2, "(MJ ") || strings.Contains(g2, "(MO ") {
					r.fail(Failure{Oracle: "fresh: the result of " + meth + " contains no slice of an array of its receiver",
						Op: line, Got: graph})
				}
			}
			if c11Revisits(graph) {
				r.fail(Failure{Oracle: "tree: the result of " + meth + " reaches every new array once",
					Op: line, Got: graph})
			}
			if strings.Contains(graph, "(NJ ") || strings.Contains(graph, "(NO ") {
				r.count("mem.loc/result/new-array")
			} else {
				r.count("mem.loc/result/value-only")
			}
		} else if strings.Contains(graph, "(MJ ") || strings.Contains(graph, "(MO ") {
			r.count("mem.loc/complement/shares-receiver")
		}
		r.eval(line, len(g.arrays) > 0)
	}
}

func c11TopKind(l gts.Location) string {
	switch v := l.(type) {
	case gts.Joined:
		return fmt.Sprintf("join%d", len(v))
	case gts.Ordered:
		return fmt.Sprintf("order%d", len(v))
	case gts.Complemented:
		return "complement"
	}
	return "contiguous"
}

// c11ShareParts makes a composite part of a join / order occur a second time — the same slice
// value, as `parts = append(parts, parts[i])` does in user code
func c11ShareParts(g *rng, l gts.Location) gts.Location {
	composite := func(x gts.Location) bool {
		if c, ok := x.(gts.Complemented); ok {
			x = c.Location
		}
		switch x.(type) {
		case gts.Joined, gts.Ordered:
			return true
		}
		return false
	}
	dup := func(parts []gts.Location) []gts.Location {
		for i, p := range parts {
			if composite(p) {
				out := append([]gts.Location{}, parts...)
				j := g.intn(len(out) + 1)
				out = append(out, nil)
				copy(out[j+1:], out[j:])
				out[j] = parts[i]
				return out
			}
		}
		return parts
	}
	switch v := l.(type) {
	case gts.Joined:
		return gts.Joined(dup(v))
	case gts.Ordered:
		return gts.Ordered(dup(v))
	case gts.Complemented:
		return gts.Complemented{Location: c11ShareParts(g, v.Location)}
	}
	return l
}

// c11Revisits: a second visit of a new array is printed `(NJ k)` / `(NO k)` — two fields only
func c11Revisits(graph string) bool {
	for _, tag := range []string{"(NJ ", "(NO "} {
		rest := graph
		for {
			i := strings.Index(rest, tag)
			if i < 0 {
				break
			}
			rest = rest[i+len(tag):]
			j := strings.IndexAny(rest, " )")
			if j >= 0 && rest[j] == ')' {
				return true
			}
		}
	}
	return false
}
