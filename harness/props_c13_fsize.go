package main

// C13, I/O faults of the writer: the file system refuses to grow the entry (full disk, quota,
// file-size limit) at some point of Create / Write / Close.  Whatever happens, a caller that sees
// Close succeed must be able to open the entry and read back exactly what it wrote (seeded change
// C13-g: the error of the final deflate flush inside Close discarded — the entry verifies and
// holds a prefix).  The fault is injected with RLIMIT_FSIZE (SIGXFSZ ignored, so writes fail with
// EFBIG) in a CHILD process: `harness -replay "cache.fsize <limit> <n> <level>"`.

import (
	"bytes"
	"crypto/sha1"
	"fmt"
	"io/ioutil"
	"os"
	"os/exec"
	"os/signal"
	"strings"
	"syscall"

	"github.com/go-gts/gts/cmd/cache"
)

func init() {
	extraOps["cache.fsize"] = func(a []sexp) string {
		if len(a) < 3 {
			return "ERR"
		}
		return c13FsizeChild(decInt(a[0]), decInt(a[1]), decInt(a[2]))
	}
}

// c13FsizeChild runs in its own process (it lowers the soft file-size limit of the process).
func c13FsizeChild(limit, n, level int) string {
	dir, err := ioutil.TempDir("", "c13-fsize-")
	if err != nil {
		return "SKIP tempdir"
	}
	defer os.RemoveAll(dir)
	body := make([]byte, n)
	x := uint32(2463534242)
	for i := range body {
		x ^= x << 13
		x ^= x >> 17
		x ^= x << 5
		body[i] = byte(x >> 11)
	}
	rsum, qsum := sha1.Sum([]byte("root")), sha1.Sum([]byte("data"))
	signal.Ignore(syscall.SIGXFSZ)
	var old syscall.Rlimit
	if err := syscall.Getrlimit(syscall.RLIMIT_FSIZE, &old); err != nil {
		return "SKIP getrlimit"
	}
	lim := old
	lim.Cur = uint64(limit)
	if err := syscall.Setrlimit(syscall.RLIMIT_FSIZE, &lim); err != nil {
		return "SKIP setrlimit"
	}
	restore := func() { syscall.Setrlimit(syscall.RLIMIT_FSIZE, &old) }
	f, err := cache.CreateLevel(dir, sha1.New(), rsum[:], qsum[:], level)
	if err != nil {
		restore()
		return "create-error"
	}
	var werr error
	for i := 0; i < len(body) && werr == nil; i += 512 {
		j := i + 512
		if j > len(body) {
			j = len(body)
		}
		_, werr = f.Write(body[i:j])
	}
	cerr := f.Close()
	restore()
	if werr != nil || cerr != nil {
		return fmt.Sprintf("reported write-error=%v close-error=%v", werr != nil, cerr != nil)
	}
	g, err := cache.Open(dir, sha1.New(), rsum[:], qsum[:])
	if err != nil {
		if g != nil {
			g.Close()
		}
		return "unreported: open fails"
	}
	defer g.Close()
	got, rerr := ioutil.ReadAll(g)
	if rerr != nil || !bytes.Equal(got, body) {
		return fmt.Sprintf("unreported: read %d of %d bytes, error=%v", len(got), len(body), rerr != nil)
	}
	return "ok"
}

func c13Fsize(r *Run) {
	exe, err := os.Executable()
	if err != nil {
		r.notes = append(r.notes, "cache.fsize: os.Executable unavailable, skipped")
		return
	}
	limits := []int{1, 30, 59, 60, 61, 100, 500, 1060, 2000, 4096, 5000, 70000}
	sizes := []int{0, 10, 3000, 40000}
	if r.tier == "thorough" {
		for l := 0; l < 6000; l += 97 {
			limits = append(limits, l)
		}
		sizes = append(sizes, 100, 70000, 140000)
	}
	for _, n := range sizes {
		for _, limit := range limits {
			for _, level := range []int{-1, 0} {
				line := fmt.Sprintf("cache.fsize %d %d %d", limit, n, level)
				crumb(line)
				out, err := exec.Command(exe, "-replay", line).Output()
				ans := strings.TrimSpace(string(out))
				if err != nil {
					ans = "child failed: " + err.Error()
				}
				r.count("fsize/" + strings.SplitN(ans, " ", 2)[0])
				r.eval(line, strings.HasPrefix(ans, "reported"))
				if strings.HasPrefix(ans, "unreported") || strings.HasPrefix(ans, "child failed") || strings.HasPrefix(ans, "PANIC") {
					r.fail(Failure{Oracle: "a writer whose file cannot grow (file-size limit) reports an error from Write or Close, or leaves an entry that opens and reads back exactly what was written", Op: line, Got: ans, Want: "reported … | ok"})
				}
			}
		}
	}
	r.notes = append(r.notes, "I/O faults of the writer: RLIMIT_FSIZE in a child process, limits around the header size (60) and inside the body, bodies 0..40000 (140000 thorough), levels -1 and 0")
}
