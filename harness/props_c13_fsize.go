package main

// C13, I/O faults of the writer: the file system refuses to grow the entry (full disk, quota,
// file-size limit) at some point of Create / Write / Close.  Whatever happens, a caller that sees
// Close succeed must be able to open the entry and read back exactly what it wrote (seeded change
// C13-g: the error of the final deflate flush inside Close discarded — the entry verifies and
// holds a prefix).  The fault is injected with RLIMIT_FSIZE (SIGXFSZ ignored, so writes fail with
// EFBIG) in a CHILD process: `harness -replay "cache.fsize <limit> <n> <level>"`.

import (
	"bytes"
	"crypto/sha1"
	"fmt"
	"io/ioutil"
	"os"
	"os/exec"
	"os/signal"
	"path/filepath"
	"strings"
	"syscall"

	"github.com/go-gts/gts/cmd/cache"
)

func init() {
	extraOps["cache.fsize"] = func(a []sexp) string {
		if len(a) < 3 {
			return "ERR"
		}
		return c13FsizeChild(decInt(a[0]), decInt(a[1]), decInt(a[2]))
	}
	// the same run, answering with the OBSERVATION (errors returned, bytes left on disk) instead of
	// a verdict; child process only
	extraOps["cache.fsizeobs"] = func(a []sexp) string {
		if len(a) < 3 {
			return "ERR"
		}
		return c13FsizeObs(decInt(a[0]), decInt(a[1]), decInt(a[2]))
	}
	// Go re-statement of the outcome set of the Lean fault model (Gts/Model/CacheFault.lean
	// `runSession`) for file-size faults, tied to the Lean definitions by the correspondence run:
	//   cache.fault x<r> x<q> x<deflated> x<disk> x<H(disk[3d:])> <write-error> <close-error>
	//   cache.faultcreate <d> x<disk>
	extraOps["cache.fault"] = func(a []sexp) string {
		if len(a) < 7 {
			return "ERR"
		}
		return b01(c13FaultFits(decBytes(a[0]), decBytes(a[1]), decBytes(a[2]), decBytes(a[3]), decBytes(a[4]), decInt(a[5]) == 1, decInt(a[6]) == 1))
	}
	extraOps["cache.faultcreate"] = func(a []sexp) string {
		if len(a) < 2 {
			return "ERR"
		}
		disk := decBytes(a[1])
		return b01(len(disk) < 3*decInt(a[0]) && c13IsZero(disk))
	}
}

// c13FaultFits: is (disk, errors) an outcome of `CreateLevel` (working); one `Write` that either
// works or fails with k bytes of the stream on disk; `Close` whose flush either works or fails with
// k bytes of the stream on disk and whose other steps work — for the constant digest `bsum` and the
// complete stream `z`?  (k is determined by the length of the file.)
func c13FaultFits(r, q, z, disk, bsum []byte, werr, cerr bool) bool {
	d3 := 3 * len(bsum)
	hdr := append(append(c13Clone(r), q...), bsum...)
	if len(hdr) != d3 || len(disk) < d3 || !bytes.Equal(disk[:d3], hdr) {
		return false
	}
	body := disk[d3:]
	switch {
	case werr:
		// the flate writer is broken: Close reports it (sticky) and adds nothing
		return cerr && len(body) <= len(z) && bytes.Equal(body, z[:len(body)])
	case cerr:
		return len(body) <= len(z) && bytes.Equal(body, z[:len(body)])
	}
	return bytes.Equal(body, z)
}

func c13FsizeBody(n int) []byte {
	body := make([]byte, n)
	x := uint32(2463534242)
	for i := range body {
		x ^= x << 13
		x ^= x >> 17
		x ^= x << 5
		body[i] = byte(x >> 11)
	}
	return body
}

// c13FsizeObs runs in its own process: CreateLevel; Write in chunks of 512 until one fails; Close —
// under the file-size limit; answers `create-error x<disk>` or `obs <werr> <cerr> x<disk>`.
func c13FsizeObs(limit, n, level int) string {
	dir, err := ioutil.TempDir("", "c13-fsize-")
	if err != nil {
		return "SKIP tempdir"
	}
	defer os.RemoveAll(dir)
	body := c13FsizeBody(n)
	rsum, qsum := sha1.Sum([]byte("root")), sha1.Sum([]byte("data"))
	signal.Ignore(syscall.SIGXFSZ)
	var old syscall.Rlimit
	if err := syscall.Getrlimit(syscall.RLIMIT_FSIZE, &old); err != nil {
		return "SKIP getrlimit"
	}
	lim := old
	lim.Cur = uint64(limit)
	if err := syscall.Setrlimit(syscall.RLIMIT_FSIZE, &lim); err != nil {
		return "SKIP setrlimit"
	}
	restore := func() { syscall.Setrlimit(syscall.RLIMIT_FSIZE, &old) }
	onDisk := func() []byte {
		files, _ := filepath.Glob(filepath.Join(dir, "*"))
		if len(files) != 1 {
			return nil
		}
		b, _ := ioutil.ReadFile(files[0])
		return b
	}
	f, err := cache.CreateLevel(dir, sha1.New(), rsum[:], qsum[:], level)
	if err != nil {
		restore()
		return "create-error " + encBytes(onDisk())
	}
	var werr error
	for i := 0; i < len(body) && werr == nil; i += 512 {
		j := i + 512
		if j > len(body) {
			j = len(body)
		}
		_, werr = f.Write(body[i:j])
	}
	cerr := f.Close()
	restore()
	return fmt.Sprintf("obs %s %s %s", b01(werr != nil), b01(cerr != nil), encBytes(onDisk()))
}

// c13FsizeChild runs in its own process (it lowers the soft file-size limit of the process).
func c13FsizeChild(limit, n, level int) string {
	dir, err := ioutil.TempDir("", "c13-fsize-")
	if err != nil {
		return "SKIP tempdir"
	}
	defer os.RemoveAll(dir)
	body := make([]byte, n)
	x := uint32(2463534242)
	for i := range body {
		x ^= x << 13
		x ^= x >> 17
		x ^= x << 5
		body[i] = byte(x >> 11)
	}
	rsum, qsum := sha1.Sum([]byte("root")), sha1.Sum([]byte("data"))
	signal.Ignore(syscall.SIGXFSZ)
	var old syscall.Rlimit
	if err := syscall.Getrlimit(syscall.RLIMIT_FSIZE, &old); err != nil {
		return "SKIP getrlimit"
	}
	lim := old
	lim.Cur = uint64(limit)
	if err := syscall.Setrlimit(syscall.RLIMIT_FSIZE, &lim); err != nil {
		return "SKIP setrlimit"
	}
	restore := func() { syscall.Setrlimit(syscall.RLIMIT_FSIZE, &old) }
	f, err := cache.CreateLevel(dir, sha1.New(), rsum[:], qsum[:], level)
	if err != nil {
		restore()
		return "create-error"
	}
	var werr error
	for i := 0; i < len(body) && werr == nil; i += 512 {
		j := i + 512
		if j > len(body) {
			j = len(body)
		}
		_, werr = f.Write(body[i:j])
	}
	cerr := f.Close()
	restore()
	if werr != nil || cerr != nil {
		return fmt.Sprintf("reported write-error=%v close-error=%v", werr != nil, cerr != nil)
	}
	g, err := cache.Open(dir, sha1.New(), rsum[:], qsum[:])
	if err != nil {
		if g != nil {
			g.Close()
		}
		return "unreported: open fails"
	}
	defer g.Close()
	got, rerr := ioutil.ReadAll(g)
	if rerr != nil || !bytes.Equal(got, body) {
		return fmt.Sprintf("unreported: read %d of %d bytes, error=%v", len(got), len(body), rerr != nil)
	}
	return "ok"
}

func c13Fsize(r *Run) {
	exe, err := os.Executable()
	if err != nil {
		r.notes = append(r.notes, "cache.fsize: os.Executable unavailable, skipped")
		return
	}
	limits := []int{1, 30, 59, 60, 61, 100, 500, 1060, 2000, 4096, 5000, 70000}
	sizes := []int{0, 10, 3000, 40000}
	if r.tier == "thorough" {
		for l := 0; l < 6000; l += 97 {
			limits = append(limits, l)
		}
		sizes = append(sizes, 100, 70000, 140000)
	}
	for _, n := range sizes {
		for _, limit := range limits {
			for _, level := range []int{-1, 0} {
				line := fmt.Sprintf("cache.fsize %d %d %d", limit, n, level)
				crumb(line)
				out, err := exec.Command(exe, "-replay", line).Output()
				ans := strings.TrimSpace(string(out))
				if err != nil {
					ans = "child failed: " + err.Error()
				}
				r.count("fsize/" + strings.SplitN(ans, " ", 2)[0])
				r.eval(line, strings.HasPrefix(ans, "reported"))
				if strings.HasPrefix(ans, "unreported") || strings.HasPrefix(ans, "child failed") || strings.HasPrefix(ans, "PANIC") {
					r.fail(Failure{Oracle: "a writer whose file cannot grow (file-size limit) reports an error from Write or Close, or leaves an entry that opens and reads back exactly what was written", Op: line, Got: ans, Want: "reported … | ok"})
				}
				c13FsizeFit(r, exe, limit, n, level)
			}
		}
	}
	r.notes = append(r.notes, "fault model: what the real writer returned and left on disk under the file-size limit is an outcome of the Lean fault model runSession (ops cache.fault / cache.faultcreate, answered by a Go re-statement and by the model)")
	r.notes = append(r.notes, "I/O faults of the writer: RLIMIT_FSIZE in a child process, limits around the header size (60) and inside the body, bodies 0..40000 (140000 thorough), levels -1 and 0")
}

// c13FsizeFit: the observation of one faulty run of the real writer (child process) must be an
// outcome of the Lean fault model; the membership predicate is evaluated by its Go re-statement
// and by the model (correspondence).
func c13FsizeFit(r *Run, exe string, limit, n, level int) {
	obsLine := fmt.Sprintf("cache.fsizeobs %d %d %d", limit, n, level)
	out, err := exec.Command(exe, "-replay", obsLine).Output()
	ans := strings.TrimSpace(string(out))
	if err != nil || strings.HasPrefix(ans, "SKIP") || strings.HasPrefix(ans, "PANIC") {
		r.count("fault-model/skipped")
		return
	}
	f := strings.Fields(ans)
	rsum, qsum := sha1.Sum([]byte("root")), sha1.Sum([]byte("data"))
	var line string
	switch {
	case f[0] == "create-error" && len(f) == 2:
		line = fmt.Sprintf("cache.faultcreate %d %s", sha1.Size, f[1])
		r.count("fault-model/create-error")
	case f[0] == "obs" && len(f) == 4:
		disk := decBytes(sexp{atom: f[3]})
		var bsum [sha1.Size]byte
		if len(disk) >= 3*sha1.Size {
			bsum = sha1.Sum(disk[3*sha1.Size:])
		} else {
			bsum = sha1.Sum(nil)
		}
		z := c13Deflate(c13FsizeBody(n), level)
		line = fmt.Sprintf("cache.fault %s %s %s %s %s %s %s", encBytes(rsum[:]), encBytes(qsum[:]), encBytes(z), f[3], encBytes(bsum[:]), f[1], f[2])
		r.count("fault-model/write-error=" + f[1] + ",close-error=" + f[2])
	default:
		r.count("fault-model/skipped")
		return
	}
	got := r.op(line)
	r.eval("fit|"+obsLine, true)
	if got != "1" {
		r.fail(Failure{Oracle: "the errors returned and the bytes left on disk by a writer under a file-size limit are an outcome of the fault model (createF / writeF / closeF)", Op: obsLine, Got: c13Short(ans), Want: "an outcome of runSession"})
	}
}
