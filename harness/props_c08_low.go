package main

// C08 — the resize laws on regions that lie NEAR THE ORIGIN (based at 0..3), where an outward extension
// runs below coordinate 0.  c08Resize works on regions based at c08Base = 40 (its expectation is read off a
// probe sequence, which has no residue at a negative position), so a negative result never arose there,
// while the locator oracles resize feature regions near 0 and take `Resize` itself as the expectation: a
// clamp at 0 in Regions.Resize moved nothing any oracle looked at.  Here both sides of the three clauses
// of c08Resize are stated on RAW coordinates: the residues of a region are the positions of its leaves
// (a backward leaf downwards, on the complement strand; positions may be negative), the expectation is
// slicing of that list / extendFlat — no Locate, no Len, no probe.

import (
	"fmt"

	"github.com/go-gts/gts"
)

// rawRegDen: the positions a region reads, leaf by leaf, from its coordinates alone (no wrap: L = 0)
func rawRegDen(reg gts.Region) []pos {
	var out []pos
	for _, s := range c15Leaves(reg) {
		out = append(out, c15SegDen(s, 0)...)
	}
	return out
}

func rebaseSegs(ss []gts.Segment, base int) []gts.Segment {
	out := make([]gts.Segment, len(ss))
	for i, s := range ss {
		out[i] = gts.Segment{s[0] - c08Base + base, s[1] - c08Base + base}
	}
	return out
}

// c08ResizeLow: the slicing law, the extension law and "inverted bounds select nothing" for one flat
// region and one modifier, on raw coordinates.
func c08ResizeLow(r *Run, ss []gts.Segment, m gts.Modifier, tag string) {
	reg := flatRegion(ss)
	rs, ms := encReg(reg), encMod(m)
	line := "reg.resize " + rs + " " + ms
	out := r.op(line)
	whole := rawRegDen(reg)
	total := len(whole)
	lo, hi := modBounds(m, total)
	if out == "PANIC" {
		r.fail(Failure{Oracle: "resize never panics on a non-empty region", Op: line, Got: out})
		return
	}
	gd := rawRegDen(reg.Resize(m))
	var want []pos
	clause := ""
	switch {
	case 0 <= lo && lo <= hi && hi <= total:
		want, clause = whole[lo:hi], "inside: extracted(resize r m) = extracted(r)[lo:hi]"
	case lo <= hi:
		e5, e3 := maxInt(0, -lo), maxInt(0, hi-total)
		ext := rawRegDen(extendFlat(ss, e5, e3))
		want, clause = ext[lo+e5:hi+e5], "outside: offsets beyond the ends extend the first/last segment outward"
	case 0 <= lo && lo <= total && 0 <= hi && hi <= total:
		want, clause = nil, "inverted bounds select nothing"
	default:
		r.count("resize-near-origin/" + tag + "/not stated (inverted bounds outside the region)")
		r.eval("rl|"+rs+"|"+ms, false)
		return
	}
	neg := false
	for _, p := range want {
		if p.x < 0 {
			neg = true
		}
	}
	r.count("resize-near-origin/" + tag + "/" + modForm(m))
	if neg {
		r.count("resize-near-origin/result below coordinate 0")
	}
	r.eval("rl|"+rs+"|"+ms, neg)
	if !posEq(gd, want) {
		r.fail(Failure{Oracle: clause + " (region near the origin, raw coordinates)", Op: line,
			Got: out + " den=" + denStr(gd), Want: "den=" + denStr(want)})
	}
}

// c08NearOrigin: exhaustive for 1..2 segments of lengths 1..2 based at 0..3 (every orientation pattern,
// gap 0 or 2, every modifier with offsets in [-total-3, total+3]), then random regions of genSegs re-based
// to 0..3.
func c08NearOrigin(r *Run) {
	thorough := r.tier == "thorough"
	nReg := 0
	for n := 1; n <= 2; n++ {
		for code := 0; code < 1<<uint(2*n); code++ {
			lens, gaps, back := make([]int, n), make([]int, n), make([]bool, n)
			for j := 0; j < n; j++ {
				lens[j] = 1 + (code>>uint(2*j))&1
				back[j] = (code>>uint(2*j+1))&1 == 1
				gaps[j] = 2 * (j % 2)
			}
			for base := 0; base <= 3; base++ {
				if !thorough && n == 2 && base%2 == 1 {
					continue
				}
				ss := rebaseSegs(mkSegs(lens, gaps, back), base)
				nReg++
				total := len(rawRegDen(flatRegion(ss)))
				for _, m := range allMods(total) {
					c08ResizeLow(r, ss, m, fmt.Sprintf("flat%d", n))
				}
			}
		}
	}
	nRandom := 400
	if thorough {
		nRandom = 6000
	}
	for t := 0; t < nRandom; t++ {
		ss0, orient := genSegs(r.rng)
		ss := rebaseSegs(ss0, r.rng.intn(4))
		total := len(rawRegDen(flatRegion(ss)))
		for j := 0; j < 4; j++ {
			c08ResizeLow(r, ss, genMod(r.rng, total), "random-"+orient)
		}
	}
	r.notes = append(r.notes, fmt.Sprintf("regions near the origin: resize of %d flat regions (1..2 segments, lengths 1..2, based at 0..3) by every modifier with offsets in [-total-3,total+3] and of %d random regions re-based to 0..3, both sides on raw coordinates (results below coordinate 0 included)", nReg, nRandom))
}
