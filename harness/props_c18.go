package main

import (
	"fmt"
	"sort"
	"strings"

	"github.com/go-gts/gts"
)

// C18 — Alphabet operations follow IUPAC semantics; search is sound and complete.
//
// Protocol ops (same names in lean/Gts/Model/OpsNuc.lean) run on the real code, and the
// property oracles evaluated on the real code.  The oracle's notion of meaning (IUPAC base
// sets as 4-bit masks) is a Go re-statement of lean/Gts/Spec/Iupac.lean; the two are compared
// by the spec.* ops on every run.
//
// Match and Search are exercised with ASCII bytes only (bytes >= 0x80 are out of scope:
// bytes.ToLower and regexp work on UTF-8 there).

func init() {
	props["C18"] = propC18
	extraOps["nuc.complement"] = func(a []sexp) string {
		return encBytes(gts.Complement(gts.New(nil, nil, decBytes(a[0]))).Bytes())
	}
	extraOps["nuc.transcribe"] = func(a []sexp) string {
		return encBytes(gts.Transcribe(gts.New(nil, nil, decBytes(a[0]))).Bytes())
	}
	extraOps["nuc.replace"] = func(a []sexp) string {
		return encBytes(gts.VerifReplaceBytes(decBytes(a[0]), decBytes(a[1]), decBytes(a[2])))
	}
	extraOps["nuc.match"] = func(a []sexp) string {
		return encSegs(gts.Match(gts.New(nil, nil, decBytes(a[0])), gts.New(nil, nil, decBytes(a[1]))))
	}
	// nuc.matchok: Match on ANY bytes, answered OK when it returns (a panic is turned into PANIC by execOp);
	// the values for bytes >= 0x80 are known finding K18B's matter, the "never crashes" clause is not
	extraOps["nuc.matchok"] = func(a []sexp) string {
		gts.Match(gts.New(nil, nil, decBytes(a[0])), gts.New(nil, nil, decBytes(a[1])))
		return "OK"
	}
	extraOps["nuc.search"] = func(a []sexp) string {
		return encSegs(gts.Search(gts.New(nil, nil, decBytes(a[0])), gts.New(nil, nil, decBytes(a[1]))))
	}
	extraOps["nuc.indexall"] = func(a []sexp) string {
		// suffixarray.Lookup promises no order: canonicalise by sorting
		idx := append([]int(nil), gts.VerifBytesIndexAll(decBytes(a[0]), decBytes(a[1]))...)
		sort.Ints(idx)
		out := make([]string, len(idx))
		for i, x := range idx {
			out[i] = itoa(x)
		}
		return encList(out)
	}
	extraOps["spec.baseset"] = func(a []sexp) string { return itoa(c18BaseSet(decBytes(a[0])[0])) }
	extraOps["spec.complset"] = func(a []sexp) string { return itoa(c18ComplSet(decInt(a[0]))) }
	extraOps["spec.letterof"] = func(a []sexp) string {
		return encBytes([]byte{c18LetterOf(decInt(a[0]), a[1].atom == "1", a[2].atom == "1")})
	}
}

// ---------------------------------------------------------------------------
// meaning side (mirrors Gts/Spec/Iupac.lean)

const (
	c18A = 1
	c18C = 2
	c18G = 4
	c18T = 8
)

var c18Upper = map[byte]int{
	'A': c18A, 'C': c18C, 'G': c18G, 'T': c18T, 'U': c18T,
	'R': c18A | c18G, 'Y': c18C | c18T, 'S': c18C | c18G, 'W': c18A | c18T,
	'K': c18G | c18T, 'M': c18A | c18C,
	'B': c18C | c18G | c18T, 'D': c18A | c18G | c18T, 'H': c18A | c18C | c18T, 'V': c18A | c18C | c18G,
	'N': c18A | c18C | c18G | c18T,
}

func c18IsUpper(c byte) bool { return 'A' <= c && c <= 'Z' }
func c18Fold(c byte) byte {
	if c18IsUpper(c) {
		return c + 32
	}
	return c
}

// c18BaseSet: the set of bases a byte denotes, 0 = not a nucleotide letter.
func c18BaseSet(c byte) int {
	if 'a' <= c && c <= 'z' {
		c -= 32
	}
	return c18Upper[c]
}

func c18IsLetter(c byte) bool { return c18BaseSet(c) != 0 }

func c18ComplSet(m int) int {
	out := 0
	if m&c18A != 0 {
		out |= c18T
	}
	if m&c18C != 0 {
		out |= c18G
	}
	if m&c18G != 0 {
		out |= c18C
	}
	if m&c18T != 0 {
		out |= c18A
	}
	return out
}

func c18LetterOf(m int, upper, rna bool) byte {
	var out byte
	for _, c := range []byte("ACGTRYSWKMBDHVN") {
		if c18Upper[c] == m {
			out = c
		}
	}
	if out == 'T' && rna {
		out = 'U'
	}
	if out != 0 && !upper {
		out += 32
	}
	if out == 0 && !upper {
		out = 32 // Lean: upperLetterOf = 0, + 32
	}
	return out
}

var c18Letters = []byte("ACGTURYSWKMBDHVNacgturyswkmbdhvn")

// ---------------------------------------------------------------------------
// complement / transcribe

func c18Alphabet(r *Run) {
	// the Go re-statement of the spec against the Lean one
	for b := 0; b < 256; b++ {
		r.op("spec.baseset " + encBytes([]byte{byte(b)}))
	}
	for m := 0; m < 16; m++ {
		r.op(fmt.Sprintf("spec.complset %d", m))
		for _, u := range []string{"0", "1"} {
			for _, n := range []string{"0", "1"} {
				r.op(fmt.Sprintf("spec.letterof %d %s %s", m, u, n))
			}
		}
	}
	compl := func(p []byte) []byte { return gts.Complement(gts.New(nil, nil, p)).Bytes() }
	trans := func(p []byte) []byte { return gts.Transcribe(gts.New(nil, nil, p)).Bytes() }
	for b := 0; b < 256; b++ {
		c := byte(b)
		line := "nuc.complement " + encBytes([]byte{c})
		out := r.op(line)
		tline := "nuc.transcribe " + encBytes([]byte{c})
		tout := r.op(tline)
		r.eval(fmt.Sprintf("byte|%d", b), c18IsLetter(c))
		if c18IsLetter(c) {
			r.count("alphabet/letter")
		} else {
			r.count("alphabet/other")
		}
		got := compl([]byte{c})
		tgot := trans([]byte{c})
		if len(got) != 1 || len(tgot) != 1 {
			r.fail(Failure{Oracle: "complement/transcribe preserve the length", Op: line, Got: out})
			continue
		}
		if c18IsLetter(c) {
			want := c18LetterOf(c18ComplSet(c18BaseSet(c)), c18IsUpper(c), false)
			if c18BaseSet(got[0]) != c18ComplSet(c18BaseSet(c)) || c18IsUpper(got[0]) != c18IsUpper(c) || got[0] != want {
				r.fail(Failure{Oracle: "complement maps an IUPAC letter to the letter (same case) of the complementary base set",
					Op: line, Got: out, Want: encBytes([]byte{want})})
			}
		} else if got[0] != c {
			r.fail(Failure{Oracle: "complement leaves a byte outside the IUPAC alphabet unchanged", Op: line, Got: out,
				Want: encBytes([]byte{c})})
		}
		// involution up to U -> A -> T
		back := compl(got)
		wantBack := c
		if c == 'U' {
			wantBack = 'T'
		} else if c == 'u' {
			wantBack = 't'
		}
		l2 := "nuc.complement " + encBytes(got)
		r.op(l2)
		if len(back) != 1 || back[0] != wantBack {
			r.fail(Failure{Oracle: "complement is an involution (up to U -> A -> T)", Op: line + " ; " + l2, Got: encBytes(back),
				Want: encBytes([]byte{wantBack})})
		}
		// transcribe differs only at A / a
		wantT := got[0]
		if c == 'A' {
			wantT = 'U'
		} else if c == 'a' {
			wantT = 'u'
		}
		if tgot[0] != wantT {
			r.fail(Failure{Oracle: "transcribe differs from complement only in writing U for the complement of A", Op: tline,
				Got: tout, Want: encBytes([]byte{wantT})})
		}
	}
	// whole sequences: byte-wise, length preserving
	n := 300
	if r.tier == "thorough" {
		n = 3000
	}
	for t := 0; t < n; t++ {
		L := r.rng.intn(40)
		p := make([]byte, L)
		for i := range p {
			switch r.rng.intn(3) {
			case 0:
				p[i] = byte(r.rng.intn(256))
			default:
				p[i] = c18Letters[r.rng.intn(len(c18Letters))]
			}
		}
		for _, name := range []string{"nuc.complement", "nuc.transcribe"} {
			line := name + " " + encBytes(p)
			out := r.op(line)
			f := compl
			if name == "nuc.transcribe" {
				f = trans
			}
			got := f(p)
			r.eval("seq|"+line, L > 0)
			r.count("alphabet/sequence")
			ok := len(got) == len(p)
			for i := 0; ok && i < len(p); i++ {
				ok = got[i] == f([]byte{p[i]})[0]
			}
			if !ok {
				r.fail(Failure{Oracle: "complement/transcribe act byte by byte and preserve the length", Op: line, Got: out})
			}
		}
		// replaceBytes itself with arbitrary alphabets (correspondence only; a short `new` panics)
		old := make([]byte, r.rng.intn(5))
		for i := range old {
			old[i] = "acgtn"[r.rng.intn(5)]
		}
		nw := make([]byte, maxInt(0, len(old)-r.rng.intn(2)))
		for i := range nw {
			nw[i] = "ACGTN"[r.rng.intn(5)]
		}
		q := make([]byte, r.rng.intn(8))
		for i := range q {
			q[i] = "acgtnx"[r.rng.intn(6)]
		}
		r.op("nuc.replace " + encBytes(q) + " " + encBytes(old) + " " + encBytes(nw))
		r.count("alphabet/replaceBytes")
	}
}

// ---------------------------------------------------------------------------
// match

// c18Rel: what the property demands of one position: +1 must match, -1 must not match,
// 0 no statement (query letter against a sequence byte that is not a letter).
func c18Rel(q, s byte) int {
	switch {
	case !c18IsLetter(q):
		if c18Fold(q) == c18Fold(s) {
			return 1
		}
		return -1
	case !c18IsLetter(s):
		return 0
	case c18BaseSet(s)&c18BaseSet(q) == c18BaseSet(s):
		return 1
	}
	return -1
}

// c18RelK4: the same with the row of K replaced by what known finding K4 produces ([gtuy]).
func c18RelK4(q, s byte) int {
	if c18Fold(q) == 'k' && c18IsLetter(s) {
		if strings.IndexByte("gtuy", c18Fold(s)) >= 0 {
			return 1
		}
		return -1
	}
	return c18Rel(q, s)
}

// c18CheckMatch evaluates the clauses of the property on the reported segments; it returns
// the name of the first violated clause ("" = all hold).
func c18CheckMatch(rel func(q, s byte) int, seq, query []byte, segs []gts.Segment) string {
	w := len(query)
	if len(seq) == 0 || w == 0 {
		if len(segs) != 0 {
			return "match reports nothing for an empty sequence or query"
		}
		return ""
	}
	prevEnd := 0
	for _, sg := range segs {
		a, b := sg[0], sg[1]
		if b-a != w || a < 0 || b > len(seq) {
			return "match reports windows of the query's length inside the sequence"
		}
		if a < prevEnd {
			return "match reports ascending, non-overlapping windows"
		}
		prevEnd = b
		for j := 0; j < w; j++ {
			if rel(query[j], seq[a+j]) < 0 {
				return "match reports only windows where every sequence letter's base set is contained in the query letter's (non-letters: literal)"
			}
		}
	}
	for i := 0; i+w <= len(seq); i++ {
		all := true
		for j := 0; j < w && all; j++ {
			all = rel(query[j], seq[i+j]) > 0
		}
		if !all {
			continue
		}
		covered := false
		for _, sg := range segs {
			if sg[0] <= i && i < sg[1] {
				covered = true
			}
		}
		if !covered {
			return "match finds every matching window that does not overlap an earlier reported one"
		}
	}
	return ""
}

func c18HasK(query []byte) bool {
	for _, c := range query {
		if c18Fold(c) == 'k' {
			return true
		}
	}
	return false
}

func c18Match(r *Run, seq, query []byte, tag string) {
	line := "nuc.match " + encBytes(seq) + " " + encBytes(query)
	out := r.op(line)
	r.count("match/" + tag)
	if out == "PANIC" {
		r.eval("m|"+line, true)
		r.fail(Failure{Oracle: "match never crashes (query bytes outside the alphabet are literals)", Op: line, Got: out,
			Want: "a list of segments"})
		return
	}
	segs := gts.Match(gts.New(nil, nil, seq), gts.New(nil, nil, query))
	r.eval("m|"+line, len(segs) > 0)
	if len(segs) > 0 {
		r.count("match/with-hits")
	}
	if clause := c18CheckMatch(c18Rel, seq, query, segs); clause != "" {
		f := Failure{Oracle: clause, Op: line, Got: out}
		// the same misbehaviour as K4 (row K is [gtuy]) and nothing else?
		if c18HasK(query) && c18CheckMatch(c18RelK4, seq, query, segs) == "" {
			f.Finding = "K4"
		}
		r.fail(f)
	}
}

func c18MatchTables(r *Run) {
	// all query-letter x sequence-letter pairs
	for _, q := range c18Letters {
		for _, s := range c18Letters {
			c18Match(r, []byte{s}, []byte{q}, "letter-pair")
		}
	}
	// every ASCII query byte x every ASCII sequence byte (letters against non-letters:
	// correspondence only; non-letter queries incl. all regexp metacharacters: literal)
	for q := 0; q < 128; q++ {
		for s := 0; s < 128; s++ {
			if c18IsLetter(byte(q)) && c18IsLetter(byte(s)) {
				continue
			}
			tag := "letter-vs-other"
			if !c18IsLetter(byte(q)) {
				tag = "literal-byte"
			}
			c18Match(r, []byte{byte(s)}, []byte{byte(q)}, tag)
		}
	}
}

var c18Meta = []byte("[].*+?()|\\^${}-")

// all strings over alpha with length lo..hi
func c18Strings(alpha []byte, lo, hi int) [][]byte {
	var out [][]byte
	var rec func(p []byte)
	rec = func(p []byte) {
		if len(p) >= lo {
			out = append(out, append([]byte(nil), p...))
		}
		if len(p) == hi {
			return
		}
		for _, c := range alpha {
			rec(append(append([]byte(nil), p...), c))
		}
	}
	rec(nil)
	return out
}

// ---------------------------------------------------------------------------
// search

func c18Search(r *Run, seq, query []byte, tag string) {
	line := "nuc.search " + encBytes(seq) + " " + encBytes(query)
	out := r.op(line)
	r.count("search/" + tag)
	segs := gts.Search(gts.New(nil, nil, seq), gts.New(nil, nil, query))
	var want []gts.Segment
	if len(seq) > 0 && len(query) > 0 {
		for i := 0; i+len(query) <= len(seq); i++ {
			ok := true
			for j := 0; j < len(query) && ok; j++ {
				ok = c18Fold(seq[i+j]) == c18Fold(query[j])
			}
			if ok {
				want = append(want, gts.Segment{i, i + len(query)})
			}
		}
	}
	r.eval("s|"+line, len(want) > 0)
	if len(want) > 1 {
		r.count("search/multiple-hits")
		for i := 1; i < len(want); i++ {
			if want[i][0] < want[i-1][1] {
				r.count("search/overlapping-hits")
				break
			}
		}
	}
	in := func(xs []gts.Segment, x gts.Segment) bool {
		for _, y := range xs {
			if x == y {
				return true
			}
		}
		return false
	}
	for _, sg := range segs {
		if !in(want, sg) {
			r.fail(Failure{Oracle: "search is sound: every reported segment is a case-insensitive occurrence", Op: line, Got: out,
				Want: encSegs(want)})
			return
		}
	}
	for _, sg := range want {
		if !in(segs, sg) {
			r.fail(Failure{Oracle: "search is complete: every (overlapping) case-insensitive occurrence is reported", Op: line,
				Got: out, Want: encSegs(want)})
			return
		}
	}
	for i := 1; i < len(segs); i++ {
		if segs[i][0] <= segs[i-1][0] {
			r.fail(Failure{Oracle: "search reports in strictly ascending order", Op: line, Got: out, Want: encSegs(want)})
			return
		}
	}
	if len(query) > 0 {
		// bytesIndexAll itself (order-free)
		r.op("nuc.indexall " + encBytes(lowerASCII(seq)) + " " + encBytes(lowerASCII(query)))
	}
}

func lowerASCII(p []byte) []byte {
	q := make([]byte, len(p))
	for i, c := range p {
		q[i] = c18Fold(c)
	}
	return q
}

// ---------------------------------------------------------------------------

// c18Realize draws a sequence window that the query must match (per position a letter whose
// base set is inside the query letter's; non-letters literally, random case).
func c18Realize(r *Run, query []byte) []byte {
	out := make([]byte, len(query))
	for i, q := range query {
		if !c18IsLetter(q) {
			out[i] = q
			continue
		}
		for {
			s := c18Letters[r.rng.intn(len(c18Letters))]
			if c18BaseSet(s)&c18BaseSet(q) == c18BaseSet(s) {
				out[i] = s
				break
			}
		}
	}
	return out
}

func propC18(r *Run) {
	defer c18CliSearch(r)
	thorough := r.tier == "thorough"
	r.exhaustive = true
	c18Alphabet(r)
	c18MatchTables(r)
	c18Big(r)

	// exhaustive small scopes: sequences up to length N x queries up to length 3
	type scopeT struct {
		alpha  string
		qalpha string
		n, qn  int
	}
	scopes := []scopeT{
		{"acgt", "acgt", 5, 3},
		{"aAn", "aAn", 6, 3},
		{"acry", "acrynk", 4, 2},
		{"gtky", "kKy", 4, 2},
		{"a.[", "a.[n", 4, 2},
	}
	if thorough {
		scopes = []scopeT{
			{"acgt", "acgt", 7, 3},
			{"aAn", "aAn", 8, 3},
			{"acgry", "acrynk", 5, 3},
			{"gtkyKb", "kKyb", 5, 2},
			{"a.[\n", "a.[n\\", 5, 3},
		}
	}
	for _, sc := range scopes {
		seqs := c18Strings([]byte(sc.alpha), 0, sc.n)
		queries := c18Strings([]byte(sc.qalpha), 0, sc.qn)
		for _, s := range seqs {
			for _, q := range queries {
				c18Search(r, s, q, "small/"+sc.alpha)
				c18Match(r, s, q, "small/"+sc.alpha)
			}
		}
		r.notes = append(r.notes, fmt.Sprintf("exhaustive: all sequences over %q up to length %d x all queries over %q up to length %d (search and match)",
			sc.alpha, sc.n, sc.qalpha, sc.qn))
	}
	// SEARCH with bytes that are not ASCII (finding F41, repaired in /repo 8bd6af1: the lowered copy
	// made by bytes.ToLower had another length, occurrences behind such a byte were reported too far
	// right).  Match is NOT sent these: regexp reads its input as UTF-8 (known finding K18B).
	{
		hi := []byte{'a', 'C', 0x80, 0xC3, 0xA9, 0xFF}
		n := 4
		if thorough {
			n = 5
		}
		for _, sq := range c18Strings(hi, 0, n) {
			for _, q := range c18Strings([]byte{'c', 0xC3, 0xA9, 0xFF}, 1, 2) {
				c18Search(r, sq, q, "small/non-ascii")
			}
		}
		for t := 0; t < 600; t++ {
			sq := make([]byte, r.rng.rangeInt(5, 60))
			for i := range sq {
				switch r.rng.intn(5) {
				case 0:
					sq[i] = byte(128 + r.rng.intn(128))
				case 1:
					sq[i] = []byte("\xc4\xb0\xe2\x84\xaa\xc3\x89")[r.rng.intn(7)] // pieces of İ, K (Kelvin), É
				default:
					sq[i] = "acgtACGT"[r.rng.intn(8)]
				}
			}
			a := r.rng.intn(len(sq))
			b := a + 1 + r.rng.intn(minInt(3, len(sq)-a))
			c18Search(r, sq, append([]byte(nil), sq[a:b]...), "random/non-ascii")
		}
		r.notes = append(r.notes, "search (not match) also over the bytes a C 0x80 0xC3 0xA9 0xFF exhaustively up to length 4 and on 600 random sequences with bytes >= 0x80 and planted hits")
		// MATCH with bytes >= 0x80: "query bytes outside the alphabet are literals and never crash" — the crash half
		// holds for every byte (the values are K18B's); seeded W40-2: QuoteMeta(string([]byte{c})) made
		// regexp.MustCompile panic on a query byte that is not valid UTF-8
		nok := 0
		chk := func(sq, q []byte) {
			line := "nuc.matchok " + encBytes(sq) + " " + encBytes(q)
			out := r.op(line)
			nok++
			r.eval("mok|"+line, true)
			if out != "OK" {
				r.fail(Failure{Oracle: "match never crashes (query bytes outside the alphabet are literals), also for bytes >= 0x80", Op: line, Got: out, Want: "OK"})
			}
		}
		for c := 0x80; c <= 0xFF; c++ {
			chk([]byte{'a', byte(c), 'c'}, []byte{byte(c)})
			chk([]byte{'a', byte(c), 'c'}, []byte{'a', byte(c)})
			chk([]byte("acgt"), []byte{byte(c), 'n'})
		}
		for _, q := range c18Strings([]byte{'c', 'n', 0xC3, 0xA9, 0xFF, 0x80}, 1, 3) {
			chk([]byte("ac\xc3\xa9g\xffn"), q)
		}
		r.notes = append(r.notes, fmt.Sprintf("match never crashes: %d cases with query / sequence bytes >= 0x80 (every byte 0x80..0xFF alone, behind a letter, in front of n; all queries over c n 0xC3 0xA9 0xFF 0x80 up to length 3)", nok))
	}
	r.notes = append(r.notes, "exhaustive: complement/transcribe on all 256 byte values; match on all 32x32 letter pairs and on every ASCII query byte x ASCII sequence byte; spec.baseset on all 256 bytes")

	// regexp metacharacters and other non-alphabet bytes inside longer queries
	nMeta := 1500
	nRandom := 4000
	if thorough {
		nMeta, nRandom = 20000, 60000
	}
	for t := 0; t < nMeta; t++ {
		ql := r.rng.rangeInt(1, 4)
		q := make([]byte, ql)
		for i := range q {
			switch r.rng.intn(4) {
			case 0:
				q[i] = c18Letters[r.rng.intn(len(c18Letters))]
			case 1:
				q[i] = byte(r.rng.intn(128))
			default:
				q[i] = c18Meta[r.rng.intn(len(c18Meta))]
			}
		}
		s := make([]byte, r.rng.intn(12))
		for i := range s {
			switch r.rng.intn(3) {
			case 0:
				s[i] = c18Meta[r.rng.intn(len(c18Meta))]
			case 1:
				s[i] = byte(r.rng.intn(128))
			default:
				s[i] = "acgtn"[r.rng.intn(5)]
			}
		}
		// plant the query itself
		if r.rng.intn(3) > 0 {
			k := r.rng.intn(len(s) + 1)
			s = append(s[:k:k], append(c18Realize(r, q), s[k:]...)...)
		}
		c18Match(r, s, q, "metachar-query")
		c18Search(r, s, q, "metachar-query")
		if t < 3 {
			r.sample(fmt.Sprintf("nuc.match seq=%q query=%q", s, q))
		}
	}

	// random longer sequences over the IUPAC alphabet, both cases, with planted hits
	for t := 0; t < nRandom; t++ {
		maxL := 60
		if thorough {
			maxL = 300
		}
		ql := r.rng.rangeInt(1, 8)
		q := make([]byte, ql)
		ambiguous := r.rng.intn(3) > 0
		for i := range q {
			if ambiguous {
				q[i] = c18Letters[r.rng.intn(len(c18Letters))]
			} else {
				q[i] = "acgtACGT"[r.rng.intn(8)]
			}
		}
		var alpha []byte
		switch r.rng.intn(3) {
		case 0:
			alpha = []byte("acgt")
		case 1:
			alpha = []byte("acgtACGT")
		default:
			alpha = c18Letters
		}
		s := make([]byte, r.rng.intn(maxL))
		for i := range s {
			s[i] = alpha[r.rng.intn(len(alpha))]
		}
		for k := r.rng.intn(4); k > 0; k-- {
			at := r.rng.intn(len(s) + 1)
			s = append(s[:at:at], append(c18Realize(r, q), s[at:]...)...)
		}
		// periodic stretches give overlapping occurrences
		if r.rng.intn(4) == 0 {
			at := r.rng.intn(len(s) + 1)
			rep := []byte(strings.Repeat(string(q[:1]), ql+r.rng.intn(4)))
			if r.rng.bool() {
				rep = []byte(strings.ToUpper(string(rep)))
			}
			s = append(s[:at:at], append(rep, s[at:]...)...)
		}
		c18Match(r, s, q, "random")
		// exact search: a verbatim (case-varied) copy is what occurs
		c18Search(r, s, q, "random")
		if t < 3 {
			r.sample(fmt.Sprintf("nuc.match seq=%q query=%q", s, q))
		}
	}
}
