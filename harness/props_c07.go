package main

// C07 — parsers are total: malformed input gives an error, never a panic or hang.
//
//   - correspondence on verdict class (value / ERR / PANIC, plus the value) with the Lean model
//     where one exists: loc.parse, mod.parse, loc.try, locator.kind, sel.shift, date.parse,
//     date.fmt, mol.parse, top.parse;
//   - oracle on the real code everywhere: never PANIC, never HANG (2 s watchdog per input, the
//     parser runs in a goroutine; a hang is reported with its input), for seqio.NewAutoScanner
//     over arbitrary bytes and structure-aware mutations of every corpus file, for
//     gts.AsLocation / AsLocator (+ the locator applied to a small sequence) / AsModifier /
//     Selector / seqio.AsDate / gts.AsMolecule / AsTopology / seqio.INSDCTableParser over all
//     strings up to a length and keyword-aware mutations of valid strings;
//   - internal consistency of scanned GenBank records: a record that Scan returns has
//     Len(record) = declared LOCUS length = number of residues in its ORIGIN block, and a file cut
//     before the closing `//` yields no record;
//   - deep nesting sweep (`complement(` x k) with a stack and time limit, recorded in the notes.

import (
	"bytes"
	"errors"
	"fmt"
	"io"
	"os"
	"path/filepath"
	"runtime"
	"runtime/debug"
	"sort"
	"strconv"
	"strings"
	"syscall"
	"testing/iotest"
	"time"
	"unsafe"

	"github.com/go-gts/gts"
	"github.com/go-gts/gts/seqio"
	"github.com/go-pars/pars"
)

func init() {
	props["C07"] = propC07
	extraOps["date.parse"] = func(a []sexp) string { return c07Date(string(decBytes(a[0]))) }
	extraOps["date.fmt"] = func(a []sexp) string {
		d := seqio.Date{Year: decInt(a[0]), Month: time.Month(decInt(a[1])), Day: decInt(a[2])}
		return encStr(strings.ToUpper(d.ToTime().Format("02-Jan-2006")))
	}
	extraOps["mol.parse"] = func(a []sexp) string {
		m, err := gts.AsMolecule(string(decBytes(a[0])))
		if err != nil {
			return "ERR"
		}
		return encStr(string(m))
	}
	extraOps["top.parse"] = func(a []sexp) string {
		t, err := gts.AsTopology(string(decBytes(a[0])))
		if err != nil {
			return "ERR"
		}
		return itoa(int(t))
	}
	// implementation-only ops (witnesses of findings, replays)
	extraOps["scan.auto"] = func(a []sexp) string { return c07Scan(decBytes(a[0])).String() }
	extraOps["scan.fail"] = func(a []sexp) string { return c07ScanFrom(decBytes(a[0]), 4).String() }
	extraOps["insdc.table"] = func(a []sexp) string { return c07Table(decBytes(a[0])) }
}

var c07Watchdog = 2 * time.Second

func c07Date(s string) string {
	d, err := seqio.AsDate(s)
	if err != nil {
		return "ERR"
	}
	return fmt.Sprintf("(D %d %d %d)", d.Year, int(d.Month), d.Day)
}

// guarded runs f in a goroutine under recover() and a watchdog.
func guarded(f func() string) string {
	done := make(chan string, 1)
	go func() {
		defer func() {
			if rec := recover(); rec != nil {
				done <- "PANIC"
			}
		}()
		done <- f()
	}()
	select {
	case s := <-done:
		return s
	case <-time.After(c07Watchdog):
		return "HANG"
	}
}

// guardedBatch evaluates f on every input in one goroutine per batch (cheap for the exhaustive
// string sweeps) and still has a per-input watchdog: when an input does not answer in time the
// batch goroutine is abandoned and a new one continues behind it.
func guardedBatch(inputs []string, f func(string) string, each func(in, out string)) {
	i := 0
	for i < len(inputs) {
		type res struct {
			k   int
			out string
		}
		ch := make(chan res, 64)
		start := i
		go func() {
			for k := start; k < len(inputs); k++ {
				func() {
					defer func() {
						if rec := recover(); rec != nil {
							ch <- res{k, "PANIC"}
						}
					}()
					ch <- res{k, f(inputs[k])}
				}()
			}
			close(ch)
		}()
		hung := false
		for i < len(inputs) && !hung {
			select {
			case x, ok := <-ch:
				if !ok {
					i = len(inputs)
					break
				}
				each(inputs[x.k], x.out)
				i = x.k + 1
			case <-time.After(c07Watchdog):
				each(inputs[i], "HANG")
				i++
				hung = true
			}
		}
	}
}

// ---------------------------------------------------------------------------
// the scanner

type scanResult struct {
	verdict string // OK (no error), ERR, PANIC, HANG
	lens    []int  // Len of every record returned before the end / the error
	kinds   []string
}

func (s scanResult) String() string {
	if s.verdict == "PANIC" || s.verdict == "HANG" {
		return s.verdict
	}
	xs := make([]string, len(s.lens))
	for i, l := range s.lens {
		xs[i] = s.kinds[i] + ":" + itoa(l)
	}
	return s.verdict + " [" + strings.Join(xs, " ") + "]"
}

// c07Scan runs seqio.NewAutoScanner over data to the end.
func c07Scan(data []byte) scanResult { return c07ScanFrom(data, 0) }

// c07ScanFrom: mode 0 — a bytes.Reader; 1 — one byte per Read; 2 — small chunks, the last one
// returned together with io.EOF; 3 — chunks of 4095 / 4097 bytes (around the read size of the
// parser state).  Every mode is a legal io.Reader: the records and the verdict must not depend on it.
func c07ScanFrom(data []byte, mode int) scanResult {
	var res scanResult
	v := guarded(func() string {
		var rd io.Reader = bytes.NewReader(data)
		switch mode {
		case 1:
			rd = iotest.OneByteReader(bytes.NewReader(data))
		case 2:
			rd = iotest.DataErrReader(&chunkReader{data: data, sizes: []int{7, 1, 13, 64, 3}})
		case 3:
			rd = &chunkReader{data: data, sizes: []int{4095, 4097, 1, 4096}}
		case 4: // all the data, then an error that is NOT io.EOF (a failing disk, a directory on stdin)
			rd = io.MultiReader(bytes.NewReader(data), iotest.ErrReader(errors.New("read error")))
		}
		sc := seqio.NewAutoScanner(rd)
		n := 0
		for sc.Scan() {
			seq := sc.Value()
			k := "?"
			switch seq.(type) {
			case seqio.GenBank, *seqio.GenBank:
				k = "gb"
			case seqio.Fasta, *seqio.Fasta:
				k = "fa"
			}
			res.kinds = append(res.kinds, k)
			res.lens = append(res.lens, gts.Len(seq))
			n++
			if n > len(data)+2 {
				return "HANG" // a scanner that keeps returning records without consuming input
			}
		}
		if sc.Err() != nil {
			return "ERR"
		}
		return "OK"
	})
	res.verdict = v
	if v == "PANIC" || v == "HANG" {
		res.lens, res.kinds = nil, nil
	}
	return res
}

func c07Table(p []byte) string {
	return guarded(func() string {
		res, err := seqio.INSDCTableParser("").Parse(pars.FromBytes(p))
		if err != nil {
			return "ERR"
		}
		ff, ok := res.Value.([]gts.Feature)
		if !ok {
			return "BADVALUE"
		}
		// printing the parsed locations must not panic either
		for _, f := range ff {
			_ = f.Loc.String()
		}
		return "OK " + itoa(len(ff))
	})
}

// gbFacts: an independent reading of the text of a GenBank file: per record (chunks closed by a
// `//` line) the declared LOCUS length, whether there is an ORIGIN line and how many residues its
// block holds.
type gbFacts struct {
	declared  int
	hasLocus  bool
	hasOrigin bool
	hasContig bool
	residues  int
	closed    bool
	// the ORIGIN or `//` line sits inside an open double quote of the feature table (it is text
	// of a qualifier value, not a field): the record is not judged
	ambiguous bool
}

func c07Facts(data []byte) []gbFacts {
	var out []gbFacts
	cur := gbFacts{}
	inOrigin := false
	started := false
	inTable, open := false, false
	// line ends as the reader sees them: LF, CR LF, or a lone CR
	norm := bytes.ReplaceAll(bytes.ReplaceAll(data, []byte("\r\n"), []byte("\n")), []byte("\r"), []byte("\n"))
	for _, ln := range bytes.Split(norm, []byte("\n")) {
		if bytes.HasPrefix(ln, []byte("FEATURES")) {
			inTable, open = true, false
		} else if inTable && !inOrigin {
			if open && (bytes.HasPrefix(ln, []byte("ORIGIN")) || bytes.HasPrefix(ln, []byte("//"))) {
				cur.ambiguous = true
			}
			if bytes.Count(ln, []byte("\""))%2 == 1 {
				open = !open
			}
		}
		switch {
		case bytes.HasPrefix(ln, []byte("LOCUS")) && !started:
			started = true
			cur = gbFacts{hasLocus: true, declared: -1 << 40}
			f := bytes.Fields(ln)
			if len(f) >= 3 {
				if n, err := strconv.Atoi(string(f[2])); err == nil {
					cur.declared = n
				}
			}
			inOrigin = false
		case bytes.HasPrefix(ln, []byte("//")):
			if started {
				cur.closed = true
				out = append(out, cur)
			}
			started, inOrigin = false, false
			inTable, open = false, false
			cur = gbFacts{}
		case bytes.HasPrefix(ln, []byte("CONTIG")) && started && !inOrigin:
			cur.hasContig = true
		case bytes.HasPrefix(ln, []byte("ORIGIN")) && started:
			cur.hasOrigin = true
			inOrigin = true
		case inOrigin:
			f := bytes.Fields(ln)
			for i, w := range f {
				if i == 0 {
					continue // the index column
				}
				cur.residues += len(w)
			}
		}
	}
	if started {
		out = append(out, cur)
	}
	return out
}

// isK7C: the shape of known finding K7C - a line end of two or more CRs and a LF, behind which
// pars.Line (go-pars v1.1.6) swallows the first byte(s) of the next line.
func isK7C(data []byte) bool { return bytes.Contains(data, []byte("\r\r\n")) }

// faResidues: an independent reading of a FASTA stream: per record (cut at every `>`), the bytes
// behind the description line without LF and without a CR directly in front of a LF.
func faResidues(data []byte) []int {
	var out []int
	if len(data) == 0 || data[0] != '>' {
		return nil
	}
	i := 0
	for i < len(data) {
		// data[i] == '>': the description line runs to LF, CR LF or a lone CR (a `>` inside it is text)
		j := i + 1
		for j < len(data) && data[j] != '\n' && data[j] != '\r' {
			j++
		}
		if j < len(data) && data[j] == '\r' {
			j++
			if j < len(data) && data[j] == '\n' {
				j++
			} else if j < len(data) && data[j] == '\r' {
				return nil // a CR run: shape K7C, judged separately
			}
		} else if j < len(data) {
			j++
		}
		// the body runs to the next `>` anywhere
		k := j
		for k < len(data) && data[k] != '>' {
			k++
		}
		n := 0
		for _, ln := range bytes.Split(data[j:k], []byte("\n")) {
			n += len(bytes.TrimSuffix(ln, []byte("\r")))
		}
		out = append(out, n)
		i = k
	}
	return out
}

type c07Ctx struct {
	r        *Run
	seen     map[string]struct{}
	nScan    int
	findings []string
}

// scanCase: one input through the scanner oracle.
//
//	class     histogram key of the generator
//	mustFail  the input is a GenBank file cut before its closing `//`: no record may come out
func (c *c07Ctx) scanCase(class string, data []byte, mustFail bool) scanResult {
	r := c.r
	crumb("scan.auto " + encBytes(data))
	res := c07Scan(data)
	c.nScan++
	r.count("scan/" + class + "/" + res.verdict)
	key := "scan|" + class + "|" + fnvKey(data)
	r.eval(key, true)
	op := "scan.auto " + encBytes(data)
	if res.verdict == "PANIC" || res.verdict == "HANG" {
		small := c.shrink(data, func(d []byte) bool { v := c07Scan(d).verdict; return v == res.verdict })
		r.fail(Failure{Oracle: "the scanner never panics and never hangs (" + class + ")", Op: "scan.auto " + encBytes(small),
			Got: res.verdict, Want: "records or an error value"})
		return res
	}
	// the same bytes through other legal io.Readers (short reads, data together with io.EOF)
	if len(data) < 400 || c.nScan%9 == 0 {
		for mode := 1; mode <= 3; mode++ {
			if mode == 1 && len(data) > 1500 && c.nScan%45 != 0 {
				continue
			}
			alt := c07ScanFrom(data, mode)
			r.count(fmt.Sprintf("scan/reader-mode%d", mode))
			if alt.String() != res.String() {
				r.fail(Failure{Oracle: fmt.Sprintf("the scan does not depend on how the io.Reader cuts the stream into reads (mode %d: 1 = one byte per Read, 2 = small chunks and data with io.EOF, 3 = chunks around 4096) (%s)", mode, class),
					Op: op, Got: alt.String(), Want: res.String()})
				break
			}
		}
	}
	// a reader that FAILS behind these bytes (an error other than io.EOF): the scan ends with an
	// error, whatever came before — also when the failure comes exactly where a record would begin
	// (seeded change W7-1: the failed read taken for the end of the stream)
	if len(data) < 400 || c.nScan%9 == 0 {
		bad := c07ScanFrom(data, 4)
		r.count("scan/reader-fails/" + bad.verdict)
		if bad.verdict != "ERR" && bad.verdict != "PANIC" && bad.verdict != "HANG" {
			r.fail(Failure{Oracle: "a reader that fails with an error other than io.EOF makes the scan end with an error (" + class + ")",
				Op: "scan.fail " + encBytes(data), Got: bad.String(), Want: "ERR"})
		}
	}
	facts := c07Facts(data)
	nGb := 0
	for i, k := range res.kinds {
		if k != "gb" {
			continue
		}
		if nGb < len(facts) {
			f := facts[nGb]
			// (a) whatever the record looks like: its length is the declared one, unless it is a
			//     CON record (CONTIG line, no sequence)
			// (b) with an ORIGIN block that is a field of the record: also the residues present
			badLen := f.declared != -1<<40 && res.lens[i] != f.declared && !(res.lens[i] == 0 && f.hasContig)
			badRes := f.hasOrigin && !f.ambiguous && res.lens[i] != f.residues
			switch {
			case !f.hasLocus:
			case !f.closed:
				r.fail(Failure{Oracle: "a record that is not closed by `//` is not returned (" + class + ")", Op: op, Got: res.String(), Want: "no record"})
			case badLen || badRes:
				pred := func(d []byte) bool {
					rr := c07Scan(d)
					ff := c07Facts(d)
					if len(rr.lens) == 0 || len(ff) == 0 || rr.kinds[0] != "gb" || !ff[0].hasLocus || !ff[0].closed {
						return false
					}
					bl := ff[0].declared != -1<<40 && rr.lens[0] != ff[0].declared && !(rr.lens[0] == 0 && ff[0].hasContig)
					br := ff[0].hasOrigin && !ff[0].ambiguous && rr.lens[0] != ff[0].residues
					return bl || br
				}
				small := data
				if nGb == 0 {
					small = c.shrink(data, pred)
				}
				r.fail(Failure{Oracle: "a scanned record has Len = declared LOCUS length (= residues in its ORIGIN block; 0 with a CONTIG line) (" + class + ")",
					Op: "scan.auto " + encBytes(small), Got: fmt.Sprintf("%s (record %d: Len %d, declared %d, ORIGIN line %v, residues present %d, CONTIG line %v)", res.String(), nGb, res.lens[i], f.declared, f.hasOrigin, f.residues, f.hasContig),
					Want: "an error, or no record"})
			default:
				r.count("consistency/checked")
				if f.ambiguous {
					r.count("consistency/ORIGIN or // inside a quoted qualifier value")
				}
				if !f.hasOrigin {
					r.count("consistency/record without ORIGIN line")
				}
			}
		}
		nGb++
	}
	if res.verdict == "OK" && len(res.kinds) > 0 && res.kinds[0] == "fa" && strings.Contains(class, ".fasta") {
		want := faResidues(data)
		if want != nil || isK7C(data) {
			same := len(want) == len(res.lens)
			for i := 0; same && i < len(want); i++ {
				same = want[i] == res.lens[i]
			}
			if !same {
				fid := ""
				if isK7C(data) {
					fid = "K7C"
				}
				r.fail(Failure{Oracle: "a FASTA record holds every byte behind its description line except line ends (" + class + ")", Finding: fid,
					Op: op, Got: res.String(), Want: fmt.Sprint(want)})
			} else {
				r.count("consistency/fasta checked")
			}
		}
	}
	if mustFail && res.verdict == "OK" && len(bytes.TrimSpace(data)) > 0 {
		// the scan ended without an error although the stream stops inside a record (the scanner
		// reads an error whose cause is io.EOF as the regular end of input)
		small := c.shrink(data, func(d []byte) bool {
			if bytes.Contains(d, []byte("\n//")) || bytes.HasPrefix(d, []byte("//")) || len(bytes.TrimSpace(d)) == 0 || !bytes.HasPrefix(d, []byte("LOCUS")) {
				return false
			}
			return c07Scan(d).verdict == "OK"
		})
		r.fail(Failure{Oracle: "a GenBank file cut before its closing `//` is reported as an error, not as the regular end of input (" + class + ")", Op: "scan.auto " + encBytes(small), Got: res.String(), Want: "ERR"})
	}
	if mustFail && len(res.lens) > 0 {
		small := c.shrink(data, func(d []byte) bool {
			if bytes.Contains(d, []byte("\n//")) || bytes.HasPrefix(d, []byte("//")) {
				return false
			}
			rr := c07Scan(d)
			return len(rr.lens) > 0 && rr.kinds[0] == "gb"
		})
		r.fail(Failure{Oracle: "a GenBank file cut before its closing `//` yields no record (" + class + ")", Op: "scan.auto " + encBytes(small), Got: res.String(), Want: "no record"})
	}
	return res
}

// shrink: greedy removal of lines, then of bytes, while pred keeps holding (bounded effort).
func (c *c07Ctx) shrink(data []byte, pred func([]byte) bool) []byte {
	if !pred(data) {
		return data
	}
	budget := 1500
	cur := append([]byte(nil), data...)
	for chunk := 0; chunk < 2; chunk++ {
		sep := []byte("\n")
		changed := true
		for changed && budget > 0 {
			changed = false
			var parts [][]byte
			if chunk == 0 {
				parts = bytes.SplitAfter(cur, sep)
			} else {
				if len(cur) > 400 {
					break
				}
				parts = make([][]byte, len(cur))
				for i := range cur {
					parts[i] = cur[i : i+1]
				}
			}
			for n := len(parts) / 2; n >= 1 && budget > 0; n /= 2 {
				for i := 0; i+n <= len(parts) && budget > 0; {
					cand := bytes.Join(append(append([][]byte{}, parts[:i]...), parts[i+n:]...), nil)
					budget--
					if pred(cand) {
						parts = append(append([][]byte{}, parts[:i]...), parts[i+n:]...)
						cur = cand
						changed = true
					} else {
						i += n
					}
				}
			}
		}
	}
	return cur
}

func fnvKey(p []byte) string {
	h := uint64(14695981039346656037)
	for _, c := range p {
		h = (h ^ uint64(c)) * 1099511628211
	}
	return strconv.FormatUint(h, 36) + ":" + itoa(len(p))
}

// ---------------------------------------------------------------------------
// corpus and structure-aware mutations

type c07File struct {
	name string
	data []byte
	gb   bool
}

func c07Corpus() ([]c07File, error) {
	dir := ""
	for _, d := range []string{os.Getenv("VERIF_REPO"), "/repo"} {
		if d == "" {
			continue
		}
		if st, err := os.Stat(filepath.Join(d, "seqio", "testdata")); err == nil && st.IsDir() {
			dir = filepath.Join(d, "seqio", "testdata")
			break
		}
	}
	if dir == "" {
		return nil, fmt.Errorf("seqio/testdata not found")
	}
	names := []string{"NC_001422_part.gb", "NC_001422_part.fasta", "pBAT5.txt", "NC_000913.3.min.gb", "NC_001422.gb", "NC_001422.fasta"}
	var out []c07File
	for _, n := range names {
		b, err := os.ReadFile(filepath.Join(dir, n))
		if err != nil {
			return nil, err
		}
		out = append(out, c07File{n, b, !strings.HasSuffix(n, ".fasta")})
	}
	return out, nil
}

func splitLines(data []byte) [][]byte { return bytes.SplitAfter(data, []byte("\n")) }

func joinLines2(ls [][]byte) []byte { return bytes.Join(ls, nil) }

// lastClose: offset of the last line that is exactly `//`
func lastClose(data []byte) int {
	i := bytes.LastIndex(data, []byte("\n//"))
	if i < 0 {
		return -1
	}
	return i + 1
}

func toCRLF(data []byte) []byte { return bytes.ReplaceAll(data, []byte("\n"), []byte("\r\n")) }

// setDeclared replaces the length column of the LOCUS line (keeping the line width when possible)
func setDeclared(data []byte, n string) []byte {
	ls := splitLines(data)
	if len(ls) == 0 || !bytes.HasPrefix(ls[0], []byte("LOCUS")) {
		return nil
	}
	i := bytes.Index(ls[0], []byte(" bp"))
	if i < 0 {
		return nil
	}
	j := i
	for j > 0 && ls[0][j-1] != ' ' {
		j--
	}
	old := string(ls[0][j:i])
	k := j
	for k > 0 && ls[0][k-1] == ' ' && len(n) > len(old)+(j-k) && k > 30 {
		k--
	}
	pad := ""
	if len(n) < len(old) {
		pad = strings.Repeat(" ", len(old)-len(n))
	}
	line := string(ls[0][:k]) + pad + n + string(ls[0][i:])
	out := append([][]byte{[]byte(line)}, ls[1:]...)
	return joinLines2(out)
}

func (c *c07Ctx) mutateFile(cf c07File, quick bool) {
	r := c.r
	data := cf.data
	name := cf.name
	big := len(data) > 10000
	base := c.scanCase("corpus/"+name, data, false)
	if base.verdict != "OK" || len(base.lens) == 0 {
		r.fail(Failure{Oracle: "the unmodified corpus file scans", Op: "scan.auto " + encBytes(data), Got: base.String()})
	}
	closeAt := -1
	if cf.gb {
		closeAt = lastClose(data)
	}

	// (1) truncation
	stride := 1
	if quick {
		stride = 7
		if big {
			stride = 61
		}
	} else if big {
		stride = 1
	}
	if name == "NC_000913.3.min.gb" && quick {
		stride = 53
	}
	off0 := r.rng.intn(stride)
	for off := off0; off < len(data); off += stride {
		c.scanCase("truncate/"+name, data[:off], cf.gb && off <= closeAt)
	}
	// the offsets around every line end are the interesting ones: always
	ls := splitLines(data)
	pos := 0
	for _, l := range ls {
		for _, d := range []int{-1, 0, 1} {
			off := pos + len(l) + d
			if off >= 0 && off < len(data) {
				c.scanCase("truncate-at-eol/"+name, data[:off], cf.gb && off <= closeAt)
			}
		}
		pos += len(l)
	}
	crlf := toCRLF(data)
	cClose := lastClose(crlf)
	for off := off0; off < len(crlf); off += stride * 3 {
		c.scanCase("truncate-crlf/"+name, crlf[:off], cf.gb && off <= cClose)
	}

	// (2) line edits
	lstride := 1
	if quick && len(ls) > 200 {
		lstride = 3
	}
	for i := r.rng.intn(lstride); i < len(ls); i += lstride {
		del := joinLines2(append(append([][]byte{}, ls[:i]...), ls[i+1:]...))
		c.scanCase("delete-line/"+name, del, false)
		dup := joinLines2(append(append(append([][]byte{}, ls[:i+1]...), ls[i]), ls[i+1:]...))
		c.scanCase("duplicate-line/"+name, dup, false)
		if i+1 < len(ls) {
			sw := append([][]byte{}, ls...)
			sw[i], sw[i+1] = sw[i+1], sw[i]
			c.scanCase("swap-lines/"+name, joinLines2(sw), false)
		}
		// (4) indents
		if len(ls[i]) > 1 && ls[i][0] == ' ' {
			sh := append([][]byte{}, ls...)
			sh[i] = ls[i][1:]
			c.scanCase("shrink-indent/"+name, joinLines2(sh), false)
			gr := append([][]byte{}, ls...)
			gr[i] = append([]byte{' '}, ls[i]...)
			c.scanCase("grow-indent/"+name, joinLines2(gr), false)
			all := bytes.TrimLeft(ls[i], " ")
			fl := append([][]byte{}, ls...)
			fl[i] = all
			c.scanCase("strip-indent/"+name, joinLines2(fl), false)
		}
		// (5)(6) fields
		if cf.gb && len(ls[i]) > 0 && ls[i][0] >= 'A' && ls[i][0] <= 'Z' {
			line := strings.TrimRight(string(ls[i]), "\r\n")
			nameEnd := strings.IndexByte(line, ' ')
			if nameEnd < 0 {
				nameEnd = len(line)
			}
			fname := line[:nameEnd]
			variants := []string{
				fname, fname + " ", fname + strings.Repeat(" ", 12-minInt(12, len(fname))), // name only / padded, no value
				fname + strings.Repeat(" ", 12-minInt(12, len(fname))) + "X:", // "DBLINK      X:"
				fname + strings.Repeat(" ", 12-minInt(12, len(fname))) + "X: ",
				fname + strings.Repeat(" ", 12-minInt(12, len(fname))) + ":",
				fname + strings.Repeat(" ", 12-minInt(12, len(fname))) + "X",
				fname + "ABCDEFGHIJKLMNOP" + line[nameEnd:], // name wider than the indent
				fname + "ABCDEFGH",
				strings.Repeat("Z", 12) + line[nameEnd:],
				strings.Repeat("Z", 13),
				strings.ToLower(fname) + line[nameEnd:],
			}
			for _, v := range variants {
				m := append([][]byte{}, ls...)
				m[i] = []byte(v + "\n")
				c.scanCase("field-value/"+name, joinLines2(m), false)
			}
			if fname == "REFERENCE" {
				for _, num := range []string{"1000", "99999", "-1", "+5", "0", "12345678901234567890", ""} {
					m := append([][]byte{}, ls...)
					m[i] = []byte("REFERENCE   " + num + "  (bases 1 to 2)\n")
					c.scanCase("reference-number/"+name, joinLines2(m), false)
					m[i] = []byte("REFERENCE   " + num + "\n")
					c.scanCase("reference-number/"+name, joinLines2(m), false)
				}
			}
		}
	}

	// (8b) a CR pushed in front of one line end of the CRLF form (CR CR LF) and of the LF form (CR LF)
	cstride := lstride * 2
	for i := r.rng.intn(cstride); i < len(ls); i += cstride {
		if len(ls[i]) == 0 || ls[i][len(ls[i])-1] != '\n' {
			continue
		}
		m := append([][]byte{}, ls...)
		m[i] = append(append([]byte{}, ls[i][:len(ls[i])-1]...), '\r', '\r', '\n')
		c.scanCase("cr-cr-lf/"+name, joinLines2(m), false)
		m[i] = append(append([]byte{}, ls[i][:len(ls[i])-1]...), '\r', '\n')
		c.scanCase("one-crlf/"+name, joinLines2(m), false)
	}

	// (3) declared length
	if cf.gb {
		f := c07Facts(data)
		if len(f) == 1 && f[0].declared >= 0 {
			L := f[0].declared
			for _, n := range []int{L + 1, L - 1, L + 60, L - 60, 2 * L, 0, 1, 59, 60, 61, -1, -59, -60, -61, -120, -L, L / 2, 10 * L, 1 << 40} {
				if m := setDeclared(data, itoa(n)); m != nil {
					c.scanCase("declared-length/"+name, m, false)
					c.scanCase("declared-length-crlf/"+name, toCRLF(m), false)
				}
			}
			for _, s := range []string{"+" + itoa(L), "0" + itoa(L), "99999999999999999999", "-", "x", "9223372036854775807", "8000000000000000000", "7280000000000000000", "7270000000000000000", "4611686018427387904"} {
				if m := setDeclared(data, s); m != nil {
					c.scanCase("declared-length-text/"+name, m, false)
				}
			}
		}
	}

	// (7) byte flips
	fstride := 3
	if quick {
		fstride = 29
		if big {
			fstride = 211
		}
	}
	special := []byte{'\n', ' ', '/', '"', '(', ')', ':', '\r', 0, 0xff, '>', '.'}
	for off := r.rng.intn(fstride); off < len(data); off += fstride {
		for _, x := range []byte{0x01, 0x20, 0x80} {
			m := append([]byte(nil), data...)
			m[off] ^= x
			c.scanCase("flip-bit/"+name, m, false)
		}
		m := append([]byte(nil), data...)
		m[off] = special[r.rng.intn(len(special))]
		c.scanCase("set-byte/"+name, m, false)
	}

	// (8) CRLF
	c.scanCase("crlf/"+name, crlf, false)
	half := append(append([]byte{}, crlf[:len(crlf)/2]...), data[len(data)-len(data)/2:]...)
	c.scanCase("crlf-mixed/"+name, half, false)
	c.scanCase("cr-only/"+name, bytes.ReplaceAll(data, []byte("\n"), []byte("\r")), false)

	// two and three records in one stream
	c.scanCase("concat/"+name, append(append([]byte{}, data...), data...), false)
	c.scanCase("concat-crlf/"+name, append(append([]byte{}, crlf...), crlf...), false)
	if closeAt > 0 {
		// the second record cut short: the first one may come out, the second must not
		two := append(append([]byte{}, data...), data[:closeAt/2]...)
		res := c.scanCase("concat-truncated/"+name, two, false)
		if len(res.lens) > 1 {
			r.fail(Failure{Oracle: "a second record cut before its `//` is not returned", Op: "scan.auto " + encBytes(two), Got: res.String()})
		}
	}
}

// ---------------------------------------------------------------------------
// synthetic records: declared length against residues present

func originBlock(res []byte) string {
	b := strings.Builder{}
	for i := 0; i < len(res); i += 60 {
		fmt.Fprintf(&b, "%9d", i+1)
		for j := i; j < i+60 && j < len(res); j += 10 {
			e := j + 10
			if e > len(res) {
				e = len(res)
			}
			b.WriteByte(' ')
			b.Write(res[j:e])
		}
		b.WriteByte('\n')
	}
	return b.String()
}

func synthRecord(declared string, res []byte, extra string) []byte {
	return []byte(fmt.Sprintf("LOCUS       TEST         %11s bp    DNA     linear   UNA 01-JAN-2000\nDEFINITION  test.\nORIGIN      \n%s%s//\n",
		declared, originBlock(res), extra))
}

func (c *c07Ctx) lengthMismatch(quick bool) {
	r := c.r
	alpha := []byte("acgt")
	maxR := 135
	step := 1
	if quick {
		step = 1
	}
	for R := 0; R <= maxR; R += step {
		res := make([]byte, R)
		for i := range res {
			res[i] = alpha[(i*7+R)%4]
		}
		for _, L := range []int{R, R + 1, R - 1, R + 60, R - 60, 2 * R, 0, R + 10, R - 10, -R, -1, -60} {
			if L == R && R > 0 && R%5 != 0 {
				continue
			}
			rec := synthRecord(itoa(L), res, "")
			out := c.scanCase("synthetic/declared-vs-residues", rec, false)
			if L == R && (out.verdict != "OK" || len(out.lens) != 1 || out.lens[0] != R) {
				r.fail(Failure{Oracle: "a consistent synthetic record scans with its length", Op: "scan.auto " + encBytes(rec), Got: out.String(), Want: fmt.Sprintf("OK [gb:%d]", R)})
			}
			if L != R && len(out.lens) > 0 {
				r.count("synthetic/mismatch returned a record (judged by the consistency clause)")
			}
			if R%15 == 0 {
				c.scanCase("synthetic/declared-vs-residues-crlf", toCRLF(rec), false)
			}
		}
		if R%9 == 0 {
			// F10 shapes: extra sequence lines, trailing junk, truncated block
			for _, extra := range []string{"       61 acgt\n", fmt.Sprintf("%9d acgtacgtac\n", R+1), "          \n", " \n", "junk\n", "        1\n"} {
				c.scanCase("synthetic/extra-sequence-line", synthRecord(itoa(R), res, extra), false)
			}
			rec := synthRecord(itoa(R), res, "")
			cut := bytes.Index(rec, []byte("ORIGIN"))
			closeAt := lastClose(rec)
			for off := cut; off < len(rec); off += 1 + R/20 {
				c.scanCase("synthetic/truncate-in-origin", rec[:off], off <= closeAt)
			}
		}
	}
}

// ---------------------------------------------------------------------------
// arbitrary bytes

func (c *c07Ctx) arbitrary(n int, corpus []c07File) {
	r := c.r
	gbAlpha := []byte("LOCUSDEFINITIONORIGINFEATURES //\n\n\n   0123456789acgt..()\"/=<>^,:bp-ABCjoincomplement\r>")
	for t := 0; t < n; t++ {
		size := r.rng.intn(4097)
		if t%3 == 0 {
			size = r.rng.intn(64)
		}
		b := make([]byte, size)
		mode := t % 6
		switch mode {
		case 0: // uniform bytes
			for i := range b {
				b[i] = byte(r.rng.next())
			}
		case 1: // flat-file alphabet
			for i := range b {
				b[i] = gbAlpha[r.rng.intn(len(gbAlpha))]
			}
		case 2: // starts like a GenBank record
			for i := range b {
				b[i] = gbAlpha[r.rng.intn(len(gbAlpha))]
			}
			b = append([]byte("LOCUS       X  "+itoa(r.rng.intn(200)-20)+" bp DNA linear UNA 01-JAN-2000\n"), b...)
		case 3: // starts like FASTA
			for i := range b {
				b[i] = gbAlpha[r.rng.intn(len(gbAlpha))]
			}
			b = append([]byte(">"), b...)
		case 4: // splice of corpus chunks
			b = b[:0]
			for len(b) < size {
				cf := corpus[r.rng.intn(len(corpus))]
				i := r.rng.intn(len(cf.data))
				j := i + r.rng.intn(200)
				if j > len(cf.data) {
					j = len(cf.data)
				}
				b = append(b, cf.data[i:j]...)
			}
		case 5: // lines of the corpus, shuffled
			cf := corpus[r.rng.intn(len(corpus))]
			ls := splitLines(cf.data)
			b = b[:0]
			for len(b) < size {
				b = append(b, ls[r.rng.intn(len(ls))]...)
			}
		}
		if len(b) > 4096 {
			b = b[:4096]
		}
		c.scanCase("arbitrary/"+[]string{"uniform", "flatfile-alphabet", "locus-prefix", "fasta-prefix", "corpus-splice", "corpus-lines"}[mode], b, false)
	}
}

// ---------------------------------------------------------------------------
// string parsers

func allStrings(alpha []byte, maxLen int, prefixes []string) []string {
	var out []string
	var rec func(p []byte)
	rec = func(p []byte) {
		for _, pre := range prefixes {
			out = append(out, pre+string(p))
		}
		if len(p) == maxLen {
			return
		}
		for _, ch := range alpha {
			rec(append(append([]byte{}, p...), ch))
		}
	}
	rec(nil)
	return out
}

var c07Seq = gts.New(nil, []gts.Feature{
	gts.NewFeature("source", gts.Range(0, 12), gts.Props{[]string{"organism", "x"}}),
	gts.NewFeature("gene", gts.Range(2, 8), gts.Props{[]string{"gene", "a1"}}),
	gts.NewFeature("CDS", gts.Complemented{Location: gts.Range(3, 9)}, gts.Props{[]string{"note", "1..2"}}),
}, []byte("acgtacgtacgt"))

// modelOp sends a line to both sides unless the run already holds too many lines of that op.
func (c *c07Ctx) classify(oracle, line, out string) {
	if out == "PANIC" || out == "HANG" {
		c.r.fail(Failure{Oracle: oracle, Op: line, Got: out, Want: "a value or an error value"})
	}
}

func verdictOf(out string) string {
	switch out {
	case "ERR", "PANIC", "HANG":
		return out
	}
	return "ok"
}

func (c *c07Ctx) strLocation(ss []string, class string) {
	r := c.r
	guardedBatch(ss, func(s string) string {
		return implParseLoc([]byte(s))
	}, func(s, out string) {
		line := "loc.parse " + encStr(s)
		if out != "HANG" {
			out = r.op(line)
		}
		r.count("location/" + class + "/" + verdictOf(out))
		r.eval("loc|"+s, true)
		c.classify("AsLocation / ParseLocation never panics or hangs", line, out)
	})
	// AsLocation itself plus printing of the result (oracle only)
	guardedBatch(ss, func(s string) string {
		l, err := gts.AsLocation(s)
		if err != nil {
			return "ERR"
		}
		_ = l.String()
		_ = l.Region()
		_ = l.Len()
		return "ok"
	}, func(s, out string) {
		c.classify("AsLocation and the methods of its result never panic or hang", "loc.parse "+encStr(s), out)
	})
}

func (c *c07Ctx) strModifier(ss []string, class string) {
	r := c.r
	guardedBatch(ss, func(s string) string {
		_, err := gts.AsModifier(s)
		if err != nil {
			return "ERR"
		}
		return "ok"
	}, func(s, out string) {
		line := "mod.parse " + encStr(s)
		if out != "HANG" {
			out = r.op(line)
		}
		r.count("modifier/" + class + "/" + verdictOf(out))
		r.eval("mod|"+s, true)
		c.classify("AsModifier never panics or hangs", line, out)
	})
}

func (c *c07Ctx) strLocator(ss []string, class string) {
	r := c.r
	guardedBatch(ss, func(s string) string {
		locate, err := gts.AsLocator(s)
		if err != nil {
			return "ERR"
		}
		rr := locate(c07Seq)
		for _, reg := range rr {
			_ = reg.Len() // (Locate on a region outside the sequence is not C07's business)
		}
		return "ok"
	}, func(s, out string) {
		r.count("locator/" + class + "/" + verdictOf(out))
		r.eval("lct|"+s, true)
		line := "locator.kind " + encStr(s)
		if out == "PANIC" || out == "HANG" {
			c.classify("AsLocator and the locator applied to a sequence never panic or hang", line+" 1", out)
			return
		}
		spec := s
		if i := strings.IndexByte(s, '@'); i >= 0 {
			spec = s[:i]
		}
		_, serr := gts.Selector(spec)
		kout := r.op(line + " " + b01(serr == nil))
		r.op("loc.try " + encStr(spec))
		// the oracle's own reading of AsLocator must agree with the real one on the verdict
		if (kout == "ERR") != (out == "ERR") {
			r.fail(Failure{Oracle: "AsLocator errs exactly when modifier, location and selector all refuse", Op: line + " " + b01(serr == nil), Got: out, Want: kout})
		}
	})
}

func (c *c07Ctx) strSelector(ss []string, class string) {
	r := c.r
	feats := c07Seq.Features()
	guardedBatch(ss, func(s string) string {
		f, err := gts.Selector(s)
		if err != nil {
			return "ERR"
		}
		for _, ft := range feats {
			f(ft)
		}
		return "ok"
	}, func(s, out string) {
		line := "sel.shift " + encStr(s)
		if out != "HANG" && out != "PANIC" && isASCIIStr(s) {
			r.op(line) // the selector model reads characters: valid UTF-8 only
		}
		r.count("selector/" + class + "/" + verdictOf(out))
		r.eval("sel|"+s, true)
		c.classify("Selector and the filter it returns never panic or hang (an invalid regexp is an error)", line, out)
	})
}

func (c *c07Ctx) strDate(ss []string, class string) {
	r := c.r
	guardedBatch(ss, func(s string) string { return c07Date(s) }, func(s, out string) {
		line := "date.parse " + encStr(s)
		if out != "HANG" {
			out = r.op(line)
		}
		r.count("date/" + class + "/" + verdictOf(out))
		r.eval("date|"+s, out != "ERR")
		c.classify("AsDate never panics or hangs", line, out)
	})
}

func (c *c07Ctx) strMolTop(ss []string, class string) {
	r := c.r
	for _, s := range ss {
		s := s
		o1 := guarded(func() string { return execOp("mol.parse " + encStr(s)) })
		if o1 != "HANG" {
			o1 = r.op("mol.parse " + encStr(s))
		}
		o2 := guarded(func() string { return execOp("top.parse " + encStr(s)) })
		if o2 != "HANG" {
			o2 = r.op("top.parse " + encStr(s))
		}
		r.count("molecule/" + class + "/" + verdictOf(o1))
		r.count("topology/" + class + "/" + verdictOf(o2))
		r.eval("mt|"+s, o1 != "ERR" || o2 != "ERR")
		c.classify("AsMolecule never panics or hangs", "mol.parse "+encStr(s), o1)
		c.classify("AsTopology never panics or hangs", "top.parse "+encStr(s), o2)
	}
}

func (c *c07Ctx) strTable(ss []string, class string) {
	r := c.r
	guardedBatch(ss, func(s string) string { return c07Table([]byte(s)) }, func(s, out string) {
		r.count("insdc-table/" + class + "/" + strings.Fields(out + " x")[0])
		r.eval("tab|"+class+"|"+fnvKey([]byte(s)), strings.HasPrefix(out, "OK"))
		c.classify("INSDCTableParser never panics or hangs", "insdc.table "+encStr(s), out)
		if out == "BADVALUE" {
			r.fail(Failure{Oracle: "INSDCTableParser returns a []gts.Feature", Op: "insdc.table " + encStr(s), Got: out})
		}
	})
}

func isASCIIStr(s string) bool {
	for i := 0; i < len(s); i++ {
		if s[i] >= 0x80 {
			return false
		}
	}
	return true
}

// mutateString: keyword-aware mutations of a valid string
func mutateString(rg *rng, s string, alpha []byte, keywords []string) string {
	b := []byte(s)
	switch rg.intn(8) {
	case 0:
		if len(b) > 0 {
			b[rg.intn(len(b))] = alpha[rg.intn(len(alpha))]
		}
	case 1:
		if len(b) > 0 {
			k := rg.intn(len(b))
			b = append(b[:k], b[k+1:]...)
		}
	case 2:
		k := rg.intn(len(b) + 1)
		b = append(b[:k], append([]byte{alpha[rg.intn(len(alpha))]}, b[k:]...)...)
	case 3:
		b = b[:rg.intn(len(b)+1)]
	case 4:
		k := rg.intn(len(b) + 1)
		kw := keywords[rg.intn(len(keywords))]
		b = append(b[:k], append([]byte(kw), b[k:]...)...)
	case 5:
		if len(b) > 0 {
			b = b[rg.intn(len(b)):]
		}
	case 6:
		if len(b) > 1 {
			i, j := rg.intn(len(b)), rg.intn(len(b))
			b[i], b[j] = b[j], b[i]
		}
	case 7:
		b = append(b, b...)
	}
	return string(b)
}

func (c *c07Ctx) strings(quick bool, corpus []c07File) {
	r := c.r
	rg := r.rng
	nMut := 1500
	lenLoc, lenMod, lenLct, lenSel, lenDate, lenTab := 4, 4, 3, 4, 4, 3
	if !quick {
		nMut = 20000
		lenLoc, lenMod, lenLct, lenSel, lenDate, lenTab = 5, 5, 4, 5, 5, 4
	}

	// locations
	locAlpha := []byte("12.^<>,()")
	c.strLocation(allStrings(locAlpha, lenLoc, []string{""}), "exhaustive")
	c.strLocation(allStrings(locAlpha, lenLoc-1, []string{"join(", "order(", "complement(", "complement(join(", "join(1..2,", "1..2,", "join(1,complement("}), "exhaustive-after-keyword")
	locKw := []string{"join(", "order(", "complement(", "..", "^", ")", ",", "<", ">", "-", "+", "00", "99999999999999999999"}
	var muts []string
	for t := 0; t < nMut; t++ {
		l := genLoc(rg, 3, 50, 5, true)
		muts = append(muts, mutateString(rg, l.String(), locAlphabet, locKw))
	}
	c.strLocation(muts, "mutated")

	// modifiers
	modAlpha := []byte("^$.+-019")
	c.strModifier(allStrings(modAlpha, lenMod, []string{"", "^..", "$-1..", "^+2..$"}), "exhaustive")
	modKw := []string{"^", "$", "..", "+", "-", "@", "99999999999999999999"}
	muts = muts[:0]
	valid := []string{"^", "$", "^+3", "$-2", "^..$", "^+1..$-2", "^..^+5", "$-3..$", "^-10..$+10"}
	for t := 0; t < nMut; t++ {
		muts = append(muts, mutateString(rg, valid[rg.intn(len(valid))], modAlpha, modKw))
	}
	c.strModifier(muts, "mutated")

	// locators
	lctAlpha := []byte("^$.@1/=a(\\")
	c.strLocator(allStrings(lctAlpha, lenLct, []string{"", "gene", "1..2", "complement(", "@", "CDS/note="}), "exhaustive")
	lctValid := []string{"^..$", "1..5", "7", "complement(2..4)", "gene", "CDS/note=1", "gene@^-2..$+2", "@^", "3..6@$-1..$", "complement(complement(1..2))", "source/organism=x", "/=a1"}
	lctKw := []string{"@", "complement(", "..", "/", "=", "\\", "(", ")", "[", "*", "^", "$"}
	muts = muts[:0]
	for t := 0; t < nMut; t++ {
		muts = append(muts, mutateString(rg, lctValid[rg.intn(len(lctValid))], lctAlpha, lctKw))
	}
	c.strLocator(muts, "mutated")

	// selectors
	selAlpha := []byte("a/=\\([*")
	c.strSelector(allStrings(selAlpha, lenSel, []string{"", "gene/", "/note="}), "exhaustive")
	muts = muts[:0]
	for t := 0; t < nMut; t++ {
		muts = append(muts, mutateString(rg, lctValid[rg.intn(len(lctValid))], selAlpha, []string{"/", "=", "\\", "\\/", "(", "[a-", "*", "+?", "{2,1}", "\xff"}))
	}
	c.strSelector(muts, "mutated")

	// dates: all strings over a small alphabet, every spelling x day x year form, mutations
	c.strDate(allStrings([]byte("0129-JAN+"), lenDate, []string{"", "1-JAN-", "29-FEB-", "-Feb-2000"}), "exhaustive")
	months := []string{"JAN", "Jan", "01", "FEB", "Feb", "02", "MAR", "Mar", "03", "APR", "Apr", "04", "MAY", "May", "05", "JUN", "Jun", "06",
		"JUL", "Jul", "07", "AUG", "Aug", "08", "SEP", "Sep", "09", "OCT", "Oct", "10", "NOV", "Nov", "11", "DEC", "Dec", "12", "jan", "13", "00", "", "J", "JANU"}
	var ds []string
	for _, m := range months {
		for _, d := range []string{"0", "1", "01", "001", "28", "29", "30", "31", "32", "+1", "-1", " 1", "1 ", "", "x", "9223372036854775807", "9223372036854775808"} {
			for _, y := range []string{"2000", "1900", "2004", "2023", "0", "0000", "1", "99999", "+2000", "-4", "", "x", "9223372036854775807", "9223372036854775808", "02000"} {
				ds = append(ds, d+"-"+m+"-"+y)
			}
		}
	}
	c.strDate(ds, "fields")
	muts = muts[:0]
	for t := 0; t < nMut; t++ {
		base := fmt.Sprintf("%02d-%s-%04d", 1+rg.intn(31), months[rg.intn(36)], 1+rg.intn(9999))
		muts = append(muts, mutateString(rg, base, []byte("0129-JANFebx +"), []string{"-", "--", "FEB", "29", "0000", "+"}))
	}
	c.strDate(muts, "mutated")
	// the writer's stamp and its reading, on both sides: every day of the leap-year cases, then a sweep of years
	years := []int{0, 1, 4, 99, 100, 400, 999, 1000, 1600, 1700, 1900, 1999, 2000, 2004, 2023, 2100, 2400, 9999, 10000, 12345, 99999, 1000000}
	if !quick {
		for y := 1; y <= 9999; y += 7 {
			years = append(years, y)
		}
	}
	dim := []int{31, 28, 31, 30, 31, 30, 31, 31, 30, 31, 30, 31}
	for _, y := range years {
		for m := 1; m <= 12; m++ {
			last := dim[m-1]
			if m == 2 && (y%4 == 0 && (y%100 != 0 || y%400 == 0)) {
				last = 29
			}
			for _, d := range []int{1, 9, 10, last} {
				line := fmt.Sprintf("date.fmt %d %d %d", y, m, d)
				out := r.op(line)
				r.count("date/writer-stamp")
				if out == "PANIC" {
					r.fail(Failure{Oracle: "the writer's date stamp never panics", Op: line, Got: out})
					continue
				}
				stamp := string(decBytes(parseLine(out)[0]))
				back := r.op("date.parse " + encStr(stamp))
				want := fmt.Sprintf("(D %d %d %d)", y, m, d)
				r.eval("stamp|"+stamp, true)
				if back != want {
					r.fail(Failure{Oracle: "AsDate reads back the date stamp the writer prints (year >= 0)", Op: "date.parse " + encStr(stamp), Got: back, Want: want})
				}
			}
			// the day after the last one is refused
			bad := fmt.Sprintf("%02d-%s-%04d", last+1, months[(m-1)*3], y)
			if out := r.op("date.parse " + encStr(bad)); out != "ERR" {
				r.fail(Failure{Oracle: "AsDate refuses the day after the last day of a month", Op: "date.parse " + encStr(bad), Got: out, Want: "ERR"})
			}
		}
	}

	// molecule / topology
	var mt []string
	mt = append(mt, allStrings([]byte("DNAdna-s"), 3, []string{"", "ss-", "ds-DN", "line", "CIRCULA"})...)
	for _, w := range []string{"DNA", "RNA", "AA", "ss-DNA", "ds-DNA", "linear", "circular", "ss-RNA", "mRNA", "cRNA"} {
		// every case variant of short words, a few of long ones
		n := len(w)
		lim := 1 << uint(n)
		if lim > 64 {
			lim = 64
		}
		for mask := 0; mask < lim; mask++ {
			b := []byte(strings.ToLower(w))
			for i := 0; i < n; i++ {
				if mask>>uint(i)&1 == 1 && b[i] >= 'a' && b[i] <= 'z' {
					b[i] -= 32
				}
			}
			mt = append(mt, string(b))
		}
		for t := 0; t < 40; t++ {
			mt = append(mt, mutateString(rg, w, []byte("DNARdnar-slic \x00\xff"), []string{"-", "ss", "İ", "K", "ı", "ſ"}))
		}
	}
	mt = append(mt, "lİnear", "cİrcular", "CİRCULAR", "lınear", "\xc4", "\xc4\xb0", "linear\xc4", "l\xb0near", "LINEAR", "CIRCULAR", "Circular", "circular ", " linear", "lineaK", "circular\x00")
	c.strMolTop(mt, "strings")

	// feature tables
	tabAlpha := []byte(" \n/=\"a1.(")
	c.strTable(allStrings(tabAlpha, lenTab, []string{"", "     gene            1..2\n", "     gene            1..2\n                     /", "     gene            1..2\n                     /note=\"", "     gene            "}), "exhaustive")
	// mutations of the real tables of the corpus
	var tables []string
	for _, cf := range corpus {
		if !cf.gb {
			continue
		}
		i := bytes.Index(cf.data, []byte("\nFEATURES"))
		if i < 0 {
			continue
		}
		rest := cf.data[i+1:]
		j := bytes.IndexByte(rest, '\n')
		body := rest[j+1:]
		e := 0
		for _, ln := range splitLines(body) {
			if len(ln) > 0 && ln[0] != ' ' {
				break
			}
			e += len(ln)
		}
		tables = append(tables, string(body[:e]))
	}
	var tmuts []string
	tabKw := []string{"/", "=", "\"", "\"\"", "\n", "\n                     ", "     ", "join(", "complement(", "..", "/translation=\"", "/pseudo\n", "/codon_start=1\n"}
	for _, tb := range tables {
		tmuts = append(tmuts, tb, strings.ReplaceAll(tb, "\n", "\r\n"))
		ls := strings.SplitAfter(tb, "\n")
		step := 1
		if quick && len(ls) > 150 {
			step = 4
		}
		for i := rg.intn(step); i < len(ls); i += step {
			tmuts = append(tmuts, strings.Join(append(append([]string{}, ls[:i]...), ls[i+1:]...), ""))
			tmuts = append(tmuts, strings.Join(ls[:i], ""))
			if len(ls[i]) > 1 {
				tmuts = append(tmuts, strings.Join(ls[:i], "")+ls[i][1:]+strings.Join(ls[i+1:], ""))
				tmuts = append(tmuts, strings.Join(ls[:i], "")+" "+ls[i]+strings.Join(ls[i+1:], ""))
				tmuts = append(tmuts, strings.Join(ls[:i], "")+ls[i][:len(ls[i])/2])
			}
		}
		n := nMut / 4
		for t := 0; t < n; t++ {
			// mutate inside a window so that the mutation is not lost in a long table
			k := rg.intn(len(tb))
			w := k + 1 + rg.intn(120)
			if w > len(tb) {
				w = len(tb)
			}
			tmuts = append(tmuts, tb[:k]+mutateString(rg, tb[k:w], tabAlpha, tabKw)+tb[w:])
		}
	}
	c.strTable(tmuts, "corpus-tables-mutated")

	// quoted qualifier values around the continuation indent: a value that BEGINS with a line break
	// (and the indent), consecutive line breaks, a line of the indent alone, an indent twice as wide,
	// a CR in front of the line feed, the value ending in a line break — LF and CRLF (seeded change
	// C07-i: a "CRLF fix" of the strip loop read token[i-1] with i = 0)
	{
		ind := strings.Repeat(" ", 21)
		var qs []string
		for _, v := range []string{"\n" + ind + "text", "\n" + ind, "\n", "\n\n" + ind + "a", "a\n" + ind + "\n" + ind + "b", "a\n" + ind + ind + "b",
			"a\r\n" + ind + "b", "\r\n" + ind + "b", "a\n" + ind, "a\n" + ind + "b\n", ind + "a", "a\n" + ind[:20] + "b", "a\n" + ind + " b"} {
			for _, name := range []string{"note", "zzunknown", "translation"} {
				t := "     gene            1..2\n" + ind + "/" + name + "=\"" + v + "\"\n"
				qs = append(qs, t, t+ind+"/gene=\"g\"\n", strings.ReplaceAll(t, "\n", "\r\n"))
			}
		}
		c.strTable(qs, "quoted-value-line-breaks")
	}

	// the key column: every key line (first and later ones) with the blanks between key and
	// location removed or reduced, with a key as wide as or wider than the column, and tables
	// whose first line fixes a narrower or wider column than the later lines use
	var kmuts []string
	synth := "     source          1..133\n                     /organism=\"x\"\n     misc_feature    10000..20000\n                     /note=\"a\"\n     CDS             complement(51..133)\n                     /codon_start=1\n"
	for _, tb := range append([]string{synth}, tables...) {
		ls := strings.SplitAfter(tb, "\n")
		var keyLines []int
		for i, ln := range ls {
			if len(ln) > 6 && strings.HasPrefix(ln, "     ") && ln[5] != ' ' {
				keyLines = append(keyLines, i)
			}
		}
		if quick && len(keyLines) > 12 {
			keyLines = append(append([]int{}, keyLines[:6]...), keyLines[len(keyLines)-6:]...)
		}
		for _, i := range keyLines {
			f := strings.Fields(ls[i])
			if len(f) < 2 {
				continue
			}
			key, loc := f[0], strings.Join(f[1:], " ")
			variants := []string{
				"     " + key + loc + "\n",                                             // blanks lost: fused token
				"     " + key + " " + loc + "\n",                                       // one blank
				"     " + key + strings.Repeat(" ", 30) + loc + "\n",                   // too many blanks
				"     " + key + strings.Repeat("x", 16-len(key)%16) + " " + loc + "\n", // key fills the column
				"     " + key + "_averyveryverylongkeyname " + loc + "\n",              // key wider than the column
				"   " + key + "            " + loc + "\n",                              // narrower indent
				"     " + key + "\t" + loc + "\n",
			}
			for _, v := range variants {
				kmuts = append(kmuts, strings.Join(ls[:i], "")+v+strings.Join(ls[i+1:], ""))
			}
		}
		// first line with another column width, the rest as written
		if len(keyLines) > 1 {
			f := strings.Fields(ls[keyLines[0]])
			if len(f) >= 2 {
				for _, w := range []int{1, 6, 11, 12, 20} {
					kmuts = append(kmuts, strings.Join(ls[:keyLines[0]], "")+"     "+f[0]+strings.Repeat(" ", w)+strings.Join(f[1:], " ")+"\n"+strings.Join(ls[keyLines[0]+1:], ""))
				}
			}
		}
	}
	c.strTable(kmuts, "key-column-mutated")
	// … and the same tables inside a record read by the scanner
	for _, cf := range corpus {
		if !cf.gb || len(cf.data) > 20000 {
			continue
		}
		i := bytes.Index(cf.data, []byte("\nFEATURES"))
		if i < 0 {
			continue
		}
		rest := cf.data[i+1:]
		j := bytes.IndexByte(rest, '\n')
		body := rest[j+1:]
		e := 0
		for _, ln := range splitLines(body) {
			if len(ln) > 0 && ln[0] != ' ' {
				break
			}
			e += len(ln)
		}
		head, tail := string(cf.data[:i+1+j+1]), string(body[e:])
		own := string(body[:e])
		for _, km := range kmuts {
			if strings.HasPrefix(km, own[:minInt(len(own), 40)]) || strings.Contains(km, "misc_feature    10000..20000") {
				c.scanCase("key-column/"+cf.name, []byte(head+km+tail), false)
			}
		}
	}
}

// ---------------------------------------------------------------------------
// deep nesting

func (c *c07Ctx) nesting(quick bool) {
	r := c.r
	old := debug.SetMaxStack(512 << 20)
	defer debug.SetMaxStack(old)
	ks := []int{1, 10, 100, 1000, 3000}
	if !quick {
		ks = append(ks, 10000)
	}
	saved := c07Watchdog
	c07Watchdog = 20 * time.Second
	defer func() { c07Watchdog = saved }()
	type shape struct {
		name string
		mk   func(k int) string
	}
	shapes := []shape{
		{"complement( x k + 1 + ) x k", func(k int) string { return strings.Repeat("complement(", k) + "1" + strings.Repeat(")", k) }},
		{"complement( x k, unclosed", func(k int) string { return strings.Repeat("complement(", k) + "1" }},
		{"join( x k + 1,2 + ) x k", func(k int) string { return strings.Repeat("join(", k) + "1,2" + strings.Repeat(")", k) }},
		{"order(complement( x k", func(k int) string {
			return strings.Repeat("order(complement(", k) + "1..2" + strings.Repeat("))", k)
		}},
		{"( x k", func(k int) string { return strings.Repeat("(", k) }},
	}
	for _, sh := range shapes {
		var times []string
		var last time.Duration
		for _, k := range ks {
			s := sh.mk(k)
			t0 := time.Now()
			out := guarded(func() string {
				l, err := gts.AsLocation(s)
				if err != nil {
					return "ERR"
				}
				_ = l.String()
				return "ok"
			})
			dt := time.Since(t0)
			last = dt
			times = append(times, fmt.Sprintf("k=%d:%s:%.1fms", k, out, float64(dt.Microseconds())/1000))
			r.count("nesting/AsLocation/" + out)
			r.eval(fmt.Sprintf("nest|%s|%d", sh.name, k), true)
			if out == "PANIC" || out == "HANG" {
				r.fail(Failure{Oracle: "deeply nested location text neither panics nor hangs (stack limit 512 MiB, 20 s)", Op: "loc.parse " + encStr(s), Got: out})
				break
			}
			// the same through AsLocator (tryLocation recursion) and inside a feature table
			o2 := guarded(func() string {
				if _, err := gts.AsLocator(s); err != nil {
					return "ERR"
				}
				return "ok"
			})
			o3 := c07Table([]byte("     gene            " + s + "\n"))
			r.count("nesting/AsLocator/" + o2)
			r.count("nesting/INSDCTableParser/" + strings.Fields(o3 + " x")[0])
			for _, o := range []string{o2, o3} {
				if o == "PANIC" || o == "HANG" {
					r.fail(Failure{Oracle: "deeply nested location text neither panics nor hangs in AsLocator / INSDCTableParser", Op: "locator.kind " + encStr(s) + " 1", Got: o})
				}
			}
			if k <= 1000 {
				r.op("loc.parse " + encStr(s)) // the model agrees (its fuel is the length)
			}
		}
		_ = last
		r.notes = append(r.notes, "nesting sweep "+sh.name+": "+strings.Join(times, " "))
	}
}

// ---------------------------------------------------------------------------

// ---------------------------------------------------------------------------
// TIME: the scan of the leak-then-rewind shapes grows linearly with the input (F34).
//
// Each shape is generated in two sizes, n and 4n (input sizes in the ratio 1:4).  With t(n) the
// minimum of three scans of the small input, one of three scans of the large input has to finish
// within 8·t(n) + 50 ms (CPU time of the scanning thread, see threadCPU; a comparison that fails
// by less than a factor of three is repeated, up to three rounds).  A scan that goes back to saved positions left by an earlier parser and
// reads the lines behind them again, once per position, takes 16 times as long or more (66de3a0:
// 1.6 s against 42 s for 7 KB and 28 KB) and is reported with both times.  The comparison is
// skipped (and counted as skipped) when t(n) is below 1 ms: nothing to compare.

type timeShape struct {
	name string
	n    int // size parameter of the small input; the large one is generated with 4n
	gen  func(n int) []byte
}

var c07TimeShapes = []timeShape{
	// n leaked frames, n skipped lines, a SOURCE field without ORGANISM (the shape of F34)
	{"join-leak+skipped+SOURCE-without-ORGANISM", 1000, func(n int) []byte {
		return []byte(leakHead("join(", n, n) + "SOURCE      x\n//\n")
	}},
	{"order-leak+skipped+SOURCE-without-ORGANISM", 1000, func(n int) []byte {
		return []byte(leakHead("order(", n, n) + "SOURCE      x\n//\n")
	}},
	// ... n multi-line DEFINITION fields without period (each joined in place and retried)
	{"join-leak+DEFINITION-without-period", 250, func(n int) []byte {
		return []byte(leakHead("join(", n, 0) + strings.Repeat("DEFINITION  a\n            b\n            c\n", n) + "SOURCE      x\n//\n")
	}},
	// ... n REFERENCE fields with an unknown sub-field
	{"join-leak+REFERENCE-unknown-subfield", 250, func(n int) []byte {
		return []byte(leakHead("join(", n, 0) + strings.Repeat("REFERENCE   1  (bases 1 to 4)\n  AUTHORS   x\n  BOGUS     y\n", n) + "SOURCE      x\n//\n")
	}},
	// ... n DBLINK fields without colon
	{"join-leak+DBLINK-without-colon", 1000, func(n int) []byte {
		return []byte(leakHead("join(", n, 0) + strings.Repeat("DBLINK      abc\n", n) + "SOURCE      x\n//\n")
	}},
	// n feature tables, each of which leaks one frame per nesting level, no SOURCE at all
	{"repeated-leaking-tables", 250, func(n int) []byte {
		return []byte(leakLocus + strings.Repeat("FEATURES\na 1\na join(join(join(1^3\nx\n", n) + "//\n")
	}},
}

// threadCPU: the CPU time the calling OS thread has used so far
// (clock_gettime(CLOCK_THREAD_CPUTIME_ID), nanosecond resolution; getrusage is tick-sampled and
// reads 0 for a scan of a few milliseconds).  The scans of the time oracle are timed with it, on a
// goroutine locked to its thread: unlike wall time it does not grow when the machine is busy with
// other work or when the garbage collector's background workers run, and a scan that re-reads its
// input burns CPU time like any other.
func threadCPU() (time.Duration, bool) {
	var ts syscall.Timespec
	const clockThreadCPUTimeID = 3
	if _, _, errno := syscall.Syscall(syscall.SYS_CLOCK_GETTIME, clockThreadCPUTimeID, uintptr(unsafe.Pointer(&ts)), 0); errno != 0 {
		return 0, false
	}
	return time.Duration(ts.Nano()), true
}

// c07ScanTime: the shortest (CPU time of the scanning thread; wall time where that is not
// available) of up to `runs` scans of data; a scan that is still running after `wallLimit` is
// abandoned (its goroutine runs to its end in the background) and does not count.  With
// stopWithin > 0 the first scan that finishes within it ends the measurement.
func c07ScanTime(data []byte, runs int, wallLimit, stopWithin time.Duration) (best time.Duration, finished bool, verdict string) {
	type res struct {
		v string
		d time.Duration
	}
	for i := 0; i < runs; i++ {
		done := make(chan res, 1)
		go func() {
			runtime.LockOSThread()
			defer runtime.UnlockOSThread()
			w0 := time.Now()
			c0, okc := threadCPU()
			v := "OK"
			func() {
				defer func() {
					if rec := recover(); rec != nil {
						v = "PANIC"
					}
				}()
				sc := seqio.NewAutoScanner(bytes.NewReader(data))
				for sc.Scan() {
				}
				if sc.Err() != nil {
					v = "ERR"
				}
			}()
			d := time.Since(w0)
			if c1, ok := threadCPU(); ok && okc {
				d = c1 - c0
			}
			done <- res{v, d}
		}()
		select {
		case x := <-done:
			verdict = x.v
			if !finished || x.d < best {
				best = x.d
			}
			finished = true
			if stopWithin > 0 && x.d <= stopWithin {
				return
			}
		case <-time.After(wallLimit):
			return
		}
	}
	return
}

func (c *c07Ctx) timeOracle() {
	r := c.r
	for _, sh := range c07TimeShapes {
		small, big := sh.gen(sh.n), sh.gen(4*sh.n)
		key := "time|" + sh.name
		oracle := "scan time grows linearly with the input (" + sh.name + ")"
		// a comparison that fails is repeated (both sizes) up to three times: a scan that really
		// re-reads its input fails every time, a measurement disturbed by other load does not
		var got, want, state string
		for round := 0; round < 3; round++ {
			crumb("scan.auto " + encBytes(small))
			t1, ok, v1 := c07ScanTime(small, 3, 20*time.Second, 0)
			if !ok {
				state, got, want = "HANG", fmt.Sprintf("the scan of %d bytes did not finish within 20 s", len(small)), "a scan that ends"
				break
			}
			if t1 < time.Millisecond {
				state = "skipped (below 1 ms)"
				r.notes = append(r.notes, fmt.Sprintf("time oracle %s: %d bytes in %s: below 1 ms, not compared", sh.name, len(small), t1))
				break
			}
			limit := 8*t1 + 50*time.Millisecond
			wall := 2*limit + 2*time.Second
			crumb("scan.auto " + encBytes(big))
			t4, ok4, v4 := c07ScanTime(big, 3, wall, limit)
			if ok4 && t4 <= limit {
				state = "linear"
				r.notes = append(r.notes, fmt.Sprintf("time oracle %s: %d bytes in %s, %d bytes in %s (limit %s, round %d)", sh.name, len(small), t1, len(big), t4, limit, round+1))
				break
			}
			state = "superlinear"
			got = fmt.Sprintf("%d bytes: %s (%s); %d bytes: ", len(small), t1, v1, len(big))
			if ok4 {
				got += fmt.Sprintf("%s (%s)", t4, v4)
			} else {
				got += fmt.Sprintf("not finished after %s", wall)
			}
			want = fmt.Sprintf("at most 8 x %s + 50 ms = %s for four times the input (CPU time of the scanning thread, best of 3, in each of 3 rounds)", t1, limit)
			if !ok4 || t4 > 3*limit {
				break // far off: no need to ask again
			}
		}
		r.count("time/" + sh.name + "/" + state)
		if state == "skipped (below 1 ms)" {
			continue
		}
		r.eval(key, true)
		if state == "HANG" {
			r.fail(Failure{Oracle: oracle, Op: "scan.auto " + encBytes(small), Got: got, Want: want})
		} else if state == "superlinear" {
			r.fail(Failure{Oracle: oracle, Op: "scan.auto " + encBytes(big), Got: got, Want: want})
		}
	}
}

func propC07(r *Run) {
	quick := r.tier != "thorough"
	c := &c07Ctx{r: r, seen: map[string]struct{}{}}
	corpus, err := c07Corpus()
	if err != nil {
		r.fail(Failure{Oracle: "corpus files are readable", Op: "scan.auto x", Got: err.Error()})
		return
	}
	r.exhaustive = true

	// recorded shapes of the repaired findings run first
	for _, w := range []struct{ name, text string }{
		{"F13 DBLINK without value", "LOCUS       X                  0 bp    DNA     linear   UNA 01-JAN-2000\nDBLINK      X:\n//\n"},
		{"F14 field name wider than the indent", "LOCUS       X                  0 bp    DNA     linear   UNA 01-JAN-2000\nABCDEFGHIJKLMNOP value\n//\n"},
		{"F16 REFERENCE 1000", "LOCUS       X                  0 bp    DNA     linear   UNA 01-JAN-2000\nREFERENCE   1000\n//\n"},
		{"F17 declared length -60", "LOCUS       X                 -60 bp    DNA     linear   UNA 01-JAN-2000\nORIGIN      \n//\n"},
		{"F22 declared length 9223372036854775807", "LOCUS       X  9223372036854775807 bp    DNA     linear   UNA 01-JAN-2000\nORIGIN      \n//\n"},
		{"F10 truncated inside ORIGIN", "LOCUS       X                  20 bp    DNA     linear   UNA 01-JAN-2000\nORIGIN      \n        1 acgtacgtac acg"},
		{"F21 CR CR LF in front of ORIGIN", "LOCUS       X                  4 bp    DNA     linear   UNA 01-JAN-2000\nBASE\r\r\nORIGIN      \n        1 acgt\n//\n"},
		{"F21 CR CR CR LF in a field body", "LOCUS       X                  4 bp    DNA     linear   UNA 01-JAN-2000\nDEFINITION  x.\r\r\r\nORIGIN      \n        1 acgt\n//\n"},
		{"F21 ORIGIN line deleted", "LOCUS       X                  4 bp    DNA     linear   UNA 01-JAN-2000\n        1 acgt\n//\n"},
		{"empty DEFINITION", "LOCUS       X                  0 bp    DNA     linear   UNA 01-JAN-2000\nDEFINITION  \n//\n"},
		{"DEFINITION at end of input", "LOCUS       X                  0 bp    DNA     linear   UNA 01-JAN-2000\nDEFINITION  "},
	} {
		c.scanCase("recorded-shape/"+w.name, []byte(w.text), false)
		c.scanCase("recorded-shape-crlf/"+w.name, toCRLF([]byte(w.text)), false)
	}

	c.scanCase("recorded-shape/K7C fasta.fasta", []byte(">d\r\r\nACGT\n"), false)
	// leaked location-parser frames followed by a field that fails late (F34): correspondence
	// with the record-scanner model (gb.read, gb.state), and the same texts through the oracle
	leakCases(r)
	for _, t := range leakTexts() {
		c.scanCase("leak-then-rewind", []byte(t), false)
	}
	for _, t := range contigLineTexts() {
		c.scanCase("contig-line", []byte(t), false)
	}
	c.timeOracle()
	c.timeFamilies()
	c.quotedEmptyPrefix()
	for _, cf := range corpus {
		c.mutateFile(cf, quick)
	}
	c.lengthMismatch(quick)
	nArb := 1500
	if !quick {
		nArb = 40000
	}
	c.arbitrary(nArb, corpus)
	c.strings(quick, corpus)
	c.nesting(quick)

	keys := make([]string, 0, len(r.hist))
	for k := range r.hist {
		keys = append(keys, k)
	}
	sort.Strings(keys)
	r.notes = append(r.notes,
		fmt.Sprintf("scanner inputs: %d (watchdog %s per input; verdicts in the histogram under scan/<generator>/<file>/<verdict>)", c.nScan, c07Watchdog),
		"exhaustive small scope: all strings up to the tier's length over the alphabets of locations, modifiers, locators, selectors, dates, molecule/topology words and feature tables (with keyword prefixes); every line of every corpus file deleted / duplicated / swapped / re-indented; every field line with its value dropped or its name widened",
		"correspondence (verdict class and value): loc.parse, mod.parse, loc.try, locator.kind, sel.shift, date.parse, date.fmt, mol.parse, top.parse; oracle only: scan.auto, insdc.table, locator application, Selector filters",
		"a record with a CONTIG line and no sequence (CON division) is returned with Len 0 whatever its LOCUS line declares; every other returned record must have Len = declared length")
	r.sample("scan.auto <" + corpus[0].name + " cut at every offset>")
	r.sample("scan.auto " + encStr("LOCUS       X                  0 bp    DNA     linear   UNA 01-JAN-2000\nDBLINK      X:\n//\n"))
}

// chunkReader hands out data in chunks of the given sizes (cyclically).
type chunkReader struct {
	data  []byte
	sizes []int
	k     int
}

func (c *chunkReader) Read(p []byte) (int, error) {
	if len(c.data) == 0 {
		return 0, io.EOF
	}
	n := c.sizes[c.k%len(c.sizes)]
	c.k++
	if n > len(p) {
		n = len(p)
	}
	if n > len(c.data) {
		n = len(c.data)
	}
	copy(p, c.data[:n])
	c.data = c.data[n:]
	return n, nil
}
