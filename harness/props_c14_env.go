package main

// C14 in unusual environments (oracle only; the histories of props_c14.go always run with a usable
// scratch cache and stdin on a pipe):
//   - the cache cannot be set up (HOME and XDG_CACHE_HOME unset; the cache root below a regular
//     file; TMPDIR missing): caching is best effort, the run must still write what --no-cache
//     writes and exit with the same status (seeded change C14-h);
//   - stdin is a regular file positioned behind some bytes: the run must read from that offset,
//     cold and warm, like --no-cache does (seeded change C14-g: a "rewind" to offset 0).

import (
	"bytes"
	"fmt"
	"io/ioutil"
	"path/filepath"
	"strings"
)

func c14Environments(r *Run) {
	primaries := c14Primaries
	for ci := range c14Cmds {
		cmd := &c14Cmds[ci]
		base := c14Base(r.rng, cmd, primaries[ci%len(primaries)])
		run := base.run()
		if run.early || run.ofile() != "" {
			continue
		}
		type envCase struct {
			name  string
			env   func(d cliDir) []string
			skip  int
			out   int    // stdout a regular file under ulimit -f out (512-byte blocks)
			empty bool   // nothing at all on stdin
			front []byte // bytes put in front of the primary input
		}
		cases := []envCase{
			{"no HOME, no XDG_CACHE_HOME", func(d cliDir) []string { return []string{"TMPDIR=" + filepath.Join(d.root, "tmp")} }, -1, 0, false, nil},
			{"cache root below a regular file", func(d cliDir) []string {
				f := filepath.Join(d.root, "plainfile")
				ioutil.WriteFile(f, []byte("x"), 0644)
				return []string{"HOME=" + filepath.Join(d.root, "home"), "XDG_CACHE_HOME=" + filepath.Join(f, "sub"), "TMPDIR=" + filepath.Join(d.root, "tmp")}
			}, -1, 0, false, nil},
			{"TMPDIR missing", func(d cliDir) []string {
				return []string{"HOME=" + filepath.Join(d.root, "home"), "XDG_CACHE_HOME=" + filepath.Join(d.root, "cache"), "TMPDIR=" + filepath.Join(d.root, "no-such-dir")}
			}, -1, 0, false, nil},
			{"stdin a regular file at offset 0", nil, 0, 0, false, nil},
			{"stdin a regular file behind 14 bytes", nil, 14, 0, false, nil},
			{"stdin a regular file behind 4100 bytes", nil, 4100, 0, false, nil},
			{"nothing on stdin (an empty pipe)", nil, -1, 0, true, nil},
			{"nothing on stdin (an empty regular file)", nil, 0, 0, true, nil},
			// the bytes of the input are the input: nothing is taken off or normalised on the cached
			// path only (seeded change C14-i: the stdin spool dropped a UTF-8 byte order mark, so the
			// cached runs parsed what --no-cache rejects)
			{"a UTF-8 byte order mark in front of the input", nil, -1, 0, false, []byte{0xEF, 0xBB, 0xBF}},
			{"a UTF-16 byte order mark in front of the input", nil, -1, 0, false, []byte{0xFF, 0xFE}},
			{"a blank line in front of the input", nil, -1, 0, false, []byte("\n")},
			{"a carriage return and a line feed in front of the input", nil, -1, 0, false, []byte("\r\n")},
			{"a NUL byte in front of the input", nil, -1, 0, false, []byte{0}},
			{"a blank in front of the input", nil, -1, 0, false, []byte(" ")},
		}
		for _, ec := range cases {
			d := newCliDir()
			var env []string
			if ec.env != nil {
				env = ec.env(d)
			}
			line := fmt.Sprintf("cli.env %q gts %s %s", ec.name, run.cmd, strings.Join(run.args, " "))
			crumb(line)
			rn := run
			if ec.empty {
				rn.primary = inHex(nil)
			}
			if ec.front != nil {
				rn.primary = inHex(append(append([]byte(nil), ec.front...), rn.primary.bytes()...))
			}
			want := d.runEnv(rn, true, env, ec.skip, ec.out)
			cold := d.runEnv(rn, false, env, ec.skip, 0) // the entry is written by a run whose output succeeds
			if ec.out == 0 {
				cold = d.runEnv(rn, false, env, ec.skip, ec.out)
			}
			warm := d.runEnv(rn, false, env, ec.skip, ec.out)
			if ec.out > 0 {
				cold = warm // only the warm run writes to the limited file
			}
			d.close()
			r.count("env/" + ec.name)
			r.eval(line, want.status == 0 && len(want.out) > 0)
			for i, got := range []cliResult{cold, warm} {
				// when the output device fails midway only the exit status is compared: how many bytes
				// reached the file before the failure depends on buffering, not on the cache
				if got.status != want.status || (ec.out == 0 && !bytes.Equal(got.out, want.out)) {
					r.fail(Failure{Oracle: "caching is transparent also when " + ec.name + " (run " + []string{"cold", "warm"}[i] + " = the --no-cache run in the same environment)", Op: line,
						Got:  fmt.Sprintf("status %d, %d bytes (sha1 %s)", got.status, len(got.out), sha1hex(got.out)[:12]),
						Want: fmt.Sprintf("status %d, %d bytes (sha1 %s)", want.status, len(want.out), sha1hex(want.out)[:12])})
					break
				}
			}
		}
	}
	// the output device fails midway: stdout a regular file under a file-size limit.  The limit
	// applies to every file the process writes, so the case is built so that only stdout exceeds
	// it: a tiny input (the stdin spool), a guest of 6000 equal residues (the cache entry deflates
	// to a few dozen bytes), an output of more than 6000 bytes.  Only the exit status is compared
	// (how many bytes reach the file before the failure depends on buffering): seeded change W3-1
	// lets the warm run exit 0 although the copy of the entry failed.
	for _, blocks := range []int{8, 2} {
		for _, name := range []string{"insert", "infix"} {
			tiny := inHex([]byte(">s\nacgtacgtacgtacgtacgt\n"))
			big := "@" + strings.Repeat("a", 6000)
			run := cliRun{cmd: name, args: []string{"^", big}, primary: tiny}
			if name == "infix" {
				// infix: the guest comes on stdin, the host is the argument
				run = cliRun{cmd: name, args: []string{"^", "@acgtacgtacgt"}, primary: inHex([]byte(">g\n" + strings.Repeat("a", 3000) + "\n"))}
				if blocks == 8 {
					continue // 3000 residues fit into 4096 bytes
				}
			}
			d := newCliDir()
			line := fmt.Sprintf("cli.env \"stdout a regular file that is full after %d bytes\" gts %s ^ @a{6000}", blocks*512, name)
			crumb(line)
			okRun := d.runEnv(run, false, nil, -1, 0) // fills the cache; its own output succeeds
			want := d.runEnv(run, true, nil, -1, blocks)
			warm := d.runEnv(run, false, nil, -1, blocks)
			d.close()
			r.count("env/stdout full")
			r.eval(line, okRun.status == 0 && want.status != 0)
			if okRun.status == 0 && warm.status != want.status {
				r.fail(Failure{Oracle: "a warm-cache run whose output device fails midway exits with the status of the --no-cache run", Op: line,
					Got: fmt.Sprintf("status %d (%d bytes written)", warm.status, len(warm.out)), Want: fmt.Sprintf("status %d (%d bytes written)", want.status, len(want.out))})
			}
		}
	}
	r.notes = append(r.notes, "environments (oracle only): every cached command with the cache impossible to set up (no HOME / XDG_CACHE_HOME, cache root below a file, TMPDIR missing) and with stdin a regular file at offsets 0, 14, 4100 — cold and warm against --no-cache")
}
