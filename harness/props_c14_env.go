package main

// C14 in unusual environments (oracle only; the histories of props_c14.go always run with a usable
// scratch cache and stdin on a pipe):
//   - the cache cannot be set up (HOME and XDG_CACHE_HOME unset; the cache root below a regular
//     file; TMPDIR missing): caching is best effort, the run must still write what --no-cache
//     writes and exit with the same status (seeded change C14-h);
//   - stdin is a regular file positioned behind some bytes: the run must read from that offset,
//     cold and warm, like --no-cache does (seeded change C14-g: a "rewind" to offset 0).

import (
	"bytes"
	"fmt"
	"io/ioutil"
	"path/filepath"
	"strings"
)

func c14Environments(r *Run) {
	primaries := c14Primaries
	for ci := range c14Cmds {
		cmd := &c14Cmds[ci]
		base := c14Base(r.rng, cmd, primaries[ci%len(primaries)])
		run := base.run()
		if run.early {
			continue
		}
		type envCase struct {
			name string
			env  func(d cliDir) []string
			skip int
		}
		cases := []envCase{
			{"no HOME, no XDG_CACHE_HOME", func(d cliDir) []string { return []string{"TMPDIR=" + filepath.Join(d.root, "tmp")} }, -1},
			{"cache root below a regular file", func(d cliDir) []string {
				f := filepath.Join(d.root, "plainfile")
				ioutil.WriteFile(f, []byte("x"), 0644)
				return []string{"HOME=" + filepath.Join(d.root, "home"), "XDG_CACHE_HOME=" + filepath.Join(f, "sub"), "TMPDIR=" + filepath.Join(d.root, "tmp")}
			}, -1},
			{"TMPDIR missing", func(d cliDir) []string {
				return []string{"HOME=" + filepath.Join(d.root, "home"), "XDG_CACHE_HOME=" + filepath.Join(d.root, "cache"), "TMPDIR=" + filepath.Join(d.root, "no-such-dir")}
			}, -1},
			{"stdin a regular file at offset 0", nil, 0},
			{"stdin a regular file behind 14 bytes", nil, 14},
			{"stdin a regular file behind 4100 bytes", nil, 4100},
		}
		for _, ec := range cases {
			d := newCliDir()
			var env []string
			if ec.env != nil {
				env = ec.env(d)
			}
			line := fmt.Sprintf("cli.env %q gts %s %s", ec.name, run.cmd, strings.Join(run.args, " "))
			crumb(line)
			want := d.runEnv(run, true, env, ec.skip)
			cold := d.runEnv(run, false, env, ec.skip)
			warm := d.runEnv(run, false, env, ec.skip)
			d.close()
			r.count("env/" + ec.name)
			r.eval(line, want.status == 0 && len(want.out) > 0)
			for i, got := range []cliResult{cold, warm} {
				if got.status != want.status || !bytes.Equal(got.out, want.out) {
					r.fail(Failure{Oracle: "caching is transparent also when " + ec.name + " (run " + []string{"cold", "warm"}[i] + " = the --no-cache run in the same environment)", Op: line,
						Got:  fmt.Sprintf("status %d, %d bytes (sha1 %s)", got.status, len(got.out), sha1hex(got.out)[:12]),
						Want: fmt.Sprintf("status %d, %d bytes (sha1 %s)", want.status, len(want.out), sha1hex(want.out)[:12])})
					break
				}
			}
		}
	}
	r.notes = append(r.notes, "environments (oracle only): every cached command with the cache impossible to set up (no HOME / XDG_CACHE_HOME, cache root below a file, TMPDIR missing) and with stdin a regular file at offsets 0, 14, 4100 — cold and warm against --no-cache")
}
