package main

import (
	"bufio"
	"encoding/json"
	"flag"
	"fmt"
	"os"
	"path/filepath"
	"runtime/debug"
	"sort"
	"strings"
	"time"

	"github.com/go-gts/gts"
	"github.com/go-pars/pars"
)

func parseLocRest(p []byte) (gts.Location, []byte, error) {
	state := pars.FromBytes(p)
	result := pars.Result{}
	if err := gts.ParseLocation(state, &result); err != nil {
		return nil, nil, err
	}
	rest := append([]byte(nil), state.Dump()...)
	return result.Value.(gts.Location), rest, nil
}

// ---------------------------------------------------------------------------

// Failure is one oracle failure on the real implementation.
type Failure struct {
	Property string `json:"property"`
	Oracle   string `json:"oracle"`          // name of the oracle clause that failed
	Op       string `json:"op"`              // protocol line reproducing the input
	Got      string `json:"got"`             // implementation output
	Want     string `json:"want"`            // what the property demands (informal)
	Guard    string `json:"guard,omitempty"` // protocol line asking the model whether a known-finding shape applies
	Finding  string `json:"finding,omitempty"`
}

// Run collects the protocol lines, the implementation's answers and the
// oracle statistics of one harness invocation.
type Run struct {
	prop  string
	tier  string
	seed  int64
	rng   *rng
	ops   *bufio.Writer
	impl  *bufio.Writer
	nOps  int
	evals int
	// distinct non-trivial oracle cases (hash set of canonical case keys)
	nontrivial map[string]struct{}
	hist       map[string]int
	samples    []string
	failures   []Failure
	nFail      int
	notes      []string
	exhaustive bool
}

// crumb notes, in a file that survives the process, the case the implementation is about to be
// run on: when the real code takes the whole process down (fatal runtime error: out of memory,
// stack exhaustion, os.Exit) bin/check finds the input there and re-runs it alone.
var crumbFile *os.File

var lastCrumb string

func crumb(line string) {
	lastCrumb = line
	if crumbFile != nil {
		crumbFile.WriteAt([]byte(line+"\n"), 0)
	}
}

// op sends a protocol line to both sides and returns the implementation's answer.
func (r *Run) op(line string) string {
	crumb(line)
	out := execOp(line)
	r.ops.WriteString(line)
	r.ops.WriteByte('\n')
	r.impl.WriteString(out)
	r.impl.WriteByte('\n')
	r.nOps++
	return out
}

// record stores a protocol line together with an implementation answer that was computed
// beforehand (ops that shell out to the binary are executed by a worker pool).
func (r *Run) record(line, out string) {
	r.ops.WriteString(line)
	r.ops.WriteByte('\n')
	r.impl.WriteString(out)
	r.impl.WriteByte('\n')
	r.nOps++
}

func (r *Run) count(key string) { r.hist[key]++ }

func (r *Run) sample(s string) {
	if len(r.samples) < 12 {
		r.samples = append(r.samples, s)
	} else if r.rng.intn(200) == 0 {
		r.samples[r.rng.intn(len(r.samples))] = s
	}
}

// eval records one oracle evaluation; key identifies the case for the
// distinct count; nontrivial says whether the case exercises the property.
func (r *Run) eval(key string, nontrivial bool) {
	r.evals++
	if nontrivial {
		r.nontrivial[key] = struct{}{}
	}
}

func (r *Run) fail(f Failure) {
	r.nFail++
	f.Property = r.prop
	if len(r.failures) < 50000 {
		r.failures = append(r.failures, f)
	}
}

type report struct {
	Property    string         `json:"property"`
	Tier        string         `json:"tier"`
	Seed        int64          `json:"seed"`
	Ops         int            `json:"ops"`
	Evaluations int            `json:"evaluations"`
	Distinct    int            `json:"distinct_nontrivial"`
	Histogram   map[string]int `json:"histogram"`
	Samples     []string       `json:"samples"`
	Failures    []Failure      `json:"failures"`
	NFailures   int            `json:"n_failures"`
	Notes       []string       `json:"notes"`
	Exhaustive  bool           `json:"exhaustive"`
	WallS       float64        `json:"wall_s"`
}

var props = map[string]func(r *Run){}

func main() {
	prop := flag.String("prop", "", "property id")
	tier := flag.String("tier", "quick", "quick|thorough")
	seed := flag.Int64("seed", 1, "seed")
	out := flag.String("out", "", "output directory")
	replay := flag.String("replay", "", "evaluate one protocol line on the implementation and print the answer")
	flag.Parse()

	if *replay != "" {
		fmt.Println(execOp(*replay))
		return
	}
	f, ok := props[*prop]
	if !ok {
		fmt.Fprintln(os.Stderr, "unknown property", *prop)
		os.Exit(2)
	}
	if err := os.MkdirAll(*out, 0755); err != nil {
		panic(err)
	}
	opsF, err := os.Create(filepath.Join(*out, "ops.txt"))
	if err != nil {
		panic(err)
	}
	implF, err := os.Create(filepath.Join(*out, "impl.txt"))
	if err != nil {
		panic(err)
	}
	crumbFile, _ = os.Create(filepath.Join(*out, "current.op"))
	r := &Run{prop: *prop, tier: *tier, seed: *seed, rng: newRng(uint64(*seed)),
		ops: bufio.NewWriterSize(opsF, 1<<20), impl: bufio.NewWriterSize(implF, 1<<20),
		nontrivial: map[string]struct{}{}, hist: map[string]int{}}
	t0 := time.Now()
	func() {
		// an oracle that calls the real code directly (outside a protocol op, hence outside
		// execOp's recover) and meets a Go panic: reported as a failure with the case at hand
		defer func() {
			if e := recover(); e != nil {
				var frames []string
				for _, l := range strings.Split(string(debug.Stack()), "\n") {
					if strings.Contains(l, "go-gts/gts") && !strings.Contains(l, "verif/harness") {
						frames = append(frames, strings.TrimSpace(l))
					}
					if len(frames) >= 6 {
						break
					}
				}
				r.fail(Failure{Oracle: "never a panic: the real code panicked while the harness evaluated it on the case at hand (" + fmt.Sprint(e) + ")",
					Op: lastCrumb, Got: "PANIC " + strings.Join(frames, " | "), Want: "a value or an error value"})
				r.notes = append(r.notes, "run cut short by a panic of the implementation inside an oracle")
			}
		}()
		f(r)
	}()
	r.ops.Flush()
	r.impl.Flush()
	opsF.Close()
	implF.Close()

	sort.Strings(r.notes)
	rep := report{Property: *prop, Tier: *tier, Seed: *seed, Ops: r.nOps, Evaluations: r.evals,
		Distinct: len(r.nontrivial), Histogram: r.hist, Samples: r.samples, Failures: r.failures,
		NFailures: r.nFail, Notes: r.notes, Exhaustive: r.exhaustive, WallS: time.Since(t0).Seconds()}
	p, _ := json.MarshalIndent(rep, "", " ")
	if err := os.WriteFile(filepath.Join(*out, "report.json"), p, 0644); err != nil {
		panic(err)
	}
}
