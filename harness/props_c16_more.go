package main

// C16, two more dimensions (oracle only, replayable ops `origin.big …`):
//   - SCALE: residues → block → residues, Len and the block text in BOTH states of an Origin
//     (as built by NewOrigin / as read, and after Bytes() has decoded it) for lengths around
//     65536 and 131072 and 1 MiB (seeded change W1-1: the decoded state re-formatted in pieces of
//     65536 residues, which is not a multiple of the 60-residue line);
//   - HISTORY: several records of one stream read through the SLOW path (CRLF line ends, padded
//     lines) and all collected before any of them is decoded: every record keeps its own residues
//     (seeded change W2-1: the slow path filling one package-level scratch buffer).

import (
	"bytes"
	"fmt"
	"runtime/debug"
	"strconv"
	"strings"

	"github.com/go-gts/gts"
	"github.com/go-gts/gts/seqio"
	"github.com/go-pars/pars"
)

func init() {
	extraOps["origin.big"] = func(a []sexp) string {
		if len(a) < 2 {
			return "ERR"
		}
		v, _ := strconv.Atoi(a[1].atom)
		switch a[0].atom {
		case "states":
			return c16BigStates(v)
		case "stream":
			return c16SlowStream(v)
		case "shared":
			return c16SharedBlock(v)
		case "huge":
			return c16Huge(v)
		}
		return "ERR"
	}
}

func c16BigStates(n int) string {
	return guarded(func() string {
		p := c16Gen(n, 1, n%7)
		want := c16Layout(p)
		o := seqio.NewOrigin(p)
		if o.Len() != n {
			return fmt.Sprintf("Len of the fresh Origin %d, want %d", o.Len(), n)
		}
		if s := o.String(); s != string(want) {
			return fmt.Sprintf("block of the fresh Origin differs from the layout at byte %d", firstDiff([]byte(s), want))
		}
		if q := o.Bytes(); !bytes.Equal(q, p) {
			return fmt.Sprintf("Bytes() differs from the residues at %d", firstDiff(q, p))
		}
		// the Origin is decoded now
		if o.Len() != n {
			return fmt.Sprintf("Len after decoding %d, want %d", o.Len(), n)
		}
		if s := o.String(); s != string(want) {
			return fmt.Sprintf("block written AFTER Bytes() differs from the layout at byte %d (of %d)", firstDiff([]byte(s), want), len(want))
		}
		// and through the reader: a record read, decoded, written, read again
		rec := c16Record(n, want)
		seqs, err := c16Scan(rec)
		if err != nil || len(seqs) != 1 || !bytes.Equal(seqs[0], p) {
			return "the reader does not give back the residues of the written block"
		}
		sc := seqio.NewScanner(seqio.GenBankParser, bytes.NewReader(rec))
		if !sc.Scan() {
			return "scan failed"
		}
		gb := sc.Value()
		_ = gb.Bytes() // decode
		var out strings.Builder
		if _, err := seqio.NewWriter(&out, seqio.GenBankFile).WriteSeq(gb); err != nil {
			return "write after Bytes() failed"
		}
		again, err := c16Scan([]byte(out.String()))
		if err != nil || len(again) != 1 || !bytes.Equal(again[0], p) {
			return fmt.Sprintf("a record read, decoded with Bytes(), written and read again: error=%v records=%d", err != nil, len(again))
		}
		return "ok"
	})
}

func firstDiff(a, b []byte) int {
	for i := 0; i < len(a) && i < len(b); i++ {
		if a[i] != b[i] {
			return i
		}
	}
	if len(a) < len(b) {
		return len(a)
	}
	return len(b)
}

// c16SlowStream: records of lengths that first grow and then shrink, every block with CRLF line
// ends (variant odd) or one trailing blank per line (variant even): all through the slow path
func c16SlowStream(variant int) string {
	lens := []int{133, 71, 200, 5, 61, 60, 1, 0, 120}
	var text bytes.Buffer
	var want [][]byte
	for i, n := range lens {
		p := c16Gen(n, (i+variant)%len(c16Alphabets), i)
		want = append(want, p)
		block := c16Layout(p)
		if variant%2 == 1 {
			block = bytes.ReplaceAll(block, []byte("\n"), []byte("\r\n"))
		} else {
			block = bytes.ReplaceAll(block, []byte("\n"), []byte(" \n"))
		}
		text.Write(c16Record(n, block))
	}
	return guarded(func() string {
		sc := seqio.NewScanner(seqio.GenBankParser, bytes.NewReader(text.Bytes()))
		var got []gts.Sequence
		for sc.Scan() {
			got = append(got, sc.Value()) // collected, NOT decoded yet
		}
		if sc.Err() != nil || len(got) != len(lens) {
			return fmt.Sprintf("records=%d error=%v, want %d records", len(got), sc.Err() != nil, len(lens))
		}
		for i, s := range got {
			if gts.Len(s) != lens[i] {
				return fmt.Sprintf("record %d: Len %d, want %d", i, gts.Len(s), lens[i])
			}
		}
		for i, s := range got {
			if !bytes.Equal(s.Bytes(), want[i]) {
				return fmt.Sprintf("record %d of the stream (collected before decoding): residues differ at %d", i, firstDiff(s.Bytes(), want[i]))
			}
		}
		return "ok"
	})
}

// c16SharedBlock: decoding one Origin does not write the block it was built from — another holder
// of the same block (a copy of the Origin value made before decoding; the text a record was
// scanned from) reads as before (seeded change C16-k: Bytes() decoding in place)
func c16SharedBlock(n int) string {
	return guarded(func() string {
		p := c16Gen(n, 2, n%5)
		o := seqio.NewOrigin(p)
		twin := *o // same Buffer, made before decoding
		block := append([]byte(nil), o.Buffer...)
		if q := o.Bytes(); !bytes.Equal(q, p) {
			return fmt.Sprintf("Bytes() differs from the residues at %d", firstDiff(q, p))
		}
		if !bytes.Equal(twin.Buffer, block) {
			return fmt.Sprintf("decoding an Origin rewrote the block it was built from (first change at byte %d)", firstDiff(twin.Buffer, block))
		}
		if twin.Len() != n || twin.String() != string(block) || !bytes.Equal(twin.Bytes(), p) {
			return "a copy of the Origin made before decoding no longer reads as before (Len / String / Bytes)"
		}
		// the text a record was parsed from (LF block: fast path, the Origin may alias the input)
		text := c16Record(n, c16Layout(p))
		keep := append([]byte(nil), text...)
		st := pars.FromBytes(text)
		res := pars.Result{}
		if err := seqio.GenBankParser(st, &res); err != nil {
			return "the intact record does not parse"
		}
		seq, ok := res.Value.(gts.Sequence)
		if !ok {
			return "the parser returned no sequence"
		}
		if !bytes.Equal(seq.Bytes(), p) {
			return "residues of the parsed record differ"
		}
		if !bytes.Equal(text, keep) {
			return fmt.Sprintf("decoding the parsed record rewrote the input text (first change at byte %d)", firstDiff(text, keep))
		}
		return "ok"
	})
}

// c16Huge: the writer on a sequence whose last ORIGIN line needs an index of more than nine
// digits (known finding K16A: the block is sized for a nine-column index, NewOrigin runs past its
// buffer).  About 2.3 GB and 7 s for n just above 10^9: run once per check run as the witness.
func c16Huge(n int) string {
	if n < 0 || n > 1100000000 {
		return "ERR"
	}
	out := "OK"
	func() {
		defer func() {
			if recover() != nil {
				out = "PANIC"
			}
		}()
		o := seqio.NewOrigin(make([]byte, n))
		if o.Len() != n {
			out = fmt.Sprintf("Len %d", o.Len())
		}
	}()
	debug.FreeOSMemory()
	return out
}

func c16More(r *Run) {
	for _, n := range []int{1, 11, 60, 61, 133, 600} {
		line := fmt.Sprintf("origin.big shared %d", n)
		crumb(line)
		out := c16SharedBlock(n)
		r.count("shared-block")
		r.eval(line, true)
		if out != "ok" {
			r.fail(Failure{Oracle: "decoding an Origin leaves the block it was built from (and the text it was scanned from) as it was", Op: line, Got: out})
		}
	}
	ns := []int{65535, 65536, 65537, 65580, 131072 + 1}
	if r.tier == "thorough" {
		ns = append(ns, 60*1092, 60*1093, 1<<20+17, 196608, 262144+59)
	}
	for _, n := range ns {
		line := fmt.Sprintf("origin.big states %d", n)
		crumb(line)
		out := c16BigStates(n)
		r.count("big/states")
		r.eval(line, true)
		if out != "ok" {
			r.fail(Failure{Oracle: "block, Len and residues of one Origin agree in both of its states (as built / as read, and decoded), also beyond 65536 residues", Op: line, Got: out})
		}
	}
	for v := 0; v < 4; v++ {
		line := fmt.Sprintf("origin.big stream %d", v)
		crumb(line)
		out := c16SlowStream(v)
		r.count("big/slow-path-stream")
		r.eval(line, true)
		if out != "ok" {
			r.fail(Failure{Oracle: "records of one stream read through the slow path and collected before decoding keep their own residues", Op: line, Got: out})
		}
	}
	r.notes = append(r.notes, "at scale / history (oracle only): Origin states around 65536, 131072 (1 MiB thorough); streams of 9 slow-path records collected before decoding")
}
