package main

import (
	"fmt"

	"github.com/go-gts/gts"
)

func init() {
	props["C06"] = propC06
	// the domain predicate of the Lean round-trip theorem (Gts.Loc.canonP): a fixed point of
	// Join / Order / Complement() with coordinates 0 <= x <= 2^62
	extraOps["loc.canonp"] = func(a []sexp) string {
		l := decLoc(a[0])
		return b01(isCanonical(l) && coordsOK(l))
	}
}

func coordsOK(l gts.Location) bool {
	ok := func(x int) bool { return 0 <= x && x <= 1<<62 }
	switch v := l.(type) {
	case gts.Between:
		return ok(int(v))
	case gts.Point:
		return ok(int(v))
	case gts.Ranged:
		return ok(v.Start) && ok(v.End)
	case gts.Ambiguous:
		return ok(v.Start) && ok(v.End)
	case gts.Joined:
		for _, u := range v {
			if !coordsOK(u) {
				return false
			}
		}
		return len(v) >= 2
	case gts.Ordered:
		for _, u := range v {
			if !coordsOK(u) {
				return false
			}
		}
		return len(v) >= 2
	case gts.Complemented:
		return coordsOK(v.Location)
	}
	return false
}

var locAlphabet = []byte("0123456789.^<>,()cjo ")

// c06Value: print, parse back, compare.
func c06Value(r *Run, l gts.Location) {
	ls := encLoc(l)
	r.op("loc.print " + ls)
	r.op("loc.canonp " + ls)
	s := l.String()
	line := "loc.parse " + encStr(s)
	out := r.op(line)
	r.count("value/" + kindOf(l))
	canon := isCanonical(l)
	r.eval("v|"+ls, canon)
	if !canon {
		return
	}
	back, rest, err := parseLocRest([]byte(s))
	if err != nil || len(rest) != 0 {
		r.fail(Failure{Oracle: "parse(print l) succeeds and consumes everything (canonical l)", Op: line, Got: out})
		return
	}
	if back.String() != s {
		r.fail(Failure{Oracle: "parse(print l) prints identically", Op: line, Got: back.String(), Want: s})
	}
	if !sameMeaning(den(back), den(l)) {
		r.fail(Failure{Oracle: "parse(print l) denotes the same residues", Op: line, Got: denStr(den(back)), Want: denStr(den(l)),
			Guard: "k2.join"})
	}
	lo0, hi0 := outerMarks(l)
	lo1, hi1 := outerMarks(back)
	if lo0 != lo1 || hi0 != hi1 {
		r.fail(Failure{Oracle: "parse(print l) keeps the partial markers", Op: line, Got: encLoc(back), Want: ls})
	}
}

// c06String: for every accepted string, print is a fixed point of parse-then-print.
func c06String(r *Run, s []byte) {
	line := "loc.parse " + encBytes(s)
	out := r.op(line)
	if out == "PANIC" {
		r.fail(Failure{Oracle: "parse never panics", Op: line, Got: out})
		return
	}
	l, _, err := parseLocRest(s)
	if err != nil {
		r.eval("s|"+string(s), false)
		r.count("string/rejected")
		return
	}
	r.count("string/accepted")
	r.eval("s|"+string(s), true)
	// the parse-level K3 guard, answered by both sides for every accepted text whose reading validates
	k3hit, k3joins, k3ok := c06ParseJoins(s)
	if k3ok {
		r.op("k3.parse " + encBytes(s))
		c06ParsedJoins(r, line, k3joins)
		if k3hit {
			r.count("string/k3.parse=1")
		}
	} else {
		r.count("string/k3.parse-unvalidated")
	}
	defer func() {
		if rec := recover(); rec != nil {
			r.fail(Failure{Oracle: "printing / re-parsing an accepted location never panics", Op: line, Got: fmt.Sprint(rec)})
		}
	}()
	p1 := l.String()
	l2, rest, err := parseLocRest([]byte(p1))
	r.op("loc.parse " + encStr(p1))
	if err != nil || len(rest) != 0 {
		r.fail(Failure{Oracle: "print of an accepted string re-parses", Op: line, Got: p1})
		return
	}
	if p2 := l2.String(); p2 != p1 {
		f := Failure{Oracle: "print is a fixed point of parse-then-print", Op: line, Got: p1 + " -> " + p2}
		// audit S7: the excuse is no longer the shape of the RESULT (isK3, close to the negation of the
		// test) but the evaluation-level guard on the PARSED PARTS (op k3.parse, props_c06_parsek3.go /
		// Gts/Spec/ParseK3.lean): some join( of the text meets the K3 shape while Join pushes its parts.
		// A failure on a text whose guard is false, or whose reading did not validate, is a VIOLATION.
		if k3ok && k3hit {
			f.Finding = "K3"
		}
		r.fail(f)
	}
}

// isK3: known finding K3 — `Join` is not idempotent: when a push *replaces* the last part
// (Between -> Point/Ranged, Point -> Ranged) the new last part is not re-checked against its
// predecessor, so the result can contain an adjacent pair that Join itself would reduce.
// Shape: some Joined in l has adjacent parts (w, x), x a Point or Ranged, that Push reduces.
func reducible(w, x gts.Location) bool {
	switch u := x.(type) {
	case gts.Point:
		switch v := w.(type) {
		case gts.Between:
			return int(v) == int(u)
		case gts.Point:
			return v == u
		case gts.Ranged:
			return v.End == int(u)
		}
	case gts.Ranged:
		switch v := w.(type) {
		case gts.Between:
			return int(v) == u.Start
		case gts.Point:
			return int(v) == u.Start
		case gts.Ranged:
			return v.End == u.Start
		}
	}
	return false
}

func isK3(l gts.Location) bool {
	found := false
	var walk func(gts.Location)
	walk = func(l gts.Location) {
		switch v := l.(type) {
		case gts.Joined:
			for i := 0; i+1 < len(v); i++ {
				if reducible(v[i], v[i+1]) {
					found = true
				}
			}
			for _, u := range v {
				walk(u)
			}
		case gts.Ordered:
			for _, u := range v {
				walk(u)
			}
		case gts.Complemented:
			walk(v.Location)
		}
	}
	walk(l)
	return found
}

func c06Join(r *Run, parts []gts.Location, force bool) {
	args := ""
	for _, p := range parts {
		args += " " + encLoc(p)
	}
	r.op("loc.pushall " + b01(force) + args)
	line := "loc.join" + args
	out := r.op(line)
	r.count(fmt.Sprintf("join/arity%d", minInt(len(parts), 6)))
	if out == "PANIC" {
		r.fail(Failure{Oracle: "join never panics on non-empty arguments", Op: line, Got: out})
		return
	}
	got := gts.Join(parts...)
	var want []pos
	for _, p := range parts {
		want = append(want, den(p)...)
	}
	r.eval("j|"+args, len(parts) > 1 && len(want) > 0)
	g := den(got)
	if !refines(g, want) {
		r.fail(Failure{Oracle: "join reductions keep the set and order of denoted residues", Op: line,
			Got: encLoc(got) + " den=" + denStr(g), Want: denStr(want), Guard: "k2.join" + args})
	}
	// order never reduces
	line = "loc.order" + args
	out = r.op(line)
	if out != "PANIC" {
		if !eqDen(den(gts.Order(parts...)), want) {
			r.fail(Failure{Oracle: "order keeps the denoted residues", Op: line, Got: out})
		}
	}
}

func propC06(r *Run) {
	L, _, nRandom := scope(r)
	r.exhaustive = true
	for _, l := range smallLocs(L, true) {
		c06Value(r, l)
	}
	// joins of two and three parts, exhaustively over the reduced part set
	parts := allContig(minInt(L, 4), true)
	for _, a := range parts {
		for _, b := range parts {
			c06Join(r, []gts.Location{a, b}, true)
			c06Join(r, []gts.Location{gts.Complemented{Location: a}, gts.Complemented{Location: b}}, true)
		}
	}
	small := allContig(3, false)
	for _, a := range small {
		for _, b := range small {
			for _, c := range small {
				c06Join(r, []gts.Location{a, b, c}, true)
			}
		}
	}
	// canonical locations under the edit operations (Gts.C06.*_canon*)
	for _, l := range smallLocs(L, true) {
		c06ClosureAll(r, l, L, []int{0, 2, L}, []int{-2, 0, 3})
	}
	c06ClosureScope(r)
	c06EmptySpanScope(r)
	c06InvertedScope(r)
	// all strings up to a length over the location alphabet
	maxLen := 4
	if r.tier == "thorough" {
		maxLen = 5
	}
	alpha := []byte("12.^<>,()")
	var rec func(prefix []byte)
	rec = func(prefix []byte) {
		c06String(r, prefix)
		if len(prefix) == maxLen {
			return
		}
		for _, c := range alpha {
			rec(append(append([]byte{}, prefix...), c))
		}
	}
	rec(nil)
	for _, kw := range []string{"join(", "order(", "complement(", "complement(join(", "join(complement("} {
		var rec2 func(prefix []byte, d int)
		rec2 = func(prefix []byte, d int) {
			c06String(r, append([]byte(kw), prefix...))
			if d == maxLen {
				return
			}
			for _, c := range alpha {
				rec2(append(append([]byte{}, prefix...), c), d+1)
			}
		}
		rec2(nil, 0)
	}
	r.notes = append(r.notes, fmt.Sprintf("exhaustive: values smallLocs(L=%d); joins of 2 parts over allContig(%d) and 3 parts over allContig(3); all strings of length <= %d over %q, also after join( order( complement( complement(join( join(complement(", L, minInt(L, 4), maxLen, string(alpha)))
	for t := 0; t < nRandom; t++ {
		LL := r.rangeL()
		l := genLoc(r.rng, 3, LL, 5, true)
		c06Value(r, l)
		c06Join(r, genParts(r.rng, 2, LL, 5, true), r.rng.bool())
		c06ClosureAll(r, l, LL, []int{r.rng.intn(LL + 1)}, []int{-r.rng.intn(4), r.rng.intn(4)})
		c06JoinClosure(r, genParts(r.rng, 2, LL, 5, true))
		// keyword-aware mutation of a printed location
		s := []byte(l.String())
		if len(s) > 0 {
			switch r.rng.intn(4) {
			case 0:
				s[r.rng.intn(len(s))] = locAlphabet[r.rng.intn(len(locAlphabet))]
			case 1:
				k := r.rng.intn(len(s))
				s = append(s[:k], s[k+1:]...)
			case 2:
				k := r.rng.intn(len(s) + 1)
				s = append(s[:k], append([]byte{locAlphabet[r.rng.intn(len(locAlphabet))]}, s[k:]...)...)
			case 3:
				s = s[:r.rng.intn(len(s)+1)]
			}
		}
		c06String(r, s)
		if t < 4 {
			r.sample("loc.parse " + string(s))
		}
	}
}
