package main

// C05 at the CLI step: the real binary `gts reverse` / `gts complement` against the library functions this
// check verifies on their own (gts.Reverse / gts.Complement on records).  Oracle only.  What the commands
// could get wrong that no library check sees: applying the wrong function, both, or a filter in front.

import (
	"fmt"

	"github.com/go-gts/gts"
)

func c05CliOracles(r *Run) {
	n := 40
	if r.tier == "thorough" {
		n = 300
	}
	for _, cmd := range []string{"reverse", "complement"} {
		done := 0
		for t := 0; t < 20*n && done < n; t++ {
			L := 8 + r.rng.intn(20)
			seq := cliRecord(r.rng, c19GenTable(r.rng, L), L, "acgtnryk")
			if seq == nil || len(seq.Features()) == 0 {
				continue
			}
			var want gts.Sequence
			ok := func() (ok bool) {
				defer func() {
					if recover() != nil {
						ok = false
					}
				}()
				if cmd == "reverse" {
					want = gts.Reverse(seq)
				} else {
					want = gts.Complement(seq)
				}
				return true
			}()
			if !ok {
				continue
			}
			done++
			strand := "fwd"
			for _, f := range seq.Features() {
				if gts.CheckStrand(f.Loc) == gts.StrandReverse {
					strand = "has-complement-feature"
				}
			}
			r.count("cli-" + cmd + "/" + strand)
			line := fmt.Sprintf("cli.%s | %s", cmd, encSeq(seq))
			oracle := "gts reverse writes gts.Reverse of every record (residues flipped, every location Reverse(len)d, nothing complemented)"
			if cmd == "complement" {
				oracle = "gts complement writes gts.Complement of every record (residues complemented, every location Complement()ed, nothing reversed)"
			}
			cliOneRecord(r, cmd, oracle, []string{cmd, "--no-cache"}, nil, seq, want, line)
		}
		r.notes = append(r.notes, fmt.Sprintf("gts %s on the real binary: %d records with 1..8 features of every location kind, residues over acgtnryk", cmd, done))
	}
}
