package main

import (
	"encoding/hex"
	"fmt"
	"strconv"
	"strings"

	"github.com/go-gts/gts"
)

// Canonical s-expression encoding shared with the Lean driver (Gts/Model/Sexp.lean).

func b01(b bool) string {
	if b {
		return "1"
	}
	return "0"
}

func encBytes(p []byte) string { return "x" + hex.EncodeToString(p) }
func encStr(s string) string   { return "x" + hex.EncodeToString([]byte(s)) }

func encLoc(l gts.Location) string {
	switch v := l.(type) {
	case gts.Between:
		return fmt.Sprintf("(B %d)", int(v))
	case gts.Point:
		return fmt.Sprintf("(P %d)", int(v))
	case gts.Ranged:
		return fmt.Sprintf("(R %d %d %s %s)", v.Start, v.End, b01(v.Partial.Partial5), b01(v.Partial.Partial3))
	case gts.Ambiguous:
		return fmt.Sprintf("(A %d %d)", v.Start, v.End)
	case gts.Joined:
		b := strings.Builder{}
		b.WriteString("(J")
		for _, u := range v {
			b.WriteByte(' ')
			b.WriteString(encLoc(u))
		}
		b.WriteByte(')')
		return b.String()
	case gts.Ordered:
		b := strings.Builder{}
		b.WriteString("(O")
		for _, u := range v {
			b.WriteByte(' ')
			b.WriteString(encLoc(u))
		}
		b.WriteByte(')')
		return b.String()
	case gts.Complemented:
		return "(C " + encLoc(v.Location) + ")"
	case nil:
		return "NIL"
	default:
		return fmt.Sprintf("UNKNOWN:%T", l)
	}
}

func encReg(r gts.Region) string {
	switch v := r.(type) {
	case gts.Segment:
		return fmt.Sprintf("(S %d %d)", v[0], v[1])
	case gts.Regions:
		b := strings.Builder{}
		b.WriteString("(M")
		for _, u := range v {
			b.WriteByte(' ')
			b.WriteString(encReg(u))
		}
		b.WriteByte(')')
		return b.String()
	case nil:
		return "NIL"
	default:
		return fmt.Sprintf("UNKNOWN:%T", r)
	}
}

func encMod(m gts.Modifier) string {
	switch v := m.(type) {
	case gts.Head:
		return fmt.Sprintf("(H %d)", int(v))
	case gts.Tail:
		return fmt.Sprintf("(T %d)", int(v))
	case gts.HeadTail:
		return fmt.Sprintf("(HT %d %d)", v[0], v[1])
	case gts.HeadHead:
		return fmt.Sprintf("(HH %d %d)", v[0], v[1])
	case gts.TailTail:
		return fmt.Sprintf("(TT %d %d)", v[0], v[1])
	default:
		return fmt.Sprintf("UNKNOWN:%T", m)
	}
}

func encList(xs []string) string { return "(" + strings.Join(xs, " ") + ")" }

func encProps(ps gts.Props) string {
	out := make([]string, len(ps))
	for i, p := range ps {
		in := make([]string, len(p))
		for j, s := range p {
			in[j] = encStr(s)
		}
		out[i] = encList(in)
	}
	return encList(out)
}

func encFeature(f gts.Feature) string {
	return fmt.Sprintf("(F %s %s %s)", encStr(f.Key), encLoc(f.Loc), encProps(f.Props))
}

func encSeq(s gts.Sequence) string {
	b := strings.Builder{}
	b.WriteString("(Q ")
	b.WriteString(encBytes(s.Bytes()))
	for _, f := range s.Features() {
		b.WriteByte(' ')
		b.WriteString(encFeature(f))
	}
	b.WriteByte(')')
	return b.String()
}

func encSegs(ss []gts.Segment) string {
	out := make([]string, len(ss))
	for i, s := range ss {
		out[i] = fmt.Sprintf("(S %d %d)", s[0], s[1])
	}
	return encList(out)
}

func encRegs(rr []gts.Region) string {
	out := make([]string, len(rr))
	for i, r := range rr {
		out[i] = encReg(r)
	}
	return encList(out)
}

func itoa(i int) string { return strconv.Itoa(i) }

// ---------------------------------------------------------------------------
// decoding (for --replay)

type sexp struct {
	atom string
	list []sexp
	isL  bool
}

func tokenize(s string) []string {
	var out []string
	cur := strings.Builder{}
	flush := func() {
		if cur.Len() > 0 {
			out = append(out, cur.String())
			cur.Reset()
		}
	}
	for _, c := range s {
		switch c {
		case '(', ')':
			flush()
			out = append(out, string(c))
		case ' ', '\n', '\t', '\r':
			flush()
		default:
			cur.WriteRune(c)
		}
	}
	flush()
	return out
}

func parseMany(toks []string, pos int) ([]sexp, int) {
	var acc []sexp
	for pos < len(toks) {
		switch toks[pos] {
		case ")":
			return acc, pos + 1
		case "(":
			xs, np := parseMany(toks, pos+1)
			acc = append(acc, sexp{list: xs, isL: true})
			pos = np
		default:
			acc = append(acc, sexp{atom: toks[pos]})
			pos++
		}
	}
	return acc, pos
}

func parseLine(s string) []sexp {
	xs, _ := parseMany(tokenize(s), 0)
	return xs
}

func decInt(s sexp) int {
	n, err := strconv.Atoi(s.atom)
	if err != nil {
		panic("bad int " + s.atom)
	}
	return n
}

func decBytes(s sexp) []byte {
	p, err := hex.DecodeString(strings.TrimPrefix(s.atom, "x"))
	if err != nil {
		panic(err)
	}
	return p
}

func decLoc(s sexp) gts.Location {
	if !s.isL || len(s.list) == 0 {
		panic("bad loc")
	}
	args := s.list[1:]
	switch s.list[0].atom {
	case "B":
		return gts.Between(decInt(args[0]))
	case "P":
		return gts.Point(decInt(args[0]))
	case "R":
		return gts.Ranged{Start: decInt(args[0]), End: decInt(args[1]),
			Partial: gts.Partial{Partial5: args[2].atom == "1", Partial3: args[3].atom == "1"}}
	case "A":
		return gts.Ambiguous{Start: decInt(args[0]), End: decInt(args[1])}
	case "J":
		ls := make(gts.Joined, len(args))
		for i, a := range args {
			ls[i] = decLoc(a)
		}
		return ls
	case "O":
		ls := make(gts.Ordered, len(args))
		for i, a := range args {
			ls[i] = decLoc(a)
		}
		return ls
	case "C":
		return gts.Complemented{Location: decLoc(args[0])}
	}
	panic("bad loc tag")
}

func decReg(s sexp) gts.Region {
	args := s.list[1:]
	switch s.list[0].atom {
	case "S":
		return gts.Segment{decInt(args[0]), decInt(args[1])}
	case "M":
		rr := make(gts.Regions, len(args))
		for i, a := range args {
			rr[i] = decReg(a)
		}
		return rr
	}
	panic("bad reg tag")
}

func decMod(s sexp) gts.Modifier {
	args := s.list[1:]
	switch s.list[0].atom {
	case "H":
		return gts.Head(decInt(args[0]))
	case "T":
		return gts.Tail(decInt(args[0]))
	case "HT":
		return gts.HeadTail{decInt(args[0]), decInt(args[1])}
	case "HH":
		return gts.HeadHead{decInt(args[0]), decInt(args[1])}
	case "TT":
		return gts.TailTail{decInt(args[0]), decInt(args[1])}
	}
	panic("bad mod tag")
}

func decProps(s sexp) gts.Props {
	ps := gts.Props{}
	for _, p := range s.list {
		var row []string
		for _, v := range p.list {
			row = append(row, string(decBytes(v)))
		}
		ps = append(ps, row)
	}
	return ps
}

func decFeature(s sexp) gts.Feature {
	a := s.list[1:]
	return gts.Feature{Key: string(decBytes(a[0])), Loc: decLoc(a[1]), Props: decProps(a[2])}
}

func decSeq(s sexp) gts.Sequence {
	a := s.list[1:]
	var ff gts.FeatureSlice
	for _, f := range a[1:] {
		ff = append(ff, decFeature(f))
	}
	return gts.New(nil, ff, decBytes(a[0]))
}
