package main

import (
	"fmt"
	"sort"
	"strings"

	"github.com/go-gts/gts"
)

// C09 — Minimize and Invert partition the sequence exactly.
//
// Ops sent to both sides: reg.flatten, reg.sort, reg.minimize, reg.complement, reg.invlin,
// reg.invcirc, reg.invsegs, spec.cover.  The oracles below are evaluated on the outputs of the
// real code only; their notion of "covered" (c09Covered, from the raw leaf segments) is the Go
// restatement of Gts.Reg.cover and is kept in step with it by the op spec.cover.

func init() {
	props["C09"] = propC09
	extraOps["reg.flatten"] = func(a []sexp) string { return encSegs(gts.VerifFlattenRegion(decReg(a[0]))) }
	extraOps["reg.sort"] = func(a []sexp) string {
		ss := gts.VerifFlattenRegion(decReg(a[0]))
		sort.Sort(gts.BySegment(ss))
		return encSegs(ss)
	}
	extraOps["reg.invsegs"] = func(a []sexp) string {
		return encSegs(gts.VerifInvertSegments(c09Leaves(decReg(a[0])), decInt(a[1])))
	}
	extraOps["spec.cover"] = func(a []sexp) string {
		r, lo, k := decReg(a[0]), decInt(a[1]), decInt(a[2])
		lv := c09Leaves(r)
		var out []string
		for x := lo; x < lo+k; x++ {
			if c09Covered(lv, x) {
				out = append(out, itoa(x))
			}
		}
		return "[" + strings.Join(out, " ") + "]"
	}
}

// c09Leaves: the leaf segments of a region tree as written (head, tail), left to right.
func c09Leaves(r gts.Region) []gts.Segment {
	switch v := r.(type) {
	case gts.Segment:
		return []gts.Segment{v}
	case gts.Regions:
		var out []gts.Segment
		for _, u := range v {
			out = append(out, c09Leaves(u)...)
		}
		return out
	}
	panic("unknown region type")
}

// c09Covered: x lies between the two ends of some segment, whatever its orientation.
func c09Covered(ss []gts.Segment, x int) bool {
	for _, s := range ss {
		if minInt(s[0], s[1]) <= x && x < maxInt(s[0], s[1]) {
			return true
		}
	}
	return false
}

// c09Count: in how many forward segments x lies.
func c09Count(ss []gts.Segment, x int) int {
	n := 0
	for _, s := range ss {
		if s[0] <= x && x < s[1] {
			n++
		}
	}
	return n
}

func c09Within(lv []gts.Segment, n int) bool {
	for _, s := range lv {
		if s[0] < 0 || s[0] > n || s[1] < 0 || s[1] > n {
			return false
		}
	}
	return true
}

func c09Bounds(lv []gts.Segment, n int) (lo, hi int) {
	lo, hi = minInt(0, n), maxInt(0, n)
	for _, s := range lv {
		lo = minInt(lo, minInt(s[0], s[1]))
		hi = maxInt(hi, maxInt(s[0], s[1]))
	}
	return lo - 2, hi + 2
}

func c09SegsEq(a, b []gts.Segment) bool {
	if len(a) != len(b) {
		return false
	}
	for i := range a {
		if a[i] != b[i] {
			return false
		}
	}
	return true
}

// c09Minimize: oracles on Minimize(reg) — all regions, no guard.  variant is a region with the
// same flattened segments in another order / strand / nesting (nil: use Complement()).
func c09Minimize(r *Run, reg gts.Region, variant gts.Region, stages bool) []gts.Segment {
	rs := encReg(reg)
	lv := c09Leaves(reg)
	if stages {
		r.op("reg.flatten " + rs)
		r.op("reg.sort " + rs)
	}
	line := "reg.minimize " + rs
	out := r.op(line)
	if out == "PANIC" {
		r.fail(Failure{Oracle: "minimize: no panic", Op: line, Got: out})
		return nil
	}
	ss := gts.Minimize(reg)
	lo, hi := c09Bounds(lv, 0)
	if stages {
		// the Go restatement of the spec is answered by both sides
		r.op(fmt.Sprintf("spec.cover %s %d %d", rs, lo, hi-lo))
	}
	for i, s := range ss {
		if s[0] > s[1] {
			r.fail(Failure{Oracle: "minimize: every output segment is forward", Op: line, Got: out})
		}
		if s[0] == s[1] {
			found := false
			for _, u := range lv {
				if u == s {
					found = true
				}
			}
			if !found {
				r.fail(Failure{Oracle: "minimize: a zero-length output is a zero-length input segment", Op: line, Got: out})
			}
		}
		if i+1 < len(ss) && !(s[1] < ss[i+1][0]) {
			r.fail(Failure{Oracle: "minimize: outputs strictly increasing and non-abutting (a.hi < b.lo)", Op: line, Got: out})
		}
	}
	for x := lo; x < hi; x++ {
		want := 0
		if c09Covered(lv, x) {
			want = 1
		}
		if got := c09Count(ss, x); got != want {
			r.fail(Failure{Oracle: "minimize: union of the outputs = positions covered by the input, each once", Op: line,
				Got: fmt.Sprintf("%s: position %d in %d output segments", out, x, got), Want: fmt.Sprintf("%d", want)})
			break
		}
	}
	// order / strand / nesting independence
	if variant == nil {
		r.op("reg.complement " + rs)
		variant = reg.Complement()
	}
	vline := "reg.minimize " + encReg(variant)
	vout := r.op(vline)
	if vout == "PANIC" || !c09SegsEq(gts.Minimize(variant), ss) {
		r.fail(Failure{Oracle: "minimize: independent of order, strand and nesting of the input", Op: vline, Got: vout, Want: out})
	}
	return ss
}

// c09Invert: oracles on InvertLinear / InvertCircular (guards: 0 <= n, every end in [0, n];
// circular additionally at least one segment).  Outside the guards only the correspondence runs.
func c09Invert(r *Run, reg gts.Region, n int, ss []gts.Segment) {
	rs := encReg(reg)
	lv := c09Leaves(reg)
	guard := n >= 0 && c09Within(lv, n)
	line := fmt.Sprintf("reg.invlin %s %d", rs, n)
	out := r.op(line)
	cline := fmt.Sprintf("reg.invcirc %s %d", rs, n)
	cout := r.op(cline)
	if !guard {
		r.count("invert/outside-guard(correspondence only)")
		return
	}
	if out == "PANIC" {
		r.fail(Failure{Oracle: "invertLinear: no panic", Op: line, Got: out})
		return
	}
	lin := gts.InvertLinear(reg, n)
	inv := make([]gts.Segment, 0, len(lin))
	for _, g := range lin {
		s, ok := g.(gts.Segment)
		if !ok {
			r.fail(Failure{Oracle: "invertLinear: every piece is a Segment", Op: line, Got: out})
			return
		}
		inv = append(inv, s)
	}
	for i, s := range inv {
		if !(0 <= s[0] && s[0] < s[1] && s[1] <= n) {
			r.fail(Failure{Oracle: "invertLinear: pieces are non-empty forward segments inside [0,n]", Op: line, Got: out})
		}
		if i+1 < len(inv) && !(s[1] <= inv[i+1][0]) {
			r.fail(Failure{Oracle: "invertLinear: pieces are disjoint and increasing", Op: line, Got: out})
		}
	}
	c09Partition(r, "invertLinear", line, out, ss, inv, n)

	// circular
	if len(lv) == 0 {
		r.count("invcirc/empty-collection:" + cout)
		return
	}
	if cout == "PANIC" {
		r.fail(Failure{Oracle: "invertCircular: defined on a non-empty collection", Op: cline, Got: cout})
		return
	}
	circ := gts.InvertCircular(reg, n)
	var cl []gts.Segment
	for _, g := range circ {
		cl = append(cl, c09Leaves(g)...)
	}
	c09Partition(r, "invertCircular", cline, cout, ss, cl, n)
	// the same pieces as the linear inversion
	a, b := append([]gts.Segment(nil), cl...), append([]gts.Segment(nil), inv...)
	sort.Sort(gts.BySegment(a))
	sort.Sort(gts.BySegment(b))
	if !c09SegsEq(a, b) {
		r.fail(Failure{Oracle: "invertCircular: consists of the pieces of the linear inversion", Op: cline, Got: cout, Want: out})
	}
	if len(ss) == 0 {
		r.fail(Failure{Oracle: "minimize: a non-empty collection has a non-empty minimisation", Op: cline, Got: cout})
		return
	}
	touches := ss[0][0] == 0 || ss[len(ss)-1][1] == n
	if touches {
		r.count("invcirc/touches-origin")
		if cout != out {
			r.fail(Failure{Oracle: "invertCircular: equals the linear inversion when the region touches the origin", Op: cline, Got: cout, Want: out})
		}
	} else {
		r.count("invcirc/merged-across-origin")
		want := gts.Regions{gts.Segment{ss[len(ss)-1][1], n}, gts.Segment{0, ss[0][0]}}
		ok := len(circ) == len(lin)-1 && len(circ) >= 1 && encReg(circ[0]) == encReg(want)
		if ok {
			for i := 1; i < len(circ); i++ {
				if encReg(circ[i]) != encReg(lin[i]) {
					ok = false
				}
			}
		}
		if !ok {
			r.fail(Failure{Oracle: "invertCircular: the two end pieces are merged across the origin, the rest unchanged", Op: cline, Got: cout,
				Want: encReg(want) + " then the inner pieces of " + out})
		}
	}
}

// every position of [0,n) lies in exactly one of the minimised segments / inverted pieces,
// nothing lies outside [0,n)
func c09Partition(r *Run, who, line, out string, ss, inv []gts.Segment, n int) {
	for x := -2; x < n+2; x++ {
		want := 0
		if 0 <= x && x < n {
			want = 1
		}
		if got := c09Count(ss, x) + c09Count(inv, x); got != want {
			r.fail(Failure{Oracle: who + ": with the minimised segments every position of [0,n) is covered exactly once, nothing outside", Op: line,
				Got: fmt.Sprintf("%s: position %d covered %d times (minimize = %s)", out, x, got, encSegs(ss)), Want: fmt.Sprintf("%d", want)})
			return
		}
	}
}

func c09Case(r *Run, reg gts.Region, variant gts.Region, n int, stages bool) {
	lv := c09Leaves(reg)
	r.eval(fmt.Sprintf("%s|%d", encReg(reg), n), len(lv) >= 2)
	r.count(fmt.Sprintf("leaves%d", minInt(len(lv), 9)))
	ss := c09Minimize(r, reg, variant, stages)
	if ss == nil && len(lv) > 0 {
		return
	}
	c09Invert(r, reg, n, ss)
	if stages {
		// invertSegments on the raw (unsorted, possibly backward) leaf list: correspondence only
		r.op(fmt.Sprintf("reg.invsegs %s %d", encReg(reg), n))
	}
}

// ---------------------------------------------------------------------------

func c09AllSegs(L int) []gts.Segment {
	var out []gts.Segment
	for h := 0; h <= L; h++ {
		for t := 0; t <= L; t++ {
			out = append(out, gts.Segment{h, t})
		}
	}
	return out
}

// c09GenSeg draws one segment in [lo, hi], biased to the alignments that matter: starting where
// the previous one ended (abutting), inside it (nested), equal to it, at 0 and at n, zero-length.
func c09GenSeg(g *rng, lo, hi int, prev gts.Segment, hasPrev bool) gts.Segment {
	var a, b int
	pl, ph := minInt(prev[0], prev[1]), maxInt(prev[0], prev[1])
	if hasPrev && (pl < lo || ph > hi || (pl == ph && g.intn(4) != 0)) {
		hasPrev = false // do not breed chains of zero-length segments
	}
	switch k := g.intn(12); {
	case hasPrev && k == 0: // abutting after
		a = ph
		b = g.rangeInt(a, hi)
	case hasPrev && k == 1: // abutting before
		b = pl
		a = g.rangeInt(lo, b)
	case hasPrev && k == 2: // nested inside
		a = g.rangeInt(pl, ph)
		b = g.rangeInt(a, ph)
	case hasPrev && k == 3: // duplicate
		a, b = pl, ph
	case hasPrev && k == 4: // overlapping the upper end
		a = g.rangeInt(pl, ph)
		b = g.rangeInt(ph, hi)
	case k == 5: // touching the lower bound
		a = lo
		b = g.rangeInt(lo, hi)
	case k == 6: // touching the upper bound
		b = hi
		a = g.rangeInt(lo, hi)
	case k == 7: // zero-length
		a = g.rangeInt(lo, hi)
		b = a
	default:
		a = g.rangeInt(lo, maxInt(lo, hi-1))
		b = g.rangeInt(minInt(hi, a+1), minInt(hi, a+g.rangeInt(1, 8)))
	}
	if g.intn(3) == 0 {
		a, b = b, a
	}
	return gts.Segment{a, b}
}

// c09GenCollection: 1..6 regions of 1..4 segments each inside [lo, hi].
func c09GenCollection(g *rng, lo, hi int) gts.Regions {
	nr := g.rangeInt(1, 6)
	if hi-lo >= 3 && g.bool() {
		// a window strictly inside: the collection touches neither end (origin-crossing inversion)
		lo = g.rangeInt(lo+1, hi-2)
		hi = g.rangeInt(lo+1, hi-1)
	}
	out := make(gts.Regions, 0, nr)
	var prev gts.Segment
	hasPrev := false
	for i := 0; i < nr; i++ {
		ns := g.rangeInt(1, 4)
		part := make(gts.Regions, 0, ns)
		for j := 0; j < ns; j++ {
			s := c09GenSeg(g, lo, hi, prev, hasPrev)
			prev, hasPrev = s, true
			part = append(part, s)
		}
		switch {
		case ns == 1 && g.bool():
			out = append(out, part[0])
		case ns >= 3 && g.intn(4) == 0: // one level deeper
			out = append(out, gts.Regions{part[0], part[1:]})
		default:
			out = append(out, part)
		}
	}
	return out
}

// c09Variant: the same leaf segments shuffled, randomly flipped and regrouped.
func c09Variant(g *rng, reg gts.Region) gts.Region {
	lv := append([]gts.Segment(nil), c09Leaves(reg)...)
	for i := len(lv) - 1; i > 0; i-- {
		j := g.intn(i + 1)
		lv[i], lv[j] = lv[j], lv[i]
	}
	out := gts.Regions{}
	for i := 0; i < len(lv); {
		k := minInt(len(lv)-i, g.rangeInt(1, 3))
		grp := gts.Regions{}
		for _, s := range lv[i : i+k] {
			if g.bool() {
				s = gts.Segment{s[1], s[0]}
			}
			grp = append(grp, s)
		}
		if k == 1 && g.bool() {
			out = append(out, grp[0])
		} else {
			out = append(out, grp)
		}
		i += k
	}
	return out
}

func propC09(r *Run) {
	Lmax, nRandom := 5, 12000
	if r.tier == "thorough" {
		Lmax, nRandom = 7, 150000
	}
	r.exhaustive = true
	// the empty collection and its nestings (outside the quantifier: InvertCircular panics)
	for _, e := range []gts.Region{gts.Regions{}, gts.Regions{gts.Regions{}}, gts.Regions{gts.Regions{}, gts.Regions{}}} {
		for _, n := range []int{0, 3} {
			c09Case(r, e, nil, n, true)
		}
	}
	// the recorded guard witnesses (outside the guards: correspondence + minimize oracles only) and
	// the non-vacuity example of Gts/Props/C09.lean
	for _, w := range []struct {
		reg gts.Region
		n   int
	}{
		{gts.Segment{2, 8}, 5}, {gts.Segment{-2, 3}, 5}, {gts.Regions{}, -1}, {gts.Segment{3, 3}, 5},
		{gts.Regions{gts.Segment{7, 4}, gts.Regions{gts.Segment{1, 3}, gts.Segment{3, 3}, gts.Segment{2, 5}}, gts.Segment{9, 9}}, 10},
	} {
		c09Case(r, w.reg, nil, w.n, true)
	}
	for L := 0; L <= Lmax; L++ {
		segs := c09AllSegs(L)
		ns := []int{L}
		if L >= 1 {
			ns = append(ns, L-1) // not touching n / beyond n (guard decides per case)
		}
		for _, a := range segs {
			for _, n := range ns {
				c09Case(r, a, nil, n, true)
				c09Case(r, gts.Regions{a}, nil, n, false)
			}
			for _, b := range segs {
				for _, n := range ns {
					c09Case(r, gts.Regions{a, b}, nil, n, true)
				}
				c09Case(r, gts.Regions{gts.Regions{a}, b}, nil, L, false)
				for _, c := range segs {
					c09Case(r, gts.Regions{a, b, c}, nil, L, true)
					c09Case(r, gts.Regions{gts.Regions{a, b}, c}, nil, L, false)
					c09Case(r, gts.Regions{a, gts.Regions{b, c}}, nil, L, false)
				}
			}
		}
	}
	r.notes = append(r.notes, fmt.Sprintf("exhaustive: for every L in 0..%d, every collection of 1, 2 or 3 segments (h,t) in [0,L]x[0,L] (both orientations, zero-length included) in every nesting shape (a | [a] | [a b] | [[a] b] | [a b c] | [[a b] c] | [a [b c]]), n = L (1-2 segments also n = L-1), plus the empty collections; variant for the independence oracle = Region.Complement()", Lmax))
	r.notes = append(r.notes, "random: 1..6 regions of 1..4 segments, n <= 30, biased to abutting / nested / duplicate / overlapping / end-touching / zero-length segments and mixed orientation, half of the collections strictly inside (0,n); 1 in 8 cases leaves [0,n] (negative or > n coordinates: minimize oracles + correspondence only); variant = shuffled, re-flipped, regrouped leaves")
	for t := 0; t < nRandom; t++ {
		n := r.rng.rangeInt(1, 30)
		lo, hi := 0, n
		if r.rng.intn(8) == 0 {
			lo, hi = -r.rng.rangeInt(0, 3), n+r.rng.rangeInt(0, 3)
			if r.rng.intn(4) == 0 {
				n = r.rng.rangeInt(-2, n)
			}
		}
		reg := c09GenCollection(r.rng, lo, hi)
		var in gts.Region = reg
		if len(reg) == 1 && r.rng.bool() {
			in = reg[0]
		}
		c09Case(r, in, c09Variant(r.rng, in), n, t%4 == 0)
		if t < 6 {
			r.sample(fmt.Sprintf("reg.invcirc %s %d", encReg(in), n))
		}
	}
}
