package main

import (
	"fmt"
	"strings"

	"github.com/go-gts/gts"
)

// execOp evaluates one protocol line on the real implementation.  Every op
// runs under recover(): a Go panic becomes the token PANIC.
func execOp(line string) (out string) {
	defer func() {
		if r := recover(); r != nil {
			out = "PANIC"
		}
	}()
	xs := parseLine(line)
	if len(xs) == 0 || xs[0].isL {
		return "BAD-OP"
	}
	op, a := xs[0].atom, xs[1:]
	switch op {
	case "loc.shift":
		return encLoc(decLoc(a[0]).Shift(decInt(a[1]), decInt(a[2])))
	case "loc.expand":
		return encLoc(decLoc(a[0]).Expand(decInt(a[1]), decInt(a[2])))
	case "loc.reverse":
		return encLoc(decLoc(a[0]).Reverse(decInt(a[1])))
	case "loc.normalize":
		return encLoc(decLoc(a[0]).Normalize(decInt(a[1])))
	case "loc.join":
		ls := make([]gts.Location, len(a))
		for i := range a {
			ls[i] = decLoc(a[i])
		}
		return encLoc(gts.Join(ls...))
	case "loc.order":
		ls := make([]gts.Location, len(a))
		for i := range a {
			ls[i] = decLoc(a[i])
		}
		return encLoc(gts.Order(ls...))
	case "loc.pushall":
		list := gts.LocationList{}
		for _, x := range a[1:] {
			list.Push(decLoc(x), a[0].atom == "1")
		}
		if list.Len() == 0 {
			return "()"
		}
		sl := list.Slice()
		out := make([]string, len(sl))
		for i, l := range sl {
			out[i] = encLoc(l)
		}
		return encList(out)
	case "loc.less":
		return b01(gts.LocationLess(decLoc(a[0]), decLoc(a[1])))
	case "loc.within":
		return b01(gts.LocationWithin(decLoc(a[0]), decInt(a[1]), decInt(a[2])))
	case "loc.overlap":
		return b01(gts.LocationOverlap(decLoc(a[0]), decInt(a[1]), decInt(a[2])))
	case "loc.region":
		return encReg(decLoc(a[0]).Region())
	case "loc.len":
		return itoa(decLoc(a[0]).Len())
	case "loc.strand":
		return itoa(int(gts.CheckStrand(decLoc(a[0]))))
	case "loc.complement":
		return encLoc(decLoc(a[0]).Complement())
	case "loc.ascomplete":
		return encLoc(gts.VerifAsComplete(decLoc(a[0])))
	case "loc.print":
		return encStr(decLoc(a[0]).String())
	case "loc.parse":
		return implParseLoc(decBytes(a[0]))
	case "reg.resize":
		return encReg(decReg(a[0]).Resize(decMod(a[1])))
	case "reg.complement":
		return encReg(decReg(a[0]).Complement())
	case "reg.len":
		return itoa(decReg(a[0]).Len())
	case "reg.head":
		return itoa(decReg(a[0]).Head())
	case "reg.tail":
		return itoa(decReg(a[0]).Tail())
	case "reg.minimize":
		return encSegs(gts.Minimize(decReg(a[0])))
	case "reg.invlin":
		return encRegs(gts.InvertLinear(decReg(a[0]), decInt(a[1])))
	case "reg.invcirc":
		return encRegs(gts.InvertCircular(decReg(a[0]), decInt(a[1])))
	case "mod.apply":
		h, t := decMod(a[0]).Apply(decInt(a[1]), decInt(a[2]))
		return fmt.Sprintf("%d %d", h, t)
	case "tab.insertall":
		var ff gts.FeatureSlice
		for _, x := range a {
			ff = ff.Insert(decFeature(x))
		}
		out := make([]string, len(ff))
		for i, f := range ff {
			out[i] = encFeature(f)
		}
		return encList(out)
	case "seq.insert":
		return encSeq(gts.Insert(decSeq(a[0]), decInt(a[1]), decSeq(a[2])))
	case "seq.embed":
		return encSeq(gts.Embed(decSeq(a[0]), decInt(a[1]), decSeq(a[2])))
	case "seq.delete":
		return encSeq(gts.Delete(decSeq(a[0]), decInt(a[1]), decInt(a[2])))
	case "seq.erase":
		return encSeq(gts.Erase(decSeq(a[0]), decInt(a[1]), decInt(a[2])))
	case "seq.slice":
		return encSeq(gts.Slice(decSeq(a[0]), decInt(a[1]), decInt(a[2])))
	case "seq.rotate":
		return encSeq(gts.Rotate(decSeq(a[0]), decInt(a[1])))
	case "seq.reverse":
		return encSeq(gts.Reverse(decSeq(a[0])))
	case "seq.complement":
		return encSeq(gts.Complement(decSeq(a[0])))
	case "seq.revcomp":
		return encSeq(gts.Reverse(gts.Complement(decSeq(a[0]))))
	case "seq.concat":
		ss := make([]gts.Sequence, len(a))
		for i := range a {
			ss[i] = decSeq(a[i])
		}
		return encSeq(gts.Concat(ss...))
	}
	if f, ok := extraOps[op]; ok {
		return f(a)
	}
	return "BAD-OP"
}

// extraOps is filled by the per-property files.
var extraOps = map[string]func(a []sexp) string{}

// implParseLoc runs ParseLocation on a fresh state and reports the location
// plus the unconsumed rest of the input.
func implParseLoc(p []byte) string {
	loc, rest, err := parseLocRest(p)
	if err != nil {
		return "ERR"
	}
	return encLoc(loc) + " " + encBytes(rest)
}

func joinLines(xs []string) string { return strings.Join(xs, "\n") }
