package main

// C15, several records per input: every (host, guest) pair is edited on its own.  `gts insert`
// reads the hosts on stdin and the guests from a file, `gts infix` the other way round; for
// files of several records the output must be, record for record, what the single-record runs
// give (seeded change C02-h: the working copy of the host hoisted out of the guest loop, so the
// second output still holds the first guest).  The same for delete / rotate / split / extract on
// a stream of two records.  Oracle only (metamorphic: no expected value is computed by hand).

import (
	"bytes"
	"fmt"
	"strings"

	"github.com/go-gts/gts"
)

func c15MultiRecords(r *Run, pool []gts.Sequence) {
	if len(pool) < 4 {
		return
	}
	n := 12
	if r.tier == "thorough" {
		n = 80
	}
	run := func(args []string, stdin []byte, files map[string][]byte) (string, bool) {
		o := c15Run(append([]string{args[0], "--no-cache"}, args[1:]...), stdin, files)
		if o.status != 0 {
			return fmt.Sprintf("status %d", o.status), false
		}
		return string(o.stdout), true
	}
	cat := func(ss ...gts.Sequence) []byte {
		var b bytes.Buffer
		for _, s := range ss {
			b.Write(c15File(s, false))
		}
		return b.Bytes()
	}
	// crafted: circular records whose located regions all share ONE cut position (gene and CDS starting
	// at the same base), in front of further records (seeded change W26-2)
	{
		res := []byte("acgtacgtacgtacgtacgtacgtacgtacgtacgtacgt")
		mk := func(a, b int) gts.Sequence {
			ff := gts.FeatureSlice{}
			ff = ff.Insert(gts.Feature{Key: "gene", Loc: gts.Range(a, b), Props: gts.Props{{"gene", "x"}}})
			ff = ff.Insert(gts.Feature{Key: "CDS", Loc: gts.Range(a, b-3), Props: gts.Props{{"gene", "x"}}})
			return c15Faithful(gts.New(nil, ff, res), true)
		}
		s1, s2 := mk(4, 20), mk(10, 30)
		if s1 != nil && s2 != nil {
			catc := func(ss ...gts.Sequence) []byte {
				var bb bytes.Buffer
				for _, x := range ss {
					bb.Write(c15File(x, true))
				}
				return bb.Bytes()
			}
			for _, cs := range [][]string{{"split", "/gene=x"}, {"split", "gene"}, {"rotate", "/gene=x"}, {"extract", "/gene=x"}, {"delete", "/gene=x"}} {
				line := fmt.Sprintf("cli.%s.stream-circular-shared-head %s %s", strings.Join(cs, "."), encSeq(s1), encSeq(s2))
				crumb(line)
				all, ok := run(cs, catc(s1, s2, s1), nil)
				a, oka := run(cs, catc(s1), nil)
				b, okb := run(cs, catc(s2), nil)
				r.count("multi/stream-circular-shared-head/" + cs[0])
				r.eval(line, true)
				if ok && oka && okb && all != a+b+a {
					r.fail(Failure{Oracle: "gts " + strings.Join(cs, " ") + " on a stream of circular records whose located regions share one head writes what it writes for each record alone", Op: line,
						Got: fmt.Sprintf("%d bytes", len(all)), Want: fmt.Sprintf("%d bytes", len(a+b+a))})
				}
			}
		}
	}
	for t := 0; t < n; t++ {
		h1, h2 := pool[r.rng.intn(len(pool))], pool[r.rng.intn(len(pool))]
		g1, g2 := c15Faithful(c15Guest(r.rng), false), c15Faithful(c15Guest(r.rng), false)
		if g1 == nil || g2 == nil || gts.Len(h1) == 0 || gts.Len(h2) == 0 {
			continue
		}
		loc := "^"
		if r.rng.intn(2) == 0 {
			loc = "$"
		}
		if r.rng.intn(3) == 0 {
			loc = "1"
		}
		embed := []string{}
		if r.rng.intn(2) == 0 {
			embed = []string{"-e"}
		}
		for _, name := range []string{"insert", "infix"} {
			// hosts h1 h2, guests g1 g2
			var multi string
			var ok bool
			var singles []string
			okS := true
			mk := func(hosts, guests []gts.Sequence) (string, bool) {
				args := append(append([]string{name}, embed...), loc)
				if name == "insert" {
					return run(append(args, "@FILE:guest.gb"), cat(hosts...), map[string][]byte{"guest.gb": cat(guests...)})
				}
				return run(append(args, "@FILE:host.gb"), cat(guests...), map[string][]byte{"host.gb": cat(hosts...)})
			}
			line := fmt.Sprintf("cli.%s.multi %s %v (%s %s) (%s %s)", name, loc, len(embed) > 0, encSeq(h1), encSeq(h2), encSeq(g1), encSeq(g2))
			crumb(line)
			multi, ok = mk([]gts.Sequence{h1, h2}, []gts.Sequence{g1, g2})
			// the order in which the pairs are written: insert — for each host, for each guest;
			// infix — for each guest (stdin), for each host (file)
			var pairs [][2]gts.Sequence
			if name == "insert" {
				pairs = [][2]gts.Sequence{{h1, g1}, {h1, g2}, {h2, g1}, {h2, g2}}
			} else {
				pairs = [][2]gts.Sequence{{h1, g1}, {h2, g1}, {h1, g2}, {h2, g2}}
			}
			for _, p := range pairs {
				s, k := mk([]gts.Sequence{p[0]}, []gts.Sequence{p[1]})
				okS = okS && k
				singles = append(singles, s)
			}
			r.count("multi/" + name)
			r.eval(line, true)
			if !ok || !okS {
				r.count("multi/" + name + "/run-failed")
				continue
			}
			want := strings.Join(singles, "")
			if multi != want {
				// the pairing order is a convention of the command, not of the property: accept any
				// order of the four single-pair outputs
				rest := multi
				all := true
				for _, s := range singles {
					if i := strings.Index(rest, s); i >= 0 && s != "" {
						rest = rest[:i] + rest[i+len(s):]
					} else {
						all = false
					}
				}
				if !all || strings.TrimSpace(rest) != "" {
					r.fail(Failure{Oracle: "gts " + name + " on files of two hosts and two guests writes, pair by pair, what the single-record runs write", Op: line,
						Got: fmt.Sprintf("%d bytes", len(multi)), Want: fmt.Sprintf("%d bytes (the four single-pair outputs)", len(want))})
				}
			}
		}
		// a stream of two records through the one-input commands
		// explicit locators with a NON-idempotent modifier among them (seeded change C15-i: the region
		// of an explicit locator computed once and resized in place for every further record)
		for _, cs := range [][]string{{"delete", "1..2"}, {"rotate", "2"}, {"split", "2"}, {"extract", "1..3"}, {"extract", "-v", "1..3"},
			{"delete", "1..3@^+1..$-1"}, {"extract", "1..3@^+1..$-1"}, {"extract", "complement(1..3)@^+1"}, {"split", "1..3@^+1"}, {"rotate", "2@^+1"},
			{"insert", "1..3@^+1", "@acgt"}} {
			if gts.Len(h1) < 3 || gts.Len(h2) < 3 {
				continue
			}
			line := fmt.Sprintf("cli.%s.stream %s %s", strings.Join(cs, "."), encSeq(h1), encSeq(h2))
			crumb(line)
			both, ok := run(cs, cat(h1, h2), nil)
			a, oka := run(cs, cat(h1), nil)
			b, okb := run(cs, cat(h2), nil)
			r.count("multi/stream/" + cs[0])
			// the same stream with CIRCULAR records (split / rotate / extract take other branches there:
			// seeded change W26-2, a `break` that left the scan loop behind a circular record whose
			// regions share one cut position, dropping every later record)
			if cs[0] == "split" || cs[0] == "rotate" || cs[0] == "extract" {
				catc := func(ss ...gts.Sequence) []byte {
					var bb bytes.Buffer
					for _, x := range ss {
						bb.Write(c15File(x, true))
					}
					return bb.Bytes()
				}
				cboth, cok := run(cs, catc(h1, h2, h1), nil)
				ca, coka := run(cs, catc(h1), nil)
				cb, cokb := run(cs, catc(h2), nil)
				r.count("multi/stream-circular/" + cs[0])
				if cok && coka && cokb && cboth != ca+cb+ca {
					r.fail(Failure{Oracle: "gts " + strings.Join(cs, " ") + " on a stream of three CIRCULAR records writes what it writes for each record alone", Op: line + " circular",
						Got: fmt.Sprintf("%d bytes", len(cboth)), Want: fmt.Sprintf("%d bytes", len(ca+cb+ca))})
				}
			}
			r.eval(line, true)
			if !ok || !oka || !okb {
				continue
			}
			if both != a+b {
				r.fail(Failure{Oracle: "gts " + strings.Join(cs, " ") + " on a stream of two records writes what it writes for each record alone", Op: line,
					Got: fmt.Sprintf("%d bytes", len(both)), Want: fmt.Sprintf("%d bytes", len(a+b))})
			}
		}
	}
}
