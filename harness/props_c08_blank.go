package main

// C08, "a locator X@M denotes exactly the regions of X each resized by M" when the text of X
// begins or ends in a blank that is significant for a selector's regexp (seeded change W24-2:
// AsLocator trimming both halves around '@').  Oracle only.

import (
	"fmt"

	"github.com/go-gts/gts"
)

func c08BlankLocators(r *Run) {
	ff := gts.FeatureSlice{}
	for i, p := range []string{"DNA polymerase", "DNA ligase", "DNAse", "cDNA", " lead", "tail "} {
		ff = ff.Insert(gts.Feature{Key: "CDS", Loc: gts.Range(5+10*i, 12+10*i), Props: gts.Props{{"product", p}}})
	}
	res := make([]byte, 80)
	for i := range res {
		res[i] = "acgt"[i%4]
	}
	seq := gts.New(nil, ff, res)
	for _, x := range []string{"CDS/product=DNA ", "CDS/product= lead", "CDS/product=tail ", "CDS/product=DNA", " CDS", "CDS "} {
		for _, m := range []string{"^..$", "^-2..$+2", "^", "$", "^+1..$-1"} {
			line := fmt.Sprintf("locator.blank %s %s", encStr(x), encStr(m))
			r.count("locator/blank-around-at")
			r.eval(line, true)
			lx, errx := gts.AsLocator(x)
			lxm, errm := gts.AsLocator(x + "@" + m)
			mod, errmod := gts.AsModifier(m)
			if errx != nil || errm != nil || errmod != nil {
				r.count("locator/blank-around-at/not-a-locator")
				continue
			}
			var want []string
			for _, reg := range lx(seq) {
				want = append(want, encReg(reg.Resize(mod)))
			}
			var got []string
			for _, reg := range lxm(seq) {
				got = append(got, encReg(reg))
			}
			if fmt.Sprint(got) != fmt.Sprint(want) {
				r.fail(Failure{Oracle: "X@M denotes the regions of X each resized by M, also when the text of X begins or ends in a blank", Op: line,
					Got: fmt.Sprint(got), Want: fmt.Sprint(want)})
			}
		}
	}
}
