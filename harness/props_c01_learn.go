package main

// C01, learning pipeline: a process that scans a stream record by record and writes every record
// as soon as it is read (what every gts command does) must reproduce a written stream byte for
// byte even when a record teaches the qualifier registries a new name — in particular a name
// that sorts directly in front of a name the registries already hold (seeded change C01-g: a
// slice-insert that drops the right neighbour of the learned name).  Lean side:
// Gts.C01.write_pipeline_same / read_stream_learning.

import (
	"fmt"
	"sort"
	"strings"

	"github.com/go-gts/gts"
	"github.com/go-gts/gts/seqio"
)

func c01LearnPipeline(r *Run) {
	type known struct {
		name string
		kind int // 0 quoted, 1 literal, 2 toggle
	}
	var all []known
	for _, n := range defaultRegistry.q {
		all = append(all, known{n, 0})
	}
	for _, n := range defaultRegistry.l {
		all = append(all, known{n, 1})
	}
	for _, n := range defaultRegistry.t {
		all = append(all, known{n, 2})
	}
	isKnown := map[string]bool{}
	for _, k := range all {
		isKnown[k.name] = true
	}
	sort.Slice(all, func(i, j int) bool { return all[i].name < all[j].name })
	value := func(kind int) []string {
		switch kind {
		case 0:
			return []string{"v w"}
		case 1:
			return []string{"7"}
		}
		return []string{""}
	}
	mk2 := func(first, second string, kind int, def string) seqio.GenBank {
		ff := gts.FeatureSlice{{Key: "gene", Loc: gts.Range(0, 3), Props: gts.Props{append([]string{first}, value(kind)...), append([]string{second}, value(kind)...)}}}
		return seqio.GenBank{Fields: seqio.GenBankFields{LocusName: "L1", Molecule: gts.DNA, Topology: gts.Linear,
			Division: "UNA", Date: seqio.Date{Year: 2000, Month: 1, Day: 1}, Definition: def}, Table: ff, Origin: seqio.NewOrigin([]byte("acgtac"))}
	}
	mk := func(name string, kind int, def string) seqio.GenBank {
		ff := gts.FeatureSlice{{Key: "gene", Loc: gts.Range(0, 3), Props: gts.Props{append([]string{name}, value(kind)...)}}}
		gb := seqio.GenBank{Fields: seqio.GenBankFields{LocusName: "L1", Molecule: gts.DNA, Topology: gts.Linear,
			Division: "UNA", Date: seqio.Date{Year: 2000, Month: 1, Day: 1}, Definition: def}, Table: ff, Origin: seqio.NewOrigin([]byte("acgtac"))}
		return gb
	}
	n := 0
	for _, k := range all {
		// candidate new names that sort directly in front of k.name (or close to it)
		for _, u := range []string{k.name[:len(k.name)-1], k.name[:len(k.name)-1] + "_"} {
			if len(u) == 0 || isKnown[u] || u >= k.name || !isSnakeName(u) {
				continue
			}
			// the learned name has the same kind as its neighbour (that list is the one it goes into)
			extra := registry{}
			switch k.kind {
			case 0:
				extra.q = []string{u}
			case 1:
				extra.l = []string{u}
			case 2:
				extra.t = []string{u}
			}
			var text string
			ok := true
			withRegistry(extra, func() {
				a, p1 := safeString(mk(u, k.kind, "first"))
				b, p2 := safeString(mk(k.name, k.kind, "second"))
				c, p3 := safeString(mk(u, k.kind, "third"))
				// the known name is read BEFORE the record teaches the new one, and written after
				d, p4 := safeString(mk2(k.name, u, k.kind, "known name first, then the new one"))
				text, ok = d+a+b+c, !(p1 || p2 || p3 || p4)
			})
			if !ok {
				r.count("learn-pipeline/not-writable")
				continue
			}
			n++
			r.count(fmt.Sprintf("learn-pipeline/kind%d", k.kind))
			crumb("gb.pipeline " + encBytes([]byte(text)))
			// the pipeline, from the initial registries
			var out strings.Builder
			recs := 0
			func() {
				setRegistry(registry{})
				defer setRegistry(registry{})
				defer func() { recover() }()
				sc := seqio.NewAutoScanner(strings.NewReader(text))
				w := seqio.NewWriter(&out, seqio.GenBankFile)
				for sc.Scan() {
					recs++
					if _, err := w.WriteSeq(sc.Value()); err != nil {
						break
					}
				}
			}()
			r.eval("learn|"+u+"|"+k.name, true)
			if out.String() != text {
				r.fail(Failure{Oracle: "scan → write record by record reproduces a written stream in which a record teaches the registry a name that sorts next to a known one (" + u + " / " + k.name + ")",
					Op: "gb.pipeline " + encBytes([]byte(text)), Got: fmt.Sprintf("%d records, %s", recs, encBytes([]byte(out.String()))), Want: "the same text"})
			}
		}
	}
	r.notes = append(r.notes, fmt.Sprintf("learning pipeline: %d streams (new name next to each known quoted / literal / toggle name)", n))
}

func isSnakeName(s string) bool {
	for _, c := range s {
		if !(c == '_' || c >= 'a' && c <= 'z' || c >= 'A' && c <= 'Z' || c >= '0' && c <= '9') {
			return false
		}
	}
	return s != ""
}
