package main

import (
	"github.com/go-gts/gts"
)

// rng: splitmix64; every random choice of a run derives from VERIF_SEED.
type rng struct{ s uint64 }

// The starting state is the splitmix64 finaliser of the seed: with the former `seed*G + c` (G the
// increment of next) seed k was seed 1 shifted by k-1 draws, so all seeds walked ONE orbit a few draws
// apart and their streams coalesced at the first generator with a variable number of draws (noticed
// on C01: seeds 1 and 7 differed in 112 of 37281 lines).
func newRng(seed uint64) *rng {
	z := seed + 0x9E3779B97F4A7C15
	z = (z ^ (z >> 30)) * 0xBF58476D1CE4E5B9
	z = (z ^ (z >> 27)) * 0x94D049BB133111EB
	return &rng{z ^ (z >> 31)}
}

func (r *rng) next() uint64 {
	r.s += 0x9E3779B97F4A7C15
	z := r.s
	z = (z ^ (z >> 30)) * 0xBF58476D1CE4E5B9
	z = (z ^ (z >> 27)) * 0x94D049BB133111EB
	return z ^ (z >> 31)
}

func (r *rng) intn(n int) int {
	if n <= 0 {
		return 0
	}
	return int(r.next() % uint64(n))
}

// between lo and hi inclusive
func (r *rng) rangeInt(lo, hi int) int { return lo + r.intn(hi-lo+1) }
func (r *rng) bool() bool              { return r.next()&1 == 1 }
func (r *rng) pick(xs []string) string { return xs[r.intn(len(xs))] }

// ---------------------------------------------------------------------------
// locations

var partials = []gts.Partial{gts.Complete, gts.Partial5, gts.Partial3, gts.PartialBoth}

// allContig enumerates every well-formed contiguous location inside [0, L].
func allContig(L int, withAmbiguous bool) []gts.Location {
	var out []gts.Location
	for p := 0; p <= L; p++ {
		out = append(out, gts.Between(p))
	}
	for p := 0; p < L; p++ {
		out = append(out, gts.Point(p))
	}
	for s := 0; s < L; s++ {
		for e := s + 1; e <= L; e++ {
			for _, pt := range partials {
				out = append(out, gts.Ranged{Start: s, End: e, Partial: pt})
			}
			if withAmbiguous {
				out = append(out, gts.Ambiguous{Start: s, End: e})
			}
		}
	}
	return out
}

// genContig draws one well-formed contiguous location inside [0, L] (L >= 1).
func genContig(r *rng, L int, withAmbiguous bool) gts.Location {
	k := r.intn(10)
	switch {
	case k == 0:
		return gts.Between(r.intn(L + 1))
	case k <= 2:
		return gts.Point(r.intn(L))
	case k == 3 && withAmbiguous:
		s := r.intn(L)
		e := r.rangeInt(s+1, L)
		return gts.Ambiguous{Start: s, End: e}
	default:
		s := r.intn(L)
		e := r.rangeInt(s+1, L)
		return gts.Ranged{Start: s, End: e, Partial: partials[r.intn(4)]}
	}
}

// genParts draws 1..maxParts parts; biased towards increasing, abutting and
// duplicate neighbours (the alignments on which reductions fire).
func genParts(r *rng, depth, L, maxParts int, amb bool) []gts.Location {
	n := r.rangeInt(1, maxParts)
	parts := make([]gts.Location, 0, n)
	cursor := r.intn(L)
	for j := 0; j < n; j++ {
		var p gts.Location
		switch r.intn(8) {
		case 0:
			if depth > 0 {
				p = genLoc(r, depth-1, L, maxParts, amb)
				break
			}
			fallthrough
		case 1, 2, 3:
			// start at the cursor (abutting the previous part) or shortly after it
			s := cursor + r.intn(2)*r.intn(3)
			if s >= L {
				s = r.intn(L)
			}
			switch r.intn(5) {
			case 0:
				p = gts.Point(s)
				cursor = s + 1
			case 1:
				p = gts.Between(s)
				cursor = s
			default:
				e := r.rangeInt(s+1, minInt(L, s+1+r.intn(4)))
				p = gts.Ranged{Start: s, End: e, Partial: partials[r.intn(4)]}
				cursor = e
			}
		case 4:
			if len(parts) > 0 {
				p = parts[r.intn(len(parts))] // duplicate
				break
			}
			fallthrough
		default:
			p = genContig(r, L, amb)
		}
		parts = append(parts, p)
	}
	return parts
}

// genLoc draws a well-formed location of nesting depth <= depth inside [0, L].
func genLoc(r *rng, depth, L, maxParts int, amb bool) gts.Location {
	if depth == 0 {
		return genContig(r, L, amb)
	}
	switch r.intn(7) {
	case 0, 1:
		return genContig(r, L, amb)
	case 2, 3:
		return gts.Joined(genParts(r, depth-1, L, maxParts, amb))
	case 4:
		return gts.Ordered(genParts(r, depth-1, L, maxParts, amb))
	default:
		return gts.Complemented{Location: genLoc(r, depth-1, L, maxParts, amb)}
	}
}

func minInt(a, b int) int {
	if a < b {
		return a
	}
	return b
}
func maxInt(a, b int) int {
	if a < b {
		return b
	}
	return a
}

// smallLocs: the exhaustive small scope used by the location properties:
// every contiguous location over [0,L], their complements, and every
// join / order / complemented join of two parts drawn from a reduced part set
// (ranges with all partial combinations, points, between-sites).
func smallLocs(L int, amb bool) []gts.Location {
	contig := allContig(L, amb)
	out := append([]gts.Location{}, contig...)
	for _, c := range contig {
		out = append(out, gts.Complemented{Location: c})
	}
	parts := []gts.Location{}
	for _, c := range allContig(L, false) {
		if rg, ok := c.(gts.Ranged); ok {
			if rg.End-rg.Start > 3 {
				continue
			}
		}
		parts = append(parts, c)
	}
	for _, a := range parts {
		for _, b := range parts {
			out = append(out, gts.Joined{a, b})
		}
	}
	// a thinner slice of ordered / complemented pairs
	for i, a := range parts {
		for j, b := range parts {
			if (i+j)%3 == 0 {
				out = append(out, gts.Ordered{a, b})
			}
			if (i+2*j)%5 == 0 {
				out = append(out, gts.Complemented{Location: gts.Joined{a, b}})
				out = append(out, gts.Joined{gts.Complemented{Location: a}, gts.Complemented{Location: b}})
			}
		}
	}
	return out
}

var keyAlphabet = []string{"source", "gene", "CDS", "misc_feature", "exon"}

func genProps(r *rng) gts.Props {
	ps := gts.Props{}
	n := r.intn(3)
	names := []string{"gene", "note", "product", "locus_tag"}
	vals := []string{"a", "b", "x y", "thrL", ""}
	for i := 0; i < n; i++ {
		ps.Add(r.pick(names), r.pick(vals))
	}
	return ps
}

func genFeature(r *rng, L int, depth int) gts.Feature {
	key := keyAlphabet[r.intn(len(keyAlphabet))]
	if key == "source" && r.intn(2) == 0 {
		return gts.Feature{Key: key, Loc: gts.Range(0, L), Props: genProps(r)}
	}
	// one feature in three may hold Ambiguous (`n.m`) spans — alone at depth 0, inside join / order /
	// complement deeper down (audit S3 tail: before, no sequence-level oracle ever saw one); genContig
	// then draws an Ambiguous leaf with probability 1/10 per contiguous leaf, and a second draw makes the
	// top-level location itself a bare (or complemented) ambiguous span now and then
	amb := r.intn(3) == 0
	if amb && r.intn(4) == 0 {
		s := r.intn(L)
		e := r.rangeInt(s+1, L)
		var l gts.Location = gts.Ambiguous{Start: s, End: e}
		if r.intn(3) == 0 {
			l = gts.Complemented{Location: l}
		}
		return gts.Feature{Key: key, Loc: l, Props: genProps(r)}
	}
	return gts.Feature{Key: key, Loc: genLoc(r, depth, L, 3, amb), Props: genProps(r)}
}

var residueAlphabet = []byte("acgtnACGTryk")

func genBytes(r *rng, n int) []byte {
	p := make([]byte, n)
	for i := range p {
		p[i] = residueAlphabet[r.intn(len(residueAlphabet))]
	}
	return p
}

// genSeq draws a sequence of length L (>= 1) with 0..maxF features.
func genSeq(r *rng, L, maxF, depth int) gts.Sequence {
	var ff gts.FeatureSlice
	n := r.intn(maxF + 1)
	for i := 0; i < n; i++ {
		ff = ff.Insert(genFeature(r, L, depth))
	}
	// now and then the table holds the same feature twice (legal, e.g. two annotation passes);
	// the copy is placed by hand next to the original so that no library routine is involved
	if len(ff) > 0 && r.intn(6) == 0 {
		k := r.intn(len(ff))
		gg := make(gts.FeatureSlice, 0, len(ff)+1)
		gg = append(gg, ff[:k+1]...)
		gg = append(gg, gts.Feature{Key: ff[k].Key, Loc: ff[k].Loc, Props: ff[k].Props.Clone()})
		gg = append(gg, ff[k+1:]...)
		ff = gg
	}
	return gts.New(nil, ff, genBytes(r, L))
}
