package main

// C11, Repair on tables that really merge: the fragments a split leaves behind (same key and
// qualifiers, abutting ranges whose facing ends are partial; abutting `source` features) in a
// backing array with spare cells.  The caller's array — all of it — reads the same after the
// call, a second Repair of the same argument gives the same table, and the first result is not
// changed by the second call (seeded change C11-h: merged locations written into the argument).

import (
	"fmt"

	"github.com/go-gts/gts"
)

func (r *Run) c11RepairMerging() {
	n := 400
	if r.tier == "thorough" {
		n = 5000
	}
	sentinel := gts.Feature{Key: "SENTINEL", Loc: gts.Point(999)}
	for t := 0; t < n; t++ {
		L := r.rng.rangeInt(8, 40)
		var ff gts.FeatureSlice
		// a source cut into 1..3 abutting pieces (Slice strips their markers)
		cuts := []int{0}
		for k := r.rng.intn(3); k > 0; k-- {
			cuts = append(cuts, r.rng.rangeInt(1, L-1))
		}
		cuts = append(cuts, L)
		sortInts(cuts)
		for i := 0; i+1 < len(cuts); i++ {
			if cuts[i] < cuts[i+1] {
				ff = append(ff, gts.Feature{Key: "source", Loc: gts.Range(cuts[i], cuts[i+1]), Props: gts.Props{{"organism", "x"}}})
			}
		}
		// 1..3 classes, each a range cut into fragments with facing partial markers
		for c := r.rng.rangeInt(1, 3); c > 0; c-- {
			a := r.rng.intn(L - 3)
			b := r.rng.rangeInt(a+2, L)
			props := gts.Props{{"gene", fmt.Sprintf("g%d", c)}}
			m := r.rng.rangeInt(a+1, b-1)
			var l1, l2 gts.Location = gts.PartialRange(a, m, gts.Partial3), gts.PartialRange(m, b, gts.Partial5)
			if r.rng.intn(3) == 0 {
				l1, l2 = gts.Complemented{Location: l1}, gts.Complemented{Location: l2}
			}
			ff = append(ff, gts.Feature{Key: "gene", Loc: l1, Props: props}, gts.Feature{Key: "gene", Loc: l2, Props: props.Clone()})
		}
		spare := r.rng.intn(3)
		arr := make(gts.FeatureSlice, len(ff), len(ff)+spare)
		copy(arr, ff)
		whole := arr[:cap(arr)]
		for i := len(arr); i < cap(arr); i++ {
			whole[i] = sentinel
		}
		before := c19EncTable(whole)
		line := "feat.repair" + c19Feats(arr)
		crumb(line)
		res1 := gts.Repair(arr)
		enc1 := c19EncTable(res1)
		r.count("repair-merging/tables")
		if len(res1) < len(arr) {
			r.count("repair-merging/merged")
		}
		r.eval("c11repair|"+line, len(res1) < len(arr))
		if after := c19EncTable(whole); after != before {
			r.fail(Failure{Oracle: "Repair leaves its argument (the whole backing array of the table) as it was", Op: line, Got: after, Want: before})
			continue
		}
		res2 := gts.Repair(arr)
		if c19EncTable(res2) != enc1 || c19EncTable(res1) != enc1 {
			r.fail(Failure{Oracle: "Repair applied twice to the same argument gives the same table, and the first result stays as it was", Op: line,
				Got: c19EncTable(res2) + " / " + c19EncTable(res1), Want: enc1})
		}
	}
}

func sortInts(xs []int) {
	for i := 1; i < len(xs); i++ {
		for j := i; j > 0 && xs[j-1] > xs[j]; j-- {
			xs[j-1], xs[j] = xs[j], xs[j-1]
		}
	}
}
