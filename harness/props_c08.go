package main

import (
	"fmt"
	"strings"

	"github.com/go-gts/gts"
)

// C08 — resizing a region equals slicing its spliced sequence; locators compose.

func init() {
	props["C08"] = propC08
	extraOps["mod.print"] = func(a []sexp) string { return encStr(decMod(a[0]).String()) }
	extraOps["mod.parse"] = func(a []sexp) string {
		m, err := gts.AsModifier(string(decBytes(a[0])))
		if err != nil {
			return "ERR"
		}
		return encMod(m)
	}
	extraOps["loc.try"] = func(a []sexp) string {
		l, ok := gts.VerifTryLocation(string(decBytes(a[0])))
		if !ok {
			return "ERR"
		}
		return encLoc(l)
	}
	extraOps["locator.kind"] = func(a []sexp) string {
		return locatorKind(string(decBytes(a[0])), a[1].atom == "1").enc()
	}
	extraOps["locator.apply"] = func(a []sexp) string {
		return implLocate(string(decBytes(a[0])), decSeq(a[1]))
	}
	extraOps["locator.applyo"] = func(a []sexp) string {
		return implLocate(string(decBytes(a[0])), decSeq(a[3]))
	}
	// reg.den: what the real Locate reads (position, ~ = complement strand), in order
	extraOps["reg.den"] = func(a []sexp) string {
		d := implRegDen(decReg(a[0]))
		out := make([]string, len(d))
		for i, p := range d {
			out[i] = itoa(p.x)
			if p.rev {
				out[i] = "~" + out[i]
			}
		}
		return "[" + strings.Join(out, " ") + "]"
	}
	extraOps["selector.match"] = func(a []sexp) string {
		f, err := gts.Selector(string(decBytes(a[0])))
		if err != nil {
			return "ERR"
		}
		return b01(f(decFeature(a[1])))
	}
}

// implLocate: the real AsLocator applied to a sequence.
func implLocate(s string, seq gts.Sequence) string {
	locate, err := gts.AsLocator(s)
	if err != nil {
		return "ERR"
	}
	rr := locate(seq)
	out := make([]gts.Region, len(rr))
	copy(out, rr)
	return encRegs(out)
}

// locKind: a Go re-statement of what AsLocator builds, assembled from the real
// AsModifier / tryLocation / Selector (the closures AsLocator returns are
// opaque).  It answers `locator.kind` for the correspondence with the model and
// is itself checked against the behaviour of the real AsLocator by the oracle.
type locKind struct {
	tag   string // BM BL SEL ALL AT ERR
	m     gts.Modifier
	l     gts.Location
	sel   string
	inner *locKind
}

func (k locKind) enc() string {
	switch k.tag {
	case "BM":
		return "(BM " + encMod(k.m) + ")"
	case "BL":
		return "(BL " + encLoc(k.l) + ")"
	case "SEL":
		return "(SEL " + encStr(k.sel) + ")"
	case "ALL":
		return "(ALL " + encMod(k.m) + ")"
	case "AT":
		return "(AT " + k.inner.enc() + " " + encMod(k.m) + ")"
	}
	return "ERR"
}

func locatorKindBare(s string, selok bool) locKind {
	if m, err := gts.AsModifier(s); err == nil {
		return locKind{tag: "BM", m: m}
	}
	if l, ok := gts.VerifTryLocation(s); ok {
		return locKind{tag: "BL", l: l}
	}
	if selok {
		return locKind{tag: "SEL", sel: s}
	}
	return locKind{tag: "ERR"}
}

func locatorKind(s string, selok bool) locKind {
	i := strings.IndexByte(s, '@')
	switch {
	case i < 0:
		return locatorKindBare(s, selok)
	case i == 0:
		m, err := gts.AsModifier(s[1:])
		if err != nil {
			return locKind{tag: "ERR"}
		}
		return locKind{tag: "ALL", m: m}
	}
	in := locatorKindBare(s[:i], selok)
	if in.tag == "ERR" {
		return in
	}
	m, err := gts.AsModifier(s[i+1:])
	if err != nil {
		return locKind{tag: "ERR"}
	}
	return locKind{tag: "AT", inner: &in, m: m}
}

// apply: the regions the described locator yields (the statement of the property).
func (k locKind) apply(seq gts.Sequence) []gts.Region {
	switch k.tag {
	case "BM":
		return []gts.Region{gts.Segment{0, gts.Len(seq)}.Resize(k.m)}
	case "BL":
		return []gts.Region{k.l.Region()}
	case "SEL":
		f, err := gts.Selector(k.sel)
		if err != nil {
			return nil
		}
		var out []gts.Region
		for _, ft := range seq.Features() {
			if f(ft) {
				out = append(out, ft.Loc.Region())
			}
		}
		return out
	case "ALL":
		var out []gts.Region
		for _, ft := range seq.Features() {
			out = append(out, ft.Loc.Region().Resize(k.m))
		}
		return out
	case "AT":
		in := k.inner.apply(seq)
		out := make([]gts.Region, len(in))
		for i, r := range in {
			out[i] = r.Resize(k.m)
		}
		return out
	}
	return nil
}

// selOK: does Selector(spec) compile (the regexp oracle handed to the model).
func selOK(s string) bool {
	spec := s
	if i := strings.IndexByte(s, '@'); i >= 0 {
		spec = s[:i]
	}
	_, err := gts.Selector(spec)
	return err == nil
}

// ---------------------------------------------------------------------------
// modifiers

func modBounds(m gts.Modifier, total int) (int, int) {
	switch v := m.(type) {
	case gts.Head:
		return int(v), int(v)
	case gts.Tail:
		return int(v) + total, int(v) + total
	case gts.HeadTail:
		return v[0], v[1] + total
	case gts.HeadHead:
		return v[0], v[1]
	case gts.TailTail:
		return v[0] + total, v[1] + total
	}
	panic("modBounds")
}

func modForm(m gts.Modifier) string {
	switch m.(type) {
	case gts.Head:
		return "Head"
	case gts.Tail:
		return "Tail"
	case gts.HeadTail:
		return "HeadTail"
	case gts.HeadHead:
		return "HeadHead"
	}
	return "TailTail"
}

func mkMod(form, p, q int) gts.Modifier {
	switch form {
	case 0:
		return gts.Head(p)
	case 1:
		return gts.Tail(p)
	case 2:
		return gts.HeadTail{p, q}
	case 3:
		return gts.HeadHead{p, q}
	}
	return gts.TailTail{p, q}
}

func genMod(r *rng, total int) gts.Modifier {
	lo, hi := -total-3, total+3
	return mkMod(r.intn(5), r.rangeInt(lo, hi), r.rangeInt(lo, hi))
}

// genModInside draws a modifier whose bounds satisfy 0 <= lo <= hi <= total.
func genModInside(r *rng, total int) gts.Modifier {
	lo := r.rangeInt(0, total)
	hi := r.rangeInt(lo, total)
	switch r.intn(5) {
	case 0:
		return gts.Head(lo)
	case 1:
		return gts.Tail(lo - total)
	case 2:
		return gts.HeadTail{lo, hi - total}
	case 3:
		return gts.HeadHead{lo, hi}
	}
	return gts.TailTail{lo - total, hi - total}
}

// allMods: every modifier of the five forms with offsets in [-total-3, total+3]
func allMods(total int) []gts.Modifier {
	var out []gts.Modifier
	lo, hi := -total-3, total+3
	for p := lo; p <= hi; p++ {
		out = append(out, gts.Head(p), gts.Tail(p))
		for q := lo; q <= hi; q++ {
			out = append(out, gts.HeadTail{p, q}, gts.HeadHead{p, q}, gts.TailTail{p, q})
		}
	}
	return out
}

// ---------------------------------------------------------------------------
// regions

// c08Base: coordinates start here so that every outward extension (at most
// total+3 <= 28) stays at a non-negative coordinate of the probe sequence.
const c08Base = 40

// mkSegs builds segments of the given lengths and orientations (true =
// backward) with the given gaps in front of each segment.
func mkSegs(lens, gaps []int, back []bool) []gts.Segment {
	cur := c08Base
	out := make([]gts.Segment, len(lens))
	for i, n := range lens {
		s := cur + gaps[i]
		e := s + n
		cur = e
		if back[i] {
			out[i] = gts.Segment{e, s}
		} else {
			out[i] = gts.Segment{s, e}
		}
	}
	return out
}

func flatRegion(ss []gts.Segment) gts.Regions {
	rr := make(gts.Regions, len(ss))
	for i, s := range ss {
		rr[i] = s
	}
	return rr
}

// genSegs draws 1..5 segments of lengths 1..5: all forward, all backward (in
// the order complement(join(..)) yields, i.e. descending) or mixed.
func genSegs(r *rng) ([]gts.Segment, string) {
	n := r.rangeInt(1, 5)
	lens := make([]int, n)
	gaps := make([]int, n)
	back := make([]bool, n)
	mode := r.intn(3)
	for i := range lens {
		lens[i] = r.rangeInt(1, 5)
		gaps[i] = r.intn(4)
		switch mode {
		case 1:
			back[i] = true
		case 2:
			back[i] = r.bool()
		}
	}
	// members that SHARE residues (an overlapping frameshift-style join, a member repeated): the slicing law
	// counts positions of the extracted sequence, so shared residues count once per member (seeded W36-2)
	if n >= 2 && r.intn(4) == 0 {
		i := r.rangeInt(1, n-1)
		if r.intn(3) == 0 {
			lens[i] = lens[i-1]
			gaps[i] = -lens[i-1] // the same span again
		} else {
			gaps[i] = -r.rangeInt(1, lens[i-1])
		}
	}
	ss := mkSegs(lens, gaps, back)
	orient := []string{"fwd", "bwd", "mixed"}[mode]
	if mode == 1 || (mode == 2 && r.bool()) {
		for i, j := 0, len(ss)-1; i < j; i, j = i+1, j-1 {
			ss[i], ss[j] = ss[j], ss[i]
		}
	}
	if r.intn(8) == 0 { // unordered / overlapping parts: the law does not care
		i, j := r.intn(n), r.intn(n)
		ss[i], ss[j] = ss[j], ss[i]
	}
	return ss, orient
}

// nestOne groups a random run of the flat region into one inner Regions.
func nestOne(r *rng, ss []gts.Segment) gts.Regions {
	n := len(ss)
	i := r.intn(n)
	j := r.rangeInt(i, n-1)
	var out gts.Regions
	for k := 0; k < i; k++ {
		out = append(out, ss[k])
	}
	out = append(out, flatRegion(ss[i:j+1]))
	for k := j + 1; k < n; k++ {
		out = append(out, ss[k])
	}
	return out
}

// extendFlat: first segment's head moved outward by e5, last segment's tail by e3.
func extendFlat(ss []gts.Segment, e5, e3 int) gts.Regions {
	out := make([]gts.Segment, len(ss))
	copy(out, ss)
	f := out[0]
	if f[1] < f[0] {
		f[0] += e5
	} else {
		f[0] -= e5
	}
	out[0] = f
	l := out[len(out)-1]
	if l[1] < l[0] {
		l[1] -= e3
	} else {
		l[1] += e3
	}
	out[len(out)-1] = l
	return flatRegion(out)
}

func mirrorRegion(r gts.Region, L int) gts.Region {
	switch v := r.(type) {
	case gts.Segment:
		return gts.Segment{L - v[0], L - v[1]}
	case gts.Regions:
		out := make(gts.Regions, len(v))
		for i, u := range v {
			out[i] = mirrorRegion(u, L)
		}
		return out
	}
	panic("mirrorRegion")
}

func posEq(a, b []pos) bool {
	if len(a) != len(b) {
		return false
	}
	for i := range a {
		if a[i] != b[i] {
			return false
		}
	}
	return true
}

// c08Resize: the slicing law, the extension law (flat regions) and the mirror law
// for one region and one modifier.  ss is the flat segment list when reg is flat.
func c08Resize(r *Run, reg gts.Region, ss []gts.Segment, m gts.Modifier, tag string) {
	rs, ms := encReg(reg), encMod(m)
	line := "reg.resize " + rs + " " + ms
	out := r.op(line)
	// the property's `$` is the 3' end of the sequence EXTRACTED from the whole region: the length is
	// counted on the extracted residues, not asked of Region.Len() (seeded W36-2: a Len() that counts
	// residues shared by two members once moved `$` and the oracle moved with it)
	whole := implRegDen(reg)
	total := len(whole)
	lo, hi := modBounds(m, total)
	inside := 0 <= lo && lo <= hi && hi <= total
	r.count("resize/" + tag + "/" + modForm(m))
	if inside {
		r.count("resize/inside")
	} else {
		r.count("resize/outside")
	}
	nseg := len(gts.VerifFlattenRegion(reg))
	r.eval("r|"+rs+"|"+ms, inside && lo < hi && nseg >= 2)
	if out == "PANIC" {
		r.fail(Failure{Oracle: "resize never panics on a non-empty region", Op: line, Got: out})
		return
	}
	got := reg.Resize(m)
	gd := implRegDen(got)
	switch {
	case inside:
		want := whole[lo:hi]
		if !posEq(gd, want) {
			r.fail(Failure{Oracle: "inside: extracted(resize r m) = extracted(r)[lo:hi]", Op: line,
				Got: out + " den=" + denStr(gd), Want: "den=" + denStr(want)})
		}
	case ss != nil && lo <= hi:
		e5, e3 := maxInt(0, -lo), maxInt(0, hi-total)
		ext := implRegDen(extendFlat(ss, e5, e3))
		want := ext[lo+e5 : hi+e5]
		if !posEq(gd, want) {
			r.fail(Failure{Oracle: "outside: offsets beyond the ends extend the first/last segment outward", Op: line,
				Got: out + " den=" + denStr(gd), Want: "den=" + denStr(want)})
		}
	case 0 <= lo && lo <= total && 0 <= hi && hi <= total:
		// lower bound behind the upper bound: nothing is selected
		if len(gd) != 0 {
			r.fail(Failure{Oracle: "inverted bounds select nothing", Op: line, Got: out + " den=" + denStr(gd), Want: "den=[]"})
		}
	}
	if n := reg.Len(); n != total {
		r.fail(Failure{Oracle: "Region.Len() is the number of residues the region extracts — where the slicing law puts `$` (every member counts its own residues, also those it shares with another member)", Op: "reg.len " + rs,
			Got: itoa(n), Want: itoa(total)})
	}
	// mirror law: the region as seen on the reverse-complemented record
	L := 150
	mr := mirrorRegion(reg, L)
	mline := "reg.resize " + encReg(mr) + " " + ms
	mout := r.op(mline)
	want := encReg(mirrorRegion(got, L))
	if mout != want {
		r.fail(Failure{Oracle: "resize(mirror L r) m = mirror L (resize r m)", Op: mline, Got: mout, Want: want})
	}
}

// c08Apply: the five Apply on one pair, both orientations.
func c08Apply(r *Run, m gts.Modifier, h, t int) {
	line := fmt.Sprintf("mod.apply %s %d %d", encMod(m), h, t)
	out := r.op(line)
	gh, gt := m.Apply(h, t)
	n := t - h
	if n < 0 {
		n = -n
	}
	lo, hi := modBounds(m, n)
	if hi < lo {
		hi = lo
	}
	wh, wt := h+lo, h+hi
	if t < h {
		wh, wt = h-lo, h-hi
	}
	r.eval("a|"+line, h != t)
	r.count("apply/" + modForm(m))
	if gh != wh || gt != wt {
		r.fail(Failure{Oracle: "Apply(h,t) = (h ± lo, h ± max(lo,hi)) along the pair's own direction", Op: line, Got: out,
			Want: fmt.Sprintf("%d %d", wh, wt)})
	}
}

// ---------------------------------------------------------------------------
// modifier text

func c08Print(r *Run, m gts.Modifier) {
	ms := encMod(m)
	r.op("mod.print " + ms)
	s := m.String()
	line := "mod.parse " + encStr(s)
	out := r.op(line)
	r.count("print/" + modForm(m))
	r.eval("p|"+ms, true)
	back, err := gts.AsModifier(s)
	if err != nil {
		r.fail(Failure{Oracle: "AsModifier(m.String()) succeeds", Op: line, Got: out, Want: ms})
		return
	}
	if encMod(back) != ms {
		r.fail(Failure{Oracle: "AsModifier(m.String()) = m", Op: line, Got: encMod(back), Want: ms})
	}
}

func c08ParseString(r *Run, s string) {
	line := "mod.parse " + encStr(s)
	out := r.op(line)
	if out == "PANIC" {
		r.fail(Failure{Oracle: "AsModifier never panics", Op: line, Got: out})
		return
	}
	if out == "ERR" {
		r.count("modstring/rejected")
		r.eval("ms|"+s, false)
		return
	}
	r.count("modstring/accepted")
	r.eval("ms|"+s, true)
	m, _ := gts.AsModifier(s)
	back, err := gts.AsModifier(m.String())
	if err != nil || encMod(back) != encMod(m) {
		r.fail(Failure{Oracle: "an accepted modifier string re-parses to the same modifier after printing", Op: line, Got: out})
	}
}

// ---------------------------------------------------------------------------
// locators

// 5'UTR and 3'UTR are INSDC feature keys that start with a number; together with 3..5xyz
// and 12abc they begin with a location prefix (repaired finding F9: such a string is a
// selector, not the point / range it starts with)
var c08PrefixKeys = []string{"5'UTR", "3'UTR", "3..5xyz", "12abc"}
var c08Keys = []string{"gene", "CDS", "exon", "misc_feature", "source", "5'UTR", "3'UTR", "3..5xyz", "12abc"}

// withUTRKeys renames some features to the keys that begin with a location prefix so that selectors on those keys have
// something to select.
func withUTRKeys(r *rng, seq gts.Sequence) gts.Sequence {
	ff := make(gts.FeatureSlice, len(seq.Features()))
	copy(ff, seq.Features())
	for i := range ff {
		if r.intn(3) == 0 {
			ff[i].Key = r.pick(c08PrefixKeys)
		}
	}
	return gts.New(nil, ff, append([]byte(nil), seq.Bytes()...))
}

var c08Names = []string{"gene", "note", "product", "locus_tag"}
var c08Lits = []string{"a", "b", "x", "y", "thr", "x y", "L"}

// plainSel is one regexp-free selector: [key][/[name][=lit]]
type plainSel struct {
	key, name, lit string
	qual, eq       bool
}

func (s plainSel) String() string {
	out := s.key
	if s.qual {
		out += "/" + s.name
		if s.eq {
			out += "=" + s.lit
		}
	}
	return out
}

// match: independent statement of what the selector means.
func (s plainSel) match(f gts.Feature) bool {
	if s.key != "" && f.Key != s.key {
		return false
	}
	if !s.qual || (s.name == "" && !s.eq) {
		// "key" and "key/" carry no qualifier part
		return true
	}
	lit := ""
	if s.eq {
		lit = s.lit
	}
	if s.name == "" {
		// every value of every qualifier (the qualifier names themselves are not values)
		for _, row := range f.Props {
			for _, v := range row[1:] {
				if strings.Contains(v, lit) {
					return true
				}
			}
		}
		return false
	}
	for _, row := range f.Props {
		if row[0] == s.name {
			if lit == "" {
				return true
			}
			for _, v := range row[1:] {
				if strings.Contains(v, lit) {
					return true
				}
			}
			return false
		}
	}
	return false
}

func genPlainSel(r *rng) plainSel {
	s := plainSel{}
	if r.intn(4) != 0 {
		s.key = r.pick(c08Keys)
	}
	if r.intn(2) == 0 {
		s.qual = true
		if r.intn(4) != 0 {
			s.name = r.pick(c08Names)
		}
		if r.intn(3) != 0 {
			s.eq = true
			s.lit = r.pick(c08Lits)
		}
	}
	return s
}

// c08Spec: one specifier (the part before '@') with its meaning.
type c08Spec struct {
	text string
	kind string // none modifier point range complement selector
	want func(seq gts.Sequence) []gts.Region
}

func genSpec(r *rng, L int) c08Spec {
	switch r.intn(7) {
	case 0:
		return c08Spec{"", "none", func(seq gts.Sequence) []gts.Region {
			var out []gts.Region
			for _, f := range seq.Features() {
				out = append(out, f.Loc.Region())
			}
			return out
		}}
	case 1:
		m := genMod(r, L)
		return c08Spec{m.String(), "modifier", func(seq gts.Sequence) []gts.Region {
			return []gts.Region{gts.Segment{0, gts.Len(seq)}.Resize(m)}
		}}
	case 2:
		p := r.intn(L)
		return c08Spec{fmt.Sprint(p + 1), "point", func(seq gts.Sequence) []gts.Region {
			return []gts.Region{gts.Segment{p, p + 1}}
		}}
	case 3, 4:
		s := r.intn(L)
		e := r.rangeInt(s+1, L)
		txt := fmt.Sprintf("%d..%d", s+1, e)
		switch r.intn(6) {
		case 0:
			txt = fmt.Sprintf("<%d..%d", s+1, e)
		case 1:
			txt = fmt.Sprintf("%d..>%d", s+1, e)
		}
		if r.intn(3) == 0 {
			return c08Spec{"complement(" + txt + ")", "complement", func(seq gts.Sequence) []gts.Region {
				return []gts.Region{gts.Segment{e, s}}
			}}
		}
		return c08Spec{txt, "range", func(seq gts.Sequence) []gts.Region {
			return []gts.Region{gts.Segment{s, e}}
		}}
	default:
		sel := genPlainSel(r)
		if sel.String() == "" {
			sel.key = "gene"
		}
		return c08Spec{sel.String(), "selector", func(seq gts.Sequence) []gts.Region {
			var out []gts.Region
			for _, f := range seq.Features() {
				if sel.match(f) {
					out = append(out, f.Loc.Region())
				}
			}
			return out
		}}
	}
}

func selBits(s string, seq gts.Sequence) (bool, string) {
	spec := s
	if i := strings.IndexByte(s, '@'); i >= 0 {
		spec = s[:i]
	}
	f, err := gts.Selector(spec)
	bits := make([]string, len(seq.Features()))
	for i, ft := range seq.Features() {
		bits[i] = b01(err == nil && f(ft))
	}
	return err == nil, "(" + strings.Join(bits, " ") + ")"
}

// c08Locator: an assembled locator string against the real AsLocator.
func c08Locator(r *Run, spec c08Spec, m gts.Modifier, seq gts.Sequence) {
	s := spec.text
	if m != nil {
		s += "@" + m.String()
	}
	if s == "" {
		return
	}
	qs := encSeq(seq)
	r.op("locator.kind " + encStr(s) + " 1")
	line := "locator.apply " + encStr(s) + " " + qs
	out := r.op(line)
	r.count("locator/" + spec.kind + map[bool]string{true: "@mod", false: ""}[m != nil])
	if spec.kind == "selector" {
		for _, k := range c08PrefixKeys {
			if strings.HasPrefix(spec.text, k) {
				r.count("locator/selector-with-location-prefix")
			}
		}
	}
	r.eval("l|"+s+"|"+qs, len(seq.Features()) > 0 || spec.kind != "selector")
	if out == "PANIC" || out == "ERR" {
		r.fail(Failure{Oracle: "an assembled locator is accepted and does not panic", Op: line, Got: out})
		return
	}
	want := spec.want(copySeq(seq))
	if m != nil {
		for i := range want {
			want[i] = want[i].Resize(m)
		}
	}
	if w := encRegs(want); out != w {
		f := Failure{Oracle: "X@M denotes the regions of X each resized by M (bare modifier: whole sequence; location: itself; selector: matching features in table order)",
			Op: line, Got: out, Want: w}
		r.fail(f)
		return
	}
	// one locator is applied to every record of a stream (cmd/gts): a second and third
	// application of the SAME locator value must denote the same regions as the first
	func() {
		defer func() {
			if e := recover(); e != nil {
				r.fail(Failure{Oracle: "a locator can be applied again without panicking", Op: line, Got: fmt.Sprint(e)})
			}
		}()
		locate, err := gts.AsLocator(s)
		if err != nil {
			return
		}
		for k := 1; k <= 3; k++ {
			rr := locate(copySeq(seq))
			cp := make([]gts.Region, len(rr))
			copy(cp, rr)
			if got := encRegs(cp); got != out {
				r.fail(Failure{Oracle: "a locator denotes the same regions every time it is applied (application " + itoa(k) + " of the same locator value)",
					Op: line, Got: got, Want: out})
				return
			}
		}
		r.count("locator/reapplied")
	}()
}

// c08LocatorString: an arbitrary string: the restated kind (built from the real
// pieces) must describe what the real AsLocator does.
func c08LocatorString(r *Run, s string, seq gts.Sequence) {
	ok, bits := selBits(s, seq)
	kline := "locator.kind " + encStr(s) + " " + b01(ok)
	kout := r.op(kline)
	line := "locator.applyo " + encStr(s) + " " + b01(ok) + " " + bits + " " + encSeq(seq)
	out := r.op(line)
	r.eval("ls|"+s, out != "ERR")
	if out == "PANIC" {
		r.fail(Failure{Oracle: "AsLocator and the locator never panic", Op: line, Got: out})
		return
	}
	k := locatorKind(s, ok)
	if out == "ERR" {
		r.count("locstring/rejected")
		if k.tag != "ERR" {
			r.fail(Failure{Oracle: "AsLocator rejects exactly the strings the precedence rule rejects", Op: kline, Got: out, Want: kout})
		}
		return
	}
	r.count("locstring/" + k.tag)
	if w := encRegs(k.apply(copySeq(seq))); out != w {
		r.fail(Failure{Oracle: "AsLocator follows the precedence modifier > location > selector and the '@' split", Op: line, Got: out,
			Want: kout + " -> " + w})
	}
}

var c08LocAlphabet = []byte("0123456789.^$+-@<>()/=cgenota")

func mutate(r *rng, s []byte, alpha []byte) []byte {
	s = append([]byte{}, s...)
	switch r.intn(5) {
	case 0:
		if len(s) > 0 {
			s[r.intn(len(s))] = alpha[r.intn(len(alpha))]
		}
	case 1:
		if len(s) > 0 {
			k := r.intn(len(s))
			s = append(s[:k], s[k+1:]...)
		}
	case 2:
		k := r.intn(len(s) + 1)
		s = append(s[:k], append([]byte{alpha[r.intn(len(alpha))]}, s[k:]...)...)
	case 3:
		s = s[:r.intn(len(s)+1)]
	case 4:
		if len(s) > 1 {
			k := r.intn(len(s) - 1)
			s[k], s[k+1] = s[k+1], s[k]
		}
	}
	return s
}

// ---------------------------------------------------------------------------

func propC08(r *Run) {
	defer c08RegionOfLocation(r)
	defer c08BlankLocators(r)
	thorough := r.tier == "thorough"
	r.exhaustive = true
	c08Strand(r)

	// (1) Apply: every form, offsets -4..4, pairs over a small window (both orientations, empty pairs)
	for _, m := range allMods(1) {
		for h := 3; h <= 7; h++ {
			for t := 3; t <= 7; t++ {
				c08Apply(r, m, h, t)
			}
		}
	}

	// (2) exhaustive small scope: 1..3 segments of lengths 1..2 (quick) / 1..3 (thorough),
	// every orientation pattern, gap 0 or 2, every modifier with offsets in [-total-3, total+3]
	maxLen := 2
	if thorough {
		maxLen = 3
	}
	nReg := 0
	for n := 1; n <= 3; n++ {
		lens := make([]int, n)
		var rec func(i int)
		rec = func(i int) {
			if i < n {
				for l := 1; l <= maxLen; l++ {
					lens[i] = l
					rec(i + 1)
				}
				return
			}
			for pat := 0; pat < 1<<uint(n); pat++ {
				back := make([]bool, n)
				gaps := make([]int, n)
				for j := range back {
					back[j] = pat&(1<<uint(j)) != 0
					gaps[j] = 2 * (j % 2)
				}
				ss := mkSegs(lens, gaps, back)
				reg := flatRegion(ss)
				nReg++
				tag := fmt.Sprintf("flat%d", n)
				mods := allMods(reg.Len())
				for k, m := range mods {
					// the two-offset forms are thinned for three segments in the quick tier
					if n == 3 && !thorough {
						if _, one := m.(gts.Head); !one {
							if _, one2 := m.(gts.Tail); !one2 && (k+pat)%3 != 0 {
								continue
							}
						}
					}
					c08Resize(r, reg, ss, m, tag)
				}
			}
		}
		rec(0)
	}
	r.notes = append(r.notes, fmt.Sprintf("exhaustive: Apply of every modifier with offsets in [-4,4] on all pairs over 3..7; resize of %d flat regions (1..3 segments, lengths 1..%d, every orientation pattern) by every modifier with offsets in [-total-3,total+3] (two-offset forms thinned to 1/3 for 3 segments in the quick tier); all modifier strings of length <= %d over \"^$.+-01\"", nReg, maxLen, map[bool]int{true: 6, false: 5}[thorough]))

	// (2b) the same laws near the origin, where extensions run below coordinate 0 (props_c08_low.go)
	c08NearOrigin(r)

	// (3) random regions: 1..5 segments of lengths 1..5, either strand / mixed, flat and nested one level
	nRandom := 2500
	if thorough {
		nRandom = 40000
	}
	for t := 0; t < nRandom; t++ {
		ss, orient := genSegs(r.rng)
		flat := flatRegion(ss)
		total := flat.Len()
		for j := 0; j < 6; j++ {
			m := genMod(r.rng, total)
			if j%2 == 0 {
				m = genModInside(r.rng, total)
			}
			c08Resize(r, flat, ss, m, fmt.Sprintf("%s%d", orient, len(ss)))
			if j == 0 {
				// ties the model's denotation to what the real Locate reads, before and after
				r.op("reg.den " + encReg(flat))
				r.op("reg.den " + encReg(flat.Resize(m)))
			}
		}
		if len(ss) >= 2 {
			nested := nestOne(r.rng, ss)
			for j := 0; j < 4; j++ {
				m := genMod(r.rng, total)
				if j%2 == 0 {
					m = genModInside(r.rng, total)
				}
				c08Resize(r, nested, nil, m, "nested/"+orient)
				if j == 0 {
					r.op("reg.den " + encReg(nested.Resize(m)))
				}
			}
		}
		if t < 3 {
			r.sample("reg.resize " + encReg(flat) + " " + encMod(genMod(r.rng, total)))
		}
	}

	// (4) modifier text: print / parse round trip, all small offsets and random 64-bit offsets
	for p := -12; p <= 12; p++ {
		c08Print(r, gts.Head(p))
		c08Print(r, gts.Tail(p))
		for q := -12; q <= 12; q++ {
			c08Print(r, gts.HeadTail{p, q})
			c08Print(r, gts.HeadHead{p, q})
			c08Print(r, gts.TailTail{p, q})
		}
	}
	big := func() int {
		switch r.rng.intn(4) {
		case 0:
			return int(r.rng.next())
		case 1:
			return int(r.rng.next() >> uint(r.rng.intn(64)))
		case 2:
			return -int(r.rng.next() >> uint(1+r.rng.intn(63)))
		}
		return []int{0, 1, -1, 9, 10, -10, 99, 100, 1<<63 - 1, -1 << 63}[r.rng.intn(10)]
	}
	for t := 0; t < nRandom/2; t++ {
		c08Print(r, mkMod(r.rng.intn(5), big(), big()))
	}
	maxStr := 5
	if thorough {
		maxStr = 6
	}
	alpha := []byte("^$.+-01")
	var rec func(prefix []byte)
	rec = func(prefix []byte) {
		c08ParseString(r, string(prefix))
		if len(prefix) == maxStr {
			return
		}
		for _, c := range alpha {
			rec(append(append([]byte{}, prefix...), c))
		}
	}
	rec(nil)
	for t := 0; t < nRandom; t++ {
		m := mkMod(r.rng.intn(5), r.rng.rangeInt(-30, 30), r.rng.rangeInt(-30, 30))
		c08ParseString(r, string(mutate(r.rng, []byte(m.String()), []byte("^$.+-0123456789 @"))))
	}
	for _, s := range []string{"^+9223372036854775807", "^+9223372036854775808", "$-9223372036854775808", "$-9223372036854775809",
		"^+00", "^-0", "^+0..$-0", "^..", "..$", "^$", "$^", "^..$..^", "^ ", " ^"} {
		c08ParseString(r, s)
	}

	// (5) locators
	nLoc := 1500
	if thorough {
		nLoc = 25000
	}
	for t := 0; t < nLoc; t++ {
		L := r.rangeL()
		seq := genSeq(r.rng, L, 5, 2)
		if t%3 == 0 {
			seq = withUTRKeys(r.rng, seq)
		}
		spec := genSpec(r.rng, L)
		var m gts.Modifier
		if r.rng.intn(3) != 0 || spec.kind == "none" {
			m = genMod(r.rng, minInt(L, 8))
		}
		c08Locator(r, spec, m, seq)
		s := spec.text
		if m != nil {
			s += "@" + m.String()
		}
		// plain-selector matching of the model against the real Selector
		if spec.kind == "selector" {
			for _, f := range seq.Features() {
				r.op("selector.match " + encStr(spec.text) + " " + encFeature(f))
			}
		}
		c08LocatorString(r, string(mutate(r.rng, []byte(s), c08LocAlphabet)), seq)
		if m != nil && t%4 == 0 {
			// a second '@': the split is at the first one, so the rest is not a modifier
			c08LocatorString(r, s+"@"+genMod(r.rng, 5).String(), seq)
		}
		if t < 4 {
			r.sample("locator " + s)
		}
	}
	for _, s := range []string{"", "@", "@@", "^@^", "@^", "gene@", "gene@@^", "gene@^@$", "5@^+1@$-1", "@^@$", "^..$@^@^", "3..5x", "12abc", "3..", "<3..5", "3..>5>", "complement(3..5", "complement(complement(3..5))",
		"complement(7)", "^..$@^..$", "/", "//", "gene/", "gene//note=a", "gene/note=a/product=b", `ge\/ne/note`, "gene/note=(", "gene/=a", "5@$-1..$", "^+1x"} {
		c08LocatorString(r, s, genSeq(r.rng, 12, 5, 1))
	}
}

// c08Strand: "either strand": the complement of a region reads the same residues in the
// opposite order on the opposite strand — for every number of segments (odd and even) and one
// level of nesting; this is what makes ^ the 5' end in the direction of the strand.
func c08Strand(r *Run) {
	n := 1500
	if r.tier == "thorough" {
		n = 15000
	}
	for t := 0; t < n; t++ {
		k := 1 + t%5
		segs := make(gts.Regions, 0, k)
		pos := r.rng.intn(3)
		for j := 0; j < k; j++ {
			ln := r.rng.rangeInt(1, 4)
			var el gts.Region = gts.Segment{pos, pos + ln}
			if r.rng.intn(3) == 0 {
				el = gts.Segment{pos + ln, pos}
			}
			if r.rng.intn(6) == 0 {
				el = gts.Regions{gts.Segment{pos, pos + 1}, gts.Segment{pos + ln + 1, pos + ln + 2}}
				pos++
			}
			segs = append(segs, el)
			pos += ln + r.rng.intn(3)
		}
		var reg gts.Region = segs
		line := "reg.complement " + encReg(reg)
		out := r.op(line)
		r.count(fmt.Sprintf("strand/segments%d", k))
		if out == "PANIC" {
			r.fail(Failure{Oracle: "complement of a region never panics", Op: line, Got: out})
			continue
		}
		d := implRegDen(reg)
		c := implRegDen(reg.Complement())
		r.eval(line, len(d) > 0)
		ok := len(c) == len(d)
		for x := 0; ok && x < len(d); x++ {
			if c[len(d)-1-x].x != d[x].x || c[len(d)-1-x].rev == d[x].rev {
				ok = false
			}
		}
		if !ok {
			r.fail(Failure{Oracle: "the complement of a region reads the same residues in the opposite order on the opposite strand", Op: line,
				Got: encReg(reg.Complement()) + " den=" + denStr(c), Want: "reverse of " + denStr(d)})
		}
	}
}
