package main

// C16 — ORIGIN block layout is exact for every sequence length.
//
// Protocol ops of the ORIGIN area (answered by lean/Gts/Model/OpsOrigin.lean on the model side),
// generators and the property oracle evaluated on the real code.

import (
	"bytes"
	"fmt"
	"strings"

	"github.com/go-gts/gts/seqio"
	"github.com/go-pars/pars"
)

func init() {
	props["C16"] = propC16
	extraOps["origin.tolen"] = func(a []sexp) string { return itoa(seqio.VerifToOriginLength(decInt(a[0]))) }
	extraOps["origin.fromlen"] = func(a []sexp) string { return itoa(seqio.VerifFromOriginLength(decInt(a[0]))) }
	extraOps["origin.format"] = func(a []sexp) string { return encBytes(seqio.NewOrigin(decBytes(a[0])).Buffer) }
	extraOps["origin.string"] = func(a []sexp) string {
		return encStr(seqio.Origin{Buffer: decBytes(a[0]), Parsed: true}.String())
	}
	extraOps["origin.bytes"] = func(a []sexp) string { return nilOr(encBytes, c16Bytes(decBytes(a[0]))) }
	extraOps["origin.len"] = func(a []sexp) string { return itoa(c16Len(decBytes(a[0]))) }
	extraOps["origin.validate"] = func(a []sexp) string { return c16Validate(decBytes(a[0]), decInt(a[1])) }
	extraOps["origin.slow"] = func(a []sexp) string {
		tok, rest, err := c16Slow(decBytes(a[0]), decInt(a[1]))
		return pairOrErr(encBytes, tok, rest, err)
	}
	extraOps["origin.parse"] = func(a []sexp) string {
		buf, rest, err := c16Parse(decBytes(a[0]), decInt(a[1]))
		return pairOrErr(encBytes, buf, rest, err)
	}
	extraOps["origin.line"] = func(a []sexp) string {
		state := pars.FromBytes(decBytes(a[0]))
		result := pars.Result{}
		pars.Line(state, &result)
		tok := append([]byte(nil), result.Token...)
		return encBytes(tok) + " " + encBytes(state.Dump())
	}
	// implementation only (the model has no GenBankParser): used by the oracle and for replay
	extraOps["origin.scan"] = func(a []sexp) string {
		seqs, err := c16Scan(decBytes(a[0]))
		out := make([]string, 0, len(seqs)+1)
		for _, q := range seqs {
			out = append(out, encBytes(q))
		}
		if err != nil {
			out = append(out, "ERR")
		}
		return strings.Join(out, " ")
	}
	block := func(a []sexp) (int, []byte) {
		n := decInt(a[0])
		return n, seqio.NewOrigin(c16Gen(n, decInt(a[1]), decInt(a[2]))).Buffer
	}
	extraOps["origin.g.format"] = func(a []sexp) string { _, b := block(a); return c16Digest(b) }
	extraOps["origin.g.bytes"] = func(a []sexp) string { _, b := block(a); return nilOr(c16Digest, c16Bytes(b)) }
	extraOps["origin.g.len"] = func(a []sexp) string { _, b := block(a); return itoa(c16Len(b)) }
	extraOps["origin.g.validate"] = func(a []sexp) string { n, b := block(a); return c16Validate(b, n) }
	extraOps["origin.g.slow"] = func(a []sexp) string {
		n, b := block(a)
		c := decInt(a[3])
		tok, rest, err := c16Slow(c16SlowInput(b, c), n)
		return pairOrErr(c16Digest, tok, rest, err)
	}
	extraOps["origin.g.parse"] = func(a []sexp) string {
		n, b := block(a)
		c := decInt(a[3])
		buf, rest, err := c16Parse(c16ParseInput(b, c), n)
		return pairOrErr(c16Digest, buf, rest, err)
	}
}

// c16Scan runs the public scanner (seqio.NewScanner(seqio.GenBankParser, …)) over whole records:
// the residues of every sequence it yields, then ERR if it stopped with an error.
func c16Scan(input []byte) (seqs [][]byte, err error) {
	sc := seqio.NewScanner(seqio.GenBankParser, bytes.NewReader(input))
	for sc.Scan() {
		seqs = append(seqs, append([]byte(nil), sc.Value().Bytes()...))
	}
	return seqs, sc.Err()
}

// c16Record: a minimal GenBank record around an ORIGIN block, declaring n residues.
func c16Record(n int, block []byte) []byte {
	head := fmt.Sprintf("LOCUS       TEST %22d bp    DNA     linear   UNA 01-JAN-2000\nDEFINITION  x.\nORIGIN      \n", n)
	return append(append([]byte(head), block...), []byte("//\n")...)
}

func nilOr(enc func([]byte) string, p []byte) string {
	if len(p) == 0 {
		return "NIL"
	}
	return enc(p)
}

func pairOrErr(enc func([]byte) string, a, b []byte, err error) string {
	if err != nil {
		return "ERR"
	}
	return enc(a) + " " + enc(b)
}

// --- the real code behind the hooks -----------------------------------------

func c16Bytes(buf []byte) []byte {
	o := &seqio.Origin{Buffer: append([]byte(nil), buf...), Parsed: false}
	return o.Bytes()
}

func c16Len(buf []byte) int { return seqio.Origin{Buffer: buf, Parsed: false}.Len() }

func c16Validate(buf []byte, n int) string {
	if seqio.VerifValidateOrigin(buf, n) != nil {
		return "ERR"
	}
	return "OK"
}

// c16Slow runs slowGenBankOriginParser(n) on a fresh state: token, unconsumed rest.
func c16Slow(input []byte, n int) ([]byte, []byte, error) {
	state := pars.FromBytes(append([]byte(nil), input...))
	result := pars.Result{}
	if err := seqio.VerifSlowOriginParser(n)(state, &result); err != nil {
		return nil, nil, err
	}
	return append([]byte(nil), result.Token...), append([]byte(nil), state.Dump()...), nil
}

// c16Parse runs makeGenbankOriginParser(n)(gb, 12) on a fresh state positioned at the ORIGIN
// line: buffer of the resulting (unparsed) Origin, unconsumed rest.
func c16Parse(input []byte, n int) ([]byte, []byte, error) {
	gb := &seqio.GenBank{}
	state := pars.FromBytes(append([]byte(nil), input...))
	result := pars.Result{}
	if err := seqio.VerifOriginParser(n)(gb, 12)(state, &result); err != nil {
		return nil, nil, err
	}
	return append([]byte(nil), gb.Origin.Buffer...), append([]byte(nil), state.Dump()...), nil
}

// --- generated inputs and digests (mirrored in OpsOrigin.lean) --------------

var c16Alphabets = func() [][]byte {
	printable := make([]byte, 94)
	for i := range printable {
		printable[i] = byte(33 + i)
	}
	return [][]byte{[]byte("acgt"), []byte("ACGTN"), []byte("acgtrymkswhbvdn"),
		[]byte("ACDEFGHIKLMNPQRSTVWY*"), printable, []byte("0123456789-.*")}
}()

func c16Gen(n, k, s int) []byte {
	a := c16Alphabets[k%len(c16Alphabets)]
	p := make([]byte, n)
	for i := range p {
		p[i] = a[(i*i+7*i+s)%len(a)]
	}
	return p
}

func c16Digest(p []byte) string {
	h := uint64(14695981039346656037)
	for _, c := range p {
		h = (h ^ uint64(c)) * 1099511628211
	}
	return fmt.Sprintf("%d:%d", len(p), h)
}

func c16EOL(c int) string {
	if c == 1 {
		return "\r\n"
	}
	return "\n"
}

func c16Conv(b []byte, c int) []byte {
	if c == 1 {
		return bytes.ReplaceAll(b, []byte("\n"), []byte("\r\n"))
	}
	return b
}

func c16SlowInput(block []byte, c int) []byte {
	return append(append([]byte(nil), c16Conv(block, c)...), []byte("//"+c16EOL(c))...)
}

func c16ParseInput(block []byte, c int) []byte {
	return append([]byte("ORIGIN      "+c16EOL(c)), c16SlowInput(block, c)...)
}

// c16Layout is the layout the property states, written independently of NewOrigin: lines of a
// 9-column right-aligned 1-based index followed by up to six space-separated groups of ten.
func c16Layout(p []byte) []byte {
	var sb strings.Builder
	s := string(p)
	for i := 0; len(s) > 0; i += 60 {
		line := s
		if len(line) > 60 {
			line = line[:60]
		}
		s = s[len(line):]
		var groups []string
		for len(line) > 0 {
			g := line
			if len(g) > 10 {
				g = g[:10]
			}
			line = line[len(g):]
			groups = append(groups, g)
		}
		idx := itoa(i + 1)
		sb.WriteString(strings.Repeat(" ", maxInt(0, 9-len(idx))) + idx + " " + strings.Join(groups, " ") + "\n")
	}
	return []byte(sb.String())
}

// c16ClosedLen: size of the layout above, in closed form.
func c16ClosedLen(n int) int {
	full, last := n/60, n%60
	size := full * (9 + 6*11 + 1)
	if last > 0 {
		size += 9 + last + (last+9)/10 + 1
	}
	return size
}

// --- oracle -------------------------------------------------------------------

func recovered(f func()) (panicked bool) {
	defer func() {
		if recover() != nil {
			panicked = true
		}
	}()
	f()
	return false
}

// c16Intact evaluates every clause of the property on the real code for the residues p.
// `send` says which op lines go to both sides (hex | digest | none).
func c16Intact(r *Run, n, k, s int, send string) {
	p := c16Gen(n, k, s)
	fOp := "origin.format " + encBytes(p)
	switch send {
	case "hex":
		r.op(fOp)
		r.op("origin.string " + encBytes(p))
	case "digest":
		r.op(fmt.Sprintf("origin.g.format %d %d %d", n, k, s))
	}
	r.count(fmt.Sprintf("intact/%s/alphabet%d", send, k))
	r.count(fmt.Sprintf("intact/mod10=%d", n%10))
	r.eval(fmt.Sprintf("i|%d|%d|%d", n, k, s), n > 0)
	var b []byte
	if recovered(func() { b = append([]byte(nil), seqio.NewOrigin(p).Buffer...) }) {
		r.fail(Failure{Oracle: "NewOrigin does not panic", Op: fOp, Got: "PANIC"})
		return
	}
	want := c16Layout(p)
	if !bytes.Equal(b, want) {
		r.fail(Failure{Oracle: "layout: 9-column 1-based index, up to six space-separated groups of ten, newline", Op: fOp,
			Got: encBytes(b), Want: encBytes(want)})
	}
	if got := seqio.VerifToOriginLength(n); got != len(b) || got != c16ClosedLen(n) {
		r.fail(Failure{Oracle: "toOriginLength(n) is the byte length of the block", Op: fmt.Sprintf("origin.tolen %d", n),
			Got: itoa(got), Want: itoa(c16ClosedLen(n))})
	}
	if got := seqio.VerifFromOriginLength(len(want)); got != n {
		r.fail(Failure{Oracle: "fromOriginLength recovers the residue count from the block's byte length",
			Op: fmt.Sprintf("origin.fromlen %d", len(want)), Got: itoa(got), Want: itoa(n)})
	}
	if s := (seqio.Origin{Buffer: p, Parsed: true}).String(); s != string(b) {
		r.fail(Failure{Oracle: "String() of a parsed origin is the block", Op: "origin.string " + encBytes(p), Got: encStr(s), Want: encBytes(b)})
	}
	bOp := "origin.bytes " + encBytes(b)
	lOp := "origin.len " + encBytes(b)
	switch send {
	case "hex":
		r.op(bOp)
		r.op(lOp)
		r.op(fmt.Sprintf("origin.validate %s %d", encBytes(b), n))
	case "digest":
		r.op(fmt.Sprintf("origin.g.bytes %d %d %d", n, k, s))
		r.op(fmt.Sprintf("origin.g.len %d %d %d", n, k, s))
		r.op(fmt.Sprintf("origin.g.validate %d %d %d", n, k, s))
	}
	var dec []byte
	if recovered(func() { dec = c16Bytes(b) }) {
		r.fail(Failure{Oracle: "Bytes() does not panic on a block", Op: bOp, Got: "PANIC"})
	} else if !bytes.Equal(dec, p) {
		r.fail(Failure{Oracle: "residues -> block -> residues is the identity", Op: bOp, Got: encBytes(dec), Want: encBytes(p)})
	}
	if got := c16Len(b); got != n || got != len(dec) {
		r.fail(Failure{Oracle: "Len() without decoding equals the decoded length", Op: lOp, Got: itoa(got), Want: itoa(n)})
	}
	// one Origin object through its two states: Len, Bytes and String agree before and after
	// the block is decoded (Bytes() switches the object to the decoded state)
	if recovered(func() {
		o := &seqio.Origin{Buffer: append([]byte(nil), b...), Parsed: false}
		l0, s0 := o.Len(), o.String()
		d1 := append([]byte(nil), o.Bytes()...)
		l1, s1 := o.Len(), o.String()
		d2 := append([]byte(nil), o.Bytes()...)
		l2 := o.Len()
		if l0 != n || l1 != n || l2 != n || !bytes.Equal(d1, p) || !bytes.Equal(d2, p) || s0 != string(b) || s1 != string(b) {
			r.fail(Failure{Oracle: "Len / Bytes / String of one Origin agree before and after decoding", Op: lOp,
				Got:  fmt.Sprintf("Len %d, then Bytes (%d residues), Len %d, String equal %v, Bytes again (%d), Len %d", l0, len(d1), l1, s1 == string(b) && s0 == string(b), len(d2), l2),
				Want: fmt.Sprintf("%d residues in every state", n)})
		}
	}) {
		r.fail(Failure{Oracle: "Len / Bytes / String of one Origin do not panic", Op: lOp, Got: "PANIC"})
	}
	var v string
	if recovered(func() { v = c16Validate(b, n) }) || v != "OK" {
		r.fail(Failure{Oracle: "the fast path accepts the block of printable residues", Op: fmt.Sprintf("origin.validate %s %d", encBytes(b), n), Got: v, Want: "OK"})
	}
	// the reader: fast path for LF, slow path for CRLF; both must give back the residues
	for c := 0; c <= 1; c++ {
		in := c16ParseInput(b, c)
		sin := c16SlowInput(b, c)
		pOp := fmt.Sprintf("origin.parse %s %d", encBytes(in), n)
		sOp := fmt.Sprintf("origin.slow %s %d", encBytes(sin), n)
		switch send {
		case "hex":
			r.op(pOp)
			r.op(sOp)
		case "digest":
			r.op(fmt.Sprintf("origin.g.parse %d %d %d %d", n, k, s, c))
			r.op(fmt.Sprintf("origin.g.slow %d %d %d %d", n, k, s, c))
		}
		tail := "//" + c16EOL(c)
		var buf, rest []byte
		var err error
		if recovered(func() { buf, rest, err = c16Parse(in, n) }) || err != nil {
			r.fail(Failure{Oracle: "the reader accepts a written block (c=1: CRLF line ends)", Op: pOp, Got: fmt.Sprint("PANIC or ", err)})
		} else {
			var d []byte
			bad := recovered(func() { d = c16Bytes(buf) })
			if bad || !bytes.Equal(d, p) || string(rest) != tail || c16Len(buf) != n {
				r.fail(Failure{Oracle: "the reader recovers the residues of a written block and stops behind it (c=1: CRLF line ends)", Op: pOp,
					Got: encBytes(buf) + " " + encBytes(rest), Want: encBytes(b) + " " + encStr(tail)})
			}
		}
		var tok []byte
		if recovered(func() { tok, rest, err = c16Slow(sin, n) }) || err != nil {
			r.fail(Failure{Oracle: "the slow path accepts what the fast path accepts (c=1: CRLF line ends)", Op: sOp, Got: fmt.Sprint("PANIC or ", err)})
		} else if !bytes.Equal(tok, b) || string(rest) != tail {
			r.fail(Failure{Oracle: "fast and slow path produce the same block (c=1: CRLF line ends)", Op: sOp,
				Got: encBytes(tok) + " " + encBytes(rest), Want: encBytes(b) + " " + encStr(tail)})
		}
	}
}

// c16Corrupt applies one realistic corruption to an intact block; returns the new block, the
// declared length to read it with, and a label.
func c16Corrupt(r *Run, b0 []byte, n0 int) (out []byte, nn int, label string) {
	defer func() { // a corruption that does not apply to this (already damaged) block: leave it
		if recover() != nil {
			out, nn, label = b0, n0, "unchanged"
		}
	}()
	b, n := append([]byte(nil), b0...), n0
	lines := bytes.SplitAfter(b, []byte("\n"))
	if len(lines) > 0 && len(lines[len(lines)-1]) == 0 {
		lines = lines[:len(lines)-1]
	}
	pickLine := func() int {
		if len(lines) == 0 {
			return -1
		}
		if r.rng.intn(3) == 0 {
			return len(lines) - 1
		}
		return r.rng.intn(len(lines))
	}
	join := func() []byte { return bytes.Join(lines, nil) }
	base := []byte("acgtnACGT*-09")
	li := pickLine()
	kind := r.rng.intn(14)
	if li < 0 && kind < 10 {
		kind = 10 + r.rng.intn(4)
	}
	switch kind {
	case 0: // wrong index digit
		l := lines[li]
		l[8] = byte('0' + (int(l[8]-'0')+1+r.rng.intn(9))%10)
		return join(), n, "wrong-index-digit"
	case 1: // index shifted by one column
		l := lines[li]
		if r.rng.bool() {
			lines[li] = append([]byte(" "), l...)
		} else {
			lines[li] = l[1:]
		}
		return join(), n, "index-shifted"
	case 2: // group separator missing / replaced
		l := lines[li]
		var sp []int
		for i := 9; i < len(l); i++ {
			if l[i] == ' ' {
				sp = append(sp, i)
			}
		}
		i := sp[r.rng.intn(len(sp))]
		if r.rng.bool() {
			lines[li] = append(append([]byte(nil), l[:i]...), l[i+1:]...)
			return join(), n, "space-deleted"
		}
		l[i] = base[r.rng.intn(len(base))]
		return join(), n, "space-replaced"
	case 3: // extra residue inside a line
		l := lines[li]
		i := r.rng.rangeInt(10, len(l)-1)
		lines[li] = append(append(append([]byte(nil), l[:i]...), base[r.rng.intn(len(base))]), l[i:]...)
		return join(), n, "extra-residue"
	case 4: // trailing characters at the end of a line
		l := lines[li]
		extra := []string{"a", "acgt", " acgtacgta", " ", "  ", "\t", "a a"}[r.rng.intn(7)]
		lines[li] = append(append(append([]byte(nil), l[:len(l)-1]...), []byte(extra)...), '\n')
		return join(), n, "trailing-characters"
	case 5: // residue missing
		l := lines[li]
		var rs []int
		for i := 10; i < len(l)-1; i++ {
			if l[i] != ' ' {
				rs = append(rs, i)
			}
		}
		i := rs[r.rng.intn(len(rs))]
		lines[li] = append(append([]byte(nil), l[:i]...), l[i+1:]...)
		return join(), n, "residue-missing"
	case 6: // not a residue character
		l := lines[li]
		i := r.rng.rangeInt(10, len(l)-2)
		l[i] = []byte{' ', '\t', 0x7f, 0x80, 0, '\r', '\n'}[r.rng.intn(7)]
		return join(), n, "non-residue-byte"
	case 7: // truncated block
		return b[:r.rng.intn(len(b))], n, "truncated"
	case 8: // final newline missing
		return b[:len(b)-1], n, "final-newline-missing"
	case 9: // one line with CRLF, the others LF
		l := lines[li]
		lines[li] = append(append([]byte(nil), l[:len(l)-1]...), '\r', '\n')
		return join(), n, "mixed-line-ends"
	case 10: // declared length differs from the block
		d := []int{-60, -10, -1, 1, 10, 60}[r.rng.intn(6)]
		if n+d < 0 {
			d = 1
		}
		return b, n + d, "declared-length-differs"
	case 11: // an extra line
		return append(b, []byte(fmt.Sprintf("%9d acgt\n", n+1))...), n, "extra-line"
	case 12: // a blank line in front
		return append([]byte("\n"), b...), n, "leading-blank-line"
	default: // line dropped
		if li < 0 {
			return []byte("        1 a\n"), n, "block-for-empty"
		}
		lines = append(lines[:li], lines[li+1:]...)
		return join(), n, "line-dropped"
	}
}

// c16Damaged: the validators on a damaged block; fast and slow must accept the same blocks and,
// where both accept, yield the same residues.
func c16Damaged(r *Run, b []byte, n int, label string) {
	r.count("damaged/" + label)
	in := append(append([]byte("ORIGIN      \n"), b...), []byte("//\n")...)
	st := in[13:] // what both paths of the reader see: the block followed by the record terminator
	vOp := fmt.Sprintf("origin.validate %s %d", encBytes(b), n)
	sOp := fmt.Sprintf("origin.slow %s %d", encBytes(st), n)
	pOp := fmt.Sprintf("origin.parse %s %d", encBytes(in), n)
	r.op(vOp)
	r.op(fmt.Sprintf("origin.slow %s %d", encBytes(b), n))
	so := r.op(sOp)
	po := r.op(pOp)
	r.op("origin.bytes " + encBytes(b))
	r.op("origin.len " + encBytes(b))
	r.eval("d|"+encBytes(b)+"|"+itoa(n), true)

	size := seqio.VerifToOriginLength(n)
	if size < 0 || len(st) < size {
		// the reader gives up before either path runs ("not enough bytes in state")
		r.count("damaged/too-short-for-either-path")
		if po != "ERR" {
			r.fail(Failure{Oracle: "the reader rejects input shorter than the declared block", Op: pOp, Got: po, Want: "ERR"})
		}
		return
	}
	fast := fastOn(st, n)
	var tok, rest []byte
	var err error
	slow := !recovered(func() { tok, rest, err = c16Slow(st, n) }) && err == nil
	lf := !bytes.Contains(b, []byte("\r"))
	blanks := bytes.Contains(st, []byte(" \n"))
	r.count(fmt.Sprintf("damaged/lf=%v,fast=%v,slow=%v", lf, fast, slow))
	if so == "PANIC" {
		r.fail(Failure{Oracle: "the slow path never panics", Op: sOp, Got: so})
	}
	switch {
	case fast && !slow:
		r.fail(Failure{Oracle: "fast and slow path accept the same blocks (fast accepts, slow rejects)", Op: vOp + " ; " + sOp, Got: "OK ; " + so})
	case slow && !fast && lf && !blanks:
		// (blocks with CR take the slow path by design, and only the slow path tolerates blanks
		// behind the residues of a line: no claim that the fast path accepts those)
		r.fail(Failure{Oracle: "fast and slow path accept the same LF blocks without trailing blanks (slow accepts, fast rejects)", Op: vOp + " ; " + sOp, Got: "ERR ; " + so})
	case slow && !fast && lf:
		r.count("damaged/trailing-blanks-accepted-by-slow-path-only")
	case fast && slow:
		var d1, d2 []byte
		if recovered(func() { d1 = c16Bytes(st[:size]); d2 = c16Bytes(tok) }) || !bytes.Equal(d1, d2) {
			r.fail(Failure{Oracle: "fast and slow path produce the same residues", Op: sOp, Got: encBytes(d2), Want: encBytes(d1)})
		}
	}
	// the combined reader accepts iff one of its two paths does and no further sequence line follows
	if fast {
		rest = st[size:]
	}
	want := (fast || slow) && !(len(rest) > 0 && rest[0] == ' ')
	if po == "PANIC" {
		r.fail(Failure{Oracle: "the reader never panics", Op: pOp, Got: po})
	} else if (po != "ERR") != want {
		r.fail(Failure{Oracle: "the reader accepts exactly what its fast or slow path accepts, unless a further sequence line follows", Op: pOp, Got: po})
	} else if want {
		// whatever the reader accepts decodes to exactly the declared number of residues
		buf, _, _ := c16Parse(in, n)
		var d []byte
		if recovered(func() { d = c16Bytes(buf) }) || len(d) != n || c16Len(buf) != n {
			r.fail(Failure{Oracle: "an accepted block decodes to the declared number of residues", Op: pOp, Got: po, Want: itoa(n)})
		}
	}
}

// fastOn: the fast path as the reader uses it (on exactly toOriginLength(n) requested bytes)
func fastOn(st []byte, n int) bool {
	size := seqio.VerifToOriginLength(n)
	ok := false
	if size >= 0 && len(st) >= size {
		recovered(func() { ok = seqio.VerifValidateOrigin(st[:size], n) == nil })
	}
	return ok
}

func slowOn(in []byte, n int) bool {
	var err error
	return !recovered(func() { _, _, err = c16Slow(in, n) }) && err == nil
}

// c16Mismatch: an intact block of m residues read with a declared length n != m must be an error
// of the reader and of the public scanner — never a shortened, padded or empty sequence, never a
// panic — whether the record is the last one or is followed by another record.
func c16Mismatch(r *Run, m, n, k, s int) {
	p := c16Gen(m, k, s)
	blk := seqio.NewOrigin(p).Buffer
	next := c16Record(7, seqio.NewOrigin([]byte("acgtacg")).Buffer)
	for _, followed := range []bool{false, true} {
		tail := []byte("//\n")
		if followed {
			tail = append(tail, next...)
		}
		in := append(append([]byte("ORIGIN      \n"), blk...), tail...)
		pOp := fmt.Sprintf("origin.parse %s %d", encBytes(in), n)
		po := r.op(pOp)
		r.count(fmt.Sprintf("mismatch/declared%s,followed=%v", map[bool]string{true: "<present", false: ">present"}[n < m], followed))
		r.eval(fmt.Sprintf("m|%d|%d|%d|%v", m, n, k, followed), true)
		if po != "ERR" {
			r.fail(Failure{Oracle: "the reader rejects a block whose residue count differs from the declared length", Op: pOp, Got: po, Want: "ERR"})
		}
		rec := c16Record(n, blk)
		if followed {
			rec = append(rec, next...)
		}
		scOp := "origin.scan " + encBytes(rec)
		var seqs [][]byte
		var err error
		if recovered(func() { seqs, err = c16Scan(rec) }) {
			r.fail(Failure{Oracle: "the scanner does not panic on a record whose ORIGIN differs from the declared length", Op: scOp, Got: "PANIC", Want: "ERR"})
		} else if err == nil || len(seqs) != 0 {
			r.fail(Failure{Oracle: "the scanner reports an error for a record whose ORIGIN differs from the declared length (no shortened or empty sequence)", Op: scOp, Got: execOp(scOp), Want: "ERR"})
		}
	}
}

// c16Blanks: blanks behind the residues of a line are tolerated (files in the wild have them);
// the residues read are unchanged.
func c16Blanks(r *Run, m, k, s int) {
	p := c16Gen(m, k, s)
	lines := bytes.SplitAfter(seqio.NewOrigin(p).Buffer, []byte("\n"))
	var blk []byte
	for _, l := range lines {
		if len(l) > 0 && r.rng.intn(2) == 0 {
			l = append(append(append([]byte(nil), l[:len(l)-1]...), bytes.Repeat([]byte(" "), 1+r.rng.intn(3))...), '\n')
		}
		blk = append(blk, l...)
	}
	in := append(append([]byte("ORIGIN      \n"), blk...), []byte("//\n")...)
	pOp := fmt.Sprintf("origin.parse %s %d", encBytes(in), m)
	po := r.op(pOp)
	r.op(fmt.Sprintf("origin.slow %s %d", encBytes(in[13:]), m))
	r.count("trailing-blanks")
	r.eval(fmt.Sprintf("b|%d|%d|%d", m, k, s), m > 0)
	buf, _, err := c16Parse(in, m)
	var d []byte
	if err != nil || recovered(func() { d = c16Bytes(buf) }) || !bytes.Equal(d, p) {
		r.fail(Failure{Oracle: "blanks behind the residues of a line are accepted and the residues are unchanged", Op: pOp, Got: po})
	}
	rec := c16Record(m, blk)
	seqs, err := c16Scan(rec)
	if err != nil || len(seqs) != 1 || !bytes.Equal(seqs[0], p) {
		r.fail(Failure{Oracle: "the scanner reads a record whose ORIGIN lines carry trailing blanks", Op: "origin.scan " + encBytes(rec), Got: execOp("origin.scan " + encBytes(rec)), Want: encBytes(p)})
	}
}

func propC16(r *Run) {
	nArith, nHex, nDigest, nFar, nDamaged := 3000, 400, 3000, 0, 2500
	if r.tier == "thorough" {
		nArith, nHex, nDigest, nFar, nDamaged = 20000, 1000, 3000, 160, 12000
	}
	r.exhaustive = true
	seed := r.rng.intn(1 << 20)
	c16More(r)

	// 1. closed-form arithmetic, every length (plus a few huge and negative arguments: pure int code)
	for n := 0; n <= nArith; n++ {
		t := r.op(fmt.Sprintf("origin.tolen %d", n))
		f := r.op(fmt.Sprintf("origin.fromlen %d", n))
		r.op("origin.fromlen " + t)
		r.op("origin.tolen " + f)
		r.eval(fmt.Sprintf("a|%d", n), true)
		if back := seqio.VerifFromOriginLength(seqio.VerifToOriginLength(n)); back != n {
			r.fail(Failure{Oracle: "fromOriginLength(toOriginLength(n)) = n", Op: fmt.Sprintf("origin.tolen %d", n), Got: t + " -> " + itoa(back), Want: itoa(n)})
		}
		if seqio.VerifToOriginLength(n) != c16ClosedLen(n) {
			r.fail(Failure{Oracle: "toOriginLength(n) is the byte length of the layout", Op: fmt.Sprintf("origin.tolen %d", n), Got: t, Want: itoa(c16ClosedLen(n))})
		}
	}
	for _, n := range []int{-61, -60, -11, -10, -1, 999999960, 999999961, 1000000020, 1000000021, 1 << 40, 1<<62 + 59} {
		r.op(fmt.Sprintf("origin.tolen %d", n))
		r.op(fmt.Sprintf("origin.fromlen %d", n))
	}
	r.count(fmt.Sprintf("arithmetic/lengths0..%d", nArith))

	// 2. every clause on the real code for every length; model correspondence with full hex
	//    traffic on the small scope, with generated inputs and digests on the whole range
	for n := 0; n <= nArith; n++ {
		k := n % len(c16Alphabets)
		switch {
		case n <= nHex:
			c16Intact(r, n, k, seed+n, "hex")
			if n <= 130 {
				for kk := range c16Alphabets {
					if kk != k {
						c16Intact(r, n, kk, seed+n, "hex")
					}
				}
			}
			c16Intact(r, n, (k+1)%len(c16Alphabets), seed+n, "digest")
		case n <= nDigest:
			c16Intact(r, n, k, seed+n, "digest")
		default:
			c16Intact(r, n, k, seed+n, "none")
		}
	}
	// beyond nDigest the model's (quadratic) formatter is run on a boundary-biased sample
	for t := 0; t < nFar; t++ {
		n := r.rng.rangeInt(nDigest+1, nArith)
		if t%2 == 0 {
			n = n/60*60 + []int{-1, 0, 1, 9, 10, 11, 59}[r.rng.intn(7)]
		}
		c16Intact(r, minInt(n, nArith), r.rng.intn(len(c16Alphabets)), seed+t, "digest")
	}
	r.notes = append(r.notes, fmt.Sprintf("exhaustive: arithmetic and every oracle clause on the real code for all lengths 0..%d; model correspondence of formatter/decoder/validators/readers (LF and CRLF) with full bytes for 0..%d (all 6 alphabets up to 130) and by digest for 0..%d, %d sampled lengths above", nArith, nHex, nDigest, nFar))

	// 3. arbitrary buffers through Bytes/Len (lengths that are not block sizes included)
	for L := 0; L <= 400; L++ {
		buf := c16Gen(L, 4, seed+L)
		r.op("origin.bytes " + encBytes(buf))
		r.op("origin.len " + encBytes(buf))
		r.count("raw-buffer")
	}

	// 4. damaged blocks through both validators and the reader
	for t := 0; t < nDamaged; t++ {
		var n int
		switch r.rng.intn(4) {
		case 0:
			n = r.rng.intn(13)
		case 1:
			n = 60*r.rng.intn(5) + []int{0, 1, 9, 10, 11, 59}[r.rng.intn(6)]
		default:
			n = r.rng.intn(260)
		}
		if t%50 == 49 {
			n = r.rng.rangeInt(900, 2200) // four-digit indices
		}
		k := r.rng.intn(len(c16Alphabets))
		var blk []byte
		if recovered(func() { blk = seqio.NewOrigin(c16Gen(n, k, seed+t)).Buffer }) {
			r.count("damaged/skipped-NewOrigin-panics")
			continue
		}
		b, nn, label := c16Corrupt(r, blk, n)
		if r.rng.intn(5) == 0 { // a second, independent corruption
			var l2 string
			b, nn, l2 = c16Corrupt(r, b, nn)
			_ = l2
			label = "two-corruptions"
		}
		c16Damaged(r, b, nn, label)
		if t < 6 {
			r.sample(fmt.Sprintf("origin.slow %s %d", encBytes(b), nn))
		}
	}
	// every byte of the 9-column index of every line replaced by a non-blank / a digit / a TAB
	// (seeded change C16-j: the fast path never looked at column 1)
	for _, n := range []int{1, 61, 130} {
		blk := seqio.NewOrigin(c16Gen(n, 0, seed+n)).Buffer
		for off := 0; off < len(blk); {
			end := off + bytes.IndexByte(blk[off:], '\n') + 1
			for col := 0; col < 9 && off+col < end; col++ {
				for _, c := range []byte{'x', '0', '7', '\t'} {
					if blk[off+col] == c {
						continue
					}
					b := append([]byte(nil), blk...)
					b[off+col] = c
					c16Damaged(r, b, n, "index-column-byte")
				}
			}
			off = end
		}
	}
	// the witness shapes of the repaired defect F10, always
	c16Damaged(r, []byte("        1 ab\n"), 1, "trailing-characters")
	c16Damaged(r, []byte("        1 ab"), 1, "trailing-characters")
	c16Damaged(r, []byte("        1 acgtacgtac gt\n"), 10, "trailing-characters")
	c16Damaged(r, []byte("        1 a  \n"), 1, "trailing-characters")

	// 5. declared length versus residues present, at the reader and at the public scanner
	mMax := 130
	if r.tier == "thorough" {
		mMax = 400
	}
	for m := 0; m <= mMax; m++ {
		for _, d := range []int{-61, -60, -59, -11, -10, -9, -1, 1, 9, 10, 11, 59, 60, 61} {
			if n := m + d; n >= 0 {
				c16Mismatch(r, m, n, m%len(c16Alphabets), seed+m)
			}
		}
		if m > 0 {
			c16Mismatch(r, m, 0, m%len(c16Alphabets), seed+m)
		}
		c16Blanks(r, m, m%len(c16Alphabets), seed+m)
		// sanity of the record builder: the intact record scans to its residues
		p := c16Gen(m, m%len(c16Alphabets), seed+m)
		rec := c16Record(m, seqio.NewOrigin(p).Buffer)
		if seqs, err := c16Scan(rec); err != nil || len(seqs) != 1 || !bytes.Equal(seqs[0], p) {
			r.fail(Failure{Oracle: "the scanner reads back a minimal record around a written block", Op: "origin.scan " + encBytes(rec), Got: execOp("origin.scan " + encBytes(rec)), Want: encBytes(p)})
		}
	}
	for t := 0; t < mMax; t++ { // several-line blocks with four-digit indices
		m := r.rng.rangeInt(900, 1500)
		n := m + []int{-600, -61, -60, -1, 1, 60, 61, 600}[r.rng.intn(8)]
		c16Mismatch(r, m, n, r.rng.intn(len(c16Alphabets)), seed+t)
	}
}
