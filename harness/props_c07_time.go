package main

// C07, TIME, second part: input FAMILIES on which the scan time of the GenBank reader is NOT
// proportional to the input (findings K7D … K7H, found with the cost-counting reading of the model,
// Gts/Lemmas/GbCost.lean, and by measurement; K7D, K7E and K7F are repaired — a4b3f5d / F38, 2612fae / F39, 8a8d8a1 / F40 — and
// their families stay as regression tests).
//
// Every family is generated in two sizes, n and 4n (input sizes in the ratio 1:4), and judged by the
// rule of the time oracle above: with t(n) the minimum CPU time (of the scanning thread) of three
// scans of the small input, a scan of the large input has to finish within 8·t(n) + 50 ms.  A
// quadratic scan needs about 16·t(n).  To keep the check short a large scan that takes 12·t(n) or
// more ends the comparison at once (CPU time does not grow by half under load); one between the
// limit and 12·t(n) is repeated, up to three scans in each of up to three rounds.
//
// The replayable op `time.family <name> <n>` regenerates both inputs and answers LINEAR,
// SUPERLINEAR, SKIPPED (t(n) below 1 ms) or HANG: it is the witness of the findings in
// known_findings.json — an answer that differs between the quadratic and a linear behaviour only in
// time — and the `op` of the oracle's failures.  `time.measure <name> <n>` answers the two times.

import (
	"bytes"
	"fmt"
	"strconv"
	"strings"
	"time"

	"github.com/go-gts/gts/seqio"
	"github.com/go-pars/pars"
)

type timeFamily struct {
	name    string
	finding string // id in known_findings.json while the defect is not repaired
	n       int    // size parameter of the small input
	gen     func(n int) []byte
}

const famHead = "LOCUS       X                  4 bp    DNA     linear   UNA 01-JAN-2000\n"
const famTail = "ORIGIN      \n        1 acgt\n//\n"
const famFeat = "FEATURES             Location/Qualifiers\n"

var c07TimeFamilies = []timeFamily{
	// F38 (was K7D, repaired in a4b3f5d: no finding any more, SUPERLINEAR here is a violation): n CONTIG
	// lines and no colon behind them: pars.Until(':') scanned to the end of the input on every line, then
	// the line was kept as an unknown field.  An ACCEPTED record.
	{"contig-no-colon", "", 1600, func(n int) []byte { // 1600: the repaired scan of 800 lines takes 2 ms, near the 1 ms below which nothing is compared
		return []byte(famHead + strings.Repeat("CONTIG      join(x\n", n) + famTail)
	}},
	// F39 (was K7E, repaired by 2612fae: finding "" = a super-linear verdict is a plain failure, and the
	// witness of the fixed entry says "a repaired defect is back"): one quoted qualifier value with n
	// continuation lines: the prefix loop of quotedQualifierParser ran bytes.Index from the start of the
	// token and copied the tail, once per line; now one pass over the token
	{"quoted-continuation-lines", "", 7000, func(n int) []byte {
		ind := strings.Repeat(" ", 21)
		return []byte(famHead + famFeat + "     gene            1..2\n" + ind + "/note=\"a\n" +
			strings.Repeat(ind+"a\n", n) + ind + "a\"\n" + famTail)
	}},
	// F40 (was K7F, repaired by 8a8d8a1: no finding any more): a key line with join(1,3,5,…) of n points:
	// Join pushed every part at the head of its LocationList (Push walks to the end first) and
	// LocationList.Slice copied the tail once per cell; both walk the list once now
	{"join-of-points", "", 4000, func(n int) []byte { // 4000: the repaired scan of 2000 points takes 2 ms, near the 1 ms below which nothing is compared
		var b bytes.Buffer
		b.WriteString(famHead + famFeat + "     gene            join(1")
		for i := 1; i < n; i++ {
			b.WriteString(",")
			b.WriteString(strconv.Itoa(2*i + 1))
		}
		b.WriteString(")\n" + famTail)
		return b.Bytes()
	}},
	// K7G: one feature with n qualifiers of distinct unknown names (each one learned)
	{"distinct-unknown-qualifiers", "K7G", 2500, func(n int) []byte {
		var b bytes.Buffer
		b.WriteString(famHead + famFeat + "     gene            1..2\n")
		ind := strings.Repeat(" ", 21)
		for i := 0; i < n; i++ {
			b.WriteString(ind + "/q" + strconv.Itoa(i) + "=1\n")
		}
		b.WriteString(famTail)
		return b.Bytes()
	}},
	// K7H: one DBLINK field of n lines with distinct database names (Dictionary.Set searches linearly)
	{"dblink-lines", "K7H", 5000, func(n int) []byte {
		var b bytes.Buffer
		db := strings.Repeat("a", 40) // equal length, long common prefix: every comparison of the search reads it
		b.WriteString(famHead + "DBLINK      " + db + "000000: b\n")
		ind := strings.Repeat(" ", 12)
		for i := 1; i < n; i++ {
			b.WriteString(ind + db + fmt.Sprintf("%06d", i) + ": b\n")
		}
		b.WriteString(famTail)
		return b.Bytes()
	}},
	// one feature with n values under ONE qualifier name (a gene with thousands of /db_xref): linear on
	// the unchanged tree — Props.Add appends to the row in place; no finding (seeded change W16-2: Add
	// copying the row for every value)
	{"repeated-qualifier-values", "", 8000, func(n int) []byte {
		var b bytes.Buffer
		b.WriteString(famHead + famFeat + "     gene            1..2\n")
		ind := strings.Repeat(" ", 21)
		for i := 0; i < n; i++ {
			b.WriteString(ind + "/db_xref=\"DB:" + strconv.Itoa(i) + "\"\n")
		}
		b.WriteString(famTail)
		return b.Bytes()
	}},
	// n features with the same key, location and qualifiers (a table of duplicates): linear today
	{"duplicate-features", "", 4000, func(n int) []byte {
		var b bytes.Buffer
		b.WriteString(famHead + famFeat)
		ind := strings.Repeat(" ", 21)
		for i := 0; i < n; i++ {
			b.WriteString("     gene            1..2\n" + ind + "/gene=\"a\"\n")
		}
		b.WriteString(famTail)
		return b.Bytes()
	}},
}

func c07Family(name string) (timeFamily, bool) {
	for _, f := range c07TimeFamilies {
		if f.name == name {
			return f, true
		}
	}
	return timeFamily{}, false
}

type famResult struct {
	state          string // linear | superlinear | skipped | HANG
	t1, t4, limit  time.Duration
	v1, v4         string
	nSmall, nLarge int
	finished4      bool
	rounds         int
}

// c07FamilyMeasure: the comparison described at the top of this file
func c07FamilyMeasure(f timeFamily, n int) (res famResult) {
	small, big := f.gen(n), f.gen(4*n)
	res.nSmall, res.nLarge = len(small), len(big)
	for round := 0; round < 3; round++ {
		res.rounds = round + 1
		t1, ok, v1 := c07ScanTime(small, 3, 20*time.Second, 0)
		res.t1, res.v1 = t1, v1
		if !ok {
			res.state = "HANG"
			return
		}
		if t1 < time.Millisecond {
			res.state = "skipped"
			return
		}
		res.limit = 8*t1 + 50*time.Millisecond
		wall := 40*t1 + 20*time.Second
		clearly := 12 * t1
		res.state = "superlinear"
		for i := 0; i < 3; i++ {
			t4, ok4, v4 := c07ScanTime(big, 1, wall, 0)
			if !ok4 {
				res.finished4 = false
				return // not finished within 40·t(n) + 20 s of wall time
			}
			if !res.finished4 || t4 < res.t4 {
				res.t4, res.v4 = t4, v4
			}
			res.finished4 = true
			if t4 <= res.limit {
				res.state = "linear"
				return
			}
			if t4 >= clearly {
				return
			}
		}
	}
	return
}

func (x famResult) answer() string {
	switch x.state {
	case "linear":
		return "LINEAR"
	case "superlinear":
		return "SUPERLINEAR"
	case "skipped":
		return "SKIPPED"
	}
	return "HANG"
}

func init() {
	extraOps["time.family"] = func(a []sexp) string {
		f, ok := c07Family(a[0].atom)
		if !ok {
			return "BAD-OP"
		}
		return c07FamilyMeasure(f, decInt(a[1])).answer()
	}
	extraOps["qual.empty"] = func(a []sexp) string { return qualEmpty(decBytes(a[0])) }
	extraOps["time.measure"] = func(a []sexp) string {
		f, ok := c07Family(a[0].atom)
		if !ok {
			return "BAD-OP"
		}
		x := c07FamilyMeasure(f, decInt(a[1]))
		ratio := 0.0
		if x.t1 > 0 {
			ratio = float64(x.t4) / float64(x.t1)
		}
		return fmt.Sprintf("%s %d bytes %s (%s), %d bytes %s (%s), ratio %.1f, limit %s, rounds %d", x.answer(),
			x.nSmall, x.t1, x.v1, x.nLarge, x.t4, x.v4, ratio, x.limit, x.rounds)
	}
}

// qualEmpty: the exported seqio.QualifierParser("") on `/note="<value>"` (guarded: before 2612fae the
// loop of quotedQualifierParser did not end when the value held a line feed).  Since the repair the
// loop is one counted pass and the value comes back as it is (Gts.C07.stripCont_empty_prefix).
func qualEmpty(value []byte) string {
	return guarded(func() string {
		in := append(append([]byte("/note=\""), value...), '"', '\n')
		state := pars.FromBytes(in)
		res, err := seqio.QualifierParser("").Parse(state)
		if err != nil {
			return "ERR"
		}
		q := res.Value.(seqio.QualifierIO)
		return encBytes([]byte(q[1]))
	})
}

func (c *c07Ctx) quotedEmptyPrefix() {
	r := c.r
	for _, v := range []string{"", "a", "\n", "a\nb", "a\n\nb\n", "\n\n\n", "ab\n                     cd\n", strings.Repeat("x\n", 500)} {
		line := "qual.empty " + encBytes([]byte(v))
		crumb(line)
		got := qualEmpty([]byte(v))
		r.count("qualifier/empty-prefix/" + map[bool]string{true: "same", false: "other"}[got == encBytes([]byte(v))])
		r.eval("qual.empty|"+v, true)
		if got != encBytes([]byte(v)) {
			r.fail(Failure{Oracle: "QualifierParser(\"\") returns a quoted value as it is and never hangs (empty continuation prefix)",
				Op: line, Got: got, Want: encBytes([]byte(v))})
		}
	}
}

func (c *c07Ctx) timeFamilies() {
	r := c.r
	for _, f := range c07TimeFamilies {
		line := fmt.Sprintf("time.family %s %d", f.name, f.n)
		crumb(line)
		x := c07FamilyMeasure(f, f.n)
		key := "time|family|" + f.name
		oracle := "scan time grows linearly with the input (family " + f.name + ")"
		r.count("time/family/" + f.name + "/" + x.state)
		if x.state == "skipped" {
			r.notes = append(r.notes, fmt.Sprintf("time family %s: %d bytes in %s: below 1 ms, not compared", f.name, x.nSmall, x.t1))
			continue
		}
		r.eval(key, true)
		switch x.state {
		case "linear":
			r.notes = append(r.notes, fmt.Sprintf("time family %s: %d bytes in %s, %d bytes in %s (limit %s, round %d)", f.name, x.nSmall, x.t1, x.nLarge, x.t4, x.limit, x.rounds))
		case "HANG":
			r.fail(Failure{Oracle: oracle, Op: line, Got: fmt.Sprintf("the scan of %d bytes did not finish within 20 s", x.nSmall), Want: "a scan that ends", Finding: f.finding})
		default:
			got := fmt.Sprintf("%d bytes: %s (%s); %d bytes: ", x.nSmall, x.t1, x.v1, x.nLarge)
			if x.finished4 {
				got += fmt.Sprintf("%s (%s), %.1f times as long", x.t4, x.v4, float64(x.t4)/float64(x.t1))
			} else {
				got += "not finished"
			}
			want := fmt.Sprintf("at most 8 x %s + 50 ms = %s for four times the input (CPU time of the scanning thread)", x.t1, x.limit)
			r.notes = append(r.notes, fmt.Sprintf("time family %s (%s): %s", f.name, f.finding, got))
			r.fail(Failure{Oracle: oracle, Op: line, Got: got, Want: want, Finding: f.finding})
		}
	}
}
