package main

import (
	"fmt"
	"strings"

	"github.com/go-gts/gts"
)

// Go re-statement of Gts/Spec (the *meaning* side used by the oracles).  It is
// kept in step with the Lean definitions by the protocol ops `spec.*`, which
// both sides answer.

type pos struct {
	x   int
	rev bool
}

// den: the ordered, stranded list of residues a location denotes.
func den(l gts.Location) []pos {
	switch v := l.(type) {
	case gts.Between:
		return nil
	case gts.Point:
		return []pos{{int(v), false}}
	case gts.Ranged:
		out := make([]pos, 0, maxInt(0, v.End-v.Start))
		for x := v.Start; x < v.End; x++ {
			out = append(out, pos{x, false})
		}
		return out
	case gts.Ambiguous:
		out := make([]pos, 0, maxInt(0, v.End-v.Start))
		for x := v.Start; x < v.End; x++ {
			out = append(out, pos{x, false})
		}
		return out
	case gts.Joined:
		var out []pos
		for _, u := range v {
			out = append(out, den(u)...)
		}
		return out
	case gts.Ordered:
		var out []pos
		for _, u := range v {
			out = append(out, den(u)...)
		}
		return out
	case gts.Complemented:
		in := den(v.Location)
		out := make([]pos, len(in))
		for i, p := range in {
			out[len(in)-1-i] = pos{p.x, !p.rev}
		}
		return out
	}
	panic(fmt.Sprintf("den: unknown location %T", l))
}

// embedDen restates Gts.Loc.embedDen (lean/Gts/Lemmas/EmbedExact.lean): what Expand(i, n), n >= 0, has to
// denote WITHOUT stripping the guest — per interval leaf [s, e): s < i < e -> left part, guest block
// [i, i+n), right part translated by n; otherwise the insert image (a leaf ending at i stays, one starting
// at i moves as a whole); concatenated through join / order, read backwards under complement.
func embedDen(l gts.Location, i, n int) []pos {
	seg := func(s, e int) []pos {
		var out []pos
		if s < i && i < e {
			for x := s; x < i; x++ {
				out = append(out, pos{x, false})
			}
			for x := i; x < i+n; x++ {
				out = append(out, pos{x, false})
			}
			for x := i + n; x < e+n; x++ {
				out = append(out, pos{x, false})
			}
			return out
		}
		for x := s; x < e; x++ {
			y, _ := insMap(i, n)(x)
			out = append(out, pos{y, false})
		}
		return out
	}
	switch v := l.(type) {
	case gts.Between:
		return nil
	case gts.Point:
		y, _ := insMap(i, n)(int(v))
		return []pos{{y, false}}
	case gts.Ranged:
		return seg(v.Start, v.End)
	case gts.Ambiguous:
		return seg(v.Start, v.End)
	case gts.Joined:
		var out []pos
		for _, u := range v {
			out = append(out, embedDen(u, i, n)...)
		}
		return out
	case gts.Ordered:
		var out []pos
		for _, u := range v {
			out = append(out, embedDen(u, i, n)...)
		}
		return out
	case gts.Complemented:
		in := embedDen(v.Location, i, n)
		out := make([]pos, len(in))
		for k, p := range in {
			out[len(in)-1-k] = pos{p.x, !p.rev}
		}
		return out
	}
	panic(fmt.Sprintf("embedDen: unknown location %T", l))
}

func denStr(d []pos) string {
	b := strings.Builder{}
	for i, p := range d {
		if i > 0 {
			b.WriteByte(' ')
		}
		if p.rev {
			b.WriteByte('-')
		}
		b.WriteString(itoa(p.x))
	}
	return "[" + b.String() + "]"
}

func nodup(d []pos) bool {
	seen := map[pos]bool{}
	for _, p := range d {
		if seen[p] {
			return false
		}
		seen[p] = true
	}
	return true
}

func eqDen(a, b []pos) bool {
	if len(a) != len(b) {
		return false
	}
	for i := range a {
		if a[i] != b[i] {
			return false
		}
	}
	return true
}

// refines(a, b): a is a subsequence of b and every element of b occurs in a
// ("same set, same order": a is b with some duplicate occurrences dropped).
func refines(a, b []pos) bool {
	i := 0
	for _, p := range b {
		if i < len(a) && a[i] == p {
			i++
		}
	}
	if i != len(a) {
		return false
	}
	set := map[pos]bool{}
	for _, p := range a {
		set[p] = true
	}
	for _, p := range b {
		if !set[p] {
			return false
		}
	}
	return true
}

// sameMeaning: refines, and equality when b has no duplicate.
func sameMeaning(got, want []pos) bool {
	if nodup(want) {
		return eqDen(got, want)
	}
	return refines(got, want)
}

func mapDen(d []pos, f func(int) (int, bool)) []pos {
	out := make([]pos, 0, len(d))
	for _, p := range d {
		if y, ok := f(p.x); ok {
			out = append(out, pos{y, p.rev})
		}
	}
	return out
}

func insMap(i, n int) func(int) (int, bool) {
	return func(x int) (int, bool) {
		if x < i {
			return x, true
		}
		return x + n, true
	}
}

func delMap(i, k int) func(int) (int, bool) {
	return func(x int) (int, bool) {
		switch {
		case x < i:
			return x, true
		case x < i+k:
			return 0, false
		default:
			return x - k, true
		}
	}
}

func rotMap(n, L int) func(int) (int, bool) {
	return func(x int) (int, bool) { return ((x+n)%L + L) % L, true }
}

func mirrorMap(L int) func(int) (int, bool) {
	return func(x int) (int, bool) { return L - 1 - x, true }
}

// leaves in list order (complement does not reorder here: coordinate view)
func leaves(l gts.Location) []gts.Location {
	switch v := l.(type) {
	case gts.Joined:
		var out []gts.Location
		for _, u := range v {
			out = append(out, leaves(u)...)
		}
		return out
	case gts.Ordered:
		var out []gts.Location
		for _, u := range v {
			out = append(out, leaves(u)...)
		}
		return out
	case gts.Complemented:
		return leaves(v.Location)
	default:
		return []gts.Location{l}
	}
}

// dleaf: a leaf in reading (denotation) order; rev = on the complement strand.
type dleaf struct {
	l   gts.Location
	rev bool
}

// denLeaves: the leaves in the order in which their residues are read.
func denLeaves(l gts.Location) []dleaf {
	switch v := l.(type) {
	case gts.Joined:
		var out []dleaf
		for _, u := range v {
			out = append(out, denLeaves(u)...)
		}
		return out
	case gts.Ordered:
		var out []dleaf
		for _, u := range v {
			out = append(out, denLeaves(u)...)
		}
		return out
	case gts.Complemented:
		in := denLeaves(v.Location)
		out := make([]dleaf, len(in))
		for i, d := range in {
			out[len(in)-1-i] = dleaf{d.l, !d.rev}
		}
		return out
	default:
		return []dleaf{{l, false}}
	}
}

// leafLen: the length of a contiguous leaf, read off its own fields the way Gts.Loc.len states it (a
// between-site 0, a point 1, a range End - Start, an ambiguous span 1: Gts.Loc.bears of Spec/Marks.lean
// notes `Ambiguous.Len() = 1`) — NOT the leaf's Len() method: the oracles that ask "does this leaf bear
// residues" / "is this leaf as long as the record" must not move with a defect of that method.
func leafLen(l gts.Location) int {
	switch v := l.(type) {
	case gts.Between:
		return 0
	case gts.Point:
		return 1
	case gts.Ranged:
		return v.End - v.Start
	case gts.Ambiguous:
		return 1
	}
	panic(fmt.Sprintf("leafLen: not a contiguous leaf %T", l))
}

// outerLeaves: first and last residue-bearing leaf in reading order.
func outerLeaves(l gts.Location) (first, last dleaf, ok bool) {
	for _, d := range denLeaves(l) {
		if leafLen(d.l) > 0 {
			if !ok {
				first = d
				ok = true
			}
			last = d
		}
	}
	return
}

// outerMarks: is the 5' end (before the first residue read) / the 3' end
// (after the last residue read) of the feature marked partial?
func outerMarks(l gts.Location) (m5, m3 bool) {
	first, last, ok := outerLeaves(l)
	if !ok {
		return false, false
	}
	if r, ok := first.l.(gts.Ranged); ok {
		if first.rev {
			m5 = r.Partial.Partial3
		} else {
			m5 = r.Partial.Partial5
		}
	}
	if r, ok := last.l.(gts.Ranged); ok {
		if last.rev {
			m3 = r.Partial.Partial5
		} else {
			m3 = r.Partial.Partial3
		}
	}
	return
}

// coordsWithin: every coordinate of every leaf lies in [0, L].
func coordsWithin(l gts.Location, L int) bool {
	for _, u := range leaves(l) {
		var s, e int
		switch v := u.(type) {
		case gts.Between:
			s, e = int(v), int(v)
		case gts.Point:
			s, e = int(v), int(v)+1
		case gts.Ranged:
			s, e = v.Start, v.End
		case gts.Ambiguous:
			s, e = v.Start, v.End
		}
		if s < 0 || e > L || s > e {
			return false
		}
	}
	return true
}

func hasAmbiguous(l gts.Location) bool {
	for _, u := range leaves(l) {
		if _, ok := u.(gts.Ambiguous); ok {
			return true
		}
	}
	return false
}

func hasBetween(l gts.Location) bool {
	for _, u := range leaves(l) {
		if _, ok := u.(gts.Between); ok {
			return true
		}
	}
	return false
}

func kindOf(l gts.Location) string {
	switch v := l.(type) {
	case gts.Between:
		return "between"
	case gts.Point:
		return "point"
	case gts.Ranged:
		return "ranged"
	case gts.Ambiguous:
		return "ambiguous"
	case gts.Joined:
		return fmt.Sprintf("join%d", minInt(len(v), 6))
	case gts.Ordered:
		return fmt.Sprintf("order%d", minInt(len(v), 6))
	case gts.Complemented:
		return "compl(" + kindOf(v.Location) + ")"
	}
	return "?"
}

// locEq: structural equality via the canonical encoding.
func locEq(a, b gts.Location) bool { return encLoc(a) == encLoc(b) }

// specWithin: an independent statement of "every part of the location lies within [lo, hi]"
// (the survival test of Erase): all leaves, whatever their order, strand or nesting; a
// zero-length site counts by its position.  Does not call gts.LocationWithin.
func specWithin(l gts.Location, lo, hi int) bool {
	if hi < lo {
		lo, hi = hi, lo
	}
	leaf := func(s, e int) bool {
		if e < s {
			s, e = e, s
		}
		return lo <= s && e <= hi
	}
	switch v := l.(type) {
	case gts.Between:
		return leaf(int(v), int(v))
	case gts.Point:
		return leaf(int(v), int(v)+1)
	case gts.Ranged:
		return leaf(v.Start, v.End)
	case gts.Ambiguous:
		return leaf(v.Start, v.End)
	case gts.Joined:
		for _, u := range v {
			if !specWithin(u, lo, hi) {
				return false
			}
		}
		return true
	case gts.Ordered:
		for _, u := range v {
			if !specWithin(u, lo, hi) {
				return false
			}
		}
		return true
	case gts.Complemented:
		return specWithin(v.Location, lo, hi)
	}
	panic(fmt.Sprintf("specWithin: unknown location %T", l))
}

// specOverlap: some leaf shares a residue (or, for a zero-length site, lies strictly inside) with [lo, hi)
func specOverlap(l gts.Location, lo, hi int) bool {
	if hi < lo {
		lo, hi = hi, lo
	}
	leaf := func(s, e int) bool {
		if e < s {
			s, e = e, s
		}
		return s < hi && lo < e
	}
	switch v := l.(type) {
	case gts.Between:
		return leaf(int(v), int(v))
	case gts.Point:
		return leaf(int(v), int(v)+1)
	case gts.Ranged:
		return leaf(v.Start, v.End)
	case gts.Ambiguous:
		return leaf(v.Start, v.End)
	case gts.Joined:
		for _, u := range v {
			if specOverlap(u, lo, hi) {
				return true
			}
		}
		return false
	case gts.Ordered:
		for _, u := range v {
			if specOverlap(u, lo, hi) {
				return true
			}
		}
		return false
	case gts.Complemented:
		return specOverlap(v.Location, lo, hi)
	}
	panic(fmt.Sprintf("specOverlap: unknown location %T", l))
}
