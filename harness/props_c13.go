package main

// C13 — a cache entry is returned only if it is exactly what was written.
//
// The real cmd/cache package (Create/CreateLevel, Write, Close, Open, Read) is run on real files
// in a scratch directory; every finished file is then damaged in every way the property
// quantifies over (byte offset x bit mask, every prefix length, appended tails, wrong keys, every
// crash state of the write protocol) and re-opened with the real Open.
//
//   oracle (on the real code): Open succeeds only if reading the entry to EOF gives exactly the
//   bytes that were written — except where a hypothesis of the corresponding Lean theorem is
//   false (a digest collision between the two bodies involved; all-zero sums together with a
//   zero digest of a body prefix), which can only happen with the weak CRC-32 digest and is
//   counted under "guarded/...".
//
//   correspondence: every Open / finish / name / crash-state question is also sent to the Lean
//   model, with the digests and the flate results the Go side computed passed in as data.
//
// Two digests are used through the public API (`hash.Hash` is a parameter of cmd/cache):
// SHA-1, which is what gts uses, and CRC-32 (4 bytes, zero on the empty input), which reaches the
// digest-dependent branches that SHA-1 cannot reach in practice.

import (
	"bytes"
	"compress/flate"
	"crypto/sha1"
	"encoding/hex"
	"fmt"
	"hash"
	"hash/crc32"
	"io/ioutil"
	"os"
	"path/filepath"
	"runtime"
	"strings"

	"github.com/go-gts/gts/cmd/cache"
)

func init() {
	props["C13"] = propC13
	extraOps["cache.name"] = func(a []sexp) string {
		return c13WithDir(func(dir string) string {
			f, err := cache.Create(dir, c13Hash(a[0].atom), decBytes(a[1]), decBytes(a[2]))
			if f == nil || err != nil {
				return "ERR"
			}
			defer f.Close()
			return encStr(filepath.Base(f.Name()))
		})
	}
	extraOps["cache.finish"] = func(a []sexp) string {
		return c13WithDir(func(dir string) string {
			chunk, level := c13W(a[4])
			fin, err := c13Build(dir, a[0].atom, decBytes(a[1]), decBytes(a[2]), c13Body(a[3]), chunk, level)
			if err != nil {
				return "ERR"
			}
			return encBytes(fin)
		})
	}
	extraOps["cache.open"] = func(a []sexp) string {
		return c13WithDir(func(dir string) string {
			ok, data, rerr := c13Open(dir, a[0].atom, decBytes(a[1]), decBytes(a[2]), decBytes(a[3]))
			switch {
			case !ok:
				return "ERR"
			case rerr:
				return "OK RERR"
			}
			return "OK " + encBytes(data)
		})
	}
	extraOps["cache.openv"] = func(a []sexp) string {
		return c13WithDir(func(dir string) string {
			hname := a[0].atom
			r, q := decBytes(a[3]), decBytes(a[4])
			file := c13Faulted(dir, hname, a[1], a[2], r, q, a[5])
			if file == nil {
				return "ERR-BUILD"
			}
			// the description given to the model must be the description of this very file
			d := c13Hash(hname).Size()
			head, n, bsum := c13Describe(hname, file)
			if !bytes.Equal(head, decBytes(a[6])) || n != decInt(a[7]) || !bytes.Equal(bsum, decBytes(a[8])) || len(bsum) != d {
				return "BAD-ARGS"
			}
			ok, data, rerr := c13Open(dir, hname, file, r, q)
			switch {
			case !ok:
				return "ERR"
			case rerr:
				return "OK RERR"
			}
			s := sha1.Sum(data)
			return "OK " + encBytes(s[:])
		})
	}
	// Go re-statement of Gts.Cache.crashStates (membership), tied to the Lean definition by the
	// correspondence run.
	extraOps["cache.incrash"] = func(a []sexp) string {
		return b01(c13IsCrashState(decBytes(a[1]), decBytes(a[2]), decBytes(a[3]), decBytes(a[4]), decBytes(a[5])))
	}
}

// ---------------------------------------------------------------------------
// running the real code

var c13Dir string // set while propC13 runs; otherwise every op uses its own scratch directory
var c13Leaks int

func c13WithDir(f func(dir string) string) string {
	if c13Dir != "" {
		return f(c13Dir)
	}
	dir, err := ioutil.TempDir(".", "c13-")
	if err != nil {
		panic(err)
	}
	defer os.RemoveAll(dir)
	return f(dir)
}

func c13Hash(name string) hash.Hash {
	switch name {
	case "sha1":
		return sha1.New()
	case "crc32":
		return crc32.NewIEEE()
	}
	panic("unknown hash " + name)
}

func c13Sum(hname string, parts ...[]byte) []byte {
	h := c13Hash(hname)
	for _, p := range parts {
		h.Write(p)
	}
	return h.Sum(nil)
}

func c13Clone(p []byte) []byte { return append(make([]byte, 0, len(p)), p...) }

// c13W decodes `(w <chunk> <level>)`: chunk 0 = one Write (none for an empty body);
// level -1 = cache.Create, otherwise cache.CreateLevel(level) (gts uses flate.BestSpeed = 1).
func c13W(s sexp) (chunk, level int) { return decInt(s.list[1]), decInt(s.list[2]) }

// c13Body decodes a body description: x<hex> | (rnd seed n) | (txt seed n) | (rep byte n).
func c13Body(s sexp) []byte {
	if !s.isL {
		return decBytes(s)
	}
	a, n := decInt(s.list[1]), decInt(s.list[2])
	out := make([]byte, n)
	switch s.list[0].atom {
	case "rnd": // incompressible
		g := newRng(uint64(a))
		for i := range out {
			out[i] = byte(g.next() >> 24)
		}
	case "txt": // compressible, sequence-file like
		g := newRng(uint64(a))
		words := []string{"ACGT", "GATTACA", "TTAGGG", "     ", "\n", "gene", "CDS", "/note=\"", "1..", "complement(", "NNNN"}
		i := 0
		for i < n {
			w := words[g.intn(len(words))]
			i += copy(out[i:], w)
		}
	case "rep":
		for i := range out {
			out[i] = byte(a)
		}
	default:
		panic("bad body")
	}
	return out
}

// c13Build runs the real Create / Write… / Close and returns the bytes of the finished file.
// observe, when not nil, is called with the on-disk contents after Create and after every Write.
func c13BuildObs(dir, hname string, r, q, plain []byte, chunk, level int, observe func([]byte)) ([]byte, error) {
	var f *cache.File
	var err error
	if level == -1 {
		f, err = cache.Create(dir, c13Hash(hname), c13Clone(r), c13Clone(q))
	} else {
		f, err = cache.CreateLevel(dir, c13Hash(hname), c13Clone(r), c13Clone(q), level)
	}
	if err != nil {
		if f != nil {
			f.Close()
		}
		return nil, err
	}
	name := f.Name()
	look := func() {
		if observe != nil {
			p, err := ioutil.ReadFile(name)
			if err != nil {
				panic(err)
			}
			observe(p)
		}
	}
	look()
	if chunk <= 0 {
		if len(plain) > 0 {
			if _, err := f.Write(plain); err != nil {
				return nil, err
			}
			look()
		}
	} else {
		for i := 0; i < len(plain); i += chunk {
			j := i + chunk
			if j > len(plain) {
				j = len(plain)
			}
			if _, err := f.Write(plain[i:j]); err != nil {
				return nil, err
			}
			look()
		}
	}
	if err := f.Close(); err != nil {
		return nil, err
	}
	return ioutil.ReadFile(name)
}

func c13Build(dir, hname string, r, q, plain []byte, chunk, level int) ([]byte, error) {
	return c13BuildObs(dir, hname, r, q, plain, chunk, level, nil)
}

// c13Path is the harness's own computation of the entry's file name.
func c13Path(dir, hname string, r, q []byte) string {
	return filepath.Join(dir, hex.EncodeToString(c13Sum(hname, r, q)))
}

// c13Open puts `file` where Open(r, q) will look for it and runs the real Open and a read to EOF.
func c13Open(dir, hname string, file, r, q []byte) (ok bool, data []byte, rerr bool) {
	if err := ioutil.WriteFile(c13Path(dir, hname, r, q), file, 0644); err != nil {
		panic(err)
	}
	f, err := cache.Open(dir, c13Hash(hname), c13Clone(r), c13Clone(q))
	if err != nil {
		if f != nil {
			f.Close()
		} else if c13Leaks++; c13Leaks%128 == 0 {
			// Open does not close the descriptor when ReadHeader fails; let the finalizers do it
			runtime.GC()
		}
		return false, nil, false
	}
	defer f.Close()
	if !f.ReadOnly() {
		panic("Open returned a writable file")
	}
	data, e := ioutil.ReadAll(f)
	return true, data, e != nil
}

var c13Memo = map[string][]byte{}

// c13Faulted rebuilds the finished file described by (body, w, key) with the real code and applies
// the fault:  (none) | (flip off mask) | (trunc n) | (tail x<bytes>) | (c0 k) | (c1 k) | (c2 k) |
// (key x<r0> x<q0>) = finished for (r0, q0), presented under (r, q).
func c13Faulted(dir, hname string, body, w sexp, r, q []byte, fault sexp) []byte {
	fr, fq := r, q
	kind := fault.list[0].atom
	if kind == "key" {
		fr, fq = decBytes(fault.list[1]), decBytes(fault.list[2])
	}
	chunk, level := c13W(w)
	memoKey := fmt.Sprint(hname, "|", body, "|", chunk, "|", level, "|", hex.EncodeToString(fr), "|", hex.EncodeToString(fq))
	fin, ok := c13Memo[memoKey]
	if !ok {
		var err error
		fin, err = c13Build(dir, hname, fr, fq, c13Body(body), chunk, level)
		if err != nil {
			return nil
		}
		if len(c13Memo) > 8 {
			c13Memo = map[string][]byte{}
		}
		c13Memo[memoKey] = fin
	}
	d3 := 3 * c13Hash(hname).Size()
	switch kind {
	case "none", "key":
		return fin
	case "flip":
		out := c13Clone(fin)
		out[decInt(fault.list[1])] ^= byte(decInt(fault.list[2]))
		return out
	case "trunc":
		return c13Clone(fin[:decInt(fault.list[1])])
	case "tail":
		return append(c13Clone(fin), decBytes(fault.list[1])...)
	case "c0":
		return make([]byte, decInt(fault.list[1]))
	case "c1":
		return append(make([]byte, d3), fin[d3:d3+decInt(fault.list[1])]...)
	case "c2":
		k := decInt(fault.list[1])
		out := append(make([]byte, d3), fin[d3:]...)
		copy(out, fin[:k])
		return out
	}
	panic("bad fault")
}

// c13Describe: the first min(len, 3d) bytes, the length, and the digest of everything after 3d.
func c13Describe(hname string, file []byte) (head []byte, n int, bsum []byte) {
	d3 := 3 * c13Hash(hname).Size()
	if len(file) < d3 {
		return file, len(file), c13Sum(hname)
	}
	return file[:d3], len(file), c13Sum(hname, file[d3:])
}

// c13Inflate: the harness's own inflate of a body (nil, false when the stream is corrupt).
func c13Inflate(body []byte) ([]byte, bool) {
	rd := flate.NewReader(bytes.NewReader(body))
	p, err := ioutil.ReadAll(rd)
	if err != nil {
		return nil, false
	}
	return p, true
}

func c13Deflate(plain []byte, level int) []byte {
	var b bytes.Buffer
	w, err := flate.NewWriter(&b, level)
	if err != nil {
		panic(err)
	}
	if len(plain) > 0 {
		w.Write(plain)
	}
	w.Close()
	return b.Bytes()
}

func c13IsZero(p []byte) bool {
	for _, c := range p {
		if c != 0 {
			return false
		}
	}
	return true
}

// c13IsCrashState re-states Gts.Cache.crashStates as a predicate (bsum = H body, d = len bsum).
func c13IsCrashState(s, r, q, body, bsum []byte) bool {
	d3 := 3 * len(bsum)
	if len(s) < d3 {
		return c13IsZero(s)
	}
	hd, rest := s[:d3], s[d3:]
	if c13IsZero(hd) && bytes.HasPrefix(body, rest) {
		return true
	}
	if !bytes.Equal(rest, body) {
		return false
	}
	hdr := append(append(c13Clone(r), q...), bsum...)
	if len(hdr) != d3 {
		panic("sums must have the digest's size")
	}
	for k := 0; k <= d3; k++ {
		// overwrite (zeros 3d ++ body) (hdr.take k)
		if bytes.Equal(hd[:k], hdr[:k]) && c13IsZero(hd[k:]) {
			return true
		}
	}
	return false
}

// ---------------------------------------------------------------------------
// the property

type c13Key struct {
	kind string
	r, q []byte
}

type c13Case struct {
	hname string
	key   c13Key
	spec  string // body description (protocol syntax)
	w     string // (w chunk level)
	plain []byte
	fin   []byte // finished file written by the real code
	small bool
	d     int
}

func (c *c13Case) body() []byte { return c.fin[3*c.d:] }

// open sends one Open question about `file` (opened with sums r, q) to both sides.
func (c *c13Case) open(r *Run, fault string, file, or, oq []byte) (line, out string) {
	head, n, bsum := c13Describe(c.hname, file)
	var plain []byte
	inflOK := false
	if n >= 3*c.d {
		plain, inflOK = c13Inflate(file[3*c.d:])
	}
	if c.small {
		p := "-"
		if inflOK {
			p = encBytes(plain)
		}
		line = fmt.Sprintf("cache.open %s %s %s %s %s %s", c.hname, encBytes(file), encBytes(or), encBytes(oq), encBytes(bsum), p)
	} else {
		p := "-"
		if inflOK {
			s := sha1.Sum(plain)
			p = encBytes(s[:])
		}
		line = fmt.Sprintf("cache.openv %s %s %s %s %s %s %s %d %s %s", c.hname, c.spec, c.w, encBytes(or), encBytes(oq), fault,
			encBytes(head), n, encBytes(bsum), p)
	}
	return line, r.op(line)
}

func (c *c13Case) wantOK() string {
	if c.small {
		return "OK " + encBytes(c.plain)
	}
	s := sha1.Sum(c.plain)
	return "OK " + encBytes(s[:])
}

func c13Short(s string) string {
	if len(s) > 240 {
		return s[:240] + "…"
	}
	return s
}

// check evaluates the oracle for one damaged (or intact) file.
// excused: a hypothesis of the Lean theorem for this fault class is false.
func (c *c13Case) check(r *Run, class, fault string, file []byte, excused bool) {
	line, out := c.open(r, fault, file, c.key.r, c.key.q)
	tag := c.hname + "/" + c.key.kind + "/" + class
	r.count(tag)
	if len(line) < 400 {
		r.sample(line + " => " + out)
	}
	ks := sha1.Sum([]byte(line))
	r.eval(string(ks[:]), true)
	if class == "intact" {
		if out != c.wantOK() {
			r.fail(Failure{Oracle: "a finished entry opens and reads back exactly what was written", Op: line, Got: c13Short(out), Want: c13Short(c.wantOK())})
		}
		return
	}
	if bytes.Equal(file, c.fin) {
		// the "fault" left the finished file unchanged (a torn header equal to the final one,
		// the last crash state): opening must give the written bytes
		r.count("same-as-finished/" + tag)
		if out != c.wantOK() {
			r.fail(Failure{Oracle: "a state byte-identical to the finished file reads back what was written", Op: line, Got: c13Short(out), Want: c13Short(c.wantOK())})
		}
		return
	}
	if strings.HasPrefix(out, "OK") {
		// accepted although it is not the finished file: a violation even when inflate happens
		// to give the written bytes (flate ignores trailing garbage, for instance)
		if excused {
			r.count("guarded/" + tag)
			return
		}
		r.fail(Failure{Oracle: "Open fails on a file that is not byte for byte the finished entry (" + class + ")", Op: line, Got: c13Short(out), Want: "ERR"})
	} else if out != "ERR" {
		r.fail(Failure{Oracle: "Open neither panics nor misbehaves on a damaged entry (" + class + ")", Op: line, Got: c13Short(out), Want: "ERR"})
	}
}

// collide: the damaged body hashes like the finished body (hypothesis of corrupt_body /
// truncate / extend is false).
func (c *c13Case) collide(file []byte) bool {
	if len(file) < 3*c.d {
		return false
	}
	return bytes.Equal(c13Sum(c.hname, file[3*c.d:]), c13Sum(c.hname, c.body()))
}

// sample offsets 0..n-1: everything when all is set, otherwise `dense` leading and trailing ones
// plus `k` stride/random samples.
func c13Offsets(g *rng, n, dense, k int, all bool) []int {
	if all || n <= 2*dense+k {
		out := make([]int, n)
		for i := range out {
			out[i] = i
		}
		return out
	}
	seen := map[int]bool{}
	var out []int
	add := func(i int) {
		if i >= 0 && i < n && !seen[i] {
			seen[i] = true
			out = append(out, i)
		}
	}
	for i := 0; i < dense; i++ {
		add(i)
		add(n - 1 - i)
	}
	stride := (n - 2*dense) / k
	for i := 0; i < k; i++ {
		add(dense + i*stride + g.intn(stride))
	}
	return out
}

func c13Run(r *Run, hname string, key c13Key, spec string, chunk, level int, fullFaults bool) {
	d := c13Hash(hname).Size()
	ws := fmt.Sprintf("(w %d %d)", chunk, level)
	plain := c13Body(parseLine(spec)[0])
	flateLevel := level
	if level == -1 {
		flateLevel = flate.DefaultCompression
	}
	deflated := c13Deflate(plain, flateLevel)
	bsum := c13Sum(hname, deflated)

	// --- the writer: finished file, file name, observed intermediate states -----------------
	line := fmt.Sprintf("cache.finish %s %s %s %s %s %s %s", hname, encBytes(key.r), encBytes(key.q), spec, ws, encBytes(deflated), encBytes(bsum))
	out := r.op(line)
	r.count(hname + "/" + key.kind + "/finish")
	want := encBytes(append(append(append(c13Clone(key.r), key.q...), bsum...), deflated...))
	r.eval("finish|"+hname+key.kind+spec+ws, true)
	if out != want {
		r.fail(Failure{Oracle: "Create/Write/Close leaves rsum ‖ dsum ‖ H(deflate w) ‖ deflate w on disk", Op: c13Short(line), Got: c13Short(out), Want: c13Short(want)})
		// go on with the file the real code wrote, if it has at least a header and a body
		if !strings.HasPrefix(out, "x") || len(out) < 2*(3*d+1)+1 {
			return
		}
	}
	fin := decBytes(sexp{atom: out})
	nline := fmt.Sprintf("cache.name %s %s %s %s", hname, encBytes(key.r), encBytes(key.q), encBytes(c13Sum(hname, key.r, key.q)))
	r.op(nline)

	c := &c13Case{hname: hname, key: key, spec: spec, w: ws, plain: plain, fin: fin, small: len(fin) <= 2048 && len(plain) <= 4096, d: d}
	if len(fin) > 65536+3*d {
		r.count("bodies/multi-block(>64KiB compressed)")
	} else if len(plain) == 0 {
		r.count("bodies/empty")
	} else {
		r.count("bodies/small")
	}

	// every on-disk state the real writer goes through must be a modelled crash state
	nObs, lens := 0, map[int]bool{}
	obsChunk := chunk
	if obsChunk <= 0 && len(plain) > 4096 {
		obsChunk = 4096
	}
	_, err := c13BuildObs(c13Dir, hname, key.r, key.q, plain, obsChunk, level, func(disk []byte) {
		nObs++
		lens[len(disk)] = true
		okState := c13IsCrashState(disk, key.r, key.q, deflated, bsum)
		if c.small {
			l := fmt.Sprintf("cache.incrash %s %s %s %s %s %s", hname, encBytes(disk), encBytes(key.r), encBytes(key.q), encBytes(deflated), encBytes(bsum))
			okState = r.op(l) == "1"
		}
		r.eval(fmt.Sprint("obs|", hname, key.kind, spec, ws, len(disk)), true)
		if !okState {
			r.fail(Failure{Oracle: "every on-disk state during Create/Write/Close is a modelled crash state (placeholder + body prefix)",
				Op: c13Short(line), Got: fmt.Sprintf("%d bytes on disk, header zero=%v", len(disk), c13IsZero(disk[:minInt(len(disk), 3*d)]))})
		}
	})
	if err != nil {
		panic(err)
	}
	r.hist["observed-writer-states"] += nObs
	r.hist["observed-writer-states/distinct-lengths"] += len(lens)

	// --- intact -------------------------------------------------------------------------------
	c.check(r, "intact", "(none)", fin, false)

	g := r.rng
	thorough := r.tier == "thorough"
	nSample := 48
	if thorough {
		nSample = 600
	}

	// --- every byte offset x bit mask ---------------------------------------------------------
	offs := c13Offsets(g, len(fin), 3*d+32, nSample, c.small)
	for _, off := range offs {
		if !fullFaults && off >= 3*d+8 {
			continue
		}
		for _, mask := range []byte{0x01, 0x80, 0xFF} {
			f := c13Clone(fin)
			f[off] ^= mask
			class := "flip-body"
			if off < 3*d {
				class = [...]string{"flip-root", "flip-data", "flip-bodysum"}[off/d]
			}
			c.check(r, class, fmt.Sprintf("(flip %d %d)", off, mask), f, off >= 3*d && c.collide(f))
		}
	}

	// --- every prefix length ------------------------------------------------------------------
	for _, n := range c13Offsets(g, len(fin), 3*d+32, nSample, c.small) {
		if !fullFaults && n >= 3*d+8 && n < len(fin)-8 {
			continue
		}
		f := c13Clone(fin[:n])
		class := "truncate-in-body"
		if n < 3*d {
			class = "truncate-in-header"
		}
		c.check(r, class, fmt.Sprintf("(trunc %d)", n), f, c.collide(f))
	}

	// --- appended tails -----------------------------------------------------------------------
	tails := [][]byte{{0}, {0xFF}, make([]byte, 3*d), genBytesRaw(g, 1+g.intn(16)), c13Deflate([]byte("tail"), flate.DefaultCompression)}
	if c.small {
		tails = append(tails, fin, fin[3*d:])
	}
	if fullFaults {
		for _, t := range tails {
			f := append(c13Clone(fin), t...)
			c.check(r, "extend", "(tail "+encBytes(t)+")", f, c.collide(f))
		}
	}

	// --- wrong keys: the file finished for (r, q) sits under the name of (r', q') ----------------
	flip := func(p []byte, i int) []byte { o := c13Clone(p); o[i%len(o)] ^= 1 << uint(i%8); return o }
	for i, k2 := range [][2][]byte{{flip(key.r, g.intn(8*d)), key.q}, {key.r, flip(key.q, g.intn(8*d))}, {key.q, key.r},
		{c13Sum(hname, []byte("other input")), c13Sum(hname, []byte("other args"))}} {
		if bytes.Equal(k2[0], key.r) && bytes.Equal(k2[1], key.q) {
			continue
		}
		fault := fmt.Sprintf("(key %s %s)", encBytes(key.r), encBytes(key.q))
		line, out := c.open(r, fault, fin, k2[0], k2[1])
		r.count(hname + "/" + key.kind + "/wrong-key")
		r.eval(fmt.Sprint("wk|", hname, key.kind, spec, i), true)
		if out != "ERR" {
			r.fail(Failure{Oracle: "an entry finished for other sums is rejected (wrong key)", Op: c13Short(line), Got: c13Short(out), Want: "ERR"})
		}
	}

	// --- crash states of the write protocol ------------------------------------------------------
	body := c.body()
	zero := c13IsZero(key.r) && c13IsZero(key.q)
	for k := 0; k < 3*d; k++ {
		c.check(r, "crash-placeholder-prefix", fmt.Sprintf("(c0 %d)", k), make([]byte, k), false)
	}
	for _, k := range c13Offsets(g, len(body)+1, 40, nSample, c.small) {
		f := append(make([]byte, 3*d), body[:k]...)
		// hypothesis of crash_safe: not (r = 0 and q = 0 and H(prefix) = 0 for a proper prefix)
		excused := zero && k < len(body) && c13IsZero(c13Sum(hname, body[:k]))
		c.check(r, "crash-placeholder+body-prefix", fmt.Sprintf("(c1 %d)", k), f, excused)
	}
	for k := 0; k <= 3*d; k++ {
		f := append(make([]byte, 3*d), body...)
		copy(f, fin[:k])
		c.check(r, "crash-body+header-prefix", fmt.Sprintf("(c2 %d)", k), f, false)
	}
	if c.small {
		// the generated states are exactly members of the model's enumeration; damaged files are not
		probe := func(s []byte, want bool) {
			l := fmt.Sprintf("cache.incrash %s %s %s %s %s %s", hname, encBytes(s), encBytes(key.r), encBytes(key.q), encBytes(body), encBytes(bsum))
			got := r.op(l) == "1"
			r.count(fmt.Sprintf("%s/%s/incrash-%v", hname, key.kind, want))
			if got != want {
				r.fail(Failure{Oracle: "crash-state membership (harness re-statement)", Op: c13Short(l), Got: b01(got), Want: b01(want)})
			}
		}
		probe(append(make([]byte, 3*d), body[:len(body)/2]...), true)
		probe(fin, true)
		probe(make([]byte, d), true)
		if !c13IsZero(key.r) {
			f := c13Clone(fin)
			f[3*d+len(body)/2] ^= 0x10
			probe(f, false)
			probe(fin[:len(fin)-1], false)
			h2 := append(make([]byte, 3*d), body...)
			copy(h2[d:], fin[d:2*d]) // data sum written before root sum: not a prefix of the write
			probe(h2, c13IsZero(key.q))
		}
	}

	// --- forged but consistent files: accepted by Open (completeness), correspondence only ------
	for _, garbage := range [][]byte{{}, genBytesRaw(g, 1+g.intn(40))} {
		f := append(append(append(c13Clone(key.r), key.q...), c13Sum(hname, garbage)...), garbage...)
		_, out := c.openForged(r, f)
		r.count(hname + "/" + key.kind + "/forged-consistent:" + strings.SplitN(out, " ", 2)[0])
	}
}

func (c *c13Case) openForged(r *Run, file []byte) (string, string) {
	save := c.small
	c.small = true
	defer func() { c.small = save }()
	return c.open(r, "(none)", file, c.key.r, c.key.q)
}

func genBytesRaw(g *rng, n int) []byte {
	out := make([]byte, n)
	for i := range out {
		out[i] = byte(g.next() >> 16)
	}
	return out
}

func propC13(r *Run) {
	c13Fsize(r)
	dir, err := ioutil.TempDir(".", "c13-")
	if err != nil {
		panic(err)
	}
	c13Dir = dir
	defer func() {
		c13Dir = ""
		os.RemoveAll(dir)
	}()
	thorough := r.tier == "thorough"
	if r.failures == nil {
		r.failures = []Failure{} // report.json: "failures": [] rather than null
	}

	type bodySpec struct {
		spec         string
		chunk, level int
		big          bool
	}
	seed := int(r.seed)
	bodies := []bodySpec{
		{"x", 0, -1, false}, // empty, no Write call at all
		{"x", 0, 1, false},  // empty, BestSpeed (what gts uses)
		{encStr(">seq1 test\nACGTACGTACGTNNNNACGT\n"), 0, 1, false},
		{fmt.Sprintf("(rnd %d 300)", seed), 7, -1, false},
		{fmt.Sprintf("(txt %d 1200)", seed), 500, 1, false},
		{fmt.Sprintf("(rnd %d 70000)", seed+1), 4096, 1, true}, // > 64 KiB incompressible: several flate blocks
		// every other compression level CreateLevel accepts, incl. 0 = stored blocks and -2 = Huffman only
		{"x", 0, 0, false},
		{encStr(">seq1 test\nACGTACGTACGTNNNNACGT\n"), 0, 0, false},
		{fmt.Sprintf("(rnd %d 300)", seed+7), 7, 0, false},
		{fmt.Sprintf("(txt %d 1200)", seed+8), 0, -2, false},
		{fmt.Sprintf("(txt %d 1200)", seed+9), 100, 9, false},
		{fmt.Sprintf("(rnd %d 400)", seed+10), 0, 5, false},
	}
	if thorough {
		for lv := -2; lv <= 9; lv++ {
			bodies = append(bodies, bodySpec{fmt.Sprintf("(txt %d %d)", seed+20+lv, 1+r.rng.intn(3000)), r.rng.intn(200), lv, false})
		}
		bodies = append(bodies,
			bodySpec{fmt.Sprintf("(rnd %d 70000)", seed+33), 4096, 0, true},
			bodySpec{"x00", 0, -1, false},
			bodySpec{fmt.Sprintf("(rnd %d 59)", seed+2), 0, 1, false},
			bodySpec{fmt.Sprintf("(rnd %d 1900)", seed+3), 0, -1, false},
			bodySpec{fmt.Sprintf("(txt %d 65536)", seed+4), 0, 1, true},
			bodySpec{fmt.Sprintf("(rnd %d 65536)", seed+5), 1000, -1, true},
			bodySpec{fmt.Sprintf("(rnd %d 200000)", seed+6), 65536, 1, true},
			bodySpec{"(rep 65 1000000)", 100000, -1, true},
		)
		for i := 0; i < 6; i++ {
			bodies = append(bodies, bodySpec{fmt.Sprintf("(rnd %d %d)", seed+10+i, 1+r.rng.intn(1500)), r.rng.intn(50), []int{-1, 1}[i%2], false})
		}
	}
	for _, hname := range []string{"sha1", "crc32"} {
		d := c13Hash(hname).Size()
		// a body whose BODY SUM ends in a zero byte (1 in 256): the torn header "all but the last
		// byte written" is then byte-identical to the finished file and must read back correctly
		zb := ""
		for i := 0; i < 100000 && zb == ""; i++ {
			p := []byte(fmt.Sprintf(">seq%d-%d\nACGTTGCA\n", seed, i))
			if s := c13Sum(hname, c13Deflate(p, 1)); s[d-1] == 0 {
				zb = encBytes(p)
			}
		}
		hbodies := bodies
		if zb != "" {
			hbodies = append(append([]bodySpec(nil), bodies...), bodySpec{zb, 0, 1, false})
			r.count(hname + "/body-with-zero-tailed-body-sum")
		}
		input := genBytesRaw(r.rng, 200)
		rs, qs := c13Sum(hname, input), c13Sum(hname, []byte("gts select CDS --seed"), []byte{byte(r.seed)})
		zt := c13Clone(rs)
		zt[d-1], zt[d-2] = 0, 0
		qz := c13Clone(qs)
		qz[d-1] = 0
		keys := []c13Key{
			{"key=digests", rs, qs},                            // what gts passes
			{"key=zero-tails", zt, make([]byte, d)},            // torn header writes can coincide with the final header
			{"key=zero-tail-data", make([]byte, d), qz},        //
			{"key=all-zero", make([]byte, d), make([]byte, d)}, // the placeholder looks like a header
		}
		for bi, b := range hbodies {
			for ki, key := range keys {
				// big bodies: realistic key; the first one also with the all-zero key.
				// quick tier: the adversarial keys on the empty and the text body only.
				if b.big && ki > 0 && !(ki == 3 && bi == 5) {
					continue
				}
				if !thorough && ki > 0 && !b.big && bi != 1 && bi != 2 && bi != len(bodies) {
					continue
				}
				c13Run(r, hname, key, b.spec, b.chunk, b.level, ki == 0)
			}
		}
	}
	// an entry that does not exist
	if f, err := cache.Open(dir, sha1.New(), make([]byte, 20), []byte("no such entry 123456")); err == nil {
		f.Close()
		r.fail(Failure{Oracle: "Open of a missing entry fails", Op: "cache.Open(missing)", Got: "nil error"})
	}
	r.count("missing-entry")
	r.exhaustive = true
	r.notes = append(r.notes,
		"files <= 2 KiB: every byte offset x {0x01,0x80,0xFF}, every prefix length, every crash state; larger files: all header offsets, 52 leading/trailing body offsets and stride samples",
		"digests: sha1 (as used by gts) and crc32 (weak, reaches the digest-dependent branches); cases excused by a false theorem hypothesis are counted under guarded/",
		"the model receives every digest and flate result as data; it decides layout, short reads, hashed range, Validate order, reader offset, crash-state membership")
}
