package main

// C14 — caching is transparent: cached runs equal uncached runs.
//
// The `gts` binary built from the repository under verification is driven through histories of
// 1..4 invocations that share one scratch cache directory (XDG_CACHE_HOME / HOME / TMPDIR point
// into a fresh directory per history; the input is always fed on stdin; every call has a 5 s
// timeout).  Every invocation is also executed with --no-cache.
//
//   oracle (on the real binary): the bytes on stdout / in the -o file and the exit status of the
//   cached run equal those of the --no-cache run, for every run of every history (so a run whose
//   option, primary or secondary input changed cannot have replayed an entry whenever the change
//   shows in the output; the sweeps look for bases on which it does); the --no-cache run is
//   deterministic (spot check: executed twice).
//
//   correspondence: the whole history is one protocol line `cli.hist …` that carries, per run,
//   the values the payload tuples of the GENERATED command table read (derived ones — filetype,
//   guest/host/query/feature-table digests, the printed location, the separator rune — computed
//   here with the repository's own functions), a digest of the primary input and the OBSERVED
//   outcome of the --no-cache run.  The Lean protocol model (Gts/Model/CacheProto.lean),
//   instantiated with that observed `exec`, must predict for every step the status, the output
//   digest and the set of cache entries afterwards (hit / miss / removal on `-o` / removal after
//   a failed run / re-creation after tampering).

import (
	"bytes"
	"context"
	"crypto/sha1"
	"encoding/hex"
	"fmt"
	"io/ioutil"
	"os"
	"os/exec"
	"path/filepath"
	"runtime"
	"sort"
	"strconv"
	"strings"
	"sync"
	"time"

	"github.com/go-gts/gts"
	"github.com/go-gts/gts/seqio"
)

func init() {
	props["C14"] = propC14
	extraOps["cli.hist"] = func(a []sexp) string { return c14RunHist(a) }
}

// ---------------------------------------------------------------------------
// the binary and the corpus

var (
	gtsOnce sync.Once
	gtsPath string
	gtsErr  string
)

func verifRepo() string {
	if p := os.Getenv("VERIF_REPO"); p != "" {
		return p
	}
	return "/repo"
}

// gtsBinary: $VERIF_GTS (bin/check builds it from the tree on every run), else built here.
func gtsBinary() string {
	gtsOnce.Do(func() {
		if p := os.Getenv("VERIF_GTS"); p != "" {
			gtsPath = p
			return
		}
		dir, err := ioutil.TempDir("", "verif-gts-")
		if err != nil {
			gtsErr = err.Error()
			return
		}
		out := filepath.Join(dir, "gts")
		cmd := exec.Command("go", "build", "-o", out, "./cmd/gts")
		cmd.Dir = verifRepo()
		cmd.Env = append(os.Environ(), "GOFLAGS=-mod=mod", "GOPROXY=off", "GOSUMDB=off", "GOTOOLCHAIN=local", "CGO_ENABLED=0")
		if b, err := cmd.CombinedOutput(); err != nil {
			gtsErr = string(b)
			return
		}
		gtsPath = out
	})
	if gtsPath == "" {
		panic("gts binary unavailable: " + gtsErr)
	}
	return gtsPath
}

var (
	corpusMu sync.Mutex
	corpus   = map[string][]byte{}
)

func corpusFile(name string) []byte {
	corpusMu.Lock()
	defer corpusMu.Unlock()
	if b, ok := corpus[name]; ok {
		return b
	}
	b, err := ioutil.ReadFile(filepath.Join(verifRepo(), "seqio", "testdata", name))
	if err != nil {
		panic(err)
	}
	corpus[name] = b
	return b
}

// cliInput describes the bytes of one input file so that a protocol line can rebuild them.
type cliInput struct {
	kind string // file trunc lenmis cat hex none sub suball upcase rand
	name string
	n    int
	sub  []cliInput
	raw  []byte
	raw2 []byte
}

func inFile(name string) cliInput         { return cliInput{kind: "file", name: name} }
func inTrunc(name string, n int) cliInput { return cliInput{kind: "trunc", name: name, n: n} }
func inLenMis(name string) cliInput       { return cliInput{kind: "lenmis", name: name} }
func inCat(a, b cliInput) cliInput        { return cliInput{kind: "cat", sub: []cliInput{a, b}} }
func inHex(p []byte) cliInput             { return cliInput{kind: "hex", raw: p} }
func inNone() cliInput                    { return cliInput{kind: "none"} }

// inSub: the first occurrence of a replaced by b; inSubAll: every occurrence; inUpcase: the
// residue lines (GenBank: between ORIGIN and //; FASTA: the lines that are not headers) in upper case
func inSub(in cliInput, a, b string) cliInput {
	return cliInput{kind: "sub", sub: []cliInput{in}, raw: []byte(a), raw2: []byte(b)}
}
func inSubAll(in cliInput, a, b string) cliInput {
	return cliInput{kind: "suball", sub: []cliInput{in}, raw: []byte(a), raw2: []byte(b)}
}
func inUpcase(in cliInput) cliInput { return cliInput{kind: "upcase", sub: []cliInput{in}} }

func upcaseResidues(p []byte) []byte {
	lines := bytes.SplitAfter(p, []byte("\n"))
	fasta := len(p) > 0 && p[0] == '>'
	inOrigin := false
	var out []byte
	for _, l := range lines {
		switch {
		case fasta && !bytes.HasPrefix(l, []byte(">")):
			l = bytes.ToUpper(l)
		case !fasta && bytes.HasPrefix(l, []byte("ORIGIN")):
			inOrigin = true
		case !fasta && bytes.HasPrefix(l, []byte("//")):
			inOrigin = false
		case inOrigin:
			l = bytes.ToUpper(l)
		}
		out = append(out, l...)
	}
	return out
}

func (in cliInput) bytes() []byte {
	switch in.kind {
	case "file":
		return corpusFile(in.name)
	case "trunc":
		b := corpusFile(in.name)
		if in.n < len(b) {
			b = b[:in.n]
		}
		return b
	case "lenmis":
		// the declared length of the first LOCUS line is raised by one
		b := corpusFile(in.name)
		i := bytes.Index(b, []byte(" bp"))
		if i < 0 {
			return b
		}
		j := i
		for j > 0 && b[j-1] >= '0' && b[j-1] <= '9' {
			j--
		}
		n, _ := strconv.Atoi(string(b[j:i]))
		s := strconv.Itoa(n + 1)
		for len(s) < i-j {
			s = " " + s
		}
		out := append([]byte{}, b[:j]...)
		out = append(out, s[len(s)-(i-j):]...)
		return append(out, b[i:]...)
	case "cat":
		return append(append([]byte{}, in.sub[0].bytes()...), in.sub[1].bytes()...)
	case "hex":
		return in.raw
	case "sub":
		return bytes.Replace(in.sub[0].bytes(), in.raw, in.raw2, 1)
	case "suball":
		return bytes.ReplaceAll(in.sub[0].bytes(), in.raw, in.raw2)
	case "upcase":
		return upcaseResidues(in.sub[0].bytes())
	case "rand":
		seed, _ := strconv.Atoi(string(in.raw))
		return c14RandFasta(in.n, seed)
	}
	return nil
}

func (in cliInput) enc() string {
	switch in.kind {
	case "file":
		return "(file " + in.name + ")"
	case "trunc":
		return fmt.Sprintf("(trunc %s %d)", in.name, in.n)
	case "lenmis":
		return "(lenmis " + in.name + ")"
	case "cat":
		return "(cat " + in.sub[0].enc() + " " + in.sub[1].enc() + ")"
	case "hex":
		return "(hex " + encBytes(in.raw) + ")"
	case "sub", "suball":
		return "(" + in.kind + " " + in.sub[0].enc() + " " + encBytes(in.raw) + " " + encBytes(in.raw2) + ")"
	case "upcase":
		return "(upcase " + in.sub[0].enc() + ")"
	case "rand":
		return fmt.Sprintf("(rand %d %s)", in.n, in.raw)
	}
	return "(none)"
}

func decInput(s sexp) cliInput {
	if !s.isL || len(s.list) == 0 {
		panic("bad input spec")
	}
	a := s.list[1:]
	switch s.list[0].atom {
	case "file":
		return inFile(a[0].atom)
	case "trunc":
		return inTrunc(a[0].atom, decInt(a[1]))
	case "lenmis":
		return inLenMis(a[0].atom)
	case "cat":
		return inCat(decInput(a[0]), decInput(a[1]))
	case "hex":
		return inHex(decBytes(a[0]))
	case "sub":
		return inSub(decInput(a[0]), string(decBytes(a[1])), string(decBytes(a[2])))
	case "suball":
		return inSubAll(decInput(a[0]), string(decBytes(a[1])), string(decBytes(a[2])))
	case "upcase":
		return inUpcase(decInput(a[0]))
	case "rand":
		return inRand(decInt(a[0]), decInt(a[1]))
	case "none":
		return inNone()
	}
	panic("bad input kind")
}

// ---------------------------------------------------------------------------
// one invocation

// cliRun is one invocation of the binary.  In args, "@SEC<i>" stands for the path of the i-th
// secondary file and "@OUT:<name>" for the output file <name> inside the scratch directory.
type cliRun struct {
	cmd     string
	args    []string
	primary cliInput
	secs    []cliInput
	env     [][2]string // variables read by the payload tuples
	early   bool        // the run ends before TryCache
	label   string
}

func (r cliRun) ofile() string {
	for _, a := range r.args {
		if strings.HasPrefix(a, "@OUT:") {
			return a[5:]
		}
	}
	return ""
}

type cliResult struct {
	status int
	out    []byte // stdout followed by the bytes of the -o file
}

func (x cliResult) digest() string {
	s := sha1.Sum(x.out)
	return hex.EncodeToString(s[:])
}

func (x cliResult) String() string {
	return fmt.Sprintf("%d:%s", x.status, x.digest())
}

type cliDir struct{ root string }

func newCliDir() cliDir {
	d, err := ioutil.TempDir("", "verif-cli-")
	if err != nil {
		panic(err)
	}
	for _, s := range []string{"home", "cache", "tmp", "out", "sec"} {
		if err := os.MkdirAll(filepath.Join(d, s), 0755); err != nil {
			panic(err)
		}
	}
	return cliDir{d}
}

func (d cliDir) close()           { os.RemoveAll(d.root) }
func (d cliDir) cacheDir() string { return filepath.Join(d.root, "cache", "gts-cache") }

// entries: the files of the cache directory, sorted
func (d cliDir) entries() []string {
	fis, err := ioutil.ReadDir(d.cacheDir())
	if err != nil {
		return nil
	}
	var out []string
	for _, fi := range fis {
		out = append(out, fi.Name())
	}
	sort.Strings(out)
	return out
}

// run executes one invocation in the scratch directory.
func (d cliDir) run(r cliRun, nocache bool) cliResult { return d.runEnv(r, nocache, nil, -1, 0) }

// runEnv: as run, with another environment (env != nil replaces the HOME / XDG_CACHE_HOME /
// TMPDIR settings) and, when skip >= 0, with stdin a REGULAR FILE that holds `skip` bytes of
// other text in front of the input and is positioned behind them (what `{ read x; gts …; } < file`
// hands to the command).
// outBlocks > 0: stdout is a regular file under `ulimit -f outBlocks` (512-byte blocks): the
// output writer fails once the file is full.
func (d cliDir) runEnv(r cliRun, nocache bool, env []string, skip int, outBlocks int) cliResult {
	args := []string{r.cmd}
	if nocache {
		// first: go-gts/flags lets a slice option (-q, -n) swallow following words depending on what
		// comes after them, so a trailing --no-cache can change how the other arguments are read
		args = append(args, "--no-cache")
	}
	outPath := ""
	for _, a := range r.args {
		switch {
		case strings.HasPrefix(a, "@SEC"):
			i, _ := strconv.Atoi(a[4:])
			p := filepath.Join(d.root, "sec", "s"+strconv.Itoa(i))
			if r.secs[i].kind == "none" {
				os.Remove(p)
			} else if err := ioutil.WriteFile(p, r.secs[i].bytes(), 0644); err != nil {
				panic(err)
			}
			args = append(args, p)
		case strings.HasPrefix(a, "@OUT:"):
			outPath = filepath.Join(d.root, "out", a[5:])
			os.Remove(outPath)
			args = append(args, outPath)
		default:
			args = append(args, a)
		}
	}
	ctx, cancel := context.WithTimeout(context.Background(), 5*time.Second)
	defer cancel()
	cmd := exec.CommandContext(ctx, gtsBinary(), args...)
	limited := filepath.Join(d.root, "stdout-limited")
	if outBlocks > 0 {
		os.Remove(limited)
		sh := fmt.Sprintf("ulimit -f %d; exec \"$0\" \"$@\" > %s", outBlocks, limited)
		cmd = exec.CommandContext(ctx, "/bin/sh", append([]string{"-c", sh, gtsBinary()}, args...)...)
	}
	cmd.Env = []string{"HOME=" + filepath.Join(d.root, "home"), "XDG_CACHE_HOME=" + filepath.Join(d.root, "cache"),
		"TMPDIR=" + filepath.Join(d.root, "tmp"), "PATH=/usr/bin:/bin"}
	if env != nil {
		cmd.Env = append([]string{"PATH=/usr/bin:/bin"}, env...)
	}
	cmd.Stdin = bytes.NewReader(r.primary.bytes())
	if skip >= 0 {
		p := filepath.Join(d.root, "stdin.txt")
		pre := bytes.Repeat([]byte("# header line\n"), skip/14+1)[:skip]
		if err := ioutil.WriteFile(p, append(append([]byte{}, pre...), r.primary.bytes()...), 0644); err != nil {
			panic(err)
		}
		f, err := os.Open(p)
		if err != nil {
			panic(err)
		}
		defer f.Close()
		if _, err := f.Seek(int64(skip), 0); err != nil {
			panic(err)
		}
		cmd.Stdin = f
	}
	var stdout bytes.Buffer
	cmd.Stdout = &stdout
	cmd.Stderr = ioutil.Discard
	err := cmd.Run()
	res := cliResult{}
	if ctx.Err() != nil {
		res.status = 124
	} else if ee, ok := err.(*exec.ExitError); ok {
		res.status = ee.ExitCode()
	} else if err != nil {
		panic(err)
	}
	res.out = stdout.Bytes()
	if outBlocks > 0 {
		res.out, _ = ioutil.ReadFile(limited)
	}
	if outPath != "" {
		if b, err := ioutil.ReadFile(outPath); err == nil {
			res.out = append(append([]byte{}, res.out...), b...)
		}
	}
	return res
}

// ---------------------------------------------------------------------------
// protocol line

func (r cliRun) enc(exec cliResult) string {
	args := make([]string, len(r.args))
	for i, a := range r.args {
		args[i] = encStr(a)
	}
	secs := make([]string, len(r.secs))
	for i, s := range r.secs {
		secs[i] = s.enc()
	}
	env := make([]string, len(r.env))
	for i, e := range r.env {
		env[i] = "(" + e[0] + " " + encStr(e[1]) + ")"
	}
	root := sha1.Sum(r.primary.bytes())
	return fmt.Sprintf("(R %s %s %s %s %s %s %s %d x%s x%s)", r.cmd, encList(args), r.primary.enc(), encList(secs),
		b01(r.ofile() != ""), encList(env), b01(r.early), exec.status, exec.digest(), hex.EncodeToString(root[:]))
}

func decRun(s sexp) (cliRun, string) {
	a := s.list[1:]
	r := cliRun{cmd: a[0].atom, primary: decInput(a[2])}
	for _, x := range a[1].list {
		r.args = append(r.args, string(decBytes(x)))
	}
	for _, x := range a[3].list {
		r.secs = append(r.secs, decInput(x))
	}
	root := strings.TrimPrefix(a[9].atom, "x")
	return r, root
}

func tamperFile(path, kind string) {
	b, err := ioutil.ReadFile(path)
	if err != nil {
		return
	}
	switch kind {
	case "flip":
		if len(b) > 0 {
			b[len(b)-1] ^= 1
		}
	case "hdr":
		if len(b) > 0 {
			b[0] ^= 1
		}
	case "trunc":
		if len(b) > 10 {
			b = b[:10]
		}
	default:
		b = nil
	}
	if err := ioutil.WriteFile(path, b, 0644); err != nil {
		panic(err)
	}
}

// c14RunHist executes the history of a `cli.hist` line on the real binary with the cache enabled
// and reports, per step, `status:outdigest:ids`.
func c14RunHist(steps []sexp) string {
	d := newCliDir()
	defer d.close()
	first := map[string]int{}
	ids := func(k int) string {
		var out []int
		for _, n := range d.entries() {
			if _, ok := first[n]; !ok {
				first[n] = k
			}
			out = append(out, first[n])
		}
		sort.Ints(out)
		ss := make([]string, len(out))
		for i, x := range out {
			ss[i] = strconv.Itoa(x)
		}
		return strings.Join(ss, ",")
	}
	var answers []string
	for k, st := range steps {
		if !st.isL || len(st.list) == 0 {
			return "BAD-OP"
		}
		switch st.list[0].atom {
		case "R":
			run, root := decRun(st)
			got := sha1.Sum(run.primary.bytes())
			if hex.EncodeToString(got[:]) != root {
				return "BAD-DIGEST"
			}
			res := d.run(run, false)
			answers = append(answers, res.String()+":"+ids(k))
		case "T":
			j := decInt(st.list[1])
			for n, f := range first {
				if f == j {
					tamperFile(filepath.Join(d.cacheDir(), n), st.list[2].atom)
				}
			}
			answers = append(answers, "T:"+ids(k))
		default:
			return "BAD-OP"
		}
	}
	return strings.Join(answers, " ")
}

// ---------------------------------------------------------------------------
// the command surface: options and positionals of the 19 cached subcommands

type cliOpt struct {
	long, short string
	kind        string // bool val multi
	gov         string // the Go variable the payload reads
	vals        []string
}

type cliPos struct {
	kind string // locator file str extra
	gov  string
	vals []string
}

type cliCmd struct {
	name   string
	pos    []cliPos
	opts   []cliOpt
	format bool // has -F/--format (and a filetype tuple)
	outVar string
}

var c14Locators = []string{"^100", "10..40", "CDS", "gene", "complement(20..50)", "CDS@^-5..$+5", "@^..^10", "$-20..$", "gene/gene=A"}

// unusual spellings too: a name gts does not know is "no -F" for the writer AND for the key (seeded
// change W22-1: unknown names became an error behind the cache look-up)
var c14Formats = []string{"", "fasta", "genbank", "embl", "FASTA", "gbk", "fa"}

func fmtOpt() cliOpt { return cliOpt{"format", "F", "val", "format", c14Formats} }

var c14Cmds = []cliCmd{
	{name: "annotate", pos: []cliPos{{kind: "file", gov: "featinPath"}}, format: true},
	{name: "clear", format: true},
	{name: "complement", format: true},
	{name: "define", pos: []cliPos{{kind: "str", gov: "key", vals: []string{"gene", "misc_feature"}},
		{kind: "str", gov: "locstr", vals: []string{"3..20", "complement(5..9)", "join(1..3,7..9)", "42"}}},
		opts: []cliOpt{{"qualifier", "q", "multi", "propstrs", []string{"note=x", "gene=y", "pseudo"}}}, format: true},
	{name: "delete", pos: []cliPos{{kind: "locator", gov: "locstr"}}, opts: []cliOpt{{"erase", "e", "bool", "erase", nil}}, format: true},
	{name: "extract", pos: []cliPos{{kind: "extra", gov: "locstrs", vals: c14Locators}},
		opts: []cliOpt{{"invert-region", "v", "bool", "invert", nil}}, format: true},
	{name: "infix", pos: []cliPos{{kind: "locator", gov: "locstr"}, {kind: "file", gov: "hostPath"}},
		opts: []cliOpt{{"embed", "e", "bool", "embed", nil}}, format: true},
	{name: "insert", pos: []cliPos{{kind: "locator", gov: "locstr"}, {kind: "file", gov: "guestPath"}},
		opts: []cliOpt{{"embed", "e", "bool", "embed", nil}}, format: true},
	{name: "join", opts: []cliOpt{{"circular", "c", "bool", "circular", nil}}, format: true},
	{name: "pick", pos: []cliPos{{kind: "str", gov: "list", vals: []string{"1", "2", "1-2", "2-", "-1", "1,3"}}},
		opts: []cliOpt{{"feature", "f", "bool", "feature", nil}}, format: true},
	{name: "query", opts: []cliOpt{
		{"name", "n", "multi", "names", []string{"gene", "product", "note", "db_xref"}},
		{"delimiter", "d", "val", "delim", []string{"\t", ",", ";"}},
		{"separator", "t", "val", "sepstr", []string{",", ";", "|"}},
		{"no-header", "H", "bool", "noheader", nil},
		{"source", "", "bool", "source", nil},
		{"no-seqid", "I", "bool", "noseqid", nil},
		{"no-key", "K", "bool", "nokey", nil},
		{"no-location", "L", "bool", "noloc", nil},
		{"empty", "", "bool", "empty", nil}}, outVar: "outPath"},
	{name: "repair", format: true},
	{name: "reverse", format: true},
	{name: "rotate", pos: []cliPos{{kind: "locator", gov: "locstr"}}, format: true},
	{name: "search", pos: []cliPos{{kind: "file", gov: "queryPath"}}, opts: []cliOpt{
		{"key", "k", "val", "featureKey", []string{"misc_feature", "hit"}},
		{"qualifier", "q", "multi", "propstrs", []string{"note=x", "label=y"}},
		{"exact", "e", "bool", "exact", nil},
		{"no-complement", "", "bool", "nocomplement", nil}}, format: true},
	{name: "select", pos: []cliPos{{kind: "extra", gov: "selectors", vals: []string{"CDS", "gene", "source", "/gene=A", "CDS/product", "mat_peptide"}}},
		opts: []cliOpt{{"strand", "s", "val", "strand", []string{"both", "forward", "reverse"}},
			{"invert-match", "v", "bool", "invert", nil}}, format: true},
	{name: "sort", opts: []cliOpt{{"reverse", "r", "bool", "reverse", nil}}, format: true},
	{name: "split", pos: []cliPos{{kind: "locator", gov: "locstr"}}, format: true},
	{name: "summary", opts: []cliOpt{{"no-feature", "F", "bool", "nofeature", nil}, {"no-qualifier", "Q", "bool", "noqualifier", nil}}, outVar: "outPath"},
}

func c14Cmd(name string) *cliCmd {
	for i := range c14Cmds {
		if c14Cmds[i].name == name {
			return &c14Cmds[i]
		}
	}
	panic("unknown command " + name)
}

// cliChoice: one concrete invocation, before it is rendered to arguments.
type cliChoice struct {
	cmd     *cliCmd
	pos     [][]string          // values per positional (file: "@lit" or "" = use sec)
	sec     map[int]cliInput    // positional index -> secondary file content
	bools   map[string]bool     // by long name
	vals    map[string][]string // by long name
	format  string
	ofile   string
	primary cliInput
	useLong bool
}

func (c cliChoice) clone() cliChoice {
	n := c
	n.pos = make([][]string, len(c.pos))
	for i := range c.pos {
		n.pos[i] = append([]string{}, c.pos[i]...)
	}
	n.sec = map[int]cliInput{}
	for k, v := range c.sec {
		n.sec[k] = v
	}
	n.bools = map[string]bool{}
	for k, v := range c.bools {
		n.bools[k] = v
	}
	n.vals = map[string][]string{}
	for k, v := range c.vals {
		n.vals[k] = append([]string{}, v...)
	}
	return n
}

func joinList(xs []string) string {
	return strconv.Itoa(len(xs)) + "\x00" + strings.Join(xs, "\x00")
}

func sha1hex(p []byte) string {
	s := sha1.Sum(p)
	return hex.EncodeToString(s[:])
}

// run renders the choice: arguments, secondary files, the payload environment, and whether the
// invocation fails before it consults the cache.
func (c cliChoice) run() cliRun {
	r := cliRun{cmd: c.cmd.name, primary: c.primary}
	env := map[string]string{"ctx": c.cmd.name}
	flag := func(o cliOpt) string {
		if c.useLong || o.short == "" {
			return "--" + o.long
		}
		return "-" + o.short
	}
	for _, o := range c.cmd.opts {
		switch o.kind {
		case "bool":
			env[o.gov] = b01(c.bools[o.long])
			if c.bools[o.long] {
				r.args = append(r.args, flag(o))
			}
		case "val":
			v := o.vals[0]
			if vs, ok := c.vals[o.long]; ok && len(vs) == 1 {
				v = vs[0]
				r.args = append(r.args, flag(o), v)
			}
			env[o.gov] = v
		case "multi":
			vs := c.vals[o.long]
			for _, v := range vs {
				r.args = append(r.args, flag(o), v)
			}
			env[o.gov] = joinList(vs)
		}
	}
	if c.cmd.format {
		if c.format != "" {
			r.args = append(r.args, "-F", c.format)
		}
	}
	outArg := "-"
	if c.ofile != "" {
		r.args = append(r.args, "-o", "@OUT:"+c.ofile)
		outArg = c.ofile
	}
	if c.cmd.format {
		ft := seqio.Detect(outArg)
		if c.format != "" {
			ft = seqio.ToFileType(c.format)
		}
		env["filetype"] = strconv.Itoa(int(ft))
	}
	for i, p := range c.cmd.pos {
		switch p.kind {
		case "file":
			if len(c.pos[i]) == 1 && strings.HasPrefix(c.pos[i][0], "@") {
				r.args = append(r.args, c.pos[i][0])
				env[p.gov] = "L:" + c.pos[i][0]
			} else {
				k := len(r.secs)
				r.secs = append(r.secs, c.sec[i])
				r.args = append(r.args, "@SEC"+strconv.Itoa(k))
				env[p.gov] = "F:" + sha1hex(c.sec[i].bytes())
				if c.sec[i].kind == "none" {
					r.early = true
				}
			}
		case "extra":
			r.args = append(r.args, c.pos[i]...)
			vs := append([]string{}, c.pos[i]...)
			if c.cmd.name == "select" {
				sort.Strings(vs)
				for _, s := range vs {
					if _, err := gts.Selector(s); err != nil {
						r.early = true
					}
				}
			}
			if c.cmd.name == "extract" {
				if len(vs) == 0 {
					vs = []string{"@^..$"}
				}
				for _, s := range vs {
					if _, err := gts.AsLocator(s); err != nil {
						r.early = true
					}
				}
			}
			env[p.gov] = joinList(vs)
		default:
			v := c.pos[i][0]
			r.args = append(r.args, v)
			env[p.gov] = v
			if p.kind == "locator" {
				if _, err := gts.AsLocator(v); err != nil {
					r.early = true
				}
			}
		}
	}
	// derived variables of the payload (go2lean: Command.derived), computed with the repository's own functions
	switch c.cmd.name {
	case "annotate":
		env["featsum"] = env["featinPath"]
	case "insert":
		env["guestSum"] = env["guestPath"]
	case "infix":
		env["hostSum"] = env["hostPath"]
	case "search":
		env["querySum"] = env["queryPath"]
	case "define":
		loc, err := gts.AsLocation(env["locstr"])
		if err != nil {
			r.early = true
			env["loc"] = ""
		} else {
			env["loc"] = loc.String()
		}
	case "query":
		sep := []rune(env["sepstr"])
		if len(sep) != 1 {
			r.early = true
			env["comma"] = ""
		} else {
			env["comma"] = string(sep[0])
		}
	case "pick":
		if !c14PickOK(env["list"]) {
			r.early = true
		}
	}
	keys := make([]string, 0, len(env))
	for k := range env {
		keys = append(keys, k)
	}
	sort.Strings(keys)
	for _, k := range keys {
		r.env = append(r.env, [2]string{k, env[k]})
	}
	return r
}

// c14PickOK: pick.go asPicker calls mustAtoi (panics) on every number of the list
func c14PickOK(list string) bool {
	for _, part := range strings.Split(list, ",") {
		for _, n := range strings.SplitN(part, "-", 2) {
			if n == "" {
				continue
			}
			if _, err := strconv.Atoi(n); err != nil {
				return false
			}
		}
	}
	return true
}

// ---------------------------------------------------------------------------
// generators

var c14FeatureTables = [][]byte{
	[]byte("     gene            10..40\n                     /gene=\"zz\"\n     misc_feature    complement(50..60)\n                     /note=\"hello\"\n"),
	[]byte("     gene            11..40\n                     /gene=\"zz\"\n"),
	[]byte("     CDS             1..9\n                     /product=\"p\"\n"),
}

func c14Secondary(r *rng, cmd string, variant int) cliInput {
	switch cmd {
	case "annotate":
		return inHex(c14FeatureTables[variant%len(c14FeatureTables)])
	default:
		files := []string{"NC_001422_part.fasta", "NC_001422_part.gb", "NC_001422.fasta"}
		return inFile(files[variant%len(files)])
	}
}

var c14Primaries = []cliInput{inFile("NC_001422_part.gb"), inFile("NC_001422.gb"), inFile("NC_001422.fasta"), inFile("pBAT5.txt"),
	inCat(inFile("NC_001422.gb"), inFile("NC_001422_part.gb")), // two records: sort, pick, join have something to do
	inCat(inFile("NC_001422_part.fasta"), inFile("NC_001422.fasta"))}

// c14Invalid: inputs on which a command fails after it has started to read (and, for the
// concatenations, after it has written the output of the first record)
func c14Invalid(r *rng, k int) cliInput {
	switch k % 6 {
	case 0:
		return inTrunc("NC_001422_part.gb", 3000+r.intn(2000)) // inside the feature table
	case 1:
		return inTrunc("NC_001422_part.gb", 6100+r.intn(100)) // inside ORIGIN
	case 2:
		return inLenMis("NC_001422_part.gb")
	case 3:
		return inCat(inFile("NC_001422_part.gb"), inTrunc("NC_001422_part.gb", 2000+r.intn(3000)))
	case 4:
		return inCat(inFile("NC_001422_part.gb"), inLenMis("NC_001422_part.gb"))
	default:
		return inCat(inFile("pBAT5.txt"), inTrunc("NC_001422.gb", 9000+r.intn(10000)))
	}
}

func c14Base(r *rng, cmd *cliCmd, primary cliInput) cliChoice {
	c := cliChoice{cmd: cmd, primary: primary, sec: map[int]cliInput{}, bools: map[string]bool{}, vals: map[string][]string{},
		useLong: r.intn(3) == 0}
	c.pos = make([][]string, len(cmd.pos))
	for i, p := range cmd.pos {
		switch p.kind {
		case "locator":
			c.pos[i] = []string{r.pick(c14Locators)}
		case "file":
			if (cmd.name == "insert" && r.intn(3) == 0) || (cmd.name == "search" && r.intn(3) != 0) {
				// "@aa", "@tt", "@aaa": plain queries whose occurrences OVERLAP — only there do -e (Search: every
				// occurrence) and the default (Match: non-overlapping hits) differ for a query without an
				// ambiguity code (seeded change W32-1: `exact && ambiguous` in the key of gts search)
				c.pos[i] = []string{r.pick([]string{"@acgt", "@atg", "@rtg", "@ggatcc", "@catn", "@aa", "@tt", "@aaa"})}
			} else {
				c.sec[i] = c14Secondary(r, cmd.name, r.intn(3))
			}
		case "str":
			c.pos[i] = []string{r.pick(p.vals)}
		case "extra":
			n := r.intn(3)
			if cmd.name == "select" && n == 0 {
				n = 1
			}
			for j := 0; j < n; j++ {
				c.pos[i] = append(c.pos[i], r.pick(p.vals))
			}
		}
	}
	for _, o := range cmd.opts {
		switch o.kind {
		case "bool":
			c.bools[o.long] = r.intn(3) == 0
		case "val":
			if r.intn(2) == 0 {
				c.vals[o.long] = []string{r.pick(o.vals)}
			}
		case "multi":
			n := r.intn(3)
			for j := 0; j < n; j++ {
				c.vals[o.long] = append(c.vals[o.long], r.pick(o.vals))
			}
		}
	}
	if cmd.format && r.intn(3) == 0 {
		c.format = r.pick(c14Formats)
	}
	return c
}

// c14Variants: every single change of one option / positional / secondary input / format of a
// choice (the boolean power-set is reached through the random bases).
func c14Variants(r *rng, c cliChoice) []cliChoice {
	var out []cliChoice
	for _, o := range c.cmd.opts {
		switch o.kind {
		case "bool":
			n := c.clone()
			n.bools[o.long] = !c.bools[o.long]
			out = append(out, n)
		case "val":
			cur := o.vals[0]
			if vs, ok := c.vals[o.long]; ok {
				cur = vs[0]
			}
			n := c.clone()
			n.vals[o.long] = []string{pickOther(r, o.vals, cur)}
			out = append(out, n)
		case "multi":
			n := c.clone()
			n.vals[o.long] = append(n.vals[o.long], o.vals[r.intn(len(o.vals))])
			out = append(out, n)
		}
	}
	for i, p := range c.cmd.pos {
		n := c.clone()
		switch p.kind {
		case "locator":
			n.pos[i] = []string{pickOther(r, c14Locators, c.pos[i][0])}
		case "str":
			n.pos[i] = []string{pickOther(r, p.vals, c.pos[i][0])}
		case "extra":
			n.pos[i] = append(n.pos[i], p.vals[r.intn(len(p.vals))])
		case "file":
			// the content of the secondary file changes, its path stays
			if len(c.pos[i]) == 1 {
				n.pos[i] = []string{c.pos[i][0] + "a"}
			} else {
				for k := 0; k < 3; k++ {
					s := c14Secondary(r, c.cmd.name, k)
					if !bytes.Equal(s.bytes(), c.sec[i].bytes()) {
						n.sec[i] = s
						break
					}
				}
			}
		}
		out = append(out, n)
	}
	if c.cmd.format {
		for _, f := range c14Formats {
			if f != c.format {
				n := c.clone()
				n.format = f
				out = append(out, n)
				break
			}
		}
	}
	return out
}

type cliStep struct {
	run    *cliRun
	tamper string
	target int
}

type cliHist struct {
	steps []cliStep
	kind  string
	// alternatives: the first of (this, alts…) whose steps 0 and 1 differ uncached is executed
	alts []cliHist
	// changed[i]: step i differs from step i-1 only in its primary/secondary input
	inputChanged map[int]bool
}

func histOf(kind string, runs ...cliRun) cliHist {
	h := cliHist{kind: kind, inputChanged: map[int]bool{}}
	for i := range runs {
		h.steps = append(h.steps, cliStep{run: &runs[i]})
	}
	return h
}

type cliHistResult struct {
	hist      cliHist // the history that was executed (one of the alternatives)
	effective bool    // steps 0 and 1 differ uncached (only meaningful with alternatives)
	line      string
	answer    string
	nocache   []cliResult
	again     []cliResult // determinism spot check (nil when not executed)
}

func (h cliHist) execute(spot bool) cliHistResult {
	d := newCliDir()
	defer d.close()
	res := cliHistResult{hist: h, effective: true}
	if len(h.alts) > 0 {
		res.effective = false
		for _, c := range append([]cliHist{h}, h.alts...) {
			res.hist = c
			if d.run(*c.steps[0].run, true).String() != d.run(*c.steps[1].run, true).String() {
				res.effective = true
				break
			}
		}
		h = res.hist
	}
	parts := []string{"cli.hist"}
	for _, st := range h.steps {
		if st.run == nil {
			parts = append(parts, fmt.Sprintf("(T %d %s)", st.target, st.tamper))
			res.nocache = append(res.nocache, cliResult{})
			if spot {
				res.again = append(res.again, cliResult{})
			}
			continue
		}
		x := d.run(*st.run, true)
		res.nocache = append(res.nocache, x)
		if spot {
			res.again = append(res.again, d.run(*st.run, true))
		}
		parts = append(parts, st.run.enc(x))
	}
	res.line = strings.Join(parts, " ")
	res.answer = c14RunHist(parseLine(res.line)[1:])
	return res
}

func propC14(r *Run) {
	thorough := r.tier == "thorough"
	primaries := append([]cliInput{}, c14Primaries...)
	if thorough {
		primaries = append(primaries, inFile("NC_000913.3.min.gb"))
	}
	var hists []cliHist
	c14KeyEncoding(r)
	c14Environments(r)
	c14WriterFaults(r)
	c14Pipes(r)

	// --- systematic sweeps, every command
	for ci := range c14Cmds {
		cmd := &c14Cmds[ci]
		nBases, nCand := 4, 8
		if thorough {
			nBases, nCand = 12, 16
		}
		// S1: every single change of an option / positional / format / secondary content, as the
		// history (base, variant, base).  Several candidate bases are prepared; the worker uses the
		// first one on which the change alters the uncached output (a change that does not show
		// cannot reveal a missing payload tuple).
		bases := make([]cliChoice, nCand)
		vars := make([][]cliChoice, nCand)
		for k := range bases {
			bases[k] = c14Base(r.rng, cmd, primaries[(ci+k)%len(primaries)])
			vars[k] = c14Variants(r.rng, bases[k])
		}
		for vi := range vars[0] {
			var cands []cliHist
			for k := range bases {
				baseRun, vr := bases[k].run(), vars[k][vi].run()
				h := histOf("sweep/option", baseRun, vr, baseRun)
				if len(vr.secs) == len(baseRun.secs) && strings.Join(vr.args, "\x00") == strings.Join(baseRun.args, "\x00") {
					h.kind = "sweep/secondary"
					h.inputChanged[1] = true
				}
				cands = append(cands, h)
			}
			h := cands[0]
			h.alts = cands[1:]
			hists = append(hists, h)
		}
		// S2: the ORDER of a multi-valued positional / option (base = [a, b], variant = [b, a]), and
		// string arguments that differ in KIND only (join / order, point / between-site): value
		// pairs that a lossy encoding of the key would confuse
		for i, p := range cmd.pos {
			if p.kind != "extra" {
				continue
			}
			var cands []cliHist
			for k := 0; k < nCand; k++ {
				b2 := bases[k].clone()
				a := p.vals[r.rng.intn(len(p.vals))]
				b2.pos[i] = []string{a, pickOther(r.rng, p.vals, a)}
				v2 := b2.clone()
				v2.pos[i] = []string{b2.pos[i][1], b2.pos[i][0]}
				cands = append(cands, histOf("sweep/order", b2.run(), v2.run(), b2.run()))
			}
			h := cands[0]
			h.alts = cands[1:]
			hists = append(hists, h)
		}
		for _, o := range cmd.opts {
			if o.kind != "multi" {
				continue
			}
			var cands []cliHist
			for k := 0; k < nCand; k++ {
				b2 := bases[k].clone()
				a := o.vals[r.rng.intn(len(o.vals))]
				b2.vals[o.long] = []string{a, pickOther(r.rng, o.vals, a)}
				v2 := b2.clone()
				v2.vals[o.long] = []string{b2.vals[o.long][1], b2.vals[o.long][0]}
				cands = append(cands, histOf("sweep/order", b2.run(), v2.run(), b2.run()))
			}
			h := cands[0]
			h.alts = cands[1:]
			hists = append(hists, h)
		}
		// SPLIT: one multi-valued positional / option value with a blank (or a comma) inside against
		// the two values it falls into: ["a b"] and ["a", "b"] — a key that joins the list with a
		// separator confuses them (seeded change W13-2: `strings.Join(*selectors, " ")` in the payload
		// of gts select)
		for i, p := range cmd.pos {
			if p.kind != "extra" {
				continue
			}
			var cands []cliHist
			for k := 0; k < nCand; k++ {
				b2 := bases[k].clone()
				a := p.vals[r.rng.intn(len(p.vals))]
				b := pickOther(r.rng, p.vals, a)
				if b < a { // some commands sort the list first: the joined text of the pair is then "lo hi"
					a, b = b, a
				}
				for _, sep := range []string{" ", ","} {
					one := b2.clone()
					one.pos[i] = []string{a + sep + b}
					two := b2.clone()
					two.pos[i] = []string{a, b}
					cands = append(cands, histOf("sweep/split", one.run(), two.run(), one.run()))
				}
			}
			h := cands[0]
			h.alts = cands[1:]
			hists = append(hists, h)
		}
		for _, o := range cmd.opts {
			if o.kind != "multi" {
				continue
			}
			var cands []cliHist
			for k := 0; k < nCand; k++ {
				b2 := bases[k].clone()
				a := o.vals[r.rng.intn(len(o.vals))]
				b := pickOther(r.rng, o.vals, a)
				if b < a {
					a, b = b, a
				}
				for _, sep := range []string{" ", ","} {
					one := b2.clone()
					one.vals[o.long] = []string{a + sep + b}
					two := b2.clone()
					two.vals[o.long] = []string{a, b}
					cands = append(cands, histOf("sweep/split", one.run(), two.run(), one.run()))
				}
			}
			h := cands[0]
			h.alts = cands[1:]
			hists = append(hists, h)
		}
		// argument texts that differ only in bytes that are not valid UTF-8 (a JSON encoding of the
		// key writes both as U+FFFD: repaired defect F32)
		for _, o := range cmd.opts {
			if o.kind != "multi" || (cmd.name != "define" && cmd.name != "search") {
				continue
			}
			var cands, cands3 []cliHist
			for k := 0; k < nCand; k++ {
				b2 := bases[k].clone()
				b2.vals[o.long] = []string{"note=a\xffb"}
				v2 := b2.clone()
				v2.vals[o.long] = []string{"note=a\xfeb"}
				cands = append(cands, histOf("sweep/bytes", b2.run(), v2.run(), b2.run()))
				// a value that is not valid UTF-8 against the TEXT of its own quoted form: an encoding
				// that quotes only what it has to maps both to the same bytes (seeded change W18-2)
				b3 := bases[k].clone()
				b3.vals[o.long] = []string{"note=a\xffb"}
				v3 := b3.clone()
				v3.vals[o.long] = []string{strconv.QuoteToASCII("note=a\xffb")}
				cands3 = append(cands3, histOf("sweep/bytes", b3.run(), v3.run(), b3.run()))
			}
			h := cands[0]
			h.alts = cands[1:]
			hists = append(hists, h)
			h3 := cands3[0]
			h3.alts = cands3[1:]
			hists = append(hists, h3)
		}
		// a secondary FILE whose raw bytes are the text of a literal argument (`@acgt`): the two
		// invocations hash the same bytes but mean different things (repaired defect F35: the file
		// "does not contain a sequence" error was built and dropped, the empty result cached)
		if cmd.name == "insert" || cmd.name == "infix" || cmd.name == "search" {
			for i, p := range cmd.pos {
				if p.kind != "file" {
					continue
				}
				var cands []cliHist
				for k := 0; k < nCand; k++ {
					lit := "@" + []string{"acgt", "ACGTAC", "ggatcc"}[k%3]
					fb := bases[k].clone()
					fb.pos[i] = nil
					fb.sec[i] = inHex([]byte(lit))
					lb := bases[k].clone()
					lb.pos[i] = []string{lit}
					delete(lb.sec, i)
					cands = append(cands, histOf("sweep/literal-vs-file", fb.run(), lb.run(), fb.run(), lb.run()))
				}
				h := cands[0]
				h.alts = cands[1:]
				hists = append(hists, h)
			}
		}
		if cmd.name == "define" {
			for _, pr := range [][2]string{{"join(1..3,7..9)", "order(1..3,7..9)"}, {"6", "5^6"},
				{"complement(join(1..3,7..9))", "complement(order(1..3,7..9))"}, {"complement(6)", "complement(5^6)"}} {
				var cands []cliHist
				for k := 0; k < nCand; k++ {
					b2 := bases[k].clone()
					b2.pos[1] = []string{pr[0]}
					v2 := b2.clone()
					v2.pos[1] = []string{pr[1]}
					cands = append(cands, histOf("sweep/kind", b2.run(), v2.run(), b2.run()))
				}
				h := cands[0]
				h.alts = cands[1:]
				hists = append(hists, h)
			}
		}
		for b := 0; b < nBases; b++ {
			base := bases[b]
			baseRun := base.run()
			// S3: the primary input changes
			other := base.clone()
			other.primary = primaries[(ci+b+1)%len(primaries)]
			h := histOf("sweep/input", baseRun, other.run(), baseRun)
			h.inputChanged[1] = true
			hists = append(hists, h)
			// S4: failing runs: bad, bad, good, good
			bad := base.clone()
			bad.primary = c14Invalid(r.rng, ci+b)
			hists = append(hists, histOf("sweep/failure", bad.run(), bad.run(), baseRun, baseRun))
			// S5: -o file (a hit removes the entry)
			of := base.clone()
			of.ofile = r.rng.pick([]string{"o.txt", "o.fasta", "o.gb"})
			if b%2 == 0 {
				hists = append(hists, histOf("sweep/ofile", baseRun, of.run(), of.run(), baseRun))
			} else {
				hists = append(hists, histOf("sweep/ofile", of.run(), of.run(), of.run(), baseRun))
			}
			// S6: tampering with the entry
			th := histOf("sweep/tamper", baseRun)
			th.steps = append(th.steps, cliStep{tamper: r.rng.pick([]string{"flip", "hdr", "trunc", "zero"}), target: 0})
			if b%2 == 0 {
				th.steps = append(th.steps, cliStep{run: &baseRun}, cliStep{run: &baseRun})
			} else {
				badRun := bad.run()
				th.steps = append(th.steps, cliStep{run: &badRun}, cliStep{run: &baseRun})
			}
			hists = append(hists, th)
			// S7: failures before the cache is consulted
			if early, ok := c14Early(r.rng, base); ok {
				er := early.run()
				hists = append(hists, histOf("sweep/early", er, baseRun, er, baseRun))
			}
		}
	}
	// --- a secondary input that changes only FAR BEHIND its beginning (beyond the first 4096 /
	// 8192 bytes), with and without a damaged line in the middle: the key has to cover the WHOLE
	// file (seeded change W7-2: `gts annotate` hashed the blocks read by a first, partial parse and
	// took the features from a lenient second one).  History (A, B, A).
	for ci := range c14Cmds {
		cmd := &c14Cmds[ci]
		for i, p := range cmd.pos {
			if p.kind != "file" {
				continue
			}
			for variant := 0; variant < 3; variant++ {
				mk := func(tail int) cliInput {
					var b bytes.Buffer
					if cmd.name == "annotate" {
						for k := 0; k < 160; k++ {
							if variant == 1 && k == 40 {
								b.WriteString("     misc_feature    12..!!\n") // a line the table parser rejects
							}
							if variant == 2 && k == 40 {
								b.WriteString("\n") // an empty line inside the table
							}
							fmt.Fprintf(&b, "     misc_feature    %d..%d\n                     /note=\"feature number %d of the table\"\n", k+1, k+9, k)
						}
						fmt.Fprintf(&b, "     misc_feature    %d..%d\n                     /note=\"the last one\"\n", tail, tail+7)
						return inHex(b.Bytes())
					}
					for k := 0; k < 40; k++ {
						fmt.Fprintf(&b, ">guest%d\n%s\n", k, strings.Repeat("acgtacgtag", 20+k%3))
						if variant == 1 && k == 15 {
							b.WriteString("\n\n")
						}
					}
					fmt.Fprintf(&b, ">last\n%s\n", strings.Repeat("ttga", tail))
					return inHex(b.Bytes())
				}
				base := c14Base(r.rng, cmd, primaries[0])
				base.pos[i] = nil
				base.sec[i] = mk(3)
				other := base.clone()
				other.sec[i] = mk(5)
				if variant == 0 {
					h := histOf("sweep/secondary-tail", base.run(), other.run(), base.run())
					h.inputChanged[1] = true
					h.inputChanged[2] = true
					hists = append(hists, h)
					continue
				}
				// damaged in the middle: the reader of the secondary input may stop there, and the key
				// covers the bytes that were READ (the digest sits on a tee), which the protocol model
				// does not describe — oracle only: in ONE cache directory every cached run writes what
				// its --no-cache run writes
				ra, rb := base.run(), other.run()
				if ra.early || ra.ofile() != "" {
					continue
				}
				d := newCliDir()
				line := fmt.Sprintf("cli.env \"a secondary input damaged in the middle (variant %d) that changes only in its tail\" gts %s %s", variant, ra.cmd, strings.Join(ra.args, " "))
				crumb(line)
				for step, rn := range []cliRun{ra, rb, ra, rb} {
					want := d.runEnv(rn, true, nil, -1, 0)
					got := d.runEnv(rn, false, nil, -1, 0)
					r.count("env/secondary damaged in the middle, tail changed")
					r.eval(line+" step "+itoa(step), want.status == 0)
					if got.status != want.status || !bytes.Equal(got.out, want.out) {
						r.fail(Failure{Oracle: "caching is transparent when a secondary input that is damaged in the middle changes only in its tail (history A, B, A, B in one cache directory)", Op: line + " step " + itoa(step),
							Got:  fmt.Sprintf("status %d, %d bytes (sha1 %s)", got.status, len(got.out), sha1hex(got.out)[:12]),
							Want: fmt.Sprintf("status %d, %d bytes (sha1 %s)", want.status, len(want.out), sha1hex(want.out)[:12])})
						break
					}
				}
				d.close()
			}
		}
	}

	// --- annotation-only changes: the secondary input (guest, host, query, feature table) changes
	// ONLY in a qualifier value / a feature key / a location / a header field / the residue case /
	// the line ends, the primary input and the arguments stay; and the mirror, the primary input
	// changes only in that way.  History (base, edited, base).
	for ci := range c14Cmds {
		cmd := &c14Cmds[ci]
		nb := 2
		if thorough {
			nb = 6
		}
		for _, p := range cmd.pos {
			if p.kind == "file" {
				nb *= 2
			}
		}
		for b := 0; b < nb; b++ {
			base := c14Base(r.rng, cmd, primaries[b%2]) // the two GenBank corpus records
			for i, p := range cmd.pos {
				if p.kind != "file" {
					continue
				}
				if len(base.pos[i]) == 1 { // a literal: use a file
					base.pos[i] = nil
					base.sec[i] = c14Secondary(r.rng, cmd.name, b)
				}
				if cmd.name != "annotate" {
					base.sec[i] = inFile([]string{"NC_001422_part.gb", "pBAT5.txt", "NC_001422_part.fasta"}[(b+ci)%3])
				}
				baseRun := base.run()
				edits := c14AnnotationEdits(base.sec[i])
				labels := make([]string, 0, len(edits))
				for l := range edits {
					labels = append(labels, l)
				}
				sort.Strings(labels)
				for _, l := range labels {
					v := base.clone()
					v.sec[i] = edits[l]
					h := histOf("annotation/secondary/"+l, baseRun, v.run(), baseRun)
					h.inputChanged[1] = true
					hists = append(hists, h)
				}
			}
			baseRun := base.run()
			edits := c14AnnotationEdits(base.primary)
			labels := make([]string, 0, len(edits))
			for l := range edits {
				labels = append(labels, l)
			}
			sort.Strings(labels)
			for _, l := range labels {
				if !thorough && r.rng.intn(2) == 0 {
					continue
				}
				v := base.clone()
				v.primary = edits[l]
				h := histOf("annotation/primary/"+l, baseRun, v.run(), baseRun)
				h.inputChanged[1] = true
				hists = append(hists, h)
			}
		}
	}
	// --- declarations the regenerated table reports as not reaching the payload (bin/check hands
	// them over when `payload_complete` fails): for a switch, search the two-run history
	// (without, with, without) on several bases
	for _, item := range strings.Split(os.Getenv("VERIF_C14_UNCOVERED"), ";") {
		f := strings.Split(item, ":") // command:class:kind:long
		if len(f) != 4 || f[1] != "opt" || f[2] != "Switch" {
			continue
		}
		var cmd *cliCmd
		for i := range c14Cmds {
			if c14Cmds[i].name == f[0] {
				cmd = &c14Cmds[i]
			}
		}
		if cmd == nil {
			continue
		}
		var cands []cliHist
		for k := 0; k < 12; k++ {
			base := c14Base(r.rng, cmd, primaries[k%len(primaries)]).run()
			with := base
			with.args = append([]string{"--" + f[3]}, base.args...)
			cands = append(cands, histOf("sweep/uncovered-option", base, with, base))
		}
		h := cands[0]
		h.alts = cands[1:]
		hists = append(hists, h)
	}
	// --- the witnesses of the two repaired defects, on every run
	{
		ex := cliChoice{cmd: c14Cmd("extract"), primary: inFile("NC_001422_part.gb"), pos: [][]string{{"CDS"}}, sec: map[int]cliInput{},
			bools: map[string]bool{}, vals: map[string][]string{}}
		inv := ex.clone()
		inv.bools["invert-region"] = true
		hists = append(hists, histOf("witness/F4", ex.run(), inv.run()))
		bad := ex.clone()
		bad.primary = inCat(inFile("NC_001422_part.gb"), inTrunc("NC_001422_part.gb", 3000))
		hists = append(hists, histOf("witness/F12", bad.run(), bad.run()))
	}
	// --- random histories of length 1..4 mixing commands, variants, inputs, -o, failures
	nRandom := 1500
	if thorough {
		nRandom = 15000
	}
	for i := 0; i < nRandom; i++ {
		n := r.rng.rangeInt(1, 4)
		cmd := &c14Cmds[r.rng.intn(len(c14Cmds))]
		base := c14Base(r.rng, cmd, primaries[r.rng.intn(len(primaries))])
		pool := []cliChoice{base}
		h := cliHist{kind: "random", inputChanged: map[int]bool{}}
		for j := 0; j < n; j++ {
			var c cliChoice
			switch r.rng.intn(10) {
			case 0, 1, 2:
				c = pool[r.rng.intn(len(pool))]
			case 3, 4:
				vs := c14Variants(r.rng, pool[r.rng.intn(len(pool))])
				c = vs[r.rng.intn(len(vs))]
			case 5:
				c = pool[r.rng.intn(len(pool))].clone()
				c.primary = primaries[r.rng.intn(len(primaries))]
			case 6:
				c = pool[r.rng.intn(len(pool))].clone()
				c.primary = c14Invalid(r.rng, r.rng.intn(6))
			case 7:
				c = pool[r.rng.intn(len(pool))].clone()
				c.ofile = r.rng.pick([]string{"", "o.txt", "o.fasta", "o.gb", "o.genbank"})
			case 8:
				c = c14Base(r.rng, &c14Cmds[r.rng.intn(len(c14Cmds))], primaries[r.rng.intn(len(primaries))])
			default:
				if j > 0 && r.rng.intn(2) == 0 {
					h.steps = append(h.steps, cliStep{tamper: r.rng.pick([]string{"flip", "hdr", "trunc", "zero"}), target: r.rng.intn(j)})
					continue
				}
				c = c14Base(r.rng, cmd, primaries[r.rng.intn(len(primaries))])
			}
			pool = append(pool, c)
			run := c.run()
			h.steps = append(h.steps, cliStep{run: &run})
		}
		hists = append(hists, h)
	}

	// --- execute (worker pool), then record in generation order
	results := make([]cliHistResult, len(hists))
	workers := runtime.NumCPU()
	if workers > 16 {
		workers = 16
	}
	gtsBinary()
	var wg sync.WaitGroup
	jobs := make(chan int)
	for w := 0; w < workers; w++ {
		wg.Add(1)
		go func() {
			defer wg.Done()
			for i := range jobs {
				results[i] = hists[i].execute(i%7 == 0)
			}
		}()
	}
	for i := range hists {
		jobs <- i
	}
	close(jobs)
	wg.Wait()

	for i := range hists {
		res := results[i]
		h := res.hist
		r.record(res.line, res.answer)
		r.count("history/" + h.kind)
		if len(hists[i].alts) > 0 && !res.effective {
			// none of the candidate bases shows the change (e.g. -F "" against -F embl)
			r.count("sweep/change-without-effect/" + h.steps[0].run.cmd + " " + strings.Join(h.steps[0].run.args, " ") + " => " + strings.Join(h.steps[1].run.args, " "))
		}
		r.count(fmt.Sprintf("history/length-%d", len(h.steps)))
		if strings.HasPrefix(h.kind, "annotation/") && len(res.nocache) >= 2 {
			if res.nocache[0].String() != res.nocache[1].String() {
				r.count("annotation-shows-uncached/" + strings.TrimPrefix(h.kind, "annotation/"))
			} else {
				r.count("annotation-without-effect/" + strings.TrimPrefix(h.kind, "annotation/"))
			}
		}
		ans := strings.Split(res.answer, " ")
		if len(ans) != len(h.steps) {
			r.fail(Failure{Oracle: "the history runs to its end", Op: res.line, Got: res.answer})
			continue
		}
		prevIDs := ""
		for k, st := range h.steps {
			f := strings.SplitN(ans[k], ":", 3)
			if st.run == nil {
				r.count("step/tamper-" + st.tamper)
				prevIDs = f[len(f)-1]
				continue
			}
			want := res.nocache[k]
			got := f[0] + ":" + f[1]
			ids := f[2]
			r.eval(fmt.Sprintf("%s|%d", res.line, k), true)
			r.count("command/" + st.run.cmd)
			r.count(fmt.Sprintf("status/%d", want.status))
			switch {
			case st.run.early:
				r.count("verdict/early-failure")
			case want.status != 0:
				r.count("verdict/failed-run")
			case ids == prevIDs:
				r.count("verdict/hit")
			case len(ids) < len(prevIDs):
				r.count("verdict/hit-removes-entry")
			default:
				r.count("verdict/miss-creates-entry")
			}
			if st.run.ofile() != "" {
				r.count("output/file")
			} else {
				r.count("output/stdout")
			}
			if got != want.String() {
				r.fail(Failure{Oracle: fmt.Sprintf("run %d of the history (gts %s %s): the cached run writes the same bytes and exits with the same status as the --no-cache run",
					k, st.run.cmd, strings.Join(st.run.args, " ")), Op: res.line, Got: "cached " + got, Want: "uncached " + want.String()})
			}
			if h.inputChanged[k] && want.status == 0 && !st.run.early && k > 0 {
				// a changed primary / secondary input must miss; that it does is implied by the output
				// comparison above whenever the outputs differ.  Whether the miss wrote a new entry is
				// only recorded (the model predicts it, see the correspondence).
				if c14HasNewID(prevIDs, ids) {
					r.count("changed-input/new-entry")
				} else {
					r.count("changed-input/no-new-entry")
				}
			}
			if res.again != nil && res.again[k].String() != want.String() {
				r.fail(Failure{Oracle: fmt.Sprintf("run %d: the --no-cache run is deterministic", k), Op: res.line,
					Got: res.again[k].String(), Want: want.String()})
			}
			if want.status == 124 {
				r.fail(Failure{Oracle: fmt.Sprintf("run %d terminates within 5 s", k), Op: res.line, Got: "timeout"})
			}
			prevIDs = ids
		}
		if i < 6 || r.rng.intn(100) == 0 {
			r.sample(res.line[:minInt(len(res.line), 300)])
		}
	}
	r.notes = append(r.notes,
		fmt.Sprintf("%d histories of 1..4 invocations of the gts binary built from the tree, each over its own scratch cache directory; every invocation also with --no-cache (1 in 7 histories: twice)", len(hists)),
		"inputs: "+c14InputNames(primaries)+"; invalid: truncated record, LOCUS length raised by one, valid record followed by an invalid one; secondary inputs (feature table, guest, host, query) change content under the same path")
}

// pickOther draws a value different from cur (the lists have at least two values)
func pickOther(r *rng, vals []string, cur string) string {
	for {
		if v := r.pick(vals); v != cur {
			return v
		}
	}
}

// c14AnnotationEdits: versions of an input that differ from it ONLY in (a) a qualifier value,
// (b) a feature key / a location, (c) a header field, (d) the letter case of the residues,
// (e) trailing white space / line ends — whatever applies to the format.
func c14AnnotationEdits(in cliInput) map[string]cliInput {
	p := in.bytes()
	out := map[string]cliInput{}
	add := func(label string, e cliInput) {
		if !bytes.Equal(e.bytes(), p) {
			out[label] = e
		}
	}
	switch {
	case bytes.HasPrefix(p, []byte("LOCUS")):
		add("qualifier-value", inSub(in, "/product=\"G\"", "/product=\"major spike protein G\""))
		add("qualifier-value", inSub(in, "/label=", "/label=x"))
		add("feature-key", inSub(in, "     CDS             ", "     misc_RNA        "))
		add("feature-key", inSub(in, "     misc_feature    ", "     misc_signal     "))
		add("feature-location", inSub(in, "     gene            16..>133", "     gene            17..>133"))
		add("feature-location", inSub(in, "     terminator      160..288", "     terminator      161..288"))
		add("header-definition", inSub(in, "DEFINITION  ", "DEFINITION  edited "))
		add("residue-case", inUpcase(in))
		add("line-ends", inSubAll(in, "\n", "\r\n"))
		add("trailing-newline", inCat(in, inHex([]byte("\n"))))
	case bytes.HasPrefix(p, []byte(">")):
		add("header-definition", inSub(in, " ", " edited "))
		add("residue-case", inSub(in, "CTTAGGAG", "cttaggag"))
		add("residue-case", inSub(in, "GAGTTTTATCGCTTCC", "gagttttatcgcttcc"))
		add("line-ends", inSubAll(in, "\n", "\r\n"))
		add("trailing-newline", inCat(in, inHex([]byte("\n"))))
	default: // a feature table
		add("qualifier-value", inSub(in, "=\"zz\"", "=\"zy\""))
		add("qualifier-value", inSub(in, "=\"p\"", "=\"q\""))
		add("feature-key", inSub(in, "     gene            ", "     exon            "))
		add("feature-key", inSub(in, "     CDS             ", "     exon            "))
		add("feature-location", inSub(in, "10..40", "10..41"))
		add("feature-location", inSub(in, "11..40", "11..41"))
		add("feature-location", inSub(in, "1..9", "1..8"))
		add("line-ends", inSubAll(in, "\n", "\r\n"))
		add("trailing-newline", inCat(in, inHex([]byte("\n"))))
	}
	return out
}

func c14HasNewID(before, after string) bool {
	seen := map[string]bool{}
	for _, s := range strings.Split(before, ",") {
		seen[s] = true
	}
	for _, s := range strings.Split(after, ",") {
		if s != "" && !seen[s] {
			return true
		}
	}
	return false
}

// c14Early: a variant of the choice that fails before TryCache, when the command has one.
func c14Early(r *rng, c cliChoice) (cliChoice, bool) {
	n := c.clone()
	for i, p := range c.cmd.pos {
		switch p.kind {
		case "locator":
			n.pos[i] = []string{"@nonsense"}
			return n, true
		case "file":
			if len(c.pos[i]) == 0 {
				n.sec[i] = inNone()
				return n, true
			}
		}
	}
	switch c.cmd.name {
	case "define":
		n.pos[1] = []string{"not-a-location"}
		return n, true
	case "query":
		n.vals["separator"] = []string{"ab"}
		return n, true
	case "pick":
		n.pos[0] = []string{"x"}
		return n, true
	case "extract":
		n.pos[0] = []string{"@nonsense"}
		return n, true
	}
	return n, false
}

func c14InputNames(ins []cliInput) string {
	out := make([]string, len(ins))
	for i, in := range ins {
		out[i] = in.enc()
	}
	return strings.Join(out, " ")
}
