package main

// C11 — library operations are pure: arguments are never modified.
//
// The harness lays arguments out in memory the way the property quantifies over them — residues
// as windows `buf[off : off+len : off+cap]` of sentinel-filled buffers (spare capacity, sub-slices
// of a larger buffer, two sequences over one buffer), feature tables as windows of longer table
// arrays (spare capacity holding sentinel features or the features of an enclosing table, two
// sequences over one table), locations and qualifier lists shared between features — runs the
// real operation, and dumps EVERY backing array afterwards (the whole array, not the visible
// part) plus the result.
//
//   correspondence: the same line is answered by the Lean memory model (Gts/Model/Mem.lean via
//   Gts/Model/OpsMem.lean), which must predict the dump byte for byte.
//
//   oracle (on the real code, independent of the model): after every call every argument array
//   (buffers incl. spare capacity and the enclosing buffer; table arrays incl. the cells outside
//   the window; locations and qualifiers, compared deeply) equals a snapshot taken before the
//   program; a second application of the same operation to the same argument returns an equal
//   result; results of earlier operations still read the same after later ones.  The same
//   through seqio.GenBank values (Bytes/Features/Info/Len/Origin.String accessors).
//
// World syntax (shared with OpsMem.lean):
//   mem.prog <share> (B x<array>…) (T (F…)…) (S (ta to tl tc ba bo bl bc)…) <k> <op>…

import (
	"fmt"
	"reflect"
	"strconv"
	"strings"

	"github.com/go-gts/gts"
	"github.com/go-gts/gts/seqio"
)

func init() {
	props["C11"] = propC11
	extraOps["mem.prog"] = func(a []sexp) string { ans, _ := c11Prog(a, false, false); return ans }
	extraOps["mem.gbprog"] = func(a []sexp) string { ans, _ := c11Prog(a, true, false); return ans }
	extraOps["mem.insert"] = func(a []sexp) string { return c11Splice(a, false) }
	extraOps["mem.embed"] = func(a []sexp) string { return c11Splice(a, true) }
	extraOps["mem.insert1"] = c11Insert1
	extraOps["mem.delete"] = func(a []sexp) string {
		return c11Bytes1(a, func(s gts.Sequence, x []sexp) gts.Sequence { return gts.Delete(s, decInt(x[0]), decInt(x[1])) })
	}
	extraOps["mem.rotate"] = func(a []sexp) string {
		return c11Bytes1(a, func(s gts.Sequence, x []sexp) gts.Sequence { return gts.Rotate(s, decInt(x[0])) })
	}
	extraOps["mem.slice"] = func(a []sexp) string {
		return c11Bytes1(a, func(s gts.Sequence, x []sexp) gts.Sequence { return gts.Slice(s, decInt(x[0]), decInt(x[1])) })
	}
	extraOps["mem.reverse"] = func(a []sexp) string {
		return c11Bytes1(a, func(s gts.Sequence, x []sexp) gts.Sequence { return gts.Reverse(s) })
	}
	extraOps["mem.complement"] = func(a []sexp) string {
		return c11Bytes1(a, func(s gts.Sequence, x []sexp) gts.Sequence { return gts.Complement(s) })
	}
	extraOps["mem.transcribe"] = func(a []sexp) string {
		return c11Bytes1(a, func(s gts.Sequence, x []sexp) gts.Sequence { return gts.Transcribe(s) })
	}
	extraOps["mem.concat"] = c11Concat
	extraOps["mem.tabinsert"] = c11TabInsert
	extraOps["mem.ascomplete"] = func(a []sexp) string {
		l := decLoc(a[0])
		r := gts.VerifAsComplete(l)
		return encLoc(l) + " " + encLoc(r)
	}
	extraOps["mem.origin"] = func(a []sexp) string {
		text := decBytes(a[0])
		o := &seqio.Origin{Buffer: text, Parsed: false}
		b1 := append([]byte(nil), o.Bytes()...)
		b2 := o.Bytes()
		return encBytes(text) + " " + encBytes(b1) + " " + encBytes(b2) + " " + b01(o.Parsed) + " " + itoa(o.Len())
	}
	extraOps["mem.props"] = c11Props
}

// ---------------------------------------------------------------------------
// byte-level single-buffer ops

const c11Sentinel = 0xEE

func c11Window(buf []byte, off, n, c int) []byte { return buf[off : off+n : off+c] }

// mem.insert off len cap x<hostbuf> idx goff glen gcap x<guestbuf>
func c11Splice(a []sexp, embed bool) string {
	hb, gb := decBytes(a[3]), decBytes(a[8])
	host := gts.New(nil, nil, c11Window(hb, decInt(a[0]), decInt(a[1]), decInt(a[2])))
	guest := gts.New(nil, nil, c11Window(gb, decInt(a[5]), decInt(a[6]), decInt(a[7])))
	var r gts.Sequence
	if embed {
		r = gts.Embed(host, decInt(a[4]), guest)
	} else {
		r = gts.Insert(host, decInt(a[4]), guest)
	}
	return encBytes(hb) + " " + encBytes(gb) + " " + encBytes(r.Bytes())
}

// mem.insert1 off len cap goff glen gcap x<buffer> idx : host and guest are windows of ONE buffer
func c11Insert1(a []sexp) string {
	b := decBytes(a[6])
	host := gts.New(nil, nil, c11Window(b, decInt(a[0]), decInt(a[1]), decInt(a[2])))
	guest := gts.New(nil, nil, c11Window(b, decInt(a[3]), decInt(a[4]), decInt(a[5])))
	r := gts.Insert(host, decInt(a[7]), guest)
	return encBytes(b) + " " + encBytes(r.Bytes())
}

// mem.<op> off len cap x<buffer> args…
func c11Bytes1(a []sexp, f func(gts.Sequence, []sexp) gts.Sequence) string {
	b := decBytes(a[3])
	s := gts.New(nil, nil, c11Window(b, decInt(a[0]), decInt(a[1]), decInt(a[2])))
	r := f(s, a[4:])
	return encBytes(b) + " " + encBytes(r.Bytes())
}

// mem.concat (off len cap x<buffer>)+
func c11Concat(a []sexp) string {
	var bufs [][]byte
	var ss []gts.Sequence
	for i := 0; i+3 < len(a); i += 4 {
		b := decBytes(a[i+3])
		bufs = append(bufs, b)
		ss = append(ss, gts.New(nil, nil, c11Window(b, decInt(a[i]), decInt(a[i+1]), decInt(a[i+2]))))
	}
	r := gts.Concat(ss...)
	out := make([]string, 0, len(bufs)+1)
	for _, b := range bufs {
		out = append(out, encBytes(b))
	}
	return strings.Join(append(out, encBytes(r.Bytes())), " ")
}

func c11EncTable(ff []gts.Feature) string {
	out := make([]string, len(ff))
	for i, f := range ff {
		out[i] = encFeature(f)
	}
	return encList(out)
}

// mem.tabinsert off len cap (F…) F
func c11TabInsert(a []sexp) string {
	arr := make([]gts.Feature, len(a[3].list))
	for i, f := range a[3].list {
		arr[i] = decFeature(f)
	}
	off, n, c := decInt(a[0]), decInt(a[1]), decInt(a[2])
	ff := gts.FeatureSlice(arr[off : off+n : off+c])
	r := ff.Insert(decFeature(a[4]))
	return c11EncTable(arr) + " " + c11EncTable(r)
}

// mem.props <shared|clone> <set|add|del> (P ocap (rcap x… x…)…) key vals…
func c11Props(a []sexp) string {
	pl := a[2].list
	ocap := decInt(pl[1])
	rows := pl[2:]
	P := make(gts.Props, len(rows), maxInt(ocap, len(rows)))
	for i, row := range rows {
		vs := row.list[1:]
		r := make([]string, len(vs), maxInt(decInt(row.list[0]), len(vs)))
		for j, v := range vs {
			r[j] = string(decBytes(v))
		}
		P[i] = r
	}
	q := P
	if a[0].atom == "clone" {
		q = P.Clone()
	}
	key := string(decBytes(a[3]))
	var vals []string
	for _, v := range a[4:] {
		vals = append(vals, string(decBytes(v)))
	}
	switch a[1].atom {
	case "set":
		q.Set(key, vals...)
	case "add":
		q.Add(key, vals...)
	case "del":
		q.Del(key)
	}
	return encProps(P) + " " + encProps(q)
}

// ---------------------------------------------------------------------------
// worlds

func sexpStr(s sexp) string {
	if !s.isL {
		return s.atom
	}
	parts := make([]string, len(s.list))
	for i, x := range s.list {
		parts[i] = sexpStr(x)
	}
	return "(" + strings.Join(parts, " ") + ")"
}

// c11Cache shares decoded locations / qualifier lists between features that carry the same
// encoding (share = true), so that a Joined/Ordered slice or a Props row array is reachable from
// several features.
type c11Cache struct {
	share bool
	locs  map[string]gts.Location
	props map[string]gts.Props
}

func (c *c11Cache) loc(s sexp) gts.Location {
	if !c.share {
		return decLoc(s)
	}
	key := sexpStr(s)
	if l, ok := c.locs[key]; ok {
		return l
	}
	var l gts.Location
	if s.isL && len(s.list) > 0 {
		args := s.list[1:]
		switch s.list[0].atom {
		case "J":
			ls := make(gts.Joined, len(args))
			for i, x := range args {
				ls[i] = c.loc(x)
			}
			l = ls
		case "O":
			ls := make(gts.Ordered, len(args))
			for i, x := range args {
				ls[i] = c.loc(x)
			}
			l = ls
		case "C":
			l = gts.Complemented{Location: c.loc(args[0])}
		}
	}
	if l == nil {
		l = decLoc(s)
	}
	c.locs[key] = l
	return l
}

func (c *c11Cache) feature(s sexp) gts.Feature {
	a := s.list[1:]
	f := gts.Feature{Key: string(decBytes(a[0])), Loc: c.loc(a[1])}
	if !c.share {
		f.Props = decProps(a[2])
		return f
	}
	key := sexpStr(a[2])
	if p, ok := c.props[key]; ok {
		f.Props = p
	} else {
		f.Props = decProps(a[2])
		c.props[key] = f.Props
	}
	return f
}

type c11World struct {
	gb      bool
	bufs    [][]byte
	tabs    [][]gts.Feature
	seqs    []gts.Sequence
	origins []*seqio.Origin // gb mode: one *Origin per byte array
}

func c11Fields() seqio.GenBankFields {
	return seqio.GenBankFields{
		LocusName: "C11TEST", Molecule: gts.DNA, Topology: gts.Circular, Division: "SYN",
		Definition: "purity test record", Accession: "C11", Version: "C11.1",
		Keywords: []string{"k1", "k2"},
		Source:   seqio.Organism{Species: "synthetic construct", Name: "synthetic", Taxon: []string{"other", "artificial"}},
		References: []seqio.Reference{
			{Number: 1, Info: "(bases 1 to 4)", Title: "t1"},
			{Number: 2, Info: "(bases 2 to 3; 5 to 6)", Title: "t2"},
			{Number: 3, Info: "free text", Title: "t3"},
		},
		Comments: []string{"c1"},
	}
}

func c11Build(a []sexp, gb bool) *c11World {
	w := &c11World{gb: gb}
	cache := &c11Cache{share: a[0].atom == "1", locs: map[string]gts.Location{}, props: map[string]gts.Props{}}
	for _, b := range a[1].list[1:] {
		w.bufs = append(w.bufs, decBytes(b))
	}
	for _, t := range a[2].list[1:] {
		arr := make([]gts.Feature, len(t.list))
		for i, f := range t.list {
			arr[i] = cache.feature(f)
		}
		w.tabs = append(w.tabs, arr)
	}
	if gb {
		w.origins = make([]*seqio.Origin, len(w.bufs))
		for i, b := range w.bufs {
			w.origins[i] = seqio.NewOrigin(b)
		}
	}
	fields := c11Fields()
	for _, s := range a[3].list[1:] {
		h := make([]int, 8)
		for i := range h {
			h[i] = decInt(s.list[i])
		}
		var ff gts.FeatureSlice
		if h[0] < len(w.tabs) {
			ff = w.tabs[h[0]][h[1] : h[1]+h[2] : h[1]+h[3]]
		}
		if gb {
			w.seqs = append(w.seqs, seqio.GenBank{Fields: fields, Table: ff, Origin: w.origins[h[4]]})
		} else {
			w.seqs = append(w.seqs, gts.New(nil, ff, w.bufs[h[4]][h[5]:h[5]+h[6]:h[5]+h[7]]))
		}
	}
	return w
}

func (w *c11World) pick(xs []sexp) []gts.Sequence {
	out := make([]gts.Sequence, len(xs))
	for i, x := range xs {
		out[i] = w.seqs[decInt(x)]
	}
	return out
}

func (w *c11World) apply(s gts.Sequence, op sexp) gts.Sequence {
	x := op.list[1:]
	switch op.list[0].atom {
	case "insert":
		return gts.Insert(s, decInt(x[0]), w.seqs[decInt(x[1])])
	case "embed":
		return gts.Embed(s, decInt(x[0]), w.seqs[decInt(x[1])])
	case "delete":
		return gts.Delete(s, decInt(x[0]), decInt(x[1]))
	case "erase":
		return gts.Erase(s, decInt(x[0]), decInt(x[1]))
	case "slice":
		return gts.Slice(s, decInt(x[0]), decInt(x[1]))
	case "rotate":
		return gts.Rotate(s, decInt(x[0]))
	case "reverse":
		return gts.Reverse(s)
	case "complement":
		return gts.Complement(s)
	case "transcribe":
		return gts.Transcribe(s)
	case "concat":
		ss := append(w.pick(x[0].list), s)
		ss = append(ss, w.pick(x[1].list)...)
		return gts.Concat(ss...)
	case "tabinsert":
		return gts.WithFeatures(s, s.Features().Insert(decFeature(x[0])))
	case "filter":
		return gts.WithFeatures(s, s.Features().Filter(gts.Overlap(decInt(x[0]), decInt(x[1]))))
	// operations without a Lean counterpart (oracle only; never sent to the driver)
	case "repair":
		return gts.WithFeatures(s, gts.Repair(s.Features()))
	case "withinfo":
		return gts.WithInfo(s, s.Info())
	case "withbytes":
		return gts.WithBytes(s, s.Bytes())
	case "withfeatures":
		return gts.WithFeatures(s, s.Features())
	case "copy":
		return gts.Copy(s)
	}
	panic("bad mem op " + op.list[0].atom)
}

// dump: every byte array and every table array, whole.  In GenBank mode the byte arrays are the
// residues read back through the accessor of the *Origin that was built from them.
func (w *c11World) dump() (bufs, tabs []string) {
	for i, b := range w.bufs {
		if w.gb {
			bufs = append(bufs, encBytes(w.origins[i].Bytes()))
		} else {
			bufs = append(bufs, encBytes(b))
		}
	}
	for _, t := range w.tabs {
		tabs = append(tabs, c11EncTable(t))
	}
	return
}

type c11Snap struct {
	bufs, tabs, seqs, origins []string
	lens                      []int
	infos                     []string
}

func (w *c11World) snapshot() c11Snap {
	var s c11Snap
	s.bufs, s.tabs = w.dump()
	for _, q := range w.seqs {
		s.seqs = append(s.seqs, encSeq(q))
		s.lens = append(s.lens, gts.Len(q))
		s.infos = append(s.infos, fmt.Sprintf("%#v", q.Info())) // rendered now: a later in-place write must not change the snapshot
	}
	for _, o := range w.origins {
		s.origins = append(s.origins, o.String())
	}
	return s
}

// diff names the first argument array / accessor that reads differently.
func (a c11Snap) diff(b c11Snap) string {
	for i := range a.bufs {
		if a.bufs[i] != b.bufs[i] {
			return fmt.Sprintf("byte array %d changed: %s -> %s", i, a.bufs[i], b.bufs[i])
		}
	}
	for i := range a.tabs {
		if a.tabs[i] != b.tabs[i] {
			return fmt.Sprintf("table array %d changed: %s -> %s", i, a.tabs[i], b.tabs[i])
		}
	}
	for i := range a.seqs {
		if a.seqs[i] != b.seqs[i] {
			return fmt.Sprintf("sequence %d reads differently: %s -> %s", i, a.seqs[i], b.seqs[i])
		}
		if a.lens[i] != b.lens[i] {
			return fmt.Sprintf("Len of sequence %d changed: %d -> %d", i, a.lens[i], b.lens[i])
		}
		if a.infos[i] != b.infos[i] {
			return fmt.Sprintf("Info of sequence %d changed: %s -> %s", i, a.infos[i], b.infos[i])
		}
	}
	for i := range a.origins {
		if a.origins[i] != b.origins[i] {
			return fmt.Sprintf("Origin.String of byte array %d changed", i)
		}
	}
	return ""
}

type c11Viol struct{ clause, detail string }

// c11Prog runs the program on a freshly built world.  With oracle = true the purity clauses are
// evaluated after every operation (this does extra calls and is never used for the protocol
// answer).
func c11Prog(a []sexp, gb, oracle bool) (string, []c11Viol) {
	w := c11Build(a, gb)
	target := w.seqs[decInt(a[4])]
	ops := a[5:]
	var viol []c11Viol
	var before c11Snap
	if oracle {
		before = w.snapshot()
	}
	results := make([]gts.Sequence, 0, len(ops))
	atTime := make([]string, 0, len(ops))
	for j, op := range ops {
		r := w.apply(target, op)
		results = append(results, r)
		if !oracle {
			continue
		}
		atTime = append(atTime, encSeq(r))
		if d := before.diff(w.snapshot()); d != "" {
			viol = append(viol, c11Viol{"every argument array reads as before the call", fmt.Sprintf("after op %d %s: %s", j, sexpStr(op), d)})
			before = w.snapshot()
		}
		r2 := w.apply(target, op)
		if e2 := encSeq(r2); e2 != atTime[j] {
			viol = append(viol, c11Viol{"a second application to the same argument gives an equal result", fmt.Sprintf("op %d %s: %s then %s", j, sexpStr(op), atTime[j], e2)})
		}
		if d := before.diff(w.snapshot()); d != "" {
			viol = append(viol, c11Viol{"every argument array reads as before the call", fmt.Sprintf("after the second application of op %d %s: %s", j, sexpStr(op), d)})
			before = w.snapshot()
		}
	}
	res := make([]string, len(results))
	for j, r := range results {
		res[j] = encSeq(r)
		if oracle && res[j] != atTime[j] {
			viol = append(viol, c11Viol{"earlier results read the same after later operations", fmt.Sprintf("result %d: %s -> %s", j, atTime[j], res[j])})
		}
	}
	bufs, tabs := w.dump()
	ans := "(B"
	for _, b := range bufs {
		ans += " " + b
	}
	ans += ") (T"
	for _, t := range tabs {
		ans += " " + t
	}
	ans += ") (R"
	for _, x := range res {
		ans += " " + x
	}
	return ans + ")", viol
}

// ---------------------------------------------------------------------------
// generators

type c11Gen struct {
	r *Run
}

func c11Hex(p []byte) string { return encBytes(p) }

// a buffer: off sentinel bytes, the residues, spare sentinel bytes, 2 trailing sentinel bytes
// (the rest of the enclosing buffer)
func c11Buffer(off int, residues []byte, spare int) []byte {
	b := make([]byte, 0, off+len(residues)+spare+2)
	for i := 0; i < off; i++ {
		b = append(b, c11Sentinel)
	}
	b = append(b, residues...)
	for i := 0; i < spare+2; i++ {
		b = append(b, c11Sentinel)
	}
	return b
}

// send evaluates one protocol line: skips it when the real code panics (counted), otherwise
// sends it to both sides and returns the implementation's answer.
func (r *Run) c11Send(line string) (string, bool) {
	if execOp(line) == "PANIC" {
		r.count("skipped/panic")
		return "", false
	}
	return r.op(line), true
}

// c11CheckBuffers: the model-independent oracle of the single-buffer ops — the dumped buffers
// must equal the buffers that were passed in.
func (r *Run) c11CheckBuffers(line, ans string, want ...string) {
	toks := strings.Fields(ans)
	for i, wnt := range want {
		if i >= len(toks) || toks[i] != wnt {
			got := ""
			if i < len(toks) {
				got = toks[i]
			}
			r.fail(Failure{Oracle: fmt.Sprintf("argument buffer %d (whole backing array) is unchanged after the call", i), Op: line, Got: got, Want: wnt})
			return
		}
	}
}

func (r *Run) c11Bytes() {
	spares := func(g int) []int { return []int{0, 1, g, 8} }
	resid := []byte("acgtACGTry")
	maxLen := 3
	if r.tier == "thorough" {
		maxLen = 5
	}
	// insert / embed: host window x guest window x index
	for hl := 0; hl <= maxLen; hl++ {
		for gl := 0; gl <= 2; gl++ {
			for _, hs := range spares(gl) {
				for _, ho := range []int{0, 3} {
					for _, gs := range []int{0, 1, hl + 1} {
						for _, goff := range []int{0, 2} {
							hb := c11Buffer(ho, resid[:hl], hs)
							gbuf := c11Buffer(goff, []byte("NM")[:gl], gs)
							for idx := 0; idx <= hl; idx++ {
								for _, name := range []string{"mem.insert", "mem.embed"} {
									line := fmt.Sprintf("%s %d %d %d %s %d %d %d %d %s", name, ho, hl, hl+hs, c11Hex(hb), idx, goff, gl, gl+gs, c11Hex(gbuf))
									ans := r.op(line)
									r.count(fmt.Sprintf("%s/spare=%d,off=%d,gspare=%d", name, hs, ho, gs))
									r.eval(line, hs > 0 || gs > 0 || ho > 0)
									r.c11CheckBuffers(line, ans, c11Hex(hb), c11Hex(gbuf))
								}
							}
						}
					}
				}
			}
		}
	}
	// host and guest as two windows of one buffer (guest inside the host's spare capacity, guest
	// overlapping the host, guest = host)
	for hl := 1; hl <= maxLen; hl++ {
		total := hl + 6
		buf := make([]byte, total)
		for i := range buf {
			buf[i] = c11Sentinel
		}
		copy(buf, resid[:hl])
		buf[hl+1], buf[hl+2] = 'N', 'M'
		for _, hc := range []int{hl, hl + 1, hl + 3, total} {
			for _, g := range [][3]int{{hl + 1, 2, 2}, {hl + 1, 2, 4}, {0, hl, hl}, {0, hl, total}, {hl - 1, 3, 4}, {1, 0, 2}} {
				for idx := 0; idx <= hl; idx++ {
					line := fmt.Sprintf("mem.insert1 0 %d %d %d %d %d %s %d", hl, hc, g[0], g[1], g[2], c11Hex(buf), idx)
					ans := r.op(line)
					r.count("mem.insert1")
					r.eval(line, true)
					r.c11CheckBuffers(line, ans, c11Hex(buf))
				}
			}
		}
	}
	// single-buffer ops
	for hl := 0; hl <= maxLen+1; hl++ {
		for _, hs := range []int{0, 1, 2, 8} {
			for _, ho := range []int{0, 3} {
				hb := c11Buffer(ho, resid[:hl], hs)
				hdr := fmt.Sprintf("%d %d %d %s", ho, hl, hl+hs, c11Hex(hb))
				var lines []string
				for i := 0; i <= hl; i++ {
					for n := 0; i+n <= hl; n++ {
						lines = append(lines, fmt.Sprintf("mem.delete %s %d %d", hdr, i, n))
					}
				}
				if hl > 0 {
					for n := -hl - 1; n <= hl+1; n++ {
						lines = append(lines, fmt.Sprintf("mem.rotate %s %d", hdr, n))
					}
					for a := -hl; a <= hl; a++ {
						for b := -hl; b <= hl; b++ {
							lines = append(lines, fmt.Sprintf("mem.slice %s %d %d", hdr, a, b))
						}
					}
				}
				lines = append(lines, "mem.reverse "+hdr, "mem.complement "+hdr, "mem.transcribe "+hdr)
				for _, line := range lines {
					ans, ok := r.c11Send(line)
					if !ok {
						continue
					}
					r.count(strings.Fields(line)[0] + fmt.Sprintf("/spare=%d,off=%d", hs, ho))
					r.eval(line, hs > 0 || ho > 0)
					r.c11CheckBuffers(line, ans, c11Hex(hb))
				}
				// concat: this window first / in the middle / last, with 0..2 others
				other1 := c11Buffer(1, []byte("N"), 2)
				other2 := c11Buffer(0, []byte("MK"), 0)
				o1 := fmt.Sprintf("1 1 3 %s", c11Hex(other1))
				o2 := fmt.Sprintf("0 2 2 %s", c11Hex(other2))
				for _, parts := range [][]string{{hdr}, {hdr, o1}, {o1, hdr}, {hdr, o1, o2}, {o2, hdr, o1}, {hdr, hdr}, {hdr, o1, hdr}} {
					line := "mem.concat " + strings.Join(parts, " ")
					ans := r.op(line)
					r.count(fmt.Sprintf("mem.concat/%d,spare=%d", len(parts), hs))
					r.eval(line, hs > 0 || ho > 0)
					var want []string
					for _, p := range parts {
						want = append(want, strings.Fields(p)[3])
					}
					r.c11CheckBuffers(line, ans, want...)
					// the LIST handed to Concat(list...) is an argument too: the caller's slice holds the
					// same sequences in the same places afterwards, also when a piece is empty (seeded
					// change W9-2: empty pieces filtered out with `ss[:0]`, compacting the caller's slice)
					if msg := c11ConcatList(parts); msg != "" {
						r.fail(Failure{Oracle: "Concat(list...) leaves the caller's list as it was (every element, every position)", Op: line, Got: msg})
					}
				}
			}
		}
	}
}

// c11ConcatList: Concat on a list built from the windows of `parts` (and the same list with an
// empty sequence put at the front, in the middle and at the end); "" when every element of the
// list reads as before the call, twice in a row.
func c11ConcatList(parts []string) string {
	mk := func() []gts.Sequence {
		var ss []gts.Sequence
		for _, p := range parts {
			f := strings.Fields(p)
			off, _ := strconv.Atoi(f[0])
			n, _ := strconv.Atoi(f[1])
			c, _ := strconv.Atoi(f[2])
			b := decBytes(sexp{atom: f[3]})
			ss = append(ss, gts.New(nil, nil, c11Window(b, off, n, c)))
		}
		return ss
	}
	base := mk()
	for at := -1; at <= len(base); at++ {
		list := mk()
		if at >= 0 {
			list = append(list[:at:at], append([]gts.Sequence{gts.New(nil, nil, nil)}, list[at:]...)...)
		}
		before := make([]string, len(list))
		for i, x := range list {
			before[i] = encSeq(x)
		}
		for round := 0; round < 2; round++ {
			gts.Concat(list...)
			for i, x := range list {
				if encSeq(x) != before[i] {
					return fmt.Sprintf("after call %d, with an empty sequence at %d: element %d of the list reads %s, was %s", round+1, at, i, encSeq(x), before[i])
				}
			}
		}
	}
	return ""
}

var c11SentinelFeature = gts.Feature{Key: "SENTINEL", Loc: gts.Point(999)}

func c11FeatureList(ff []gts.Feature) string { return c11EncTable(ff) }

// c11SourceBias: every table starts with a multi-part partial `source` feature and the programs
// are made of Slice calls (the one call site of asComplete).
var c11SourceBias = false

// sorted table of n features inside [0, L].  Biased towards what the aliasing hazards need:
// `source` features with multi-part partial locations (the only ones asComplete rewrites), and
// features that carry the SAME location / qualifier encoding (shared Joined/Ordered slices and
// Props rows when the world is built with share = 1).
func (r *Run) c11Table(n, L, depth int) []gts.Feature {
	g := r.rng
	if c11SourceBias && n == 0 {
		n = 1
	}
	fs := make([]gts.Feature, 0, n)
	for i := 0; i < n; i++ {
		f := genFeature(g, L, depth)
		k := g.intn(6)
		if c11SourceBias && i == 0 {
			k = 0
		}
		switch k {
		case 0:
			parts := genParts(g, 0, L, 3, false)
			if c11SourceBias {
				for j, p := range parts {
					if rg, ok := p.(gts.Ranged); ok && g.intn(3) > 0 {
						rg.Partial = partials[1+g.intn(3)]
						parts[j] = rg
					}
				}
			}
			f = gts.Feature{Key: "source", Props: genProps(g)}
			if g.bool() {
				f.Loc = gts.Joined(parts)
			} else {
				f.Loc = gts.Ordered(parts)
			}
		case 1, 2:
			if len(fs) > 0 {
				o := fs[g.intn(len(fs))]
				f.Loc = o.Loc
				if g.bool() {
					f.Props = o.Props
				}
			}
		}
		fs = append(fs, f)
	}
	var ff gts.FeatureSlice
	for _, f := range fs {
		ff = ff.Insert(f)
	}
	return ff
}

func (r *Run) c11Tables() {
	rounds := 1500
	if r.tier == "thorough" {
		rounds = 15000
	}
	for it := 0; it < rounds; it++ {
		n := r.rng.intn(4)
		off := r.rng.intn(2)
		spare := r.rng.intn(3)
		L := r.rng.rangeInt(4, 12)
		ff := r.c11Table(n+r.rng.intn(2), L, 1) // possibly one more than the window: a sub-slice of a longer table
		arr := []gts.Feature{}
		for i := 0; i < off; i++ {
			arr = append(arr, c11SentinelFeature)
		}
		arr = append(arr, ff...)
		for i := 0; i < spare; i++ {
			arr = append(arr, c11SentinelFeature)
		}
		if n > len(ff) {
			n = len(ff)
		}
		c := n + r.rng.intn(len(arr)-off-n+1)
		f := genFeature(r.rng, L, 1)
		line := fmt.Sprintf("mem.tabinsert %d %d %d %s %s", off, n, c, c11FeatureList(arr), encFeature(f))
		ans, ok := r.c11Send(line)
		if !ok {
			continue
		}
		r.count(fmt.Sprintf("mem.tabinsert/spare=%d", c-n))
		r.eval(line, c > n)
		if !strings.HasPrefix(ans, c11FeatureList(arr)+" ") {
			r.fail(Failure{Oracle: "the receiver's table array (whole backing array) is unchanged after FeatureSlice.Insert", Op: line, Got: ans, Want: c11FeatureList(arr)})
		}
	}
}

// c11GenWorld draws a world and returns the protocol text of its parts.
type c11WorldText struct {
	share  string
	b, t   string
	s      string
	lens   []int
	nseq   int
	lmin   int
	header string
}

func (r *Run) c11GenWorld(gb bool) c11WorldText {
	g := r.rng
	nseq := g.rangeInt(2, 3)
	maxL := 10
	if r.tier == "thorough" {
		maxL = 24
	}
	// byte arrays and the windows of the sequences
	type win struct{ a, o, l, c int }
	var bufs [][]byte
	wins := make([]win, nseq)
	lens := make([]int, nseq)
	for i := 0; i < nseq; i++ {
		if i > 0 && g.intn(3) == 0 {
			// share the buffer of an earlier sequence: the same window, or a sub-window of it
			j := g.intn(i)
			w := wins[j]
			if !gb && w.l > 1 && g.bool() {
				lo := g.intn(w.l)
				hi := g.rangeInt(lo+1, w.l)
				wins[i] = win{w.a, w.o + lo, hi - lo, w.c - lo - g.intn(w.c-hi+1)}
			} else {
				wins[i] = w
			}
		} else {
			L := g.rangeInt(1, maxL)
			off, spare := 0, 0
			if !gb {
				off = []int{0, 3}[g.intn(2)]
				spare = []int{0, 1, 2, 16}[g.intn(4)]
			}
			res := genBytes(g, L)
			if gb {
				bufs = append(bufs, res)
			} else {
				bufs = append(bufs, c11Buffer(off, res, spare))
			}
			wins[i] = win{len(bufs) - 1, off, L, L + spare}
		}
		lens[i] = wins[i].l
	}
	lmin := lens[0]
	for _, l := range lens {
		lmin = minInt(lmin, l)
	}
	// table arrays and windows
	var tabs [][]gts.Feature
	twins := make([]win, nseq)
	for i := 0; i < nseq; i++ {
		if i > 0 && g.intn(2) == 0 {
			j := g.intn(i)
			w := twins[j]
			if w.l > 0 && g.bool() {
				hi := g.rangeInt(0, w.l) // a prefix window: its spare capacity holds the rest of the longer table
				twins[i] = win{w.a, w.o, hi, w.c - g.intn(w.c-hi+1)}
			} else {
				twins[i] = w
			}
		} else {
			n := g.intn(4)
			off := g.intn(2)
			spare := g.intn(3)
			ff := r.c11Table(n, lmin, 2)
			arr := []gts.Feature{}
			for k := 0; k < off; k++ {
				arr = append(arr, c11SentinelFeature)
			}
			arr = append(arr, ff...)
			for k := 0; k < spare+1; k++ {
				arr = append(arr, c11SentinelFeature)
			}
			tabs = append(tabs, arr)
			twins[i] = win{len(tabs) - 1, off, len(ff), len(ff) + spare}
		}
	}
	var wt c11WorldText
	wt.share = b01(g.bool())
	wt.b = "(B"
	for _, b := range bufs {
		wt.b += " " + encBytes(b)
	}
	wt.b += ")"
	wt.t = "(T"
	for _, t := range tabs {
		wt.t += " " + c11EncTable(t)
	}
	wt.t += ")"
	wt.s = "(S"
	for i := 0; i < nseq; i++ {
		wt.s += fmt.Sprintf(" (%d %d %d %d %d %d %d %d)", twins[i].a, twins[i].o, twins[i].l, twins[i].c, wins[i].a, wins[i].o, wins[i].l, wins[i].c)
	}
	wt.s += ")"
	wt.lens, wt.nseq, wt.lmin = lens, nseq, lmin
	return wt
}

func (r *Run) c11GenOp(wt c11WorldText, k int, modelled bool) string {
	g := r.rng
	L := wt.lens[k]
	n := 12
	if !modelled {
		n = 17
	}
	switch g.intn(n) {
	case 0:
		return fmt.Sprintf("(insert %d %d)", g.intn(L+1), g.intn(wt.nseq))
	case 1:
		return fmt.Sprintf("(embed %d %d)", g.intn(L+1), g.intn(wt.nseq))
	case 2:
		i := g.intn(L + 1)
		return fmt.Sprintf("(delete %d %d)", i, g.intn(L-i+1))
	case 3:
		i := g.intn(L + 1)
		return fmt.Sprintf("(erase %d %d)", i, g.intn(L-i+1))
	case 4:
		return fmt.Sprintf("(slice %d %d)", g.rangeInt(-L, L), g.rangeInt(-L, L))
	case 5:
		return fmt.Sprintf("(rotate %d)", g.rangeInt(-2*L, 2*L))
	case 6:
		return "(reverse)"
	case 7:
		return "(complement)"
	case 8:
		return "(transcribe)"
	case 9:
		pick := func() string {
			n := g.intn(3)
			xs := make([]string, n)
			for i := range xs {
				xs[i] = itoa(g.intn(wt.nseq))
			}
			return "(" + strings.Join(xs, " ") + ")"
		}
		return "(concat " + pick() + " " + pick() + ")"
	case 10:
		return "(tabinsert " + encFeature(genFeature(g, wt.lmin, 2)) + ")"
	case 11:
		lo := g.intn(L + 1)
		return fmt.Sprintf("(filter %d %d)", lo, g.rangeInt(lo, L))
	case 12:
		return "(repair)"
	case 13:
		return "(withinfo)"
	case 14:
		return "(withbytes)"
	case 15:
		return "(withfeatures)"
	default:
		return "(copy)"
	}
}

func (r *Run) c11Programs(gb bool, rounds int) {
	name := "mem.prog"
	if gb {
		name = "mem.gbprog"
	}
	for it := 0; it < rounds; it++ {
		wt := r.c11GenWorld(gb)
		k := r.rng.intn(wt.nseq)
		nops := r.rng.rangeInt(1, 4)
		// every third program also uses the operations the Lean model does not cover (oracle only)
		modelled := it%3 != 2
		ops := make([]string, nops)
		for i := range ops {
			ops[i] = r.c11GenOp(wt, k, modelled)
			if c11SourceBias && r.rng.intn(4) > 0 {
				L := wt.lens[k]
				ops[i] = fmt.Sprintf("(slice %d %d)", r.rng.rangeInt(-L, L), r.rng.rangeInt(-L, L))
			}
		}
		if nops >= 2 && r.rng.intn(4) == 0 {
			ops[nops-1] = ops[0] // the same operation twice
		}
		line := fmt.Sprintf("%s %s %s %s %s %d %s", name, wt.share, wt.b, wt.t, wt.s, k, strings.Join(ops, " "))
		if execOp(line) == "PANIC" {
			r.count("skipped/panic")
			r.sample("PANIC: " + line)
			continue
		}
		if modelled {
			r.op(line)
		}
		r.count(fmt.Sprintf("%s/ops=%d", name, nops))
		for _, o := range ops {
			r.count(name + "/" + strings.Fields(strings.Trim(o, "()"))[0])
		}
		r.eval(line, true)
		viol := func() (viol []c11Viol) {
			defer func() {
				if e := recover(); e != nil {
					viol = append(viol, c11Viol{"a program of library calls on shared arguments does not panic", fmt.Sprint(e)})
				}
			}()
			_, viol = c11Prog(parseLine(line)[1:], gb, true)
			return viol
		}()
		for _, v := range viol {
			r.fail(Failure{Oracle: v.clause, Op: line, Got: v.detail})
		}
	}
}

// locations: asComplete writes through its argument; Expand (its only producer in gts.Slice)
// returns a location that shares no slice with its argument.
func c11SlicePtrs(l gts.Location, into map[uintptr]bool) {
	switch v := l.(type) {
	case gts.Joined:
		if len(v) > 0 {
			into[reflect.ValueOf(v).Pointer()] = true
		}
		for _, u := range v {
			c11SlicePtrs(u, into)
		}
	case gts.Ordered:
		if len(v) > 0 {
			into[reflect.ValueOf(v).Pointer()] = true
		}
		for _, u := range v {
			c11SlicePtrs(u, into)
		}
	case gts.Complemented:
		c11SlicePtrs(v.Location, into)
	}
}

func (r *Run) c11Locations() {
	rounds := 2000
	if r.tier == "thorough" {
		rounds = 20000
	}
	for it := 0; it < rounds; it++ {
		L := r.rng.rangeInt(4, 20)
		l := genLoc(r.rng, 3, L, 4, true)
		line := "mem.ascomplete " + encLoc(l)
		r.op(line)
		r.count("mem.ascomplete/" + kindOf(l))
		r.eval(line, true)

		// oracle: Expand(...).Expand(...) as in gts.Slice is fresh, so asComplete on it leaves l alone
		before := encLoc(l)
		start := r.rng.intn(L)
		end := r.rng.rangeInt(start, L)
		func() {
			defer func() {
				if rec := recover(); rec != nil {
					r.count("skipped/panic")
				}
			}()
			e := l.Expand(end, end-L).Expand(0, -start)
			arg, res := map[uintptr]bool{}, map[uintptr]bool{}
			c11SlicePtrs(l, arg)
			c11SlicePtrs(e, res)
			for p := range res {
				if arg[p] {
					r.fail(Failure{Oracle: "expand-fresh: the location Slice hands to asComplete shares no Joined/Ordered array with the feature's location",
						Op: fmt.Sprintf("loc.expand %s %d %d", before, end, end-L), Got: encLoc(e)})
				}
			}
			gts.VerifAsComplete(e)
			if after := encLoc(l); after != before {
				r.fail(Failure{Oracle: "asComplete(Expand(…)) leaves the feature's location unchanged", Op: line, Got: after, Want: before})
			}
			r.eval("fresh|"+before, len(arg) > 0)
		}()
	}
}

func (r *Run) c11Origins() {
	maxN := 140
	if r.tier == "thorough" {
		maxN = 400
	}
	for n := 0; n <= maxN; n++ {
		p := genBytes(r.rng, n)
		o := seqio.NewOrigin(p)
		text := append([]byte(nil), o.Buffer...)
		line := "mem.origin " + encBytes(text)
		ans := r.op(line)
		r.count("mem.origin")
		r.eval(line, n > 0)
		toks := strings.Fields(ans)
		if len(toks) != 5 || toks[0] != encBytes(text) {
			r.fail(Failure{Oracle: "Origin.Bytes leaves the text buffer it was given unchanged", Op: line, Got: ans})
			continue
		}
		if toks[1] != encBytes(p) || toks[2] != encBytes(p) || toks[4] != itoa(n) {
			r.fail(Failure{Oracle: "Origin.Bytes / Len read the same on first and later calls", Op: line, Got: ans, Want: encBytes(p)})
		}
		// String() before and after the conversion
		o2 := &seqio.Origin{Buffer: append([]byte(nil), text...)}
		s0 := o2.String()
		o2.Bytes()
		if s1 := o2.String(); s1 != s0 {
			r.fail(Failure{Oracle: "Origin.String reads the same before and after Bytes()", Op: line, Got: s1, Want: s0})
		}
	}
}

// Props: which mutations of a RESULT's qualifiers reach the ARGUMENT.  Recorded in the
// histogram (finding F-C11-props, see checks/C11.json); not a failure of the property, because
// the mutation is a later action of the caller, not of the operation.
func (r *Run) c11PropsSharing() {
	// protocol: the mutators on laid-out Props, shared vs cloned
	keys := []string{"a", "b", "c"}
	for _, mode := range []string{"shared", "clone"} {
		for _, what := range []string{"set", "add", "del"} {
			for ocap := 2; ocap <= 4; ocap++ {
				for rcap := 2; rcap <= 4; rcap++ {
					for _, key := range keys {
						line := fmt.Sprintf("mem.props %s %s (P %d (%d %s %s) (2 %s %s)) %s %s", mode, what, ocap, rcap,
							encStr("a"), encStr("1"), encStr("b"), encStr("2"), encStr(key), encStr("z"))
						ans := r.op(line)
						r.count("mem.props/" + mode + "/" + what)
						r.eval(line, true)
						orig := encProps(gts.Props{{"a", "1"}, {"b", "2"}})
						if mode == "clone" && !strings.HasPrefix(ans, orig+" ") {
							r.fail(Failure{Oracle: "a mutator applied to Props.Clone() leaves the original Props unchanged", Op: line, Got: ans, Want: orig})
						}
					}
				}
			}
		}
	}
	// which operations hand the argument's Props to the result
	mk := func() (gts.Sequence, gts.FeatureSlice) {
		ff := gts.FeatureSlice{
			{Key: "gene", Loc: gts.Range(1, 5), Props: gts.Props{{"gene", "x"}, {"note", "n"}}},
			{Key: "CDS", Loc: gts.Range(2, 7), Props: gts.Props{{"product", "p"}}},
		}
		return gts.New(nil, ff, []byte("acgtacgtac")), ff
	}
	guest := gts.New(nil, nil, []byte("nn"))
	type opf struct {
		name string
		f    func(gts.Sequence) gts.Sequence
	}
	for _, o := range []opf{
		{"Insert", func(s gts.Sequence) gts.Sequence { return gts.Insert(s, 9, guest) }},
		{"Embed", func(s gts.Sequence) gts.Sequence { return gts.Embed(s, 9, guest) }},
		{"Delete", func(s gts.Sequence) gts.Sequence { return gts.Delete(s, 8, 1) }},
		{"Erase", func(s gts.Sequence) gts.Sequence { return gts.Erase(s, 8, 1) }},
		{"Slice", func(s gts.Sequence) gts.Sequence { return gts.Slice(s, 0, 9) }},
		{"Rotate", func(s gts.Sequence) gts.Sequence { return gts.Rotate(s, 1) }},
		{"Concat", func(s gts.Sequence) gts.Sequence { return gts.Concat(s, guest) }},
		{"ConcatTail", func(s gts.Sequence) gts.Sequence { return gts.Concat(guest, s) }},
		{"Reverse", func(s gts.Sequence) gts.Sequence { return gts.Reverse(s) }},
		{"Complement", func(s gts.Sequence) gts.Sequence { return gts.Complement(s) }},
		{"Transcribe", func(s gts.Sequence) gts.Sequence { return gts.Transcribe(s) }},
		{"Filter", func(s gts.Sequence) gts.Sequence { return gts.WithFeatures(s, s.Features().Filter(gts.TrueFilter)) }},
		{"TabInsert", func(s gts.Sequence) gts.Sequence {
			return gts.WithFeatures(s, s.Features().Insert(gts.Feature{Key: "exon", Loc: gts.Point(0)}))
		}},
		{"Repair", func(s gts.Sequence) gts.Sequence { return gts.WithFeatures(s, gts.Repair(s.Features())) }},
	} {
		for _, what := range []string{"Set", "Add", "Del"} {
			s, ff := mk()
			before := c11EncTable(ff)
			res := o.f(s)
			if c11EncTable(ff) != before {
				r.fail(Failure{Oracle: "the operation itself leaves the argument's qualifiers unchanged", Op: "props-sharing " + o.name, Got: c11EncTable(ff), Want: before})
				continue
			}
			// the caller now mutates the qualifiers of a feature of the RESULT
			rf := res.Features()
			for i := range rf {
				if rf[i].Key == "gene" {
					switch what {
					case "Set":
						rf[i].Props.Set("gene", "CHANGED")
					case "Add":
						rf[i].Props.Add("gene", "ADDED")
					case "Del":
						rf[i].Props.Del("gene")
					}
				}
			}
			key := fmt.Sprintf("props-sharing/%s/%s/argument-", o.name, what)
			if c11EncTable(ff) != before {
				r.count(key + "reached")
			} else {
				r.count(key + "isolated")
			}
			r.eval(key, true)
		}
	}
}

func propC11(r *Run) {
	r.c11Bytes()
	r.c11Tables()
	rounds := 6000
	if r.tier == "thorough" {
		rounds = 60000
	}
	r.c11Programs(false, rounds)
	r.c11Programs(true, rounds/3)
	c11SourceBias = true
	r.c11Programs(false, rounds/4)
	r.c11Programs(true, rounds/8)
	c11SourceBias = false
	r.c11Locations()
	r.c11LocMethods()
	r.c11Origins()
	r.c11PropsSharing()
	r.c11RepairMerging()
	r.exhaustive = true
	r.notes = append(r.notes,
		"exhaustive small scope: Insert/Embed over host len 0..3(5) x spare {0,1,|guest|,8} x off {0,3} x guest len 0..2 x guest spare x index; host and guest as windows of one buffer; Delete/Rotate/Slice over all indices; Concat arrangements",
		"random worlds: 2..3 sequences over 1..3 byte arrays (spare 0,1,2,16; off 0,3; shared windows and sub-windows) and table arrays (spare cells hold sentinel features or the rest of a longer table; shared tables, prefix windows), shared locations/qualifiers on a coin flip, programs of 1..4 operations on one sequence",
		"every third program also uses Repair / WithInfo / WithBytes / WithFeatures / Copy (oracle only: no Lean counterpart)",
		"location methods in memory (mem.loc): random locations of depth <= 3 laid out as windows of location-cell arrays (cells before / behind the window, spare capacity, a repeated part as ONE slice or as overlapping windows), Expand / Shift / Normalize / Reverse / Complement / the asComplete call site of Slice; answer = every array after the call + the result as a pointer graph")
}
