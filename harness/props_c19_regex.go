package main

// C19, named and unnamed clauses with regexps that tell "some VALUE matches" from "the values glued
// together match": anchors, classes that can match a line feed, on qualifiers with several values
// (seeded change W23-2: the regexp run once over strings.Join(values, "\n")).  Oracle only: the
// spec applies Go's regexp to each value on its own (regexp itself is a trusted parameter of C19).

import (
	"fmt"
	"regexp"

	"github.com/go-gts/gts"
)

func c19RegexClauses(r *Run) {
	rxs := []string{"^a$", "^taxon:562$", "^b", "a$", `alpha\sbeta`, `^[^x]+$`, "^$", `a\nb`, "^.$", "(^|:)b$"}
	rows := [][]string{
		{"note", "a"}, {"note", "b", "a"}, {"note", "a", "b"}, {"note", "x", "a", "y"}, {"db_xref", "GI:1", "taxon:562", "GeneID:2"},
		{"db_xref", "taxon:562"}, {"note", "alpha", "beta gamma"}, {"note", "alpha beta"}, {"note", ""}, {"note", "", "a"}, {"note", "ab", "b"},
	}
	for _, row := range rows {
		f := gts.Feature{Key: "gene", Loc: gts.Range(0, 3), Props: gts.Props{row}}
		for _, rx := range rxs {
			re := regexp.MustCompile(rx)
			some := false
			for _, v := range row[1:] {
				some = some || re.MatchString(v)
			}
			for _, sel := range []string{"/" + row[0] + "=" + rx, "/=" + rx, "gene/" + row[0] + "=" + rx} {
				flt, err := gts.Selector(sel)
				line := fmt.Sprintf("sel.regex %s %s", encStr(sel), encFeature(f))
				r.count("regex-clauses")
				r.eval(line, len(row) > 2)
				if err != nil {
					r.fail(Failure{Oracle: "a selector with a valid regexp is accepted", Op: line, Got: "ERR"})
					continue
				}
				if got := flt(f); got != some {
					r.fail(Failure{Oracle: "a clause is satisfied iff SOME value of the qualifier matches the regexp (each value on its own)", Op: line,
						Got: fmt.Sprint(got), Want: fmt.Sprint(some)})
				}
			}
		}
	}
}
