package main

import (
	"fmt"
	"sort"
	"strings"

	"github.com/go-gts/gts"
)

func init() {
	props["C02"] = propC02
	props["C03"] = propC03
	props["C04"] = propC04
	props["C05"] = propC05
	props["C10"] = propC10
	extraOps["spec.den"] = func(a []sexp) string { return denStr(implDen(decLoc(a[0]), 0)) }
	extraOps["spec.regden"] = func(a []sexp) string { return denStr(implRegDen(decReg(a[0]))) }
	// the oracle definitions of the marker / in-bounds clauses, answered by the Lean restatement
	// Gts/Spec/Marks.lean too (Loc.outerMarks, Loc.coordsWithin): the property theorems about
	// markers and bounds (C02-C05, C10) are stated with the Lean side
	extraOps["spec.marks"] = func(a []sexp) string {
		m5, m3 := outerMarks(decLoc(a[0]))
		return bit(m5) + " " + bit(m3)
	}
	extraOps["spec.cw"] = func(a []sexp) string { return bit(coordsWithin(decLoc(a[0]), decInt(a[1]))) }
}

func bit(b bool) string {
	if b {
		return "1"
	}
	return "0"
}

var specSeen = map[string]bool{}

// specMarks / specCw send the oracle's own definitions to both sides (once per distinct
// argument): a difference between harness/spec.go and Gts/Spec/Marks.lean is a correspondence
// mismatch.
func (r *Run) specMarks(ls ...gts.Location) {
	for _, l := range ls {
		k := "m|" + encLoc(l)
		if !specSeen[k] {
			specSeen[k] = true
			r.op("spec.marks " + encLoc(l))
		}
	}
}

func (r *Run) specCw(l gts.Location, L int) {
	k := fmt.Sprintf("c|%s|%d", encLoc(l), L)
	if !specSeen[k] {
		specSeen[k] = true
		r.op(fmt.Sprintf("spec.cw %s %d", encLoc(l), L))
	}
}

// implDen computes the denotation of a location through the real
// Region().Locate on two probe sequences: one whose residue at x is the byte
// x (untouched by Complement: only IUPAC letters are mapped, so bytes 0..63 and
// 128.. are chosen around them), one of all 'a' that reveals the strand.
func probeByte(x int) byte {
	// 200 distinct bytes that Complement leaves alone
	b := 0
	for c := 1; c < 256; c++ {
		ch := byte(c)
		if (ch >= 'A' && ch <= 'Z') || (ch >= 'a' && ch <= 'z') {
			continue
		}
		if b == x {
			return ch
		}
		b++
	}
	panic("probe sequence too long")
}

func probeIndex(c byte) int {
	b := 0
	for d := 1; d < 256; d++ {
		ch := byte(d)
		if (ch >= 'A' && ch <= 'Z') || (ch >= 'a' && ch <= 'z') {
			continue
		}
		if ch == c {
			return b
		}
		b++
	}
	return -1
}

func implRegDen(r gts.Region) []pos {
	L := 0
	for _, s := range gts.VerifFlattenRegion(r) {
		L = maxInt(L, maxInt(s[0], s[1]))
	}
	L = maxInt(L, 1)
	p1 := make([]byte, L)
	p2 := make([]byte, L)
	for x := range p1 {
		p1[x] = probeByte(x)
		p2[x] = 'a'
	}
	o1 := r.Locate(gts.New(nil, nil, p1)).Bytes()
	o2 := r.Locate(gts.New(nil, nil, p2)).Bytes()
	out := make([]pos, len(o1))
	for k := range o1 {
		out[k] = pos{probeIndex(o1[k]), o2[k] == 't'}
	}
	return out
}

func implDen(l gts.Location, _ int) []pos { return implRegDen(l.Region()) }

// ---------------------------------------------------------------------------

func scope(r *Run) (L int, ns []int, nRandom int) {
	if r.tier == "thorough" {
		return 7, []int{0, 1, 2, 3, 5}, 150000
	}
	return 5, []int{0, 1, 3}, 20000
}

// checkDenLaw: den(got) must equal / refine want; on failure the guard line
// lets the model say whether known finding K2 applies.
func (r *Run) checkDenLaw(clause, opline, guard string, got gts.Location, want []pos) bool {
	g := den(got)
	if sameMeaning(g, want) {
		return true
	}
	r.fail(Failure{Oracle: clause, Op: opline, Got: encLoc(got) + " den=" + denStr(g),
		Want: "den=" + denStr(want), Guard: guard})
	return false
}

// --- C02 --------------------------------------------------------------------

func c02Loc(r *Run, l gts.Location, i, n int) {
	ls := encLoc(l)
	line := fmt.Sprintf("loc.shift %s %d %d", ls, i, n)
	out := r.op(line)
	r.count("shift/" + kindOf(l))
	if out != "PANIC" {
		got := l.Shift(i, n)
		d := den(l)
		key := fmt.Sprintf("s|%s|%d|%d", ls, i, n)
		r.eval(key, len(d) > 0 && n > 0)
		r.checkDenLaw("shift: den(after) = map insMap den(before)", line,
			fmt.Sprintf("k2.shift %s %d %d", ls, i, n), got, mapDen(d, insMap(i, n)))
		r.specMarks(l, got)
		lo0, hi0 := outerMarks(l)
		lo1, hi1 := outerMarks(got)
		if len(d) > 0 && nodup(d) && (lo0 != lo1 || hi0 != hi1) {
			r.fail(Failure{Oracle: "shift: outer partial markers unchanged", Op: line, Got: encLoc(got),
				Want:  fmt.Sprintf("outer marks %v %v", lo0, hi0),
				Guard: fmt.Sprintf("k2.shift %s %d %d", ls, i, n)})
		}
	} else {
		r.fail(Failure{Oracle: "shift: no panic", Op: line, Got: out})
	}

	line = fmt.Sprintf("loc.expand %s %d %d", ls, i, n)
	out = r.op(line)
	if out != "PANIC" {
		got := l.Expand(i, n)
		// Embed: identical to Insert except that a part spanning i is extended
		// over the guest: every residue keeps its (re-mapped) position, the guest
		// residues [i, i+n) are added to spanning parts only.
		d := den(l)
		r.eval(fmt.Sprintf("e|%s|%d|%d", ls, i, n), len(d) > 0 && n > 0)
		want := mapDen(d, insMap(i, n))
		g := den(got)
		// got minus guest positions must equal want
		var core []pos
		for _, p := range g {
			if p.x >= i && p.x < i+n {
				continue
			}
			core = append(core, p)
		}
		if !sameMeaning(core, want) {
			r.fail(Failure{Oracle: "expand(n>=0): host residues keep their re-mapped positions", Op: line,
				Got: encLoc(got) + " den=" + denStr(g), Want: "den\\guest=" + denStr(want),
				Guard: fmt.Sprintf("k2.expand %s %d %d", ls, i, n)})
		}
		// the un-stripped clause (audit S6; theorem expand_embed_den_partial): the guest residues
		// [i, i+n) are denoted exactly inside the leaves that span i, in strand order, where Insert
		// would split — a leaf that merely ends or starts at i gets none of them
		if n >= 0 {
			exact := embedDen(l, i, n)
			r.count("expand/exact/" + kindOf(l))
			if len(exact) != len(want) {
				r.count("expand/exact/spanning")
			}
			if !sameMeaning(g, exact) {
				r.fail(Failure{Oracle: "expand(n>=0): host image with the guest block inside exactly the parts that span i", Op: line,
					Got: encLoc(got) + " den=" + denStr(g), Want: "den=" + denStr(exact),
					Guard: fmt.Sprintf("k2.expand %s %d %d", ls, i, n)})
			}
		}
	} else {
		r.fail(Failure{Oracle: "expand: no panic", Op: line, Got: out})
	}
}

func featKey(f gts.Feature) string { return f.Key + "|" + encProps(f.Props) }

func propC02(r *Run) {
	L, ns, nRandom := scope(r)
	r.exhaustive = true
	for _, l := range smallLocs(L, true) {
		for i := 0; i <= L; i++ {
			for _, n := range ns {
				c02Loc(r, l, i, n)
			}
		}
	}
	r.notes = append(r.notes, fmt.Sprintf("exhaustive: smallLocs(L=%d) x i in 0..L x n in %v", L, ns))
	for k := 0; k < nRandom; k++ {
		LL := r.rangeL()
		l := genLoc(r.rng, 3, LL, 5, true)
		i := r.rng.intn(LL + 1)
		n := r.rng.intn(5)
		c02Loc(r, l, i, n)
		if k < 5 {
			r.sample(fmt.Sprintf("loc.shift %s %d %d", encLoc(l), i, n))
		}
	}
	// whole-sequence Insert / Embed
	nSeq := nRandom / 10
	for k := 0; k < nSeq; k++ {
		hl := r.rng.intn(13)
		gl := r.rng.intn(6)
		var host, guest gts.Sequence
		if hl == 0 {
			host = gts.New(nil, nil, nil)
		} else {
			host = genSeq(r.rng, hl, 4, 2)
		}
		if gl == 0 {
			guest = gts.New(nil, nil, nil)
			if r.rng.intn(2) == 0 {
				// a guest WITHOUT residues that still carries a feature (a junction marker `0^1`): "every guest
				// feature is present" holds for it too (seeded C02-l: an early return for an empty guest)
				guest = gts.New(nil, gts.FeatureSlice{{Key: "misc_feature", Loc: gts.Between(0), Props: gts.Props{{"note", "junction"}}}}, nil)
				r.count("seq.insert/empty guest with a feature")
			}
		} else {
			guest = genSeq(r.rng, gl, 2, 1)
		}
		i := r.rng.intn(hl + 1)
		for _, opn := range []string{"seq.insert", "seq.embed"} {
			line := fmt.Sprintf("%s %s %d %s", opn, encSeq(host), i, encSeq(guest))
			out := r.op(line)
			r.count(opn)
			if out == "PANIC" {
				r.fail(Failure{Oracle: opn + ": no panic", Op: line, Got: out})
				continue
			}
			var res gts.Sequence
			if opn == "seq.insert" {
				res = gts.Insert(copySeq(host), i, copySeq(guest))
			} else {
				res = gts.Embed(copySeq(host), i, copySeq(guest))
			}
			r.eval(line, hl > 0 && gl > 0 && len(host.Features()) > 0)
			want := append(append(append([]byte{}, host.Bytes()[:i]...), guest.Bytes()...), host.Bytes()[i:]...)
			if string(res.Bytes()) != string(want) {
				r.fail(Failure{Oracle: opn + ": residues = host[:i]+guest+host[i:]", Op: line,
					Got: encBytes(res.Bytes()), Want: encBytes(want)})
			}
			// the same host value (residues in a buffer with spare capacity, as Concat / append
			// leave them) fed to a second insertion: the first result still reads host[:i]+guest+host[i:]
			{
				buf := make([]byte, len(host.Bytes()), len(host.Bytes())+2*gl+8)
				copy(buf, host.Bytes())
				hf := make(gts.FeatureSlice, len(host.Features()))
				copy(hf, host.Features())
				shared := gts.New(nil, hf, buf)
				other := gts.New(nil, nil, []byte(strings.Repeat("N", gl)))
				var first gts.Sequence
				if opn == "seq.insert" {
					first = gts.Insert(shared, i, copySeq(guest))
					_ = gts.Insert(shared, i, other)
				} else {
					first = gts.Embed(shared, i, copySeq(guest))
					_ = gts.Embed(shared, i, other)
				}
				r.count(opn + "/second insertion into the same host")
				if string(first.Bytes()) != string(want) {
					r.fail(Failure{Oracle: opn + ": the result still reads host[:i]+guest+host[i:] after a second insertion into the same host (host buffer with spare capacity)", Op: line,
						Got: encBytes(first.Bytes()), Want: encBytes(want)})
				}
			}
			// every host and guest feature present exactly once (key+props multiset)
			cnt := map[string]int{}
			for _, f := range host.Features() {
				cnt[featKey(f)]++
			}
			for _, f := range guest.Features() {
				cnt[featKey(f)]++
			}
			for _, f := range res.Features() {
				cnt[featKey(f)]--
			}
			for k, v := range cnt {
				if v != 0 {
					r.fail(Failure{Oracle: opn + ": feature multiset (key, qualifiers) preserved", Op: line,
						Got: fmt.Sprintf("%s off by %d", k, v)})
					break
				}
			}
			// every host feature denotes its re-mapped residues, every guest feature its residues offset by i
			gn := len(guest.Bytes())
			// Embed is compared UN-STRIPPED (audit S6; theorem embed_host_feature_exact_partial): a host
			// feature's new location denotes embedDen = the insert image plus the guest block inside
			// exactly the parts that spanned i
			hostImage := func(l gts.Location, d []pos) []pos { return mapDen(d, insMap(i, gn)) }
			if opn == "seq.embed" {
				hostImage = func(l gts.Location, d []pos) []pos { return embedDen(l, i, gn) }
			}
			wantF := map[string]int{}
			for _, f := range host.Features() {
				if d := den(f.Loc); lawApplies(f.Loc, d) {
					wantF["h|"+featKey(f)+denStr(hostImage(f.Loc, d))]++
					r.count(opn + "/host feature law evaluated")
					if hasAmbiguous(f.Loc) {
						r.count(opn + "/host feature law evaluated on a feature with an ambiguous span")
					}
				}
			}
			for _, f := range guest.Features() {
				if d := den(f.Loc); lawApplies(f.Loc, d) {
					wantF["g|"+featKey(f)+denStr(mapDen(d, func(x int) (int, bool) { return x + i, true }))]++
				}
			}
			for _, f := range res.Features() {
				d := den(f.Loc)
				wantF["h|"+featKey(f)+denStr(d)]--
				wantF["g|"+featKey(f)+denStr(d)]--
			}
			for k, v := range wantF {
				if v > 0 {
					r.fail(Failure{Oracle: opn + ": every feature denotes the residues it denoted before (host re-mapped, guest offset)", Op: line,
						Got: fmt.Sprintf("%s missing %d", k, v)})
					break
				}
			}
		}
		if k < 3 {
			r.sample(fmt.Sprintf("seq.insert %s %d %s", encSeq(host), i, encSeq(guest)))
		}
	}
}

func copySeq(s gts.Sequence) gts.Sequence {
	ff := make(gts.FeatureSlice, len(s.Features()))
	copy(ff, s.Features())
	p := append([]byte(nil), s.Bytes()...)
	return gts.New(nil, ff, p)
}

func (r *Run) rangeL() int {
	if r.tier == "thorough" {
		return r.rng.rangeInt(1, 30)
	}
	return r.rng.rangeInt(1, 14)
}

// --- C03 --------------------------------------------------------------------

func c03Loc(r *Run, l gts.Location, L, i, k int) {
	ls := encLoc(l)
	line := fmt.Sprintf("loc.expand %s %d %d", ls, i, -k)
	out := r.op(line)
	r.count("delete/" + kindOf(l))
	if out == "PANIC" {
		r.fail(Failure{Oracle: "expand(-k): no panic", Op: line, Got: out})
		return
	}
	guard := fmt.Sprintf("k2.expand %s %d %d", ls, i, -k)
	got := l.Expand(i, -k)
	d := den(l)
	want := mapDen(d, delMap(i, k))
	r.eval(fmt.Sprintf("d|%s|%d|%d", ls, i, k), len(d) > 0 && len(want) < len(d))
	r.checkDenLaw("delete: den(after) = filterMap delMap den(before)", line, guard, got, want)
	r.specCw(got, L-k)
	r.specMarks(l, got)
	if !coordsWithin(got, L-k) {
		r.fail(Failure{Oracle: "delete: coordinates stay inside the new sequence", Op: line, Got: encLoc(got),
			Want: fmt.Sprintf("all coordinates in [0,%d]", L-k), Guard: guard})
	}
	if len(d) > 0 && len(want) == 0 {
		// every leaf is a zero-length site and the cut site is among them
		atCut, allSites := false, true
		for _, u := range leaves(got) {
			b, ok := u.(gts.Between)
			if !ok {
				allSites = false
			} else if int(b) == i {
				atCut = true
			}
		}
		if !allSites || !atCut {
			r.fail(Failure{Oracle: "delete: a location that lost all residues collapses to the site at the cut", Op: line,
				Got: encLoc(got), Want: fmt.Sprintf("between-site %d", i), Guard: guard})
		}
	}
	// an outer end whose residue was removed becomes partial (checked when the outer leaf
	// itself survives with at least one residue; ambiguous leaves carry no marker)
	if len(d) > 0 && len(want) > 0 && !hasAmbiguous(l) && nodup(d) {
		m50, m30 := outerMarks(l)
		m51, m31 := outerMarks(got)
		first, last, _ := outerLeaves(l)
		removed := func(x int) bool { return i <= x && x < i+k }
		// THE PROPERTY'S CLAUSE on every shape ("an end whose residues were cut off becomes partial"): the first
		// (last) residue READ was removed and something survives => the 5' (3') marker is set.  Where the outer
		// leaf is a range that keeps a residue this is implied by the iff-clauses below (theorems
		// expand_del_marks5/3_partial, guards outer5Kept / outer3Kept); every other shape — a first / last part
		// wholly inside the removed span, a point at the end — is known finding K3M
		// (Gts.C03.expand_del_marks5_cut_full_refuted / 3_cut_full_refuted).
		kept5, kept3 := false, false
		if fr, ok := first.l.(gts.Ranged); ok && len(mapDen(den(first.l), delMap(i, k))) > 0 {
			_ = fr
			kept5 = true
		}
		if lr, ok := last.l.(gts.Ranged); ok && len(mapDen(den(last.l), delMap(i, k))) > 0 {
			_ = lr
			kept3 = true
		}
		if removed(d[0].x) {
			r.count("delete/marker-clause/5'-cut")
			if !kept5 {
				r.count("delete/marker-clause/5'-cut/outside-outer5Kept")
				if !m51 {
					r.fail(Failure{Oracle: "delete: an end whose residues were cut off becomes partial (5' end, first part removed altogether)", Op: line,
						Got: encLoc(got), Want: "5' marker true", Finding: "K3M"})
				}
			}
		}
		if removed(d[len(d)-1].x) {
			r.count("delete/marker-clause/3'-cut")
			if !kept3 {
				r.count("delete/marker-clause/3'-cut/outside-outer3Kept")
				if !m31 {
					r.fail(Failure{Oracle: "delete: an end whose residues were cut off becomes partial (3' end, last part removed altogether)", Op: line,
						Got: encLoc(got), Want: "3' marker true", Finding: "K3M"})
				}
			}
		}
		if fr, ok := first.l.(gts.Ranged); ok && len(mapDen(den(first.l), delMap(i, k))) > 0 {
			firstRes := fr.Start
			if first.rev {
				firstRes = fr.End - 1
			}
			if want5 := m50 || removed(firstRes); m51 != want5 {
				r.fail(Failure{Oracle: "delete: 5' marker set iff the first residue was cut off (or was set)", Op: line,
					Got: encLoc(got), Want: fmt.Sprintf("5' marker %v", want5), Guard: guard})
			}
		}
		if lr, ok := last.l.(gts.Ranged); ok && len(mapDen(den(last.l), delMap(i, k))) > 0 {
			lastRes := lr.End - 1
			if last.rev {
				lastRes = lr.Start
			}
			if want3 := m30 || removed(lastRes); m31 != want3 {
				r.fail(Failure{Oracle: "delete: 3' marker set iff the last residue was cut off (or was set)", Op: line,
					Got: encLoc(got), Want: fmt.Sprintf("3' marker %v", want3), Guard: guard})
			}
		}
	}
}

func residueLeaves(l gts.Location) []gts.Location {
	var out []gts.Location
	for _, u := range leaves(l) {
		if leafLen(u) > 0 {
			out = append(out, u)
		}
	}
	return out
}

func spanOf(l gts.Location) (int, int) {
	switch v := l.(type) {
	case gts.Between:
		return int(v), int(v)
	case gts.Point:
		return int(v), int(v) + 1
	case gts.Ranged:
		return v.Start, v.End
	case gts.Ambiguous:
		return v.Start, v.End
	}
	return 0, 0
}

// c03WrapWitness replays the kernel-checked witness of Gts.C03.slice_wrap_feature_full_refuted (the
// wrap-around window law without the K2 guard) on the real code and on the model, and the non-vacuity
// instance of slice_wrap_neg_den_partial (a negative start index).
func c03WrapWitness(r *Run) {
	p := []byte("acgtacgtac")
	w := gts.New(nil, gts.FeatureSlice{{Key: "gene", Loc: gts.Joined{gts.Ranged{Start: 2, End: 4}, gts.Point(4)}}}, p)
	line := fmt.Sprintf("seq.slice %s 8 5", encSeq(w))
	out := r.op(line)
	want := encSeq(gts.New(nil, gts.FeatureSlice{{Key: "gene", Loc: gts.Ranged{Start: 4, End: 6}}}, []byte("acacgta")))
	r.count("wrap-witness")
	if out != want {
		r.fail(Failure{Oracle: "slice: the witness of Gts.C03.slice_wrap_feature_full_refuted reproduces on the real code", Op: line, Got: out, Want: want})
	}
	n := gts.New(nil, gts.FeatureSlice{{Key: "CDS", Loc: gts.Complemented{Location: gts.Joined{
		gts.Ranged{Start: 1, End: 3, Partial: gts.Partial{Partial5: true}}, gts.Point(5), gts.Ranged{Start: 8, End: 10}}}}}, p)
	line = fmt.Sprintf("seq.slice %s -2 4", encSeq(n))
	out = r.op(line)
	res := gts.Slice(copySeq(n), -2, 4)
	if out == "PANIC" || len(res.Features()) != 1 || denStr(den(res.Features()[0].Loc)) != denStr([]pos{{1, true}, {0, true}, {4, true}, {3, true}}) {
		r.fail(Failure{Oracle: "slice: the instance of Gts.C03.slice_wrap_neg_den_partial (negative start) holds on the real code", Op: line, Got: out})
	}
}

func propC03(r *Run) {
	L, _, nRandom := scope(r)
	r.exhaustive = true
	c03WrapWitness(r)
	c03Topology(r)
	for _, l := range smallLocs(L, true) {
		for i := 0; i <= L; i++ {
			for k := 1; i+k <= L; k++ {
				c03Loc(r, l, L, i, k)
			}
		}
	}
	r.notes = append(r.notes, fmt.Sprintf("exhaustive: smallLocs(L=%d) x all (i,k) with i+k<=L", L))
	for t := 0; t < nRandom; t++ {
		LL := r.rangeL()
		l := genLoc(r.rng, 3, LL, 5, true)
		i := r.rng.intn(LL)
		k := r.rng.rangeInt(1, LL-i)
		c03Loc(r, l, LL, i, k)
		if t < 4 {
			r.sample(fmt.Sprintf("loc.expand %s %d %d", encLoc(l), i, -k))
		}
	}
	c03Refs(r)
	c03RefsWrap(r)
	// within / overlap (survival predicates)
	for t := 0; t < nRandom/4; t++ {
		LL := r.rangeL()
		l := genLoc(r.rng, 3, LL, 4, true)
		lo := r.rng.intn(LL + 1)
		hi := r.rng.intn(LL + 1)
		r.op(fmt.Sprintf("loc.within %s %d %d", encLoc(l), lo, hi))
		r.op(fmt.Sprintf("loc.overlap %s %d %d", encLoc(l), lo, hi))
		r.op(fmt.Sprintf("loc.ascomplete %s", encLoc(l)))
	}
	// whole-sequence Delete / Erase / Slice
	for t := 0; t < nRandom/10; t++ {
		LL := r.rng.rangeInt(1, 13)
		s := genSeq(r.rng, LL, 4, 2)
		i := r.rng.intn(LL + 1)
		k := r.rng.intn(LL - i + 1)
		for _, opn := range []string{"seq.delete", "seq.erase"} {
			line := fmt.Sprintf("%s %s %d %d", opn, encSeq(s), i, k)
			out := r.op(line)
			r.count(opn)
			if out == "PANIC" {
				r.fail(Failure{Oracle: opn + ": no panic", Op: line, Got: out})
				continue
			}
			var res gts.Sequence
			if opn == "seq.delete" {
				res = gts.Delete(copySeq(s), i, k)
			} else {
				res = gts.Erase(copySeq(s), i, k)
			}
			r.eval(line, k > 0 && len(s.Features()) > 0)
			want := append(append([]byte{}, s.Bytes()[:i]...), s.Bytes()[i+k:]...)
			if string(res.Bytes()) != string(want) {
				r.fail(Failure{Oracle: opn + ": residues = seq[:i]+seq[i+n:]", Op: line,
					Got: encBytes(res.Bytes()), Want: encBytes(want)})
			}
			// the same sequence value used twice: both results read seq[:i]+seq[i+n:]
			{
				shared := copySeq(s)
				var r1, r2 gts.Sequence
				if opn == "seq.delete" {
					r1 = gts.Delete(shared, i, k)
					r2 = gts.Delete(shared, i, k)
				} else {
					r1 = gts.Erase(shared, i, k)
					r2 = gts.Erase(shared, i, k)
				}
				r.count(opn + "/same argument used twice")
				if string(r1.Bytes()) != string(want) || string(r2.Bytes()) != string(want) {
					r.fail(Failure{Oracle: opn + ": applied twice to the same sequence value, both results read seq[:i]+seq[i+n:]", Op: line,
						Got: encBytes(r1.Bytes()) + " / " + encBytes(r2.Bytes()), Want: encBytes(want)})
				}
			}
			if opn == "seq.erase" {
				// dropped exactly the non-source features whose residues all lie in [i,i+k)
				wantN := 0
				for _, f := range s.Features() {
					if f.Key == "source" || !specWithin(f.Loc, i, i+k) {
						wantN++
					}
				}
				if len(res.Features()) != wantN {
					r.fail(Failure{Oracle: "erase: drops exactly the features within the region", Op: line,
						Got: fmt.Sprintf("%d features", len(res.Features())), Want: fmt.Sprintf("%d", wantN)})
				}
			} else if len(res.Features()) != len(s.Features()) {
				r.fail(Failure{Oracle: "delete: every feature survives", Op: line,
					Got: fmt.Sprintf("%d features", len(res.Features()))})
			}
			wantF := map[string]int{}
			for _, f := range s.Features() {
				if opn == "seq.erase" && f.Key != "source" && specWithin(f.Loc, i, i+k) {
					continue
				}
				if d := den(f.Loc); lawApplies(f.Loc, d) {
					if w := mapDen(d, delMap(i, k)); len(w) > 0 {
						wantF[featKey(f)+denStr(w)]++
						if hasAmbiguous(f.Loc) {
							r.count(opn + "/law evaluated on a feature with an ambiguous span")
						}
					}
				}
			}
			for _, f := range res.Features() {
				wantF[featKey(f)+denStr(den(f.Loc))]--
				if !coordsWithin(f.Loc, LL-k) {
					r.fail(Failure{Oracle: opn + ": coordinates stay inside the new sequence", Op: line, Got: encLoc(f.Loc)})
				}
			}
			for kk, v := range wantF {
				if v > 0 {
					r.fail(Failure{Oracle: opn + ": every surviving feature denotes its former residues minus the removed ones", Op: line,
						Got: fmt.Sprintf("%s missing %d", kk, v)})
					break
				}
			}
		}
		// Slice: forward, wrap-around, negative
		a := r.rng.rangeInt(-LL, LL)
		b := r.rng.rangeInt(-LL, LL)
		line := fmt.Sprintf("seq.slice %s %d %d", encSeq(s), a, b)
		out := r.op(line)
		r.count("seq.slice")
		if out == "PANIC" {
			r.fail(Failure{Oracle: "slice: no panic", Op: line, Got: out})
			continue
		}
		res := gts.Slice(copySeq(s), a, b)
		aa, bb := a, b
		if aa < 0 {
			aa += LL
		}
		if bb < 0 {
			bb += LL
		}
		var want []byte
		if bb < aa {
			want = append(append([]byte{}, s.Bytes()[aa:]...), s.Bytes()[:bb]...)
		} else {
			want = append([]byte{}, s.Bytes()[aa:bb]...)
		}
		r.eval(line, len(want) > 0 && len(s.Features()) > 0)
		if string(res.Bytes()) != string(want) {
			r.fail(Failure{Oracle: "slice: residues are exactly the window", Op: line,
				Got: encBytes(res.Bytes()), Want: encBytes(want)})
		}
		// per-feature meaning: window map
		winMap := func(x int) (int, bool) {
			if bb < aa {
				if x >= aa {
					return x - aa, true
				}
				if x < bb {
					return x + LL - aa, true
				}
				return 0, false
			}
			if x >= aa && x < bb {
				return x - aa, true
			}
			return 0, false
		}
		// the surviving features are those with at least one residue (or site) overlapping; compare multisets of re-mapped denotations for features that keep a residue
		wantD := map[string]int{}
		wrap := bb < aa
		// K3A: under a wrap-around window (Rotate by -start, then Slice(0, length)) an ambiguous span
		// ACROSS THE WINDOW START (s < start < e) comes back inverted; the wrap-around theorems
		// (slice_wrap_*_partial) exclude it through `normOk`, the property does not.  Such a feature
		// is skipped by the denotation law (counted) and what the real code returns for it is
		// computed here so that a coordinate failure on exactly that result is attributed to K3A.
		k3a := map[string]int{}
		for _, f := range s.Features() {
			d0 := den(f.Loc)
			d := mapDen(d0, winMap)
			if hasAmbiguous(f.Loc) {
				r.count("seq.slice/feature-with-ambiguous-span")
			}
			if wrap {
				if ambCrossesOrigin(f.Loc, LL-aa, LL) {
					r.count("seq.slice/wrap/skipped: ambiguous span across the window start (normOk; K3A)")
					rot := f.Loc.Expand(0, LL-aa).Normalize(LL)
					n := LL - aa + bb
					k3a[featKey(f)+encLoc(rot.Expand(n, n-LL).Expand(0, 0))]++
					if f.Key == "source" {
						k3a[featKey(f)+"|source"]++
					}
					continue
				}
				// the window wraps around the origin: Slice rotates first; full-length and
				// K2-shaped features have their own clauses under C04
				if len(d) > 0 && lawApplies(f.Loc, d0) && len(d0) < LL {
					wantD[featKey(f)+denStr(d)]++
					if hasAmbiguous(f.Loc) {
						r.count("seq.slice/wrap/law evaluated on a feature with an ambiguous span")
					}
				}
			} else if len(d) > 0 && nodup(d0) {
				wantD[featKey(f)+denStr(d)]++
				if hasAmbiguous(f.Loc) {
					r.count("seq.slice/forward/law evaluated on a feature with an ambiguous span")
				}
			}
		}
		for _, f := range res.Features() {
			d := den(f.Loc)
			if len(d) > 0 {
				wantD[featKey(f)+denStr(d)]--
			}
			if !coordsWithin(f.Loc, len(want)) {
				fl := Failure{Oracle: "slice: coordinates stay inside the window", Op: line, Got: encLoc(f.Loc)}
				if k := featKey(f) + encLoc(f.Loc); k3a[k] > 0 {
					k3a[k]--
					fl.Finding = "K3A"
				} else if k := featKey(f) + "|source"; k3a[k] > 0 && hasAmbiguous(f.Loc) {
					k3a[k]--
					fl.Finding = "K3A"
				}
				r.fail(fl)
			}
		}
		// the spelling of the window does not matter: "negative indices counting from the end"
		// denote the same window as the non-negative ones, so the whole result (residues,
		// features with their markers, order) is the same (seeded change C03-i: a negative end
		// took the wrap-around path and lost partial markers while the denotation stayed right)
		if a != aa || b != bb {
			r.count("seq.slice/negative-spelling")
			canon := gts.Slice(copySeq(s), aa, bb)
			if encSeq(res) != encSeq(canon) {
				r.fail(Failure{Oracle: "slice: a window spelled with negative indices is the window spelled with the non-negative ones", Op: line,
					Got: encSeq(res), Want: fmt.Sprintf("Slice(%d,%d) = %s", aa, bb, encSeq(canon))})
			}
		}
		// markers of a sliced feature: a range in a forward window gets a marker exactly on the
		// ends whose residues were cut off and keeps its own
		// a source feature never becomes partial by slicing: any member, inner ends included (seeded
		// change C03-j), either strand (finding F37, repaired in /repo e43d5f2)
		srcPartial := false
		for _, f := range s.Features() {
			srcPartial = srcPartial || (f.Key == "source" && anyPartial(f.Loc))
		}
		if !srcPartial {
			for _, g := range res.Features() {
				if g.Key == "source" {
					r.count("seq.slice/source-complete")
					if anyPartial(g.Loc) {
						r.fail(Failure{Oracle: "slice: a source feature does not become partial", Op: line, Got: encLoc(g.Loc)})
					}
				}
			}
		}
		// a between-site strictly inside a forward window overlaps it and survives, re-based (seeded
		// change W20-2: LocationOverlap answering false for every empty span)
		if !wrap {
			for _, f := range s.Features() {
				if bt, ok := f.Loc.(gts.Between); ok && aa < int(bt) && int(bt) < bb && f.Key != "source" {
					r.count("seq.slice/site-inside-window")
					found := false
					for _, g := range res.Features() {
						if g.Key == f.Key && encLoc(g.Loc) == encLoc(gts.Between(int(bt)-aa)) {
							found = true
						}
					}
					if !found {
						r.fail(Failure{Oracle: "slice: a between-site strictly inside the window survives at its re-based position", Op: line,
							Got: encSeq(res), Want: featKey(f) + " at " + encLoc(gts.Between(int(bt)-aa))})
					}
				}
			}
		}
		if !wrap {
			wantR := map[string]int{}
			for _, f := range s.Features() {
				rg, ok := f.Loc.(gts.Ranged)
				if !ok || f.Key == "source" {
					continue
				}
				lo, hi := rg.Start, rg.End
				if lo < aa {
					lo = aa
				}
				if hi > bb {
					hi = bb
				}
				if lo >= hi {
					continue
				}
				w := gts.Ranged{Start: lo - aa, End: hi - aa, Partial: gts.Partial{Partial5: rg.Partial.Partial5 || rg.Start < aa, Partial3: rg.Partial.Partial3 || rg.End > bb}}
				wantR[featKey(f)+encLoc(w)]++
				r.count("seq.slice/range-markers")
			}
			for _, g := range res.Features() {
				wantR[featKey(g)+encLoc(g.Loc)]--
			}
			for k, v := range wantR {
				if v > 0 {
					r.fail(Failure{Oracle: "slice: a range is clipped to the window and partial exactly at the ends that were cut off (or were partial)", Op: line,
						Got: fmt.Sprintf("%s missing %d", k, v)})
					break
				}
			}
		}
		for k, v := range wantD {
			if v > 0 {
				g := ""
				if !wrap {
					g = sliceGuards(s, aa, bb)
				}
				r.fail(Failure{Oracle: "slice: every feature with residues in the window survives with exactly those residues", Op: line,
					Got: fmt.Sprintf("%s missing %d", k, v), Guard: g})
				break
			}
		}
	}
}

// anyPartial: some leaf of the location carries a partial marker
func anyPartial(l gts.Location) bool {
	for _, u := range leaves(l) {
		if rg, ok := u.(gts.Ranged); ok && (rg.Partial.Partial5 || rg.Partial.Partial3) {
			return true
		}
	}
	return false
}

// --- C04 --------------------------------------------------------------------

func c04Loc(r *Run, l gts.Location, L, n int) {
	ls := encLoc(l)
	// the two steps of gts.Rotate on a location
	m := ((n % L) + L) % L
	// the property covers ambiguous spans only when they do not cross the new origin
	for _, u := range leaves(l) {
		if a, ok := u.(gts.Ambiguous); ok {
			if (a.Start+m)/L != (a.End-1+m)/L {
				r.count("rotate/skipped-ambiguous-crossing-origin")
				return
			}
		}
	}
	line1 := fmt.Sprintf("loc.expand %s 0 %d", ls, m)
	o1 := r.op(line1)
	if o1 == "PANIC" {
		r.fail(Failure{Oracle: "rotate/expand: no panic", Op: line1, Got: o1})
		return
	}
	mid := l.Expand(0, m)
	line := fmt.Sprintf("loc.normalize %s %d", encLoc(mid), L)
	out := r.op(line)
	r.count("rotate/" + kindOf(l))
	if out == "PANIC" {
		r.fail(Failure{Oracle: "normalize: no panic", Op: line, Got: out})
		return
	}
	got := mid.Normalize(L)
	d := den(l)
	want := mapDen(d, rotMap(m, L))
	r.eval(fmt.Sprintf("r|%s|%d|%d", ls, L, m), len(d) > 0 && m > 0)
	guard := fmt.Sprintf("k2.expand %s 0 %d ; k2.normalize %s %d", ls, m, encLoc(mid), L)
	fullLen := false
	for _, u := range leaves(l) {
		if leafLen(u) == L {
			fullLen = true
		}
	}
	// abutting parts can merge into a full-length range: same treatment
	uniq := map[int]bool{}
	for _, p := range want {
		uniq[p.x] = true
	}
	if len(uniq) == L {
		fullLen = true
	}
	if fullLen {
		// "a full-length feature stays full-length": it is re-based to 0..L, so only the
		// set of residues (not the reading start) is preserved
		if !sameSet(den(got), want) {
			r.fail(Failure{Oracle: "rotate: a full-length part keeps its residues", Op: line, Got: encLoc(got), Guard: guard})
		}
		if rg, ok := l.(gts.Ranged); ok {
			if g, ok := got.(gts.Ranged); !ok || g.Start != 0 || g.End != L || g.Partial != rg.Partial {
				r.fail(Failure{Oracle: "rotate: a full-length range stays full-length with its markers", Op: line, Got: encLoc(got)})
			}
		}
	} else {
		if r.checkDenLaw("rotate: den(after) = map rotMap den(before)", line, guard, got, want) && len(d) > 0 && nodup(d) && !hasAmbiguous(l) {
			a5, a3 := outerMarks(l)
			b5, b3 := outerMarks(got)
			if a5 != b5 || a3 != b3 {
				r.fail(Failure{Oracle: "rotate: partial markers stay on the same outer ends", Op: line, Got: encLoc(got),
					Want: fmt.Sprintf("5' %v 3' %v", a5, a3), Guard: guard})
			}
		}
	}
	r.specCw(got, L)
	r.specMarks(l, got)
	if !coordsWithin(got, L) {
		r.fail(Failure{Oracle: "rotate: coordinates in [0,L]", Op: line, Got: encLoc(got), Guard: guard})
	}
}

func propC04(r *Run) {
	L, _, nRandom := scope(r)
	r.exhaustive = true
	for _, l := range smallLocs(L, true) {
		for n := -L; n <= 2*L; n++ {
			c04Loc(r, l, L, n)
		}
	}
	r.notes = append(r.notes, fmt.Sprintf("exhaustive: smallLocs(L=%d) x n in [-L,2L] (ambiguous spans crossing the new origin skipped)", L))
	for t := 0; t < nRandom; t++ {
		LL := r.rangeL()
		l := genLoc(r.rng, 3, LL, 5, t%3 == 0)
		n := r.rng.rangeInt(-3*LL, 3*LL)
		c04Loc(r, l, LL, n)
		if t < 4 {
			r.sample(fmt.Sprintf("rotate %s L=%d n=%d", encLoc(l), LL, n))
		}
	}
	// whole-sequence rotate: residues and additivity
	for t := 0; t < nRandom/10; t++ {
		LL := r.rng.rangeInt(1, 13)
		s := genSeq(r.rng, LL, 4, 2)
		if t%4 == 0 && LL >= 2 {
			ff := gts.FeatureSlice(nil)
			for _, f := range s.Features() {
				ff = ff.Insert(f)
			}
			ff = ff.Insert(gts.Feature{Key: "misc_feature", Loc: fullCover(r.rng, LL), Props: gts.Props{}})
			s = gts.New(nil, ff, s.Bytes())
			r.count("seq.rotate/with-full-cover-feature")
		}
		a := r.rng.rangeInt(-3*LL, 3*LL)
		b := r.rng.rangeInt(-3*LL, 3*LL)
		line := fmt.Sprintf("seq.rotate %s %d", encSeq(s), a)
		out := r.op(line)
		r.count("seq.rotate")
		if out == "PANIC" {
			r.fail(Failure{Oracle: "rotate: no panic", Op: line, Got: out})
			continue
		}
		ra := gts.Rotate(copySeq(s), a)
		r.eval(line, LL > 1 && a%LL != 0)
		// residue k moves to (k+a) mod L
		okBytes := true
		for k := 0; k < LL; k++ {
			if ra.Bytes()[((k+a)%LL+LL)%LL] != s.Bytes()[k] {
				okBytes = false
			}
		}
		if !okBytes {
			r.fail(Failure{Oracle: "rotate: residue k moves to (k+n) mod L", Op: line, Got: encBytes(ra.Bytes())})
		}
		c04Feats(r, line, s, ra, []int{a}, LL)
		rab := gts.Rotate(copySeq(ra), b)
		c04Feats(r, fmt.Sprintf("seq.rotate %s %d ; then %d", encSeq(s), a, b), s, rab, []int{a, b}, LL)
		rsum := gts.Rotate(copySeq(s), a+b)
		if string(rab.Bytes()) != string(rsum.Bytes()) {
			r.fail(Failure{Oracle: "rotate: additive on residues", Op: line + fmt.Sprintf(" then %d", b), Got: encBytes(rab.Bytes()), Want: encBytes(rsum.Bytes())})
		}
		r.op(fmt.Sprintf("seq.rotate %s %d", encSeq(ra), b))
	}
}

// --- C05 --------------------------------------------------------------------

func c05Loc(r *Run, l gts.Location, L int) {
	ls := encLoc(l)
	line := fmt.Sprintf("loc.reverse %s %d", ls, L)
	out := r.op(line)
	r.count("reverse/" + kindOf(l))
	if out == "PANIC" {
		r.fail(Failure{Oracle: "reverse: no panic", Op: line, Got: out})
		return
	}
	guard := fmt.Sprintf("k2.reverse %s %d", ls, L)
	got := l.Reverse(L)
	d := den(l)
	r.eval("v|"+ls+"|"+itoa(L), len(d) > 0)
	// mirrored order: reverse list, mirror each, strand kept (Reverse does not complement)
	want := make([]pos, len(d))
	for k, p := range d {
		want[len(d)-1-k] = pos{L - 1 - p.x, p.rev}
	}
	// complement parts keep their internal direction: den(compl x) is already reversed,
	// so mirroring the whole list is correct only per top-level strand; compare as sets
	// plus order for purely forward / purely reverse locations.
	g := den(got)
	setOK := sameSet(g, want)
	if !setOK {
		r.fail(Failure{Oracle: "reverse: residue x denoted before iff L-1-x denoted after", Op: line,
			Got: encLoc(got) + " den=" + denStr(g), Want: "set " + denStr(want), Guard: guard})
	} else if denOneStrand(d) && !hasNestedCompl(l) {
		if !sameMeaning(g, want) {
			r.fail(Failure{Oracle: "reverse: parts appear in mirrored order", Op: line,
				Got: encLoc(got) + " den=" + denStr(g), Want: denStr(want), Guard: guard})
		}
	}
	// partial markers swap ends
	r.specMarks(l, got)
	r.specCw(l, L)
	if len(d) > 0 && !hasAmbiguous(l) && nodup(d) {
		lo0, hi0 := outerMarks(l)
		lo1, hi1 := outerMarks(got)
		if lo1 != hi0 || hi1 != lo0 {
			r.fail(Failure{Oracle: "reverse: 5'/3' partial markers swap ends", Op: line, Got: encLoc(got), Guard: guard})
		}
	}
	// between-sites: site g maps to site L-g  (known finding K1: the code yields L-1-g)
	if b, ok := l.(gts.Between); ok {
		if gb, ok := got.(gts.Between); !ok || int(gb) != L-int(b) {
			r.fail(Failure{Oracle: "reverse: the site between g-1 and g maps to the site between L-g-1 and L-g", Op: line,
				Got: encLoc(got), Want: encLoc(gts.Between(L - int(b))), Finding: "K1"})
		}
	}
	// involution (on canonical locations: what Join/Order would build)
	back := got.Reverse(L)
	r.op(fmt.Sprintf("loc.reverse %s %d", encLoc(got), L))
	if !hasBetween(l) && isCanonical(l) && nodup(d) && !locEq(back, l) {
		r.fail(Failure{Oracle: "reverse: involution on canonical locations", Op: line, Got: encLoc(back), Want: ls, Guard: guard})
	}
	// complement involution
	cc := l.Complement().Complement()
	r.op("loc.complement " + ls)
	isCC := false
	if c1, ok := l.(gts.Complemented); ok {
		_, isCC = c1.Location.(gts.Complemented)
	}
	if !isCC && !locEq(cc, l) {
		r.fail(Failure{Oracle: "complement: involution", Op: "loc.complement " + ls, Got: encLoc(cc), Want: ls})
	}
	// reverse-complement extraction: Locate(compl(reverse l)) on revcomp(seq) == Locate(l) on seq
	if coordsWithin(l, L) && L > 0 && L < 60 {
		p := make([]byte, L)
		for x := range p {
			p[x] = "acgt"[(x*7+x/4+L)%4]
		}
		seq := gts.New(nil, nil, p)
		rc := gts.Reverse(gts.Complement(seq))
		a := l.Region().Locate(seq).Bytes()
		bb := got.Complement().Region().Locate(rc).Bytes()
		if string(a) != string(bb) && nodup(d) {
			r.fail(Failure{Oracle: "reverse-complement: extraction from the reverse-complemented record equals the original extraction", Op: line,
				Got: string(bb), Want: string(a), Guard: guard})
		}
	}
}

// denOneStrand: every residue of the denotation is read on the same strand — the gate of "parts appear
// in mirrored order", read off the DENOTATION and not asked of gts.CheckStrand (a library function: an
// answer StrandBoth for a shape would switch the clause off exactly there)
func denOneStrand(d []pos) bool {
	for _, p := range d {
		if p.rev != d[0].rev {
			return false
		}
	}
	return true
}

func sameSet(a, b []pos) bool {
	sa, sb := map[pos]bool{}, map[pos]bool{}
	for _, p := range a {
		sa[p] = true
	}
	for _, p := range b {
		sb[p] = true
	}
	if len(sa) != len(sb) {
		return false
	}
	for p := range sa {
		if !sb[p] {
			return false
		}
	}
	return true
}

func hasNestedCompl(l gts.Location) bool {
	switch v := l.(type) {
	case gts.Joined:
		for _, u := range v {
			if _, ok := u.(gts.Complemented); ok || hasNestedCompl(u) {
				return true
			}
		}
	case gts.Ordered:
		for _, u := range v {
			if _, ok := u.(gts.Complemented); ok || hasNestedCompl(u) {
				return true
			}
		}
	case gts.Complemented:
		return hasNestedCompl(v.Location)
	}
	return false
}

// isCanonical: the location is what the constructors Join / Order build from
// its own parts (no reducible neighbours, no nested same-kind lists).
func isCanonical(l gts.Location) (ok bool) {
	defer func() {
		if recover() != nil {
			ok = false
		}
	}()
	switch v := l.(type) {
	case gts.Joined:
		for _, u := range v {
			if !isCanonical(u) {
				return false
			}
		}
		return locEq(gts.Join([]gts.Location(v)...), l)
	case gts.Ordered:
		for _, u := range v {
			if !isCanonical(u) {
				return false
			}
		}
		return locEq(gts.Order([]gts.Location(v)...), l)
	case gts.Complemented:
		if _, cc := v.Location.(gts.Complemented); cc {
			return false
		}
		return isCanonical(v.Location)
	}
	return true
}

// c05InvolutionWitnesses replays, on the real code and on the model, the kernel-checked witnesses of
// the refuted involution statements of lean/Gts/Props/C05.lean (Reverse twice): the protocol lines go
// through the correspondence diff, and the implementation's answers are compared with the values the
// Lean theorems compute (reverse_involutive_full_refuted, reverse_involutive_k2_refuted,
// reverse_involutive_absorb_refuted / reverse_twice_den_eq_refuted, reverse_twice_den_full_refuted).
func c05InvolutionWitnesses(r *Run) {
	pt := func(p int) gts.Location { return gts.Point(p) }
	rg := func(s, e int) gts.Location { return gts.Ranged{Start: s, End: e} }
	for _, w := range []struct {
		thm         string
		l           gts.Location
		once, twice string
	}{
		{"reverse_involutive_full_refuted", gts.Joined{pt(3), rg(4, 8)}, "(R 2 6 0 0)", "(R 4 8 0 0)"},
		{"reverse_involutive_k2_refuted", gts.Joined{pt(4), gts.Between(4)}, "(P 5)", "(P 4)"},
		{"reverse_involutive_absorb_refuted", gts.Joined{rg(2, 5), pt(4)}, "(R 5 8 0 0)", "(R 2 5 0 0)"},
		{"reverse_twice_den_full_refuted", gts.Joined{rg(2, 6), gts.Between(5), pt(6)}, "(J (P 3) (R 4 8 0 0))", "(R 2 6 0 0)"},
	} {
		line := fmt.Sprintf("loc.reverse %s 10", encLoc(w.l))
		once := r.op(line)
		twice := r.op(fmt.Sprintf("loc.reverse %s 10", once))
		r.count("involution-witness")
		if once != w.once || twice != w.twice {
			r.fail(Failure{Oracle: "reverse twice: the witness of Gts.C05." + w.thm + " reproduces on the real code",
				Op: line, Got: once + " ; " + twice, Want: w.once + " ; " + w.twice})
		}
	}
}

func propC05(r *Run) {
	defer c05CliOracles(r)
	c05LocateCases(r)
	L, _, nRandom := scope(r)
	r.exhaustive = true
	c05InvolutionWitnesses(r)
	for _, l := range smallLocs(L, true) {
		c05Loc(r, l, L)
		c05Loc(r, l, L+3)
	}
	// every arity 1..5, odd and even
	for ar := 1; ar <= 5; ar++ {
		for t := 0; t < 400; t++ {
			LL := 4 * ar
			parts := make([]gts.Location, ar)
			for j := range parts {
				s := 4*j + r.rng.intn(2)
				parts[j] = gts.Ranged{Start: s, End: s + 1 + r.rng.intn(2), Partial: partials[r.rng.intn(4)]}
				if r.rng.intn(5) == 0 {
					parts[j] = gts.Point(s)
				}
			}
			var l gts.Location = gts.Joined(parts)
			if t%3 == 1 {
				l = gts.Ordered(parts)
			}
			if t%2 == 1 {
				l = gts.Complemented{Location: l}
			}
			c05Loc(r, l, LL)
			r.count(fmt.Sprintf("arity%d", ar))
		}
	}
	r.notes = append(r.notes, fmt.Sprintf("exhaustive: smallLocs(L=%d) at lengths L and L+3; arities 1..5 x 400", L))
	for t := 0; t < nRandom; t++ {
		LL := r.rangeL()
		l := genLoc(r.rng, 3, LL, 5, true)
		c05Loc(r, l, LL)
		if t < 4 {
			r.sample(fmt.Sprintf("loc.reverse %s %d", encLoc(l), LL))
		}
	}
	for t := 0; t < nRandom/10; t++ {
		LL := r.rng.rangeInt(1, 13)
		s := genSeq(r.rng, LL, 4, 2)
		line := "seq.reverse " + encSeq(s)
		out := r.op(line)
		r.count("seq.reverse")
		if out == "PANIC" {
			r.fail(Failure{Oracle: "seq.reverse: no panic", Op: line, Got: out})
			continue
		}
		res := gts.Reverse(copySeq(s))
		r.eval(line, len(s.Features()) > 0)
		for k := 0; k < LL; k++ {
			if res.Bytes()[LL-1-k] != s.Bytes()[k] {
				r.fail(Failure{Oracle: "seq.reverse: residues mirrored", Op: line, Got: encBytes(res.Bytes())})
				break
			}
		}
		if len(res.Features()) != len(s.Features()) {
			r.fail(Failure{Oracle: "seq.reverse: no feature lost", Op: line, Got: itoa(len(res.Features()))})
		}
		want := map[string]int{}
		for _, f := range s.Features() {
			if d := den(f.Loc); lawApplies(f.Loc, d) && !hasBetween(f.Loc) {
				w := make([]pos, len(d))
				for k2, p := range d {
					w[len(d)-1-k2] = pos{LL - 1 - p.x, p.rev}
				}
				if denOneStrand(d) && !hasNestedCompl(f.Loc) {
					want[featKey(f)+denStr(w)]++
					if hasAmbiguous(f.Loc) {
						r.count("seq.reverse/law evaluated on a feature with an ambiguous span")
					}
				}
			}
		}
		for _, f := range res.Features() {
			want[featKey(f)+denStr(den(f.Loc))]--
		}
		for kk, v := range want {
			if v > 0 {
				r.fail(Failure{Oracle: "seq.reverse: every feature denotes the mirrored residues in mirrored order", Op: line,
					Got: fmt.Sprintf("%s missing %d", kk, v)})
				break
			}
		}
	}
	// gts.Complement and gts.Reverse(gts.Complement(.)) on records: every feature, whatever the
	// kind of its top-level location, moves to the other strand and still extracts its residues
	for t := 0; t < nRandom/10; t++ {
		LL := r.rng.rangeInt(1, 13)
		s := genSeq(r.rng, LL, 4, 2)
		if t%3 == 0 { // make sure every top-level kind is seen often
			ff := gts.FeatureSlice(nil)
			for _, f := range s.Features() {
				ff = ff.Insert(f)
			}
			a := r.rng.intn(LL)
			tops := []gts.Location{gts.Ambiguous{a, a + 1 + r.rng.intn(LL-a)}, gts.Point(a), gts.Between(a),
				gts.Complemented{Location: gts.Ambiguous{a, a + 1 + r.rng.intn(LL-a)}}, gts.Range(a, a+1+r.rng.intn(LL-a))}
			ff = ff.Insert(gts.Feature{Key: "misc_feature", Loc: tops[r.rng.intn(len(tops))], Props: gts.Props{}})
			s = gts.New(nil, ff, s.Bytes())
		}
		line := "seq.complement " + encSeq(s)
		out := r.op(line)
		r.count("seq.complement")
		if out == "PANIC" {
			r.fail(Failure{Oracle: "seq.complement: no panic", Op: line, Got: out})
			continue
		}
		r.eval(line, len(s.Features()) > 0)
		cs := gts.Complement(copySeq(s))
		if len(cs.Features()) != len(s.Features()) {
			r.fail(Failure{Oracle: "seq.complement: no feature lost", Op: line, Got: itoa(len(cs.Features()))})
			continue
		}
		for k, f := range s.Features() {
			g := cs.Features()[k]
			r.count("seq.complement/top/" + kindOf(f.Loc))
			d := den(f.Loc)
			w := make([]pos, len(d))
			for k2, p := range d {
				w[len(d)-1-k2] = pos{p.x, !p.rev}
			}
			if featKey(f) != featKey(g) || !sameMeaning(den(g.Loc), w) {
				r.fail(Failure{Oracle: "seq.complement: every feature keeps its key and qualifiers and denotes the same residues on the other strand", Op: line,
					Got: encFeature(g), Want: featKey(f) + denStr(w)})
				break
			}
		}
		// involution at record level
		isCC := false
		for _, f := range s.Features() {
			if c1, ok := f.Loc.(gts.Complemented); ok {
				if _, cc := c1.Location.(gts.Complemented); cc {
					isCC = true
				}
			}
		}
		back := gts.Complement(gts.Complement(copySeq(s)))
		if !isCC {
			for k, f := range s.Features() {
				if !locEq(back.Features()[k].Loc, f.Loc) {
					r.fail(Failure{Oracle: "seq.complement: involution on every feature location", Op: line,
						Got: encLoc(back.Features()[k].Loc), Want: encLoc(f.Loc)})
					break
				}
			}
		}
		// reverse-complemented record: same extraction for every feature
		line2 := "seq.revcomp " + encSeq(s)
		out2 := r.op(line2)
		r.count("seq.revcomp")
		if out2 == "PANIC" {
			r.fail(Failure{Oracle: "seq.revcomp: no panic", Op: line2, Got: out2})
			continue
		}
		rc := gts.Reverse(gts.Complement(copySeq(s)))
		wantX := map[string]int{}
		for _, f := range s.Features() {
			d := den(f.Loc)
			if len(d) > 0 && nodup(d) && !touchesK2(f.Loc) && !hasBetween(f.Loc) && coordsWithin(f.Loc, LL) {
				wantX[featKey(f)+"|"+string(f.Loc.Region().Locate(s).Bytes())]++
			}
		}
		for _, f := range rc.Features() {
			if coordsWithin(f.Loc, LL) {
				wantX[featKey(f)+"|"+string(f.Loc.Region().Locate(rc).Bytes())]--
			}
		}
		for kk, v := range wantX {
			if v > 0 {
				r.fail(Failure{Oracle: "seq.revcomp: the sequence extracted for every feature from the reverse-complemented record equals the one extracted from the original", Op: line2,
					Got: fmt.Sprintf("%q missing %d", kk, v)})
				break
			}
		}
	}
}

// --- C10 --------------------------------------------------------------------

func c10Loc(r *Run, l gts.Location, i, n int) {
	ls := encLoc(l)
	for _, first := range []string{"shift", "expand"} {
		var mid gts.Location
		if first == "shift" {
			mid = l.Shift(i, n)
		} else {
			mid = l.Expand(i, n)
		}
		line := fmt.Sprintf("loc.expand %s %d %d", encLoc(mid), i, -n)
		out := r.op(line)
		r.count(first + ";delete/" + kindOf(l))
		if out == "PANIC" {
			r.fail(Failure{Oracle: first + ";delete: no panic", Op: line, Got: out})
			continue
		}
		back := mid.Expand(i, -n)
		d := den(l)
		r.eval(fmt.Sprintf("%s|%s|%d|%d", first, ls, i, n), len(d) > 0 && n > 0)
		guard := fmt.Sprintf("k2.%s %s %d %d ; k2.expand %s %d %d", first, ls, i, n, encLoc(mid), i, -n)
		full := fmt.Sprintf("loc.%s %s %d %d ; %s", first, ls, i, n, line)
		if !sameMeaning(den(back), d) {
			r.fail(Failure{Oracle: first + ";delete restores every feature's residues", Op: full,
				Got: encLoc(back) + " den=" + denStr(den(back)), Want: denStr(d), Guard: guard})
			continue
		}
		r.specMarks(l, back)
		lo0, hi0 := outerMarks(l)
		lo1, hi1 := outerMarks(back)
		if len(d) > 0 && nodup(d) && (lo0 != lo1 || hi0 != hi1) {
			r.fail(Failure{Oracle: first + ";delete restores the partial markers", Op: full, Got: encLoc(back), Guard: guard})
		}
		if isCanonical(l) && !hasAmbiguous(l) && nodup(d) && !locEq(back, l) {
			r.fail(Failure{Oracle: first + ";delete is the identity on canonical locations (the split join re-merges)", Op: full,
				Got: encLoc(back), Want: ls, Guard: guard})
		}
	}
}

func propC10(r *Run) {
	L, ns, nRandom := scope(r)
	r.exhaustive = true
	for _, l := range smallLocs(L, true) {
		for i := 0; i <= L; i++ {
			for _, n := range ns {
				if n > 0 {
					c10Loc(r, l, i, n)
				}
			}
		}
	}
	r.notes = append(r.notes, fmt.Sprintf("exhaustive: smallLocs(L=%d) x i in 0..L x n in %v (n>0)", L, ns))
	for t := 0; t < nRandom; t++ {
		LL := r.rangeL()
		l := genLoc(r.rng, 3, LL, 5, true)
		// boundary sweep: i at start-1, start, start+1, end-1, end, end+1 of a random leaf
		lv := leaves(l)
		s, e := spanOf(lv[r.rng.intn(len(lv))])
		cands := []int{s - 1, s, s + 1, e - 1, e, e + 1, r.rng.intn(LL + 1)}
		i := cands[r.rng.intn(len(cands))]
		if i < 0 || i > LL {
			i = r.rng.intn(LL + 1)
		}
		c10Loc(r, l, i, r.rng.rangeInt(1, 4))
		if t < 4 {
			r.sample(fmt.Sprintf("insert;delete %s at %d", encLoc(l), i))
		}
	}
	// the two-step programs on whole records: insert;delete and embed;delete at every kind of
	// insertion point (0, Len(host), feature edges), hosts with a source feature over everything
	for t := 0; t < nRandom/10; t++ {
		LL := r.rng.rangeInt(1, 13)
		host := genSeq(r.rng, LL, 4, 2)
		if t%2 == 0 {
			ff := gts.FeatureSlice(nil)
			for _, f := range host.Features() {
				ff = ff.Insert(f)
			}
			ff = ff.Insert(gts.Feature{Key: "source", Loc: gts.Range(0, LL), Props: gts.Props{}})
			if t%4 == 0 {
				a := r.rng.intn(LL)
				ff = ff.Insert(gts.Feature{Key: "gene", Loc: gts.Range(a, LL), Props: gts.Props{}})
				ff = ff.Insert(gts.Feature{Key: "CDS", Loc: gts.Range(0, a+1), Props: gts.Props{}})
			}
			host = gts.New(nil, ff, host.Bytes())
		}
		gn := r.rng.rangeInt(1, 4)
		guest := genSeq(r.rng, gn, 2, 1)
		cands := []int{0, LL, r.rng.intn(LL + 1)}
		for _, f := range host.Features() {
			for _, u := range leaves(f.Loc) {
				a, b := spanOf(u)
				cands = append(cands, a, b)
			}
		}
		i := cands[r.rng.intn(len(cands))]
		if i < 0 || i > LL {
			i = r.rng.intn(LL + 1)
		}
		for _, first := range []string{"insert", "embed"} {
			l1 := fmt.Sprintf("seq.%s %s %d %s", first, encSeq(host), i, encSeq(guest))
			if r.op(l1) == "PANIC" {
				r.fail(Failure{Oracle: first + ";delete: no panic", Op: l1, Got: "PANIC"})
				continue
			}
			var mid gts.Sequence
			if first == "insert" {
				mid = gts.Insert(copySeq(host), i, copySeq(guest))
			} else {
				mid = gts.Embed(copySeq(host), i, copySeq(guest))
			}
			l2 := fmt.Sprintf("seq.delete %s %d %d", encSeq(mid), i, gn)
			full := l1 + " ; " + l2
			r.count("seq." + first + ";delete")
			switch {
			case i == 0:
				r.count("seq." + first + ";delete/at-start")
			case i == LL:
				r.count("seq." + first + ";delete/at-end")
			}
			if r.op(l2) == "PANIC" {
				r.fail(Failure{Oracle: first + ";delete: no panic", Op: full, Got: "PANIC"})
				continue
			}
			back := gts.Delete(copySeq(mid), i, gn)
			r.eval(full, len(host.Features()) > 0)
			if string(back.Bytes()) != string(host.Bytes()) {
				r.fail(Failure{Oracle: first + ";delete restores the host's residues", Op: full,
					Got: encBytes(back.Bytes()), Want: encBytes(host.Bytes())})
				continue
			}
			have := map[string]int{}
			mk := func(f gts.Feature) string {
				lo, hi := outerMarks(f.Loc)
				return fmt.Sprintf("%s%s|%v%v", featKey(f), denStr(den(f.Loc)), lo, hi)
			}
			for _, f := range back.Features() {
				have[mk(f)]++
			}
			for _, f := range host.Features() {
				if d := den(f.Loc); !lawApplies(f.Loc, d) {
					continue
				}
				if hasAmbiguous(f.Loc) {
					r.count("seq." + first + ";delete/law evaluated on a feature with an ambiguous span")
				}
				k := mk(f)
				if have[k] == 0 {
					r.fail(Failure{Oracle: first + ";delete gives every host feature a location denoting the same residues with the same partial markers", Op: full,
						Got: "no feature " + k + " after the round trip (original " + encLoc(f.Loc) + ")"})
					break
				}
				have[k]--
			}
		}
	}
	// split at cut points and concatenate
	for t := 0; t < nRandom/10; t++ {
		LL := r.rng.rangeInt(1, 13)
		s := genSeq(r.rng, LL, 4, 2)
		nc := r.rng.intn(5)
		cuts := map[int]bool{}
		for j := 0; j < nc; j++ {
			cuts[r.rng.intn(LL+1)] = true
		}
		pts := []int{0}
		// "any set of positions": a cut at 0, at Len, or the same position twice gives an empty
		// piece (Slice(seq, k, k)), which has to stay empty
		if cuts[0] || r.rng.intn(4) == 0 {
			pts = append(pts, 0)
		}
		for x := 1; x < LL; x++ {
			if cuts[x] {
				pts = append(pts, x)
				if r.rng.intn(6) == 0 {
					pts = append(pts, x)
				}
			}
		}
		if cuts[LL] || r.rng.intn(4) == 0 {
			pts = append(pts, LL)
		}
		pts = append(pts, LL)
		pieces := make([]gts.Sequence, 0)
		pl := "seq.concat"
		for j := 0; j+1 < len(pts); j++ {
			pc := gts.Slice(copySeq(s), pts[j], pts[j+1])
			pieces = append(pieces, pc)
			pl += " " + encSeq(pc)
			r.op(fmt.Sprintf("seq.slice %s %d %d", encSeq(s), pts[j], pts[j+1]))
		}
		out := r.op(pl)
		r.count(fmt.Sprintf("cuts%d", len(pts)-2))
		if out == "PANIC" {
			r.fail(Failure{Oracle: "concat: no panic", Op: pl, Got: out})
			continue
		}
		cp := make([]gts.Sequence, len(pieces))
		for j := range pieces {
			cp[j] = copySeq(pieces[j])
		}
		res := gts.Concat(cp...)
		r.eval(pl, len(pts) > 2 && len(s.Features()) > 0)
		if string(res.Bytes()) != string(s.Bytes()) {
			r.fail(Failure{Oracle: "slice*;concat restores the residues", Op: pl, Got: encBytes(res.Bytes()), Want: encBytes(s.Bytes())})
		}
		// the pieces of every feature together denote exactly the original residues (per class, as sets with strand)
		want := map[string]map[pos]bool{}
		for _, f := range s.Features() {
			k := featKey(f)
			if want[k] == nil {
				want[k] = map[pos]bool{}
			}
			for _, p := range den(f.Loc) {
				want[k][p] = true
			}
		}
		got := map[string]map[pos]bool{}
		for _, f := range res.Features() {
			k := featKey(f)
			if got[k] == nil {
				got[k] = map[pos]bool{}
			}
			for _, p := range den(f.Loc) {
				got[k][p] = true
			}
		}
		for k, w := range want {
			g := got[k]
			same := len(g) == len(w)
			for p := range w {
				if !g[p] {
					same = false
				}
			}
			if !same {
				r.fail(Failure{Oracle: "slice*;concat: the pieces of a feature denote exactly its residues, each on its strand", Op: pl,
					Got: fmt.Sprintf("%s: %d residues", k, len(g)), Want: fmt.Sprintf("%d residues", len(w)), Guard: cutGuards(s, pts)})
				break
			}
		}
	}
}

// sliceGuards: the K2 guard lines for every feature of a forward slice [a,b).
func sliceGuards(s gts.Sequence, a, b int) string {
	L := len(s.Bytes())
	out := ""
	for _, f := range s.Features() {
		if !specOverlap(f.Loc, a, b) {
			continue
		}
		mid := f.Loc.Expand(b, b-L)
		if out != "" {
			out += " ; "
		}
		out += fmt.Sprintf("k2.expand %s %d %d ; k2.expand %s 0 %d", encLoc(f.Loc), b, b-L, encLoc(mid), -a)
	}
	return out
}

// cutGuards: guards for slicing at consecutive cut points and re-concatenating.
func cutGuards(s gts.Sequence, pts []int) string {
	out := ""
	off := 0
	for j := 0; j+1 < len(pts); j++ {
		g := sliceGuards(s, pts[j], pts[j+1])
		if g != "" {
			if out != "" {
				out += " ; "
			}
			out += g
		}
		pc := gts.Slice(copySeq(s), pts[j], pts[j+1])
		for _, f := range pc.Features() {
			if out != "" {
				out += " ; "
			}
			out += fmt.Sprintf("k2.expand %s 0 %d", encLoc(f.Loc), off)
		}
		off += len(pc.Bytes())
	}
	return out
}

// c04Feats: every feature of the rotated record denotes its residues at (x+n) mod L, all
// coordinates lie in [0,L]; features with a full-length part, duplicate residues or a K2 shape are
// skipped (they have their own clauses at location level).  A feature with an ambiguous leaf is
// CHECKED like every other one, except when one of its ambiguous spans lies across the new origin of
// one of the rotation steps (`steps`: the rotations applied one after the other) — the carve-out of
// the property ("ambiguous spans only when they do not cross the new origin"), the ambiguous clause
// of `normOk` in rotate_feature_partial / rotate_table_partial: those are counted and what the real
// code makes of them (Expand(0, m).Normalize(L) step by step) is exempted from the coordinate clause.
func c04Feats(r *Run, line string, before, after gts.Sequence, steps []int, L int) {
	n := 0
	for _, st := range steps {
		n += st
	}
	m := ((n % L) + L) % L
	carved := map[string]int{}
	skip := make([]bool, len(before.Features()))
	for k, f := range before.Features() {
		if !hasAmbiguous(f.Loc) {
			continue
		}
		r.count("seq.rotate/feature-with-ambiguous-span")
		loc := f.Loc
		for _, st := range steps {
			mj := ((st % L) + L) % L
			if ambCrossesOrigin(loc, mj, L) {
				skip[k] = true
			}
			loc = loc.Expand(0, mj).Normalize(L)
		}
		if skip[k] {
			r.count("seq.rotate/skipped: ambiguous span across the new origin (property carve-out, normOk)")
			carved[featKey(f)+encLoc(loc)]++
		}
	}
	have := map[string]int{}
	for _, f := range after.Features() {
		if k := featKey(f) + encLoc(f.Loc); carved[k] > 0 {
			carved[k]--
			continue
		}
		if !coordsWithin(f.Loc, L) {
			r.fail(Failure{Oracle: "rotate: all coordinates lie in [0,L]", Op: line, Got: encLoc(f.Loc)})
			return
		}
		have[featKey(f)+denStr(den(f.Loc))]++
		// the only part with residues is the whole range 1..L (zero-length sites may hang on)
		nres, whole := 0, false
		for _, u := range leaves(f.Loc) {
			if leafLen(u) > 0 {
				nres++
				if rg, ok := u.(gts.Ranged); ok && rg.Start == 0 && rg.End == L {
					whole = true
				}
			}
		}
		if whole && nres == 1 {
			have[featKey(f)+"|whole"]++
		}
	}
	for k, f := range before.Features() {
		d := den(f.Loc)
		if skip[k] || len(d) == 0 || !nodup(d) || len(d) > L || touchesK2(f.Loc) {
			continue
		}
		if hasAmbiguous(f.Loc) {
			r.count("seq.rotate/law evaluated on a feature with an ambiguous span")
		}
		k1 := featKey(f) + denStr(mapDen(d, rotMap(m, L)))
		if have[k1] > 0 {
			have[k1]--
			continue
		}
		// a feature covering every residue may come out as the whole range 1..L ("a full-length
		// feature stays full-length"), whatever residue it started reading from
		if k2 := featKey(f) + "|whole"; len(d) == L && have[k2] > 0 {
			have[k2]--
			continue
		}
		r.fail(Failure{Oracle: "rotate: every feature denotes the same residues at (x+n) mod L", Op: line,
			Got: fmt.Sprintf("%s missing", k1)})
		return
	}
}

// fullCover: a multi-part location whose parts are consecutive stretches covering every residue
// of a sequence of length L exactly once, read from a random stretch onwards.
func fullCover(g *rng, L int) gts.Location {
	k := 2 + g.intn(2)
	if k > L {
		k = L
	}
	cuts := map[int]bool{0: true}
	for len(cuts) < k {
		cuts[g.intn(L)] = true
	}
	var cs []int
	for c := range cuts {
		cs = append(cs, c)
	}
	sort.Ints(cs)
	cs = append(cs, L)
	parts := make([]gts.Location, 0, k)
	st := g.intn(k)
	for j := 0; j < k; j++ {
		q := (st + j) % k
		parts = append(parts, gts.Range(cs[q], cs[q+1]))
	}
	var l gts.Location = gts.Joined(parts)
	if g.intn(3) == 0 {
		l = gts.Ordered(parts)
	}
	if g.intn(2) == 0 {
		l = gts.Complemented{Location: l}
	}
	return l
}

// touchesK2: some join in l has a Ranged directly or indirectly followed by a Point
// (the only shape on which known finding K2 can fire after a coordinate change).
func touchesK2(l gts.Location) bool { return containsKind(l) }

func containsKind(l gts.Location) bool {
	hasR, hasP := false, false
	for _, u := range leaves(l) {
		switch u.(type) {
		case gts.Ranged:
			hasR = true
		case gts.Point:
			hasP = true
		}
	}
	return hasR && hasP
}

// lawApplies: the per-feature denotation law is checked at sequence level for features with a
// duplicate-free, non-empty denotation and no shape on which known finding K2 can fire (those have
// their own clauses at location level).  Ambiguous (`n.m`) leaves ARE covered (audit S3 tail): the
// denotation of an ambiguous span is its positions [start, end), and the laws of C02 / C03 (delete,
// erase, forward slice) / C05 / C10 carry no guard on them (theorems shift_den, expand_del_den,
// reverse_den …: every location kind); only the rotation laws (C04, the wrap-around window of C03,
// C15 rotate) carve out a span ACROSS THE NEW ORIGIN — `ambCrossesOrigin`, the ambiguous clause of
// the theorems' guard `normOk` (Gts/Lemmas/Normalize.lean).
func lawApplies(l gts.Location, d []pos) bool {
	return len(d) > 0 && nodup(d) && !touchesK2(l)
}

// ambCrossesOrigin: some ambiguous leaf [s, e) of l lies across the new origin of a rotation by m
// (0 <= m < L), i.e. its image [s+m, e+m) is not inside one period: the ambiguous clause
// `s' % L + (e' - s') <= L` of `normOk L (expand l 0 m)`, and the test c04Loc makes at location level.
// The property of C04 carves these out ("ambiguous spans only when they do not cross the new
// origin"); an already inverted span (start >= end, the result of an earlier crossing) counts too.
func ambCrossesOrigin(l gts.Location, m, L int) bool {
	for _, u := range leaves(l) {
		if a, ok := u.(gts.Ambiguous); ok {
			if a.Start >= a.End || a.Start < 0 || floorDiv(a.Start+m, L) != floorDiv(a.End-1+m, L) {
				return true
			}
		}
	}
	return false
}

func floorDiv(a, b int) int {
	q := a / b
	if a%b != 0 && (a < 0) != (b < 0) {
		q--
	}
	return q
}
