module verif/harness

go 1.15

require (
	github.com/go-gts/gts v0.0.0
	github.com/go-pars/pars v1.1.6
	github.com/go-wrap/wrap v1.0.3
)

replace github.com/go-gts/gts => /repo
