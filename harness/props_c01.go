package main

// C01 — GenBank records written by gts read back identically (closure + fidelity).
//
// Every case is a record (generated, from the corpus, or reached by an edit
// pipeline) together with the set of qualifier names registered on top of
// seqio's initial lists.  The registries are process-global in seqio: each case
// runs between a reset and a restore (withRegistry), and the same names are
// passed explicitly to the Lean model.
//
// Oracles on the real code (observed through seqio.NewWriter(GenBankFile).WriteSeq
// and seqio.NewAutoScanner): write -> read succeeds with exactly the records
// written; same residues, feature table and header fields; write-read-write is
// byte-identical; records of a stream are framed independently.
// Correspondence: gb.write / gb.read / gb.wrw / gb.qualifier / gb.table /
// gb.tabletext / gb.date / gb.asdate on both sides, also on damaged texts.

import (
	"bytes"
	"fmt"
	"os"
	"path/filepath"
	"strings"
	"time"

	"github.com/go-gts/gts"
	"github.com/go-gts/gts/seqio"
)

func init() { props["C01"] = propC01 }

// ---------------------------------------------------------------------------
// a short Go re-statement of wrap.Space(s, 67) (go-wrap v1.0.3 `at`), used by the
// generators to aim at the wrap boundaries

func wrapSpace67(s string) string {
	if i := strings.IndexByte(s, '\n'); i >= 0 {
		return wrapSpace67(s[:i]) + "\n" + wrapSpace67(s[i+1:])
	}
	const n = 67
	if len(s) > n {
		if i := strings.LastIndexByte(s[:n], ' '); i >= 0 {
			return s[:i] + "\n" + wrapSpace67(s[i+1:])
		}
		if i := strings.IndexByte(s, ' '); i >= 0 {
			return s[:i] + "\n" + wrapSpace67(s[i+1:])
		}
	}
	return s
}

// ---------------------------------------------------------------------------
// known-finding shapes (named as in lean/Gts/Props/C01.lean)

// quotedScanOK: the value survives pars.Quoted('"'): the scan (a backslash
// skips the next byte) meets no quote and does not end inside an escape.
func quotedScanOK(v string) bool {
	for i := 0; i < len(v); i++ {
		switch v[i] {
		case '"':
			return false
		case '\\':
			i++
			if i >= len(v) {
				return false
			}
		}
	}
	return true
}

func qualifierType(name string, reg registry) seqio.QualifierType {
	in := func(xs []string) bool {
		for _, x := range xs {
			if x == name {
				return true
			}
		}
		return false
	}
	switch {
	case in(defaultRegistry.q) || in(reg.q):
		return seqio.QuotedQualifier
	case in(defaultRegistry.l) || in(reg.l):
		return seqio.LiteralQualifier
	case in(defaultRegistry.t) || in(reg.t):
		return seqio.ToggleQualifier
	}
	return seqio.UnknownQualifier
}

// shapeK1E: some quoted (or unknown, hence quoted) qualifier value does not
// survive the quote scan.
func shapeK1E(tab []gts.Feature, reg registry) bool {
	for _, f := range tab {
		for _, row := range f.Props {
			if len(row) == 0 {
				continue
			}
			t := qualifierType(row[0], reg)
			if t == seqio.QuotedQualifier || t == seqio.UnknownQualifier {
				for _, v := range row[1:] {
					if !quotedScanOK(v) {
						return true
					}
				}
			}
		}
	}
	return false
}

// expectKnown applies the known finding K1A (REGION suffix) to a record: what
// the reader is known to hand back.  ids lists the findings that changed
// something.  (K1B wrapped organism, K1C wrapped species and K1D toggle values
// were repaired in /repo: 69bb3bf, 3d74d27, 2dd2956; nothing is attributed to
// them any more.)
func expectKnown(gb seqio.GenBank, reg registry) (seqio.GenBank, []string) {
	ids := []string{}
	f := gb.Fields
	if seg, ok := f.Region.(gts.Segment); ok {
		f.Accession = f.Accession + fmt.Sprintf(" REGION: %s", gts.Range(gts.Unpack(seg)))
		f.Region = nil
		ids = append(ids, "K1A")
	}
	return seqio.GenBank{Fields: f, Table: gb.Table, Origin: gb.Origin}, ids
}

// ---------------------------------------------------------------------------
// comparison (≈ identifies nil and empty slices / maps)

func sameStrings(a, b []string) bool {
	if len(a) != len(b) {
		return false
	}
	for i := range a {
		if a[i] != b[i] {
			return false
		}
	}
	return true
}

// canonical text of everything but the table and the residues
func fieldsKey(f seqio.GenBankFields) string {
	g := seqio.GenBank{Fields: f, Origin: seqio.NewOrigin(nil)}
	return encRecord(g)
}

// tableKey: the table with locations replaced by "-" where they are not
// canonical (their text is C06's business: the reader re-applies Join).
func tableKey(tab []gts.Feature, strict []bool) string {
	out := make([]string, len(tab))
	for i, f := range tab {
		if strict[i] {
			out[i] = encFeature(f)
		} else {
			out[i] = fmt.Sprintf("(F %s - %s)", encStr(f.Key), encProps(f.Props))
		}
	}
	return encList(out)
}

// safeExpectedRead: expectedRead (props_c06_canon.go) for hand-built locations on which the
// constructors panic (an empty Joined / Ordered)
func safeExpectedRead(l gts.Location) (out gts.Location, ok bool) {
	defer func() {
		if recover() != nil {
			ok = false
		}
	}()
	return expectedRead(l), true
}

func allCanonical(tab []gts.Feature) bool {
	for _, f := range tab {
		if f.Loc == nil || !isCanonical(f.Loc) {
			return false
		}
	}
	return true
}

func canonicalLocs(tab []gts.Feature) []bool {
	out := make([]bool, len(tab))
	for i, f := range tab {
		out[i] = f.Loc != nil && isCanonical(f.Loc)
	}
	return out
}

// ---------------------------------------------------------------------------
// the record oracle

type c01case struct {
	name string
	gb   seqio.GenBank
	reg  registry
	// domain says that the record lies in the writable domain (Writable in
	// Props/C01.lean) apart from the known-finding shapes; outside it only the
	// correspondence is checked.
	domain bool
}

func safeString(gb seqio.GenBank) (s string, panicked bool) {
	defer func() {
		if r := recover(); r != nil {
			panicked = true
		}
	}()
	b := strings.Builder{}
	w := seqio.NewWriter(&b, seqio.GenBankFile)
	if _, err := w.WriteSeq(gb); err != nil {
		return "", true
	}
	return b.String(), false
}

// scanAll reads a stream with the auto scanner.
func scanAll(text string) (recs []seqio.GenBank, ok bool, panicked bool) {
	defer func() {
		if r := recover(); r != nil {
			panicked = true
		}
	}()
	sc := seqio.NewAutoScanner(strings.NewReader(text))
	for sc.Scan() {
		gb, isGb := sc.Value().(seqio.GenBank)
		if !isGb {
			return recs, false, false
		}
		recs = append(recs, gb)
	}
	return recs, sc.Err() == nil, false
}

func (c c01case) check(r *Run) {
	regS := encRegistry(c.reg)
	recS := encRecord(c.gb)
	wline := "gb.write " + regS + " " + recS
	wout := r.op(wline)
	r.count("record/" + c.name)
	if !c.domain {
		r.eval("rec|"+regS+recS, false)
		if strings.HasPrefix(wout, "x") {
			r.op("gb.read " + regS + " " + wout)
		}
		return
	}
	withRegistry(c.reg, func() {
		text, p := safeString(c.gb)
		if p {
			r.fail(Failure{Oracle: "a record of the writable domain is written without panic", Op: wline, Got: "PANIC"})
			return
		}
		tS := encStr(text)
		rline := "gb.read " + regS + " " + tS
		setRegistry(registry{})
		r.op(rline)
		r.op("gb.wrw " + regS + " " + tS)
		setRegistry(c.reg)
		r.eval("rec|"+regS+recS, true)

		recs, ok, pn := scanAll(text)
		if pn {
			r.fail(Failure{Oracle: "reading gts's own output does not panic", Op: rline, Got: "PANIC"})
			return
		}
		quote := shapeK1E(c.gb.Table, c.reg)
		if !ok || len(recs) != 1 {
			f := Failure{Oracle: "write -> read succeeds with exactly one record", Op: rline,
				Got: fmt.Sprintf("records=%d ok=%v", len(recs), ok), Want: "records=1 ok=true"}
			if quote {
				f.Finding = "K1E"
			}
			r.fail(f)
			return
		}
		got := recs[0]
		c.compare(r, rline, got, text, quote)
		c.crlfCheck(r, regS, text, []seqio.GenBank{got})
	})
}

// ---------------------------------------------------------------------------
// CRLF input: the written text after a transport in text mode (every "\n" -> "\r\n")

func c01ToCRLF(t string) string { return strings.ReplaceAll(t, "\n", "\r\n") }

// quotedMultiLine: some value that is written between quotes (name registered as quoted, or
// unknown) contains a line feed — the negation of the guard quotedOneLine of
// read_write_crlf_partial (Props/C01.lean).
func quotedMultiLine(tab []gts.Feature, reg registry) bool {
	for _, f := range tab {
		for _, row := range f.Props {
			if len(row) == 0 {
				continue
			}
			t := qualifierType(row[0], reg)
			if t == seqio.QuotedQualifier || t == seqio.UnknownQualifier {
				for _, v := range row[1:] {
					if strings.Contains(v, "\n") {
						return true
					}
				}
			}
		}
	}
	return false
}

// crlfExpected: readBackC of Props/C01.lean on the record that was read from the LF text: every
// value of a name that was WRITTEN between quotes (its type under the registry of write time)
// CRLF-translated, everything else as it is.
func crlfExpected(gb seqio.GenBank, reg registry) seqio.GenBank {
	tab := make(gts.FeatureSlice, len(gb.Table))
	for i, f := range gb.Table {
		ps := make(gts.Props, len(f.Props))
		for j, row := range f.Props {
			nr := append([]string(nil), row...)
			if len(nr) > 0 {
				t := qualifierType(nr[0], reg)
				if t == seqio.QuotedQualifier || t == seqio.UnknownQualifier {
					for k := 1; k < len(nr); k++ {
						nr[k] = c01ToCRLF(nr[k])
					}
				}
			}
			ps[j] = nr
		}
		tab[i] = gts.Feature{Key: f.Key, Loc: f.Loc, Props: ps}
	}
	return seqio.GenBank{Fields: gb.Fields, Table: tab, Origin: gb.Origin}
}

// crlfCheck: the CRLF translation of a written text (one record or a stream) goes to both sides as
// gb.read (correspondence of the reader on CRLF input: header fields, key lines, qualifiers, the
// slow ORIGIN path, the terminator) and is read on the real code with the auto scanner.  Oracles:
// (exact, read_write_crlf_exact / read_stream_crlf_exact) as many records as from the LF text, each
// the LF record with the values written between quotes CRLF-translated; (guarded,
// read_write_crlf_partial) without a line feed in such a value the records are EQUAL to the LF
// records.  lf holds the records read from the LF text.  Must be called with the registry c.reg /
// the stream's registry current; leaves it so.
func (c c01case) crlfCheck(r *Run, regS, text string, lf []seqio.GenBank) {
	ct := c01ToCRLF(text)
	cline := "gb.read " + regS + " " + encStr(ct)
	setRegistry(registry{})
	r.op(cline)
	setRegistry(c.reg)
	multi := false
	for _, gb := range lf {
		multi = multi || quotedMultiLine(gb.Table, c.reg)
	}
	if multi {
		r.count("crlf/quoted value with a line feed (exact oracle: the value comes back CRLF-translated)")
	} else {
		r.count("crlf/reads as the LF text (guard quotedOneLine)")
	}
	recs, ok, pn := scanAll(ct)
	setRegistry(c.reg)
	if pn || !ok || len(recs) != len(lf) {
		r.fail(Failure{Oracle: "the CRLF translation of the written text reads as many records as the text, without error", Op: cline,
			Got: fmt.Sprintf("records=%d ok=%v panic=%v", len(recs), ok, pn), Want: fmt.Sprintf("records=%d ok=true", len(lf))})
		return
	}
	for i := range lf {
		want := encRecord(crlfExpected(lf[i], c.reg))
		if got := encRecord(recs[i]); got != want {
			r.fail(Failure{Oracle: "the CRLF translation reads as the LF text, values written between quotes CRLF-translated (read_write_crlf_exact)",
				Op: cline, Got: got, Want: want})
			return
		}
		if !multi {
			if got, same := encRecord(recs[i]), encRecord(lf[i]); got != same {
				r.fail(Failure{Oracle: "without a line feed in a quoted value the CRLF translation reads exactly as the LF text (read_write_crlf_partial)",
					Op: cline, Got: got, Want: same})
				return
			}
		}
	}
}

// compare: fidelity and the write-read-write fixed point for one record.
func (c c01case) compare(r *Run, rline string, got seqio.GenBank, text string, quote bool) {
	want := c.gb
	exp, ids := expectKnown(c.gb, c.reg)
	attribute := func(f Failure, idsUsed []string) {
		if quote {
			f.Finding = "K1E"
		} else if len(idsUsed) > 0 {
			f.Finding = idsUsed[0]
		}
		r.fail(f)
	}
	strict := canonicalLocs(want.Table)
	// residues
	if wb, gb := originResidues(want.Origin), originResidues(got.Origin); wb != gb {
		attribute(Failure{Oracle: "read(write r) has the residues of r", Op: rline, Got: gb, Want: wb}, nil)
	}
	// table
	gt, wt := tableKey(got.Table, pad(strict, len(got.Table))), tableKey(want.Table, strict)
	if gt != wt {
		et := tableKey(exp.Table, strict)
		if gt == et {
			attribute(Failure{Oracle: "read(write r) has the feature table of r", Op: rline, Got: gt, Want: wt}, nil)
		} else {
			attribute(Failure{Oracle: "read(write r) has the feature table of r", Op: rline, Got: gt, Want: wt}, nil)
		}
	}
	// locations, exactly: a canonical location (C06: Gts.Loc.canonP) is read back as itself
	// (Gts.C06.parse_print); any other as the location the smart constructors Join / Order /
	// Complement() make of its parts once more (Gts.C06.written_join_read_back) — that is the one
	// place where gts reads back something else than it wrote (the edited locations that leave the
	// canonical domain: Gts.C01.writable_record_delete_full_refuted, root cause K3 of C06)
	for i, f := range want.Table {
		if i >= len(got.Table) || f.Loc == nil {
			break
		}
		if strict[i] {
			r.count("location/" + c.name + "/canonical(read back as written)")
			if !locEq(got.Table[i].Loc, f.Loc) {
				attribute(Failure{Oracle: "a canonical location is read back as it was written", Op: rline,
					Got: encLoc(got.Table[i].Loc), Want: encLoc(f.Loc)}, nil)
			}
			continue
		}
		exp, ok := safeExpectedRead(f.Loc)
		if !ok {
			r.count("location/" + c.name + "/non-canonical(constructors panic)")
			continue
		}
		if locEq(exp, f.Loc) {
			r.count("location/" + c.name + "/non-canonical(coordinates only)")
		} else {
			r.count("location/" + c.name + "/non-canonical(read back re-reduced)")
		}
		if !locEq(got.Table[i].Loc, exp) {
			attribute(Failure{Oracle: "a written location is read back as Join / Order / Complement of its parts", Op: rline,
				Got: encLoc(got.Table[i].Loc), Want: encLoc(exp)}, nil)
		}
	}
	// fields
	gf, wf := fieldsKey(got.Fields), fieldsKey(want.Fields)
	if gf != wf {
		ef := fieldsKey(exp.Fields)
		if gf == ef {
			attribute(Failure{Oracle: "read(write r) has the header fields of r", Op: rline, Got: gf, Want: wf}, ids)
		} else {
			attribute(Failure{Oracle: "read(write r) has the header fields of r", Op: rline, Got: gf, Want: wf}, nil)
		}
	}
	// fixed point (the text of a non-canonical location is C06's business)
	for _, ok := range strict {
		if !ok {
			r.count("record/fixed-point-skipped(non-canonical location)")
			return
		}
	}
	text2, p := safeString(got)
	if p {
		attribute(Failure{Oracle: "the re-read record is written without panic", Op: rline, Got: "PANIC"}, nil)
		return
	}
	if text2 != text {
		f := Failure{Oracle: "write(read(write r)) = write r byte for byte", Op: rline, Got: encStr(text2), Want: encStr(text)}
		idsUsed := []string(nil)
		attribute(f, idsUsed)
	}
}

func pad(b []bool, n int) []bool {
	out := make([]bool, n)
	copy(out, b)
	return out
}
func has(xs []string, x string) bool {
	for _, y := range xs {
		if y == x {
			return true
		}
	}
	return false
}
func only(xs []string, x string) []string {
	if has(xs, x) {
		return []string{x}
	}
	return nil
}
func without(xs []string, x string) []string {
	out := []string{}
	for _, y := range xs {
		if y != x {
			out = append(out, y)
		}
	}
	return out
}

// ---------------------------------------------------------------------------
// generators

var c01Words = []string{"a", "of", "the", "Homo", "sapiens", "K-12", "str.", "MG1655,", "genome", "x", "phi-X174", "sp."}

// textOfLen: words separated by single blanks, exactly n bytes (n >= 1).
func textOfLen(r *rng, n int) string {
	b := strings.Builder{}
	for b.Len() < n {
		w := c01Words[r.intn(len(c01Words))]
		if b.Len() > 0 {
			if b.Len()+1+len(w) > n {
				break
			}
			b.WriteByte(' ')
		} else if len(w) > n {
			break
		}
		b.WriteString(w)
	}
	for b.Len() < n {
		b.WriteByte('z')
	}
	return b.String()
}

var boundaryLens = []int{1, 20, 54, 55, 56, 65, 66, 67, 68, 69, 80, 133, 134, 135, 136, 140, 210}

// oneLine: a text without line feed; short or of a boundary length.
func oneLine(r *rng, allowEmpty bool) string {
	switch r.intn(6) {
	case 0:
		if allowEmpty {
			return ""
		}
		return "x"
	case 1, 2:
		return r.pick([]string{"a", "Homo sapiens", "x  y", " lead", "trail ", "a.", "A; B", "12"})
	default:
		return textOfLen(r, boundaryLens[r.intn(len(boundaryLens))])
	}
}

// fitsLine: a text that wrap.Space(…, 67) leaves alone.
func fitsLine(r *rng) string {
	for {
		s := oneLine(r, true)
		if wrapSpace67(s) == s {
			return s
		}
	}
}

// multiLine: 1..4 lines; continuation lines may begin with blanks (also 12 or 21 of them).
func multiLine(r *rng) string {
	n := r.rangeInt(1, 4)
	lines := make([]string, n)
	for i := range lines {
		lead := r.pick([]string{"", "", "", " ", "  ", "            ", "                     ", "/"})
		if i == 0 {
			lead = ""
		}
		lines[i] = lead + oneLine(r, true)
	}
	return strings.Join(lines, "\n")
}

// entry of a `; `-separated list (KEYWORDS, taxonomy): no "; ", no line feed, no blank at
// either end, no double blank, not empty.
func listEntry(r *rng) string {
	switch r.intn(4) {
	case 0:
		return r.pick([]string{"RefSeq", "Bacteria", "Enterobacteriaceae", "k.", "a;b"})
	case 1:
		return textOfLen(r, r.rangeInt(1, 30))
	default:
		return textOfLen(r, r.pick2(boundaryLens))
	}
}

func (r *rng) pick2(xs []int) int { return xs[r.intn(len(xs))] }

func listOf(r *rng, max int) []string {
	n := r.intn(max + 1)
	if n == 0 {
		return nil
	}
	out := make([]string, n)
	for i := range out {
		out[i] = listEntry(r)
	}
	return out
}

var c01Molecules = []gts.Molecule{gts.DNA, gts.RNA, gts.AA, gts.SingleStrandDNA, gts.DoubleStrandDNA}

func daysInMonth(y, m int) int {
	switch m {
	case 2:
		if seqio.VerifIsLeapYear(y) {
			return 29
		}
		return 28
	case 4, 6, 9, 11:
		return 30
	}
	return 31
}

var c01Years = []int{0, 1, 4, 99, 100, 400, 999, 1000, 1900, 1999, 2000, 2020, 2023, 2100, 9999}

func genDate(r *rng) seqio.Date {
	y := c01Years[r.intn(len(c01Years))]
	if r.intn(3) == 0 {
		y = r.intn(10000)
	}
	m := r.rangeInt(1, 12)
	d := r.rangeInt(1, daysInMonth(y, m))
	if r.intn(3) == 0 {
		d = daysInMonth(y, m)
	}
	return seqio.Date{Year: y, Month: time.Month(m), Day: d}
}

var c01QuotedNames = []string{"note", "gene", "product", "db_xref", "translation", "EC_number"}
var c01LiteralNames = []string{"codon_start", "transl_table", "number", "citation", "rpt_type"}
var c01ToggleNames = []string{"pseudo", "partial", "ribosomal_slippage", "focus"}
var c01UnknownNames = []string{"zzz", "my_tag", "Q1", "x_9", "_u"}

// quoted value inside the domain: the quote scan passes, every line feed is
// followed by fewer than 21 blanks, no CR.
func quotedValue(r *rng) string {
	switch r.intn(8) {
	case 0:
		return ""
	case 1:
		return r.pick([]string{"a\\\"b", "a\\\\", "50% (w/v)", "/x", "a=b", "it's", "GO:0005737", "\\n"})
	case 2:
		return textOfLen(r, r.pick2([]int{57, 58, 59, 60, 120}))
	case 3:
		lines := r.rangeInt(2, 4)
		out := make([]string, lines)
		for i := range out {
			lead := ""
			if i > 0 {
				lead = r.pick([]string{"", "", " ", "/", "                   "})
			}
			out[i] = lead + oneLine(r, true)
		}
		return strings.Join(out, "\n")
	default:
		return oneLine(r, true)
	}
}

// literal value inside the domain: no continuation line starts with '/', no CR.
func literalValue(r *rng) string {
	switch r.intn(6) {
	case 0:
		return ""
	case 1:
		return r.pick([]string{"1", "11", "(pos:1..3,aa:Met)", "\"q\"", "a/b", "[1]"})
	case 2:
		return "(pos:complement(1..3),\n aa:Sec)" + r.pick([]string{"", "\nx", "\n  /"})
	default:
		return r.pick([]string{"1", "2", "3", "x y"})
	}
}

type qualGen struct {
	allowFindings bool
	// names this record already uses as unknown (written quoted): they must not be
	// registered as another type by a later feature of the same record
	unk map[string]bool
}

func (g qualGen) props(r *rng, reg *registry) gts.Props {
	ps := gts.Props{}
	n := r.intn(5)
	used := map[string]bool{}
	for i := 0; i < n; i++ {
		var name string
		var mk func(*rng) string
		switch k := r.intn(10); {
		case k < 4:
			name, mk = r.pick(c01QuotedNames), quotedValue
		case k < 6:
			name, mk = r.pick(c01LiteralNames), literalValue
		case k < 7:
			name = r.pick(c01ToggleNames)
			// a toggle has no value (the writer writes none, the reader hands back "")
			mk = func(r *rng) string { return "" }
		default:
			name = r.pick(c01UnknownNames)
			mk = quotedValue
			// an unknown name may have been learned before, as any type
			if qualifierType(name, *reg) == seqio.UnknownQualifier && !g.unk[name] {
				switch r.intn(6) {
				case 0:
					reg.l = appendNew(reg.l, name)
				case 1:
					reg.q = appendNew(reg.q, name)
				case 2:
					reg.t = appendNew(reg.t, name)
				}
			}
			switch qualifierType(name, *reg) {
			case seqio.LiteralQualifier:
				mk = literalValue
			case seqio.ToggleQualifier:
				mk = func(*rng) string { return "" }
			case seqio.UnknownQualifier:
				if g.unk != nil {
					g.unk[name] = true
				}
			}
		}
		if used[name] {
			continue
		}
		used[name] = true
		nv := 1
		if r.intn(4) == 0 {
			nv = r.rangeInt(2, 3)
		}
		for j := 0; j < nv; j++ {
			ps.Add(name, mk(r))
		}
	}
	return ps
}

func appendNew(xs []string, x string) []string {
	for _, y := range xs {
		if y == x {
			return xs
		}
	}
	return append(xs, x)
}

// keys of 16 and more bytes widen the key column of the whole table (repo e050333)
var c01Keys = []string{"source", "gene", "CDS", "misc_feature", "exon", "a", "x23456789012345", "rep_origin", "_k", "x234567890123456", "averyveryverylongkeyname"}

func (g qualGen) table(r *rng, L int, maxF int, reg *registry) gts.FeatureSlice {
	g.unk = map[string]bool{}
	n := r.intn(maxF + 1)
	var ff gts.FeatureSlice
	for i := 0; i < n; i++ {
		key := c01Keys[r.intn(len(c01Keys))]
		var loc gts.Location
		if L < 1 {
			loc = gts.Between(0)
		} else if r.intn(3) == 0 {
			loc = genLoc(r, 2, L, 3, true)
		} else {
			loc = genLoc(r, 1, L, 3, false)
		}
		if r.intn(4) != 0 {
			// what the constructors build: the reader applies Join / Order to the parts
			if back, rest, err := parseLocRest([]byte(loc.String())); err == nil && len(rest) == 0 {
				loc = back
			}
		}
		ff = append(ff, gts.Feature{Key: key, Loc: loc, Props: g.props(r, reg)})
	}
	return ff
}

func genReference(r *rng, i int) seqio.Reference {
	ref := seqio.Reference{Number: i + 1}
	if r.intn(6) == 0 {
		ref.Number = r.pick2([]int{0, 9, 10, 99, 100, 999, 1000, 12345, -9, -99, -100})
	}
	if r.intn(4) != 0 {
		ref.Info = r.pick([]string{"(bases 1 to 10)", "(bases 1 to 5386; 20 to 30)", "(sites)", " x", "(residues 1 to 3)"})
	}
	opt := func() string {
		if r.intn(3) == 0 {
			return ""
		}
		return strings.TrimLeft(multiLine(r), " ")
	}
	ref.Authors, ref.Group, ref.Title, ref.Journal, ref.Comment = opt(), opt(), opt(), opt(), opt()
	if r.intn(2) == 0 {
		ref.Xref = map[string]string{"PUBMED": r.pick([]string{"", "123456", "1 2"})}
	}
	return ref
}

var c01ExtraNames = []string{"PROJECT", "DBSOURCE", "PRIMARY", "X", "ABCDEFGHIJK", "LOCUS", "BASE"}

// genFields: header fields inside the writable domain.
func genFields(r *rng, rich bool) seqio.GenBankFields {
	f := seqio.GenBankFields{
		LocusName: r.pick([]string{"X", "NC_000913", "pBAT5", "a-very-long-locus-name-of-30-ch", "1"}),
		Molecule:  c01Molecules[r.intn(len(c01Molecules))],
		Topology:  gts.Topology(r.intn(2)),
		Division:  r.pick([]string{"", "UNA", "CON", "PHG", "BCT"}),
		Date:      genDate(r),
	}
	if !rich {
		return f
	}
	f.Definition = multiLine(r)
	f.Accession = oneLine(r, true)
	f.Version = oneLine(r, true)
	for i, n := 0, r.intn(4); i < n; i++ {
		key := r.pick([]string{"BioProject", "BioSample", "KEGG BRITE", "Assembly", "x"})
		dup := false
		for _, p := range f.DBLink {
			dup = dup || p.Key == key
		}
		if !dup {
			f.DBLink = append(f.DBLink, seqio.Pair{Key: key, Value: r.pick([]string{"PRJNA57779", " NC_001422", "a: b", "x"})})
		}
	}
	f.Keywords = listOf(r, 4)
	// SOURCE is written as it is (repo 3d74d27): any text without CR, long or multi-line;
	// the organism name is written on one line (repo 69bb3bf): any length, no line feed
	if r.intn(3) == 0 {
		f.Source.Species = multiLine(r)
	} else {
		f.Source.Species = oneLine(r, true)
	}
	f.Source.Name = strings.TrimLeft(oneLine(r, true), " ") // a leading blank breaks the sub-field indent
	f.Source.Taxon = listOf(r, 6)
	for i, n := 0, r.intn(3); i < n; i++ {
		f.References = append(f.References, genReference(r, i))
	}
	for i, n := 0, r.intn(3); i < n; i++ {
		f.Comments = append(f.Comments, multiLine(r))
	}
	for i, n := 0, r.intn(3); i < n; i++ {
		f.Extra = append(f.Extra, seqio.GenBankExtraField(r.pick(c01ExtraNames), multiLine(r)))
	}
	return f
}

var c01Alphabets = []string{"acgt", "ACGTN", "acgtrymkswhbvdn", "ACDEFGHIKLMNPQRSTVWY*", "!~aZ09"}

func genResidues(r *rng, n int) []byte {
	a := c01Alphabets[r.intn(len(c01Alphabets))]
	p := make([]byte, n)
	for i := range p {
		p[i] = a[r.intn(len(a))]
	}
	return p
}

// genCase: one record of the writable domain (findings shapes when asked).
func genCase(r *rng, findings bool) c01case {
	reg := registry{}
	return genCaseReg(r, findings, &reg)
}

// genCaseReg draws a record under (and extending) the given registry.
func genCaseReg(r *rng, findings bool, regp *registry) c01case {
	reg := *regp
	defer func() { *regp = reg }()
	rich := r.intn(5) != 0
	f := genFields(r, rich)
	L := r.pick2([]int{0, 1, 9, 10, 11, 59, 60, 61, 120, 130, 200})
	if r.intn(3) == 0 {
		L = r.intn(201)
	}
	gb := seqio.GenBank{Fields: f, Origin: seqio.NewOrigin(genResidues(r, L))}
	g := qualGen{allowFindings: findings}
	gb.Table = g.table(r, L, 4, &reg)
	if L == 0 && r.intn(2) == 0 || r.intn(10) == 0 {
		h := r.intn(50)
		gb.Fields.Contig = seqio.Contig{Accession: r.pick([]string{"NC_000913.3", "U00096", "x"}), Region: gts.Segment{h, h + r.rangeInt(1, 5000)}}
	}
	name := "generated"
	if findings {
		name = "generated+finding-shapes"
		switch r.intn(5) {
		case 0:
			a := r.intn(50)
			gb.Fields.Region = gts.Segment{a, a + r.rangeInt(1, 100)}
		case 1, 2, 3:
			if len(gb.Table) > 0 {
				ps := gb.Table[0].Props.Clone()
				ps.Add("note", r.pick([]string{"a\"b", "\"", "x\\", "5\" end"}))
				gb.Table[0].Props = ps
			}
		}
	}
	out := c01case{name: name, gb: gb, reg: reg, domain: true}
	return out
}

// ---------------------------------------------------------------------------
// damaged texts (correspondence of the reader only)

func damage(r *rng, text string) string {
	if len(text) == 0 {
		return text
	}
	lines := strings.SplitAfter(text, "\n")
	i := r.intn(len(lines))
	switch r.intn(12) {
	case 0: // delete a line
		return strings.Join(append(append([]string{}, lines[:i]...), lines[i+1:]...), "")
	case 1: // duplicate a line
		return strings.Join(append(append(append([]string{}, lines[:i+1]...), lines[i]), lines[i+1:]...), "")
	case 2: // truncate
		return text[:r.intn(len(text))]
	case 3: // replace one byte
		j := r.intn(len(text))
		c := []byte{' ', '\n', '"', '/', 'X', '.', '=', '0', ':'}[r.intn(9)]
		return text[:j] + string(c) + text[j+1:]
	case 4: // blank line
		return strings.Join(append(append(append([]string{}, lines[:i]...), "\n"), lines[i:]...), "")
	case 5: // indent one more
		lines[i] = " " + lines[i]
		return strings.Join(lines, "")
	case 6: // indent one less
		if strings.HasPrefix(lines[i], " ") {
			lines[i] = lines[i][1:]
		}
		return strings.Join(lines, "")
	case 7: // CRLF everywhere
		return strings.ReplaceAll(text, "\n", "\r\n")
	case 8: // swap two lines
		j := r.intn(len(lines))
		lines[i], lines[j] = lines[j], lines[i]
		return strings.Join(lines, "")
	case 9: // delete one byte
		j := r.intn(len(text))
		return text[:j] + text[j+1:]
	case 10: // drop the final terminator
		return strings.TrimSuffix(text, "//\n") + r.pick([]string{"//", "/\n", "", "// \n", "//\n\n", "//\nLOCUS"})
	default: // cut the tail of a line
		l := lines[i]
		if len(l) > 1 {
			lines[i] = l[:r.intn(len(l)-1)] + "\n"
		}
		return strings.Join(lines, "")
	}
}

// ---------------------------------------------------------------------------

func repoDir() string {
	if d := os.Getenv("VERIF_REPO"); d != "" {
		return d
	}
	return "/repo"
}

func corpusRecords(r *Run) []seqio.GenBank {
	var out []seqio.GenBank
	files, _ := filepath.Glob(filepath.Join(repoDir(), "seqio", "testdata", "*"))
	for _, fn := range files {
		if strings.HasSuffix(fn, ".fasta") {
			continue
		}
		p, err := os.ReadFile(fn)
		if err != nil {
			continue
		}
		withRegistry(registry{}, func() {
			recs, ok, pn := scanAll(string(p))
			if ok && !pn {
				out = append(out, recs...)
			}
			r.op("gb.read " + encRegistry(registry{}) + " " + encBytes(p))
			r.op("gb.wrw " + encRegistry(registry{}) + " " + encBytes(p))
		})
	}
	return out
}

// lastGuestCanonical: the guest editStep drew has a table of canonical locations (it matters for
// insert / embed / concat only)
var lastGuestCanonical bool
var lastGuest gts.Sequence

func tableAll(seq gts.Sequence, f func(gts.Location) bool) bool {
	for _, ft := range seq.Features() {
		if ft.Loc == nil || !f(ft.Loc) {
			return false
		}
	}
	return true
}

// closureOracle: the record-level closure theorems (Gts.C01.writable_record_insert_partial /
// _delete_partial / _reverse_partial / _rotate_partial) as an oracle on one pipeline step whose
// table(s) were canonical: under the coordinate guards of the theorem the edited table is
// canonical — for insert always, for delete / reverse / rotate unless the K3 guard (restated in
// props_c06_canon.go, tied to Gts/Spec/CanonGuard.lean by the k3.* lines of C06) is raised.
func closureOracle(r *Run, opName, d string, before, after gts.Sequence) {
	L := gts.Len(before)
	within := func(s gts.Sequence) bool {
		n := gts.Len(s)
		return tableAll(s, func(l gts.Location) bool { return coordsWithin(l, n) })
	}
	stays := tableAll(after, canonP)
	opLine := ""
	report := func(guarded bool, theorem string) {
		switch {
		case stays:
			r.count("pipeline/closure/" + opName + "/guards hold, table stays canonical")
		case guarded:
			r.count("pipeline/closure/" + opName + "/K3 guard raised, table leaves the canonical domain")
		default:
			r.fail(Failure{Oracle: "closure of the round-trip domain under " + opName + " (" + theorem + ")",
				Op: opLine, Got: encSeq(after), Want: "a table of canonical locations"})
		}
	}
	switch opName {
	case "insert":
		var i int
		fmt.Sscanf(d, "insert@%d", &i)
		opLine = fmt.Sprintf("seq.insert %s %d %s", encSeq(before), i, encSeq(lastGuest))
		if !tableAll(before, canonP) || !tableAll(lastGuest, canonP) || !within(before) || !within(lastGuest) || !tableAll(lastGuest, wellFormed) {
			r.count("pipeline/closure/insert/outside the guards")
			return
		}
		report(false, "Gts.C01.writable_record_insert_partial")
	case "embed":
		var i int
		fmt.Sscanf(d, "embed@%d", &i)
		opLine = fmt.Sprintf("seq.embed %s %d %s", encSeq(before), i, encSeq(lastGuest))
		if !tableAll(before, canonP) || !tableAll(lastGuest, canonP) || !within(before) || !within(lastGuest) ||
			!tableAll(before, wellFormed) || !tableAll(lastGuest, wellFormed) {
			r.count("pipeline/closure/embed/outside the guards")
			return
		}
		report(false, "Gts.C01.writable_record_embed_partial")
	case "concat":
		opLine = fmt.Sprintf("seq.concat %s %s", encSeq(before), encSeq(lastGuest))
		if !tableAll(before, canonP) || !tableAll(lastGuest, canonP) || !within(lastGuest) || !tableAll(lastGuest, wellFormed) {
			r.count("pipeline/closure/concat/outside the guards")
			return
		}
		report(false, "Gts.C01.writable_record_concat_partial")
	case "erase":
		var i, k int
		fmt.Sscanf(d, "erase@%d+%d", &i, &k)
		opLine = fmt.Sprintf("seq.erase %s %d %d", encSeq(before), i, k)
		if !tableAll(before, canonP) {
			r.count("pipeline/closure/erase/outside the guards")
			return
		}
		// the guard over ALL features (the theorem asks it of the features Erase keeps only)
		g := !tableAll(before, func(l gts.Location) bool {
			return !opK3(l, func(u gts.Location) gts.Location { return u.Expand(i, -k) }, false)
		})
		report(g, "Gts.C01.writable_record_erase_partial")
	case "delete":
		var i, k int
		fmt.Sscanf(d, "delete@%d+%d", &i, &k)
		opLine = fmt.Sprintf("seq.delete %s %d %d", encSeq(before), i, k)
		if !tableAll(before, canonP) {
			r.count("pipeline/closure/delete/outside the guards")
			return
		}
		g := !tableAll(before, func(l gts.Location) bool {
			return !opK3(l, func(u gts.Location) gts.Location { return u.Expand(i, -k) }, false)
		})
		report(g, "Gts.C01.writable_record_delete_partial")
	case "reverse":
		opLine = "seq.reverse " + encSeq(before)
		if !tableAll(before, canonP) || !tableAll(before, func(l gts.Location) bool { return revIn(l, L) }) {
			r.count("pipeline/closure/reverse/outside the guards")
			return
		}
		g := !tableAll(before, func(l gts.Location) bool {
			return !opK3(l, func(u gts.Location) gts.Location { return u.Reverse(L) }, true)
		})
		report(g, "Gts.C01.writable_record_reverse_partial")
	case "rotate":
		var k int
		fmt.Sscanf(d, "rotate%d", &k)
		opLine = fmt.Sprintf("seq.rotate %s %d", encSeq(before), k)
		if L == 0 || !tableAll(before, canonP) || !within(before) || !tableAll(before, wellFormed) {
			r.count("pipeline/closure/rotate/outside the guards")
			return
		}
		n := ((k % L) + L) % L
		g := !tableAll(before, func(l gts.Location) bool {
			return !opK3(l.Expand(0, n), func(u gts.Location) gts.Location { return u.Normalize(L) }, false)
		})
		report(g, "Gts.C01.writable_record_rotate_partial")
	}
}

// one step of an edit pipeline; ok=false when the operation's own precondition
// fails (panics are other properties' business)
func editStep(r *rng, seq gts.Sequence, pool []gts.Sequence) (out gts.Sequence, desc string, ok bool) {
	defer func() {
		if rec := recover(); rec != nil {
			ok = false
		}
	}()
	n := gts.Len(seq)
	guest := pool[r.intn(len(pool))]
	lastGuestCanonical = allCanonical(guest.Features())
	lastGuest = guest
	switch r.intn(9) {
	case 0:
		i := r.intn(n + 1)
		return gts.Insert(seq, i, guest), fmt.Sprintf("insert@%d", i), true
	case 1:
		i := r.intn(n + 1)
		return gts.Embed(seq, i, guest), fmt.Sprintf("embed@%d", i), true
	case 2:
		if n == 0 {
			return seq, "", false
		}
		i := r.intn(n)
		k := r.intn(n - i + 1)
		return gts.Delete(seq, i, k), fmt.Sprintf("delete@%d+%d", i, k), true
	case 3:
		if n == 0 {
			return seq, "", false
		}
		i := r.intn(n)
		k := r.intn(n - i + 1)
		return gts.Erase(seq, i, k), fmt.Sprintf("erase@%d+%d", i, k), true
	case 4:
		if n == 0 {
			return seq, "", false
		}
		a := r.intn(n)
		b := r.rangeInt(a+1, n)
		return gts.Slice(seq, a, b), fmt.Sprintf("slice@%d..%d", a, b), true
	case 5:
		if n == 0 {
			return seq, "", false
		}
		k := r.rangeInt(-n, n)
		return gts.Rotate(seq, k), fmt.Sprintf("rotate%d", k), true
	case 6:
		return gts.Reverse(seq), "reverse", true
	case 7:
		return gts.Complement(seq), "complement", true
	default:
		return gts.Concat(seq, guest), "concat", true
	}
}

// checkSequence: the writer/reader oracle for any gts.Sequence that carries
// GenBankFields (the result of an edit pipeline).
func checkSequence(r *Run, name string, seq gts.Sequence) {
	f, ok := seq.Info().(seqio.GenBankFields)
	if !ok {
		r.count("pipeline/not-genbank")
		return
	}
	gb := seqio.GenBank{Fields: f, Table: seq.Features(), Origin: seqio.NewOrigin(seq.Bytes())}
	c01case{name: name, gb: gb, reg: registry{}, domain: inDomain(gb)}.check(r)
}

// inDomain: a decidable approximation of Writable (Props/C01.lean) on the Go
// side for records that were not produced by the in-domain generators.
func inDomain(gb seqio.GenBank) bool {
	f := gb.Fields
	noLF := func(s string) bool { return !strings.ContainsAny(s, "\r\n") }
	noCR := func(s string) bool { return !strings.Contains(s, "\r") }
	if f.LocusName == "" || strings.ContainsAny(f.LocusName, " \t\r\n\v\f") {
		return false
	}
	if _, err := gts.AsMolecule(string(f.Molecule)); err != nil {
		return false
	}
	if f.Topology != gts.Linear && f.Topology != gts.Circular {
		return false
	}
	if !(f.Division == "" || len(f.Division) == 3 && strings.ToUpper(f.Division) == f.Division && strings.ToLower(f.Division) != f.Division) {
		return false
	}
	for _, c := range []byte(f.Division) {
		if c < 'A' || c > 'Z' {
			return false
		}
	}
	d := f.Date
	if d.Year < 0 || d.Year > 9999 || d.Month < 1 || d.Month > 12 || d.Day < 1 || d.Day > daysInMonth(d.Year, int(d.Month)) {
		return false
	}
	if !noCR(f.Definition) || !noLF(f.Accession) || !noLF(f.Version) {
		return false
	}
	seen := map[string]bool{}
	for _, p := range f.DBLink {
		if seen[p.Key] || strings.Contains(p.Key, ":") || !noLF(p.Key) || !noLF(p.Value) || p.Value == "" {
			return false
		}
		seen[p.Key] = true
	}
	entryOK := func(s string) bool {
		return s != "" && noLF(s) && !strings.Contains(s, "; ") && !strings.HasPrefix(s, " ") && !strings.HasSuffix(s, " ") && !strings.Contains(s, "  ")
	}
	for _, k := range f.Keywords {
		if !entryOK(k) {
			return false
		}
	}
	for _, k := range f.Source.Taxon {
		if !entryOK(k) {
			return false
		}
	}
	if !noCR(f.Source.Species) || !noLF(f.Source.Name) || strings.HasPrefix(f.Source.Name, " ") {
		return false
	}
	for _, ref := range f.References {
		if !noLF(ref.Info) {
			return false
		}
		for _, s := range []string{ref.Authors, ref.Group, ref.Title, ref.Journal, ref.Comment} {
			if !noCR(s) {
				return false
			}
		}
		for _, s := range []string{ref.Authors, ref.Group, ref.Title, ref.Journal, ref.Comment} {
			if strings.HasPrefix(s, " ") {
				return false
			}
		}
		if v, ok := ref.Xref["PUBMED"]; ok && (!noLF(v) || strings.HasPrefix(v, " ")) {
			return false
		}
	}
	for _, c := range f.Comments {
		if !noCR(c) {
			return false
		}
	}
	known := []string{"DEFINITION", "ACCESSION", "VERSION", "DBLINK", "KEYWORDS", "SOURCE", "REFERENCE", "COMMENT", "FEATURES", "CONTIG", "ORIGIN"}
	for _, e := range f.Extra {
		if e.Name == "" || len(e.Name) > 12 || !noCR(e.Value) {
			return false
		}
		// a 12-byte name has no blank behind it: an upper-case first byte of the value joins the name
		if len(e.Name) == 12 && e.Value != "" && e.Value[0] >= 'A' && e.Value[0] <= 'Z' {
			return false
		}
		for _, c := range []byte(e.Name) {
			if c < 'A' || c > 'Z' {
				return false
			}
		}
		for _, k := range known {
			if strings.HasPrefix(e.Name, k) {
				return false
			}
		}
	}
	if f.Contig.Accession == "" {
		if f.Contig.Region != (gts.Segment{}) {
			return false
		}
	} else if strings.ContainsAny(f.Contig.Accession, ":\r\n") {
		return false
	}
	if seg, ok := f.Region.(gts.Segment); ok && seg[1] <= seg[0] {
		return false
	}
	for _, c := range originBytesOrNil(gb.Origin) {
		if c < 33 || c > 126 {
			return false
		}
	}
	for _, ft := range gb.Table {
		if len(ft.Key) == 0 || !isSnakeWord(ft.Key) || ft.Loc == nil {
			return false
		}
		names := map[string]bool{}
		for _, row := range ft.Props {
			if len(row) < 2 || names[row[0]] || !isSnakeWord(row[0]) {
				return false
			}
			names[row[0]] = true
			t := qualifierType(row[0], registry{})
			for _, v := range row[1:] {
				if !noCR(v) {
					return false
				}
				switch t {
				case seqio.LiteralQualifier:
					if strings.Contains(v, "\n/") || strings.Contains(v, "\n                     /") {
						return false
					}
				case seqio.ToggleQualifier:
					if v != "" { // a value the writer cannot represent
						return false
					}
				default:
					if strings.Contains(v, "\n                     ") {
						return false
					}
				}
			}
		}
	}
	return true
}

func originBytesOrNil(o *seqio.Origin) (p []byte) {
	defer func() { recover() }()
	c := *o
	return c.Bytes()
}

func isSnakeWord(s string) bool {
	if s == "" {
		return false
	}
	for _, c := range []byte(s) {
		if !(c >= 'a' && c <= 'z' || c >= 'A' && c <= 'Z' || c >= '0' && c <= '9' || c == '_') {
			return false
		}
	}
	return true
}

// ---------------------------------------------------------------------------

func propC01(r *Run) {
	quick := r.tier != "thorough"
	nGen, nFind, nPipe, nDamage, nStream, nQual := 2000, 400, 700, 2500, 150, 1200
	if !quick {
		nGen, nFind, nPipe, nDamage, nStream, nQual = 12000, 2500, 5000, 15000, 1000, 8000
	}
	r.exhaustive = true
	r.op("gb.defaults")

	// --- dates: month ends, leap years, years 1, 999, 1000, 9999 ------------------
	years := c01Years
	for _, y := range years {
		for m := 1; m <= 12; m++ {
			days := []int{1, 2, 15, 27, 28, 29, 30, 31}
			if !quick || y == 2000 || y == 1900 || y == 2023 {
				days = nil
				for d := 1; d <= 31; d++ {
					days = append(days, d)
				}
			}
			for _, d := range days {
				valid := d <= daysInMonth(y, m)
				if valid {
					out := r.op(fmt.Sprintf("gb.date %d %d %d", y, m, d))
					back := r.op("gb.asdate " + out)
					r.eval(fmt.Sprintf("date|%d-%d-%d", y, m, d), true)
					if back != fmt.Sprintf("%d %d %d", y, m, d) {
						r.fail(Failure{Oracle: "AsDate(Format(d)) = d for valid calendar dates", Op: fmt.Sprintf("gb.date %d %d %d", y, m, d), Got: back})
					}
					r.count("date/valid")
				} else {
					// the printed form of an impossible day is rejected
					s := fmt.Sprintf("%02d-%s-%04d", d, strings.ToUpper(time.Month(m).String()[:3]), y)
					if out := r.op("gb.asdate " + encStr(s)); out != "ERR" {
						r.fail(Failure{Oracle: "AsDate rejects impossible days", Op: "gb.asdate " + encStr(s), Got: out})
					}
					r.count("date/impossible")
				}
			}
		}
	}
	for _, s := range []string{"", "1-JAN", "1-JAN-2000-1", "01-Jan-2000", "1-01-2000", "+1-JAN-+2000", "1 -JAN-2000", "1-jan-2000", "1-JAN-2000 ", "0-JAN-2000", "32-JAN-2000", "29-FEB-1900", "29-FEB-2000", "1-JAN-99999999999999999999", "x-JAN-2000", "1-JAN-x"} {
		r.op("gb.asdate " + encStr(s))
		r.count("date/strings")
	}

	// --- sequence lengths 0..200 exhaustively, with and without CONTIG --------------
	for n := 0; n <= 200; n++ {
		f := genFields(r.rng, false)
		gb := seqio.GenBank{Fields: f, Origin: seqio.NewOrigin(genResidues(r.rng, n))}
		c01case{name: "length-sweep", gb: gb, domain: true}.check(r)
		if n%10 == 0 {
			gb.Fields.Contig = seqio.Contig{Accession: "NC_1.1", Region: gts.Segment{n, 2*n + 7}}
			c01case{name: "length-sweep+contig", gb: gb, domain: true}.check(r)
			gb.Origin = seqio.NewOrigin(nil)
			c01case{name: "contig-only", gb: gb, domain: true}.check(r)
		}
	}

	// --- generated records -------------------------------------------------------
	var pool []seqio.GenBank
	for i := 0; i < nGen; i++ {
		c := genCase(r.rng, false)
		c.check(r)
		if i < 40 {
			pool = append(pool, c.gb)
		}
		if i < 12 {
			r.sample(encRecord(c.gb))
		}
	}
	for i := 0; i < nFind; i++ {
		genCase(r.rng, true).check(r)
	}

	// --- the corpus ---------------------------------------------------------------
	corpus := corpusRecords(r)
	for _, gb := range corpus {
		c01case{name: "corpus", gb: gb, domain: true}.check(r)
	}
	r.notes = append(r.notes, fmt.Sprintf("corpus records read from %s/seqio/testdata: %d", repoDir(), len(corpus)))

	// --- qualifier and table level -----------------------------------------------
	g := qualGen{allowFindings: true}
	for i := 0; i < nQual; i++ {
		reg := registry{}
		tab := g.table(r.rng, 30, 3, &reg)
		if len(tab) == 0 {
			continue
		}
		regS := encRegistry(reg)
		fs := make([]string, len(tab))
		for j, f := range tab {
			fs[j] = encFeature(f)
		}
		out := r.op("gb.tabletext " + regS + " " + strings.Join(fs, " "))
		r.count("table/text")
		if !strings.HasPrefix(out, "x") {
			continue
		}
		text := string(decBytes(sexp{atom: out}))
		tail := r.rng.pick([]string{"\n", "\nORIGIN      \n", "\nCONTIG      join(x:1..2)\n", "", "\n//\n"})
		r.op("gb.table " + regS + " " + encStr(text+tail))
		if r.rng.intn(3) == 0 {
			r.op("gb.table " + regS + " " + encStr(damage(r.rng, text+tail)))
		}
		// single qualifiers, at the table's indent and at another one
		for _, f := range tab {
			for _, it := range f.Props.Items() {
				for _, pre := range []string{"                     ", "  "} {
					var qt string
					withRegistry(reg, func() { qt = seqio.QualifierIO{it.Key, it.Value}.Format(pre).String() })
					next := r.rng.pick([]string{"\n", "\n" + pre + "/note=\"n\"\n", "\n     gene            1..2\n", ""})
					r.op("gb.qualifier " + regS + " " + encStr(pre) + " " + encStr(qt+next))
					r.count("qualifier/" + []string{"quoted", "literal", "toggle", "unknown"}[qualifierType(it.Key, reg)])
				}
			}
		}
	}
	for _, s := range []string{"/", "/=", "/a", "/a=", "/a=\"", "/a=\"x", "/a=\"x\"y", "/pseudo=1", "/note=x", "/note", "/codon_start", "/codon_start=\n /x", "/zz zz", "x", ""} {
		r.op("gb.qualifier " + encRegistry(registry{}) + " x " + encStr(s))
		r.op("gb.qualifier " + encRegistry(registry{}) + " x " + encStr(s+"\n"))
	}
	// the loop of quotedQualifierParser that takes the continuation indent out of a value (one pass
	// since 2612fae, F39): a line indented by twice the prefix (stripped twice, as the loop it replaced
	// did), a prefix that holds a line feed, and random values over line feed / blank / letter under
	// random NON-EMPTY prefixes (the empty prefix with a line feed in the value, where the old loop did
	// not end, is a guarded case of C07: `qual.empty`, harness/props_c07_time.go)
	for _, c := range [][2]string{
		{"  ", "a\n    b\n  c"}, {"  ", "\n  \n    \n      x"}, {" ", "\n\n \n  \n   "}, {"x\ny", "\nx\nx\nyy"},
		{"\n", "\n\n\na\n\n"}, {"ab", "\nab\naab\nabab\na"}, {"", "ab  c"},
	} {
		r.op("gb.qualifier " + encRegistry(registry{}) + " " + encStr(c[0]) + " " + encStr(c[0]+"/note=\""+c[1]+"\"\n"))
		r.count("qualifier/strip-loop")
	}
	nStrip := 150
	if !quick {
		nStrip = 3000
	}
	for i := 0; i < nStrip; i++ {
		alpha := "\n  a"
		pre := make([]byte, 1+r.rng.intn(3))
		for j := range pre {
			pre[j] = alpha[r.rng.intn(len(alpha))]
		}
		val := make([]byte, r.rng.intn(24))
		for j := range val {
			val[j] = alpha[r.rng.intn(len(alpha))]
		}
		r.op("gb.qualifier " + encRegistry(registry{}) + " " + encStr(string(pre)) + " " + encStr(string(pre)+"/note=\""+string(val)+"\"\n"))
		r.count("qualifier/strip-loop")
	}

	// --- hand-built Props with a repeated qualifier name (F31, props_c01_dup.go) ------
	nDup := 300
	if !quick {
		nDup = 2500
	}
	repeatedNameCases(r, nDup)

	// --- a record teaches the registry a name next to a known one (props_c01_learn.go) ---
	c01LearnPipeline(r)

	// --- records reached by edit pipelines ------------------------------------------
	var seqPool []gts.Sequence
	for _, gb := range append(append([]seqio.GenBank{}, corpus...), pool...) {
		if gts.Len(gb) <= 6000 {
			seqPool = append(seqPool, gb)
		}
	}
	small := []gts.Sequence{}
	for _, s := range seqPool {
		if gts.Len(s) <= 300 {
			small = append(small, s)
		}
	}
	for i := 0; i < nPipe && len(seqPool) > 0; i++ {
		seq := seqPool[r.rng.intn(len(seqPool))]
		if i%4 != 0 {
			seq = small[r.rng.intn(len(small))]
		}
		steps := r.rng.rangeInt(1, 4)
		desc := []string{}
		for s := 0; s < steps; s++ {
			next, d, ok := editStep(r.rng, seq, small)
			if !ok {
				continue
			}
			if gts.Len(next) > 12000 {
				break
			}
			// the reach of the closure theorems (Gts.C01.writable_record_*_partial): does the step
			// keep a table of canonical locations canonical?
			opName := strings.TrimRight(strings.SplitN(d, "@", 2)[0], "-0123456789")
			usesGuest := opName == "insert" || opName == "embed" || opName == "concat"
			if allCanonical(seq.Features()) && (!usesGuest || lastGuestCanonical) {
				if allCanonical(next.Features()) {
					r.count("pipeline/step/" + opName + "/canonical table stays canonical")
				} else {
					r.count("pipeline/step/" + opName + "/canonical table LEAVES the canonical domain")
				}
			} else {
				r.count("pipeline/step/" + opName + "/table was not canonical")
			}
			closureOracle(r, opName, d, seq, next)
			seq = next
			desc = append(desc, strings.SplitN(d, "@", 2)[0])
		}
		if len(desc) == 0 {
			continue
		}
		r.count("pipeline/len" + itoa(len(desc)))
		for _, d := range desc {
			r.count("pipeline/op/" + strings.TrimRight(d, "-0123456789"))
		}
		checkSequence(r, "pipeline", seq)
	}

	// --- gts.Slice at the record level (props_c01_slice.go; Props/C01Slice.lean) ------
	nSlice := 500
	if !quick {
		nSlice = 4000
	}
	var slicePool []seqio.GenBank
	for _, gb := range append(append([]seqio.GenBank{}, corpus...), pool...) {
		if gts.Len(gb) <= 6000 {
			slicePool = append(slicePool, gb)
		}
	}
	c01SliceCases(r, slicePool, nSlice)
	c01RefInfoBoundary(r)
	c01SliceRenumber(r)
	// --- the edited record that leaves the canonical domain (Gts.C01.writable_record_delete_full_refuted,
	// root cause K3 of C06): `gts delete 4..6` on a record with the feature join(7,4..5,7..9) writes
	// join(4,4..6), which is read back as 4..6.  The exact oracle of compare() (a written location is
	// read back as Join of its parts) holds; the histogram shows the case on every run.
	{
		tab := gts.FeatureSlice{
			gts.Feature{Key: "source", Loc: gts.Range(0, 12), Props: gts.Props{}},
			gts.Feature{Key: "misc_feature", Loc: gts.Joined{gts.Point(6), gts.Range(3, 5), gts.Range(6, 9)}, Props: gts.Props{}},
		}
		gb := seqio.GenBank{
			Fields: seqio.GenBankFields{LocusName: "X", Molecule: c01Molecules[0], Topology: gts.Linear, Division: "UNA",
				Date: seqio.FromTime(time.Date(2000, 1, 1, 0, 0, 0, 0, time.UTC))},
			Table: tab, Origin: seqio.NewOrigin([]byte("acgtacgtacgt"))}
		checkSequence(r, "k3-witness-before-delete", gb)
		checkSequence(r, "k3-witness-after-delete", gts.Delete(gb, 3, 3))
	}

	// --- multi-record streams -------------------------------------------------------
	for i := 0; i < nStream; i++ {
		k := r.rng.rangeInt(2, 4)
		reg := registry{}
		recs := make([]seqio.GenBank, k)
		parts := make([]string, k)
		for j := range recs {
			c := genCaseReg(r.rng, false, &reg)
			recs[j] = c.gb
		}
		// an unknown name used by an earlier record as quoted may have been registered as
		// another type by a later one: regenerate is not needed, such streams are skipped
		if conflict(reg) || staleUnknown(recs, reg) {
			continue
		}
		regS := encRegistry(reg)
		for j := range recs {
			parts[j] = encRecord(recs[j])
		}
		out := r.op("gb.writeall " + regS + " " + strings.Join(parts, " "))
		r.count("stream/records" + itoa(k))
		if !strings.HasPrefix(out, "x") {
			r.fail(Failure{Oracle: "a stream of writable records is written", Op: "gb.writeall …", Got: out})
			continue
		}
		r.op("gb.read " + regS + " " + out)
		r.op("gb.wrw " + regS + " " + out)
		r.eval("stream|"+regS+strings.Join(parts, " "), true)
		withRegistry(reg, func() {
			text := string(decBytes(sexp{atom: out}))
			got, ok, pn := scanAll(text)
			if pn || !ok || len(got) != k {
				r.fail(Failure{Oracle: "a stream of k records reads back as k records", Op: "gb.read " + regS + " " + out,
					Got: fmt.Sprintf("records=%d ok=%v panic=%v", len(got), ok, pn), Want: fmt.Sprintf("records=%d", k)})
				return
			}
			// framing: every record of the stream equals the record read from its own text
			for j := range recs {
				setRegistry(reg)
				own, p := safeString(recs[j])
				if p {
					continue
				}
				alone, ok2, pn2 := scanAll(own)
				if pn2 || !ok2 || len(alone) != 1 {
					continue
				}
				setRegistry(reg)
				a, _ := safeString(alone[0])
				b, _ := safeString(got[j])
				if a != b || encRecord(alone[0]) != encRecord(got[j]) {
					r.fail(Failure{Oracle: "records of a stream are framed independently", Op: "gb.read " + regS + " " + out,
						Got: encRecord(got[j]), Want: encRecord(alone[0])})
				}
			}
			// the same stream after a CRLF-translating transport (read_stream_crlf_exact / _partial)
			setRegistry(reg)
			c01case{name: "stream", reg: reg}.crlfCheck(r, regS, text, got)
			r.count("crlf/stream")
		})
	}

	// --- damaged texts: the reader's error paths, correspondence only ------------------
	var texts []string
	for i := 0; i < 60; i++ {
		c := genCase(r.rng, i%3 == 0)
		withRegistry(c.reg, func() {
			if t, p := safeString(c.gb); !p {
				texts = append(texts, t)
			}
		})
	}
	for _, gb := range corpus {
		if gts.Len(gb) < 200 {
			if t, p := safeString(gb); !p {
				texts = append(texts, t)
			}
		}
	}
	for i := 0; i < nDamage; i++ {
		t := texts[r.rng.intn(len(texts))]
		d := damage(r.rng, t)
		if r.rng.intn(4) == 0 {
			d = damage(r.rng, d)
		}
		out := r.op("gb.read " + encRegistry(registry{}) + " " + encStr(d))
		switch {
		case out == "PANIC":
			r.count("damaged/panic")
		case strings.HasSuffix(out, " OK"):
			r.count("damaged/accepted")
		default:
			r.count("damaged/rejected")
		}
	}
	// the shape repaired by dbce15c and its neighbours
	for _, t := range []string{
		"LOCUS       X                          4 bp    DNA     linear   UNA 29-FEB-2020\nFEATURES             Location/Qualifiers\n\nORIGIN      \n        1 acgt\n//\n",
		"LOCUS       X                          4 bp    DNA     linear   UNA 29-FEB-2020\nFEATURES             Location/Qualifiers\nORIGIN      \n        1 acgt\n//\n",
		"LOCUS       X                          4 bp    DNA     linear   UNA 29-FEB-2020\nDEFINITION  a\n            b\nORIGIN      \n        1 acgt\n//\n",
		"LOCUS       X                          4 bp    DNA     linear   UNA 29-FEB-2020\nDBLINK      X:\n//\n",
		"LOCUS       X                          4 bp    DNA     linear   UNA 29-FEB-2020\nDBLINK      X: y\n            Z\n//\n",
		"LOCUS       X                          4 bp    DNA     linear   UNA 29-FEB-2020\nSOURCE\nORGANISM   Homo\n//\n",
		"LOCUS       X                          4 bp    DNA     linear   UNA 29-FEB-2020\nSOURCE      x\n//\n",
		"LOCUS       X                          4 bp    DNA     linear   UNA 29-FEB-2020\nREFERENCE   1000\n//\n",
		"LOCUS       X                          4 bp    DNA     linear   UNA 29-FEB-2020\nREFERENCE   1000(bases 1 to 4)\n  AUTHORS   x\n//\n",
		"LOCUS       X                         -4 bp    DNA     linear   UNA 29-FEB-2020\nORIGIN      \n//\n",
		"LOCUS       X                          4 bp    DNA     linear   UNA 29-FEB-2020\n//\n",
		"LOCUS       X        9000000000000000000 bp    DNA     linear   UNA 29-FEB-2020\nCONTIG      join(U1:1..4)\n//\n",
		"LOCUS       X        7000000000000000000 bp    DNA     linear   UNA 29-FEB-2020\nCONTIG      join(U1:1..4)\n//\n",
		"LOCUS       X                          4 bp    DNA     linear   UNA 29-FEB-2020\nCONTIG      join(U1:1..4)\n//\n",
		"LOCUS       X                          8 bp    DNA     linear   UNA 29-FEB-2020\nCONTIG      join(U1:1..4)\nORIGIN      \n        1 acgt\n//\n",
		"LOCUS       X                          0 bp    DNA     linear   UNA 29-FEB-2020\nORIGIN      \n//\n",
		"LOCUS       X                         -1 bp    DNA     linear   UNA 29-FEB-2020\nORIGIN      \n        1 acgt\n//\n",
		"LOCUS       X                          4 bp    DNA     linear   UNA 29-FEB-2020\nREFERENCE   1  (bases 1 to 4)\nAUTHORS   x\n//\n",
		"LOCUS       X                          4 bp    DNA     linear   UNA 29-FEB-2020\nCOMMENTS    x\n//\n",
		"LOCUS X 4 bp DNA linear UNA 29-FEB-2020\nDEFINITION x.\n//\n",
		"LOCUS X 4 bp DNA linear 29-FEB-2020\nVERSION x\n//\n",
	} {
		r.op("gb.read " + encRegistry(registry{}) + " " + encStr(t))
		r.count("damaged/fixed-list")
	}
	// leaked location-parser frames followed by a field that fails late (F34)
	leakCases(r)

	r.notes = append(r.notes,
		"CRLF input: the CRLF translation of the text of every domain record whose LF text reads back as one record, and of every stream, goes to both sides as gb.read and is read on the real code (exact oracle: values written between quotes come back CRLF-translated, finding F36; equal to the LF reading when no such value holds a line feed); histogram crlf/*",
		fmt.Sprintf("generated records %d (+%d with known-finding shapes), edit pipelines %d, streams %d, damaged texts %d, tables %d; sequence lengths 0..200 exhaustively (+CONTIG every 10, CONTIG-only); dates: %d years x 12 months (all days for 1900/2000/2023, all for every listed year in thorough)", nGen, nFind, nPipe, nStream, nDamage, nQual, len(years)),
		"the registries are reset to seqio's initial lists plus the case's names before, and restored after, every case; the same names go to the model")
}

func mergeNames(a, b []string) []string {
	for _, x := range b {
		a = appendNew(a, x)
	}
	return a
}

func conflict(reg registry) bool {
	seen := map[string]int{}
	for _, x := range reg.q {
		seen[x]++
	}
	for _, x := range reg.l {
		seen[x]++
	}
	for _, x := range reg.t {
		seen[x]++
	}
	for _, n := range seen {
		if n > 1 {
			return true
		}
	}
	return false
}

// staleUnknown: some record uses a name as unknown/quoted although the shared registry (as
// extended by a later record) lists it as literal or toggle.
func staleUnknown(recs []seqio.GenBank, reg registry) bool {
	for _, gb := range recs {
		for _, f := range gb.Table {
			for _, row := range f.Props {
				if len(row) == 0 {
					continue
				}
				isUnknownName := false
				for _, u := range c01UnknownNames {
					isUnknownName = isUnknownName || u == row[0]
				}
				if !isUnknownName {
					continue
				}
				switch qualifierType(row[0], reg) {
				case seqio.LiteralQualifier:
					for _, v := range row[1:] {
						if strings.Contains(v, "\n/") {
							return true
						}
					}
				case seqio.ToggleQualifier:
					for _, v := range row[1:] {
						if v != "" {
							return true
						}
					}
				}
			}
		}
	}
	return false
}

var _ = bytes.Equal
