package main

// C15 — multi-site edit commands act once at every located site, in input coordinates.
//
// The `gts` binary built from the tree is run (input on stdin, --no-cache, scratch HOME, 5 s
// timeout) on GenBank records — generated ones written with seqio and the corpus records — with
// locators of every kind (modifier, point, range, complement, selector matching 0..k features,
// each optionally `@modifier`, kept when every located end stays inside the record), linear and
// circular, options -e (erase / embed), -v, -F fasta.  The output is parsed back with seqio.
//
//   correspondence: ops `cli.delete / insert / infix / split / rotate / extract` are answered by
//   the binary (records parsed back: residues, features, topology) and by the Lean model of the
//   scan loops (Gts/Model/Cli.lean over Seq / Region / Locator), whose feature locations are
//   observed through the same print-and-parse step.
//
//   oracles (direct, on the residues the binary emitted):
//     delete   — exactly the positions covered by no located region remain, in order;
//     insert / infix — one guest copy per located region at that region's head in INPUT coordinates;
//     split    — the pieces concatenate to the input (circular: to a rotation starting at a cut);
//     rotate   — the first located head is at index 0;
//     extract  — one record per distinct located region (first occurrences, in order) whose length
//                differs from the record's (or the only one), each with the residues the library's
//                Locate gives; with -v exactly the maximal stretches no region covers.
//     features of extract / circular split (props_c15_feat.go) — read back in input coordinates,
//                every written feature denotes exactly the residues of its input feature inside its
//                leaf / piece, on their strand, and every such piece is written.
//
// Repaired defects F23 (0f056fc: the GenBank writer panicked on a piece of length 0 — split at
// position 0 or at the end, extract of a region starting with a zero-length part) and F24
// (78dc8d4: several regions with ONE distinct cut on a circular record gave one empty piece):
// their shapes are counted (shape/…) so that the evidence shows they are still reached.

import (
	"bytes"
	"context"
	"fmt"
	"io/ioutil"
	"os"
	"os/exec"
	"path/filepath"
	"reflect"
	"runtime"
	"sort"
	"strings"
	"sync"
	"time"

	"github.com/go-gts/gts"
	"github.com/go-gts/gts/seqio"
)

func init() {
	props["C15"] = propC15
	for _, op := range []string{"cli.delete", "cli.insert", "cli.infix", "cli.split", "cli.rotate", "cli.extract"} {
		op := op
		extraOps[op] = func(a []sexp) string { return c15Exec(op, a) }
	}
}

// ---------------------------------------------------------------------------
// files

func c15Fields(circ bool) seqio.GenBankFields {
	top := gts.Linear
	if circ {
		top = gts.Circular
	}
	return seqio.GenBankFields{LocusName: "VERIF", Molecule: gts.DNA, Topology: top, Division: "SYN",
		Date: seqio.Date{Year: 2020, Month: time.January, Day: 2}, Definition: "verif", Accession: "VERIF",
		Version: "VERIF.1", Source: seqio.Organism{Species: "synthetic construct", Name: "synthetic construct", Taxon: []string{"other sequences"}}}
}

// c15File: the GenBank text the binary is given for a (features, residues) pair
func c15File(seq gts.Sequence, circ bool) []byte {
	gb := seqio.GenBank{Fields: c15Fields(circ), Table: seq.Features(), Origin: seqio.NewOrigin(seq.Bytes())}
	b := bytes.Buffer{}
	if _, err := gb.WriteTo(&b); err != nil {
		panic(err)
	}
	return b.Bytes()
}

func c15Fasta(seq gts.Sequence) []byte {
	b := bytes.Buffer{}
	w := seqio.NewWriter(&b, seqio.FastaFile)
	if _, err := w.WriteSeq(gts.New("guest", nil, seq.Bytes())); err != nil {
		panic(err)
	}
	return b.Bytes()
}

func c15Parse(p []byte) ([]gts.Sequence, error) {
	sc := seqio.NewAutoScanner(bytes.NewReader(p))
	var out []gts.Sequence
	for sc.Scan() {
		out = append(out, sc.Value())
	}
	return out, sc.Err()
}

// c15Faithful: the record the binary will read from c15File(seq) — nil when it is not the
// record we describe to the model
func c15Faithful(seq gts.Sequence, circ bool) gts.Sequence {
	defer func() { recover() }()
	ss, err := c15Parse(c15File(seq, circ))
	if err != nil || len(ss) != 1 {
		return nil
	}
	back := gts.New(nil, ss[0].Features(), ss[0].Bytes())
	if encSeq(back) != encSeq(seq) {
		// use what the binary will see, provided that is stable
		again, err := c15Parse(c15File(back, circ))
		if err != nil || len(again) != 1 || encSeq(gts.New(nil, again[0].Features(), again[0].Bytes())) != encSeq(back) {
			return nil
		}
	}
	return back
}

// ---------------------------------------------------------------------------
// running the binary

type c15Out struct {
	status int
	stdout []byte
}

func c15Run(args []string, stdin []byte, files map[string][]byte) c15Out {
	d, err := ioutil.TempDir("", "verif-c15-")
	if err != nil {
		panic(err)
	}
	defer os.RemoveAll(d)
	full := []string{}
	for _, a := range args {
		if strings.HasPrefix(a, "@FILE:") {
			p := filepath.Join(d, a[6:])
			if err := ioutil.WriteFile(p, files[a[6:]], 0644); err != nil {
				panic(err)
			}
			a = p
		}
		full = append(full, a)
	}
	ctx, cancel := context.WithTimeout(context.Background(), 5*time.Second)
	defer cancel()
	cmd := exec.CommandContext(ctx, gtsBinary(), full...)
	cmd.Env = []string{"HOME=" + d, "XDG_CACHE_HOME=" + d, "TMPDIR=" + d, "PATH=/usr/bin:/bin"}
	cmd.Stdin = bytes.NewReader(stdin)
	var stdout bytes.Buffer
	cmd.Stdout = &stdout
	cmd.Stderr = ioutil.Discard
	err = cmd.Run()
	out := c15Out{stdout: stdout.Bytes()}
	if ctx.Err() != nil {
		out.status = 124
	} else if ee, ok := err.(*exec.ExitError); ok {
		out.status = ee.ExitCode()
	} else if err != nil {
		panic(err)
	}
	return out
}

// c15Answer: the canonical answer for the records the binary wrote
func c15Answer(o c15Out, fasta bool) (string, []gts.Sequence) {
	switch {
	case o.status == 2:
		return "PANIC", nil
	case o.status == 124:
		return "HANG", nil
	case o.status != 0:
		return "ERR", nil
	}
	ss, err := c15Parse(o.stdout)
	if err != nil {
		return "UNPARSEABLE", nil
	}
	enc := make([]string, len(ss))
	tops := make([]byte, len(ss))
	for i, s := range ss {
		ff := s.Features()
		if fasta {
			ff = nil
		}
		enc[i] = encSeq(gts.New(nil, ff, s.Bytes()))
		tops[i] = 'L'
		if gb, ok := s.(seqio.GenBank); ok && gb.Fields.Topology == gts.Circular {
			tops[i] = 'C'
		}
	}
	t := string(tops)
	if fasta {
		t = "-"
	}
	return encList(enc) + " " + t, ss
}

// c15Exec answers one protocol line by running the binary.
func c15Exec(op string, a []sexp) string {
	ans, _ := c15ExecSeqs(op, a)
	return ans
}

func c15ExecSeqs(op string, a []sexp) (string, []gts.Sequence) {
	inv, ok := c15Prepare(op, a)
	if !ok {
		return "BAD-OP", nil
	}
	return c15Answer(inv.run(), inv.fasta)
}

// c15Invocation: everything needed to run the binary for one protocol line.  Building it and
// parsing the output use seqio (whose parsers are not safe for concurrent use) and are done on
// one goroutine; only run() is executed by the worker pool.
type c15Invocation struct {
	args  []string
	stdin []byte
	files map[string][]byte
	fasta bool
}

func (inv c15Invocation) run() c15Out {
	out := c15Run(inv.args, inv.stdin, inv.files)
	if os.Getenv("VERIF_C15_DEBUG") != "" {
		fmt.Fprintf(os.Stderr, "gts %s  (exit %d)\n--- stdin\n%s--- stdout\n%s---\n", strings.Join(inv.args, " "), out.status, inv.stdin, out.stdout)
	}
	return out
}

func c15Prepare(op string, a []sexp) (c15Invocation, bool) {
	seq := decSeq(a[0])
	flag := func(s sexp) bool { return s.atom == "1" }
	name := strings.TrimPrefix(op, "cli.")
	args := []string{name, "--no-cache"}
	var circ, fasta bool
	var stdin []byte
	files := map[string][]byte{}
	switch name {
	case "delete":
		circ, fasta = flag(a[3]), flag(a[4])
		if flag(a[2]) {
			args = append(args, "-e")
		}
		args = append(args, string(decBytes(a[1])))
		stdin = c15File(seq, circ)
	case "insert", "infix":
		circ, fasta = flag(a[3]), flag(a[4])
		if flag(a[2]) {
			args = append(args, "-e")
		}
		guest := decSeq(a[5])
		args = append(args, string(decBytes(a[1])))
		if name == "insert" {
			// host on stdin, guest as a file
			args = append(args, "@FILE:guest.gb")
			files["guest.gb"] = c15File(guest, false)
			stdin = c15File(seq, circ)
		} else {
			args = append(args, "@FILE:host.gb")
			files["host.gb"] = c15File(seq, circ)
			stdin = c15File(guest, false)
		}
	case "split", "rotate":
		circ, fasta = flag(a[2]), flag(a[3])
		args = append(args, string(decBytes(a[1])))
		stdin = c15File(seq, circ)
	case "extract":
		circ, fasta = flag(a[3]), flag(a[4])
		if flag(a[2]) {
			args = append(args, "-v")
		}
		for _, l := range a[1].list {
			args = append(args, string(decBytes(l)))
		}
		stdin = c15File(seq, circ)
	default:
		return c15Invocation{}, false
	}
	if fasta {
		args = append(args, "-F", "fasta")
	}
	return c15Invocation{args, stdin, files, fasta}, true
}

// ---------------------------------------------------------------------------
// independent statements of the expected residues

// c15Regions: what the real locator yields, and whether every end lies inside [0, L]
func c15Regions(loc string, seq gts.Sequence) (rr gts.Regions, ok bool) {
	defer func() {
		if recover() != nil {
			rr, ok = nil, false
		}
	}()
	locate, err := gts.AsLocator(loc)
	if err != nil {
		return nil, false
	}
	rr = locate(seq)
	L := gts.Len(seq)
	for _, s := range c15Leaves(rr) {
		if s[0] < 0 || s[0] > L || s[1] < 0 || s[1] > L {
			return rr, false
		}
	}
	return rr, true
}

// c15LeafKind: what Segment.Locate -> gts.Slice makes of the leaf (h, t) on a record of L residues
// (lo = min, hi = max; a negative end has L added once, then end < start means rotate and cut):
//
//	"inside"   0 <= lo, hi <= L                 the window [lo, hi)
//	"shifted"  -L <= lo, hi < 0                 the window [lo+L, hi+L)            (Gts.C15.locate_neg_segment_shift)
//	"wrap"     -L <= lo < 0 <= hi < lo+L        the window lo+L..L, 0..hi of the circle (Gts.Cli.wrapSeg)
//	"rejected" everything else: hi >= lo+L is read as the forward window [lo+L, hi) — a segment as long as
//	           the circle comes out EMPTY (Gts.C15.locate_long_wrap_differs) —, an end above L slices beyond
//	           the length (a panic, or bytes of the spare capacity), an end below -L panics
func c15LeafKind(s gts.Segment, L int) string {
	lo, hi := s[0], s[1]
	if hi < lo {
		lo, hi = hi, lo
	}
	switch {
	case 0 <= lo && hi <= L:
		return "inside"
	case -L <= lo && hi < 0:
		return "shifted"
	case -L <= lo && lo < 0 && 0 <= hi && hi < lo+L:
		return "wrap"
	}
	return "rejected"
}

// c15RegionsWrap: c15Regions for `gts extract` on a CIRCULAR record, widened to what Region.Locate accepts
// there: every leaf inside, shifted or wrap (ends in [-L, L]; an end in (L, 2L] is rejected by the code).
// wraps reports whether some leaf is not "inside".
func c15RegionsWrap(loc string, seq gts.Sequence) (rr gts.Regions, ok, wraps bool) {
	defer func() {
		if recover() != nil {
			rr, ok, wraps = nil, false, false
		}
	}()
	locate, err := gts.AsLocator(loc)
	if err != nil {
		return nil, false, false
	}
	rr = locate(seq)
	L := gts.Len(seq)
	for _, s := range c15Leaves(rr) {
		switch c15LeafKind(s, L) {
		case "rejected":
			return rr, false, wraps
		case "inside":
		default:
			wraps = true
		}
	}
	return rr, true, wraps
}

// c15LocatorWrap: a locator whose regions reach before the origin: a range / complement / feature selector
// with a modifier that moves the 5' end (forward strand) or the 3' end (a backward region is modified in
// mirrored coordinates) up to L positions to the left, sometimes far enough to be rejected
func c15LocatorWrap(r *rng, seq gts.Sequence) string {
	L := gts.Len(seq)
	ff := seq.Features()
	rng2 := func() (int, int) {
		a := r.intn(L)
		if r.intn(2) == 0 {
			a = r.intn(minInt(L, 4))
		}
		return a, r.rangeInt(a+1, L)
	}
	k := 1 + r.intn(minInt(L, 9))
	if r.intn(4) == 0 {
		k = 1 + r.intn(L+1)
	}
	fwd := []gts.Modifier{gts.HeadTail{-k, 0}, gts.HeadTail{-k, -r.intn(3)}, gts.HeadHead{-k, r.intn(4)},
		gts.HeadHead{-k, -k + 1 + r.intn(3)}, gts.HeadTail{-k, r.intn(3)}}
	// a backward region is modified in mirrored coordinates: `$+k` moves its 3' end k positions DOWN
	bwd := []gts.Modifier{gts.HeadTail{0, k}, gts.HeadTail{r.intn(3), k}, gts.TailTail{-r.intn(3), k}, gts.HeadTail{-r.intn(2), k}}
	switch c := r.intn(10); {
	case c < 3 && len(ff) > 0:
		// a feature selector, preferably on a feature with a COMPOSITE region (tryLocation reads no join( as a
		// locator, so composite regions come from features only), with a modifier that takes its 5' end (a
		// backward region: its 3' end, in mirrored coordinates) just across the origin
		var comp []gts.Feature
		for _, f := range ff {
			if len(c15Leaves(f.Loc.Region())) > 1 {
				comp = append(comp, f)
			}
		}
		f := ff[r.intn(len(ff))]
		if len(comp) > 0 && r.intn(3) > 0 {
			f = comp[r.intn(len(comp))]
		}
		x := f.Loc.Region()
		lv := c15Leaves(x)
		if len(lv) == 0 {
			return f.Key + "@" + fwd[r.intn(len(fwd))].String()
		}
		first, last := lv[0], lv[len(lv)-1]
		if first[0] <= first[1] {
			kk := first[0] + 1 + r.intn(4)
			return f.Key + "@" + gts.HeadTail{-kk, 0}.String()
		}
		kk := last[1] + 1 + r.intn(4)
		return f.Key + "@" + gts.HeadTail{0, kk}.String()
	case c == 3:
		return "@" + fwd[r.intn(len(fwd))].String() // every feature
	case c < 6:
		a, e := rng2()
		return fmt.Sprintf("%d..%d@%s", a+1, e, fwd[r.intn(len(fwd))])
	case c < 8:
		a, e := rng2()
		return fmt.Sprintf("complement(%d..%d)@%s", a+1, e, bwd[r.intn(len(bwd))])
	}
	a, e := rng2()
	return fmt.Sprintf("%d..%d@%s", a+1, e, fwd[r.intn(len(fwd))])
}

func c15Leaves(r gts.Region) []gts.Segment {
	switch v := r.(type) {
	case gts.Segment:
		return []gts.Segment{v}
	case gts.Regions:
		var out []gts.Segment
		for _, x := range v {
			out = append(out, c15Leaves(x)...)
		}
		return out
	}
	return nil
}

// c15Head / c15Tail / c15ResLen: the 5' position, the 3' position and the number of residues of a
// region, read off its RAW leaf coordinates (first leaf's head, last leaf's tail, sum of |t - h|) —
// never through Region.Head / Tail / Len, which are the methods the commands under test call
// (cmd/gts insert, infix, split, rotate: Head / Tail; extract: Len).
func c15Head(x gts.Region) int {
	if lv := c15Leaves(x); len(lv) > 0 {
		return lv[0][0]
	}
	return 0
}

func c15Tail(x gts.Region) int {
	if lv := c15Leaves(x); len(lv) > 0 {
		return lv[len(lv)-1][1]
	}
	return 0
}

func c15ResLen(x gts.Region) int {
	n := 0
	for _, s := range c15Leaves(x) {
		if s[1] < s[0] {
			n += s[0] - s[1]
		} else {
			n += s[1] - s[0]
		}
	}
	return n
}

// c15CompByte: the complement of one residue letter, from a table of its own (IUPAC pairs, case kept;
// anything else unchanged) — not gts.Complement, which Segment.Locate calls for a backward leaf
func c15CompByte(b byte) byte {
	const from = "ACGTURYKMBDHVacgturykmbdhv"
	const to = "TGCAAYRMKVHDBtgcaayrmkvhdb"
	if i := strings.IndexByte(from, b); i >= 0 {
		return to[i]
	}
	return b
}

// c15Mask: positions covered by some located region
func c15Mask(rr gts.Regions, L int) []bool {
	m := make([]bool, L)
	for _, s := range c15Leaves(rr) {
		lo, hi := s[0], s[1]
		if hi < lo {
			lo, hi = hi, lo
		}
		for i := lo; i < hi && i < L; i++ {
			if i >= 0 {
				m[i] = true
			}
		}
	}
	return m
}

func c15Rotation(p []byte, k int) []byte {
	if len(p) == 0 {
		return nil
	}
	k = ((k % len(p)) + len(p)) % len(p)
	return append(append([]byte{}, p[k:]...), p[:k]...)
}

func c15Concat(ss []gts.Sequence) []byte {
	var out []byte
	for _, s := range ss {
		out = append(out, s.Bytes()...)
	}
	return out
}

// ---------------------------------------------------------------------------
// cases

type c15Case struct {
	op     string
	seq    gts.Sequence
	circ   bool
	fasta  bool
	flag   bool // erase / embed / invert
	locs   []string
	guest  gts.Sequence
	source string
	wrap   bool // extract on a circular record: regions accepted by c15RegionsWrap (ends may lie before the origin)
}

func (c c15Case) line() string {
	q := encSeq(c.seq)
	switch c.op {
	case "cli.delete":
		return fmt.Sprintf("cli.delete %s %s %s %s %s", q, encStr(c.locs[0]), b01(c.flag), b01(c.circ), b01(c.fasta))
	case "cli.insert", "cli.infix":
		return fmt.Sprintf("%s %s %s %s %s %s %s", c.op, q, encStr(c.locs[0]), b01(c.flag), b01(c.circ), b01(c.fasta), encSeq(c.guest))
	case "cli.split", "cli.rotate":
		return fmt.Sprintf("%s %s %s %s %s", c.op, q, encStr(c.locs[0]), b01(c.circ), b01(c.fasta))
	}
	ls := make([]string, len(c.locs))
	for i, l := range c.locs {
		ls[i] = encStr(l)
	}
	return fmt.Sprintf("cli.extract %s %s %s %s %s", q, encList(ls), b01(c.flag), b01(c.circ), b01(c.fasta))
}

type c15Result struct {
	answer string
	seqs   []gts.Sequence
	ok     bool
}

// c15Locator draws a locator string for a record; selectors are the regexp-free ones of C08.
func c15Locator(r *rng, seq gts.Sequence) string {
	L := gts.Len(seq)
	var s string
	ff := seq.Features()
	switch k := r.intn(10); {
	case k < 4 && len(ff) > 0:
		// a selector on a key (and sometimes a qualifier) that occurs in the record: several sites
		f := ff[r.intn(len(ff))]
		s = f.Key
		if r.intn(4) == 0 && len(f.Props) > 0 {
			s += "/" + f.Props[r.intn(len(f.Props))][0]
		}
	case k == 4:
		s = "" // every feature
	default:
		s = genSpec(r, L).text
	}
	switch r.intn(4) {
	case 0:
		m := genModInside(r, 1+r.intn(L))
		s += "@" + m.String()
	case 1:
		m := []gts.Modifier{gts.Head(0), gts.Tail(0), gts.HeadTail{0, 0}, gts.HeadHead{0, 1}, gts.TailTail{-1, 0}, gts.Head(1), gts.Head(-1),
			gts.HeadTail{-1, 1}, gts.HeadTail{1, -1}}[r.intn(9)]
		s += "@" + m.String()
	default:
		if s == "" {
			s = "@" + gts.HeadTail{0, 0}.String()
		}
	}
	return s
}

func c15Guest(r *rng) gts.Sequence {
	L := r.rangeInt(1, 6)
	return genSeq(r, L, 2, 0)
}

func propC15(r *Run) {
	thorough := r.tier == "thorough"
	type rec struct {
		seq  gts.Sequence
		circ bool
		name string
	}
	var records []rec
	// corpus
	corpusNames := []string{"NC_001422_part.gb", "pBAT5.txt", "NC_001422.gb"}
	if thorough {
		corpusNames = append(corpusNames, "NC_000913.3.min.gb")
	}
	for _, n := range corpusNames {
		ss, err := c15Parse(corpusFile(n))
		if err != nil || len(ss) != 1 {
			panic("corpus record " + n)
		}
		circ := false
		if gb, ok := ss[0].(seqio.GenBank); ok {
			circ = gb.Fields.Topology == gts.Circular
		}
		if gts.Len(ss[0]) == 0 {
			// NC_000913.3.min.gb carries no residues: gts.Rotate divides by the length (C04's scope)
			r.count("skipped/corpus-record-without-residues/" + n)
			continue
		}
		s := c15Faithful(gts.New(nil, ss[0].Features(), ss[0].Bytes()), circ)
		if s == nil {
			r.count("skipped/corpus-record-not-stable/" + n)
			continue
		}
		records = append(records, rec{s, circ, "corpus/" + n})
		records = append(records, rec{s, !circ, "corpus/" + n + "/other-topology"})
	}
	nGen := 60
	if thorough {
		nGen = 500
	}
	for i := 0; i < nGen; i++ {
		L := r.rng.rangeInt(4, 40)
		seq := genSeq(r.rng, L, 8, 2)
		circ := r.rng.intn(2) == 0
		s := c15Faithful(seq, circ)
		if s == nil {
			r.count("skipped/generated-record-not-stable")
			continue
		}
		records = append(records, rec{s, circ, "generated"})
	}

	// small scope: a 5-residue record with two `gene` features, every ordered pair of ranges on
	// either strand (thorough: all 900 pairs; quick: a seeded sample) — overlapping, nested,
	// abutting, unsorted, duplicate and two-stranded sites under the locator `gene`
	var pairLocs []gts.Location
	for a := 0; a < 5; a++ {
		for b := a + 1; b <= 5; b++ {
			pairLocs = append(pairLocs, gts.Range(a, b), gts.Complemented{Location: gts.Range(a, b)})
		}
	}
	small := 0
	for i, la := range pairLocs {
		for j, lb := range pairLocs {
			if !thorough && r.rng.intn(6) != 0 {
				continue
			}
			ff := gts.FeatureSlice{}
			ff = ff.Insert(gts.Feature{Key: "gene", Loc: la, Props: gts.Props{}})
			ff = ff.Insert(gts.Feature{Key: "gene", Loc: lb, Props: gts.Props{}})
			circ := (i+j)%2 == 0
			s := c15Faithful(gts.New(nil, ff, []byte("acgtn")), circ)
			if s == nil {
				r.count("skipped/generated-record-not-stable")
				continue
			}
			records = append(records, rec{s, circ, "small-scope/two-genes"})
			small++
		}
	}
	// small scope: "isoforms" — two different two-segment joins with the same 5' end, 3' end and
	// spliced length (on either strand) under one locator: regions that any summary of a region
	// by (head, tail, length) confuses (seeded changes C15-b, C08-f, C09-f)
	iso := 0
	for a := 1; a <= 8; a++ {
		for b := a + 1; b <= 9; b++ {
			for a2 := a + 1; a2 <= 8; a2++ {
				b2 := b + (a2 - a)
				if b2 > 9 || b2 <= a2 {
					continue
				}
				if !thorough && r.rng.intn(4) != 0 {
					continue
				}
				var la, lb gts.Location = gts.Joined{gts.Range(0, a), gts.Range(b, 10)}, gts.Joined{gts.Range(0, a2), gts.Range(b2, 10)}
				if (a+b)%3 == 0 {
					la, lb = gts.Complemented{Location: la}, gts.Complemented{Location: lb}
				}
				ff := gts.FeatureSlice{}
				ff = ff.Insert(gts.Feature{Key: "gene", Loc: la, Props: gts.Props{}})
				ff = ff.Insert(gts.Feature{Key: "gene", Loc: lb, Props: gts.Props{}})
				circ := (a+b2)%2 == 0
				s := c15Faithful(gts.New(nil, ff, []byte("acgtnryacg")), circ)
				if s == nil {
					r.count("skipped/generated-record-not-stable")
					continue
				}
				records = append(records, rec{s, circ, "small-scope/isoforms"})
				iso++
			}
		}
	}
	r.count(fmt.Sprintf("records/small-scope/isoforms=%d", iso))
	r.exhaustive = thorough

	// several records per input file (props_c15_multi.go)
	{
		var pool []gts.Sequence
		for _, rc := range records {
			if rc.name == "generated" {
				pool = append(pool, rc.seq)
			}
		}
		c15MultiRecords(r, pool)
	}

	var cases []c15Case
	perRecord := 10
	if thorough {
		perRecord = 24
	}
	ops := []string{"cli.delete", "cli.insert", "cli.infix", "cli.split", "cli.rotate", "cli.extract"}
	for _, rc := range records {
		n := perRecord
		if strings.HasPrefix(rc.name, "corpus/") && gts.Len(rc.seq) > 1000 {
			n = perRecord / 2
		}
		if strings.HasPrefix(rc.name, "small-scope/") {
			n = 1
		}
		for k := 0; k < n; k++ {
			for _, op := range ops {
				c := c15Case{op: op, seq: rc.seq, circ: rc.circ, source: rc.name, fasta: r.rng.intn(5) == 0, flag: r.rng.intn(2) == 0}
				c.locs = []string{c15Locator(r.rng, rc.seq)}
				if strings.HasPrefix(rc.name, "small-scope/") {
					c.locs = []string{"gene"}
				}
				if op == "cli.extract" {
					for j := r.rng.intn(3); j > 0; j-- {
						if r.rng.intn(3) == 0 {
							c.locs = append(c.locs, c.locs[r.rng.intn(len(c.locs))]) // duplicate regions
						} else {
							c.locs = append(c.locs, c15Locator(r.rng, rc.seq))
						}
					}
				}
				if op == "cli.insert" || op == "cli.infix" {
					g := c15Faithful(c15Guest(r.rng), false)
					if g == nil {
						r.count("skipped/guest-not-stable")
						continue
					}
					c.guest = g
				}
				// extract on a circular record without -v: regions may reach before the origin (what
				// Region.Locate accepts there: c15RegionsWrap); -v stays inside (gts.InvertLinear: "linear
				// inversion only", a region before the origin makes it emit a backward stretch)
				if op == "cli.extract" && rc.circ && !c.flag && !strings.HasPrefix(rc.name, "small-scope/") && r.rng.intn(2) == 0 {
					c.wrap = true
					okw := false
					for try := 0; try < 8 && !okw; try++ {
						for j := range c.locs {
							if j == 0 || r.rng.intn(2) == 0 {
								c.locs[j] = c15LocatorWrap(r.rng, rc.seq)
							}
						}
						okw = true
						for _, l := range c.locs {
							if strings.Contains(l, "'") {
								okw = false
							}
							if _, ok2, _ := c15RegionsWrap(l, rc.seq); !ok2 {
								okw = false
							}
						}
						if !okw {
							r.count("skipped/extract-circular/region-rejected-by-Locate")
						}
					}
					if !okw {
						continue
					}
					cases = append(cases, c)
					continue
				}
				// the property quantifies over locators whose regions stay in range
				rr, ok := c15Regions(c.locs[0], rc.seq)
				for _, l := range c.locs {
					// selectors on 5'UTR / 3'UTR start with a digit: the subject of C08's K8A, kept out here
					if strings.Contains(l, "'") {
						ok = false
					}
				}
				for _, l := range c.locs[1:] {
					if _, ok2 := c15Regions(l, rc.seq); !ok2 {
						ok = false
					}
				}
				if !ok {
					r.count("skipped/locator-out-of-range-or-rejected")
					continue
				}
				_ = rr
				cases = append(cases, c)
			}
		}
	}

	// execute with a worker pool (only the processes; seqio is used on this goroutine)
	invs := make([]c15Invocation, len(cases))
	for i, c := range cases {
		xs := parseLine(c.line())
		invs[i], _ = c15Prepare(xs[0].atom, xs[1:])
	}
	outs := make([]c15Out, len(cases))
	gtsBinary()
	workers := runtime.NumCPU()
	if workers > 16 {
		workers = 16
	}
	var wg sync.WaitGroup
	jobs := make(chan int)
	for w := 0; w < workers; w++ {
		wg.Add(1)
		go func() {
			defer wg.Done()
			for i := range jobs {
				outs[i] = invs[i].run()
			}
		}()
	}
	for i := range cases {
		jobs <- i
	}
	close(jobs)
	wg.Wait()
	results := make([]c15Result, len(cases))
	for i := range cases {
		ans, seqs := c15Answer(outs[i], invs[i].fasta)
		results[i] = c15Result{ans, seqs, strings.HasPrefix(ans, "(")}
	}

	for i, c := range cases {
		line := c.line()
		res := results[i]
		r.record(line, res.answer)
		c15Oracle(r, c, line, res)
	}
	r.notes = append(r.notes, fmt.Sprintf("%d records (corpus in both topologies, generated 4..40 residues with up to 5 features of nesting depth 2), %d invocations of the gts binary", len(records), len(cases)))
}

func c15Oracle(r *Run, c c15Case, line string, res c15Result) {
	name := strings.TrimPrefix(c.op, "cli.")
	in := c.seq.Bytes()
	L := len(in)
	rr, _ := c15Regions(c.locs[0], c.seq)
	r.count("command/" + name)
	r.count("source/" + c.source)
	r.count(fmt.Sprintf("located-regions/%d", minInt(len(rr), 4)))
	if c.fasta {
		r.count("format/fasta")
	} else {
		r.count("format/genbank")
	}
	if c.circ {
		r.count("topology/circular")
	} else {
		r.count("topology/linear")
	}
	r.eval(line, len(rr) > 0)
	fail := func(oracle, got, want string, finding string) {
		r.fail(Failure{Oracle: oracle, Op: line, Got: got, Want: want, Finding: finding})
	}
	// the shapes of the repaired defects F23 / F24 stay in the generators
	switch name {
	case "split":
		if c15SplitHasEmptyPiece(rr, L, c.circ) {
			r.count("shape/split-empty-piece")
		}
		if c.circ && len(rr) > 1 && len(c15Cuts(rr)) == 1 {
			r.count("shape/split-circular-one-distinct-cut")
		}
	case "extract":
		for _, x := range c15ExtractRegions(c, L) {
			if lv := c15Leaves(x); len(lv) > 0 && lv[0][0] == lv[0][1] {
				r.count("shape/extract-region-starting-with-empty-part")
				break
			}
		}
	}
	if !res.ok {
		r.count("outcome/" + res.answer)
		fail("gts "+name+" succeeds on an in-range locator", res.answer, "exit status 0 and parseable records", "")
		return
	}
	r.count("outcome/ok")
	outs := res.seqs
	switch name {
	case "delete":
		mask := c15Mask(rr, L)
		var want []byte
		for i, b := range in {
			if !mask[i] {
				want = append(want, b)
			}
		}
		if len(outs) != 1 || !bytes.Equal(outs[0].Bytes(), want) {
			fail("delete removes exactly the union of the located regions", c15BytesOf(outs), string(want), "")
		}
	case "insert", "infix":
		count := make([]int, L+1)
		for _, x := range rr {
			count[c15Head(x)]++
		}
		var want []byte
		for p := 0; p <= L; p++ {
			for k := 0; k < count[p]; k++ {
				want = append(want, c.guest.Bytes()...)
			}
			if p < L {
				want = append(want, in[p])
			}
		}
		if len(outs) != 1 || !bytes.Equal(outs[0].Bytes(), want) {
			fail(name+" places one guest copy per located region at its head, in input coordinates", c15BytesOf(outs), string(want), "")
		}
	case "split":
		got := c15Concat(outs)
		if !c.circ || len(rr) == 0 {
			if !bytes.Equal(got, in) {
				fail("split (linear): the pieces concatenate back to the input", c15BytesOf(outs), string(in), "")
			}
		} else {
			ok := false
			for _, x := range rr {
				if bytes.Equal(got, c15Rotation(in, c15Head(x))) || bytes.Equal(got, c15Rotation(in, c15Tail(x))) {
					ok = true
				}
			}
			if !ok {
				fail("split (circular): the pieces concatenate to the input re-origined at a cut", c15BytesOf(outs), "a rotation of "+string(in)+" starting at a located position", "")
			}
		}
		// every distinct cut is a piece boundary
		want := c15SplitCount(rr, L, c.circ)
		if len(outs) != want {
			fail("split cuts at every distinct located position", fmt.Sprintf("%d pieces", len(outs)), fmt.Sprintf("%d pieces", want), "")
		} else if c.circ && len(rr) > 0 && !c.fasta {
			// the feature clause, decided from the denotation (props_c15_feat.go)
			c15SplitCircularFeatures(r, c, line, rr, outs)
		}
	case "rotate":
		want := in
		if len(rr) > 0 {
			want = c15Rotation(in, c15Head(rr[0]))
		}
		if len(outs) != 1 || !bytes.Equal(outs[0].Bytes(), want) {
			fail("rotate brings the first located position to index 0", c15BytesOf(outs), string(want), "")
		}
	case "extract":
		if c.flag && c15HasZeroLengthLeaf(c) {
			// C09: a zero-length located region (a between-site) cuts an unlocated stretch in two;
			// "maximal" is stated for collections without zero-length regions
			r.count("guarded/extract-v-zero-length-region")
			return
		}
		regs := c15ExtractRegions(c, L)
		// the expected residues of EVERY region are read off the raw leaf coordinates (c15RegionView: leaf by
		// leaf, a backward leaf downwards and complemented; a position before the origin of a circular record
		// off the circle, positions mod L: Gts.C15.extract_wrap_segment_bytes) — never through Region.Locate,
		// the call `gts extract` itself makes
		var want []string
		for _, x := range regs {
			D, _ := c15RegionView(x, L)
			w := make([]byte, len(D))
			for k, p := range D {
				if p.x < 0 || p.x >= L {
					// not an in-range locator (the generators do not send one): nothing is stated
					r.count("guarded/extract-leaf-outside-the-record")
					return
				}
				w[k] = in[p.x]
				if p.rev {
					w[k] = c15CompByte(in[p.x])
				}
			}
			want = append(want, string(w))
		}
		var got []string
		for _, o := range outs {
			got = append(got, string(o.Bytes()))
		}
		if c.wrap {
			r.count("extract-circular/cases")
			for i, x := range regs {
				kinds := map[string]bool{}
				for _, s := range c15Leaves(x) {
					kinds[c15LeafKind(s, L)] = true
				}
				for k := range kinds {
					r.count("extract-circular/region-with-a-leaf/" + k)
				}
				if len(c15Leaves(x)) > 1 && (kinds["wrap"] || kinds["shifted"]) {
					r.count("extract-circular/composite-region-with-a-leaf-before-the-origin")
				}
				if i < len(want) && i < len(got) && len(got) == len(want) && got[i] != want[i] && (kinds["wrap"] || kinds["shifted"]) {
					fail("extract on a circular record: a region that reaches before the origin is read off the circle (positions mod L; backward leaves reverse-complemented)",
						got[i], want[i], "")
					return
				}
			}
		}
		if !reflect.DeepEqual(got, want) {
			fail("extract emits, in order and without duplicates, every located region shorter than the record (with -v the maximal unlocated stretches)",
				strings.Join(got, "|"), strings.Join(want, "|"), "")
		} else if !c.fasta {
			// the feature clause, decided from the denotation (props_c15_feat.go)
			c15ExtractFeatures(r, c, line, regs, outs)
		}
	}
}

func c15BytesOf(ss []gts.Sequence) string {
	out := make([]string, len(ss))
	for i, s := range ss {
		out[i] = string(s.Bytes())
	}
	return strings.Join(out, "|")
}

// c15Cuts: the distinct located cut positions, ascending
func c15Cuts(rr gts.Regions) []int {
	seen := map[int]bool{}
	var cuts []int
	for _, x := range rr {
		cut := c15Head(x)
		if t := c15Tail(x); t < cut {
			cut = t
		}
		if !seen[cut] {
			seen[cut] = true
			cuts = append(cuts, cut)
		}
	}
	sort.Ints(cuts)
	return cuts
}

func c15SplitCount(rr gts.Regions, L int, circ bool) int {
	cuts := c15Cuts(rr)
	switch {
	case len(rr) == 0:
		return 1
	case circ:
		return len(cuts)
	}
	return len(cuts) + 1
}

// c15SplitHasEmptyPiece: some piece comes from an empty slice
func c15SplitHasEmptyPiece(rr gts.Regions, L int, circ bool) bool {
	cuts := c15Cuts(rr)
	switch {
	case len(rr) == 0:
		return false
	case circ:
		// one region or one distinct cut: rotated; else last..first across the origin, then the consecutive ones
		return len(cuts) > 1 && cuts[0] == 0 && cuts[len(cuts)-1] == L
	}
	return cuts[0] == 0 || cuts[len(cuts)-1] == L
}

// c15ExtractRegions: the regions extract must emit, stated independently: distinct located
// regions in order of first occurrence (with -v: the maximal uncovered stretches), those as long
// as the record dropped unless there is only one.
func c15ExtractRegions(c c15Case, L int) []gts.Region {
	var all []gts.Region
	for _, l := range c.locs {
		rr, _ := c15Regions(l, c.seq)
		for _, x := range rr {
			dup := false
			for _, y := range all {
				if encReg(x) == encReg(y) {
					dup = true
				}
			}
			if !dup {
				all = append(all, x)
			}
		}
	}
	if c.flag {
		mask := c15Mask(gts.Regions(all), L)
		all = nil
		for i := 0; i < L; {
			if mask[i] {
				i++
				continue
			}
			j := i
			for j < L && !mask[j] {
				j++
			}
			all = append(all, gts.Segment{i, j})
			i = j
		}
	}
	var out []gts.Region
	for _, x := range all {
		if len(all) == 1 || c15ResLen(x) != L {
			out = append(out, x)
		}
	}
	return out
}

func c15HasZeroLengthLeaf(c c15Case) bool {
	for _, l := range c.locs {
		rr, _ := c15Regions(l, c.seq)
		for _, s := range c15Leaves(rr) {
			if s[0] == s[1] {
				return true
			}
		}
	}
	return false
}
