package main

import (
	"fmt"
	"sort"
	"strings"

	"github.com/go-gts/gts"
)

// C19 — feature selection (selectors, filter combinators, FeatureSlice.Filter) and sorted
// insertion (FeatureSlice.Insert over LocationLess).
//
// Regexp restriction (shared with lean/Gts/Model/OpsFeat.lean): generated selectors only
// contain *literal* regexps — bytes from [A-Za-z0-9 _=-], the escaped slash `\/`, or the
// single characters "(" / "[" (invalid regexps).  For those Go's regexp.MatchString is a
// substring test of the unescaped literal, which is what the model's match oracle computes.

func init() {
	props["C19"] = propC19
	extraOps["sel.shift"] = func(a []sexp) string {
		h, t := gts.VerifShiftSelector(string(decBytes(a[0])))
		return encStr(h) + " " + encStr(t)
	}
	extraOps["sel.eval"] = func(a []sexp) string {
		flt, err := gts.Selector(string(decBytes(a[0])))
		if err != nil {
			return "ERR"
		}
		return b01(flt(decFeature(a[1])))
	}
	extraOps["feat.eval"] = func(a []sexp) string {
		flt, err := c19DecFilter(a[0]).build()
		if err != nil {
			return "ERR"
		}
		return b01(flt(decFeature(a[1])))
	}
	extraOps["feat.filter"] = func(a []sexp) string {
		flt, err := c19DecFilter(a[0]).build()
		if err != nil {
			return "ERR"
		}
		var ff gts.FeatureSlice
		for _, x := range a[1:] {
			ff = append(ff, decFeature(x))
		}
		return c19EncTable(ff.Filter(flt))
	}
	extraOps["feat.less"] = func(a []sexp) string {
		ff := gts.FeatureSlice{decFeature(a[0]), decFeature(a[1])}
		return b01(ff.Less(0, 1))
	}
	extraOps["tab.insert"] = func(a []sexp) string {
		var ff gts.FeatureSlice
		for _, x := range a[0].list {
			ff = append(ff, decFeature(x))
		}
		return c19EncTable(ff.Insert(decFeature(a[1])))
	}
	extraOps["props.q"] = func(a []sexp) string {
		ps := decProps(a[0])
		n := string(decBytes(a[1]))
		g := "NIL"
		if vv := ps.Get(n); vv != nil {
			g = c19EncStrs(vv)
		}
		return fmt.Sprintf("%d %s %s %s", ps.Index(n), b01(ps.Has(n)), g, c19EncStrs(ps.Keys()))
	}
	extraOps["rng.compare"] = func(a []sexp) string {
		return itoa(gts.VerifRangeCompare(decInt(a[0]), decInt(a[1]), decInt(a[2]), decInt(a[3])))
	}
	extraOps["rng.within"] = func(a []sexp) string {
		return b01(gts.VerifRangeWithin(decInt(a[0]), decInt(a[1]), decInt(a[2]), decInt(a[3])))
	}
	extraOps["rng.overlap"] = func(a []sexp) string {
		return b01(gts.VerifRangeOverlap(decInt(a[0]), decInt(a[1]), decInt(a[2]), decInt(a[3])))
	}
}

func c19EncStrs(xs []string) string {
	out := make([]string, len(xs))
	for i, s := range xs {
		out[i] = encStr(s)
	}
	return encList(out)
}

func c19EncTable(ff gts.FeatureSlice) string {
	out := make([]string, len(ff))
	for i, f := range ff {
		out[i] = encFeature(f)
	}
	return encList(out)
}

func c19Feats(ff []gts.Feature) string {
	b := strings.Builder{}
	for _, f := range ff {
		b.WriteByte(' ')
		b.WriteString(encFeature(f))
	}
	return b.String()
}

// ---------------------------------------------------------------------------
// filter expressions

type c19Expr struct {
	op     string // true false and or not key within overlap fwd rev sel qual
	kids   []c19Expr
	s, s2  string
	lo, hi int
}

func (e c19Expr) enc() string {
	switch e.op {
	case "and", "or", "not":
		b := strings.Builder{}
		b.WriteString("(" + e.op)
		for _, k := range e.kids {
			b.WriteByte(' ')
			b.WriteString(k.enc())
		}
		b.WriteByte(')')
		return b.String()
	case "key", "sel":
		return "(" + e.op + " " + encStr(e.s) + ")"
	case "qual":
		return "(qual " + encStr(e.s) + " " + encStr(e.s2) + ")"
	case "within", "overlap":
		return fmt.Sprintf("(%s %d %d)", e.op, e.lo, e.hi)
	}
	return "(" + e.op + ")"
}

func c19DecFilter(s sexp) c19Expr {
	if !s.isL || len(s.list) == 0 {
		panic("bad filter")
	}
	a := s.list[1:]
	e := c19Expr{op: s.list[0].atom}
	switch e.op {
	case "and", "or", "not":
		for _, k := range a {
			e.kids = append(e.kids, c19DecFilter(k))
		}
	case "key", "sel":
		e.s = string(decBytes(a[0]))
	case "qual":
		e.s, e.s2 = string(decBytes(a[0])), string(decBytes(a[1]))
	case "within", "overlap":
		e.lo, e.hi = decInt(a[0]), decInt(a[1])
	}
	return e
}

// build constructs the filter with the real constructors.
func (e c19Expr) build() (gts.Filter, error) {
	switch e.op {
	case "true":
		return gts.TrueFilter, nil
	case "false":
		return gts.FalseFilter, nil
	case "and", "or":
		fs := make([]gts.Filter, len(e.kids))
		for i, k := range e.kids {
			f, err := k.build()
			if err != nil {
				return nil, err
			}
			fs[i] = f
		}
		if e.op == "and" {
			return gts.And(fs...), nil
		}
		return gts.Or(fs...), nil
	case "not":
		f, err := e.kids[0].build()
		if err != nil {
			return nil, err
		}
		return gts.Not(f), nil
	case "key":
		return gts.Key(e.s), nil
	case "within":
		return gts.Within(e.lo, e.hi), nil
	case "overlap":
		return gts.Overlap(e.lo, e.hi), nil
	case "fwd":
		return gts.ForwardStrand, nil
	case "rev":
		return gts.ReverseStrand, nil
	case "sel":
		return gts.Selector(e.s)
	case "qual":
		return gts.Qualifier(e.s, e.s2)
	}
	panic("bad filter op " + e.op)
}

// ---------------------------------------------------------------------------
// independent re-statement of the property (spec side of the oracles)

func c19LitValid(rx string) bool { return !strings.ContainsAny(rx, "([") }

// c19LitMatch: the literal reading of the restricted regexp class (no backslash here: the
// spec oracle is only applied to selectors without backslash).
func c19LitMatch(rx, v string) bool { return strings.Contains(v, rx) }

// c19PropsWf: the Props values `Props.Add` can build — every row has a name and at least one
// value, names are distinct.
func c19PropsWf(ps gts.Props) bool {
	seen := map[string]bool{}
	for _, row := range ps {
		if len(row) < 2 || seen[row[0]] {
			return false
		}
		seen[row[0]] = true
	}
	return true
}

type c19Clause struct{ name, rx string }

// c19SpecParse: the grammar `[key][/[name][=regexp]]...` — split on '/', the first segment is
// the key, every further segment a clause split at its first '='; one trailing empty segment
// (a selector ending in '/') is not a clause.
func c19SpecParse(sel string) (string, []c19Clause) {
	segs := strings.Split(sel, "/")
	key, rest := segs[0], segs[1:]
	if len(rest) > 0 && rest[len(rest)-1] == "" {
		rest = rest[:len(rest)-1]
	}
	var cs []c19Clause
	for _, seg := range rest {
		if i := strings.IndexByte(seg, '='); i >= 0 {
			cs = append(cs, c19Clause{seg[:i], seg[i+1:]})
		} else {
			cs = append(cs, c19Clause{seg, ""})
		}
	}
	return key, cs
}

// c19ClauseSat: the property's reading — an unnamed clause looks at values only (a match on a
// qualifier *name* is the repaired defect F8 and would be a violation).
func c19ClauseSat(c c19Clause, f gts.Feature) bool {
	for _, row := range f.Props {
		if len(row) == 0 {
			continue
		}
		if c.name == "" {
			for _, v := range row[1:] {
				if c19LitMatch(c.rx, v) {
					return true
				}
			}
		} else if row[0] == c.name {
			for _, v := range row[1:] {
				if c.rx == "" || c19LitMatch(c.rx, v) {
					return true
				}
			}
		}
	}
	return false
}

// c19SpecSelector: (accepts, error).
func c19SpecSelector(sel string, f gts.Feature) (bool, bool) {
	key, cs := c19SpecParse(sel)
	for _, c := range cs {
		if !c19LitValid(c.rx) {
			return false, true
		}
	}
	if key != "" && f.Key != key {
		return false, false
	}
	for _, c := range cs {
		if !c19ClauseSat(c, f) {
			return false, false
		}
	}
	return true, false
}

// --- selectors with backslashes, qualifier tables as they are (lean/Gts/Spec/SelectorEsc.lean) ---

// c19EscapedAfter restates SelSpec.escapedAfter: is a '/' standing behind the text pre escaped —
// going back over the slashes directly in front of it one meets a backslash.
func c19EscapedAfter(pre string) bool {
	i := len(pre)
	for i > 0 && pre[i-1] == '/' {
		i--
	}
	return i > 0 && pre[i-1] == '\\'
}

// c19EscSplit restates SelSpec.escSplit: the segments between the unescaped slashes, nothing removed.
func c19EscSplit(s string) []string {
	var segs []string
	start := 0
	for i := 0; i < len(s); i++ {
		if s[i] == '/' && !c19EscapedAfter(s[:i]) {
			segs = append(segs, s[start:i])
			start = i + 1
		}
	}
	return append(segs, s[start:])
}

// c19SpecSegments restates SelSpec.selectorSegments: a trailing empty segment behind the key is no part.
func c19SpecSegments(s string) []string {
	segs := c19EscSplit(s)
	if len(segs) > 1 && segs[len(segs)-1] == "" {
		segs = segs[:len(segs)-1]
	}
	return segs
}

// c19CodeSegments: the key and the parts the loop of Selector goes through, on the real shiftSelector.
func c19CodeSegments(s string) []string {
	head, tail := gts.VerifShiftSelector(s)
	segs := []string{head}
	for tail != "" {
		head, tail = gts.VerifShiftSelector(tail)
		segs = append(segs, head)
	}
	return segs
}

// c19SpecParseEsc: key and clauses of the grammar with escapes (SelSpec.keyEsc / clausesEsc).
func c19SpecParseEsc(sel string) (string, []c19Clause) {
	segs := c19SpecSegments(sel)
	var cs []c19Clause
	for _, seg := range segs[1:] {
		if i := strings.IndexByte(seg, '='); i >= 0 {
			cs = append(cs, c19Clause{seg[:i], seg[i+1:]})
		} else {
			cs = append(cs, c19Clause{seg, ""})
		}
	}
	return segs[0], cs
}

// c19LitMatchEsc: the literal reading of a restricted regexp whose only escapes are `\/` (a slash).
func c19LitMatchEsc(rx, v string) bool {
	return strings.Contains(v, strings.ReplaceAll(rx, `\/`, "/"))
}

// c19OnlySlashEscapes: every backslash of the selector is followed by a slash (the class for which
// c19LitMatchEsc is the regexp's meaning).
func c19OnlySlashEscapes(sel string) bool {
	for i := 0; i < len(sel); i++ {
		if sel[i] == '\\' && (i+1 >= len(sel) || sel[i+1] != '/') {
			return false
		}
	}
	return true
}

// c19ClauseSatRows restates SelSpec.clauseSatRows (Gts.C19.qualifier_rows_spec): what a clause tests
// on ANY qualifier table whose rows have names — unnamed: every value of every row; named with an
// empty regexp: is there a row of that name; named: the values of the FIRST row of that name.
func c19ClauseSatRows(c c19Clause, f gts.Feature, match func(rx, v string) bool) bool {
	if c.name == "" {
		for _, row := range f.Props {
			for _, v := range row[1:] {
				if match(c.rx, v) {
					return true
				}
			}
		}
		return false
	}
	for _, row := range f.Props {
		if row[0] == c.name {
			if c.rx == "" {
				return true
			}
			for _, v := range row[1:] {
				if match(c.rx, v) {
					return true
				}
			}
			return false
		}
	}
	return false
}

// c19SpecSelectorRows restates SelSpec.acceptsRows (Gts.C19.selector_rows_spec): (accepts, error).
func c19SpecSelectorRows(sel string, f gts.Feature) (bool, bool) {
	key, cs := c19SpecParseEsc(sel)
	for _, c := range cs {
		if !c19LitValid(c.rx) {
			return false, true
		}
	}
	if key != "" && f.Key != key {
		return false, false
	}
	for _, c := range cs {
		if !c19ClauseSatRows(c, f, c19LitMatchEsc) {
			return false, false
		}
	}
	return true, false
}

// c19Leaves: the contiguous leaves of a location as [start, end) spans.
func c19Leaves(l gts.Location) [][2]int {
	switch v := l.(type) {
	case gts.Between:
		return [][2]int{{int(v), int(v)}}
	case gts.Point:
		return [][2]int{{int(v), int(v) + 1}}
	case gts.Ranged:
		return [][2]int{{v.Start, v.End}}
	case gts.Ambiguous:
		return [][2]int{{v.Start, v.End}}
	case gts.Joined:
		var out [][2]int
		for _, u := range v {
			out = append(out, c19Leaves(u)...)
		}
		return out
	case gts.Ordered:
		var out [][2]int
		for _, u := range v {
			out = append(out, c19Leaves(u)...)
		}
		return out
	case gts.Complemented:
		return c19Leaves(v.Location)
	}
	panic("leaves")
}

func c19Norm(a, b int) (int, int) {
	if b < a {
		return b, a
	}
	return a, b
}

// c19SpecStrand: 1 forward, 2 reverse, 0 both (the documented reading of CheckStrand: a
// multi-part location is forward/reverse iff all of its parts are).
func c19SpecStrand(l gts.Location) int {
	switch v := l.(type) {
	case gts.Complemented:
		return 2
	case gts.Joined:
		return c19SpecStrandParts(v)
	case gts.Ordered:
		return c19SpecStrandParts(v)
	}
	return 1
}

func c19SpecStrandParts(ls []gts.Location) int {
	allF, allR := true, true
	for _, l := range ls {
		s := c19SpecStrand(l)
		if s != 1 {
			allF = false
		}
		if s != 2 {
			allR = false
		}
	}
	switch {
	case allF:
		return 1
	case allR:
		return 2
	}
	return 0
}

// spec evaluates the expression under the boolean-algebra reading: and = for all, or =
// exists (so the empty `or` is false), within = every leaf inside the bounds, overlap = some
// leaf properly meets the bounds.  err = some selector/qualifier regexp is invalid.
// usesBackslash / nonWf report that the selector clause of the oracle does not apply.
func (e c19Expr) spec(f gts.Feature) (val bool, err bool) {
	switch e.op {
	case "true":
		return true, false
	case "false":
		return false, false
	case "and", "or":
		acc := e.op == "and"
		for _, k := range e.kids {
			v, er := k.spec(f)
			if er {
				err = true
			}
			if e.op == "and" {
				acc = acc && v
			} else {
				acc = acc || v
			}
		}
		return acc, err
	case "not":
		v, er := e.kids[0].spec(f)
		return !v, er
	case "key":
		return e.s == "" || f.Key == e.s, false
	case "within":
		lo, hi := c19Norm(e.lo, e.hi)
		for _, sp := range c19Leaves(f.Loc) {
			s, t := c19Norm(sp[0], sp[1])
			if !(lo <= s && t <= hi) {
				return false, false
			}
		}
		return true, false
	case "overlap":
		lo, hi := c19Norm(e.lo, e.hi)
		for _, sp := range c19Leaves(f.Loc) {
			s, t := c19Norm(sp[0], sp[1])
			if s < hi && lo < t {
				return true, false
			}
		}
		return false, false
	case "fwd":
		return c19SpecStrand(f.Loc) == 1, false
	case "rev":
		return c19SpecStrand(f.Loc) == 2, false
	case "sel":
		return c19SpecSelector(e.s, f)
	case "qual":
		if !c19LitValid(e.s2) {
			return false, true
		}
		return c19ClauseSat(c19Clause{e.s, e.s2}, f), false
	}
	panic("spec op")
}

// specCode: the same, but with the known deviation K19B of the code (`Or()` is true).
// Used only to attribute an oracle failure to that known finding.
func (e c19Expr) specCode(f gts.Feature) bool {
	switch e.op {
	case "and":
		for _, k := range e.kids {
			if !k.specCode(f) {
				return false
			}
		}
		return true
	case "or":
		if len(e.kids) == 0 {
			return true
		}
		for _, k := range e.kids {
			if k.specCode(f) {
				return true
			}
		}
		return false
	case "not":
		return !e.kids[0].specCode(f)
	}
	v, _ := e.spec(f)
	return v
}

func (e c19Expr) walk(fn func(c19Expr)) {
	fn(e)
	for _, k := range e.kids {
		k.walk(fn)
	}
}

// inDomain: every selector of the expression is backslash-free (the spec grammar does not
// describe escapes).
func (e c19Expr) inDomain() bool {
	ok := true
	e.walk(func(x c19Expr) {
		if (x.op == "sel" || x.op == "qual") && strings.ContainsRune(x.s+x.s2, '\\') {
			ok = false
		}
	})
	return ok
}

// ---------------------------------------------------------------------------
// generators

var c19Keys = []string{"source", "gene", "CDS", "exon"}

// names with capitals too: INSDC has EC_number, PCR_primers, ncRNA_class … (seeded change W8-2: the clause name
// lower-cased before the look-up)
var c19Names = []string{"gene", "note", "product", "pseudo", "EC_number", "ncRNA_class"}
var c19Vals = []string{"a", "b", "x y", "thrL", "", "a=b", "a/b", "note", "gene", "ab"}
var c19Lits = []string{"", "a", "b", "x", "thr", "note", "gene", "a=b", "y", "zz", "ab", " "}

// c19GenProps: wf = built with Props.Add only (repeated names become multi-valued rows);
// otherwise raw rows, including repeated-name rows and rows without values.
func c19GenProps(r *rng, wf bool) gts.Props {
	ps := gts.Props{}
	n := r.intn(4)
	if wf {
		for i := 0; i < n; i++ {
			ps.Add(r.pick(c19Names), r.pick(c19Vals))
		}
		return ps
	}
	for i := 0; i < n; i++ {
		row := []string{r.pick(c19Names)}
		for k := r.intn(3); k > 0; k-- {
			row = append(row, r.pick(c19Vals))
		}
		ps = append(ps, row)
	}
	return ps
}

func c19GenFeature(r *rng, L int) gts.Feature {
	key := r.pick(c19Keys)
	var loc gts.Location
	if key == "source" && r.intn(2) == 0 {
		loc = gts.Range(0, L)
	} else {
		loc = genLoc(r, r.intn(3), L, 3, true)
	}
	return gts.Feature{Key: key, Loc: loc, Props: c19GenProps(r, r.intn(5) != 0)}
}

func c19GenTable(r *rng, L int) []gts.Feature {
	n := r.intn(9)
	ff := make([]gts.Feature, n)
	for i := range ff {
		ff[i] = c19GenFeature(r, L)
	}
	return ff
}

func c19GenSelector(r *rng, escapes bool) string {
	b := strings.Builder{}
	switch r.intn(4) {
	case 0:
	case 1:
		b.WriteString("misc")
	default:
		b.WriteString(r.pick(c19Keys))
	}
	n := r.intn(4)
	for i := 0; i < n; i++ {
		b.WriteByte('/')
		if r.intn(3) != 0 {
			b.WriteString(r.pick(c19Names))
		}
		if r.intn(4) != 0 {
			b.WriteByte('=')
			switch k := r.intn(24); {
			case k == 0:
				b.WriteString("(")
			case k == 1:
				b.WriteString("[")
			case k == 2 && escapes:
				b.WriteString(`a\/b`)
			case k == 3 && escapes:
				b.WriteString(`\/`)
			default:
				b.WriteString(r.pick(c19Lits))
			}
		}
	}
	if r.intn(5) == 0 {
		b.WriteByte('/')
	}
	return b.String()
}

func c19GenExpr(r *rng, depth, L int) c19Expr {
	k := r.intn(14)
	if depth == 0 && k < 4 {
		k += 4
	}
	bound := func() int { return r.rangeInt(-1, L+1) }
	switch k {
	case 0, 1:
		n := r.intn(4)
		e := c19Expr{op: "and"}
		for i := 0; i < n; i++ {
			e.kids = append(e.kids, c19GenExpr(r, depth-1, L))
		}
		return e
	case 2:
		n := r.intn(4)
		if n == 0 && r.intn(3) != 0 {
			n = 2 // keep the known-finding shape `Or()` present but not dominant
		}
		e := c19Expr{op: "or"}
		for i := 0; i < n; i++ {
			e.kids = append(e.kids, c19GenExpr(r, depth-1, L))
		}
		return e
	case 3:
		return c19Expr{op: "not", kids: []c19Expr{c19GenExpr(r, depth-1, L)}}
	case 4:
		return c19Expr{op: "key", s: []string{"", "gene", "source", "CDS", "misc"}[r.intn(5)]}
	case 5, 6:
		return c19Expr{op: "within", lo: bound(), hi: bound()}
	case 7, 8:
		return c19Expr{op: "overlap", lo: bound(), hi: bound()}
	case 9:
		return c19Expr{op: "fwd"}
	case 10:
		return c19Expr{op: "rev"}
	case 11:
		return c19Expr{op: "qual", s: []string{"", "note", "gene", "pseudo", "EC_number", "ec_number", "ncRNA_class"}[r.intn(7)], s2: r.pick(c19Lits)}
	case 12:
		return c19Expr{op: []string{"true", "false"}[r.intn(2)]}
	}
	return c19Expr{op: "sel", s: c19GenSelector(r, false)}
}

// ---------------------------------------------------------------------------
// cases

// c19Select: one selector on one feature — correspondence, then the selector clause.
func c19Select(r *Run, sel string, f gts.Feature) {
	line := "sel.eval " + encStr(sel) + " " + encFeature(f)
	out := r.op(line)
	if out == "PANIC" {
		r.fail(Failure{Oracle: "Selector never panics on rows that have a name", Op: line, Got: out})
		return
	}
	rowsNamed := true
	for _, row := range f.Props {
		if len(row) == 0 {
			rowsNamed = false
		}
	}
	if strings.ContainsRune(sel, '\\') || !c19PropsWf(f.Props) {
		// selectors with backslashes and raw qualifier tables (a name held by two rows, a row without
		// value): the code's own reading, proved for the model as Gts.C19.selector_rows_spec — the
		// split with escapes, a named clause through Props.Get (FIRST row of that name).  The literal
		// regexp oracle knows `\/` only; rows without a name make props[i][0] panic.
		if !c19OnlySlashEscapes(sel) || !rowsNamed {
			r.count("selector/other escapes or unnamed rows(correspondence only)")
			r.eval("sel|"+line, false)
			return
		}
		want, werr := c19SpecSelectorRows(sel, f)
		_, cs := c19SpecParseEsc(sel)
		if strings.ContainsRune(sel, '\\') {
			r.count("selector/escaped")
		} else {
			r.count("selector/raw props rows")
		}
		r.eval("sel|"+line, len(cs) > 0 || sel != "")
		ws := b01(want)
		if werr {
			ws = "ERR"
		}
		if out != ws {
			r.fail(Failure{Oracle: "selector (escapes / raw rows) accepts iff key of the escaped grammar equal (when given) and every clause satisfied row by row", Op: line, Got: out, Want: ws})
		}
		return
	}
	want, werr := c19SpecSelector(sel, f)
	_, cs := c19SpecParse(sel)
	r.count(fmt.Sprintf("selector/clauses%d", len(cs)))
	r.eval("sel|"+line, len(cs) > 0 || sel != "")
	ws := b01(want)
	if werr {
		ws = "ERR"
		r.count("selector/invalid regexp")
	}
	if out == ws {
		return
	}
	r.fail(Failure{Oracle: "selector accepts iff key equal (when given) and every clause satisfied", Op: line, Got: out, Want: ws})
}

// c19Filter: an expression on a table — FeatureSlice.Filter returns exactly the accepted
// features in order, untouched; acceptance follows the boolean-algebra reading.
func c19Filter(r *Run, e c19Expr, ff []gts.Feature) {
	line := "feat.filter " + e.enc() + c19Feats(ff)
	out := r.op(line)
	r.count("filter/" + e.op)
	if out == "PANIC" {
		r.fail(Failure{Oracle: "Filter never panics", Op: line, Got: out})
		return
	}
	flt, err := e.build()
	if err != nil {
		r.eval("flt|"+line, false)
		if _, werr := e.specAll(ff); !werr && e.inDomain() {
			r.fail(Failure{Oracle: "a filter expression errs only on an invalid regexp", Op: line, Got: out})
		}
		return
	}
	table := gts.FeatureSlice(append([]gts.Feature{}, ff...))
	before := c19EncTable(table)
	got := table.Filter(flt)
	if c19EncTable(table) != before {
		r.fail(Failure{Oracle: "Filter leaves the table untouched", Op: line, Got: c19EncTable(table), Want: before})
	}
	var want gts.FeatureSlice
	nAcc := 0
	for _, f := range ff {
		if flt(f) {
			want = append(want, f)
			nAcc++
		}
	}
	r.eval("flt|"+line, nAcc > 0 && nAcc < len(ff))
	if c19EncTable(got) != c19EncTable(want) {
		r.fail(Failure{Oracle: "Filter returns exactly the accepted features, in table order, unaltered", Op: line,
			Got: c19EncTable(got), Want: c19EncTable(want)})
	}
	// acceptance itself, feature by feature
	if !e.inDomain() {
		return
	}
	for _, f := range ff {
		if !c19PropsWf(f.Props) {
			continue
		}
		w, werr := e.spec(f)
		if werr {
			r.fail(Failure{Oracle: "an invalid regexp makes the constructor fail", Op: line, Got: out})
			return
		}
		if g := flt(f); g != w {
			el := "feat.eval " + e.enc() + " " + encFeature(f)
			r.op(el)
			fl := Failure{Oracle: "And/Or/Not/Within/Overlap/strand/selector filters combine as boolean algebra", Op: el, Got: b01(g), Want: b01(w)}
			if e.specCode(f) == g {
				fl.Finding = "K19B"
			}
			r.fail(fl)
		}
	}
}

func (e c19Expr) specAll(ff []gts.Feature) (int, bool) {
	n := 0
	err := false
	// the error of a constructor does not depend on the feature
	probe := gts.Feature{Key: "gene", Loc: gts.Point(0)}
	if _, er := e.spec(probe); er {
		err = true
	}
	for _, f := range ff {
		if v, _ := e.spec(f); v {
			n++
		}
	}
	return n, err
}

func c19Multiset(ff []gts.Feature) string {
	xs := make([]string, len(ff))
	for i, f := range ff {
		xs[i] = encFeature(f)
	}
	sort.Strings(xs)
	return strings.Join(xs, " ")
}

// c19SpanCmp: the location order where it is determined WITHOUT gts.LocationLess: two contiguous
// locations (point, between-site, range, ambiguous span; a complement is ordered like what it wraps)
// with DIFFERENT normalised spans compare like their (start, end), lexicographically (the comparison
// already stated for rng.compare).  0 = not determined here: a multi-part location, or equal spans
// (ties — the partial-marker count of the code — are unconstrained by the property).
func c19SpanCmp(a, b gts.Location) int {
	span := func(l gts.Location) (int, int, bool) {
		for {
			c, ok := l.(gts.Complemented)
			if !ok {
				break
			}
			l = c.Location
		}
		switch v := l.(type) {
		case gts.Between:
			return int(v), int(v), true
		case gts.Point:
			return int(v), int(v) + 1, true
		case gts.Ranged:
			s, e := c19Norm(v.Start, v.End)
			return s, e, true
		case gts.Ambiguous:
			s, e := c19Norm(v.Start, v.End)
			return s, e, true
		}
		return 0, 0, false
	}
	s1, e1, ok1 := span(a)
	s2, e2, ok2 := span(b)
	switch {
	case !ok1 || !ok2:
		return 0
	case s1 < s2 || (s1 == s2 && e1 < e2):
		return -1
	case s1 > s2 || e1 > e2:
		return 1
	}
	return 0
}

// c19CheckTable: sources first, the rest in non-decreasing location order (no later feature
// is LocationLess than an earlier one).  The order is not taken from gts.LocationLess alone (Insert
// itself searches with it: a defect of the comparison would move the table and its judge together):
// wherever c19SpanCmp determines it, a later feature must not lie below an earlier one by its span.
func c19CheckTable(ff []gts.Feature) string {
	i := 0
	for i < len(ff) && ff[i].Key == "source" {
		i++
	}
	rest := ff[i:]
	for _, f := range rest {
		if f.Key == "source" {
			return "a source feature after a non-source feature"
		}
	}
	for a := 0; a < len(rest); a++ {
		for b := a + 1; b < len(rest); b++ {
			if c19SpanCmp(rest[b].Loc, rest[a].Loc) < 0 {
				return fmt.Sprintf("non-source features %d and %d are out of order by their spans (start, end)", a, b)
			}
			if gts.LocationLess(rest[b].Loc, rest[a].Loc) {
				return fmt.Sprintf("non-source features %d and %d are out of order", a, b)
			}
		}
	}
	return ""
}

// c19InsertSeq: an insertion sequence into the empty table.
func c19InsertSeq(r *Run, fs []gts.Feature) {
	line := "tab.insertall" + c19Feats(fs)
	out := r.op(line)
	r.count(fmt.Sprintf("insert/seq%d", len(fs)))
	if out == "PANIC" {
		r.fail(Failure{Oracle: "Insert never panics", Op: line, Got: out})
		return
	}
	var ff gts.FeatureSlice
	nonSrc := 0
	for k, f := range fs {
		prev := append(gts.FeatureSlice{}, ff...)
		ff = ff.Insert(f)
		if f.Key != "source" {
			nonSrc++
		}
		if c19Multiset(ff) != c19Multiset(append(prev, f)) {
			r.fail(Failure{Oracle: "Insert returns the same features plus the new one", Op: line, Got: c19EncTable(ff),
				Want: fmt.Sprintf("step %d", k)})
			return
		}
		if msg := c19CheckTable(ff); msg != "" {
			r.fail(Failure{Oracle: "after Insert: source features first, all others in non-decreasing location order", Op: line,
				Got: c19EncTable(ff), Want: fmt.Sprintf("step %d: %s", k, msg)})
			return
		}
	}
	r.eval("ins|"+line, nonSrc >= 2)
}

// c19InsertInto: one Insert into an arbitrary table (correspondence; permutation oracle).
func c19InsertInto(r *Run, ff []gts.Feature, f gts.Feature) {
	line := "tab.insert (" + strings.TrimPrefix(c19Feats(ff), " ") + ") " + encFeature(f)
	out := r.op(line)
	r.count("insert/arbitrary table")
	if out == "PANIC" {
		r.fail(Failure{Oracle: "Insert never panics", Op: line, Got: out})
		return
	}
	got := gts.FeatureSlice(append([]gts.Feature{}, ff...)).Insert(f)
	r.eval("ins1|"+line, false)
	if c19Multiset(got) != c19Multiset(append(append([]gts.Feature{}, ff...), f)) {
		r.fail(Failure{Oracle: "Insert returns the same features plus the new one", Op: line, Got: c19EncTable(got)})
	}
	// the same table value (backing array with spare cells, as repeated Insert / append leave it)
	// receives a second feature: the receiver and the first result still hold their features
	base := make(gts.FeatureSlice, len(ff), len(ff)+3)
	copy(base, ff)
	first := base.Insert(f)
	w1, wb := c19EncTable(first), c19EncTable(base)
	_ = base.Insert(gts.Feature{Key: "zz_second", Loc: gts.Point(0)})
	_ = base.Insert(gts.Feature{Key: "zz_third", Loc: gts.Range(0, 1<<20)})
	r.count("insert/second insertion into the same table value")
	if c19EncTable(first) != w1 || c19EncTable(base) != wb {
		r.fail(Failure{Oracle: "Insert: the receiver and an earlier result keep their features when the same table value receives another feature (spare capacity)", Op: line,
			Got: c19EncTable(first) + " / " + c19EncTable(base), Want: w1 + " / " + wb})
	}
}

// c19Order: the order axioms on a triple.
func c19Order(r *Run, a, b, c gts.Location, ops bool) {
	less := func(x, y gts.Location) bool {
		if ops {
			return r.op("loc.less "+encLoc(x)+" "+encLoc(y)) == "1"
		}
		return gts.LocationLess(x, y)
	}
	line := "loc.less " + encLoc(a) + " " + encLoc(b) + " ; loc.less " + encLoc(b) + " " + encLoc(c) + " ; loc.less " + encLoc(a) + " " + encLoc(c)
	ab, ba, bc, cb, ac, ca := less(a, b), less(b, a), less(b, c), less(c, b), less(a, c), less(c, a)
	r.eval("ord|"+line, ab || bc || ac)
	// the anchor: on contiguous locations with different spans the order is the span order
	for _, q := range []struct {
		x, y gts.Location
		got  bool
	}{{a, b, ab}, {b, a, ba}, {b, c, bc}, {c, b, cb}, {a, c, ac}, {c, a, ca}} {
		if cmp := c19SpanCmp(q.x, q.y); cmp != 0 {
			r.count("order/anchored by the spans")
			if q.got != (cmp < 0) {
				r.fail(Failure{Oracle: "LocationLess on contiguous locations with different spans is the lexicographic comparison of their normalised (start, end)",
					Op: "loc.less " + encLoc(q.x) + " " + encLoc(q.y), Got: b01(q.got), Want: b01(cmp < 0)})
				return
			}
		}
	}
	if less(a, a) {
		r.fail(Failure{Oracle: "LocationLess is irreflexive", Op: "loc.less " + encLoc(a) + " " + encLoc(a), Got: "1", Want: "0"})
	}
	if ab && ba {
		r.fail(Failure{Oracle: "LocationLess is asymmetric", Op: line, Got: "a<b and b<a"})
	}
	if ab && bc && !ac {
		r.fail(Failure{Oracle: "LocationLess is transitive", Op: line, Got: "a<b, b<c, not a<c"})
	}
	if !ab && !ba && !bc && !cb && (ac || ca) {
		r.fail(Failure{Oracle: "incomparability under LocationLess is transitive", Op: line, Got: "a~b, b~c, a and c comparable"})
	}
}

func c19Props(r *Run, ps gts.Props, name string) {
	line := "props.q " + encProps(ps) + " " + encStr(name)
	r.op(line)
	r.count("props/query")
	idx := -1
	for i, row := range ps {
		if row[0] == name {
			idx = i
			break
		}
	}
	r.eval("props|"+line, idx >= 0)
	if ps.Index(name) != idx || ps.Has(name) != (idx >= 0) {
		r.fail(Failure{Oracle: "Props.Index/Has find the first row of that name", Op: line, Got: itoa(ps.Index(name)), Want: itoa(idx)})
	}
	g := ps.Get(name)
	if (idx < 0) != (g == nil) || (idx >= 0 && strings.Join(g, "\x00") != strings.Join(ps[idx][1:], "\x00")) {
		r.fail(Failure{Oracle: "Props.Get returns the values of the first row of that name", Op: line, Got: c19EncStrs(g)})
	}
}

// ---------------------------------------------------------------------------

func propC19(r *Run) {
	defer c19CliSelect(r)
	defer c19RegexClauses(r)
	defer c19CliSort(r)
	defer c19CliClearDefine(r)
	thorough := r.tier == "thorough"
	r.exhaustive = true

	// (1) shiftSelector: every string up to a length over { a / \ = }
	maxLen := 6
	if thorough {
		maxLen = 7
	}
	alpha := []byte(`a/\=`)
	var rec func(p []byte)
	rec = func(p []byte) {
		s := string(p)
		line := "sel.shift " + encStr(s)
		out := r.op(line)
		r.count("shift/strings")
		// every string, backslashes included: the parts Selector iterates over are the segments of the
		// declarative split with escapes (Gts.C19.selector_parts_spec), and joining the segments gives
		// the string back (selector_split_join)
		if got, want := c19CodeSegments(s), c19SpecSegments(s); strings.Join(got, "\x00") != strings.Join(want, "\x00") {
			r.fail(Failure{Oracle: "Selector's parts (iterated shiftSelector) are the segments of the split with escapes", Op: line,
				Got: fmt.Sprintf("%q", got), Want: fmt.Sprintf("%q", want)})
		}
		if strings.Join(c19EscSplit(s), "/") != s {
			r.fail(Failure{Oracle: "the segments of the split with escapes, joined by '/', are the string", Op: line, Got: fmt.Sprintf("%q", c19EscSplit(s))})
		}
		if !strings.ContainsRune(s, '\\') {
			h, t := gts.VerifShiftSelector(s)
			wh, wt := s, ""
			if i := strings.IndexByte(s, '/'); i >= 0 {
				wh, wt = s[:i], s[i+1:]
			}
			r.eval("shift|"+s, strings.Contains(s, "/"))
			if h != wh || t != wt {
				r.fail(Failure{Oracle: "shiftSelector splits at the first '/' (no backslash)", Op: line, Got: out})
			}
		}
		if len(p) == maxLen {
			return
		}
		for _, c := range alpha {
			rec(append(append([]byte{}, p...), c))
		}
	}
	rec(nil)

	// (2) selectors, exhaustive small scope: key x up to two clauses x trailing slash, on a
	// fixed set of features (incl. no qualifiers, multi-valued, value equal to a name,
	// raw rows: repeated name, row without value)
	feats := []gts.Feature{
		{Key: "gene", Loc: gts.Range(0, 3), Props: gts.Props{}},
		{Key: "gene", Loc: gts.Range(0, 3), Props: gts.Props{{"note", "a"}}},
		{Key: "gene", Loc: gts.Range(0, 3), Props: gts.Props{{"note", "b", "a"}}},
		{Key: "gene", Loc: gts.Range(0, 3), Props: gts.Props{{"gene", "note"}}},
		{Key: "gene", Loc: gts.Range(0, 3), Props: gts.Props{{"gene", "b"}, {"note", ""}}},
		{Key: "CDS", Loc: gts.Range(0, 3), Props: gts.Props{{"note", "a"}, {"gene", "a"}}},
		{Key: "CDS", Loc: gts.Range(0, 3), Props: gts.Props{{"gene", "xay"}}},
		{Key: "", Loc: gts.Range(0, 3), Props: gts.Props{{"note", "a=b"}}},
		{Key: "gene", Loc: gts.Range(0, 3), Props: gts.Props{{"note"}}},
		{Key: "gene", Loc: gts.Range(0, 3), Props: gts.Props{{"note", "b"}, {"note", "a"}}},
		{Key: "gene", Loc: gts.Range(0, 3), Props: gts.Props{{"gene"}, {"note", "a"}}},
	}
	var clauses []string
	for _, n := range []string{"", "note", "gene"} {
		for _, q := range []string{"", "=", "=a", "=note", "=a=b"} {
			clauses = append(clauses, n+q)
		}
	}
	var sels []string
	for _, k := range []string{"", "gene", "CDS"} {
		for _, tr := range []string{"", "/"} {
			sels = append(sels, k+tr)
			for _, c1 := range clauses {
				sels = append(sels, k+"/"+c1+tr)
				for _, c2 := range clauses {
					sels = append(sels, k+"/"+c1+"/"+c2+tr)
				}
			}
		}
	}
	sels = append(sels, "/note=(", "gene/note=a/=[", "gene/=(/note", `gene/note=a\/b`, `/=\/`, `gene\/x/note`)
	for _, s := range sels {
		for _, f := range feats {
			c19Select(r, s, f)
		}
	}
	r.notes = append(r.notes, fmt.Sprintf("exhaustive: sel.shift on all strings of length <= %d over %q; %d selectors (3 keys x <=2 clauses from %d forms x trailing slash) on %d fixed features", maxLen, string(alpha), len(sels), len(clauses), len(feats)))

	// (3) range predicates and bounds, exhaustive
	for a := -1; a <= 3; a++ {
		for b := -1; b <= 3; b++ {
			for c := -1; c <= 3; c++ {
				for d := -1; d <= 3; d++ {
					args := fmt.Sprintf(" %d %d %d %d", a, b, c, d)
					out := r.op("rng.compare" + args)
					r.op("rng.within" + args)
					r.op("rng.overlap" + args)
					r.count("range/quadruples")
					s1, e1 := c19Norm(a, b)
					s2, e2 := c19Norm(c, d)
					want := 0
					switch {
					case s1 < s2 || (s1 == s2 && e1 < e2):
						want = -1
					case s1 > s2 || e1 > e2:
						want = 1
					}
					r.eval("rc|"+args, want != 0)
					if out != itoa(want) {
						r.fail(Failure{Oracle: "rangeCompare is the lexicographic comparison of the normalised spans", Op: "rng.compare" + args, Got: out, Want: itoa(want)})
					}
				}
			}
		}
	}
	L := 4
	locs := append([]gts.Location{}, allContig(L, true)...)
	for _, c := range allContig(3, false) {
		locs = append(locs, gts.Complemented{Location: c})
	}
	small := allContig(2, false)
	for _, a := range small {
		for _, b := range small {
			locs = append(locs, gts.Joined{a, b}, gts.Ordered{b, gts.Complemented{Location: a}})
		}
	}
	for _, l := range locs {
		f := gts.Feature{Key: "gene", Loc: l}
		for lo := -1; lo <= L+1; lo++ {
			for hi := -1; hi <= L+1; hi++ {
				for _, opn := range []string{"within", "overlap"} {
					line := fmt.Sprintf("loc.%s %s %d %d", opn, encLoc(l), lo, hi)
					out := r.op(line)
					r.count("bounds/" + opn)
					e := c19Expr{op: opn, lo: lo, hi: hi}
					w, _ := e.spec(f)
					r.eval("b|"+line, w)
					if out != b01(w) {
						r.fail(Failure{Oracle: opn + " is decided leaf by leaf (within: all leaves, overlap: some leaf)", Op: line, Got: out, Want: b01(w)})
					}
				}
			}
		}
	}

	// (3b) strand filters: three outcomes (forward / reverse / both), every combinator over the
	// two predicates, on single-strand, mixed-strand and nested locations
	strandLocs := append([]gts.Location{}, locs...)
	for _, a := range small {
		for _, b := range small {
			ca, cb := gts.Complemented{Location: a}, gts.Complemented{Location: b}
			strandLocs = append(strandLocs, gts.Joined{ca, b}, gts.Joined{a, cb}, gts.Joined{ca, cb}, gts.Ordered{ca, b},
				gts.Complemented{Location: gts.Joined{ca, b}}, gts.Joined{gts.Ordered{a, cb}, b}, gts.Joined{gts.Joined{ca, cb}, cb},
				gts.Complemented{Location: gts.Complemented{Location: a}})
		}
	}
	for k := 0; k < 300; k++ {
		strandLocs = append(strandLocs, genLoc(r.rng, 3, 8, 4, true))
	}
	fwd, rev := c19Expr{op: "fwd"}, c19Expr{op: "rev"}
	strandExprs := []c19Expr{fwd, rev, {op: "not", kids: []c19Expr{fwd}}, {op: "not", kids: []c19Expr{rev}},
		{op: "or", kids: []c19Expr{fwd, rev}}, {op: "and", kids: []c19Expr{fwd, rev}},
		{op: "and", kids: []c19Expr{{op: "not", kids: []c19Expr{fwd}}, {op: "not", kids: []c19Expr{rev}}}}}
	for _, l := range strandLocs {
		f := gts.Feature{Key: "gene", Loc: l}
		r.count(fmt.Sprintf("strand/spec=%d", c19SpecStrand(l)))
		for _, e := range strandExprs {
			c19Filter(r, e, []gts.Feature{f})
		}
	}

	// (4) order axioms, exhaustive over a fixed set with equal spans, partial markers,
	// multi-leaf and complemented locations
	ordSet := []gts.Location{
		gts.Between(1), gts.Point(1), gts.Range(1, 2), gts.Range(1, 3), gts.Range(0, 3),
		gts.PartialRange(1, 3, gts.Partial5), gts.PartialRange(1, 3, gts.Partial3), gts.PartialRange(1, 3, gts.PartialBoth),
		gts.Ambiguous{Start: 1, End: 3}, gts.Complemented{Location: gts.Range(1, 3)},
		gts.Joined{gts.Range(1, 3), gts.Range(0, 1)}, gts.Joined{gts.Range(0, 1), gts.Range(2, 3)},
		gts.Ordered{gts.Point(2), gts.Point(1)}, gts.Joined{gts.Complemented{Location: gts.Range(2, 3)}, gts.Between(1)},
		gts.Complemented{Location: gts.Joined{gts.Range(2, 4), gts.Range(1, 3)}},
		// a complement(join(…)) / complement(order(…)) MEMBER inside a list: Join does not flatten it and the
		// parser builds it (seeded W39-2: a LocationLess that flattened its operands once never opened it)
		gts.Joined{gts.Complemented{Location: gts.Joined{gts.Range(0, 1), gts.Range(2, 3)}}, gts.Range(4, 6)},
		gts.Ordered{gts.Range(3, 4), gts.Complemented{Location: gts.Ordered{gts.Point(0), gts.Point(2)}}},
	}
	for _, a := range ordSet {
		for _, b := range ordSet {
			r.op("loc.less " + encLoc(a) + " " + encLoc(b))
			fa, fb := gts.Feature{Key: "gene", Loc: a}, gts.Feature{Key: "source", Loc: b}
			for _, p := range [][2]gts.Feature{{fa, fb}, {fb, fa}, {fa, {Key: "gene", Loc: b}}, {{Key: "source", Loc: a}, fb}} {
				line := "feat.less " + encFeature(p[0]) + " " + encFeature(p[1])
				out := r.op(line)
				want := gts.LocationLess(p[0].Loc, p[1].Loc)
				if cmp := c19SpanCmp(p[0].Loc, p[1].Loc); cmp != 0 {
					want = cmp < 0 // determined by the spans: not taken from LocationLess
				}
				if (p[0].Key == "source") != (p[1].Key == "source") {
					want = p[0].Key == "source"
				}
				if out != b01(want) {
					r.fail(Failure{Oracle: "FeatureSlice.Less: source first, otherwise the location order", Op: line, Got: out, Want: b01(want)})
				}
			}
			for _, c := range ordSet {
				c19Order(r, a, b, c, false)
				r.count("order/triples(exhaustive)")
			}
		}
	}
	r.notes = append(r.notes, fmt.Sprintf("exhaustive: rangeCompare/Within/Overlap on [-1,3]^4; Within/Overlap for %d locations x all bounds in [-1,%d]^2; order axioms on all triples of %d fixed locations", len(locs), L+1, len(ordSet)))

	// (5) insertion sequences, exhaustive: all sequences of length <= 3 (thorough: 4) over a
	// fixed feature set
	insSet := []gts.Feature{
		{Key: "source", Loc: gts.Range(0, 9)}, {Key: "source", Loc: gts.Range(2, 4), Props: gts.Props{{"note", "a"}}},
		{Key: "gene", Loc: gts.Range(1, 3)}, {Key: "CDS", Loc: gts.Range(1, 3)}, {Key: "gene", Loc: gts.PartialRange(1, 3, gts.Partial5)},
		{Key: "exon", Loc: gts.Joined{gts.Range(4, 6), gts.Range(0, 2)}}, {Key: "gene", Loc: gts.Complemented{Location: gts.Range(0, 2)}},
		{Key: "gene", Loc: gts.Point(5)},
	}
	maxSeq := 3
	if thorough {
		maxSeq = 4
	}
	var recI func(fs []gts.Feature)
	recI = func(fs []gts.Feature) {
		c19InsertSeq(r, fs)
		if len(fs) == maxSeq {
			return
		}
		for _, f := range insSet {
			recI(append(append([]gts.Feature{}, fs...), f))
		}
	}
	recI(nil)
	r.notes = append(r.notes, fmt.Sprintf("exhaustive: all insertion sequences of length <= %d over %d fixed features", maxSeq, len(insSet)))

	// (6) seeded random
	n := 3000
	if thorough {
		n = 40000
	}
	for t := 0; t < n; t++ {
		LL := r.rangeL()
		ff := c19GenTable(r.rng, LL)
		// selectors
		sel := c19GenSelector(r.rng, t%4 == 0)
		for _, f := range ff {
			c19Select(r, sel, f)
		}
		if t < 4 {
			r.sample("sel.eval " + encStr(sel))
		}
		// filter expressions
		e := c19GenExpr(r.rng, 3, LL)
		c19Filter(r, e, ff)
		if t%3 == 0 {
			c19Filter(r, c19Expr{op: "sel", s: c19GenSelector(r.rng, false)}, ff)
		}
		// insertion sequences and single insertions into arbitrary tables
		c19InsertSeq(r, ff)
		if t%4 == 0 {
			c19InsertInto(r, ff, c19GenFeature(r.rng, LL))
		}
		// order axioms
		a, b, c := genLoc(r.rng, 2, LL, 3, true), genLoc(r.rng, 2, LL, 3, true), genLoc(r.rng, 2, LL, 3, true)
		c19Order(r, a, b, c, true)
		r.count("order/triples(random)")
		// props
		if t%5 == 0 {
			c19Props(r, c19GenProps(r.rng, r.rng.bool()), r.rng.pick(c19Names))
		}
		// shiftSelector on random escaped strings
		if t%5 == 1 {
			s := c19GenSelector(r.rng, true)
			k := r.rng.intn(len(s) + 1)
			s = s[:k] + `\` + s[k:]
			r.op("sel.shift " + encStr(s))
			r.count("shift/random escaped")
		}
	}
}
