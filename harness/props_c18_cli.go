package main

// C18 at the CLI step: the real binary `gts search` against the documented composition, computed with the
// library functions this check (Search / Match) and C19 (FeatureSlice.Insert) verify on their own:
//   per query, in order: one feature (-k key, -q qualifiers) `head+1..tail` per segment of Match (-e: Search)
//   on the record; unless --no-complement one feature `complement(len-tail+1..len-head)` per segment on the
//   reverse complement of the residues; each inserted in turn.
// Oracle only.  What the command could get wrong that no library check sees: the wrong matcher for -e, the
// strand or the coordinates of the reverse hits, a dropped option, hits of later queries lost.

import (
	"fmt"
	"strings"

	"github.com/go-gts/gts"
)

func c18CliSearch(r *Run) {
	n := 60
	if r.tier == "thorough" {
		n = 500
	}
	done := 0
	for t := 0; t < 20*n && done < n; t++ {
		L := 10 + r.rng.intn(30)
		tab := c19GenTable(r.rng, L)
		if k := r.rng.intn(3); k < len(tab) {
			tab = tab[:k]
		}
		seq := cliRecord(r.rng, tab, L, "acgt")
		if seq == nil {
			continue
		}
		// one or two queries: literal (one) or a FASTA file (one or two records)
		nq := 1 + r.rng.intn(2)
		var queries []gts.Sequence
		for i := 0; i < nq; i++ {
			w := 1 + r.rng.intn(3)
			var q []byte
			if r.rng.intn(2) == 0 && L > w { // planted: a window of the record or of its reverse complement
				s := r.rng.intn(L - w)
				src := seq.Bytes()
				if r.rng.intn(2) == 0 {
					src = gts.Reverse(gts.Complement(gts.New(nil, nil, seq.Bytes()))).Bytes()
				}
				q = append(q, src[s:s+w]...)
			} else {
				for j := 0; j < w; j++ {
					q = append(q, "acgtnry"[r.rng.intn(7)])
				}
			}
			if r.rng.intn(3) == 0 {
				q = []byte(strings.ToUpper(string(q)))
			}
			queries = append(queries, gts.New(nil, nil, q))
		}
		exact := r.rng.intn(2) == 0
		nocomp := r.rng.intn(3) == 0
		key := "misc_feature"
		props := gts.Props{}
		args := []string{"search", "--no-cache"}
		if exact {
			args = append(args, []string{"-e", "--exact"}[r.rng.intn(2)])
		}
		if nocomp {
			args = append(args, "--no-complement")
		}
		if r.rng.intn(2) == 0 {
			key = []string{"primer_bind", "misc_binding"}[r.rng.intn(2)]
			args = append(args, "-k", key)
		}
		if r.rng.intn(2) == 0 {
			args = append(args, "-q", "note=hit")
			props.Add("note", "hit")
			if r.rng.intn(2) == 0 {
				args = append(args, "-q", "label=a=b")
				props.Add("label", "a=b")
			}
		}
		files := map[string][]byte{}
		if len(queries) == 1 && r.rng.intn(2) == 0 {
			args = append(args, "@"+string(queries[0].Bytes()))
		} else {
			var text []byte
			for _, q := range queries {
				text = append(text, c15Fasta(q)...)
			}
			files["q.fa"] = text
			args = append(args, "@FILE:q.fa")
		}
		// the documented composition
		match := gts.Match
		if exact {
			match = gts.Search
		}
		ff := gts.FeatureSlice(append([]gts.Feature{}, seq.Features()...))
		cmp := gts.Reverse(gts.Complement(gts.New(nil, nil, seq.Bytes())))
		nf, nb := 0, 0
		for _, q := range queries {
			for _, sg := range match(seq, q) {
				ff = ff.Insert(gts.NewFeature(key, gts.Range(sg[0], sg[1]), props))
				nf++
			}
			if !nocomp {
				for _, sg := range match(cmp, q) {
					loc := gts.Range(L-sg[1], L-sg[0])
					ff = ff.Insert(gts.NewFeature(key, gts.Complemented{Location: loc}, props))
					nb++
				}
			}
		}
		done++
		r.count(fmt.Sprintf("cli-search/exact=%v,nocomplement=%v,fwd-hits=%s,rev-hits=%s", exact, nocomp, c18Bucket(nf), c18Bucket(nb)))
		qs := make([]string, len(queries))
		for i, q := range queries {
			qs[i] = string(q.Bytes())
		}
		line := fmt.Sprintf("cli.search %s (queries %s) | %s", strings.Join(args[2:len(args)-1], " "), strings.Join(qs, ","), encSeq(seq))
		cliOneRecord(r, "search", "gts search adds one feature per hit of Match (-e: Search) on the record and — unless --no-complement — one complement(...) feature per hit on the reverse complement, mapped back; key and qualifiers from -k / -q",
			args, files, seq, gts.New(nil, ff, seq.Bytes()), line)
	}
	r.notes = append(r.notes, fmt.Sprintf("gts search on the real binary: %d runs, literal and FASTA-file queries (1..2, planted and random, upper and lower case, IUPAC letters), -e, --no-complement, -k, -q", done))
}

func c18Bucket(n int) string {
	switch {
	case n == 0:
		return "0"
	case n == 1:
		return "1"
	}
	return "2+"
}
