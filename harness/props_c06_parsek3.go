//go:build verif

package main

// C06, audit S7: the EVALUATION-level guard of the string oracle "print is a fixed point of
// parse-then-print".  Known finding K3 (Join is not idempotent) is decided on the PARSED PARTS of every
// `join(...)` of the text — does the K3 shape (joinK3, props_c06_canon.go = Loc.joinK3) arise while
// Join pushes them in order? — not on the shape of the result:
//
//	k3.parse x<text>  →  <bit> <location> x<rest> | ERR        (model: Gts/Spec/ParseK3.lean, parseLocationK3)
//
// The real parser has no hook in front of its Join calls, so this side takes the text apart itself
// (rawLoc: the wrappers `join(` `order(` `complement(`, the `,` + blanks delimiter; every other piece is
// parsed by the real ParseLocation) and VALIDATES the reading: re-building the tree with the real
// Join / Order / Complement must give exactly what the real parser returned for the text, with the same
// rest.  A text whose reading does not validate (the parser's own quirks: alternatives tried from
// wherever a failed one left the state) is not sent, and a failure on it stays unexplained = a violation.
// The location in the answer ties the model's flagged copy of the parser to the real one on every line.

import (
	"bytes"
	"fmt"

	"github.com/go-gts/gts"
)

func init() {
	extraOps["k3.parse"] = func(a []sexp) string {
		s := decBytes(a[0])
		l, rest, err := parseLocRest(s)
		if err != nil {
			return "ERR"
		}
		hit, ok := c06ParseK3(s)
		if !ok {
			return "UNDECIDED " + encLoc(l) + " " + encBytes(rest)
		}
		return bit(hit) + " " + encLoc(l) + " " + encBytes(rest)
	}
}

type rawLoc struct {
	kind  byte // 'J', 'O', 'C', or 0 = a piece parsed by the real parser
	parts []*rawLoc
	leaf  gts.Location
}

// c06Raw reads one location at s[pos:]; returns the node and the position behind it.
func c06Raw(s []byte, pos, depth int) (*rawLoc, int, bool) {
	if depth > 64 {
		return nil, 0, false
	}
	if n, end, ok := c06RawWrapper(s, pos, depth); ok {
		return n, end, true
	}
	// no wrapper here, or a wrapper that does not close: the real parser decides.  (It may still accept —
	// `join(1,)` is read as the point 1 with rest `,)`: a failed alternative leaves the state where it
	// stopped — and then a LEAF parser produced the value: no Join on the successful path.)
	l, rest, err := parseLocRest(s[pos:])
	if err != nil {
		return nil, 0, false
	}
	switch l.(type) {
	case gts.Joined, gts.Ordered, gts.Complemented:
		return nil, 0, false // a wrapper reached through a quirk of the parser: not this reading
	}
	return &rawLoc{leaf: l}, len(s) - len(rest), true
}

// c06RawWrapper: a well-formed `join(…)` / `order(…)` / `complement(…)` at s[pos:].
func c06RawWrapper(s []byte, pos, depth int) (*rawLoc, int, bool) {
	for _, w := range []struct {
		kw   string
		kind byte
	}{{"join(", 'J'}, {"order(", 'O'}, {"complement(", 'C'}} {
		if !bytes.HasPrefix(s[pos:], []byte(w.kw)) {
			continue
		}
		p := pos + len(w.kw)
		n := &rawLoc{kind: w.kind}
		for {
			c, q, ok := c06Raw(s, p, depth+1)
			if !ok {
				return nil, 0, false
			}
			n.parts = append(n.parts, c)
			p = q
			if w.kind != 'C' && p < len(s) && s[p] == ',' {
				p++
				for p < len(s) && (s[p] == ' ' || s[p] == '\t' || s[p] == '\n' || s[p] == '\r' || s[p] == '\v' || s[p] == '\f') {
					p++
				}
				continue
			}
			break
		}
		if p >= len(s) || s[p] != ')' {
			return nil, 0, false
		}
		return n, p + 1, true
	}
	return nil, 0, false
}

// value re-builds the node with the real constructors; hit collects joinK3 over every join's parts,
// joins the argument list of every Join call of the reading.
func (n *rawLoc) value(hit *bool, joins *[][]gts.Location) gts.Location {
	if n.kind == 0 {
		return n.leaf
	}
	vs := make([]gts.Location, len(n.parts))
	for i, c := range n.parts {
		vs[i] = c.value(hit, joins)
	}
	switch n.kind {
	case 'J':
		if joinK3(vs) {
			*hit = true
		}
		*joins = append(*joins, vs)
		return gts.Join(vs...)
	case 'O':
		return gts.Order(vs...)
	}
	return vs[0].Complement()
}

// c06ParseK3: the parse-level K3 guard of an accepted text; ok = the reading validated.
func c06ParseK3(s []byte) (hit, ok bool) {
	hit, _, ok = c06ParseJoins(s)
	return
}

// c06ParseJoins: the same, with the argument lists (parsed parts) of every join( of the text.
func c06ParseJoins(s []byte) (hit bool, joins [][]gts.Location, ok bool) {
	defer func() {
		if recover() != nil {
			hit, joins, ok = false, nil, false
		}
	}()
	l, rest, err := parseLocRest(s)
	if err != nil {
		return false, nil, false
	}
	n, end, good := c06Raw(s, 0, 0)
	if !good || end != len(s)-len(rest) {
		return false, nil, false
	}
	v := n.value(&hit, &joins)
	if encLoc(v) != encLoc(l) {
		return false, nil, false
	}
	return hit, joins, true
}

// c06NonWf: some Ranged / Ambiguous in l has End <= Start (an inverted or empty span: text `5..4`).
func c06NonWf(l gts.Location) bool {
	switch v := l.(type) {
	case gts.Ranged:
		return v.End <= v.Start
	case gts.Ambiguous:
		return v.End <= v.Start
	case gts.Joined:
		for _, u := range v {
			if c06NonWf(u) {
				return true
			}
		}
	case gts.Ordered:
		for _, u := range v {
			if c06NonWf(u) {
				return true
			}
		}
	case gts.Complemented:
		return c06NonWf(v.Location)
	}
	return false
}

// c06ParsedJoins: every join( of an accepted text keeps the residues its parsed parts denote
// (Gts.C06.join_den_partial needs wfList: an inverted span `a..b`, b < a, is ACCEPTED by the parser and a
// point in front of it is absorbed into the empty range — known finding K6A, join_den_nonwf_refuted).
func c06ParsedJoins(r *Run, line string, joins [][]gts.Location) {
	for _, vs := range joins {
		args := ""
		var want []pos
		nonwf := false
		for _, p := range vs {
			args += " " + encLoc(p)
			want = append(want, den(p)...)
			nonwf = nonwf || c06NonWf(p)
		}
		got := gts.Join(vs...)
		g := den(got)
		r.count("string/join-parts")
		if nonwf {
			r.count("string/join-parts-nonwf")
		}
		if refines(g, want) {
			continue
		}
		f := Failure{Oracle: "a join( of an accepted text keeps the set and order of the residues its parsed parts denote", Op: line,
			Got: encLoc(got) + " den=" + denStr(g), Want: denStr(want)}
		if nonwf {
			f.Finding = "K6A"
		} else {
			f.Guard = "k2.join" + args
		}
		r.fail(f)
	}
}

// c06InvertedScope: joins whose parts include inverted / empty ranges `a..b` with b <= a - 1, every small case.
func c06InvertedScope(r *Run) {
	n := 0
	for a := 1; a <= 4; a++ {
		for b := 1; b <= 4; b++ {
			rg := fmt.Sprintf("%d..%d", a, b)
			for p := 1; p <= 4; p++ {
				for _, t := range []string{
					fmt.Sprintf("join(%d,%s)", p, rg), fmt.Sprintf("join(%s,%d)", rg, p),
					fmt.Sprintf("join(%d^%d,%s)", p, p+1, rg), fmt.Sprintf("join(%s,%d^%d)", rg, p, p+1),
					fmt.Sprintf("join(%d..%d,%s)", p, p+1, rg), fmt.Sprintf("join(%s,%d..%d)", rg, p, p+1),
					fmt.Sprintf("join(%d.%d,%d)", a, b, p), fmt.Sprintf("join(%d,%d.%d)", p, a, b),
					fmt.Sprintf("complement(join(%d,%s))", p, rg), fmt.Sprintf("join(9,order(join(%d,%s),7))", p, rg),
				} {
					c06String(r, []byte(t))
					n++
				}
			}
		}
	}
	r.notes = append(r.notes, fmt.Sprintf("inverted spans inside joins: %d texts join(p,a..b) / join(a..b,p) / with sites, ranges, ambiguous spans, nested; a, b, p in 1..4", n))
}
