package main

import (
	"bytes"
	"fmt"
	"os"
	"path/filepath"
	"strings"

	"github.com/go-gts/gts"
	"github.com/go-gts/gts/seqio"
)

// C17 — auto-detection with the REAL GenBank reader, streams that change format, the CLI path
// `gts <cmd> -F fasta`.
//
// Protocol ops:
//   auto.scan REG x<text>   seqio.NewAutoScanner over a bytes.Reader, to the end, with the qualifier
//                           registry set to REG: every record with its contents
//                           `(fa x<desc> x<data>)` | `(gb <record as in gb.read>)`, the names registered
//                           after the last record returned, OK|ERR (Err() == nil)       [both sides]
//   scan.auto x<text>       (props_c07.go) verdict and kind:length per record            [both sides now:
//                           lean/Gts/Model/OpsAuto.lean answers it with the default registry]
//   cli.fasta x<cmd> x<flag> x<input> [1]   the real binary `gts <cmd> --no-cache [-o out.gb] <flag> fasta < input` (no option when <flag> is empty):
//                           `status x<stdout>`                                          [implementation only]
//
// Oracles on the real code (lean/Gts/Props/C17.lean states them for the model):
//   * the records of one scan are all of one kind (scan_auto_sticks_to_first_format);
//   * GenBank records, then FASTA records: exactly the GenBank records, then an error
//     (scan_genbank_then_fasta, gb_scan_stops_at_fasta);
//   * FASTA records, then a GenBank text without '>': the FASTA records, the text (line breaks
//     removed) appended to the residues of the last one, no error (scan_fasta_then_genbank);
//   * `gts <cmd> -F fasta` writes, for every input record, `Fasta{description, residues}` with the
//     description / residues law of the property (GenBank input: `version definition`, line feeds as
//     blanks; FASTA input: the description) — the residues transformed by the command.

func init() {
	extraOps["auto.scan"] = func(a []sexp) (out string) {
		withRegistry(decRegistry(a[0]), func() { out = c17AutoScan(decBytes(a[1])).enc() })
		return
	}
	extraOps["cli.fasta"] = func(a []sexp) string {
		d := newCliDir()
		defer d.close()
		var args []string
		if len(a) > 3 && decInt(a[3]) == 1 {
			args = []string{"-o", "@OUT:out.gb"}
		}
		if flag := string(decBytes(a[1])); flag != "" {
			args = append(args, flag, "fasta")
		}
		res := d.run(cliRun{cmd: string(decBytes(a[0])), args: args, primary: inHex(decBytes(a[2]))}, true)
		return fmt.Sprintf("%d %s", res.status, encBytes(res.out))
	}
}

type c17AutoRec struct {
	gb   bool
	desc string
	data []byte
	enc  string // record encoding of gb.read
}

type c17AutoResult struct {
	recs  []c17AutoRec
	reg   registry
	clean bool
	other bool // a value that is neither seqio.Fasta nor seqio.GenBank
}

// c17AutoScan: the caller holds the registry.
func c17AutoScan(text []byte) c17AutoResult {
	res := c17AutoResult{reg: currentExtra()}
	sc := seqio.NewAutoScanner(bytes.NewReader(text))
	for sc.Scan() {
		switch v := sc.Value().(type) {
		case seqio.Fasta:
			res.recs = append(res.recs, c17AutoRec{desc: v.Desc, data: append([]byte(nil), v.Data...)})
		case seqio.GenBank:
			res.recs = append(res.recs, c17AutoRec{gb: true, enc: encRecord(v), data: originBytesOrNil(v.Origin)})
		default:
			res.other = true
		}
		res.reg = currentExtra()
		if len(res.recs) > len(text)+2 {
			panic("the scanner keeps returning records without consuming input")
		}
	}
	res.clean = sc.Err() == nil
	return res
}

func (x c17AutoRec) String() string {
	if x.gb {
		return "(gb " + x.enc + ")"
	}
	return "(fa " + encStr(x.desc) + " " + encBytes(x.data) + ")"
}

func (x c17AutoResult) enc() string {
	if x.other {
		return "UNMODELLED"
	}
	xs := make([]string, len(x.recs))
	for i, r := range x.recs {
		xs[i] = r.String()
	}
	return encList(xs) + " " + encRegistry(x.reg) + " " + okErr(x.clean)
}

func c17SameAuto(a, b []c17AutoRec) bool {
	if len(a) != len(b) {
		return false
	}
	for i := range a {
		if a[i].String() != b[i].String() {
			return false
		}
	}
	return true
}

func c17ShowAuto(recs []c17AutoRec, reg registry, clean bool) string {
	return c17AutoResult{recs: recs, reg: reg, clean: clean}.enc()
}

// c17FastaBody: what FastaParser makes of a body (split at \n, one trailing \r trimmed per piece)
func c17FastaBody(p []byte) []byte {
	var out []byte
	for _, l := range bytes.Split(p, []byte("\n")) {
		out = append(out, bytes.TrimSuffix(l, []byte("\r"))...)
	}
	return out
}

const c17MiniGenBank = "LOCUS       X                  0 bp    DNA     linear   UNA 01-JAN-2000\n//\n"

type c17GbSource struct {
	name string
	text []byte
	reg  registry
}

// c17GbSources: GenBank texts the reader accepts — the minimal record, the corpus files, generated
// records of the writable domain of C01 (written under the registry they extend).
func c17GbSources(r *Run, nGen int) []c17GbSource {
	out := []c17GbSource{{"minimal", []byte(c17MiniGenBank), registry{}},
		{"minimal x2", []byte(c17MiniGenBank + c17MiniGenBank), registry{}}}
	files, _ := filepath.Glob(filepath.Join(repoDir(), "seqio", "testdata", "*"))
	for _, fn := range files {
		if strings.HasSuffix(fn, ".fasta") {
			continue
		}
		if p, err := os.ReadFile(fn); err == nil && bytes.HasPrefix(p, []byte("LOCUS")) {
			out = append(out, c17GbSource{"corpus/" + filepath.Base(fn), p, registry{}})
		}
	}
	for i := 0; i < nGen; i++ {
		reg := registry{}
		var text string
		n := r.rng.rangeInt(1, 2)
		ok := true
		for k := 0; k < n; k++ {
			c := genCaseReg(r.rng, false, &reg)
			withRegistry(reg, func() {
				s, pn := safeString(c.gb)
				if pn {
					ok = false
				}
				text += s
			})
		}
		if ok {
			out = append(out, c17GbSource{"generated", []byte(text), reg})
		}
	}
	return out
}

func c17FastaStream(r *Run, n int) ([]byte, []c17Rec) {
	var text []byte
	recs := make([]c17Rec, n)
	for i := range recs {
		l := r.rng.intn(150)
		if r.rng.intn(5) == 0 {
			l = 70 * r.rng.intn(3)
		}
		recs[i] = c17Rec{c17GenDesc(r.rng), c17GenResidues(r.rng, l)}
		text = append(text, c17Write(recs[i].desc, recs[i].data)...)
	}
	return text, recs
}

// c17AutoOp sends `auto.scan` to both sides and returns the implementation's scan.
func c17AutoOp(r *Run, reg registry, text []byte) (c17AutoResult, string, string) {
	line := "auto.scan " + encRegistry(reg) + " " + encBytes(text)
	out := r.op(line)
	var res c17AutoResult
	withRegistry(reg, func() { res = c17AutoScan(text) })
	if res.enc() != out {
		r.fail(Failure{Oracle: "auto.scan is deterministic", Op: line, Got: out, Want: res.enc()})
	}
	return res, line, out
}

func c17Homogeneous(r *Run, res c17AutoResult, line, out string) {
	for _, x := range res.recs {
		if x.gb != res.recs[0].gb {
			r.fail(Failure{Oracle: "the auto scanner chooses its parser once: every record of a scan has the kind of the first", Op: line, Got: out})
			return
		}
	}
}

func c17Mixed(r *Run) {
	nGen, nMix := 12, 3
	if r.tier == "thorough" {
		nGen, nMix = 60, 8
	}
	empty := registry{}
	// fixed texts: both sides, both ops
	for _, t := range []string{"", ">", ">a\nAC\n", "x", "LOCU", "LOCUS", "LOCUS ", "xLOCUS", c17MiniGenBank, c17MiniGenBank + ">a\nAC\n",
		">a\nAC\n" + c17MiniGenBank, c17MiniGenBank + c17MiniGenBank, c17MiniGenBank + "\n", c17MiniGenBank + "x",
		c17MiniGenBank[:len(c17MiniGenBank)-3], c17MiniGenBank + "LOCUS", ">a\nAC\n>LOCUS\n",
		// a LOCUS line GenBankParser gives up behind (it has cleared the saved positions by then), then FASTA
		"LOCUS       X                  0 bp    XNA     linear   UNA 01-JAN-2000\n>a\nAC\n",
		"LOCUS       X                  0 bp    DNA     twisted  UNA 01-JAN-2000\n>a\nAC\n",
		"LOCUS       X                 -1 bp    DNA     linear   UNA 01-JAN-2000\n>a\nAC\n",
		"LOCUS       X                  0 bp    DNA     linear   UNA 01-JAN-2000\n>a\nAC\n",
		"LOCUS       X                  0 bp    DNA     linear   UNA 31-FEB-2000\n>a\nAC\n",
		"LOCUS       X                  0 bp    XNA     linear   UNA 01-JAN-2000\r\n>a\r\nAC\r\n",
		"LOCUS       X                  0 bp    XNA     linear   UNA 01-JAN-2000\nAC\n"} {
		res, line, out := c17AutoOp(r, empty, []byte(t))
		if len(res.recs) > 0 {
			c17Homogeneous(r, res, line, out)
		}
		setRegistry(registry{})
		r.op("scan.auto " + encStr(t))
		r.count("auto/fixed text")
	}

	srcs := c17GbSources(r, nGen)
	for _, g := range srcs {
		base, _, bout := c17AutoOp(r, g.reg, g.text)
		r.count("auto/genbank source: " + strings.SplitN(g.name, "/", 2)[0])
		allGb := len(base.recs) > 0 && base.clean
		for _, x := range base.recs {
			allGb = allGb && x.gb
		}
		if !allGb {
			// not a text the reader accepts to its end: correspondence only
			r.notes = append(r.notes, "auto: GenBank source not read to its end ("+g.name+"): "+strings.SplitN(bout, " ", 2)[0])
			continue
		}
		if len(g.reg.q)+len(g.reg.l)+len(g.reg.t) == 0 && len(g.text) < 9000 {
			setRegistry(registry{})
			r.op("scan.auto " + encBytes(g.text))
		}
		hasGt := bytes.IndexByte(g.text, '>') >= 0
		for k := 0; k < nMix; k++ {
			ftext, frecs := c17FastaStream(r, r.rng.rangeInt(1, 3))

			// GenBank, then FASTA: the GenBank records, then an error
			{
				text := append(append([]byte(nil), g.text...), ftext...)
				res, line, out := c17AutoOp(r, g.reg, text)
				r.eval("gb+fa|"+line, true)
				r.count("auto/GenBank then FASTA")
				c17Homogeneous(r, res, line, out)
				if !c17SameAuto(res.recs, base.recs) || res.clean {
					r.fail(Failure{Oracle: "GenBank records followed by FASTA records: exactly the GenBank records, then Err() != nil (the FASTA records are neither read nor silently dropped)",
						Op: line, Got: out, Want: c17ShowAuto(base.recs, base.reg, false)})
				}
				if k == 0 && len(g.reg.q)+len(g.reg.l)+len(g.reg.t) == 0 && len(text) < 9000 {
					setRegistry(registry{})
					r.op("scan.auto " + encBytes(text))
				}
			}
			// FASTA, then GenBank: everything is FASTA; without '>' in the GenBank text it all lands in
			// the residues of the last record
			{
				text := append(append([]byte(nil), ftext...), g.text...)
				res, line, out := c17AutoOp(r, g.reg, text)
				r.eval("fa+gb|"+line, !hasGt)
				r.count("auto/FASTA then GenBank")
				c17Homogeneous(r, res, line, out)
				if len(res.recs) == 0 || res.recs[0].gb {
					r.fail(Failure{Oracle: "a stream that begins with a FASTA record is read by FastaParser", Op: line, Got: out})
				} else if !hasGt {
					want := make([]c17AutoRec, len(frecs))
					for i, f := range frecs {
						want[i] = c17AutoRec{desc: c17OneLine(f.desc), data: f.data}
					}
					last := &want[len(want)-1]
					last.data = append(append([]byte(nil), last.data...), c17FastaBody(g.text)...)
					if !c17SameAuto(res.recs, want) || !res.clean {
						r.fail(Failure{Oracle: "FASTA records followed by a GenBank text without '>': the text is read as residues of the last FASTA record, without error",
							Op: line, Got: out, Want: c17ShowAuto(want, g.reg, true)})
					}
				} else {
					r.count("auto/FASTA then GenBank with '>' inside (kinds only)")
				}
				if k == 0 && len(g.reg.q)+len(g.reg.l)+len(g.reg.t) == 0 && len(text) < 9000 {
					setRegistry(registry{})
					r.op("scan.auto " + encBytes(text))
				}
			}
			// longer alternations: kinds only
			if k == 0 {
				f2, _ := c17FastaStream(r, 1)
				for _, parts := range [][][]byte{{g.text, ftext, g.text}, {ftext, g.text, f2}, {g.text, g.text, ftext}} {
					text := bytes.Join(parts, nil)
					res, line, out := c17AutoOp(r, g.reg, text)
					r.count("auto/alternating stream")
					if len(res.recs) > 0 {
						r.eval("alt|"+line, true)
						c17Homogeneous(r, res, line, out)
					}
				}
			}
		}
	}
	// FASTA-only texts with the real reader in front: the stand-in and the real model must agree
	for i := 0; i < 20*nMix; i++ {
		ftext, _ := c17FastaStream(r, r.rng.rangeInt(0, 4))
		if r.rng.intn(3) == 0 {
			ftext = c17ToCRLF(ftext)
		}
		res, line, out := c17AutoOp(r, empty, ftext)
		sout := r.op("fasta.scan " + encBytes(ftext))
		r.count("auto/FASTA only")
		want := c17Scan(ftext, true)
		got := make([]c17Rec, 0, len(res.recs))
		for _, x := range res.recs {
			got = append(got, c17Rec{x.desc, x.data})
		}
		if !c17SameRecs(got, want.recs) || res.clean != want.clean {
			r.fail(Failure{Oracle: "auto.scan and fasta.scan describe the same scan", Op: line + " ; fasta.scan " + encBytes(ftext), Got: out + " ; " + sout})
		}
	}
	setRegistry(registry{})
}

// ---------------------------------------------------------------------------
// the CLI path `gts <cmd> -F fasta`

type c17CliCmd struct {
	name   string
	single bool // only for inputs of one record (`gts sort` reorders the records)
	f      func(gts.Sequence) []byte
}

var c17CliCmds = []c17CliCmd{
	{"clear", false, func(s gts.Sequence) []byte { return s.Bytes() }},
	{"repair", false, func(s gts.Sequence) []byte { return s.Bytes() }},
	{"sort", true, func(s gts.Sequence) []byte { return s.Bytes() }},
	{"reverse", false, func(s gts.Sequence) []byte { return gts.Reverse(s).Bytes() }},
	{"complement", false, func(s gts.Sequence) []byte { return gts.Complement(s).Bytes() }},
}

// c17CliExpected: the text the property demands of `gts <cmd> -F fasta` on this input, or ok=false
// when the input is outside the property's quantifier.
func c17CliExpected(input []byte, c c17CliCmd) (text []byte, n int, ok bool) {
	ok = true
	withRegistry(registry{}, func() {
		sc := seqio.NewAutoScanner(bytes.NewReader(input))
		for sc.Scan() {
			seq := sc.Value()
			n++
			var desc string
			switch info := seq.Info().(type) {
			case string:
				desc = info
			case seqio.GenBankFields:
				desc = info.Version + " " + info.Definition
				if seg, isSeg := info.Region.(gts.Segment); isSeg {
					desc = fmt.Sprintf("%s:%d-%d %s", info.Version, seg[0]+1, seg[1], info.Definition)
				}
			default:
				ok = false
			}
			data := c.f(seq)
			if !c17NoCR(desc) || !c17ResOK(data) {
				ok = false
			}
			text = append(text, c17Write(desc, data)...)
		}
		if sc.Err() != nil {
			ok = false
		}
	})
	return
}

func c17CLI(r *Run) {
	nGen := 6
	if r.tier == "thorough" {
		nGen = 30
	}
	d := newCliDir()
	defer d.close()
	type input struct {
		name string
		text []byte
	}
	var inputs []input
	for _, g := range c17GbSources(r, nGen) {
		inputs = append(inputs, input{"genbank/" + g.name, g.text})
	}
	for i := 0; i < nGen; i++ {
		t, _ := c17FastaStream(r, r.rng.rangeInt(1, 3))
		inputs = append(inputs, input{"fasta/generated", t})
	}
	files, _ := filepath.Glob(filepath.Join(repoDir(), "seqio", "testdata", "*.fasta"))
	for _, fn := range files {
		if p, err := os.ReadFile(fn); err == nil {
			inputs = append(inputs, input{"fasta/corpus", p})
		}
	}
	for ii, in := range inputs {
		for ci, c := range c17CliCmds {
			want, n, ok := c17CliExpected(in.text, c)
			if n == 0 || (c.single && n != 1) {
				continue
			}
			flag := "-F"
			if (ii+ci)%3 == 1 {
				flag = "--format"
			}
			op := "cli.fasta " + encStr(c.name) + " " + encStr(flag) + " " + encBytes(in.text)
			args := []string{flag, "fasta"}
			if (ii+ci)%4 == 3 {
				// the output path says GenBank, the option says FASTA: the option wins
				args = []string{"-o", "@OUT:out.gb", flag, "fasta"}
				op += " 1"
			}
			crumb(op)
			res := d.run(cliRun{cmd: c.name, args: args, primary: inHex(in.text)}, true)
			r.count("cli -F fasta/" + c.name)
			r.count("cli -F fasta/input " + strings.SplitN(in.name, "/", 2)[0])
			r.eval("cli|"+c.name+"|"+flag+"|"+fmt.Sprint(len(args))+"|"+string(in.text), ok)
			if !ok {
				continue
			}
			got := fmt.Sprintf("%d %s", res.status, encBytes(res.out))
			if res.status != 0 || !bytes.Equal(res.out, want) {
				r.fail(Failure{Oracle: fmt.Sprintf("`gts %s %s` writes Fasta{description, residues} for every input record (GenBank input: `version definition`; residues as the command leaves them)", c.name, strings.Join(args, " ")),
					Op: op, Got: got, Want: "0 " + encBytes(want)})
				continue
			}
			// the written text reads back as the same records (both sides scan it)
			if len(res.out) < 20000 {
				sline := "fasta.scan " + encBytes(res.out)
				sout := r.op(sline)
				back := c17Scan(res.out, true)
				if len(back.recs) != n || !back.clean || back.notFasta {
					r.fail(Failure{Oracle: "the output of `gts " + c.name + " -F fasta` reads back as one FASTA record per input record", Op: op + " ; " + sline, Got: sout})
				}
			}
		}
		// without -F the type is that of the output NAME, by its last extension, whatever dots the
		// name has in front (seeded change W22-2: Detect cutting at the FIRST dot)
		if strings.HasPrefix(in.name, "genbank/") && ii%3 == 1 {
			for _, name := range []string{"out.fasta", "NC_001422.1.fasta", "a.b.c.fasta", "phix.v2.fa.fasta"} {
				want, n, ok := c17CliExpected(in.text, c17CliCmds[0])
				if !ok || n == 0 {
					continue
				}
				res := d.run(cliRun{cmd: c17CliCmds[0].name, args: []string{"-o", "@OUT:" + name}, primary: inHex(in.text)}, true)
				r.count("cli -o name.fasta/" + name)
				if res.status != 0 || !bytes.Equal(res.out, want) {
					r.fail(Failure{Oracle: "`gts " + c17CliCmds[0].name + " -o " + name + "` writes FASTA (the output type is that of the last extension of the name)",
						Op: "cli.fasta " + encStr(c17CliCmds[0].name) + " " + encStr("-o "+name) + " " + encBytes(in.text), Got: fmt.Sprintf("%d %s", res.status, encBytes(res.out[:minInt(len(res.out), 60)])), Want: "0 " + encBytes(want[:minInt(len(want), 60)])})
				}
			}
		}
		// without the option a GenBank input stays GenBank: the option is what selects FASTA
		if strings.HasPrefix(in.name, "genbank/") && ii%3 == 0 {
			res := d.run(cliRun{cmd: "clear", primary: inHex(in.text)}, true)
			r.count("cli without -F (GenBank stays GenBank)")
			if res.status == 0 && len(res.out) > 0 && !bytes.HasPrefix(res.out, []byte("LOCUS")) {
				r.fail(Failure{Oracle: "`gts clear` without -F writes a GenBank input as GenBank", Op: "cli.fasta " + encStr("clear") + " " + encStr("") + " " + encBytes(in.text), Got: encBytes(res.out)})
			}
		}
	}
}
