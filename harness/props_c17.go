package main

import (
	"bytes"
	"fmt"
	"os"
	"path/filepath"
	"strings"

	"github.com/go-gts/gts"
	"github.com/go-gts/gts/seqio"
	"github.com/go-wrap/wrap"
)

// C17 — FASTA output reads back identically; conversion to FASTA keeps residues.
//
// Protocol ops (same names in lean/Gts/Model/OpsIO.lean) run on the real code:
//   fasta.write x<desc> x<data>            seqio.Fasta{desc,data}.WriteTo            -> x<text>
//   fasta.wrap  x<data> n                  wrap.Force(data, n)                       -> x<text>
//   fasta.scan  x<text>                    seqio.NewAutoScanner over a bytes.Reader  -> ((x<desc> x<data>) ...) OK|ERR
//   fasta.scanp x<text>                    seqio.NewScanner(seqio.FastaParser, ...)  -> same
//   fasta.wseq  ft kind x<desc> x<data>    seqio.NewWriter(w, ft).WriteSeq(v)        -> x<text> | ERR | GENBANK
//   fasta.desc  ft x<ver> x<def> x<data> [s e]   ... on a seqio.GenBank (or gts.Slice of it)
// and the property oracles (round trip, record framing, CRLF, wrapping, GenBank -> FASTA)
// evaluated on the real code.  Near-misses outside the property's domain are sent to both
// sides for correspondence only.

func init() {
	props["C17"] = propC17
	extraOps["fasta.write"] = func(a []sexp) string {
		return encBytes(c17Write(string(decBytes(a[0])), decBytes(a[1])))
	}
	extraOps["fasta.wrap"] = func(a []sexp) string {
		return encStr(wrap.Force(string(decBytes(a[0])), decInt(a[1])))
	}
	extraOps["fasta.scan"] = func(a []sexp) string { return c17EncScan(c17Scan(decBytes(a[0]), true)) }
	extraOps["fasta.scanp"] = func(a []sexp) string { return c17EncScan(c17Scan(decBytes(a[0]), false)) }
	extraOps["fasta.wseq"] = func(a []sexp) string {
		return c17WriteSeq(decInt(a[0]), c17SeqVal(decInt(a[1]), string(decBytes(a[2])), decBytes(a[3])))
	}
	extraOps["fasta.desc"] = func(a []sexp) string {
		var seq gts.Sequence = c17GenBank(string(decBytes(a[1])), string(decBytes(a[2])), decBytes(a[3]))
		if len(a) == 6 {
			seq = gts.Slice(seq, decInt(a[4]), decInt(a[5]))
		}
		return c17WriteSeq(decInt(a[0]), seq)
	}
}

// ---------------------------------------------------------------------------
// the real code

func c17Write(desc string, data []byte) []byte {
	b := &bytes.Buffer{}
	if _, err := (seqio.Fasta{Desc: desc, Data: data}).WriteTo(b); err != nil {
		panic(err)
	}
	return b.Bytes()
}

type c17Rec struct {
	desc string
	data []byte
}

type c17Scanned struct {
	recs     []c17Rec
	clean    bool // Err() == nil
	notFasta bool // a scanned value was not a seqio.Fasta
}

func c17Scan(text []byte, auto bool) c17Scanned {
	var sc *seqio.Scanner
	if auto {
		sc = seqio.NewAutoScanner(bytes.NewReader(text))
	} else {
		sc = seqio.NewScanner(seqio.FastaParser, bytes.NewReader(text))
	}
	out := c17Scanned{}
	for sc.Scan() {
		f, ok := sc.Value().(seqio.Fasta)
		if !ok {
			out.notFasta = true
			return out
		}
		out.recs = append(out.recs, c17Rec{f.Desc, append([]byte(nil), f.Data...)})
	}
	out.clean = sc.Err() == nil
	return out
}

func c17EncScan(s c17Scanned) string {
	if s.notFasta {
		return "UNMODELLED"
	}
	xs := make([]string, len(s.recs))
	for i, r := range s.recs {
		xs[i] = encList([]string{encStr(r.desc), encBytes(r.data)})
	}
	if s.clean {
		return encList(xs) + " OK"
	}
	return encList(xs) + " ERR"
}

type c17Stringer string

func (s c17Stringer) String() string { return string(s) }

func c17SeqVal(kind int, desc string, data []byte) gts.Sequence {
	switch kind {
	case 0:
		return seqio.Fasta{Desc: desc, Data: data}
	case 1:
		return &seqio.Fasta{Desc: desc, Data: data}
	case 2:
		return gts.New(desc, nil, data)
	case 3:
		return gts.New(c17Stringer(desc), nil, data)
	case 4:
		return gts.New(len(desc), nil, data)
	}
	panic("bad kind")
}

func c17GenBank(version, definition string, data []byte) seqio.GenBank {
	return seqio.GenBank{
		Fields: seqio.GenBankFields{LocusName: "X", Molecule: gts.DNA, Topology: gts.Linear,
			Version: version, Definition: definition},
		Origin: seqio.NewOrigin(data),
	}
}

func c17WriteSeq(ft int, seq gts.Sequence) string {
	filetype := seqio.DefaultFile
	if ft == 1 {
		filetype = seqio.FastaFile
	}
	b := &bytes.Buffer{}
	if _, err := seqio.NewWriter(b, filetype).WriteSeq(seq); err != nil {
		return "ERR"
	}
	if bytes.HasPrefix(b.Bytes(), []byte("LOCUS")) {
		return "GENBANK"
	}
	return encBytes(b.Bytes())
}

// ---------------------------------------------------------------------------
// generators

// printable bytes without '>' (residue alphabet of the property's quantifier)
var c17Residues = func() []byte {
	var out []byte
	for c := byte(0x20); c < 0x7f; c++ {
		if c != '>' {
			out = append(out, c)
		}
	}
	return out
}()

func c17GenResidues(r *rng, n int) []byte {
	p := make([]byte, n)
	switch r.intn(4) {
	case 0: // nucleotides
		for i := range p {
			p[i] = "ACGTacgtNn"[r.intn(10)]
		}
	default:
		for i := range p {
			p[i] = c17Residues[r.intn(len(c17Residues))]
		}
	}
	return p
}

// descriptions: printable incl. spaces and '>' inside; sometimes empty
func c17GenDesc(r *rng) string {
	switch r.intn(8) {
	case 0:
		return ""
	case 1:
		return ">"
	case 2:
		return " "
	}
	n := r.rangeInt(1, 40)
	p := make([]byte, n)
	for i := range p {
		switch r.intn(8) {
		case 0:
			p[i] = ' '
		case 1:
			p[i] = '>'
		default:
			p[i] = byte(r.rangeInt(0x20, 0x7e))
		}
	}
	return string(p)
}

func c17DescOK(d string) bool { return !strings.ContainsAny(d, "\n\r") }
func c17NoCR(d string) bool   { return !strings.Contains(d, "\r") }

// c17OneLine: what the writer makes of a description (Gts.Fasta.nl2sp)
func c17OneLine(d string) string { return strings.ReplaceAll(d, "\n", " ") }
func c17ResOK(p []byte) bool     { return !bytes.ContainsAny(p, ">\n\r") }

func c17ToCRLF(t []byte) []byte { return bytes.ReplaceAll(t, []byte("\n"), []byte("\r\n")) }

func c17SameRecs(a []c17Rec, b []c17Rec) bool {
	if len(a) != len(b) {
		return false
	}
	for i := range a {
		if a[i].desc != b[i].desc || !bytes.Equal(a[i].data, b[i].data) {
			return false
		}
	}
	return true
}

func c17ShowRecs(rs []c17Rec) string {
	return c17EncScan(c17Scanned{recs: rs, clean: true})
}

// ---------------------------------------------------------------------------
// oracles

// c17Layout: the written text of one record is ">" desc "\n" lines "\n" with every line
// <= 70 bytes, every line but the last exactly 70, no empty line unless there are no residues,
// and the lines concatenate to the residues.
func c17Layout(r *Run, desc string, data []byte, text []byte, op string) {
	fail := func(what string) {
		r.fail(Failure{Oracle: "layout: " + what, Op: op, Got: encBytes(text)})
	}
	head := ">" + desc + "\n"
	if !bytes.HasPrefix(text, []byte(head)) {
		fail("text starts with '>' description newline")
		return
	}
	body := text[len(head):]
	if len(body) == 0 || body[len(body)-1] != '\n' {
		fail("text ends with a newline")
		return
	}
	body = body[:len(body)-1]
	lines := bytes.Split(body, []byte("\n"))
	var cat []byte
	for i, l := range lines {
		if len(l) > 70 {
			fail("no line longer than 70 bytes")
		}
		if i+1 < len(lines) && len(l) != 70 {
			fail("every line but the last has exactly 70 bytes")
		}
		if len(l) == 0 && len(data) != 0 {
			fail("no empty line (no trailing newline from wrapping)")
		}
		cat = append(cat, l...)
	}
	if !bytes.Equal(cat, data) {
		fail("removing the newlines gives back the residues")
	}
	want := (len(data) + 69) / 70
	if want == 0 {
		want = 1
	}
	if len(lines) != want {
		fail(fmt.Sprintf("ceil(len/70) lines (want %d, got %d)", want, len(lines)))
	}
}

// c17RoundTrip: the records written one after another are read back, in order, by both
// scanners, from the LF text and from its CRLF translation.
func c17RoundTrip(r *Run, recs []c17Rec, tag string) {
	var text []byte
	for _, rec := range recs {
		wop := "fasta.write " + encStr(rec.desc) + " " + encBytes(rec.data)
		out := r.op(wop)
		one := c17Write(rec.desc, rec.data)
		if out != encBytes(one) {
			r.fail(Failure{Oracle: "fasta.write op equals Fasta.WriteTo", Op: wop, Got: out})
		}
		if c17NoCR(rec.desc) && c17ResOK(rec.data) {
			c17Layout(r, c17OneLine(rec.desc), rec.data, one, wop)
		}
		text = append(text, one...)
	}
	// inDomain: the property's quantifier.  readable: the wider domain of theorem
	// parse_write_one_nl (line feeds inside a description are written as blanks: "description
	// on one line"), on which the records must still come back, with the blanks.
	inDomain, readable := true, true
	key := tag
	want := make([]c17Rec, len(recs))
	for i, rec := range recs {
		want[i] = c17Rec{c17OneLine(rec.desc), rec.data}
		if !c17DescOK(rec.desc) || !c17ResOK(rec.data) {
			inDomain = false
		}
		if !c17NoCR(rec.desc) || !c17ResOK(rec.data) {
			readable = false
		}
		key += fmt.Sprintf("|%s|%x", rec.desc, rec.data)
		r.count(fmt.Sprintf("len mod 70 = %d", len(rec.data)%70))
		switch {
		case len(rec.data) == 0:
			r.count("residues/empty")
		case len(rec.data)%70 == 0:
			r.count("residues/exact multiple of 70")
		default:
			r.count("residues/other")
		}
	}
	r.count(fmt.Sprintf("records=%d", len(recs)))
	r.eval(key, inDomain && len(recs) > 0)
	for _, crlf := range []bool{false, true} {
		t := text
		name := "LF"
		if crlf {
			t = c17ToCRLF(text)
			name = "CRLF"
		}
		for _, auto := range []bool{true, false} {
			opn := "fasta.scanp "
			if auto {
				opn = "fasta.scan "
			}
			line := opn + encBytes(t)
			out := r.op(line)
			if !readable {
				continue
			}
			if !inDomain {
				r.count("description with line feeds (read back with blanks)")
			}
			got := c17Scan(t, auto)
			if c17EncScan(got) != out {
				r.fail(Failure{Oracle: "scan op is deterministic", Op: line, Got: out})
			}
			if !c17SameRecs(got.recs, want) || !got.clean || got.notFasta {
				r.fail(Failure{Oracle: fmt.Sprintf("%s text of %d record(s) reads back as the same records in order, without error (%s)", name, len(recs), strings.TrimSpace(opn)),
					Op: line, Got: out, Want: c17ShowRecs(want)})
			}
		}
	}
}

// c17GenBankToFasta: GenBank value (and slices of it) written through the FASTA writer.
func c17GenBankToFasta(r *Run, version, definition string, data []byte, slice bool, s, e int) {
	line := fmt.Sprintf("fasta.desc 1 %s %s %s", encStr(version), encStr(definition), encBytes(data))
	wantDesc := version + " " + definition
	wantData := data
	if slice {
		line += fmt.Sprintf(" %d %d", s, e)
		wantDesc = fmt.Sprintf("%s:%d-%d %s", version, s+1, e, definition)
		wantData = data[s:e]
		r.count("genbank/slice")
	} else {
		r.count("genbank/whole")
	}
	out := r.op(line)
	// multi-line definitions: the line feeds come back as blanks (theorem genbank_to_fasta)
	r.eval(line, c17DescOK(wantDesc) && c17ResOK(data))
	if !c17NoCR(wantDesc) || !c17ResOK(data) {
		return
	}
	wantDesc = c17OneLine(wantDesc)
	if out == "ERR" || out == "PANIC" || out == "GENBANK" {
		r.fail(Failure{Oracle: "a GenBank record can be written as FASTA", Op: line, Got: out})
		return
	}
	text := decBytes(sexp{atom: out})
	sline := "fasta.scan " + out
	sout := r.op(sline)
	got := c17Scan(text, true)
	want := []c17Rec{{wantDesc, wantData}}
	if !c17SameRecs(got.recs, want) || !got.clean {
		r.fail(Failure{Oracle: "GenBank -> FASTA: description is version[:head+1-tail] definition and the residues are unchanged",
			Op: line + " ; " + sline, Got: sout, Want: c17ShowRecs(want)})
	}
}

// c17Corpus: every record of the repository's test files, written as FASTA and read back.
func c17Corpus(r *Run) {
	repo := os.Getenv("VERIF_REPO")
	if repo == "" {
		repo = "/repo"
	}
	files, _ := filepath.Glob(filepath.Join(repo, "seqio", "testdata", "*"))
	for _, fn := range files {
		raw, err := os.ReadFile(fn)
		if err != nil {
			continue
		}
		sc := seqio.NewAutoScanner(bytes.NewReader(raw))
		n := 0
		for sc.Scan() {
			seq := sc.Value()
			n++
			b := &bytes.Buffer{}
			if _, err := seqio.NewWriter(b, seqio.FastaFile).WriteSeq(seq); err != nil {
				r.fail(Failure{Oracle: "corpus record can be written as FASTA", Op: "corpus " + filepath.Base(fn), Got: err.Error()})
				continue
			}
			var wantDesc string
			switch info := seq.Info().(type) {
			case string:
				wantDesc = info
			case seqio.GenBankFields:
				wantDesc = info.Version + " " + info.Definition
				if seg, ok := info.Region.(gts.Segment); ok {
					wantDesc = fmt.Sprintf("%s:%d-%d %s", info.Version, seg[0]+1, seg[1], info.Definition)
				}
				r.op(fmt.Sprintf("fasta.desc 1 %s %s %s", encStr(info.Version), encStr(info.Definition), encBytes(seq.Bytes())))
			}
			r.count("corpus/" + filepath.Base(fn))
			line := "fasta.scan " + encBytes(b.Bytes())
			out := r.op(line)
			r.op("fasta.scanp " + encBytes(c17ToCRLF(b.Bytes())))
			r.eval("corpus|"+fn+itoa(n), c17DescOK(wantDesc) && c17ResOK(seq.Bytes()))
			if !c17NoCR(wantDesc) || !c17ResOK(seq.Bytes()) {
				r.notes = append(r.notes, "corpus record outside the readable domain: "+filepath.Base(fn))
				continue
			}
			wantDesc = c17OneLine(wantDesc)
			want := []c17Rec{{wantDesc, seq.Bytes()}}
			for _, t := range [][]byte{b.Bytes(), c17ToCRLF(b.Bytes())} {
				got := c17Scan(t, true)
				if !c17SameRecs(got.recs, want) || !got.clean {
					r.fail(Failure{Oracle: "corpus record written as FASTA reads back with the same description and residues",
						Op: line, Got: out, Want: c17ShowRecs(want)})
				}
			}
		}
		if n == 0 {
			r.notes = append(r.notes, "corpus file not readable as sequence: "+filepath.Base(fn))
		}
	}
}

// ---------------------------------------------------------------------------

func propC17(r *Run) {
	maxLen := 300
	nMulti := 3
	if r.tier == "thorough" {
		maxLen = 5000
		nMulti = 12
	}
	r.exhaustive = true
	r.notes = append(r.notes,
		fmt.Sprintf("every residue count 0..%d as a single record (random description and residues per length), LF and CRLF, auto and FASTA scanner", maxLen),
		"streams of 1..5 records for every remainder mod 70, with forced empty records and exact multiples",
		"near-misses ('>' / CR / LF inside residues, CR / LF inside descriptions, bare CR line ends, text not starting with '>') for correspondence only")

	// fixed small cases first (incl. the witness of F5)
	for _, t := range []string{"", ">", ">a", ">a\n", ">a\n\n", ">a\r\nAC\r\nGT\r\n", ">a\nAC\nGT", ">a\n>b\n", ">>\n>\n",
		"x", "xxxx", "xxxxx", "LOCU", "LOCUT", "LOC", "\n>a\nAC\n", "AC\n>a\nAC\n", ">a\rAC\rGT\r", ">a\r\r\nAC\n", ">a\nA\r\rC\r\n\r\n",
		">a\n\r", ">a\nAC\r", ">a\nAC\r>b\nG", ">a\r", ">a\r>b\n", ">a\n\n\n\nAC\n\n"} {
		r.op("fasta.scan " + encStr(t))
		r.op("fasta.scanp " + encStr(t))
		r.count("fixed text")
	}

	// every length, one record
	for n := 0; n <= maxLen; n++ {
		c17RoundTrip(r, []c17Rec{{c17GenDesc(r.rng), c17GenResidues(r.rng, n)}}, "one")
	}
	// a few all-equal-letter records at the boundaries (shrunk shape of any wrapping defect)
	for _, n := range []int{0, 1, 69, 70, 71, 139, 140, 141, 210, 700} {
		c17RoundTrip(r, []c17Rec{{"d", bytes.Repeat([]byte("A"), n)}}, "boundary")
		c17RoundTrip(r, []c17Rec{{"", bytes.Repeat([]byte("A"), n)}}, "boundary")
	}

	// streams: every remainder x every count
	for rem := 0; rem < 70; rem++ {
		for cnt := 1; cnt <= 5; cnt++ {
			for k := 0; k < nMulti; k++ {
				recs := make([]c17Rec, cnt)
				for i := range recs {
					n := rem + 70*r.rng.intn(4)
					switch r.rng.intn(6) {
					case 0:
						n = 0
					case 1:
						n = 70 * r.rng.rangeInt(1, 3)
					case 2:
						n = r.rng.intn(300)
					}
					recs[i] = c17Rec{c17GenDesc(r.rng), c17GenResidues(r.rng, n)}
				}
				c17RoundTrip(r, recs, "stream")
			}
		}
	}
	// streams of empty records only
	for cnt := 1; cnt <= 5; cnt++ {
		recs := make([]c17Rec, cnt)
		for i := range recs {
			recs[i] = c17Rec{c17GenDesc(r.rng), nil}
		}
		c17RoundTrip(r, recs, "empty-stream")
	}

	// near-misses (outside the quantifier): correspondence only
	bad := []byte(">\r\n")
	for i := 0; i < 150*nMulti; i++ {
		cnt := r.rng.rangeInt(1, 3)
		recs := make([]c17Rec, cnt)
		for j := range recs {
			d := []byte(c17GenDesc(r.rng))
			p := c17GenResidues(r.rng, r.rng.intn(160))
			switch r.rng.intn(3) {
			case 0:
				if len(d) > 0 {
					d[r.rng.intn(len(d))] = "\r\n"[r.rng.intn(2)]
				}
			default:
				for k := r.rng.rangeInt(1, 3); k > 0 && len(p) > 0; k-- {
					p[r.rng.intn(len(p))] = bad[r.rng.intn(3)]
				}
				if len(p) > 0 && r.rng.intn(4) == 0 {
					p[len(p)-1] = '\r'
				}
				if len(p) >= 70 && r.rng.intn(3) == 0 {
					p[69] = '\r'
				}
			}
			recs[j] = c17Rec{string(d), p}
		}
		r.count("near-miss")
		c17RoundTrip(r, recs, "near")
		// bare-CR translation of a valid text, and random prefixes
		if i%5 == 0 {
			t := c17Write(c17GenDesc(r.rng), c17GenResidues(r.rng, r.rng.intn(200)))
			cr := bytes.ReplaceAll(t, []byte("\n"), []byte("\r"))
			r.op("fasta.scan " + encBytes(cr))
			pre := c17GenResidues(r.rng, r.rng.intn(8))
			if !bytes.HasPrefix(pre, []byte("LOCUS")) {
				r.op("fasta.scan " + encBytes(append(pre, t...)))
				r.op("fasta.scanp " + encBytes(append(pre, t...)))
			}
			r.op("fasta.scanp " + encBytes(t[:r.rng.intn(len(t)+1)]))
			r.op("fasta.scan " + encBytes(c17ToCRLF(t)[:r.rng.intn(len(t)+1)]))
		}
	}

	// wrap.Force itself
	for _, n := range []int{1, 2, 3, 7, 69, 70, 71} {
		for l := 0; l <= 3*n+1 && l <= 215; l++ {
			r.op(fmt.Sprintf("fasta.wrap %s %d", encBytes(c17GenResidues(r.rng, l)), n))
			r.count("wrap")
		}
	}

	// writer metadata cases
	for ft := 0; ft <= 1; ft++ {
		for kind := 0; kind <= 4; kind++ {
			for _, n := range []int{0, 1, 70, 71, 145} {
				d := c17GenDesc(r.rng)
				if r.rng.intn(3) == 0 {
					d += "\nsecond line"
				}
				p := c17GenResidues(r.rng, n)
				line := fmt.Sprintf("fasta.wseq %d %d %s %s", ft, kind, encStr(d), encBytes(p))
				out := r.op(line)
				r.count(fmt.Sprintf("wseq/kind=%d", kind))
				r.eval(line, kind != 4)
				if kind == 4 {
					if out != "ERR" {
						r.fail(Failure{Oracle: "metadata that is neither string nor Stringer is refused", Op: line, Got: out})
					}
				} else if out != encBytes(c17Write(d, p)) {
					r.fail(Failure{Oracle: "Fasta / *Fasta / string / Stringer metadata all write Fasta{desc, bytes}", Op: line, Got: out, Want: encBytes(c17Write(d, p))})
				}
			}
		}
	}

	// GenBank -> FASTA
	vers := []string{"NC_001422.1", "", "X", "AB 1.2"}
	for i := 0; i < 40*nMulti; i++ {
		v := vers[r.rng.intn(len(vers))]
		if r.rng.intn(3) == 0 {
			v = strings.ReplaceAll(c17GenDesc(r.rng), " ", "_")
		}
		d := c17GenDesc(r.rng)
		if r.rng.intn(10) == 0 {
			d += "\ncontinued"
		}
		n := r.rng.intn(220)
		if i < 12 {
			n = []int{0, 1, 69, 70, 71, 140}[i%6]
		}
		p := c17GenResidues(r.rng, n)
		c17GenBankToFasta(r, v, d, p, false, 0, 0)
		s := r.rng.intn(n + 1)
		e := r.rng.rangeInt(s, n)
		c17GenBankToFasta(r, v, d, p, true, s, e)
		if i%8 == 0 {
			r.op(fmt.Sprintf("fasta.desc 0 %s %s %s", encStr(v), encStr(d), encBytes(p)))
		}
	}
	// every slice of a short record
	{
		p := []byte("ACGTACGTAC")
		for s := 0; s <= len(p); s++ {
			for e := s; e <= len(p); e++ {
				c17GenBankToFasta(r, "V.1", "def", p, true, s, e)
			}
		}
	}

	c17Corpus(r)

	// auto-detection with the real GenBank reader, streams that change format (props_c17_auto.go)
	c17Mixed(r)
	// the CLI path `gts <cmd> -F fasta`
	c17CLI(r)
}
