package main

// C03, "a slice is always linear": the topology of the record Slice returns, for GenBank records
// of either topology and EVERY window in [-L, L]², the whole-sequence windows included (seeded
// change W14-2: the final WithTopology(Linear) guarded by `len(p) < seqlen`, so a window that takes
// every residue of a circular record stayed circular).  Oracle only (the record-level model of
// gts.Slice on GenBank headers is C01's gb.slice).

import (
	"fmt"

	"github.com/go-gts/gts"
	"github.com/go-gts/gts/seqio"
)

// c03EmptyTable: a GenBank record WITHOUT a source feature sliced / erased so that no feature is
// left: the result has no feature (seeded change W21-1: GenBank.WithFeatures returning the receiver
// for an empty table, so the old table with its old coordinates stayed).
func c03EmptyTable(r *Run) {
	res := []byte("acgtacgtacgtacgtacgtacgtacgtacgtacgtacgtacgtacgtacgtacgtacgtacgtacgtacgtacgtacgt")
	tab := gts.FeatureSlice{{Key: "gene", Loc: gts.Range(40, 70), Props: gts.Props{}}, {Key: "CDS", Loc: gts.Range(45, 66), Props: gts.Props{}}}
	for _, circ := range []bool{false, true} {
		gb := seqio.GenBank{Fields: c15Fields(circ), Table: tab, Origin: seqio.NewOrigin(res)}
		for _, c := range []struct {
			name string
			f    func() gts.Sequence
		}{
			{"Slice(0,30)", func() gts.Sequence { return gts.Slice(gb, 0, 30) }},
			{"Slice(72,80)", func() gts.Sequence { return gts.Slice(gb, 72, 80) }},
			{"Erase(35,40)", func() gts.Sequence { return gts.Erase(gb, 35, 40) }},
			{"WithFeatures(nil)", func() gts.Sequence { return gts.WithFeatures(gb, nil) }},
			{"WithFeatures(empty)", func() gts.Sequence { return gts.WithFeatures(gb, gts.FeatureSlice{}) }},
		} {
			line := fmt.Sprintf("seq.emptytable circular=%v %s", circ, c.name)
			crumb(line)
			out := guarded(func() string { return fmt.Sprint(len(c.f().Features())) })
			r.count("seq.slice/table-becomes-empty")
			r.eval(line, true)
			if out != "0" {
				r.fail(Failure{Oracle: "an operation that leaves no feature returns a record without features (GenBank carrier, no source feature)", Op: line, Got: out + " features", Want: "0"})
			}
		}
	}
}

// c03SourceAnywhere: "except on source features after slicing" holds for EVERY source feature of the
// table, wherever it stands — a file may list a gene before its source, or several part-length
// sources in position order (seeded change W28-1: only the leading run of sources was completed).
func c03SourceAnywhere(r *Run) {
	res := []byte("acgtacgtacgtacgtacgtacgtacgtacgtacgtacgtacgtacgtacgtacgtacgt")
	tabs := []gts.FeatureSlice{
		{{Key: "gene", Loc: gts.Range(4, 40), Props: gts.Props{}}, {Key: "source", Loc: gts.Range(0, 60), Props: gts.Props{}}},
		{{Key: "source", Loc: gts.Range(0, 30), Props: gts.Props{}}, {Key: "gene", Loc: gts.Range(4, 40), Props: gts.Props{}}, {Key: "source", Loc: gts.Range(30, 60), Props: gts.Props{}}},
		{{Key: "gene", Loc: gts.Range(4, 40), Props: gts.Props{}}, {Key: "source", Loc: gts.Range(0, 60).Complement(), Props: gts.Props{}}, {Key: "CDS", Loc: gts.Range(10, 20), Props: gts.Props{}}, {Key: "source", Loc: gts.Join(gts.Range(0, 25), gts.Range(30, 60)), Props: gts.Props{}}},
	}
	for ti, tab := range tabs {
		for _, w := range [][2]int{{10, 30}, {0, 45}, {20, 60}, {35, 50}, {50, 10}} {
			line := fmt.Sprintf("seq.slice.sources table=%d %d %d", ti, w[0], w[1])
			crumb(line)
			out := guarded(func() string {
				for _, g := range gts.Slice(gts.New(nil, append(gts.FeatureSlice{}, tab...), res), w[0], w[1]).Features() {
					if g.Key == "source" && anyPartial(g.Loc) {
						return encLoc(g.Loc)
					}
				}
				return "ok"
			})
			r.count("seq.slice/source-anywhere")
			r.eval(line, true)
			if out != "ok" {
				r.fail(Failure{Oracle: "slice: no source feature becomes partial, wherever it stands in the table", Op: line, Got: out})
			}
		}
	}
}

func c03Topology(r *Run) {
	c03EmptyTable(r)
	c03SourceAnywhere(r)
	for _, L := range []int{1, 2, 7, 24} {
		res := make([]byte, L)
		for i := range res {
			res[i] = "acgt"[i%4]
		}
		for _, circ := range []bool{false, true} {
			gb := seqio.GenBank{Fields: c15Fields(circ), Table: gts.FeatureSlice{{Key: "source", Loc: gts.Range(0, L), Props: gts.Props{}}}, Origin: seqio.NewOrigin(res)}
			for a := -L; a <= L; a++ {
				for b := -L; b <= L; b++ {
					line := fmt.Sprintf("seq.slice.topology circular=%v L=%d %d %d", circ, L, a, b)
					crumb(line)
					top := guarded(func() string {
						out := gts.Slice(gb, a, b)
						f, ok := out.Info().(seqio.GenBankFields)
						if !ok {
							return "no GenBankFields"
						}
						return f.Topology.String()
					})
					r.count("seq.slice/topology")
					r.eval(line, circ)
					if top == "PANIC" || top == "HANG" {
						continue // windows outside the sequence: the panic clause is the model's (Bridge.seqSlice_*)
					}
					if top != gts.Linear.String() {
						r.fail(Failure{Oracle: "a slice is always linear (topology of the record Slice returns)", Op: line, Got: top, Want: gts.Linear.String()})
					}
				}
			}
		}
	}
}
