package main

// C14 under I/O faults of the cache WRITER (Gts/Model/CacheProtoFault.lean, theorems
// transparent_under_faults_partial / no_bad_entry_under_faults_partial / …_full_refuted).
//
// The cache directory fills up while the entry is being written: the gts binary runs under a
// file-size limit (RLIMIT_FSIZE, set by a trampoline of this executable: `harness -c14-tramp
// <limit> <uid> gts …`) that the cache ENTRY exceeds while nothing else the process writes does —
// stdout is a pipe, the stdin spool is a few bytes; the output is big and its residues are
// pseudo-random, so that the deflated entry is big too (`gts insert ^ <guest of 200 000 residues>`,
// `gts infix ^ <host …>`).  Limits: inside the stream (a `Write` of the tee fails), one byte short
// of the entry (the end of the stream fails), exactly the entry (fits), below the 60 placeholder
// bytes (`CreateLevel` fails and the tee goes on).  And a cache directory that is READ-ONLY while
// the entry file is writable (an existing name can be truncated and rewritten, nothing can be
// created or removed): `os.Create` of a new entry fails, `os.Remove` of a discarded one fails.
// When the harness is root the read-only runs are executed as uid 65534.
//
//   oracle (real binary, against the --no-cache run in the same environment): a run shows the
//   --no-cache bytes and status, or — exactly when the environment makes a write of the tee fail
//   — a proper prefix of them with exit status 1 (io.go: the tee fails the command's own write);
//   a writer fault leaves no entry (directory writable); the next run shows the --no-cache bytes
//   and seeds an entry that the run after it replays.
//
//   correspondence: `cli.faulthist` — the history with the fault SCHEDULE inferred from the
//   observation, answered by the binary and by `Gts.CacheProto.stepF`: status, which bytes
//   (full / prefix / prefix followed by everything), entries present after every step.  The
//   read-only histories are the replay of `transparent_under_faults_full_refuted`: fault in run 1
//   (the discarded entry cannot be removed), wrong bytes in run 2 — the binary does what the
//   model says.

import (
	"bytes"
	"context"
	"crypto/sha1"
	"encoding/hex"
	"fmt"
	"io/ioutil"
	"os"
	"os/exec"
	"path/filepath"
	"sort"
	"strconv"
	"strings"
	"syscall"
	"time"
)

const c14TrampFlag = "-c14-tramp"

func init() {
	// trampoline: harness -c14-tramp <limit bytes, 0 = none> <uid, -1 = keep> <program> <args…>
	if len(os.Args) >= 5 && os.Args[1] == c14TrampFlag {
		limit, err1 := strconv.Atoi(os.Args[2])
		uid, err2 := strconv.Atoi(os.Args[3])
		if err1 != nil || err2 != nil {
			os.Exit(97)
		}
		if limit > 0 {
			var lim syscall.Rlimit
			if err := syscall.Getrlimit(syscall.RLIMIT_FSIZE, &lim); err != nil {
				os.Exit(97)
			}
			lim.Cur = uint64(limit)
			if err := syscall.Setrlimit(syscall.RLIMIT_FSIZE, &lim); err != nil {
				os.Exit(97)
			}
		}
		if uid >= 0 {
			if err := syscall.Setgroups([]int{}); err != nil {
				os.Exit(97)
			}
			if err := syscall.Setgid(uid); err != nil {
				os.Exit(97)
			}
			if err := syscall.Setuid(uid); err != nil {
				os.Exit(97)
			}
		}
		if err := syscall.Exec(os.Args[4], os.Args[4:], os.Environ()); err != nil {
			os.Exit(97)
		}
	}
	extraOps["cli.faulthist"] = func(a []sexp) string { return c14RunFaultHist(a) }
}

// c14RandFasta: a FASTA record of n pseudo-random residues (xorshift; deflate cannot do better
// than about two bits per residue)
func c14RandFasta(n, seed int) []byte {
	out := make([]byte, 0, n+n/70+8)
	out = append(out, ">r\n"...)
	x := uint32(2463534242) ^ uint32(seed)*2654435761
	if x == 0 {
		x = 1
	}
	for i := 0; i < n; i++ {
		x ^= x << 13
		x ^= x >> 17
		x ^= x << 5
		out = append(out, "acgt"[(x>>9)&3])
		if i%70 == 69 {
			out = append(out, '\n')
		}
	}
	return append(out, '\n')
}

type faultStep struct {
	kind   string // N T E
	limit  int
	ro     bool
	target int
	tamper string
	// inferred schedule (E)
	create int
	write  bool
	close  bool
}

func (s faultStep) enc() string {
	switch s.kind {
	case "N":
		return "(N)"
	case "T":
		return fmt.Sprintf("(T %d %s)", s.target, s.tamper)
	}
	return fmt.Sprintf("(E %d %s %d %s %s)", s.limit, b01(s.ro), s.create, b01(s.write), b01(s.close))
}

func decFaultStep(s sexp) (faultStep, bool) {
	if !s.isL || len(s.list) == 0 {
		return faultStep{}, false
	}
	switch s.list[0].atom {
	case "N":
		return faultStep{kind: "N"}, true
	case "T":
		if len(s.list) != 3 {
			return faultStep{}, false
		}
		return faultStep{kind: "T", target: decInt(s.list[1]), tamper: s.list[2].atom}, true
	case "E":
		if len(s.list) != 6 {
			return faultStep{}, false
		}
		return faultStep{kind: "E", limit: decInt(s.list[1]), ro: decInt(s.list[2]) == 1, create: decInt(s.list[3]),
			write: decInt(s.list[4]) == 1, close: decInt(s.list[5]) == 1}, true
	}
	return faultStep{}, false
}

// runFault: one invocation through the trampoline (stdout a pipe, stdin a pipe)
func (d cliDir) runFault(r cliRun, nocache bool, limit int, uid int) cliResult {
	exe, err := os.Executable()
	if err != nil {
		return cliResult{status: 97}
	}
	args := []string{c14TrampFlag, strconv.Itoa(limit), strconv.Itoa(uid), gtsBinary(), r.cmd}
	if nocache {
		args = append(args, "--no-cache")
	}
	for _, a := range r.args {
		switch {
		case strings.HasPrefix(a, "@SEC"):
			i, _ := strconv.Atoi(a[4:])
			p := filepath.Join(d.root, "sec", "s"+strconv.Itoa(i))
			if _, err := os.Stat(p); err != nil {
				if err := ioutil.WriteFile(p, r.secs[i].bytes(), 0644); err != nil {
					panic(err)
				}
			}
			args = append(args, p)
		default:
			args = append(args, a)
		}
	}
	ctx, cancel := context.WithTimeout(context.Background(), 10*time.Second)
	defer cancel()
	cmd := exec.CommandContext(ctx, exe, args...)
	cmd.Env = []string{"HOME=" + filepath.Join(d.root, "home"), "XDG_CACHE_HOME=" + filepath.Join(d.root, "cache"),
		"TMPDIR=" + filepath.Join(d.root, "tmp"), "PATH=/usr/bin:/bin"}
	cmd.Stdin = bytes.NewReader(r.primary.bytes())
	var stdout bytes.Buffer
	cmd.Stdout = &stdout
	cmd.Stderr = ioutil.Discard
	err = cmd.Run()
	res := cliResult{}
	if ctx.Err() != nil {
		res.status = 124
	} else if ee, ok := err.(*exec.ExitError); ok {
		res.status = ee.ExitCode()
	} else if err != nil {
		res.status = 97
	}
	res.out = stdout.Bytes()
	return res
}

// open up the scratch directory so that an unprivileged child can work in it
func (d cliDir) permissive() {
	os.Chmod(d.root, 0755)
	for _, s := range []string{"home", "tmp", "out"} {
		os.Chmod(filepath.Join(d.root, s), 0777)
	}
	os.Chmod(filepath.Join(d.root, "cache"), 0755)
	os.MkdirAll(d.cacheDir(), 0755)
}

func (d cliDir) readOnly(ro bool) {
	if ro {
		for _, n := range d.entries() {
			os.Chmod(filepath.Join(d.cacheDir(), n), 0666)
		}
		os.Chmod(d.cacheDir(), 0555)
	} else {
		os.Chmod(d.cacheDir(), 0755)
	}
}

// which uid the runs in a read-only directory use: root ignores permission bits
func c14DropUID() int {
	if os.Geteuid() == 0 {
		return 65534
	}
	return -1
}

type faultObs struct {
	res cliResult
	ids string
	n   int // entries present afterwards
}

// c14FaultExec runs the steps on the real binary over one fresh directory
func c14FaultExec(run cliRun, steps []faultStep) (want cliResult, obs []faultObs) {
	d := newCliDir()
	defer func() { d.readOnly(false); d.close() }()
	d.permissive()
	want = d.runFault(run, true, 0, -1)
	first := map[string]int{}
	ids := func(k int) (string, int) {
		var out []int
		for _, n := range d.entries() {
			if _, ok := first[n]; !ok {
				first[n] = k
			}
			out = append(out, first[n])
		}
		sort.Ints(out)
		ss := make([]string, len(out))
		for i, x := range out {
			ss[i] = strconv.Itoa(x)
		}
		return strings.Join(ss, ","), len(out)
	}
	for k, st := range steps {
		var o faultObs
		switch st.kind {
		case "T":
			for n, f := range first {
				if f == st.target {
					tamperFile(filepath.Join(d.cacheDir(), n), st.tamper)
				}
			}
		case "N":
			o.res = d.runFault(run, false, 0, -1)
		case "E":
			uid := -1
			if st.ro {
				uid = c14DropUID()
			}
			d.readOnly(st.ro)
			o.res = d.runFault(run, false, st.limit, uid)
			d.readOnly(false)
		}
		o.ids, o.n = ids(k)
		obs = append(obs, o)
	}
	return want, obs
}

func c14FaultToken(out, want []byte, l int) string {
	switch {
	case bytes.Equal(out, want):
		return "full"
	case l >= 0 && l <= len(want) && bytes.Equal(out, want[:l]):
		return "pre"
	case len(out) > len(want) && bytes.HasSuffix(out, want) && bytes.HasPrefix(want, out[:len(out)-len(want)]):
		return "pfx+full"
	}
	return "other"
}

// c14RunFaultHist: cli.faulthist <run> x<pre> <L> <wstatus> <step>…
func c14RunFaultHist(a []sexp) string {
	if len(a) < 4 || !a[0].isL || len(a[0].list) != 11 {
		return "BAD-OP"
	}
	run, root := decRun(a[0])
	got := sha1.Sum(run.primary.bytes())
	if hex.EncodeToString(got[:]) != root {
		return "BAD-DIGEST"
	}
	l := decInt(a[2])
	var steps []faultStep
	for _, s := range a[4:] {
		st, ok := decFaultStep(s)
		if !ok {
			return "BAD-OP"
		}
		steps = append(steps, st)
	}
	want, obs := c14FaultExec(run, steps)
	if fmt.Sprintf("%d x%s", want.status, want.digest()) != fmt.Sprintf("%d %s", decInt(a[0].list[8]), a[0].list[9].atom) {
		return "BAD-NOCACHE " + want.String()
	}
	var answers []string
	for i, o := range obs {
		if steps[i].kind == "T" {
			answers = append(answers, "T:"+o.ids)
			continue
		}
		answers = append(answers, fmt.Sprintf("%d:%s:%s", o.res.status, c14FaultToken(o.res.out, want.out, l), o.ids))
	}
	return strings.Join(answers, " ")
}

type faultHist struct {
	name  string
	run   cliRun
	steps []faultStep
}

func c14WriterFaults(r *Run) {
	if _, err := os.Executable(); err != nil {
		r.notes = append(r.notes, "writer faults: os.Executable unavailable, skipped")
		return
	}
	tiny := inHex([]byte(">s\nacgtacgtacgtacgtacgt\n")) // 24 bytes: below every limit that is used
	bigN, smallN := 200000, 40
	if r.tier == "thorough" {
		bigN = 600000
	}
	mk := func(name string, n, seed int) cliRun {
		c := cliChoice{cmd: c14Cmd(name), primary: tiny, sec: map[int]cliInput{1: inRand(n, seed)}, bools: map[string]bool{},
			vals: map[string][]string{}, pos: [][]string{{"^"}, nil}}
		return c.run()
	}
	// is the read-only environment available?  (root has to be able to drop to uid 65534, and that
	// user has to reach the binary and the scratch directory)
	roOK := func(run cliRun) bool {
		d := newCliDir()
		defer d.close()
		d.permissive()
		a := d.runFault(run, true, 0, -1)
		b := d.runFault(run, true, 0, c14DropUID())
		return a.status == 0 && b.status == 0 && bytes.Equal(a.out, b.out)
	}
	var hists []faultHist
	E := func(limit int, ro bool) faultStep { return faultStep{kind: "E", limit: limit, ro: ro, create: -1} }
	N := faultStep{kind: "N"}
	T := func(k int) faultStep { return faultStep{kind: "T", target: k, tamper: "flip"} }
	roAvailable := true
	for ci, name := range []string{"insert", "infix"} {
		big, small := mk(name, bigN, 11+ci), mk(name, smallN, 3+ci)
		// the size of the finished entry: one clean run
		size := func(run cliRun) int {
			d := newCliDir()
			defer d.close()
			d.permissive()
			d.runFault(run, false, 0, -1)
			es := d.entries()
			if len(es) != 1 {
				return -1
			}
			fi, err := os.Stat(filepath.Join(d.cacheDir(), es[0]))
			if err != nil {
				return -1
			}
			return int(fi.Size())
		}
		bigSize, smallSize := size(big), size(small)
		if bigSize < 2*32768 || smallSize < 60 {
			r.fail(Failure{Oracle: "writer faults: a clean run seeds one entry (set-up of the cases)", Op: "gts " + name,
				Got: fmt.Sprintf("entry sizes %d / %d", bigSize, smallSize), Want: "one entry of more than 64 KiB / 60 bytes"})
			continue
		}
		hists = append(hists,
			faultHist{"full mid-write", big, []faultStep{E(32768, false), N, N}},
			faultHist{"full mid-write", big, []faultStep{E(bigSize/2, false), E(bigSize/2, false), N, N}},
			faultHist{"full mid-write", big, []faultStep{E(4096, false), N}},
			faultHist{"full at the end of the stream", big, []faultStep{E(bigSize-1, false), N, N}},
			faultHist{"entry fits exactly", big, []faultStep{E(bigSize, false), N}},
			faultHist{"placeholder fails, then a write", big, []faultStep{E(30, false), N, N}},
			faultHist{"placeholder fails, small output", small, []faultStep{E(30, false), E(59, false), N, N}},
			faultHist{"stream fails, small output", small, []faultStep{E(60, false), E(smallSize-1, false), E(smallSize, false), N}},
		)
		if roAvailable && !roOK(small) {
			roAvailable = false
			r.notes = append(r.notes, "writer faults: the read-only cache directory cases are skipped (cannot run the binary as uid 65534 here)")
		}
		if roAvailable {
			hists = append(hists,
				faultHist{"unremovable: write fails", big, []faultStep{N, T(0), E(32768, true), E(0, true), N}},
				faultHist{"unremovable: end of the stream fails", big, []faultStep{N, T(0), E(bigSize-1, true), N, N}},
				faultHist{"read-only empty directory", small, []faultStep{E(0, true), E(0, true), N, N}},
				faultHist{"read-only directory with a valid entry", small, []faultStep{N, E(0, true), E(30, true), N}},
			)
		}
	}
	for _, h := range hists {
		c14OneFaultHist(r, h)
	}
	r.notes = append(r.notes, "writer faults: gts insert / infix with a pseudo-random guest / host of 200 000 residues (thorough 600 000) under RLIMIT_FSIZE inside the stream, one byte short of the entry, exactly the entry, below the placeholder; read-only cache directory with a rewritable entry (as uid 65534 when root); every history answered by the binary and by Gts.CacheProto.stepF (cli.faulthist)")
}

func c14OneFaultHist(r *Run, h faultHist) {
	tag := "fault/" + h.name
	crumb("cli.faulthist " + h.name + " gts " + h.run.cmd)
	// pass 1: observe, infer the schedule
	want, obs := c14FaultExec(h.run, h.steps)
	l, wstatus := -1, 0
	var pre []byte
	steps := append([]faultStep{}, h.steps...)
	// the size of the finished entry (for "does it fit"): known from the history's set-up through
	// the limits themselves; here only the observation is used
	for i := range steps {
		st := &steps[i]
		if st.kind != "E" {
			continue
		}
		o := obs[i]
		if st.limit > 0 && st.limit < 60 {
			st.create = st.limit
		}
		if !bytes.Equal(o.res.out, want.out) && len(o.res.out) < len(want.out) && bytes.HasPrefix(want.out, o.res.out) {
			st.write = true
			if l < 0 {
				l, wstatus, pre = len(o.res.out), o.res.status, o.res.out
			}
		}
	}
	// the end of the stream failed: no write failed, the limit is in force, and the run left no
	// (new) entry although it exited 0 and the directory could take it
	for i := range steps {
		st := &steps[i]
		if st.kind != "E" || st.write || st.limit == 0 {
			continue
		}
		before := 0
		if i > 0 {
			before = obs[i-1].n
		}
		if obs[i].res.status == 0 && want.status == 0 && before == 0 && obs[i].n == 0 && !st.ro {
			st.close = true
		}
		if st.ro && before > 0 {
			// read-only directory: the entry stays whatever happens; the end of the stream failed iff
			// the next run does not replay it
			st.close = i+1 < len(obs) && !bytes.Equal(obs[i+1].res.out, want.out)
		}
	}
	preSum := sha1.Sum(pre)
	parts := []string{"cli.faulthist", h.run.enc(want), encBytes(preSum[:]), strconv.Itoa(l), strconv.Itoa(wstatus)}
	for _, st := range steps {
		parts = append(parts, st.enc())
	}
	line := strings.Join(parts, " ")
	crumb(line)
	answer := c14RunFaultHist(parseLine(line)[1:])
	r.record(line, answer)
	r.count(tag)
	for _, st := range steps {
		if st.kind == "E" && st.limit > 0 && !st.ro {
			// the environment of the brief's `cli.env` cases: the cache directory fills up mid-write
			r.count("env/cache directory full (file-size limit on the entry, stdout a pipe)")
			break
		}
	}
	r.eval(line, want.status == 0 && len(want.out) > 0)

	// oracle, on the real binary
	fields := strings.Fields(answer)
	if len(fields) != len(steps) {
		r.fail(Failure{Oracle: "writer faults: the history runs", Op: line, Got: answer, Want: "one answer per step"})
		return
	}
	poisoned := false // a read-only step has left an entry that could not be removed
	for i, st := range steps {
		if st.kind == "T" {
			continue
		}
		f := strings.SplitN(fields[i], ":", 3)
		if len(f) != 3 {
			r.fail(Failure{Oracle: "writer faults: the history runs", Op: line, Got: answer, Want: "status:token:ids"})
			return
		}
		status, _ := strconv.Atoi(f[0])
		token := f[1]
		r.count(tag + "/" + st.kind + ":" + f[0] + ":" + token)
		fail := func(oracle, wantText string) {
			r.fail(Failure{Oracle: oracle, Op: line, Got: fmt.Sprintf("step %d: status %d, output %s, entries {%s}", i, status, token, f[2]), Want: wantText})
		}
		switch {
		case token == "other":
			fail("under a writer fault a run shows the --no-cache bytes or, when a write of the tee failed, a prefix of them", "full | pre")
		case token == "pre" && status == 0:
			fail("a run whose output is cut short by a failed cache write does not exit 0", "a non-zero status")
		case token == "pre" && !(st.kind == "E" && st.limit > 0):
			fail("only a run whose cache entry cannot grow shows a prefix", "full")
		case token == "full" && status != want.status:
			fail("a run that shows the --no-cache bytes exits with the --no-cache status", fmt.Sprintf("status %d", want.status))
		case token == "pfx+full" && !poisoned:
			fail("after a writer fault in a writable cache directory the next run shows the --no-cache bytes (no bad entry is left)", "full")
		}
		if st.kind == "E" && (st.write || st.close) && !st.ro && f[2] != "" {
			fail("a run whose cache writer failed leaves no entry (the directory is writable)", "no entry")
		}
		if st.kind == "E" && st.ro && (st.write || st.close) && f[2] != "" {
			poisoned = true
			r.count("fault/unremovable entry left by a failed writer")
		}
		if token == "pfx+full" && poisoned {
			r.count("fault/wrong bytes served after an unremovable failed entry (transparent_under_faults_full_refuted)")
		}
		if st.kind == "N" && !poisoned && i+1 == len(steps) && f[2] == "" && want.status == 0 {
			fail("the last run, in the normal environment, seeds or replays an entry", "one entry")
		}
	}
}

// inRand: a FASTA record of n pseudo-random residues, rebuilt from (n, seed) on both ends
func inRand(n, seed int) cliInput {
	return cliInput{kind: "rand", n: n, raw: []byte(strconv.Itoa(seed))}
}
