package main

import (
	"fmt"
	"sort"
	"strings"

	"github.com/go-gts/gts"
)

// C12 — Repair and the sorting algorithm (Gts/Props/C12Sort.lean).
//
// gts.Repair sorts the members of every class with sort.Sort(Locations(…)): Go's pdqsort, which
// is the insertion sort of the model's `repair` only up to 12 elements and is not stable.
// LocationLess is a strict weak order with ties, so beyond 12 members the real code may return
// another sorted permutation than the model's insertion sort — and Repair's result depends on
// it (repair_sort_indep_full_refuted, pdqsort_witness).  The theorems therefore quantify over
// every correct sort (`repairWith sort`), and the real code is tied to them like this:
//
//   feat.repair.sorted (F…) ((l…)…)      the table, and for every class (first-occurrence order)
//                                         what the real sort.Sort(Locations(members)) returns —
//                                         recorded here, by calling it.  Implementation side:
//                                         gts.Repair on the table.  Model side: checks that every
//                                         recorded list is a sorted permutation of the class
//                                         (BADSORT otherwise) and answers repairWith (assocSort …).
//   feat.repair.sorted.rev               the same, the model visits the classes in reverse order
//   c12.k2.sorted (F…) ((l…)…)           model only: the K2 guard for the recorded order
//   c12.sortshape F…                     guards of Gts/Spec/RepairSortGuard.lean (Go re-statement
//                                         below): sortIndep tieFreeT bigClass, one bit each
//
// Tables with a class of more than 12 members go through these ops in c12Table; smaller ones
// through feat.repair (there sort.Sort IS the insertion sort).

func init() {
	extraOps["feat.repair.sorted"] = c12OpRepairSorted
	extraOps["feat.repair.sorted.rev"] = c12OpRepairSorted
	extraOps["c12.sortshape"] = func(a []sexp) string {
		ff := make([]gts.Feature, len(a))
		for i := range a {
			ff[i] = decFeature(a[i])
		}
		return c12SortShapeBits(ff)
	}
}

func c12OpRepairSorted(a []sexp) string {
	fs := a[0].list
	ff := make([]gts.Feature, len(fs))
	for i := range fs {
		ff[i] = decFeature(fs[i])
	}
	return c12EncTable(gts.Repair(ff))
}

// c12Big: some class has more than 12 members (beyond pdqsort's insertion-sort threshold).
func c12Big(ff []gts.Feature) bool {
	_, classes := c12Classes(ff, c12TextKey)
	for _, idx := range classes {
		if len(idx) > 12 {
			return true
		}
	}
	return false
}

// c12GoSorted: what the real sort.Sort makes of the members of every class, classes in
// first-occurrence order.
func c12GoSorted(ff []gts.Feature) [][]gts.Location {
	order, classes := c12Classes(ff, c12TextKey)
	out := make([][]gts.Location, len(order))
	for i, k := range order {
		locs := c12Locs(ff, classes[k])
		sort.Sort(gts.Locations(locs))
		out[i] = locs
	}
	return out
}

func c12SortedLine(op string, ff []gts.Feature) string {
	b := strings.Builder{}
	b.WriteString(op)
	b.WriteString(" ")
	b.WriteString(encList(c12EncFeats(ff)))
	b.WriteString(" (")
	for i, locs := range c12GoSorted(ff) {
		if i > 0 {
			b.WriteByte(' ')
		}
		b.WriteString(encList(c12EncLocs(locs)))
	}
	b.WriteString(")")
	return b.String()
}

// c12RepairLine: the protocol line that asks both sides for Repair(ff).
func c12RepairLine(ff []gts.Feature, rev bool) string {
	if c12Big(ff) {
		if rev {
			return c12SortedLine("feat.repair.sorted.rev", ff)
		}
		return c12SortedLine("feat.repair.sorted", ff)
	}
	if rev {
		return c12Line("feat.repair.rev", ff)
	}
	return c12Line("feat.repair", ff)
}

// c12K2Line: the model guard "K2 fires in the push loop of some class", for the order in which
// the real code pushes.
func c12K2Line(ff []gts.Feature) string {
	if c12Big(ff) {
		return c12SortedLine("c12.k2.sorted", ff)
	}
	return c12Line("c12.k2", ff)
}

// ---------------------------------------------------------------------------
// Go re-statement of the guards

func c12Comparable(a, b gts.Location) bool {
	return gts.LocationLess(a, b) || gts.LocationLess(b, a) || locEq(a, b)
}

func c12TieFree(locs []gts.Location) bool {
	for _, a := range locs {
		for _, b := range locs {
			if !c12Comparable(a, b) {
				return false
			}
		}
	}
	return true
}

// c12InertPair: pushing x onto a list whose last element is v appends x and changes nothing
// else (Loc.inertPair).
func c12InertPair(force bool, v, x gts.Location) bool {
	if _, ok := x.(gts.Joined); ok {
		return false
	}
	switch a := v.(type) {
	case gts.Between:
		switch b := x.(type) {
		case gts.Between:
			return int(a) != int(b)
		case gts.Point:
			return int(a) != int(b)
		case gts.Ranged:
			return int(a) != b.Start
		}
	case gts.Point:
		switch b := x.(type) {
		case gts.Between:
			return int(a)+1 != int(b)
		case gts.Point:
			return int(a) != int(b)
		case gts.Ranged:
			return int(a) != b.Start
		}
	case gts.Ranged:
		switch b := x.(type) {
		case gts.Between:
			return a.End != int(b)
		case gts.Point:
			return a.End != int(b)
		case gts.Ranged:
			return !(((a.Partial.Partial3 && b.Partial.Partial5) || force) && a.End == b.Start)
		}
	case gts.Complemented:
		if _, ok := x.(gts.Complemented); ok {
			return false
		}
	}
	return true
}

func c12Inert(force bool, locs []gts.Location) bool {
	for i, a := range locs {
		if _, ok := a.(gts.Joined); ok {
			return false
		}
		for j := i + 1; j < len(locs); j++ {
			if !c12InertPair(force, a, locs[j]) || !c12InertPair(force, locs[j], a) {
				return false
			}
		}
	}
	return true
}

// c12SortShapeBits: sortIndep tieFreeT bigClass.
func c12SortShapeBits(ff []gts.Feature) string {
	_, classes := c12Classes(ff, c12TextKey)
	indep, tieFree, big := true, true, false
	for _, idx := range classes {
		locs := c12Locs(ff, idx)
		tf := c12TieFree(locs)
		if !tf {
			tieFree = false
			if !c12Inert(ff[idx[0]].Key == "source", locs) {
				indep = false
			}
		}
		if len(idx) > 12 {
			big = true
		}
	}
	return b01(indep) + b01(tieFree) + b01(big)
}

// ---------------------------------------------------------------------------
// a stable re-implementation of Repair (what the model's `repair` computes): the statements of
// feature.go with sort.Sort replaced by the insertion sort

func c12InsertionSorted(locs []gts.Location) []gts.Location {
	out := append([]gts.Location{}, locs...)
	for i := 1; i < len(out); i++ {
		for j := i; j > 0 && gts.LocationLess(out[j], out[j-1]); j-- {
			out[j], out[j-1] = out[j-1], out[j]
		}
	}
	return out
}

func c12RepairWith(ff []gts.Feature, sorted func([]gts.Location) []gts.Location) (out []gts.Feature, panicked bool) {
	defer func() {
		if rec := recover(); rec != nil {
			out, panicked = nil, true
		}
	}()
	gg := make([]gts.Feature, len(ff))
	copy(gg, ff)
	order, classes := c12Classes(gg, c12TextKey)
	var keep []int
	for _, k := range order {
		indices := classes[k]
		locs := sorted(c12Locs(gg, indices))
		force := ff[indices[0]].Key == "source"
		list := gts.LocationList{}
		for _, loc := range locs {
			list.Push(loc, force)
		}
		locs = list.Slice()
		if len(locs) < len(indices) {
			for i, loc := range locs {
				gg[indices[i]].Loc = loc
			}
			indices = indices[:len(locs)]
		}
		keep = append(keep, indices...)
	}
	sort.Ints(keep)
	i := 0
	for _, j := range keep {
		gg[i] = gg[j]
		i++
	}
	return gg[:len(keep)], false
}

// ---------------------------------------------------------------------------
// oracles about the sort itself, and the statistics of the big classes

func c12SortOracles(r *Run, ff []gts.Feature, line string) {
	_, classes := c12Classes(ff, c12TextKey)
	bits := c12SortShapeBits(ff)
	r.op(c12Line("c12.sortshape", ff))
	ties, pdqDiffers := false, false
	for _, idx := range classes {
		if len(idx) <= 12 {
			continue
		}
		locs := c12Locs(ff, idx)
		if c12TieFree(locs) {
			r.count("big/class-size>12-tie-free")
		} else {
			r.count("class-size>12-with-ties")
			ties = true
		}
		r.count(fmt.Sprintf("big/class-size%d", minInt(10*(len(idx)/10), 40)))
		got := append([]gts.Location{}, locs...)
		sort.Sort(gts.Locations(got))
		// (S1) sort.Sort returns a sorted permutation (the hypothesis CorrectSort of the theorems)
		okSorted := true
		for i := range got {
			for j := i + 1; j < len(got); j++ {
				if gts.LocationLess(got[j], got[i]) {
					okSorted = false
				}
			}
		}
		cnt := map[string]int{}
		for _, l := range locs {
			cnt[encLoc(l)]++
		}
		for _, l := range got {
			cnt[encLoc(l)]--
		}
		for _, c := range cnt {
			if c != 0 {
				okSorted = false
			}
		}
		if !okSorted {
			r.fail(Failure{Oracle: "(sort) sort.Sort(Locations) returns a permutation in which no later element is Less than an earlier one",
				Op: line, Got: encList(c12EncLocs(got)), Want: "a sorted permutation of " + encList(c12EncLocs(locs))})
		}
		// (S3) sort.Sort leaves a sorted list alone (the hypothesis KeepsSorted of idempotent_with_partial)
		again := append([]gts.Location{}, got...)
		sort.Sort(gts.Locations(again))
		for i := range got {
			if !locEq(got[i], again[i]) {
				r.fail(Failure{Oracle: "(sort) sort.Sort(Locations) leaves a sorted list alone", Op: line,
					Got: encList(c12EncLocs(again)), Want: encList(c12EncLocs(got))})
				break
			}
		}
		ins := c12InsertionSorted(locs)
		for i := range got {
			if !locEq(got[i], ins[i]) {
				pdqDiffers = true
			}
		}
	}
	if pdqDiffers {
		r.count("big/pdqsort-differs-from-insertion-sort")
	}
	out, p1 := c12Run(ff)
	stable, p2 := c12RepairWith(ff, c12InsertionSorted)
	same := p1 == p2 && (p1 || c12EncTable(out) == c12EncTable(stable))
	if !same {
		r.count("big/repair-differs-from-insertion-sort-model")
	}
	// (S2) repair_sort_indep_partial on the real code: under the guard the real Repair is the
	// Repair of the insertion-sort model — asked of the model, too
	if bits[0] == '1' {
		r.count("big/guard-sortIndep")
		if ties {
			r.count("big/guard-sortIndep-with-ties")
		}
		r.op(c12Line("feat.repair", ff))
		if !same {
			r.fail(Failure{Oracle: "(sort) when every class is tie-free or inert Repair does not depend on the sorting algorithm",
				Op: line, Got: c12EncTable(out), Want: c12EncTable(stable)})
		}
	}
}

// ---------------------------------------------------------------------------
// generator: one class of 13..32 members over a short sequence (so that ties, duplicates and
// abutting fragments are frequent), possibly a second small class

func c12GenBigTable(r *rng) []gts.Feature {
	L := r.rangeInt(3, 10)
	n := r.rangeInt(13, 32)
	cls := []c12Class{c12ClassPool[r.intn(len(c12ClassPool))], c12ClassPool[r.intn(len(c12ClassPool))]}
	mode := r.intn(4)
	var members [2][]gts.Location
	var ff []gts.Feature
	add := func(c int, l gts.Location) {
		members[c] = append(members[c], l)
		ff = append(ff, gts.Feature{Key: cls[c].key, Loc: l, Props: cls[c].props})
	}
	for i := 0; i < n; i++ {
		var l gts.Location
		switch mode {
		case 0: // forward ranges only (plain), many equal spans with different partial markers
			s := r.intn(L)
			l = gts.Ranged{Start: s, End: minInt(L, s+1+r.intn(2)), Partial: partials[r.intn(4)]}
		case 1: // sites and one-base ranges at few positions: Point / Ranged / Between ties
			p := r.intn(L)
			switch r.intn(4) {
			case 0:
				l = gts.Point(p)
			case 1:
				l = gts.Between(p)
			case 2:
				l = gts.Ranged{Start: p, End: p + 1, Partial: partials[r.intn(4)]}
			default:
				l = gts.Complemented{Location: gts.Range(p, p+1)}
			}
		case 2: // strictly increasing starts, then shuffled: tie-free
			l = gts.Ranged{Start: 2 * i, End: 2*i + 1 + r.intn(2), Partial: partials[r.intn(4)]}
		default:
			l = c12GenMember(r, L, members[0])
		}
		add(0, l)
	}
	for i := r.intn(4); i > 0; i-- {
		add(1, c12GenMember(r, L, members[1]))
	}
	for i := len(ff) - 1; i > 0; i-- {
		j := r.intn(i + 1)
		ff[i], ff[j] = ff[j], ff[i]
	}
	if r.intn(4) == 0 {
		var sorted gts.FeatureSlice
		for _, f := range ff {
			sorted = sorted.Insert(f)
		}
		return sorted
	}
	return ff
}

// c12SortFixed: the witnesses of Gts/Props/C12Sort.lean.
func c12SortFixed() [][]gts.Feature {
	g := func(l gts.Location) gts.Feature { return gts.Feature{Key: "gene", Loc: l, Props: gts.Props{}} }
	cds := func(l gts.Location) gts.Feature { return gts.Feature{Key: "CDS", Loc: l, Props: gts.Props{}} }
	// pdqsort_witness
	w := []gts.Location{gts.Point(3), gts.Range(14, 15), gts.Range(10, 11), gts.Range(3, 4), gts.Range(32, 33), gts.Range(12, 13),
		gts.Range(16, 17), gts.Range(20, 21), gts.Range(18, 19), gts.Range(22, 23), gts.Range(26, 27), gts.Range(30, 31), gts.Range(34, 35)}
	big := make([]gts.Feature, len(w))
	for i, l := range w {
		big[i] = g(l)
	}
	return [][]gts.Feature{
		{g(gts.Point(3)), g(gts.Range(3, 4))},
		{g(gts.Range(3, 4)), g(gts.Point(3))},
		{g(gts.PartialRange(3, 5, gts.Partial3)), g(gts.PartialRange(3, 5, gts.Partial5)), g(gts.PartialRange(5, 8, gts.Partial5))},
		{g(gts.PartialRange(3, 5, gts.Partial5)), g(gts.PartialRange(3, 5, gts.Partial3)), g(gts.PartialRange(5, 8, gts.Partial5))},
		{g(gts.PartialRange(3, 5, gts.Partial5)), g(gts.PartialRange(3, 5, gts.Partial3)), g(gts.PartialRange(5, 8, gts.Partial5)),
			g(gts.PartialRange(10, 12, gts.Partial3)), g(gts.PartialRange(12, 15, gts.Partial5))},
		{g(gts.PartialRange(3, 5, gts.Partial3)), g(gts.PartialRange(3, 5, gts.Partial5)), g(gts.PartialRange(5, 8, gts.Partial5)), g(gts.Range(10, 15))},
		{g(gts.Range(0, 3)), g(gts.Point(3)), g(gts.Range(3, 4))},
		{g(gts.PartialRange(0, 3, gts.Partial3)), cds(gts.Complemented{Location: gts.Range(3, 5)}), g(gts.PartialRange(3, 6, gts.Partial5)),
			cds(gts.Range(3, 5)), g(gts.Point(9)), cds(gts.PartialRange(3, 5, gts.Partial5)), cds(gts.PartialRange(3, 5, gts.Partial3))},
		big,
	}
}
