package main

// C18 at scale: Search on sequences of a few MiB with occurrences at and around power-of-two
// offsets (an index built block by block loses a hit at a block edge: seeded change C18-h), and
// Match with very long runs of one query letter (a counted repetition `x{n}` is refused by
// regexp above 1000: seeded change C18-g).  Oracle only (a naive scan); the cases are named by
// the replayable op `nuc.big …`, which regenerates the input.

import (
	"bytes"
	"fmt"
	"strconv"
	"strings"

	"github.com/go-gts/gts"
)

func init() {
	extraOps["nuc.big"] = func(a []sexp) string {
		if len(a) < 2 {
			return "ERR"
		}
		v, _ := strconv.Atoi(a[1].atom)
		switch a[0].atom {
		case "search":
			return c18BigSearch(v)
		case "match":
			if len(a) < 3 {
				return "ERR"
			}
			n, _ := strconv.Atoi(a[2].atom)
			return c18BigMatch(byte(v), n)
		case "complement":
			return c18BigComplement(v)
		case "reuse":
			return c18SearchReuse(v)
		}
		return "ERR"
	}
}

// c18BigSeq: 2 MiB + 64 residues over {c, g} with the motif `atta` planted so that it starts
// (2^k - j) for k = 10..21 and an offset j in 0..4 that depends on k and the variant
func c18BigSeq(variant int) ([]byte, []byte) {
	L := 2<<20 + 64
	seq := make([]byte, L)
	x := uint32(12345 + variant)
	for i := range seq {
		x = x*1664525 + 1013904223
		seq[i] = "cg"[(x>>16)&1]
	}
	motif := []byte("atta")
	for k := 10; k <= 21; k++ {
		p := 1<<k - (k+variant)%5
		if p >= 0 && p+len(motif) <= L {
			copy(seq[p:], motif)
		}
	}
	if variant%2 == 1 {
		for i := range seq {
			if i%3 == 0 && seq[i] >= 'a' {
				seq[i] -= 32
			}
		}
	}
	return seq, motif
}

func c18BigSearch(variant int) string {
	seq, motif := c18BigSeq(variant)
	return guarded(func() string {
		got := gts.Search(gts.New(nil, nil, seq), gts.New(nil, nil, motif))
		low := lowerASCII(seq)
		var want []int
		for i := 0; ; {
			j := bytes.Index(low[i:], motif)
			if j < 0 {
				break
			}
			want = append(want, i+j)
			i += j + 1
		}
		var g []string
		for _, s := range got {
			g = append(g, strconv.Itoa(s[0]))
		}
		var w []string
		for _, p := range want {
			w = append(w, strconv.Itoa(p))
		}
		if strings.Join(g, ",") == strings.Join(w, ",") {
			return "ok " + strconv.Itoa(len(w))
		}
		return "got " + strings.Join(g, ",") + " want " + strings.Join(w, ",")
	})
}

func c18BigMatch(letter byte, n int) string {
	query := bytes.Repeat([]byte{letter}, n)
	seq := bytes.Repeat([]byte("acgt"), (n+40)/4+1)
	if letter != 'n' {
		copy(seq[7:], bytes.Repeat([]byte{letter}, n))
	}
	return guarded(func() string {
		got := gts.Match(gts.New(nil, nil, seq), gts.New(nil, nil, query))
		// naive leftmost non-overlapping scan with the containment relation of the small-scope oracle
		var want []gts.Segment
		for i := 0; i+n <= len(seq); {
			ok := true
			for j := 0; j < n && ok; j++ {
				ok = c18Rel(letter, seq[i+j]) == 1
			}
			if ok {
				want = append(want, gts.Segment{i, i + n})
				i += n
			} else {
				i++
			}
		}
		if encSegs(got) == encSegs(want) {
			return "ok " + strconv.Itoa(len(want))
		}
		return "got " + encSegs(got) + " want " + encSegs(want)
	})
}

// c18BigComplement: Complement and Transcribe on 1 MiB + k residues (a table-driven or chunked /
// parallel rewrite must treat every residue, also the last len % workers ones: seeded change W1-2)
func c18BigComplement(k int) string {
	n := 1<<20 + k
	seq := make([]byte, n)
	x := uint32(99 + k)
	for i := range seq {
		x = x*1664525 + 1013904223
		seq[i] = c18Letters[int(x>>16)%len(c18Letters)]
		if (x>>9)&7 == 0 {
			seq[i] = byte(x >> 20) // any byte, also outside the alphabet
		}
	}
	return guarded(func() string {
		for pass, f := range []func(gts.Sequence) gts.Sequence{gts.Complement, gts.Transcribe} {
			got := f(gts.New(nil, nil, seq)).Bytes()
			if len(got) != n {
				return fmt.Sprintf("pass %d: length %d, want %d", pass, len(got), n)
			}
			for i, c := range seq {
				want := c
				if c18IsLetter(c) {
					want = c18LetterOf(c18ComplSet(c18BaseSet(c)), c18IsUpper(c), pass == 1)
				}
				if got[i] != want {
					return fmt.Sprintf("pass %d (0 complement, 1 transcribe): residue %d of %d: %q became %q, want %q", pass, i, n, c, got[i], want)
				}
			}
		}
		return "ok"
	})
}

// c18SearchReuse: two searches through ONE buffer that is refilled in between (same address, same
// length, other residues): each search answers for the residues it is given (seeded change W2-2:
// a suffix array memoised by address and length)
func c18SearchReuse(v int) string {
	n := 64 + v*37
	buf := make([]byte, n)
	fill := func(seed uint32, at []int) {
		x := seed
		for i := range buf {
			x = x*1664525 + 1013904223
			buf[i] = "cg"[(x>>16)&1]
		}
		for _, p := range at {
			copy(buf[p:], "atta")
		}
	}
	naive := func() string {
		var w []string
		low := lowerASCII(buf)
		for i := 0; i+4 <= len(low); i++ {
			if string(low[i:i+4]) == "atta" {
				w = append(w, strconv.Itoa(i))
			}
		}
		return strings.Join(w, ",")
	}
	return guarded(func() string {
		seqv := gts.New(nil, nil, buf)
		for round, at := range [][]int{{3, 20}, {7, 40, n - 4}, {}, {11}} {
			fill(uint32(7+round), at)
			var g []string
			for _, s := range gts.Search(seqv, gts.New(nil, nil, []byte("atta"))) {
				g = append(g, strconv.Itoa(s[0]))
			}
			if got, want := strings.Join(g, ","), naive(); got != want {
				return fmt.Sprintf("round %d on the refilled buffer: got %s want %s", round, got, want)
			}
		}
		return "ok"
	})
}

func c18Big(r *Run) {
	for _, k := range []int{0, 1, 5, 13} {
		if r.tier != "thorough" && k != 5 && k != 13 {
			continue
		}
		line := fmt.Sprintf("nuc.big complement %d", k)
		crumb(line)
		out := c18BigComplement(k)
		r.count("big/complement")
		r.eval(line, true)
		if out != "ok" {
			r.fail(Failure{Oracle: "complement / transcribe map every residue of a sequence of 1 MiB + k residues as the alphabet says", Op: line, Got: out})
		}
	}
	for v := 0; v < 4; v++ {
		line := fmt.Sprintf("nuc.big reuse %d", v)
		crumb(line)
		out := c18SearchReuse(v)
		r.count("big/search-buffer-reuse")
		r.eval(line, true)
		if out != "ok" {
			r.fail(Failure{Oracle: "search answers for the residues it is given, also when the same buffer (address, length) was searched before with other residues", Op: line, Got: out})
		}
	}
	variants := []int{0, 1}
	if r.tier == "thorough" {
		variants = []int{0, 1, 2, 3, 4}
	}
	for _, v := range variants {
		line := fmt.Sprintf("nuc.big search %d", v)
		crumb(line)
		out := c18BigSearch(v)
		r.count("big/search")
		r.eval(line, true)
		if !strings.HasPrefix(out, "ok") {
			if len(out) > 300 {
				out = out[:300] + "…"
			}
			r.fail(Failure{Oracle: "search reports exactly the occurrences, also in a sequence of 2 MiB with hits at and around power-of-two offsets", Op: line, Got: out})
		}
	}
	for _, letter := range []byte{'n', 'a', 'w'} {
		for _, n := range []int{999, 1000, 1001, 1500} {
			if r.tier != "thorough" && letter != 'n' && n != 1001 {
				continue
			}
			line := fmt.Sprintf("nuc.big match %d %d", letter, n)
			crumb(line)
			out := c18BigMatch(letter, n)
			r.count("big/match")
			r.eval(line, true)
			if !strings.HasPrefix(out, "ok") {
				if len(out) > 300 {
					out = out[:300] + "…"
				}
				r.fail(Failure{Oracle: "match with a run of " + strconv.Itoa(n) + " identical query letters: never a crash, exactly the leftmost non-overlapping windows", Op: line, Got: out})
			}
		}
	}
	r.notes = append(r.notes, "at scale (oracle only): search in 2 MiB + 64 residues with the motif at 2^k - j (k = 10..21), match with runs of 999..1500 identical query letters")
}
