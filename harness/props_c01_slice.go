package main

// C01 — gts.Slice at the RECORD level (lean/Gts/Props/C01Slice.lean, model
// lean/Gts/Model/GbSliceRec.lean).
//
//   gb.slice record start end → record' (F…) | PANIC
//       gts.Slice on a seqio.GenBank: header and residues of the result in the record encoding (empty
//       table), then its feature table.  Ties `sliceRecord` — GenBankFields.Slice on whole references,
//       the window the header sees (wrap-around: (0, L-start+end), the header is not rotated), REGION
//       set, topology linear — to the real code; table and residues are C03's Seq.slice.
//
// c01SliceCases: a stream of sliced records (forward, empty, negative-index and wrap-around windows,
// references whose base ranges sit at the window's ends, 1/9/19-digit numbers, no reference left)
// goes to both sides as gb.slice, and the record the real code returns goes through the record oracle
// of C01 (gb.write / gb.read / gb.wrw on both sides; read(write r) = r up to the EXACT statement of
// K1A: accession + " REGION: a..b", no region; byte fixed point).  Oracles on the real code:
// REGION = the window, topology linear, numbers 1..m, every info Slice rewrote re-parses to ranges
// inside the window (sliced_refinfo_reparses), parse(print ranges) = ranges (refinfo_roundtrip).

import (
	"fmt"
	"strconv"
	"strings"

	"github.com/go-gts/gts"
	"github.com/go-gts/gts/seqio"
)

func init() {
	extraOps["gb.slice"] = func(a []sexp) string {
		gb := decRecord(a[0])
		out := gts.Slice(gb, decInt(a[1]), decInt(a[2]))
		f, ok := out.Info().(seqio.GenBankFields)
		if !ok {
			return "ERR"
		}
		fs := make([]string, len(out.Features()))
		for i, ft := range out.Features() {
			fs[i] = encFeature(ft)
		}
		return encRecord(seqio.GenBank{Fields: f, Origin: seqio.NewOrigin(out.Bytes())}) + " " + encList(fs)
	}
}

// sliceHeaderWindow: the window GenBankFields.Slice is called with (own restatement of
// sliceWindow / sliceWindowOk of Model/GbSliceRec.lean).
func sliceHeaderWindow(L, a, b int) (wa, wb int, ok bool) {
	if a < 0 {
		a += L
	}
	if b < 0 {
		b += L
	}
	if b < a {
		return 0, L - a + b, L > 0 && L-a+b >= 0
	}
	return a, b, 0 <= a && b <= L
}

// genSliceWindow: (start, end, kind) for a sequence of L residues.
func genSliceWindow(r *rng, L int) (int, int, string) {
	switch k := r.intn(12); {
	case k == 0:
		a := r.intn(L + 1)
		return a, a, "empty"
	case k == 1:
		return 0, L, "whole"
	case k <= 3 && L > 0:
		// wrap-around: end < start, any topology (gts.Slice does not look at it)
		s := r.rangeInt(1, L)
		e := r.intn(s)
		return s, e, "wrap"
	case k == 4 && L > 0:
		// negative indices count from the end
		a := r.intn(L)
		b := r.rangeInt(a, L-1)
		if r.bool() {
			return a - L, b, "negative-start"
		}
		return a - L, b - L, "negative-both"
	case k == 5:
		// outside: the real code panics (seq.Bytes()[start:end]); the model answers PANIC
		a := r.intn(L + 1)
		return a, L + 1 + r.intn(3), "outside"
	default:
		a := r.intn(L + 1)
		b := r.rangeInt(a, L)
		return a, b, "forward"
	}
}

// genSliceRefs: references whose infos sit at the ends of the header window [wa, wb).
func genSliceRefs(r *rng, mol gts.Molecule, wa, wb int) []seqio.Reference {
	P := mol.Counter()
	other := "bases"
	if P == "bases" {
		other = "residues"
	}
	rng1 := func(s, e int) string { return fmt.Sprintf("%d to %d", s, e) }
	one := func(p string, parts ...string) string { return "(" + p + " " + strings.Join(parts, "; ") + ")" }
	outside := []string{
		one(P, rng1(wb+1, wb+5)),                   // starts at the window's end
		one(P, rng1(wb+1, wb+1)),                   // one base behind it
		one(P, rng1(wb+2, 999999999)),              // nine digits, behind
		one(P, rng1(wb+1, wb+2), rng1(wb+9, wb+9)), // two ranges, both behind
	}
	if wa >= 1 {
		outside = append(outside, one(P, rng1(1, wa)), one(P, rng1(wa, wa))) // end at the window's start
	}
	inside := []string{
		one(P, rng1(wa+1, wb)),               // the window itself
		one(P, rng1(1, 999999999)),           // 1 digit / 9 digits
		one(P, rng1(1, 1000000000)),          // 10 digits
		one(P, rng1(1, 9223372036854775807)), // 19 digits: the largest int
		one(P, rng1(wa+1, wa+1)),             // first base of the window
		one(P, rng1(wb, wb)),                 // last base of the window
		one(P, rng1(wb, wb+1)),               // across the window's end
		one(P, rng1(1, wa+1), rng1(wb, wb+7), rng1(wb+1, wb+2)),
		one(P, rng1(0, 1)), one(P, rng1(-3, wb)), // start -1 / -4: read as ranges (Atoi takes a sign)
	}
	if wa >= 1 {
		inside = append(inside, one(P, rng1(wa, wa+1))) // across the window's start
	}
	verbatim := []string{
		"", "(sites)", one(other, rng1(1, 9)), "5 x", " x", one(P, "1 to"), one(P, rng1(5, 4)), one(P, rng1(1, 0)),
		one(P, "1 to 9223372036854775808"), one(P, "01 to 5"), one(P, rng1(1, 5)) + " extra", "(" + P + " 1 to 5",
		one(P, "1 to 5;6 to 7"),
	}
	n := r.rangeInt(1, 5)
	mode := r.intn(4) // 0: everything outside (m = 0 or only verbatim ones), else mixed
	refs := make([]seqio.Reference, n)
	for i := range refs {
		ref := genReference(r, i)
		switch {
		case mode == 0:
			ref.Info = r.pick(outside)
		case r.intn(5) == 0:
			ref.Info = r.pick(verbatim)
		case r.intn(4) == 0:
			ref.Info = r.pick(outside)
		default:
			ref.Info = r.pick(inside)
		}
		refs[i] = ref
	}
	return refs
}

var sliceRefRe = refRe // `^\((bases|residues) (\d+ to \d+(?:; \d+ to \d+)*)\)$` (props_c03_refs.go)

// c01SliceCases: see the head of the file.
func c01SliceCases(r *Run, pool []seqio.GenBank, n int) {
	for i := 0; i < n; i++ {
		var gb seqio.GenBank
		if i%4 == 0 && len(pool) > 0 {
			gb = pool[r.rng.intn(len(pool))]
		} else {
			gb = genCase(r.rng, false).gb
		}
		L := gts.Len(gb)
		a, b, kind := genSliceWindow(r.rng, L)
		wa, wb, ok := sliceHeaderWindow(L, a, b)
		if r.rng.intn(3) != 0 {
			f := gb.Fields
			f.References = genSliceRefs(r.rng, f.Molecule, wa, wb)
			gb = seqio.GenBank{Fields: f, Table: gb.Table, Origin: gb.Origin}
		}
		line := fmt.Sprintf("gb.slice %s %d %d", encRecord(gb), a, b)
		out := r.op(line)
		r.count("slice/window/" + kind)
		if !ok {
			if out != "PANIC" {
				r.fail(Failure{Oracle: "gts.Slice outside the sequence panics (the model's domain sliceWindowOk is the code's)", Op: line, Got: out, Want: "PANIC"})
			}
			continue
		}
		if out == "PANIC" || out == "ERR" {
			r.fail(Failure{Oracle: "gts.Slice of a GenBank record on a window inside the sequence returns a GenBank record", Op: line, Got: out})
			continue
		}
		var sliced gts.Sequence
		func() {
			defer func() { recover() }()
			sliced = gts.Slice(gb, a, b)
		}()
		if sliced == nil {
			continue
		}
		f := sliced.Info().(seqio.GenBankFields)
		if seg, isSeg := f.Region.(gts.Segment); !isSeg || seg != (gts.Segment{wa, wb}) || f.Topology != gts.Linear {
			r.fail(Failure{Oracle: "Slice sets REGION to the window the header sees and makes the record linear", Op: line,
				Got: fmt.Sprintf("%v %v", f.Region, f.Topology), Want: fmt.Sprintf("[%d %d] linear", wa, wb)})
		}
		// the references: numbers 1..m; what Slice rewrote re-parses to ranges inside the window
		pref := gb.Fields.Molecule.Counter()
		for k, ref := range f.References {
			if ref.Number != k+1 {
				r.fail(Failure{Oracle: "the kept references are numbered 1..m", Op: line, Got: itoa(ref.Number), Want: itoa(k + 1)})
			}
		}
		kept, rewritten := 0, 0
		for _, ref := range gb.Fields.References {
			locs, parsed := seqio.VerifParseReferenceInfo(pref, ref.Info)
			if !parsed {
				kept++
				continue
			}
			olap := 0
			for _, l := range locs {
				if gts.LocationOverlap(l, wa, wb) {
					olap++
				}
			}
			if olap == 0 {
				continue
			}
			if kept < len(f.References) {
				info := f.References[kept].Info
				back, ok2 := seqio.VerifParseReferenceInfo(pref, info)
				good := ok2 && len(back) == olap && sliceRefRe.MatchString(info)
				for _, l := range back {
					good = good && 0 <= l.Start && l.Start < l.End && l.End <= wb-wa
				}
				if wa < wb && !good {
					r.fail(Failure{Oracle: "the info Slice writes re-parses to as many ranges as overlapped, each inside [0, window length]", Op: line,
						Got: info, Want: fmt.Sprintf("%d ranges inside 1..%d", olap, wb-wa)})
				}
				rewritten++
			}
			kept++
		}
		if kept != len(f.References) {
			r.fail(Failure{Oracle: "Slice keeps exactly the unparsable references and those with a range overlapping the window", Op: line,
				Got: itoa(len(f.References)), Want: itoa(kept)})
		}
		switch {
		case len(gb.Fields.References) > 0 && len(f.References) == 0:
			r.count("slice/refs/none-left")
		case rewritten > 0:
			r.count("slice/refs/rewritten")
		default:
			r.count("slice/refs/kept-or-none")
		}
		r.eval("slice|"+line, true)
		checkSequence(r, "slice/"+kind, sliced)
		if i < 3 {
			r.sample(line)
		}
	}
}

// c01RefInfoBoundary: parse(print ranges) = ranges at boundary values, and near misses, on both sides.
func c01RefInfoBoundary(r *Run) {
	nums := []int{1, 2, 9, 10, 99, 100, 999, 1000, 99999999, 100000000, 999999999, 1000000000, 2147483647, 2147483648,
		999999999999999999, 9223372036854775806, 9223372036854775807}
	for _, pref := range []string{"bases", "residues"} {
		for i, s := range nums {
			for _, e := range nums[i:] {
				ranges := [][2]int{{s, e}}
				if (s+e)%3 == 0 {
					ranges = append(ranges, [2]int{1, s}, [2]int{e, e})
				}
				parts := make([]string, len(ranges))
				want := make([]string, len(ranges))
				for k, x := range ranges {
					parts[k] = fmt.Sprintf("%d to %d", x[0], x[1])
					want[k] = fmt.Sprintf("(R %d %d 0 0)", x[0]-1, x[1])
				}
				info := fmt.Sprintf("(%s %s)", pref, strings.Join(parts, "; "))
				line := "gb.refinfo " + encStr(pref) + " " + encStr(info)
				out := r.op(line)
				r.count("refinfo/boundary")
				r.eval("refinfo|"+pref+info, true)
				if exp := encList(want); out != exp {
					r.fail(Failure{Oracle: "parseReferenceInfo(print ranges) = ranges (1 <= a <= b <= 2^63-1)", Op: line, Got: out, Want: exp})
				}
			}
		}
		for _, info := range []string{
			"(" + pref + " )", "(" + pref + ")", "(" + pref + " 1 to 9223372036854775808)", "(" + pref + " 9223372036854775808 to 9223372036854775809)",
			"(" + pref + " 0 to 0)", "(" + pref + " 0 to 1)", "(" + pref + " -1 to 1)", "(" + pref + " +1 to +2)", "(" + pref + " 1 to 01)",
			"(" + pref + " 00 to 5)", "(" + pref + " 1  to 5)", "(" + pref + " 1 to 5 )", "(" + pref + " 1 to 5;)", "(" + pref + " 1 to 5; )",
			"(" + pref + " 1 to 5; 7 to 6)", "(" + pref + " 1 to 5; 7 to 7)x", " (" + pref + " 1 to 5)", "(" + strings.ToUpper(pref) + " 1 to 5)",
			"(" + pref + " 1 to 5\n)", "(" + pref + " 1 to " + strconv.Itoa(1<<62) + "; 1 to 2)",
		} {
			r.op("gb.refinfo " + encStr(pref) + " " + encStr(info))
			r.count("refinfo/near-miss")
		}
	}
	// gb.sliceref: a window touching a range end, from both sides, and the empty window inside a range
	for _, c := range []struct {
		a, b int
		info string
	}{
		{5, 10, "(bases 1 to 5)"}, {5, 10, "(bases 1 to 6)"}, {5, 10, "(bases 11 to 20)"}, {5, 10, "(bases 10 to 20)"},
		{5, 10, "(bases 6 to 10)"}, {5, 10, "(bases 1 to 999999999)"}, {0, 999999999, "(bases 1 to 999999999)"},
		{1, 1000000000, "(bases 1 to 999999999; 1000000000 to 1000000001)"}, {5, 5, "(bases 1 to 10)"}, {0, 0, "(bases 1 to 10)"},
		{5, 5, "(bases 5 to 6)"}, {0, 9223372036854775807, "(bases 1 to 9223372036854775807)"},
	} {
		r.op(fmt.Sprintf("gb.sliceref %s %d %d %s", encStr("bases"), c.a, c.b, encStr(c.info)))
		r.count("refinfo/sliceref-boundary")
	}
}

// c01SliceRenumber: the shape of writable_slice_full_refuted — 100 references with an info that
// starts with a digit; after Slice the hundredth is written `REFERENCE   1005 x` and read back as
// number 1005, info " x" (the text is still a write-read-write fixed point).  Correspondence only:
// model and code agree on the sliced record, its text and what is read from it.
func c01SliceRenumber(r *Run) {
	f := seqio.GenBankFields{LocusName: "X", Molecule: gts.DNA, Date: seqio.Date{Year: 2020, Month: 2, Day: 29}}
	for i := 0; i < 100; i++ {
		f.References = append(f.References, seqio.Reference{Number: 1, Info: "5 x"})
	}
	gb := seqio.GenBank{Fields: f, Origin: seqio.NewOrigin([]byte("ac"))}
	r.op(fmt.Sprintf("gb.slice %s 0 1", encRecord(gb)))
	sliced := gts.Slice(gb, 0, 1)
	out := seqio.GenBank{Fields: sliced.Info().(seqio.GenBankFields), Table: sliced.Features(), Origin: seqio.NewOrigin(sliced.Bytes())}
	reg := encRegistry(registry{})
	text := r.op("gb.write " + reg + " " + encRecord(out))
	if strings.HasPrefix(text, "x") {
		r.op("gb.read " + reg + " " + text)
		r.op("gb.wrw " + reg + " " + text)
	}
	r.count("slice/renumber-to-3-digits(correspondence only)")
}
