package main

// C12 at the CLI step: the real binary `gts repair` against gts.Repair on the table (which this check verifies
// on its own).  Oracle only.

import (
	"fmt"

	"github.com/go-gts/gts"
)

func c12CliRepair(r *Run) {
	n := 50
	if r.tier == "thorough" {
		n = 400
	}
	done, merged := 0, 0
	for t := 0; t < 30*n && done < n; t++ {
		L := 10 + r.rng.intn(16)
		seq := cliRecord(r.rng, c12GenTable(r.rng, L, 6), L, "acgt")
		if seq == nil || len(seq.Features()) < 2 {
			continue
		}
		in := append([]gts.Feature{}, seq.Features()...)
		out, panicked := c12Run(in)
		if panicked {
			continue
		}
		nilLoc := false
		for _, f := range out {
			if f.Loc == nil {
				nilLoc = true
			}
		}
		if nilLoc {
			continue
		}
		done++
		if len(out) < len(in) {
			merged++
			r.count("cli-repair/merged")
		} else {
			r.count("cli-repair/unchanged-count")
		}
		line := fmt.Sprintf("cli.repair | %s", encSeq(seq))
		cliOneRecord(r, "repair", "gts repair writes every record with gts.Repair of its whole table, residues as they are",
			[]string{"repair", "--no-cache"}, nil, seq, gts.New(nil, gts.FeatureSlice(out), seq.Bytes()), line)
	}
	r.notes = append(r.notes, fmt.Sprintf("gts repair on the real binary: %d records of 2..6 features in 1..3 classes (%d with a class that Repair reduces)", done, merged))
}
