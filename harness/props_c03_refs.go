package main

import (
	"fmt"
	"regexp"
	"strconv"
	"strings"

	"github.com/go-gts/gts"
	"github.com/go-gts/gts/seqio"
)

func init() {
	extraOps["gb.sliceref"] = func(a []sexp) string {
		mol := gts.DNA
		if string(decBytes(a[0])) == "residues" {
			mol = gts.AA
		}
		gbf := seqio.GenBankFields{Molecule: mol}
		for i, x := range a[3:] {
			gbf.References = append(gbf.References, seqio.Reference{Number: i + 100, Info: string(decBytes(x))})
		}
		out := gbf.Slice(decInt(a[1]), decInt(a[2])).(seqio.GenBankFields)
		xs := make([]string, len(out.References))
		for i, r := range out.References {
			xs[i] = fmt.Sprintf("(%d %s)", r.Number, encStr(r.Info))
		}
		return encList(xs)
	}
	extraOps["gb.sliceref2"] = func(a []sexp) string {
		mol := gts.DNA
		if string(decBytes(a[0])) == "residues" {
			mol = gts.AA
		}
		gbf := seqio.GenBankFields{Molecule: mol}
		for i, x := range a[5:] {
			gbf.References = append(gbf.References, seqio.Reference{Number: i + 100, Info: string(decBytes(x))})
		}
		mid := gbf.Slice(decInt(a[1]), decInt(a[2])).(seqio.GenBankFields)
		out := mid.Slice(decInt(a[3]), decInt(a[4])).(seqio.GenBankFields)
		xs := make([]string, len(out.References))
		for i, r := range out.References {
			xs[i] = fmt.Sprintf("(%d %s)", r.Number, encStr(r.Info))
		}
		return encList(xs)
	}
	extraOps["gb.refinfo"] = func(a []sexp) string {
		locs, ok := seqio.VerifParseReferenceInfo(string(decBytes(a[0])), string(decBytes(a[1])))
		if !ok {
			return "ERR"
		}
		xs := make([]string, len(locs))
		for i, l := range locs {
			xs[i] = encLoc(l)
		}
		return encList(xs)
	}
}

var refRe = regexp.MustCompile(`^\((bases|residues) (\d+ to \d+(?:; \d+ to \d+)*)\)$`)

// c03WantRefs: the property's clause for a forward window [a, b) — an independent statement, not the code's:
// every well-formed range is clipped to the window, re-based, dropped when disjoint; an info that is not a
// base range of the record's counter word (or holds an inverted range) is kept as it is.
func c03WantRefs(pref string, infos []string, a, b int) []string {
	var want []string
	for _, in := range infos {
		m := refRe.FindStringSubmatch(in)
		if m == nil || m[1] != pref {
			want = append(want, in)
			continue
		}
		var kept []string
		inverted := false
		for _, part := range strings.Split(m[2], "; ") {
			var s, e int
			fmt.Sscanf(part, "%d to %d", &s, &e)
			if e <= s-1 {
				inverted = true
			}
		}
		if inverted { // not a base range: kept as it is
			want = append(want, in)
			continue
		}
		for _, part := range strings.Split(m[2], "; ") {
			var s, e int
			fmt.Sscanf(part, "%d to %d", &s, &e)
			lo, hi := s-1, e // 0-based half-open
			if lo < b && a < hi {
				cl, ch := maxInt(lo, a)-a, minInt(hi, b)-a
				kept = append(kept, strconv.Itoa(cl+1)+" to "+strconv.Itoa(ch))
			}
		}
		if len(kept) > 0 {
			want = append(want, fmt.Sprintf("(%s %s)", pref, strings.Join(kept, "; ")))
		}
	}
	return want
}

// c03Refs: REFERENCE base ranges after Slice are clipped to the window, re-based, dropped when
// disjoint and renumbered consecutively (independent re-statement on well-formed infos).
func c03Refs(r *Run) {
	n := 3000
	if r.tier == "thorough" {
		n = 30000
	}
	for t := 0; t < n; t++ {
		L := r.rng.rangeInt(5, 60)
		a := r.rng.intn(L)
		b := r.rng.rangeInt(a, L)
		pref := "bases"
		if r.rng.intn(6) == 0 {
			pref = "residues"
		}
		nrefs := r.rng.rangeInt(1, 4)
		infos := make([]string, nrefs)
		wellFormed := true
		for i := range infos {
			switch r.rng.intn(10) {
			case 0:
				infos[i] = "" // no info
			case 1:
				infos[i] = "(sites)"
			case 2:
				// near-miss shapes: other counter word, missing paren, extra text
				infos[i] = r.rng.pick([]string{"(bases 1 to)", "(residues 1 to 5)", "(bases 1 to 5", "(bases 1 to 5) extra", "(bases 1 to 5;6 to 7)", "(bases 01 to 5)", "(bases +1 to 5)", "(bases 1 to 5; )",
					"(bases -4 to 2)", "(bases 0 to 0)", "(bases 1 to -1)", "(bases 3 to 9; -2 to 1)", "(bases 99999999999999999999 to 5)"})
				wellFormed = false
			default:
				k := r.rng.rangeInt(1, 3)
				parts := make([]string, k)
				for j := range parts {
					// biased to window edges
					cands := []int{a, a + 1, b, b + 1, 1, L, r.rng.rangeInt(1, L)}
					s := cands[r.rng.intn(len(cands))]
					if s < 1 {
						s = 1
					}
					e := s + r.rng.intn(L)
					if r.rng.intn(4) == 0 {
						ec := []int{a, a + 1, b, b + 1}
						e = maxInt(s, ec[r.rng.intn(4)])
					}
					if r.rng.intn(8) == 0 {
						// inverted or empty range: a..a-1, or further back (the info is then kept verbatim)
						e = s - 1 - r.rng.intn(3)
						if e < 0 {
							e = 0
						}
						r.count("slice-refs/inverted-range")
					}
					parts[j] = fmt.Sprintf("%d to %d", s, e)
				}
				infos[i] = fmt.Sprintf("(%s %s)", pref, strings.Join(parts, "; "))
			}
		}
		line := fmt.Sprintf("gb.sliceref %s %d %d", encStr(pref), a, b)
		for _, in := range infos {
			line += " " + encStr(in)
			r.op("gb.refinfo " + encStr(pref) + " " + encStr(in))
		}
		out := r.op(line)
		r.count("slice-refs")
		if out == "PANIC" {
			r.fail(Failure{Oracle: "slice: reference clipping never panics", Op: line, Got: out})
			continue
		}
		r.eval(line, wellFormed && b > a)
		if !wellFormed {
			continue
		}
		want := c03WantRefs(pref, infos, a, b)
		xs := make([]string, len(want))
		for i, w := range want {
			xs[i] = fmt.Sprintf("(%d %s)", i+1, encStr(w))
		}
		if exp := encList(xs); out != exp {
			r.fail(Failure{Oracle: "slice: REFERENCE ranges are clipped to the window, re-based, dropped when disjoint, renumbered 1..m", Op: line,
				Got: out, Want: exp})
		}
		if t < 2 {
			r.sample(line)
		}
		// a slice OF A SLICE (seeded W35-1: Slice re-based its arguments by the head of an existing Region and
		// clipped the already re-based ranges against the wrong window): the ranges of Slice(Slice(F, a, b), c, d)
		// are those of the window [a+c, a+d) of F
		if b > a {
			c := r.rng.intn(b - a)
			d := r.rng.rangeInt(c, b-a)
			line2 := fmt.Sprintf("gb.sliceref2 %s %d %d %d %d", encStr(pref), a, b, c, d)
			for _, in := range infos {
				line2 += " " + encStr(in)
			}
			out2 := r.op(line2)
			r.count("slice-refs/slice-of-slice")
			r.eval(line2, d > c && a > 0)
			want2 := c03WantRefs(pref, c03WantRefs(pref, infos, a, b), c, d)
			ys := make([]string, len(want2))
			for i, w := range want2 {
				ys[i] = fmt.Sprintf("(%d %s)", i+1, encStr(w))
			}
			if exp := encList(ys); out2 != exp {
				r.fail(Failure{Oracle: "slice of a slice: REFERENCE ranges are clipped to the inner window, re-based, dropped when disjoint, renumbered 1..m", Op: line2,
					Got: out2, Want: exp})
			}
		}
	}
}

// wrapRefSpec: what the property's clause "REFERENCE base ranges are clipped to the window, re-based,
// dropped when disjoint" demands for a WRAP-AROUND window [a, L) ++ [0, b) (0 <= b < a <= L) — an
// independent statement, not the code's.  A range [lo, hi) (0-based, half-open) meets the window in
// at most two pieces: its part inside the tail [a, L), which moves to x - a, and its part inside the
// head [0, b), which moves to x + (L - a) — together x -> (x - a) mod L, the map of the residues
// (C03 slice_wrap_map).  The pieces are listed in window order; a range that runs across the origin
// of the record (it contains residue L-1 and residue 0) stays ONE range in the window, because the
// two pieces abut at window position L - a.  A range disjoint from the window is dropped.
func wrapRefSpec(L, a, b int, ranges [][2]int) [][2]int {
	var out [][2]int
	for _, x := range ranges {
		lo, hi := x[0], x[1]
		var pieces [][2]int
		if tl, th := maxInt(lo, a), minInt(hi, L); tl < th {
			pieces = append(pieces, [2]int{tl - a, th - a})
		}
		if hl, hh := maxInt(lo, 0), minInt(hi, b); hl < hh {
			p := [2]int{hl + L - a, hh + L - a}
			if n := len(pieces); n > 0 && pieces[n-1][1] == p[0] {
				pieces[n-1][1] = p[1]
			} else {
				pieces = append(pieces, p)
			}
		}
		out = append(out, pieces...)
	}
	return out
}

// c03RefsWrap: the REFERENCE clause of C03 for wrap-around windows, on gts.Slice of a GenBank record
// (op gb.slice on both sides, so the model is tied on the same inputs).  The real code rotates the
// residues and the table but not the header, then clips the UN-rotated ranges against [0, L-a+b):
// known finding K3R (Gts.C03.slice_wrap_refs_full_refuted).  Every failure of this oracle is of that
// shape (a well-formed reference of a record cut by a wrap-around window) and is attributed to K3R;
// for a forward window the same comparison is made without attribution.
func c03RefsWrap(r *Run) {
	n := 400
	if r.tier == "thorough" {
		n = 4000
	}
	res := []byte("acgtacgtacgtacgtacgtacgtacgtacgtacgtacgt")
	for t := 0; t < n; t++ {
		L := r.rng.rangeInt(4, 30)
		a := r.rng.rangeInt(1, L)
		b := r.rng.intn(a)
		fwd := r.rng.intn(5) == 0
		if fwd {
			a, b = b, a
		}
		if t == 0 {
			L, a, b, fwd = 10, 8, 4, false
		}
		nrefs := r.rng.rangeInt(1, 3)
		if t == 0 {
			nrefs = 2 // the witness of K3R: (bases 9 to 10) inside the window, (bases 5 to 6) outside it
		}
		f := seqio.GenBankFields{LocusName: "X", Molecule: gts.DNA, Date: seqio.Date{Year: 2020, Month: 2, Day: 29}}
		var all [][][2]int
		for i := 0; i < nrefs; i++ {
			k := r.rng.rangeInt(1, 2)
			if t == 0 {
				k = 1
			}
			var rs [][2]int
			parts := make([]string, k)
			for j := range parts {
				cands := []int{1, a, a + 1, b, b + 1, L, r.rng.rangeInt(1, L)}
				s := cands[r.rng.intn(len(cands))]
				if s < 1 {
					s = 1
				}
				if s > L {
					s = L
				}
				e := r.rng.rangeInt(s, L)
				if t == 0 {
					s, e = []int{9, 5}[i%2], []int{10, 6}[i%2]
				}
				rs = append(rs, [2]int{s - 1, e})
				parts[j] = fmt.Sprintf("%d to %d", s, e)
			}
			all = append(all, rs)
			f.References = append(f.References, seqio.Reference{Number: i + 1, Title: "t", Info: "(bases " + strings.Join(parts, "; ") + ")"})
		}
		gb := seqio.GenBank{Fields: f, Origin: seqio.NewOrigin(res[:L])}
		line := fmt.Sprintf("gb.slice %s %d %d", encRecord(gb), a, b)
		if out := r.op(line); out == "PANIC" || out == "ERR" {
			r.fail(Failure{Oracle: "gts.Slice of a GenBank record on a window inside the sequence returns a GenBank record", Op: line, Got: out})
			continue
		}
		sliced := gts.Slice(gb, a, b)
		var got []string
		for _, ref := range sliced.Info().(seqio.GenBankFields).References {
			got = append(got, ref.Info)
		}
		var want []string
		for _, rs := range all {
			var pieces [][2]int
			if fwd {
				for _, x := range rs {
					if lo, hi := maxInt(x[0], a), minInt(x[1], b); lo < hi {
						pieces = append(pieces, [2]int{lo - a, hi - a})
					}
				}
			} else {
				pieces = wrapRefSpec(L, a, b, rs)
			}
			if len(pieces) == 0 {
				continue
			}
			ps := make([]string, len(pieces))
			for i, p := range pieces {
				ps[i] = fmt.Sprintf("%d to %d", p[0]+1, p[1])
			}
			want = append(want, "(bases "+strings.Join(ps, "; ")+")")
		}
		kind := "wrap"
		if fwd {
			kind = "forward"
		}
		r.count("slice-refs/record/" + kind)
		r.eval("slice-refs-record|"+line, true)
		if g, w := strings.Join(got, " | "), strings.Join(want, " | "); g != w {
			fl := Failure{Oracle: "slice: REFERENCE ranges of a record are clipped to the window [a,L)++[0,b), re-based by (x-a) mod L, dropped when disjoint (" + kind + " window)",
				Op: line, Got: g, Want: w}
			if !fwd {
				fl.Finding = "K3R"
				r.count("slice-refs/record/wrap/K3R")
			}
			r.fail(fl)
		}
	}
}
