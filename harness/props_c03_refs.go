package main

import (
	"fmt"
	"regexp"
	"strconv"
	"strings"

	"github.com/go-gts/gts"
	"github.com/go-gts/gts/seqio"
)

func init() {
	extraOps["gb.sliceref"] = func(a []sexp) string {
		mol := gts.DNA
		if string(decBytes(a[0])) == "residues" {
			mol = gts.AA
		}
		gbf := seqio.GenBankFields{Molecule: mol}
		for i, x := range a[3:] {
			gbf.References = append(gbf.References, seqio.Reference{Number: i + 100, Info: string(decBytes(x))})
		}
		out := gbf.Slice(decInt(a[1]), decInt(a[2])).(seqio.GenBankFields)
		xs := make([]string, len(out.References))
		for i, r := range out.References {
			xs[i] = fmt.Sprintf("(%d %s)", r.Number, encStr(r.Info))
		}
		return encList(xs)
	}
	extraOps["gb.refinfo"] = func(a []sexp) string {
		locs, ok := seqio.VerifParseReferenceInfo(string(decBytes(a[0])), string(decBytes(a[1])))
		if !ok {
			return "ERR"
		}
		xs := make([]string, len(locs))
		for i, l := range locs {
			xs[i] = encLoc(l)
		}
		return encList(xs)
	}
}

var refRe = regexp.MustCompile(`^\((bases|residues) (\d+ to \d+(?:; \d+ to \d+)*)\)$`)

// c03Refs: REFERENCE base ranges after Slice are clipped to the window, re-based, dropped when
// disjoint and renumbered consecutively (independent re-statement on well-formed infos).
func c03Refs(r *Run) {
	n := 3000
	if r.tier == "thorough" {
		n = 30000
	}
	for t := 0; t < n; t++ {
		L := r.rng.rangeInt(5, 60)
		a := r.rng.intn(L)
		b := r.rng.rangeInt(a, L)
		pref := "bases"
		if r.rng.intn(6) == 0 {
			pref = "residues"
		}
		nrefs := r.rng.rangeInt(1, 4)
		infos := make([]string, nrefs)
		wellFormed := true
		for i := range infos {
			switch r.rng.intn(10) {
			case 0:
				infos[i] = "" // no info
			case 1:
				infos[i] = "(sites)"
			case 2:
				// near-miss shapes: other counter word, missing paren, extra text
				infos[i] = r.rng.pick([]string{"(bases 1 to)", "(residues 1 to 5)", "(bases 1 to 5", "(bases 1 to 5) extra", "(bases 1 to 5;6 to 7)", "(bases 01 to 5)", "(bases +1 to 5)", "(bases 1 to 5; )",
					"(bases -4 to 2)", "(bases 0 to 0)", "(bases 1 to -1)", "(bases 3 to 9; -2 to 1)", "(bases 99999999999999999999 to 5)"})
				wellFormed = false
			default:
				k := r.rng.rangeInt(1, 3)
				parts := make([]string, k)
				for j := range parts {
					// biased to window edges
					cands := []int{a, a + 1, b, b + 1, 1, L, r.rng.rangeInt(1, L)}
					s := cands[r.rng.intn(len(cands))]
					if s < 1 {
						s = 1
					}
					e := s + r.rng.intn(L)
					if r.rng.intn(4) == 0 {
						ec := []int{a, a + 1, b, b + 1}
						e = maxInt(s, ec[r.rng.intn(4)])
					}
					if r.rng.intn(8) == 0 {
						// inverted or empty range: a..a-1, or further back (the info is then kept verbatim)
						e = s - 1 - r.rng.intn(3)
						if e < 0 {
							e = 0
						}
						r.count("slice-refs/inverted-range")
					}
					parts[j] = fmt.Sprintf("%d to %d", s, e)
				}
				infos[i] = fmt.Sprintf("(%s %s)", pref, strings.Join(parts, "; "))
			}
		}
		line := fmt.Sprintf("gb.sliceref %s %d %d", encStr(pref), a, b)
		for _, in := range infos {
			line += " " + encStr(in)
			r.op("gb.refinfo " + encStr(pref) + " " + encStr(in))
		}
		out := r.op(line)
		r.count("slice-refs")
		if out == "PANIC" {
			r.fail(Failure{Oracle: "slice: reference clipping never panics", Op: line, Got: out})
			continue
		}
		r.eval(line, wellFormed && b > a)
		if !wellFormed {
			continue
		}
		// independent expectation
		var want []string
		for _, in := range infos {
			m := refRe.FindStringSubmatch(in)
			if m == nil || m[1] != pref {
				want = append(want, in)
				continue
			}
			var kept []string
			inverted := false
			for _, part := range strings.Split(m[2], "; ") {
				var s, e int
				fmt.Sscanf(part, "%d to %d", &s, &e)
				if e <= s-1 {
					inverted = true
				}
			}
			if inverted { // not a base range: kept as it is
				want = append(want, in)
				continue
			}
			for _, part := range strings.Split(m[2], "; ") {
				var s, e int
				fmt.Sscanf(part, "%d to %d", &s, &e)
				lo, hi := s-1, e // 0-based half-open
				if lo < b && a < hi {
					cl, ch := maxInt(lo, a)-a, minInt(hi, b)-a
					kept = append(kept, strconv.Itoa(cl+1)+" to "+strconv.Itoa(ch))
				}
			}
			if len(kept) > 0 {
				want = append(want, fmt.Sprintf("(%s %s)", pref, strings.Join(kept, "; ")))
			}
		}
		xs := make([]string, len(want))
		for i, w := range want {
			xs[i] = fmt.Sprintf("(%d %s)", i+1, encStr(w))
		}
		if exp := encList(xs); out != exp {
			r.fail(Failure{Oracle: "slice: REFERENCE ranges are clipped to the window, re-based, dropped when disjoint, renumbered 1..m", Op: line,
				Got: out, Want: exp})
		}
		if t < 2 {
			r.sample(line)
		}
	}
}
