//go:build verif

package main

// C05 / C08 / C15: `Region.Locate` itself — the subject of every byte-level theorem
// (Gts.C05.locate_bytes, region_locate_bytes, Gts.C08.resize_locate_bytes) — evaluated on both sides:
//
//	reg.locate <region> x<bytes>   →  Locate on gts.New(nil, nil, bytes), as a sequence (Q x<bytes>)
//
// Every region shape those theorems quantify over is sent: forward and backward segments, zero-length
// segments (between-sites) at every offset 0..L, composites (also the empty one), nested composites;
// every segment end inside [0, L] (`Reg.within`: outside the real Slice panics or wraps, the model's is total).
// The oracle is independent of both Locate and the model: leaf by leaf, seq[h:t] or the reversed
// complement of seq[t:h] through a table of its own.

import (
	"fmt"

	"github.com/go-gts/gts"
)

func init() {
	extraOps["reg.locate"] = func(a []sexp) string {
		return encSeq(decReg(a[0]).Locate(gts.New(nil, nil, decBytes(a[1]))))
	}
}

var c05LocAlphabet = []byte("acgtACGTnN-*")

func c05OwnCompl(c byte) byte {
	switch c {
	case 'a':
		return 't'
	case 't':
		return 'a'
	case 'c':
		return 'g'
	case 'g':
		return 'c'
	case 'A':
		return 'T'
	case 'T':
		return 'A'
	case 'C':
		return 'G'
	case 'G':
		return 'C'
	}
	return c
}

func c05WantLocate(r gts.Region, p []byte) []byte {
	switch v := r.(type) {
	case gts.Segment:
		h, t := v[0], v[1]
		if t < h {
			out := make([]byte, 0, h-t)
			for x := h - 1; x >= t; x-- {
				out = append(out, c05OwnCompl(p[x]))
			}
			return out
		}
		return append([]byte{}, p[h:t]...)
	case gts.Regions:
		out := []byte{}
		for _, u := range v {
			out = append(out, c05WantLocate(u, p)...)
		}
		return out
	}
	return nil
}

func c05GenRegion(g *rng, L, depth int) gts.Region {
	if depth == 0 || g.intn(3) != 0 {
		h, t := g.intn(L+1), g.intn(L+1)
		if g.intn(6) == 0 {
			t = h
		}
		return gts.Segment{h, t}
	}
	n := g.intn(4)
	rr := make(gts.Regions, n)
	for i := range rr {
		rr[i] = c05GenRegion(g, L, depth-1)
	}
	return rr
}

func c05RegShape(r gts.Region, top bool) string {
	switch v := r.(type) {
	case gts.Segment:
		switch {
		case v[0] == v[1]:
			return "zero"
		case v[1] < v[0]:
			return "backward"
		}
		return "forward"
	case gts.Regions:
		if len(v) == 0 {
			return "empty-composite"
		}
		for _, u := range v {
			if _, ok := u.(gts.Regions); ok {
				return "nested"
			}
		}
		return "composite"
	}
	return "?"
}

func c05LocateOne(r *Run, reg gts.Region, p []byte) {
	line := fmt.Sprintf("reg.locate %s %s", encReg(reg), encBytes(p))
	out := r.op(line)
	r.count("reg.locate:" + c05RegShape(reg, true))
	r.eval(line, len(p) > 0)
	want := encSeq(gts.New(nil, nil, c05WantLocate(reg, p)))
	if out != want {
		r.fail(Failure{Oracle: "reg.locate: leaf by leaf seq[h:t] / reversed complement of seq[t:h], in order", Op: line, Got: out, Want: want})
	}
}

func c05LocateCases(r *Run) {
	// exhaustive: every segment inside a 4-residue record, alone and after / before a fixed neighbour
	p4 := []byte("acgt")
	for h := 0; h <= 4; h++ {
		for t := 0; t <= 4; t++ {
			s := gts.Segment{h, t}
			c05LocateOne(r, s, p4)
			c05LocateOne(r, gts.Regions{s}, p4)
			c05LocateOne(r, gts.Regions{gts.Segment{1, 3}, s}, p4)
			c05LocateOne(r, gts.Regions{s, gts.Regions{gts.Segment{4, 2}, s}}, p4)
		}
	}
	c05LocateOne(r, gts.Regions{}, p4)
	c05LocateOne(r, gts.Regions{}, nil)
	c05LocateOne(r, gts.Segment{0, 0}, nil)
	c05LocateOne(r, gts.Regions{gts.Regions{}, gts.Regions{gts.Regions{}}}, p4)
	n := 1500
	if r.tier == "thorough" {
		n = 20000
	}
	for i := 0; i < n; i++ {
		L := r.rng.intn(13)
		p := make([]byte, L)
		for k := range p {
			p[k] = c05LocAlphabet[r.rng.intn(len(c05LocAlphabet))]
		}
		c05LocateOne(r, c05GenRegion(r.rng, L, 3), p)
	}
	r.notes = append(r.notes, "reg.locate: every segment inside a 4-residue record (alone, in a composite, nested) + random region trees of depth <= 3 inside records of 0..12 residues")
}
