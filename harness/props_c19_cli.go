package main

// C19 at its fourth observation point, "gts select output": the real binary with COMBINATIONS of
// -v / --invert-match and -s / --strand (seeded change W10-1: the strand restriction moved inside
// the negation — each option alone unchanged).  Oracle only.  The expected table is computed from
// the documented composition with the library functions this check verifies on their own:
//   kept = (key = source  OR  (invert XOR some selector accepts))  AND  strand filter.

import (
	"fmt"
	"strings"

	"github.com/go-gts/gts"
)

func c19CliSelect(r *Run) {
	n := 60
	if r.tier == "thorough" {
		n = 500
	}
	done := 0
	for t := 0; t < 20*n && done < n; t++ {
		L := 12 + r.rng.intn(24)
		ff := gts.FeatureSlice{}
		for _, f := range c19GenTable(r.rng, L) {
			if !c19PropsWf(f.Props) {
				continue
			}
			ff = ff.Insert(f)
		}
		res := make([]byte, L)
		for i := range res {
			res[i] = "acgt"[r.rng.intn(4)]
		}
		seq := c15Faithful(gts.New(nil, ff, res), false)
		if seq == nil || len(seq.Features()) == 0 {
			continue
		}
		var sels []string
		var filters []gts.Filter
		for k := 0; k < 1+r.rng.intn(2); k++ {
			s := c19GenSelector(r.rng, false)
			f, err := gts.Selector(s)
			if err != nil || strings.HasPrefix(s, "-") || s == "" {
				continue
			}
			sels = append(sels, s)
			filters = append(filters, f)
		}
		if len(sels) == 0 {
			continue
		}
		invert := r.rng.intn(2) == 0
		strand := []string{"", "both", "forward", "reverse"}[r.rng.intn(4)]
		args := []string{"select", "--no-cache"}
		switch {
		case invert && strand != "" && r.rng.intn(3) == 0:
			args = append(args, "-vs", strand)
		default:
			if invert {
				args = append(args, []string{"-v", "--invert-match"}[r.rng.intn(2)])
			}
			if strand != "" {
				if r.rng.intn(2) == 0 {
					args = append(args, "-s", strand)
				} else {
					args = append(args, "--strand", strand) // go-gts/flags has no --name=value form
				}
			}
		}
		args = append(args, sels...)
		line := fmt.Sprintf("cli.select %s | %s", strings.Join(args[2:], " "), encSeq(seq))
		crumb(line)
		out := c15Run(args, c15File(seq, false), nil)
		done++
		r.count(fmt.Sprintf("cli-select/invert=%v,strand=%s", invert, strand))
		r.eval(line, true)
		verdict, got := c15Answer(out, false)
		if verdict == "PANIC" || verdict == "HANG" || verdict == "ERR" || len(got) != 1 {
			r.fail(Failure{Oracle: "gts select with -v and -s runs and writes one record", Op: line, Got: fmt.Sprintf("%s, %d records", verdict, len(got))})
			continue
		}
		var want gts.FeatureSlice
		for _, f := range seq.Features() {
			sel := false
			for _, flt := range filters {
				sel = sel || flt(f)
			}
			keep := f.Key == "source" || sel != invert
			switch strand {
			case "forward":
				keep = keep && gts.ForwardStrand(f)
			case "reverse":
				keep = keep && gts.ReverseStrand(f)
			}
			if keep {
				want = append(want, f)
			}
		}
		exp := c15Faithful(gts.New(nil, want, seq.Bytes()), false)
		if exp == nil {
			r.count("cli-select/expected-table-not-stable")
			continue
		}
		if g, w := c19EncTable(got[0].Features()), c19EncTable(exp.Features()); g != w {
			r.fail(Failure{Oracle: "gts select keeps exactly (source OR (selected XOR -v)) AND the -s strand filter, in table order", Op: line, Got: g, Want: w})
		}
	}
	r.notes = append(r.notes, fmt.Sprintf("gts select on the real binary: %d runs with combinations of -v / --invert-match, -s / --strand (also bundled -vs), one or two selectors", done))
}
