package main

// C19 at its fourth observation point, "gts select output": the real binary with COMBINATIONS of
// -v / --invert-match and -s / --strand (seeded change W10-1: the strand restriction moved inside
// the negation — each option alone unchanged).  Oracle only.  The expected table is computed from
// the documented composition with the library functions this check verifies on their own:
//   kept = (key = source  OR  (invert XOR some selector accepts))  AND  strand filter.

import (
	"fmt"
	"sort"
	"strings"

	"github.com/go-gts/gts"
)

func c19CliSelect(r *Run) {
	n := 60
	if r.tier == "thorough" {
		n = 500
	}
	done := 0
	for t := 0; t < 20*n && done < n; t++ {
		L := 12 + r.rng.intn(24)
		ff := gts.FeatureSlice{}
		for _, f := range c19GenTable(r.rng, L) {
			if !c19PropsWf(f.Props) {
				continue
			}
			ff = ff.Insert(f)
		}
		res := make([]byte, L)
		for i := range res {
			res[i] = "acgt"[r.rng.intn(4)]
		}
		seq := c15Faithful(gts.New(nil, ff, res), false)
		if seq == nil || len(seq.Features()) == 0 {
			continue
		}
		var sels []string
		var filters []gts.Filter
		for k := 0; k < 1+r.rng.intn(2); k++ {
			s := c19GenSelector(r.rng, false)
			f, err := gts.Selector(s)
			if err != nil || strings.HasPrefix(s, "-") || s == "" {
				continue
			}
			sels = append(sels, s)
			filters = append(filters, f)
		}
		if len(sels) == 0 {
			continue
		}
		invert := r.rng.intn(2) == 0
		strand := []string{"", "both", "forward", "reverse"}[r.rng.intn(4)]
		args := []string{"select", "--no-cache"}
		switch {
		case invert && strand != "" && r.rng.intn(3) == 0:
			args = append(args, "-vs", strand)
		default:
			if invert {
				args = append(args, []string{"-v", "--invert-match"}[r.rng.intn(2)])
			}
			if strand != "" {
				if r.rng.intn(2) == 0 {
					args = append(args, "-s", strand)
				} else {
					args = append(args, "--strand", strand) // go-gts/flags has no --name=value form
				}
			}
		}
		args = append(args, sels...)
		line := fmt.Sprintf("cli.select %s | %s", strings.Join(args[2:], " "), encSeq(seq))
		crumb(line)
		out := c15Run(args, c15File(seq, false), nil)
		done++
		r.count(fmt.Sprintf("cli-select/invert=%v,strand=%s", invert, strand))
		r.eval(line, true)
		verdict, got := c15Answer(out, false)
		if verdict == "PANIC" || verdict == "HANG" || verdict == "ERR" || len(got) != 1 {
			r.fail(Failure{Oracle: "gts select with -v and -s runs and writes one record", Op: line, Got: fmt.Sprintf("%s, %d records", verdict, len(got))})
			continue
		}
		var want gts.FeatureSlice
		for _, f := range seq.Features() {
			sel := false
			for _, flt := range filters {
				sel = sel || flt(f)
			}
			keep := f.Key == "source" || sel != invert
			switch strand {
			case "forward":
				keep = keep && gts.ForwardStrand(f)
			case "reverse":
				keep = keep && gts.ReverseStrand(f)
			}
			if keep {
				want = append(want, f)
			}
		}
		exp := c15Faithful(gts.New(nil, want, seq.Bytes()), false)
		if exp == nil {
			r.count("cli-select/expected-table-not-stable")
			continue
		}
		if g, w := c19EncTable(got[0].Features()), c19EncTable(exp.Features()); g != w {
			r.fail(Failure{Oracle: "gts select keeps exactly (source OR (selected XOR -v)) AND the -s strand filter, in table order", Op: line, Got: g, Want: w})
		}
	}
	r.notes = append(r.notes, fmt.Sprintf("gts select on the real binary: %d runs with combinations of -v / --invert-match, -s / --strand (also bundled -vs), one or two selectors", done))
}

// ---------------------------------------------------------------------------
// shared by the real-binary oracles of the single-step commands (cli.reverse / cli.complement of C05,
// cli.repair of C12, cli.search of C18, cli.sort below): the record generator and the comparison with
// the documented composition, computed with the library functions the respective check verifies on
// their own

// cliRecord: a record of L residues over `alphabet` with a table built by Insert from the features
// whose qualifiers survive the GenBank writer / reader; nil when the binary would not read that record
func cliRecord(r *rng, feats []gts.Feature, L int, alphabet string) gts.Sequence {
	ff := gts.FeatureSlice{}
	for _, f := range feats {
		if !c19PropsWf(f.Props) {
			continue
		}
		ff = ff.Insert(f)
	}
	res := make([]byte, L)
	for i := range res {
		res[i] = alphabet[r.intn(len(alphabet))]
	}
	return c15Faithful(gts.New(nil, ff, res), false)
}

// cliExpect: the record the binary is expected to write for `want`, as it reads back from a GenBank file
// (nil: the expected record is not stable under write / read — counted, not compared)
func cliExpect(want gts.Sequence) (exp gts.Sequence) {
	defer func() {
		if recover() != nil {
			exp = nil
		}
	}()
	return c15Faithful(gts.New(nil, want.Features(), want.Bytes()), false)
}

// cliOneRecord runs `gts <args>` on the record and compares the one record it writes with `want`
func cliOneRecord(r *Run, tag, oracle string, args []string, files map[string][]byte, seq, want gts.Sequence, line string) {
	crumb(line)
	out := c15Run(args, c15File(seq, false), files)
	r.eval(line, true)
	verdict, got := c15Answer(out, false)
	if verdict == "PANIC" || verdict == "HANG" || verdict == "ERR" || len(got) != 1 {
		r.fail(Failure{Oracle: "gts " + tag + " runs and writes one record per record read", Op: line, Got: fmt.Sprintf("%s, %d records", verdict, len(got))})
		return
	}
	exp := cliExpect(want)
	if exp == nil {
		r.count("cli-" + tag + "/expected-record-not-stable")
		return
	}
	if g, w := encSeq(gts.New(nil, got[0].Features(), got[0].Bytes())), encSeq(exp); g != w {
		r.fail(Failure{Oracle: oracle, Op: line, Got: g, Want: w})
	}
}

// c19CliSort: `gts sort [-r]` on a stream of records of different (and equal) lengths — the output is a
// permutation of the input records, longest first (`-r`: shortest first); the order among records of one
// length is not specified (sort.Sort is not stable) and not compared
func c19CliSort(r *Run) {
	n := 40
	if r.tier == "thorough" {
		n = 300
	}
	done := 0
	for t := 0; t < 20*n && done < n; t++ {
		k := 2 + r.rng.intn(5)
		var in []gts.Sequence
		var text []byte
		lens := []int{}
		for i := 0; i < k; i++ {
			L := 4 + r.rng.intn(6)
			if i > 0 && r.rng.intn(3) == 0 {
				L = lens[r.rng.intn(len(lens))] // ties
			}
			seq := cliRecord(r.rng, nil, L, "acgt")
			if seq == nil {
				break
			}
			lens = append(lens, L)
			in = append(in, seq)
			text = append(text, c15File(seq, false)...)
		}
		if len(in) != k {
			continue
		}
		rev := r.rng.intn(2) == 0
		args := []string{"sort", "--no-cache"}
		if rev {
			args = append(args, []string{"-r", "--reverse"}[r.rng.intn(2)])
		}
		line := fmt.Sprintf("cli.sort %s | %v", strings.Join(args[2:], " "), lens)
		crumb(line)
		out := c15Run(args, text, nil)
		done++
		r.count(fmt.Sprintf("cli-sort/reverse=%v,records=%d", rev, k))
		r.eval(line, true)
		verdict, got := c15Answer(out, false)
		if verdict == "PANIC" || verdict == "HANG" || verdict == "ERR" || len(got) != k {
			r.fail(Failure{Oracle: "gts sort runs and writes every record it read", Op: line, Got: fmt.Sprintf("%s, %d records", verdict, len(got))})
			continue
		}
		gl := make([]int, k)
		a, b := make([]string, k), make([]string, k)
		for i := range got {
			gl[i] = gts.Len(got[i])
			a[i], b[i] = string(got[i].Bytes()), string(in[i].Bytes())
		}
		sort.Strings(a)
		sort.Strings(b)
		if strings.Join(a, ",") != strings.Join(b, ",") {
			r.fail(Failure{Oracle: "gts sort writes a permutation of the records it read", Op: line, Got: fmt.Sprint(a), Want: fmt.Sprint(b)})
			continue
		}
		for i := 0; i+1 < k; i++ {
			if !rev && gl[i] < gl[i+1] || rev && gl[i] > gl[i+1] {
				r.fail(Failure{Oracle: "gts sort writes the records longest first (-r: shortest first)", Op: line, Got: fmt.Sprint(gl)})
				break
			}
		}
	}
	r.notes = append(r.notes, fmt.Sprintf("gts sort on the real binary: %d runs, 2..6 records with repeated lengths, with and without -r / --reverse", done))
}

// c19CliClearDefine: `gts clear` (exactly the source features stay) and `gts define key location [-q name=value]`
// (the feature is inserted where FeatureSlice.Insert puts it) on the real binary
func c19CliClearDefine(r *Run) {
	n := 30
	if r.tier == "thorough" {
		n = 200
	}
	done := 0
	for t := 0; t < 20*n && done < n; t++ {
		L := 12 + r.rng.intn(20)
		seq := cliRecord(r.rng, c19GenTable(r.rng, L), L, "acgt")
		if seq == nil || len(seq.Features()) == 0 {
			continue
		}
		done++
		if done%2 == 0 {
			var want gts.FeatureSlice
			for _, f := range seq.Features() {
				if f.Key == "source" {
					want = append(want, f)
				}
			}
			r.count(fmt.Sprintf("cli-clear/sources=%d", len(want)))
			cliOneRecord(r, "clear", "gts clear keeps exactly the source features, in table order", []string{"clear", "--no-cache"}, nil, seq,
				gts.New(nil, want, seq.Bytes()), fmt.Sprintf("cli.clear | %s", encSeq(seq)))
			continue
		}
		s := r.rng.intn(L - 1)
		loc := gts.Range(s, s+1+r.rng.intn(L-s-1))
		key := []string{"gene", "misc_feature", "source"}[r.rng.intn(3)]
		props := gts.Props{}
		args := []string{"define", "--no-cache"}
		if r.rng.intn(2) == 0 {
			args = append(args, "-q", "note=a=b")
			props.Add("note", "a=b")
		}
		args = append(args, key, loc.String())
		want := gts.FeatureSlice(append([]gts.Feature{}, seq.Features()...)).Insert(gts.NewFeature(key, loc, props))
		r.count("cli-define/key=" + key)
		cliOneRecord(r, "define", "gts define inserts the one feature (key, location, -q qualifiers) where FeatureSlice.Insert puts it", args, nil, seq,
			gts.New(nil, want, seq.Bytes()), fmt.Sprintf("cli.define %s | %s", strings.Join(args[2:], " "), encSeq(seq)))
	}
	r.notes = append(r.notes, fmt.Sprintf("gts clear / gts define on the real binary: %d runs", done))
}
