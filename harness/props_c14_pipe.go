//go:build verif

package main

// C14 at the PROCESS level with inputs that are not regular files (round 20, seeded W38-1 / W38-2): the
// cached run of a command must show the bytes and the status of `--no-cache` also when
//   * stdin is a PIPE whose writer delivers the input in two pieces with a pause (a spool loop that takes a
//     short read for the end of the input caches the output of the first piece only), and when
//   * the secondary input (the guest of `gts insert` / `gts infix`) is a NAMED PIPE, which can be read once and
//     cannot be rewound (a digest taken up front followed by Seek fails there).
// Oracle-only op (the model's protocol has no notion of how the bytes arrive):
//   cli.pipe slowstdin x<cmd> x<input>                 -> OK | DIFF …
//   cli.pipe fifo x<cmd> x<position> x<input> x<guest> -> OK | DIFF …
// The reference is the same invocation with --no-cache on a bytes reader / a regular file.

import (
	"bytes"
	"context"
	"fmt"
	"io/ioutil"
	"os"
	"os/exec"
	"path/filepath"
	"syscall"
	"time"
)

func init() {
	extraOps["cli.pipe"] = func(a []sexp) string {
		d := newCliDir()
		defer d.close()
		switch a[0].atom {
		case "slowstdin":
			return c14SlowStdin(d, string(decBytes(a[1])), decBytes(a[2]))
		case "fifo":
			return c14FifoGuest(d, string(decBytes(a[1])), string(decBytes(a[2])), decBytes(a[3]), decBytes(a[4]))
		}
		return "BAD-OP"
	}
}

// c14Exec runs the binary once.  stdin: fed from `pieces` through a pipe, with a pause between the pieces.
func c14Exec(d cliDir, args []string, pieces [][]byte, pause time.Duration) cliResult {
	ctx, cancel := context.WithTimeout(context.Background(), 10*time.Second)
	defer cancel()
	cmd := exec.CommandContext(ctx, gtsBinary(), args...)
	cmd.Env = []string{"HOME=" + filepath.Join(d.root, "home"), "XDG_CACHE_HOME=" + filepath.Join(d.root, "cache"),
		"TMPDIR=" + filepath.Join(d.root, "tmp"), "PATH=/usr/bin:/bin"}
	pr, pw, err := os.Pipe()
	if err != nil {
		panic(err)
	}
	cmd.Stdin = pr
	var stdout bytes.Buffer
	cmd.Stdout = &stdout
	cmd.Stderr = ioutil.Discard
	if err := cmd.Start(); err != nil {
		panic(err)
	}
	pr.Close()
	go func() {
		for i, p := range pieces {
			if i > 0 {
				time.Sleep(pause)
			}
			if _, err := pw.Write(p); err != nil {
				break
			}
		}
		pw.Close()
	}()
	err = cmd.Wait()
	res := cliResult{out: stdout.Bytes()}
	if ctx.Err() != nil {
		res.status = 124
	} else if ee, ok := err.(*exec.ExitError); ok {
		res.status = ee.ExitCode()
	} else if err != nil {
		panic(err)
	}
	return res
}

func c14Same(what string, ref, got cliResult) string {
	if ref.status == got.status && bytes.Equal(ref.out, got.out) {
		return ""
	}
	return fmt.Sprintf("DIFF %s: status %d, %d bytes of output; --no-cache on regular inputs: status %d, %d bytes", what, got.status, len(got.out), ref.status, len(ref.out))
}

// c14SlowStdin: `gts <cmd>` with stdin delivered in two pieces, 300 ms apart: --no-cache, a cold and a warm cached run
func c14SlowStdin(d cliDir, cmdName string, input []byte) string {
	ref := c14Exec(d, []string{cmdName, "--no-cache"}, [][]byte{input}, 0)
	cut := len(input) / 2
	if i := bytes.Index(input[1:], []byte("\n>")); i >= 0 {
		cut = i + 2 // between two FASTA records
	}
	pieces := [][]byte{input[:cut], input[cut:]}
	for _, step := range []struct {
		what string
		args []string
	}{{"--no-cache, stdin in two pieces", []string{cmdName, "--no-cache"}}, {"cold cache, stdin in two pieces", []string{cmdName}}, {"warm cache, stdin in two pieces", []string{cmdName}}} {
		if s := c14Same(step.what, ref, c14Exec(d, step.args, pieces, 300*time.Millisecond)); s != "" {
			return s
		}
	}
	return "OK"
}

// c14FifoGuest: `gts <cmd> <position> <guest>` with the guest a named pipe: --no-cache, a cold and a warm cached run,
// against --no-cache with the guest a regular file
func c14FifoGuest(d cliDir, cmdName, position string, input, guest []byte) string {
	reg := filepath.Join(d.root, "sec", "guest.fa")
	if err := ioutil.WriteFile(reg, guest, 0644); err != nil {
		panic(err)
	}
	ref := c14Exec(d, []string{cmdName, "--no-cache", position, reg}, [][]byte{input}, 0)
	for k, step := range []struct {
		what    string
		nocache bool
	}{{"--no-cache, guest a named pipe", true}, {"cold cache, guest a named pipe", false}, {"warm cache, guest a named pipe", false}} {
		fifo := filepath.Join(d.root, "sec", fmt.Sprintf("guest%d.fifo", k))
		if err := syscall.Mkfifo(fifo, 0600); err != nil {
			return "OK" // no named pipes here: nothing to observe
		}
		done := make(chan struct{})
		go func() {
			defer close(done)
			w, err := os.OpenFile(fifo, os.O_WRONLY, 0)
			if err != nil {
				return
			}
			w.Write(guest)
			w.Close()
		}()
		args := []string{cmdName}
		if step.nocache {
			args = append(args, "--no-cache")
		}
		// the same NAME in every run would be the natural thing for the cache key — the key holds the digest of
		// the content, not the path, so another path must not matter
		got := c14Exec(d, append(args, position, fifo), [][]byte{input}, 0)
		// release the writer if the command never opened the pipe
		if r, err := os.OpenFile(fifo, os.O_RDONLY|syscall.O_NONBLOCK, 0); err == nil {
			select {
			case <-done:
			case <-time.After(2 * time.Second):
			}
			r.Close()
		}
		os.Remove(fifo)
		if s := c14Same(step.what, ref, got); s != "" {
			return s
		}
	}
	return "OK"
}

// c14Pipes: the cases of one run (a handful: each costs about a second of pauses)
func c14Pipes(r *Run) {
	two := []byte(">s1 first\nacgtacgtacgtacgtaacc\n>s2 second\nttggccaattggccaa\n")
	one := []byte(">h host\nacgtacgtacgtacgtaacc\n")
	guest := []byte(">g guest\nggggcccc\n")
	var cases []string
	for _, c := range []string{"reverse", "complement", "clear"} {
		cases = append(cases, "cli.pipe slowstdin "+encStr(c)+" "+encBytes(two))
	}
	for _, c := range []string{"insert", "infix"} {
		cases = append(cases, "cli.pipe fifo "+encStr(c)+" "+encStr("5")+" "+encBytes(one)+" "+encBytes(guest))
	}
	for _, line := range cases {
		crumb(line)
		out := execOp(line)
		r.count("process/" + parseLine(line)[1].atom)
		r.eval("pipe|"+line, true)
		if out != "OK" {
			r.fail(Failure{Oracle: "a cached run shows the bytes and status of --no-cache also when stdin arrives in pieces through a pipe / the secondary input is a named pipe", Op: line, Got: out, Want: "OK"})
		}
	}
	r.notes = append(r.notes, fmt.Sprintf("process level: %d invocations with stdin delivered through a pipe in two pieces 300 ms apart (reverse, complement, clear) or the guest a named pipe (insert, infix): --no-cache, cold and warm cached run against --no-cache on regular inputs", len(cases)))
}
