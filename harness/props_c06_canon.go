package main

// C06 / C01: canonical locations under the edit operations.
//
// Lean side: Gts.C06.shift_canon, expand_canon_partial, expand_insert_canon_partial,
// reverse_canon_partial, normalize_canon_partial, join_canon_partial, written_join_read_back
// (Gts/Props/C06.lean), guards in Gts/Spec/CanonGuard.lean.  This file restates the guards in Go
// (answered by both sides as k3.* protocol lines, so a difference between the two statements is a
// correspondence mismatch), runs the closure statements as oracles on the real code and counts
// how far the guards reach.

import (
	"fmt"

	"github.com/go-gts/gts"
)

func init() {
	extraOps["k3.join"] = func(a []sexp) string { return bit(joinK3(decLocList(a))) }
	extraOps["k3.adj"] = func(a []sexp) string { return bit(noAdjCompl(flatParts(decLocList(a)))) }
	extraOps["k3.expand"] = func(a []sexp) string {
		i, n := decInt(a[1]), decInt(a[2])
		return bit(opK3(decLoc(a[0]), func(u gts.Location) gts.Location { return u.Expand(i, n) }, false))
	}
	extraOps["k3.shift"] = func(a []sexp) string {
		i, n := decInt(a[1]), decInt(a[2])
		return bit(opK3(decLoc(a[0]), func(u gts.Location) gts.Location { return u.Shift(i, n) }, false))
	}
	extraOps["k3.reverse"] = func(a []sexp) string {
		L := decInt(a[1])
		return bit(opK3(decLoc(a[0]), func(u gts.Location) gts.Location { return u.Reverse(L) }, true))
	}
	extraOps["k3.normalize"] = func(a []sexp) string {
		L := decInt(a[1])
		return bit(opK3(decLoc(a[0]), func(u gts.Location) gts.Location { return u.Normalize(L) }, false))
	}
	extraOps["k3.le"] = func(a []sexp) string { return bit(coordsLe(decLoc(a[0]), decInt(a[1]))) }
	extraOps["k3.revin"] = func(a []sexp) string { return bit(revIn(decLoc(a[0]), decInt(a[1]))) }
}

func decLocList(a []sexp) []gts.Location {
	out := make([]gts.Location, len(a))
	for i := range a {
		out[i] = decLoc(a[i])
	}
	return out
}

// flatParts: the argument list of Join as Push sees it (the parts of a Joined argument one by one).
func flatParts(xs []gts.Location) []gts.Location {
	var out []gts.Location
	for _, x := range xs {
		if j, ok := x.(gts.Joined); ok {
			out = append(out, flatParts([]gts.Location(j))...)
		} else {
			out = append(out, x)
		}
	}
	return out
}

// k3Shape: the accumulator ends Point{p}, Between{p} and the pushed element is Point{p} or a
// Ranged starting at p: Push replaces the between-site and does not look at the point in front of it.
func k3Shape(acc []gts.Location, x gts.Location) bool {
	n := len(acc)
	if n < 2 {
		return false
	}
	b, ok := acc[n-1].(gts.Between)
	if !ok {
		return false
	}
	p, ok := acc[n-2].(gts.Point)
	if !ok {
		return false
	}
	u := 0
	switch v := x.(type) {
	case gts.Point:
		u = int(v)
	case gts.Ranged:
		u = v.Start
	default:
		return false
	}
	return int(b) == u && int(p) == u
}

// joinK3: the K3 shape arises while Join pushes its (flattened) arguments.
func joinK3(xs []gts.Location) (hit bool) {
	defer func() {
		if recover() != nil {
			hit = false
		}
	}()
	ll := gts.LocationList{}
	pushed := 0
	for _, y := range flatParts(xs) {
		var acc []gts.Location
		if pushed > 0 {
			acc = ll.Slice()
		}
		if k3Shape(acc, y) {
			return true
		}
		ll.Push(y, true)
		pushed++
	}
	return false
}

func noAdjCompl(xs []gts.Location) bool {
	for i := 0; i+1 < len(xs); i++ {
		_, a := xs[i].(gts.Complemented)
		_, b := xs[i+1].(gts.Complemented)
		if a && b {
			return false
		}
	}
	return true
}

// opK3: the K3 shape arises in one of the Joins of an element-wise operation f (mirror: the
// element-wise results are joined in mirrored order, as Reverse does).
func opK3(l gts.Location, f func(gts.Location) gts.Location, mirror bool) (hit bool) {
	defer func() {
		if recover() != nil {
			hit = false
		}
	}()
	switch v := l.(type) {
	case gts.Joined:
		mapped := make([]gts.Location, len(v))
		for i, u := range v {
			if opK3(u, f, mirror) {
				return true
			}
			if mirror {
				mapped[len(v)-1-i] = f(u)
			} else {
				mapped[i] = f(u)
			}
		}
		return joinK3(mapped)
	case gts.Ordered:
		for _, u := range v {
			if opK3(u, f, mirror) {
				return true
			}
		}
	case gts.Complemented:
		return opK3(v.Location, f, mirror)
	}
	return false
}

func leafCoords(l gts.Location, f func(kind string, a, b int) bool) bool {
	for _, u := range leaves(l) {
		switch v := u.(type) {
		case gts.Between:
			if !f("between", int(v), int(v)) {
				return false
			}
		case gts.Point:
			if !f("point", int(v), int(v)) {
				return false
			}
		case gts.Ranged:
			if !f("span", v.Start, v.End) {
				return false
			}
		case gts.Ambiguous:
			if !f("span", v.Start, v.End) {
				return false
			}
		}
	}
	return true
}

// coordsLe: no coordinate above M (Gts.Loc.coordsLe)
func coordsLe(l gts.Location, M int) bool {
	return leafCoords(l, func(_ string, a, b int) bool { return a <= M && b <= M })
}

// revIn: the mirror image in a sequence of L residues has non-negative coordinates
// (Gts.Loc.revIn; between-sites must lie before L because Between.Reverse is L-1-p: K1)
func revIn(l gts.Location, L int) bool {
	return leafCoords(l, func(kind string, a, b int) bool {
		if kind == "span" {
			return a <= L && b <= L
		}
		return a < L
	})
}

func wellFormed(l gts.Location) bool {
	return leafCoords(l, func(kind string, a, b int) bool { return kind != "span" || a < b })
}

func canonP(l gts.Location) bool { return isCanonical(l) && coordsOK(l) }

// expectedRead: what ParseLocation makes of the printed form of l when the parts of every
// Joined / Ordered are read back as themselves: the smart constructors are applied again.
func expectedRead(l gts.Location) gts.Location {
	switch v := l.(type) {
	case gts.Joined:
		ps := make([]gts.Location, len(v))
		for i, u := range v {
			ps[i] = expectedRead(u)
		}
		return gts.Join(ps...)
	case gts.Ordered:
		ps := make([]gts.Location, len(v))
		for i, u := range v {
			ps[i] = expectedRead(u)
		}
		return gts.Order(ps...)
	case gts.Complemented:
		return expectedRead(v.Location).Complement()
	}
	return l
}

var canonSeen = map[string]bool{}

// c06Closure: one canonical location under one operation.
//
//	guardLine   the k3.* protocol line (sent to both sides once per distinct line)
//	guardFree   the theorem has no K3 guard for this case (insertions): the guard must be 0
//	inBounds    the coordinate hypotheses of the theorem hold
func c06Closure(r *Run, name, opline, guardLine string, l, got gts.Location, guard, guardFree, inBounds bool) {
	if !canonSeen[guardLine] {
		canonSeen[guardLine] = true
		r.op(guardLine)
		r.op(opline)
	}
	if !inBounds {
		r.count("closure/" + name + "/outside-the-coordinate-bounds")
		return
	}
	r.eval("c|"+opline, true)
	ok := canonP(got)
	switch {
	case guardFree && guard:
		r.fail(Failure{Oracle: name + ": an insertion never meets the K3 shape (shiftK3_false / expandK3_false)",
			Op: guardLine, Got: "1", Want: "0"})
	case !guard && !ok:
		r.fail(Failure{Oracle: name + ": a canonical location stays canonical unless the K3 shape arises (Gts.C06." + name + "_canon*)",
			Op: opline, Got: encLoc(got), Want: "a canonical location"})
	case !guard:
		r.count("closure/" + name + "/canonical")
	case ok:
		r.count("closure/" + name + "/k3-guard/canonical-anyway")
	default:
		r.count("closure/" + name + "/k3-guard/not-canonical")
		// what gts writes for it is read back as the re-reduced location (written_join_read_back)
		if back, rest, err := parseLocRest([]byte(got.String())); err == nil && len(rest) == 0 {
			if !locEq(back, expectedRead(got)) {
				r.fail(Failure{Oracle: "a written location is read back as Join / Order / Complement of its parts", Op: "loc.parse " + encStr(got.String()),
					Got: encLoc(back), Want: encLoc(expectedRead(got))})
			}
			if locEq(back, got) {
				r.fail(Failure{Oracle: "a non-canonical location is not read back as itself", Op: "loc.parse " + encStr(got.String()), Got: encLoc(back)})
			}
		}
	}
}

func c06ClosureAll(r *Run, l gts.Location, L int, is []int, ns []int) {
	if !canonP(l) {
		return
	}
	ls := encLoc(l)
	wf := wellFormed(l)
	const top = 1 << 62
	for _, i := range is {
		for _, n := range ns {
			if n >= 0 {
				got := l.Shift(i, n)
				g := opK3(l, func(u gts.Location) gts.Location { return u.Shift(i, n) }, false)
				c06Closure(r, "shift", fmt.Sprintf("loc.shift %s %d %d", ls, i, n), fmt.Sprintf("k3.shift %s %d %d", ls, i, n),
					l, got, g, true, coordsLe(l, top-n))
			}
			got := l.Expand(i, n)
			g := opK3(l, func(u gts.Location) gts.Location { return u.Expand(i, n) }, false)
			c06Closure(r, "expand", fmt.Sprintf("loc.expand %s %d %d", ls, i, n), fmt.Sprintf("k3.expand %s %d %d", ls, i, n),
				l, got, g, n >= 0 && wf, i >= 0 && (n <= 0 || coordsLe(l, top-n)))
		}
	}
	for _, LL := range []int{L, L + 2} {
		got := l.Reverse(LL)
		g := opK3(l, func(u gts.Location) gts.Location { return u.Reverse(LL) }, true)
		line := fmt.Sprintf("k3.revin %s %d", ls, LL)
		if !canonSeen[line] {
			canonSeen[line] = true
			r.op(line)
		}
		c06Closure(r, "reverse", fmt.Sprintf("loc.reverse %s %d", ls, LL), fmt.Sprintf("k3.reverse %s %d", ls, LL),
			l, got, g, false, revIn(l, LL))
		if LL > 0 {
			got = l.Normalize(LL)
			g = opK3(l, func(u gts.Location) gts.Location { return u.Normalize(LL) }, false)
			c06Closure(r, "normalize", fmt.Sprintf("loc.normalize %s %d", ls, LL), fmt.Sprintf("k3.normalize %s %d", ls, LL),
				l, got, g, false, true)
		}
	}
}

// c06JoinClosure: Join of canonical arguments (join_canon_partial).
func c06JoinClosure(r *Run, parts []gts.Location) {
	for _, p := range parts {
		if !canonP(p) {
			return
		}
	}
	args := ""
	for _, p := range parts {
		args += " " + encLoc(p)
	}
	if !canonSeen["j"+args] {
		canonSeen["j"+args] = true
		r.op("k3.join" + args)
		r.op("k3.adj" + args)
	}
	if !noAdjCompl(flatParts(parts)) {
		r.count("closure/join/complemented-neighbours")
		return
	}
	got := gts.Join(parts...)
	g := joinK3(parts)
	c06Closure(r, "join", "loc.join"+args, "k3.join"+args, nil, got, g, false, true)
}

// c06ClosureScope: the exhaustive small scope of the closure statements: every canonical join of
// three parts over points / between-sites / ranges in [0, 3] and of four parts over a thinner part
// set (the K3 shape needs three parts, its combination with K1 under Reverse four), under every
// operation with small arguments; plus joins of canonical arguments (join_canon_partial).
func c06ClosureScope(r *Run) {
	var parts3, parts4 []gts.Location
	for p := 0; p <= 3; p++ {
		parts3 = append(parts3, gts.Between(p), gts.Point(p))
		for e := p + 1; e <= 3; e++ {
			parts3 = append(parts3, gts.Range(p, e))
		}
	}
	for p := 0; p <= 2; p++ {
		parts4 = append(parts4, gts.Between(p), gts.Point(p))
	}
	parts4 = append(parts4, gts.Range(0, 1), gts.Range(1, 2), gts.Complemented{Location: gts.Point(1)})
	is := []int{0, 1, 2, 3}
	ns := []int{-2, -1, 1}
	n3, n4 := 0, 0
	for _, a := range parts3 {
		for _, b := range parts3 {
			for _, c := range parts3 {
				l := gts.Joined{a, b, c}
				c06JoinClosure(r, []gts.Location{a, b, c})
				if canonP(l) {
					n3++
					c06ClosureAll(r, l, 3, is, ns)
				}
			}
		}
	}
	for _, a := range parts4 {
		for _, b := range parts4 {
			for _, c := range parts4 {
				for _, d := range parts4 {
					l := gts.Joined{a, b, c, d}
					if canonP(l) {
						n4++
						c06ClosureAll(r, l, 3, []int{0, 1, 2}, []int{-1, 1})
						if r.tier == "thorough" {
							c06ClosureAll(r, gts.Complemented{Location: l}, 4, []int{1}, []int{-2})
						}
					}
				}
			}
		}
	}
	r.notes = append(r.notes, fmt.Sprintf("closure of canonical locations (exhaustive): %d canonical 3-part joins over %d parts x i in %v x n in %v (shift for n >= 0, expand) + reverse / normalize at two lengths; %d canonical 4-part joins over %d parts; every 3-part argument list for Join", n3, len(parts3), is, ns, n4, len(parts4)))
}

// c06EmptySpanScope: canonical joins that hold an EMPTY or inverted span — values that only ParseLocation
// builds (parseRange / parseAmbiguous fill the struct literal, `5..4` is Ranged{4,4}, `1.0` is Ambiguous{0,0};
// PartialRange panics on them) — under an insertion Expand(i, n), n >= 1.  Expand only: Normalize / Reverse
// go through PartialRange and panic on such a span.
//
//	(1) the witness of Gts.C06.expand_insert_canon_full_refuted and the texts of empty_ranged_from_parser;
//	(2) every canonical 3-part join over points, between-sites, ALL Ranged{s,e} and Ambiguous{s,e} with
//	    0 <= s, e <= 2 that is not well formed: both sides answer every case (correspondence); oracle
//	    (Gts.C06.expand_insert_empty_ranged_drops, the decided scope): when every AMBIGUOUS span is non-empty
//	    the result is canonical.
func c06EmptySpanScope(r *Run) {
	w := "loc.expand (J (P 0) (A 0 0) (P 0)) 1 1"
	if got := r.op(w); got != "(J (P 0) (P 0))" {
		r.fail(Failure{Oracle: "the witness of Gts.C06.expand_insert_canon_full_refuted reproduces", Op: w, Got: got, Want: "(J (P 0) (P 0))"})
	}
	for _, t := range []string{"join(1,1.0,1)", "5..4", "5..3", "1.0"} {
		r.op("loc.parse " + encStr(t))
	}
	var parts []gts.Location
	for p := 0; p <= 2; p++ {
		parts = append(parts, gts.Between(p), gts.Point(p))
		for e := 0; e <= 2; e++ {
			parts = append(parts, gts.Ranged{Start: p, End: e}, gts.Ambiguous{Start: p, End: e})
		}
	}
	ambWf := func(l gts.Location) bool {
		for _, u := range leaves(l) {
			if v, ok := u.(gts.Ambiguous); ok && v.Start >= v.End {
				return false
			}
		}
		return true
	}
	n := 0
	for _, a := range parts {
		for _, b := range parts {
			for _, c := range parts {
				l := gts.Joined{a, b, c}
				if wellFormed(l) || !canonP(l) {
					continue
				}
				n++
				for _, i := range []int{0, 1, 2, 3} {
					for _, k := range []int{1, 2} {
						line := fmt.Sprintf("loc.expand %s %d %d", encLoc(l), i, k)
						r.op(line)
						r.op(fmt.Sprintf("k3.expand %s %d %d", encLoc(l), i, k))
						got := l.Expand(i, k)
						r.eval("c|"+line, true)
						switch {
						case canonP(got):
							r.count("closure/expand-empty-span/canonical")
						case ambWf(l):
							r.fail(Failure{Oracle: "an insertion keeps a canonical join canonical when every ambiguous span is non-empty, empty / inverted Ranged included (Gts.C06.expand_insert_empty_ranged_drops, decided scope)",
								Op: line, Got: encLoc(got), Want: "a canonical location"})
						default:
							r.count("closure/expand-empty-span/empty-ambiguous/not-canonical")
						}
					}
				}
			}
		}
	}
	r.notes = append(r.notes, fmt.Sprintf("insertions on canonical joins with an empty or inverted span (parser-only values): %d 3-part joins over %d parts x i in 0..3 x n in 1..2", n, len(parts)))
}
