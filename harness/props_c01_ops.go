package main

// C01 — protocol ops of the GenBank area on the real code (mirror of
// lean/Gts/Model/OpsGenBank.lean) and the record encoding shared with Lean.

import (
	"fmt"
	"sort"
	"strings"
	"time"

	"github.com/go-gts/gts"
	"github.com/go-gts/gts/seqio"
	"github.com/go-pars/pars"
)

// ---------------------------------------------------------------------------
// the qualifier-name registries are process-global in seqio: every case runs
// between a reset to "initial lists + the given names" and a restore.

type registry struct{ q, l, t []string }

var defaultRegistry = registry{
	append([]string(nil), seqio.QuotedQualifierNames...),
	append([]string(nil), seqio.LiteralQualifierNames...),
	append([]string(nil), seqio.ToggleQualifierNames...),
}

func sortedCopy(a, b []string) []string {
	out := make([]string, 0, len(a)+len(b))
	out = append(out, a...)
	out = append(out, b...)
	sort.Strings(out)
	return out
}

func setRegistry(extra registry) {
	seqio.QuotedQualifierNames = sortedCopy(defaultRegistry.q, extra.q)
	seqio.LiteralQualifierNames = sortedCopy(defaultRegistry.l, extra.l)
	seqio.ToggleQualifierNames = sortedCopy(defaultRegistry.t, extra.t)
}

func extraNames(now, def []string) []string {
	in := map[string]bool{}
	for _, d := range def {
		in[d] = true
	}
	seen := map[string]bool{}
	out := []string{}
	for _, n := range now {
		if !in[n] && !seen[n] {
			seen[n] = true
			out = append(out, n)
		}
	}
	sort.Strings(out)
	return out
}

// currentExtra: what has been registered on top of the initial lists.
func currentExtra() registry {
	return registry{
		extraNames(seqio.QuotedQualifierNames, defaultRegistry.q),
		extraNames(seqio.LiteralQualifierNames, defaultRegistry.l),
		extraNames(seqio.ToggleQualifierNames, defaultRegistry.t),
	}
}

// withRegistry runs f with the registries set to initial+extra and restores
// the initial lists afterwards (also on panic).
func withRegistry(extra registry, f func()) {
	setRegistry(extra)
	defer setRegistry(registry{})
	f()
}

func encNameList(xs []string) string {
	out := make([]string, len(xs))
	for i, x := range xs {
		out[i] = encStr(x)
	}
	return encList(out)
}

func encRegistry(r registry) string {
	return fmt.Sprintf("(R %s %s %s)", encNameList(r.q), encNameList(r.l), encNameList(r.t))
}

func decNameList(s sexp) []string {
	out := []string{}
	for _, x := range s.list {
		out = append(out, string(decBytes(x)))
	}
	return out
}

func decRegistry(s sexp) registry {
	if !s.isL || len(s.list) != 4 || s.list[0].atom != "R" {
		panic("bad registry")
	}
	return registry{decNameList(s.list[1]), decNameList(s.list[2]), decNameList(s.list[3])}
}

// ---------------------------------------------------------------------------
// record encoding

func encPairs(d seqio.Dictionary) string {
	out := make([]string, len(d))
	for i, p := range d {
		out[i] = "(" + encStr(p.Key) + " " + encStr(p.Value) + ")"
	}
	return encList(out)
}

func encReference(r seqio.Reference) string {
	pm := "N"
	if r.Xref != nil {
		if v, ok := r.Xref["PUBMED"]; ok {
			pm = "(" + encStr(v) + ")"
		}
	}
	return fmt.Sprintf("(%d %s %s %s %s %s %s %s)", r.Number, encStr(r.Info), encStr(r.Authors),
		encStr(r.Group), encStr(r.Title), encStr(r.Journal), pm, encStr(r.Comment))
}

func originResidues(o *seqio.Origin) (out string) {
	defer func() {
		if r := recover(); r != nil {
			out = "PANIC"
		}
	}()
	// work on a copy: Bytes() turns the formatted buffer into residues in place
	c := *o
	return encBytes(c.Bytes())
}

func encRecord(gb seqio.GenBank) string {
	f := gb.Fields
	rg := "N"
	if seg, ok := f.Region.(gts.Segment); ok {
		rg = fmt.Sprintf("(%d %d)", seg[0], seg[1])
	}
	refs := make([]string, len(f.References))
	for i, r := range f.References {
		refs[i] = encReference(r)
	}
	extra := make([]string, len(f.Extra))
	for i, e := range f.Extra {
		extra[i] = "(" + encStr(e.Name) + " " + encStr(e.Value) + ")"
	}
	tab := make([]string, len(gb.Table))
	for i, ft := range gb.Table {
		tab[i] = encFeature(ft)
	}
	return fmt.Sprintf("(G (%s %s %d %s %d %d %d) %s %s %s %s %s (%s %s %s) %s %s %s (%s %d %d) %s %s %s)",
		encStr(f.LocusName), encStr(string(f.Molecule)), int(f.Topology), encStr(f.Division),
		f.Date.Year, int(f.Date.Month), f.Date.Day,
		encStr(f.Definition), encStr(f.Accession), encStr(f.Version), encPairs(f.DBLink), encNameList(f.Keywords),
		encStr(f.Source.Species), encStr(f.Source.Name), encNameList(f.Source.Taxon),
		encList(refs), encNameList(f.Comments), encList(extra),
		encStr(f.Contig.Accession), f.Contig.Region[0], f.Contig.Region[1], rg,
		encList(tab), originResidues(gb.Origin))
}

func decStrList(s sexp) []string {
	if len(s.list) == 0 {
		return nil
	}
	return decNameList(s)
}

func decRecord(s sexp) seqio.GenBank {
	if !s.isL || len(s.list) != 15 || s.list[0].atom != "G" {
		panic("bad record")
	}
	a := s.list[1:]
	l := a[0].list
	f := seqio.GenBankFields{
		LocusName: string(decBytes(l[0])), Molecule: gts.Molecule(string(decBytes(l[1]))),
		Topology: gts.Topology(decInt(l[2])), Division: string(decBytes(l[3])),
		Date:       seqio.Date{Year: decInt(l[4]), Month: time.Month(decInt(l[5])), Day: decInt(l[6])},
		Definition: string(decBytes(a[1])), Accession: string(decBytes(a[2])), Version: string(decBytes(a[3])),
		Keywords: decStrList(a[5]),
	}
	for _, p := range a[4].list {
		f.DBLink = append(f.DBLink, seqio.Pair{Key: string(decBytes(p.list[0])), Value: string(decBytes(p.list[1]))})
	}
	src := a[6].list
	f.Source = seqio.Organism{Species: string(decBytes(src[0])), Name: string(decBytes(src[1])), Taxon: decStrList(src[2])}
	for _, r := range a[7].list {
		x := r.list
		ref := seqio.Reference{Number: decInt(x[0]), Info: string(decBytes(x[1])), Authors: string(decBytes(x[2])),
			Group: string(decBytes(x[3])), Title: string(decBytes(x[4])), Journal: string(decBytes(x[5])),
			Comment: string(decBytes(x[7]))}
		if x[6].isL {
			ref.Xref = map[string]string{"PUBMED": string(decBytes(x[6].list[0]))}
		}
		f.References = append(f.References, ref)
	}
	f.Comments = decStrList(a[8])
	for _, e := range a[9].list {
		f.Extra = append(f.Extra, seqio.GenBankExtraField(string(decBytes(e.list[0])), string(decBytes(e.list[1]))))
	}
	c := a[10].list
	f.Contig = seqio.Contig{Accession: string(decBytes(c[0])), Region: gts.Segment{decInt(c[1]), decInt(c[2])}}
	if a[11].isL {
		f.Region = gts.Segment{decInt(a[11].list[0]), decInt(a[11].list[1])}
	}
	var tab gts.FeatureSlice
	for _, ft := range a[12].list {
		tab = append(tab, decFeature(ft))
	}
	return seqio.GenBank{Fields: f, Table: tab, Origin: seqio.NewOrigin(decBytes(a[13]))}
}

// ---------------------------------------------------------------------------
// reading

type readResult struct {
	records []seqio.GenBank
	reg     registry // registered on top of the initial lists after the last good record
	ok      bool     // the input was used up by complete records
}

// readGenBank runs GenBankParser on an in-memory state until the input is
// used up (the loop of seqio.Scanner with the parser fixed).  The caller holds
// the registry.
func readGenBank(text []byte) readResult {
	state := pars.FromBytes(append([]byte(nil), text...))
	res := readResult{reg: currentExtra()}
	for {
		if state.Request(1) != nil {
			res.ok = true
			return res
		}
		r, err := pars.Parser(seqio.GenBankParser).Parse(state)
		if err != nil {
			return res
		}
		res.records = append(res.records, r.Value.(seqio.GenBank))
		res.reg = currentExtra()
	}
}

func okErr(b bool) string {
	if b {
		return "OK"
	}
	return "ERR"
}

func init() {
	extraOps["gb.defaults"] = func(a []sexp) string { return encRegistry(defaultRegistry) }
	extraOps["gb.write"] = func(a []sexp) (out string) {
		withRegistry(decRegistry(a[0]), func() { out = encStr(decRecord(a[1]).String()) })
		return
	}
	extraOps["gb.writeall"] = func(a []sexp) (out string) {
		withRegistry(decRegistry(a[0]), func() {
			b := strings.Builder{}
			w := seqio.NewWriter(&b, seqio.GenBankFile)
			for _, x := range a[1:] {
				if _, err := w.WriteSeq(decRecord(x)); err != nil {
					out = "ERR"
					return
				}
			}
			out = encStr(b.String())
		})
		return
	}
	extraOps["gb.read"] = func(a []sexp) (out string) {
		withRegistry(decRegistry(a[0]), func() {
			res := readGenBank(decBytes(a[1]))
			recs := make([]string, len(res.records))
			for i, r := range res.records {
				recs[i] = encRecord(r)
			}
			out = encList(recs) + " " + encRegistry(res.reg) + " " + okErr(res.ok)
		})
		return
	}
	// gb.state: ONE call of GenBankParser on a fresh in-memory state; besides the verdict the
	// answer shows where the call leaves the state: the bytes not yet consumed (state.Dump():
	// position, and what the in-place joined DEFINITION body made of the buffer) and whether a
	// saved position is left (state.Pushed()).  gb.read cannot tell "the record fails here" from
	// "the record fails after going back to an older saved position": both are ERR.
	extraOps["gb.state"] = func(a []sexp) (out string) {
		withRegistry(decRegistry(a[0]), func() {
			state := pars.FromBytes(append([]byte(nil), decBytes(a[1])...))
			_, err := pars.Parser(seqio.GenBankParser).Parse(state)
			out = okErr(err == nil) + " " + encBytes(state.Dump()) + " " + b01(state.Pushed())
		})
		return
	}
	extraOps["gb.wrw"] = func(a []sexp) (out string) {
		withRegistry(decRegistry(a[0]), func() {
			res := readGenBank(decBytes(a[1]))
			if !res.ok {
				out = "ERR"
				return
			}
			b := strings.Builder{}
			for _, r := range res.records {
				b.WriteString(r.String())
			}
			out = encStr(b.String()) + " " + encRegistry(res.reg)
		})
		return
	}
	extraOps["gb.rt"] = func(a []sexp) (out string) {
		withRegistry(decRegistry(a[0]), func() {
			res := readGenBank([]byte(decRecord(a[1]).String()))
			if !res.ok {
				out = "ERR"
				return
			}
			recs := make([]string, len(res.records))
			for i, r := range res.records {
				recs[i] = encRecord(r)
			}
			out = encList(recs)
		})
		return
	}
	extraOps["gb.qualifier"] = func(a []sexp) (out string) {
		withRegistry(decRegistry(a[0]), func() {
			state := pars.FromBytes(append([]byte(nil), decBytes(a[2])...))
			r, err := seqio.QualifierParser(string(decBytes(a[1]))).Parse(state)
			if err != nil {
				out = "ERR"
				return
			}
			q := r.Value.(seqio.QualifierIO)
			out = fmt.Sprintf("(%s %s) %s %s", encStr(q[0]), encStr(q[1]), encRegistry(currentExtra()), encBytes(state.Dump()))
		})
		return
	}
	extraOps["gb.table"] = func(a []sexp) (out string) {
		withRegistry(decRegistry(a[0]), func() {
			state := pars.FromBytes(append([]byte(nil), decBytes(a[1])...))
			r, err := seqio.INSDCTableParser("").Parse(state)
			if err != nil {
				out = "ERR"
				return
			}
			ff := r.Value.([]gts.Feature)
			fs := make([]string, len(ff))
			for i, f := range ff {
				fs[i] = encFeature(f)
			}
			out = fmt.Sprintf("%s %s %s", encList(fs), encRegistry(currentExtra()), encBytes(state.Dump()))
		})
		return
	}
	extraOps["gb.tabletext"] = func(a []sexp) (out string) {
		withRegistry(decRegistry(a[0]), func() {
			var tab []gts.Feature
			for _, x := range a[1:] {
				tab = append(tab, decFeature(x))
			}
			out = encStr(seqio.INSDCFormatter{Table: tab, Prefix: "     ", Depth: 21}.String())
		})
		return
	}
	extraOps["gb.date"] = func(a []sexp) string {
		d := seqio.Date{Year: decInt(a[0]), Month: time.Month(decInt(a[1])), Day: decInt(a[2])}
		return encStr(strings.ToUpper(d.ToTime().Format("02-Jan-2006")))
	}
	extraOps["gb.asdate"] = func(a []sexp) string {
		d, err := seqio.AsDate(string(decBytes(a[0])))
		if err != nil {
			return "ERR"
		}
		return fmt.Sprintf("%d %d %d", d.Year, int(d.Month), d.Day)
	}
}

// ---------------------------------------------------------------------------
// "leak, then rewind" shapes (F34).  A failing location inside the feature table leaves saved
// positions on the pars stack (gts.parseJoin and friends return without Pop: one per nesting
// level).  A field parser behind it that fails AFTER consuming input, or that pops more than it
// pushed, then decides where the scan continues: on the spot, or back at one of those positions.
// The texts are small; model and code are compared on every one of them (gb.read: records and
// verdict; gb.state: verdict, position, buffer, stack) on every run of C01 and C07.

const leakLocus = "LOCUS       X 0 bp DNA linear UNA 01-JAN-2000\n"

// leakHead: a feature table whose second feature has a location that fails `levels` deep, then
// `skipped` unknown lines.
func leakHead(open string, levels, skipped int) string {
	return leakLocus + "FEATURES\na 1\na " + strings.Repeat(open, levels) + "1^3\n" + strings.Repeat("x\n", skipped)
}

var leakOpens = []string{"join(", "order(", "complement(join(", "join(1..2,join("}

var leakTails = []string{
	"SOURCE      x\n//\n",                                // SOURCE without ORGANISM (66de3a0)
	"SOURCE      x\n            y\n//\n",                 // ... over two lines
	"SOURCE      x\n  ORGANISM  y\n            z.\n//\n", // a good SOURCE
	"SOURCE\n//\n",
	"DEFINITION  a\n            b\n            c\n//\n", // no period, several lines: joined in place, retried
	"DEFINITION  a\n            b\nSOURCE      x\n//\n",
	"DEFINITION  a\n//\n",
	"DEFINITION  a.\nSOURCE      x\n//\n",
	"REFERENCE   1  (bases 1 to 4)\n  AUTHORS   x\n  BOGUS     y\n//\n", // unknown sub-field
	"REFERENCE   1\n  BOGUS     y\nSOURCE      x\n//\n",
	"REFERENCE   x\n//\n",
	"DBLINK      abc\n//\n", // no colon
	"DBLINK      a: b\n            c\n//\n",
	"DBLINK      a: b\n            c\nSOURCE      x\n//\n",
	"DBLINK      abc\nSOURCE      x\n//\n",
	"ACCESSION   A\nSOURCE      x\n//\n",
	"COMMENT     c\nSOURCE      x\n//\n",
	"KEYWORDS    .\nSOURCE      x\n//\n",
	"CONTIG      join(U1:1..4\nSOURCE      x\n//\n",
	"VERYLONGFIELDNAME x\nSOURCE      x\n//\n",
	"ORIGIN      \nSOURCE      x\n//\n",
	"FEATURES\na join(1^3\nSOURCE      x\n//\n",
	"//\n",
	"",
}

func leakTexts() []string {
	var out []string
	for _, open := range leakOpens {
		for _, n := range []int{1, 2, 3, 5} {
			for _, k := range []int{0, 2} {
				for _, t := range leakTails {
					out = append(out, leakHead(open, n, k)+t)
				}
			}
		}
	}
	// no leaked frame at all: the same tails behind a clean stack
	for _, t := range leakTails {
		out = append(out, leakLocus+t, leakLocus+"FEATURES\na 1\n"+t)
	}
	return out
}

// contigLineTexts: the CONTIG field around the repair a4b3f5d (F38, was K7D): the accession ends at
// the colon or at the END OF THE LINE, and the colon is required.  An accession over two lines was
// accepted before (the colon of a later line ended it); a line without a colon is an unknown field
// before and after (the difference was time).  Line ends LF, CRLF, CR; end of input at every place.
func contigLineTexts() []string {
	bodies := []string{
		"CONTIG      join(U1:1..4)",               // the good one
		"CONTIG      join(x",                      // no colon on the line (the family of the time oracle)
		"CONTIG      join(",                       // empty accession, line end
		"CONTIG      join(:1..4)",                 // empty accession, colon
		"CONTIG      join(x:",                     // colon, then the line ends
		"CONTIG      join(x:1..",                  // ... later
		"CONTIG      join(x:1..4",                 // no closing parenthesis
		"CONTIG      join(x:1..4) trailing",       // text behind the parenthesis
		"CONTIG      join(a b\tc:1..4)",           // blanks and a tab inside the accession
		"CONTIG      join(x\rU1:1..4)",            // a lone CR inside the accession
		"CONTIG      join(x\nU1:1..4)",            // accession over two lines (accepted before a4b3f5d)
		"CONTIG      join(x\n            y:1..4)", // ... the second one indented like a continuation
		"CONTIG      join(x\nCONTIG      join(y:1..4)",
		"CONTIG      join(x\nACCESSION   A:1..4)",
		"CONTIG\nU1:1..4)", // the name alone
	}
	tails := []string{"", "\n", "\n//\n", "\nSOURCE      x\n  ORGANISM  y\n            z.\n//\n", "\nORIGIN      \n//\n"}
	var out []string
	for _, b := range bodies {
		for _, t := range tails {
			text := leakLocus + b + t
			out = append(out, text, string(toCRLF([]byte(text))), strings.ReplaceAll(text, "\n", "\r"))
			// behind a leaked frame of the feature table
			out = append(out, leakHead("join(", 2, 1)+b+t)
		}
	}
	return out
}

// leakCases sends every text to both sides.
func leakCases(r *Run) {
	reg := encRegistry(registry{})
	for _, t := range leakTexts() {
		r.op("gb.read " + reg + " " + encStr(t))
		out := r.op("gb.state " + reg + " " + encStr(t))
		r.count("leak-then-rewind/" + strings.SplitN(out, " ", 2)[0])
	}
	for _, t := range contigLineTexts() {
		r.op("gb.read " + reg + " " + encStr(t))
		out := r.op("gb.state " + reg + " " + encStr(t))
		r.count("contig-line/" + strings.SplitN(out, " ", 2)[0])
	}
}
