/-- `pars.Until(byte(':'))`: `Next` / `Advance` byte by byte until a colon — or until the END OF THE
INPUT, then `Pop` and an error -/
def untilColon : PC Bytes := do
  let s ← getS
  match indexOf 58 s.rest with
  | none => do tick (1 + s.rest.length); fail
  | some i => do tick (1 + (i + 1)); setS { s with rest := s.rest.drop i }; pure (s.rest.take i)
