def originField (length : Int) (depth : Nat) : PC Bytes := do
  let _ ← fieldName (bs "ORIGIN") depth
  let _ ← line
  clear
  if length > 1000000020 then fail
  let n := Origin.toOriginLength length
  if n < 0 then panic
  let s ← getS
  tick 1
  if s.rest.length < n.toNat then fail
  let p := s.rest.take n.toNat
  -- `validateOrigin` walks the requested block once (it stops at the first bad byte)
  tick n.toNat
  let buf ←
    match Origin.validateOrigin p length with
    | .ok () => do advanceN n.toNat; pure p
    | .error .panic => panic
    | .error .fail =>
      -- the slow path reads line by line, at most the block again plus the blanks it tolerates
      match GenBank.slowLines length n.toNat length.toNat 0 s.rest [] with
      | .error .panic => do tick n.toNat; panic
      | .error .fail => do tick n.toNat; fail
      | .ok (acc, st') => do
        tick (s.rest.length - st'.length)
        setS { s with rest := st' }
        pure (acc ++ List.replicate (n.toNat - acc.length) 0)
  match ← attempt next with
  | some 32 => fail
  | _ => pure buf
