/-- the scan loop; the counter runs through all records.  `none` = Go panic. -/
def parseAll (reg : Registry) : Nat → Bytes → Nat → List Record → Option (List Record × Registry × Bool × Nat)
  | 0, _, c, acc => some (acc.reverse, reg, false, c)
  | k + 1, input, c, acc =>
    if input.isEmpty then some (acc.reverse, reg, true, c)
    else
      match (genbankParser reg).run' ⟨⟨input, []⟩, c⟩ with
      | (.ok (r, reg'), s) => parseAll reg' k s.ps.rest s.cost (r :: acc)
      | (.error .fail, s) => some (acc.reverse, reg, false, s.cost)
      | (.error .panic, _) => none
