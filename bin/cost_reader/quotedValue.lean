/-- steps of the loop of `quotedQualifierParser` (one pass since 2612fae; `acc` = `token[:w]`
reversed, as in `stripLoop`): every round moves one byte (`token[w] = token[r]`) and compares the end
of `token[:w]` with `p` (`bytes.HasSuffix`: at most `len(p)` bytes, at most the `w` bytes there are) —
charged `1 + min (len p) w` -/
def stripLoopCost (rp : Bytes) (k : Nat) : Bytes → Bytes → Nat
  | _, [] => 0
  | acc, c :: t =>
    (1 + min rp.length (acc.length + 1)) +
      (if rp.isPrefixOf (c :: acc) then stripLoopCost rp k ((c :: acc).drop k) t
       else stripLoopCost rp k (c :: acc) t)

def stripContCost (pre : Bytes) (t : Bytes) : Nat :=
  stripLoopCost (10 :: pre).reverse pre.length [] t

/-- `quotedQualifierParser(prefix)` -/
def quotedValue (pre : Bytes) : PC Bytes := do
  push
  let c ← (do match ← attempt next with | some c => pure c | none => do pop; fail)
  if c != 61 then do pop; fail
  advance1
  let tok ← (do match ← attempt quoted with | some t => pure t | none => do pop; fail)
  drop
  let _ ← attempt eol
  tick (stripContCost pre tok)
  pure (stripCont pre tok)
