/-- steps of the in-place loop of `quotedQualifierParser`: every round runs `bytes.Index` from the
start of the token and copies the tail down — at most `len(token)` byte operations each, at least
the bytes in front of the occurrence plus the bytes behind the prefix; charged `len(token)` -/
def stripContCost (pre : Bytes) : Nat → Bytes → Nat
  | 0, _ => 0
  | f + 1, t =>
    match findSub (10 :: pre) t 0 with
    | none => t.length
    | some i => t.length + stripContCost pre f (t.take (i + 1) ++ t.drop (i + 1 + pre.length))

/-- `quotedQualifierParser(prefix)` -/
def quotedValue (pre : Bytes) : PC Bytes := do
  push
  let c ← (do match ← attempt next with | some c => pure c | none => do pop; fail)
  if c != 61 then do pop; fail
  advance1
  let tok ← (do match ← attempt quoted with | some t => pure t | none => do pop; fail)
  drop
  let _ ← attempt eol
  tick (stripContCost pre tok.length tok)
  pure (stripCont pre tok.length tok)
