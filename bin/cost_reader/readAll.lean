/-- read a whole stream: (records, registry, ok, steps) -/
def readAll (reg : Registry) (input : Bytes) : Option (List Record × Registry × Bool × Nat) :=
  parseAll reg (input.length + 1) input 0 []

/-- steps spent on reading `input` as a GenBank stream (0 for a panic, which does not occur) -/
def stepsOf (input : Bytes) : Nat :=
  match readAll Registry.default input with
  | some (_, _, _, c) => c
  | none => 0
