/-- `pars.Quoted('"')`: the scan for the closing quote is charged byte by byte; without a closing
quote it runs to the END OF THE INPUT before the parser fails and restores the position -/
def quoted : PC Bytes := do
  let s ← getS
  if s.rest.head? = some 34 then
    match scanQuoted (s.rest.drop 1) 0 with
    | some k => do
      tick (1 + (k + 2))
      setS { s with rest := (s.rest.drop 1).drop (k + 1) }
      pure ((s.rest.drop 1).take k)
    | none => do tick (1 + s.rest.length); fail
  else do tick 1; fail
