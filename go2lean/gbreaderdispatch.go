package main

// gbreaderdispatch.go — `tryAllParsers` (seqio/genbank.go) as a generated FUNCTION on the model of the
// go-pars state (Gts/Gen/GbReaderDispatch.lean; bridge Gts/Bridge/GbReaderDispatch.lean, obligations of
// C07 and C01).
//
// The dispatcher is the one reader function that consists of nothing but operations on the saved
// positions and calls of the sub-parsers it is handed, so it can be translated literally without
// modelling any combinator:
//
//   - a `pars.Parser` the dispatcher calls is a PARAMETER: a function `σ → P (σ × Option ε)` on the
//     state monad `Gts.Pars.P` of the model (`σ`: everything besides the pars.State the parser may
//     change — the record, the result object; `none` = it returned nil, `some e` = the error e),
//   - `state.Push()`, `Pop()`, `Drop()`, `Clear()`, `Pushed()` are `Pars.push`, `pop`, `drop`, `clear`,
//     `pushed` (the reading of go-pars v1.1.6 that the whole model rests on),
//   - `for _, p := range pp { … }` is a recursion over the list, the body statement by statement:
//     `err = p(state, result)`, `if err == nil { …; return nil }`, `if !state.Pushed() { return err }`,
//     the fall-through is the next iteration; the named result `err` starts as nil.
//
// Any other statement is refused.

import (
	"fmt"
	"go/ast"
	"go/token"
	"path/filepath"
	"strings"
)

type dispGen struct {
	src        *source
	state, res string // the closure's parameters
	errVar     string // the error variable the loop assigns (the named result)
	loopVar    string
	ntmp       int
}

func (g *dispGen) refuse(n ast.Node, format string, a ...interface{}) {
	panic(refusal{g.src.errAt(n, "tryAllParsers: %s", fmt.Sprintf(format, a...)).Error()})
}

var dispStateOps = map[string]string{"Push": "push", "Pop": "pop", "Drop": "drop", "Clear": "clear"}

// cond translates a condition; pre receives the binds it needs
func (g *dispGen) cond(x ast.Expr, pre *[]string) string {
	switch n := x.(type) {
	case *ast.ParenExpr:
		return "(" + g.cond(n.X, pre) + ")"
	case *ast.UnaryExpr:
		if n.Op == token.NOT {
			return "!" + g.cond(n.X, pre)
		}
	case *ast.BinaryExpr:
		l, r := nodeText(n.X), nodeText(n.Y)
		if r == g.errVar && l == "nil" {
			l, r = r, l
		}
		if l == g.errVar && r == "nil" {
			switch n.Op {
			case token.EQL:
				return g.errVar + ".isNone"
			case token.NEQ:
				return g.errVar + ".isSome"
			}
		}
	case *ast.CallExpr:
		if nodeText(n) == g.state+".Pushed()" {
			g.ntmp++
			b := fmt.Sprintf("b%d_", g.ntmp)
			*pre = append(*pre, fmt.Sprintf("let %s ← pushed", b))
			return b
		}
	}
	g.refuse(x, "condition %s", nodeText(x))
	return ""
}

func dispIndent(s string) string { return "  " + strings.ReplaceAll(s, "\n", "\n  ") }

// ret: `return nil` / `return err`
func (g *dispGen) ret(s *ast.ReturnStmt) string {
	if len(s.Results) != 1 {
		g.refuse(s, "return arity")
	}
	switch nodeText(s.Results[0]) {
	case "nil":
		return "pure (w_, none)"
	case g.errVar:
		return "pure (w_, " + g.errVar + ")"
	}
	g.refuse(s, "return of %s", nodeText(s.Results[0]))
	return ""
}

// stmts translates a statement list; next is the text of falling off its end
func (g *dispGen) stmts(list []ast.Stmt, next string) string {
	if len(list) == 0 {
		return next
	}
	s, rest := list[0], list[1:]
	switch n := s.(type) {
	case *ast.ExprStmt:
		call, ok := n.X.(*ast.CallExpr)
		if ok && len(call.Args) == 0 {
			if sel, ok := call.Fun.(*ast.SelectorExpr); ok && identName(sel.X) == g.state {
				if op, ok := dispStateOps[sel.Sel.Name]; ok {
					return op + "\n" + g.stmts(rest, next)
				}
			}
		}
	case *ast.AssignStmt:
		// err = p(state, result)
		if n.Tok == token.ASSIGN && len(n.Lhs) == 1 && len(n.Rhs) == 1 && identName(n.Lhs[0]) == g.errVar &&
			nodeText(n.Rhs[0]) == g.loopVar+"("+g.state+", "+g.res+")" {
			return fmt.Sprintf("let (w_, %s) ← %s w_\n", g.errVar, g.loopVar) + g.stmts(rest, next)
		}
	case *ast.ReturnStmt:
		if len(rest) != 0 {
			g.refuse(rest[0], "statement behind a return")
		}
		return g.ret(n)
	case *ast.IfStmt:
		if n.Init != nil {
			g.refuse(n, "if with an init statement")
		}
		var pre []string
		c := g.cond(n.Cond, &pre)
		var elseList []ast.Stmt
		switch e := n.Else.(type) {
		case nil:
		case *ast.BlockStmt:
			elseList = e.List
		default:
			g.refuse(n, "else-if")
		}
		thenText := g.stmts(append(append([]ast.Stmt{}, n.Body.List...), restUnlessReturns(n.Body.List, rest)...), next)
		elseText := g.stmts(append(append([]ast.Stmt{}, elseList...), restUnlessReturns(elseList, rest)...), next)
		out := strings.Join(pre, "\n")
		if out != "" {
			out += "\n"
		}
		return out + "if " + c + " then do\n" + dispIndent(thenText) + "\nelse do\n" + dispIndent(elseText)
	case *ast.BranchStmt:
		if n.Tok == token.CONTINUE && n.Label == nil {
			return next
		}
	}
	g.refuse(s, "statement %s", nodeText(s))
	return ""
}

func restUnlessReturns(block, rest []ast.Stmt) []ast.Stmt {
	if returns(block) {
		return nil
	}
	return rest
}

func genGbReaderDispatch(repo string) (text string, err error) {
	defer recoverRefusal(&err)
	src, perr := parseSource(filepath.Join(repo, "seqio", "genbank.go"))
	if perr != nil {
		return "", perr
	}
	fd, ferr := src.fun("tryAllParsers")
	if ferr != nil {
		return "", ferr
	}
	onormalise(fd)
	g := &dispGen{src: src}
	ps := wantSig("genbank.go `tryAllParsers`: parameter", fd.Type.Params, "[]pars.Parser")
	wantSig("genbank.go `tryAllParsers`: result", fd.Type.Results, "pars.Parser")
	pre, lit := innerParser("genbank.go `tryAllParsers`", fd.Body.List)
	if len(pre) != 0 {
		g.refuse(pre[0], "statements in front of the returned parser")
	}
	qs := wantSig("genbank.go `tryAllParsers`: parameter of the returned parser", lit.Type.Params, "*pars.State", "*pars.Result")
	g.state, g.res = qs[0], qs[1]
	// the named result
	if lit.Type.Results == nil || len(lit.Type.Results.List) != 1 || len(lit.Type.Results.List[0].Names) != 1 ||
		nodeText(lit.Type.Results.List[0].Type) != "error" {
		g.refuse(lit, "the returned parser does not have one named result of type error")
	}
	g.errVar = lit.Type.Results.List[0].Names[0].Name
	if len(lit.Body.List) < 1 {
		g.refuse(lit, "empty body")
	}
	rs, ok := lit.Body.List[0].(*ast.RangeStmt)
	if !ok || rs.Tok != token.DEFINE || identName(rs.X) != ps[0] || identName(rs.Key) != "_" || identName(rs.Value) == "" {
		g.refuse(lit.Body.List[0], "the first statement is not `for _, p := range %s`", ps[0])
	}
	g.loopVar = identName(rs.Value)
	for _, n := range []string{g.state, g.res, g.errVar, g.loopVar, ps[0]} {
		if strings.HasSuffix(n, "_") && len(n) > 1 {
			g.refuse(lit, "variable name %s is reserved by the generator", n)
		}
	}
	after := g.stmts(lit.Body.List[1:], "")
	if after == "" {
		g.refuse(lit, "control reaches the end of the returned parser")
	}
	body := g.stmts(rs.Body.List, fmt.Sprintf("tryAllParsersRange rest_ w_ %s", g.errVar))

	b := strings.Builder{}
	b.WriteString("/-\n  GENERATED by go2lean (gbreaderdispatch.go) from seqio/genbank.go — do not edit.\n")
	b.WriteString("  `tryAllParsers`, the dispatcher of the GenBank reader, translated statement by statement onto the model of the\n  go-pars state: a parser it calls is a parameter function `σ → P (σ × Option ε)` (`none`: it returned nil),\n  `state.Push() / Pop() / Drop() / Clear() / Pushed()` are `Pars.push / pop / drop / clear / pushed`, the `range`\n  loop is a recursion over the list, the named result starts as nil.\n-/\n")
	b.WriteString("import Gts.Model.Pars\nnamespace Gts.Gen\nopen Gts.Pars\nset_option linter.unusedVariables false\n\n")
	b.WriteString("/-- a `pars.Parser` as the dispatcher sees it: on everything it may change besides the pars.State (`σ`) it\nanswers the new value and the error it returned (`none` = nil) -/\nabbrev GoParser (σ ε : Type) := σ → P (σ × Option ε)\n\n")
	fmt.Fprintf(&b, "/-- genbank.go `tryAllParsers`: the loop `for _, %s := range %s`, one list element per iteration; `%s`: the named\nresult so far -/\n", g.loopVar, ps[0], g.errVar)
	fmt.Fprintf(&b, "def tryAllParsersRange {σ ε : Type} : List (GoParser σ ε) → σ → Option ε → P (σ × Option ε)\n")
	fmt.Fprintf(&b, "  | [], w_, %s => do\n%s\n", g.errVar, dispIndent(dispIndent(after)))
	fmt.Fprintf(&b, "  | %s :: rest_, w_, %s => do\n%s\n\n", g.loopVar, g.errVar, dispIndent(dispIndent(body)))
	fmt.Fprintf(&b, "/-- genbank.go `tryAllParsers(%s)`: the returned parser (its named result `%s` starts as nil) -/\n", ps[0], g.errVar)
	fmt.Fprintf(&b, "def tryAllParsers {σ ε : Type} (%s : List (GoParser σ ε)) : GoParser σ ε :=\n  fun w_ => tryAllParsersRange %s w_ none\n\nend Gts.Gen\n", ps[0], ps[0])
	return b.String(), nil
}
