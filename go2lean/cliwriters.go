package main

import (
	"fmt"
	"go/ast"
	"go/token"
	"os"
	"path/filepath"
	"sort"
	"strconv"
	"strings"
)

// genCliWriters extracts, for every cmd/gts/*.go function that WRITES SEQUENCES (it calls
// `seqio.NewWriter` or a method `WriteSeq`), the facts the CLI path `gts <cmd> -F fasta` of
// property C17 depends on:
//
//   - the subcommand name (`flags.Register("<name>", …, <func>)` in the same file),
//   - the declaration of the output-format option: `V := opt.<Kind>('<short>', "<long>", <default>, …)`
//     for the declaration whose long name is "format" (kind, short, long, default as source text, V),
//     and the variable of the declaration whose long name is "output",
//   - every `seqio.NewWriter(w, X)` call: the source text of X, the variable the writer is bound to,
//     and its source offset,
//   - every `R.WriteSeq(…)` call: the receiver R,
//   - every assignment to the file-type variable T (= X of the first NewWriter call when X is an
//     identifier): the right-hand side and the condition of the innermost enclosing `if` (""
//     when the assignment is a statement of the function body itself), in source order, and
//     whether all of them precede every NewWriter call,
//
// plus two tables of package seqio: the string switch of `ToFileType` and the FileType switch of
// `NewWriter` (case labels → the identifier / composite-literal type returned).
//
// What the facts must satisfy is stated in Gts/Spec/CliWriters.lean and decided by the kernel
// (Gts/Props/C17.lean).  Anything outside these shapes is refused.
func genCliWriters(repo string) (string, error) {
	dir := filepath.Join(repo, "cmd", "gts")
	ents, err := os.ReadDir(dir)
	if err != nil {
		return "", err
	}
	var ws []*cliWriter
	for _, e := range ents {
		n := e.Name()
		if e.IsDir() || !strings.HasSuffix(n, ".go") || strings.HasSuffix(n, "_test.go") {
			continue
		}
		src, err := parseSource(filepath.Join(dir, n))
		if err != nil {
			return "", err
		}
		w, err := cliWriterFile(src, n)
		if err != nil {
			return "", err
		}
		ws = append(ws, w...)
	}
	if len(ws) == 0 {
		return "", fmt.Errorf("%s: no function calls seqio.NewWriter", dir)
	}
	sort.Slice(ws, func(i, j int) bool { return ws[i].name < ws[j].name })
	toFT, toFTDefault, err := seqioSwitch(filepath.Join(repo, "seqio", "filetype.go"), "ToFileType", 0)
	if err != nil {
		return "", err
	}
	newW, newWDefault, err := seqioSwitch(filepath.Join(repo, "seqio", "writer.go"), "NewWriter", 1)
	if err != nil {
		return "", err
	}
	return renderCliWriters(ws, toFT, toFTDefault, newW, newWDefault), nil
}

type cliAssign struct{ cond, rhs string }

type cliWriter struct {
	file, fn, name                        string
	fmtKind, fmtShort, fmtLong, fmtDflt   string
	fmtVar, outVar                        string
	writerArgs, writerVars, writeSeqRecvs []string
	ftVar                                 string
	assigns                               []cliAssign
	assignsFirst                          bool
}

func cliWriterFile(src *source, base string) ([]*cliWriter, error) {
	registered := map[string]string{}
	for _, d := range src.file.Decls {
		fd, ok := d.(*ast.FuncDecl)
		if !ok || fd.Body == nil {
			continue
		}
		ast.Inspect(fd.Body, func(n ast.Node) bool {
			c, ok := n.(*ast.CallExpr)
			if !ok || exprString(c.Fun) != "flags.Register" || len(c.Args) != 3 {
				return true
			}
			name, ok1 := stringLiteral(c.Args[0])
			fn, ok2 := c.Args[2].(*ast.Ident)
			if ok1 && ok2 {
				registered[fn.Name] = name
			}
			return true
		})
	}
	var out []*cliWriter
	for _, d := range src.file.Decls {
		fd, ok := d.(*ast.FuncDecl)
		if !ok || fd.Body == nil {
			continue
		}
		var newWriters, writeSeqs []*ast.CallExpr
		ast.Inspect(fd.Body, func(n ast.Node) bool {
			c, ok := n.(*ast.CallExpr)
			if !ok {
				return true
			}
			if exprString(c.Fun) == "seqio.NewWriter" {
				newWriters = append(newWriters, c)
			}
			if sel, ok := c.Fun.(*ast.SelectorExpr); ok && sel.Sel.Name == "WriteSeq" {
				writeSeqs = append(writeSeqs, c)
			}
			return true
		})
		if len(newWriters) == 0 && len(writeSeqs) == 0 {
			continue
		}
		name, ok := registered[fd.Name.Name]
		if !ok || fd.Recv != nil {
			return nil, src.errAt(fd, "function %s writes sequences but is not a subcommand registered with flags.Register in this file", fd.Name.Name)
		}
		w := &cliWriter{file: base, fn: fd.Name.Name, name: name}
		for _, c := range newWriters {
			if len(c.Args) != 2 {
				return nil, src.errAt(c, "seqio.NewWriter: expected 2 arguments")
			}
			w.writerArgs = append(w.writerArgs, exprString(c.Args[1]))
		}
		for _, c := range writeSeqs {
			w.writeSeqRecvs = append(w.writeSeqRecvs, exprString(c.Fun.(*ast.SelectorExpr).X))
		}
		if len(newWriters) > 0 {
			if id, ok := newWriters[0].Args[1].(*ast.Ident); ok {
				w.ftVar = id.Name
			}
		}
		// declarations and assignments, with the innermost enclosing `if`
		firstWriter := token.Pos(-1)
		if len(newWriters) > 0 {
			firstWriter = newWriters[0].Pos()
		}
		w.assignsFirst = true
		var walk func(stmts []ast.Stmt, cond string) error
		var walkStmt func(s ast.Stmt, cond string) error
		walkStmt = func(s ast.Stmt, cond string) error {
			switch v := s.(type) {
			case *ast.AssignStmt:
				for i, lhs := range v.Lhs {
					id, ok := lhs.(*ast.Ident)
					if !ok {
						continue
					}
					var rhs ast.Expr
					if len(v.Rhs) == len(v.Lhs) {
						rhs = v.Rhs[i]
					} else if len(v.Rhs) == 1 {
						rhs = v.Rhs[0]
					}
					if rhs == nil {
						continue
					}
					if c, ok := rhs.(*ast.CallExpr); ok {
						if sel, ok := c.Fun.(*ast.SelectorExpr); ok && exprString(sel.X) == "opt" && len(c.Args) >= 2 {
							if long, ok := stringLiteral(c.Args[1]); ok && long == "output" && cond == "" {
								w.outVar = id.Name
							}
							if long, ok := stringLiteral(c.Args[1]); ok && long == "format" {
								if w.fmtVar != "" {
									return src.errAt(c, "option `format` declared twice")
								}
								if cond != "" {
									return src.errAt(c, "option `format` declared under a condition")
								}
								w.fmtVar, w.fmtKind, w.fmtLong = id.Name, sel.Sel.Name, long
								short, err := runeText(c.Args[0])
								if err != nil {
									return src.errAt(c, "option `format`: %v", err)
								}
								w.fmtShort = short
								if len(c.Args) >= 4 {
									w.fmtDflt = exprString(c.Args[2])
								}
							}
						}
						if exprString(c.Fun) == "seqio.NewWriter" {
							w.writerVars = append(w.writerVars, id.Name)
						}
					}
					if w.ftVar != "" && id.Name == w.ftVar {
						w.assigns = append(w.assigns, cliAssign{cond, exprString(rhs)})
						if firstWriter >= 0 && v.Pos() > firstWriter {
							w.assignsFirst = false
						}
					}
				}
			case *ast.IfStmt:
				if v.Init != nil {
					if err := walkStmt(v.Init, cond); err != nil {
						return err
					}
				}
				c := exprString(v.Cond)
				if err := walk(v.Body.List, c); err != nil {
					return err
				}
				if v.Else != nil {
					if err := walkStmt(v.Else, "!("+c+")"); err != nil {
						return err
					}
				}
			case *ast.BlockStmt:
				return walk(v.List, cond)
			case *ast.ForStmt:
				return walk(v.Body.List, "for")
			case *ast.RangeStmt:
				return walk(v.Body.List, "for")
			case *ast.SwitchStmt:
				for _, cc := range v.Body.List {
					if err := walk(cc.(*ast.CaseClause).Body, "switch"); err != nil {
						return err
					}
				}
			case *ast.TypeSwitchStmt:
				for _, cc := range v.Body.List {
					if err := walk(cc.(*ast.CaseClause).Body, "switch"); err != nil {
						return err
					}
				}
			case *ast.IncDecStmt:
				if id, ok := v.X.(*ast.Ident); ok && w.ftVar != "" && id.Name == w.ftVar {
					return src.errAt(v, "the file type variable is changed by %s", v.Tok)
				}
			}
			return nil
		}
		walk = func(stmts []ast.Stmt, cond string) error {
			for _, s := range stmts {
				if err := walkStmt(s, cond); err != nil {
					return err
				}
			}
			return nil
		}
		if err := walk(fd.Body.List, ""); err != nil {
			return nil, err
		}
		// the address of the file type variable must not escape (it could be written elsewhere)
		var escErr error
		ast.Inspect(fd.Body, func(n ast.Node) bool {
			if u, ok := n.(*ast.UnaryExpr); ok && u.Op == token.AND {
				if id, ok := u.X.(*ast.Ident); ok && w.ftVar != "" && id.Name == w.ftVar {
					escErr = src.errAt(u, "the address of the file type variable %s is taken", id.Name)
				}
			}
			if fl, ok := n.(*ast.FuncLit); ok && w.ftVar != "" {
				ast.Inspect(fl.Body, func(m ast.Node) bool {
					if as, ok := m.(*ast.AssignStmt); ok {
						for _, lhs := range as.Lhs {
							if id, ok := lhs.(*ast.Ident); ok && id.Name == w.ftVar {
								escErr = src.errAt(as, "the file type variable %s is assigned inside a function literal", id.Name)
							}
						}
					}
					return true
				})
			}
			return true
		})
		if escErr != nil {
			return nil, escErr
		}
		out = append(out, w)
	}
	return out, nil
}

// runeText: the option's short name, `'F'` → "F", `0` → ""
func runeText(e ast.Expr) (string, error) {
	lit, ok := e.(*ast.BasicLit)
	if !ok {
		return "", fmt.Errorf("short name is not a literal")
	}
	switch lit.Kind {
	case token.CHAR:
		s, err := strconv.Unquote(lit.Value)
		return s, err
	case token.INT:
		if lit.Value == "0" {
			return "", nil
		}
	}
	return "", fmt.Errorf("short name %s", lit.Value)
}

type switchRow struct {
	labels []string
	result string
}

// seqioSwitch reads `func <name>(…) … { switch <param #argIdx> { case L…: return R … default: return D } }`:
// the function body is that one switch; every clause is a single `return` of an identifier or of a
// composite literal (its type name is recorded).  String labels are recorded unquoted.
func seqioSwitch(path, name string, argIdx int) ([]switchRow, string, error) {
	src, err := parseSource(path)
	if err != nil {
		return nil, "", err
	}
	fd, err := src.fun(name)
	if err != nil {
		return nil, "", err
	}
	var params []string
	for _, f := range fd.Type.Params.List {
		for _, n := range f.Names {
			params = append(params, n.Name)
		}
	}
	if len(fd.Body.List) != 1 || argIdx >= len(params) {
		return nil, "", src.errAt(fd, "%s: expected a body that is one switch statement", name)
	}
	sw, ok := fd.Body.List[0].(*ast.SwitchStmt)
	if !ok || sw.Init != nil || sw.Tag == nil || exprString(sw.Tag) != params[argIdx] {
		return nil, "", src.errAt(fd, "%s: expected `switch %s`", name, params[argIdx])
	}
	result := func(cc *ast.CaseClause) (string, error) {
		if len(cc.Body) != 1 {
			return "", src.errAt(cc, "%s: a clause is not a single return", name)
		}
		ret, ok := cc.Body[0].(*ast.ReturnStmt)
		if !ok || len(ret.Results) != 1 {
			return "", src.errAt(cc, "%s: a clause is not a single return", name)
		}
		switch v := ret.Results[0].(type) {
		case *ast.Ident:
			return v.Name, nil
		case *ast.CompositeLit:
			if id, ok := v.Type.(*ast.Ident); ok {
				return id.Name, nil
			}
		}
		return "", src.errAt(ret, "%s: unexpected result expression", name)
	}
	var rows []switchRow
	dflt := ""
	seen := map[string]bool{}
	for _, c := range sw.Body.List {
		cc := c.(*ast.CaseClause)
		res, err := result(cc)
		if err != nil {
			return nil, "", err
		}
		if cc.List == nil {
			dflt = res
			continue
		}
		row := switchRow{result: res}
		for _, l := range cc.List {
			var label string
			if s, ok := stringLiteral(l); ok {
				label = s
			} else if id, ok := l.(*ast.Ident); ok {
				label = id.Name
			} else {
				return nil, "", src.errAt(l, "%s: unexpected case label", name)
			}
			if seen[label] {
				return nil, "", src.errAt(l, "%s: case label %q twice", name, label)
			}
			seen[label] = true
			row.labels = append(row.labels, label)
		}
		rows = append(rows, row)
	}
	if dflt == "" {
		return nil, "", src.errAt(sw, "%s: no default clause", name)
	}
	return rows, dflt, nil
}

func renderCliWriters(ws []*cliWriter, toFT []switchRow, toFTDefault string, newW []switchRow, newWDefault string) string {
	b := &strings.Builder{}
	b.WriteString(`/-
  GENERATED by go2lean from cmd/gts/*.go (every function that calls seqio.NewWriter or a method
  WriteSeq), seqio/filetype.go (ToFileType) and seqio/writer.go (NewWriter) - DO NOT EDIT.
  Regenerated by bin/setup and by every bin/check run; see go2lean/cliwriters.go.
  Tables only, extracted from the AST; what they must satisfy is stated in Gts/Spec/CliWriters.lean
  and Gts/Props/C17.lean.
-/
namespace Gts.Gen.CliWriters

/-- one subcommand function that writes sequences -/
structure Writer where
  file : String
  fn : String
  name : String
  /-- the declaration whose long name is "format": the method of ` + "`opt`" + ` (String, …), short name, long
  name, default (source text), the Go variable it is bound to; all "" when there is none -/
  fmtKind : String
  fmtShort : String
  fmtLong : String
  fmtDflt : String
  fmtVar : String
  /-- the Go variable of the option whose long name is "output" ("" when there is none) -/
  outVar : String
  /-- second argument (source text) of every ` + "`seqio.NewWriter(w, X)`" + ` call, in source order -/
  writerArgs : List String
  /-- the variables bound to a ` + "`seqio.NewWriter`" + ` call -/
  writerVars : List String
  /-- the receiver of every ` + "`R.WriteSeq(…)`" + ` call -/
  writeSeqRecvs : List String
  /-- the file type variable: X of the first NewWriter call when it is an identifier, else "" -/
  ftVar : String
  /-- every assignment to it in source order: (condition of the innermost enclosing ` + "`if`" + `, "" at the top
  level of the function; right-hand side) -/
  assigns : List (String × String)
  /-- all of them precede the first NewWriter call -/
  assignsFirst : Bool
  deriving DecidableEq, Repr

def writers : List Writer := [
`)
	for i, w := range ws {
		as := make([]string, len(w.assigns))
		for j, a := range w.assigns {
			as[j] = "(" + leanStr(a.cond) + ", " + leanStr(a.rhs) + ")"
		}
		fmt.Fprintf(b, "  { file := %s, fn := %s, name := %s,\n", leanStr(w.file), leanStr(w.fn), leanStr(w.name))
		fmt.Fprintf(b, "    fmtKind := %s, fmtShort := %s, fmtLong := %s, fmtDflt := %s, fmtVar := %s, outVar := %s,\n",
			leanStr(w.fmtKind), leanStr(w.fmtShort), leanStr(w.fmtLong), leanStr(w.fmtDflt), leanStr(w.fmtVar), leanStr(w.outVar))
		fmt.Fprintf(b, "    writerArgs := %s, writerVars := %s, writeSeqRecvs := %s,\n",
			leanStrList(w.writerArgs), leanStrList(w.writerVars), leanStrList(w.writeSeqRecvs))
		fmt.Fprintf(b, "    ftVar := %s, assigns := [%s], assignsFirst := %v }", leanStr(w.ftVar), strings.Join(as, ", "), w.assignsFirst)
		if i+1 < len(ws) {
			b.WriteString(",")
		}
		b.WriteString("\n")
	}
	b.WriteString("]\n\n")
	rows := func(rs []switchRow) string {
		xs := make([]string, len(rs))
		for i, r := range rs {
			xs[i] = "(" + leanStrList(r.labels) + ", " + leanStr(r.result) + ")"
		}
		return "[" + strings.Join(xs, ", ") + "]"
	}
	fmt.Fprintf(b, "/-- `seqio.ToFileType`: the case labels of its string switch and the constant each clause returns -/\ndef toFileType : List (List String × String) := %s\n\n", rows(toFT))
	fmt.Fprintf(b, "/-- … and the constant of its `default` clause -/\ndef toFileTypeDefault : String := %s\n\n", leanStr(toFTDefault))
	fmt.Fprintf(b, "/-- `seqio.NewWriter`: the FileType labels of its switch and the writer type each clause returns -/\ndef newWriter : List (List String × String) := %s\n\n", rows(newW))
	fmt.Fprintf(b, "/-- … and the writer type of its `default` clause -/\ndef newWriterDefault : String := %s\n\n", leanStr(newWDefault))
	b.WriteString("end Gts.Gen.CliWriters\n")
	return b.String()
}
