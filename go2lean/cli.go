package main

import (
	"bytes"
	"fmt"
	"go/ast"
	"go/printer"
	"go/token"
	"os"
	"path/filepath"
	"sort"
	"strconv"
	"strings"
)

// genCli extracts, for every cmd/gts/*.go function that calls `d.TryCache` (a *cached
// subcommand*), the facts the cache-transparency property C14 depends on (DESIGN.md 4.1b):
//
//   - the subcommand name (`flags.Register("<name>", …, <func>)` in the same file),
//   - every declared option and positional (`opt.Switch/String/StringSlice/Int/…`,
//     `pos.String/Extra/…`): class, kind, long name, short name, default (source text), the bound
//     Go variable, whether the declaration sits under `if cmd.IsTerminal(os.Stdin.Fd())`, and
//     where the variable is read (innermost enclosing callee of every occurrence),
//   - the `encodePayload([]tuple{…})` list: key string, the identifiers the value expression
//     reads (`direct`), and the declared variables reached from them through the function's
//     assignments (`reads`; flow-insensitive: `x := e`, `x = e`, `x, y := f(e)`, `for _, v := range e`,
//     `recv.M(e)` makes `recv` depend on `e`, `attach(w, r)` makes `w` depend on `r`),
//   - the derived variables themselves (`filetype ← seqoutPath, format`),
//   - the two path arguments of `newIODelegate`, whether `defer d.Close()` follows it,
//   - how `d.Commit()` relates to the `return nil` statements of the function,
//
// plus literal facts of io.go: the body of `Commit`, the condition under which `Close`
// removes the entry being written, the condition under which a hit removes the entry, the
// statements of `(*ioDelegate).Write` (the tee: the cache first, its error returned before the
// output is touched) and of the block of `TryCache` that creates the entry (what is done with
// the error of `cache.CreateLevel`).
//
// Anything outside these shapes is refused.
func genCli(repo string) (string, error) {
	dir := filepath.Join(repo, "cmd", "gts")
	ents, err := os.ReadDir(dir)
	if err != nil {
		return "", err
	}
	var cmds []*cliCommand
	for _, e := range ents {
		n := e.Name()
		if e.IsDir() || !strings.HasSuffix(n, ".go") || strings.HasSuffix(n, "_test.go") {
			continue
		}
		src, err := parseSource(filepath.Join(dir, n))
		if err != nil {
			return "", err
		}
		cc, err := cliFile(src, n)
		if err != nil {
			return "", err
		}
		cmds = append(cmds, cc...)
	}
	if len(cmds) == 0 {
		return "", fmt.Errorf("%s: no function calls TryCache", dir)
	}
	sort.Slice(cmds, func(i, j int) bool { return cmds[i].name < cmds[j].name })
	for i := 1; i < len(cmds); i++ {
		if cmds[i].name == cmds[i-1].name {
			return "", fmt.Errorf("subcommand %q registered twice", cmds[i].name)
		}
	}
	io, err := cliIOFacts(filepath.Join(dir, "io.go"))
	if err != nil {
		return "", err
	}
	return renderCli(cmds, io), nil
}

type cliDecl struct {
	class, kind, long, short, dflt, varName string
	tty                                     bool
	uses                                    []string
}

type cliTuple struct {
	// form of the value expression: deref (*v), ident (v), method:<name> (x.<name>()),
	// call:<callee> (f(…)), literal, other
	form string
	// for form ident: how the identifier got its value — decl (a declared option / positional
	// variable itself), else the callee (or expression kind) of the right-hand side of its
	// first assignment in the function, e.g. seqio.Detect, h.Sum, gts.AsLocation, index
	prov   string
	key    string
	direct []string
	reads  []string
}

// cliDigest: a payload variable bound to `h.Sum(nil)` and everything that was written into the
// hash since the preceding `h.Reset()` (in source order): kind "file" = `attach(h, f)` with
// `f, err := os.Open(*V)`, kind "literal" = `h.Write(p)` with `p := []byte(*V)`, V a declared
// variable; anything else is kind "other" with the source text.
type cliDigest struct {
	varName string
	feeds   [][2]string
}

type cliCommand struct {
	file, fn, name       string
	decls                []cliDecl
	payload              []cliTuple
	derived              [][2]string // name, comma separated deps (declared variables reached)
	primary, output      string
	deferClose           bool
	commits, nilReturns  int
	digests              []cliDigest
	commitThenReturnNil  int
	endsWithCommitReturn bool
}

var optKinds = map[string]int{ // method -> number of arguments
	"Switch": 3, "Int": 4, "IntSlice": 4, "Float": 4, "FloatSlice": 4, "String": 4, "StringSlice": 4,
}
var posKinds = map[string]int{"Switch": 2, "Int": 2, "Float": 2, "String": 2, "Extra": 2}

var goBuiltins = map[string]bool{
	"true": true, "false": true, "nil": true, "len": true, "cap": true, "make": true, "new": true,
	"append": true, "copy": true, "delete": true, "panic": true, "string": true, "byte": true,
	"rune": true, "int": true, "bool": true, "error": true, "float64": true, "interface": true, "_": true,
}

func cliFile(src *source, base string) ([]*cliCommand, error) {
	pkgs := map[string]bool{}
	for _, im := range src.file.Imports {
		p, _ := strconv.Unquote(im.Path.Value)
		name := p[strings.LastIndex(p, "/")+1:]
		if im.Name != nil {
			name = im.Name.Name
		}
		pkgs[name] = true
	}
	// flags.Register("name", "desc", fn)
	registered := map[string]string{}
	for _, d := range src.file.Decls {
		fd, ok := d.(*ast.FuncDecl)
		if !ok || fd.Body == nil {
			continue
		}
		var rerr error
		ast.Inspect(fd.Body, func(n ast.Node) bool {
			c, ok := n.(*ast.CallExpr)
			if !ok || exprString(c.Fun) != "flags.Register" {
				return true
			}
			if len(c.Args) != 3 {
				rerr = src.errAt(c, "flags.Register: expected 3 arguments")
				return false
			}
			name, ok1 := stringLiteral(c.Args[0])
			fn, ok2 := c.Args[2].(*ast.Ident)
			if !ok1 || !ok2 {
				return true // a command set (`gts cache …`); a TryCache function must still be found below
			}
			if _, dup := registered[fn.Name]; dup {
				rerr = src.errAt(c, "function %s registered twice", fn.Name)
				return false
			}
			registered[fn.Name] = name
			return true
		})
		if rerr != nil {
			return nil, rerr
		}
	}
	var out []*cliCommand
	for _, d := range src.file.Decls {
		fd, ok := d.(*ast.FuncDecl)
		if !ok || fd.Body == nil {
			continue
		}
		if len(methodCalls(fd.Body, "TryCache")) == 0 {
			continue
		}
		if fd.Recv != nil {
			if base == "io.go" { // the definition of TryCache itself and its helpers
				continue
			}
			return nil, src.errAt(fd, "method %s calls TryCache: not a subcommand function", fd.Name.Name)
		}
		name, ok := registered[fd.Name.Name]
		if !ok {
			return nil, src.errAt(fd, "function %s calls TryCache but is not registered with flags.Register in this file", fd.Name.Name)
		}
		c, err := cliFunc(src, fd, pkgs)
		if err != nil {
			return nil, err
		}
		c.file, c.fn, c.name = base, fd.Name.Name, name
		out = append(out, c)
	}
	return out, nil
}

// methodCalls: calls `<anything>.<sel>(…)` below n, not descending into function literals.
func methodCalls(n ast.Node, sel string) []*ast.CallExpr {
	var out []*ast.CallExpr
	ast.Inspect(n, func(x ast.Node) bool {
		if _, ok := x.(*ast.FuncLit); ok {
			return false
		}
		if c, ok := x.(*ast.CallExpr); ok {
			if s, ok := c.Fun.(*ast.SelectorExpr); ok && s.Sel.Name == sel {
				out = append(out, c)
			}
		}
		return true
	})
	return out
}

func isTTYCond(e ast.Expr) bool { return exprString(e) == "cmd.IsTerminal(os.Stdin.Fd())" }

func cliFunc(src *source, fd *ast.FuncDecl, pkgs map[string]bool) (*cliCommand, error) {
	c := &cliCommand{}
	body := fd.Body

	// --- pos, opt := flags.Flags()
	posName, optName := "", ""
	for _, st := range body.List {
		as, ok := st.(*ast.AssignStmt)
		if !ok || len(as.Rhs) != 1 || exprString(as.Rhs[0]) != "flags.Flags()" {
			continue
		}
		if posName != "" || len(as.Lhs) != 2 || as.Tok != token.DEFINE {
			return nil, src.errAt(as, "expected exactly one `pos, opt := flags.Flags()`")
		}
		p, ok1 := as.Lhs[0].(*ast.Ident)
		o, ok2 := as.Lhs[1].(*ast.Ident)
		if !ok1 || !ok2 {
			return nil, src.errAt(as, "flags.Flags(): identifiers expected")
		}
		posName, optName = p.Name, o.Name
	}
	if posName == "" {
		return nil, src.errAt(fd, "no top-level `pos, opt := flags.Flags()`")
	}

	// --- declarations: top-level statements, or inside `if cmd.IsTerminal(os.Stdin.Fd()) { … }`
	declared := map[*ast.CallExpr]bool{}
	declVar := map[string]bool{}
	declIdent := map[*ast.Ident]bool{}
	addDecl := func(as *ast.AssignStmt, tty bool) error {
		if len(as.Lhs) != 1 || len(as.Rhs) != 1 {
			return nil
		}
		call, ok := as.Rhs[0].(*ast.CallExpr)
		if !ok {
			return nil
		}
		sel, ok := call.Fun.(*ast.SelectorExpr)
		if !ok {
			return nil
		}
		recv, ok := sel.X.(*ast.Ident)
		if !ok || (recv.Name != posName && recv.Name != optName) {
			return nil
		}
		lhs, ok := as.Lhs[0].(*ast.Ident)
		if !ok {
			return src.errAt(as, "declaration must be bound to a plain identifier")
		}
		d := cliDecl{kind: sel.Sel.Name, varName: lhs.Name, tty: tty}
		if recv.Name == optName {
			d.class = "opt"
			n, ok := optKinds[d.kind]
			if !ok || len(call.Args) != n {
				return src.errAt(call, "unknown option declaration %s.%s/%d", recv.Name, d.kind, len(call.Args))
			}
			switch a := call.Args[0].(type) {
			case *ast.BasicLit:
				if a.Kind == token.CHAR {
					b, ok := byteLiteral(a)
					if !ok {
						return src.errAt(a, "short option name must be one byte")
					}
					d.short = string(b)
				} else if a.Kind == token.INT && a.Value == "0" {
					d.short = ""
				} else {
					return src.errAt(a, "short option name must be a character literal or 0")
				}
			default:
				return src.errAt(call.Args[0], "short option name must be a character literal or 0")
			}
			long, ok := stringLiteral(call.Args[1])
			if !ok {
				return src.errAt(call.Args[1], "long option name must be a string literal")
			}
			d.long = long
			if n == 4 {
				d.dflt = exprString(call.Args[2])
				if strings.HasPrefix(d.dflt, "<") {
					return src.errAt(call.Args[2], "default value of an unknown shape")
				}
			}
		} else {
			d.class = "pos"
			n, ok := posKinds[d.kind]
			if !ok || len(call.Args) != n {
				return src.errAt(call, "unknown positional declaration %s.%s/%d", recv.Name, d.kind, len(call.Args))
			}
			long, ok := stringLiteral(call.Args[0])
			if !ok {
				return src.errAt(call.Args[0], "positional name must be a string literal")
			}
			d.long = long
		}
		if !isASCII(d.long) {
			return src.errAt(call, "non-ASCII name")
		}
		for _, e := range c.decls {
			if e.long == d.long && e.class == d.class {
				return src.errAt(call, "%s %q declared twice", d.class, d.long)
			}
			if e.varName == d.varName {
				return src.errAt(call, "variable %s bound to two declarations", d.varName)
			}
		}
		c.decls = append(c.decls, d)
		declared[call] = true
		declVar[d.varName] = true
		declIdent[lhs] = true
		return nil
	}
	for _, st := range body.List {
		switch s := st.(type) {
		case *ast.AssignStmt:
			if err := addDecl(s, false); err != nil {
				return nil, err
			}
		case *ast.IfStmt:
			if s.Init == nil && s.Else == nil && isTTYCond(s.Cond) {
				for _, in := range s.Body.List {
					as, ok := in.(*ast.AssignStmt)
					if !ok {
						return nil, src.errAt(in, "only declarations are expected under the terminal test")
					}
					if err := addDecl(as, true); err != nil {
						return nil, err
					}
				}
			}
		}
	}
	// every other use of pos/opt must be the ctx.Parse(pos, opt) call
	var shapeErr error
	ast.Inspect(body, func(n ast.Node) bool {
		call, ok := n.(*ast.CallExpr)
		if !ok || shapeErr != nil {
			return shapeErr == nil
		}
		if sel, ok := call.Fun.(*ast.SelectorExpr); ok {
			if recv, ok := sel.X.(*ast.Ident); ok && (recv.Name == posName || recv.Name == optName) && !declared[call] {
				shapeErr = src.errAt(call, "%s.%s(…) outside the recognised declaration shapes", recv.Name, sel.Sel.Name)
			}
		}
		return true
	})
	if shapeErr != nil {
		return nil, shapeErr
	}
	if n := len(methodCalls(body, "Parse")); n < 1 {
		return nil, src.errAt(fd, "no ctx.Parse call")
	}

	// --- dependency graph of the local variables
	deps := map[string]map[string]bool{}
	// parameters (ctx) are inputs fixed at entry: never a sink of the graph
	params := map[string]bool{}
	for _, f := range fd.Type.Params.List {
		for _, n := range f.Names {
			params[n.Name] = true
		}
	}
	add := func(x string, from []string) {
		if x == "_" || x == "" || params[x] {
			return
		}
		if deps[x] == nil {
			deps[x] = map[string]bool{}
		}
		for _, f := range from {
			if f != x {
				deps[x][f] = true
			}
		}
	}
	var collect func(e ast.Node, out *[]string)
	collect = func(e ast.Node, out *[]string) {
		if e == nil {
			return
		}
		ast.Inspect(e, func(n ast.Node) bool {
			switch v := n.(type) {
			case *ast.SelectorExpr:
				collect(v.X, out) // x.Sel: only x is a variable position
				return false
			case *ast.Ident:
				if !pkgs[v.Name] && !goBuiltins[v.Name] {
					*out = append(*out, v.Name)
				}
			}
			return true
		})
	}
	vars := func(e ast.Node) []string {
		var out []string
		collect(e, &out)
		return out
	}
	baseIdent := func(e ast.Expr) string {
		for {
			switch v := e.(type) {
			case *ast.Ident:
				return v.Name
			case *ast.StarExpr:
				e = v.X
			case *ast.IndexExpr:
				e = v.X
			case *ast.ParenExpr:
				e = v.X
			case *ast.SelectorExpr:
				e = v.X
			default:
				return ""
			}
		}
	}
	ast.Inspect(body, func(n ast.Node) bool {
		switch s := n.(type) {
		case *ast.AssignStmt:
			for i, l := range s.Lhs {
				var from []string
				if len(s.Rhs) == len(s.Lhs) {
					from = vars(s.Rhs[i])
				} else {
					for _, r := range s.Rhs {
						from = append(from, vars(r)...)
					}
				}
				if ix, ok := l.(*ast.IndexExpr); ok {
					from = append(from, vars(ix.Index)...)
				}
				add(baseIdent(l), from)
			}
		case *ast.RangeStmt:
			from := vars(s.X)
			if s.Key != nil {
				add(baseIdent(s.Key), from)
			}
			if s.Value != nil {
				add(baseIdent(s.Value), from)
			}
		case *ast.ValueSpec:
			for i, name := range s.Names {
				if len(s.Values) == len(s.Names) {
					add(name.Name, vars(s.Values[i]))
				} else {
					for _, v := range s.Values {
						add(name.Name, vars(v))
					}
				}
			}
		case *ast.CallExpr:
			if sel, ok := s.Fun.(*ast.SelectorExpr); ok {
				if recv, ok := sel.X.(*ast.Ident); ok && !pkgs[recv.Name] {
					var from []string
					for _, a := range s.Args {
						from = append(from, vars(a)...)
					}
					add(recv.Name, from)
				}
			}
			if id, ok := s.Fun.(*ast.Ident); ok && id.Name == "attach" && len(s.Args) == 2 {
				add(baseIdent(s.Args[0]), vars(s.Args[1]))
			}
		}
		return true
	})
	closure := func(start []string) []string {
		seen := map[string]bool{}
		var stack []string
		for _, s := range start {
			if !seen[s] {
				seen[s] = true
				stack = append(stack, s)
			}
		}
		for len(stack) > 0 {
			x := stack[len(stack)-1]
			stack = stack[:len(stack)-1]
			for y := range deps[x] {
				if !seen[y] {
					seen[y] = true
					stack = append(stack, y)
				}
			}
		}
		var out []string
		for _, d := range c.decls { // declaration order
			if seen[d.varName] {
				out = append(out, d.varName)
			}
		}
		return out
	}

	// --- payload
	calls := callsNamed(body, "encodePayload")
	if len(calls) != 1 {
		return nil, src.errAt(fd, "expected exactly one encodePayload call, found %d", len(calls))
	}
	pc := calls[0]
	if len(pc.Args) != 1 {
		return nil, src.errAt(pc, "encodePayload: one argument expected")
	}
	lit, ok := pc.Args[0].(*ast.CompositeLit)
	if !ok || exprString(lit.Type) != "[]tuple" {
		return nil, src.errAt(pc, "encodePayload: argument must be a []tuple{…} literal")
	}
	derivedSeen := map[string]bool{}
	for _, el := range lit.Elts {
		tl, ok := el.(*ast.CompositeLit)
		if !ok || tl.Type != nil || len(tl.Elts) != 2 {
			return nil, src.errAt(el, "payload tuple must be {\"key\", value}")
		}
		key, ok := stringLiteral(tl.Elts[0])
		if !ok || !isASCII(key) {
			return nil, src.errAt(tl.Elts[0], "payload key must be an ASCII string literal")
		}
		for _, t := range c.payload {
			if t.key == key {
				return nil, src.errAt(tl, "payload key %q twice", key)
			}
		}
		var direct []string
		for _, v := range dedup(vars(tl.Elts[1])) {
			// local variables and parameters only (package-level functions such as encodeToString are not variables)
			if _, local := deps[v]; local || params[v] || declVar[v] {
				direct = append(direct, v)
			}
		}
		form, prov := "other", ""
		switch v := tl.Elts[1].(type) {
		case *ast.StarExpr:
			if _, ok := v.X.(*ast.Ident); ok {
				form = "deref"
			}
		case *ast.Ident:
			form = "ident"
			if declVar[v.Name] {
				prov = "decl"
			} else {
				prov = firstAssignKind(body, v.Name)
			}
		case *ast.BasicLit:
			form = "literal"
		case *ast.CallExpr:
			switch f := v.Fun.(type) {
			case *ast.SelectorExpr:
				if _, isPkg := f.X.(*ast.Ident); isPkg && pkgs[exprString(f.X)] {
					form = "call:" + exprString(v.Fun)
				} else {
					form = "method:" + f.Sel.Name
				}
			case *ast.Ident:
				form = "call:" + f.Name
			}
		}
		t := cliTuple{key: key, direct: direct, reads: closure(direct), form: form, prov: prov}
		c.payload = append(c.payload, t)
		for _, v := range direct {
			if !declVar[v] && !derivedSeen[v] && len(closure([]string{v})) > 0 {
				derivedSeen[v] = true
				c.derived = append(c.derived, [2]string{v, strings.Join(closure([]string{v}), ",")})
			}
		}
	}
	// data := encodePayload(…);  ok, err := d.TryCache(h, data)
	var dataVar string
	ast.Inspect(body, func(n ast.Node) bool {
		if as, ok := n.(*ast.AssignStmt); ok && len(as.Rhs) == 1 && as.Rhs[0] == ast.Expr(pc) && len(as.Lhs) == 1 {
			dataVar = baseIdent(as.Lhs[0])
		}
		return true
	})
	tcs := methodCalls(body, "TryCache")
	if len(tcs) != 1 {
		return nil, src.errAt(fd, "expected exactly one TryCache call, found %d", len(tcs))
	}
	tc := tcs[0]
	if len(tc.Args) != 2 || dataVar == "" || exprString(tc.Args[1]) != dataVar {
		return nil, src.errAt(tc, "TryCache must be given the variable bound to encodePayload(…)")
	}
	delegate := baseIdent(tc.Fun.(*ast.SelectorExpr).X)

	// --- d, err := newIODelegate(*in, *out); defer d.Close()
	nds := callsNamed(body, "newIODelegate")
	if len(nds) != 1 || len(nds[0].Args) != 2 {
		return nil, src.errAt(fd, "expected exactly one newIODelegate(in, out) call")
	}
	c.primary, c.output = baseIdent(nds[0].Args[0]), baseIdent(nds[0].Args[1])
	if c.primary == "" || c.output == "" {
		return nil, src.errAt(nds[0], "newIODelegate: arguments must be (dereferenced) variables")
	}
	for i, st := range body.List {
		as, ok := st.(*ast.AssignStmt)
		if !ok || len(as.Rhs) != 1 || as.Rhs[0] != ast.Expr(nds[0]) {
			continue
		}
		if len(as.Lhs) != 2 || baseIdent(as.Lhs[0]) != delegate {
			return nil, src.errAt(as, "newIODelegate must be bound to the delegate %s used for TryCache", delegate)
		}
		// the error check follows, then the deferred Close
		for _, nx := range body.List[i+1:] {
			if _, ok := nx.(*ast.IfStmt); ok {
				continue
			}
			if df, ok := nx.(*ast.DeferStmt); ok && exprString(df.Call) == delegate+".Close()" {
				c.deferClose = true
			}
			break
		}
	}

	// --- digests of secondary inputs: X := h.Sum(nil), h the hash handed to TryCache
	hashVar := baseIdent(tc.Args[0])
	if hashVar == "" {
		return nil, src.errAt(tc, "TryCache: the hash must be a variable")
	}
	bindings := map[string]ast.Expr{} // single-assignment view: variable -> the call it is bound to
	ast.Inspect(body, func(n ast.Node) bool {
		if as, ok := n.(*ast.AssignStmt); ok && len(as.Rhs) == 1 && len(as.Lhs) >= 1 {
			if id, ok := as.Lhs[0].(*ast.Ident); ok {
				if _, dup := bindings[id.Name]; dup {
					bindings[id.Name] = nil // bound more than once: not traced
				} else {
					bindings[id.Name] = as.Rhs[0]
				}
			}
		}
		return true
	})
	declOf := func(e ast.Expr) string { // *V with V declared
		if st, ok := e.(*ast.StarExpr); ok {
			if id, ok := st.X.(*ast.Ident); ok && declVar[id.Name] {
				return id.Name
			}
		}
		return ""
	}
	classify := func(kind string, e ast.Expr) [2]string {
		if id, ok := e.(*ast.Ident); ok {
			if call, ok := bindings[id.Name].(*ast.CallExpr); ok && len(call.Args) == 1 {
				v := declOf(call.Args[0])
				switch {
				case kind == "file" && exprString(call.Fun) == "os.Open" && v != "":
					return [2]string{"file", v}
				case kind == "literal" && exprString(call.Fun) == "[]byte" && v != "":
					return [2]string{"literal", v}
				}
			}
		}
		return [2]string{"other", exprString(e)}
	}
	type hashEvent struct {
		pos  token.Pos
		kind string // reset feed sum
		feed [2]string
		sum  string
	}
	var events []hashEvent
	ast.Inspect(body, func(n ast.Node) bool {
		switch v := n.(type) {
		case *ast.AssignStmt:
			if len(v.Rhs) == 1 && len(v.Lhs) == 1 && exprString(v.Rhs[0]) == hashVar+".Sum(nil)" {
				events = append(events, hashEvent{pos: v.Pos(), kind: "sum", sum: baseIdent(v.Lhs[0])})
			}
		case *ast.CallExpr:
			switch {
			case exprString(v.Fun) == hashVar+".Reset" && len(v.Args) == 0:
				events = append(events, hashEvent{pos: v.Pos(), kind: "reset"})
			case exprString(v.Fun) == hashVar+".Write" && len(v.Args) == 1:
				events = append(events, hashEvent{pos: v.Pos(), kind: "feed", feed: classify("literal", v.Args[0])})
			case exprString(v.Fun) == "attach" && len(v.Args) == 2 && exprString(v.Args[0]) == hashVar:
				events = append(events, hashEvent{pos: v.Pos(), kind: "feed", feed: classify("file", v.Args[1])})
			}
		}
		return true
	})
	sort.Slice(events, func(i, j int) bool { return events[i].pos < events[j].pos })
	var feeds [][2]string
	for _, e := range events {
		switch e.kind {
		case "reset":
			feeds = nil
		case "feed":
			feeds = append(feeds, e.feed)
		case "sum":
			c.digests = append(c.digests, cliDigest{e.sum, append([][2]string{}, feeds...)})
		}
	}
	// any other use of the hash variable (passed elsewhere, other methods) is outside the shape
	var hashErr error
	ast.Inspect(body, func(n ast.Node) bool {
		if sel, ok := n.(*ast.SelectorExpr); ok && exprString(sel.X) == hashVar {
			switch sel.Sel.Name {
			case "Reset", "Write", "Sum":
			default:
				hashErr = src.errAt(sel, "unexpected use of the hash: %s", exprString(sel))
			}
		}
		return true
	})
	if hashErr != nil {
		return nil, hashErr
	}

	// --- Commit / return nil
	isCommit := func(st ast.Stmt) bool {
		es, ok := st.(*ast.ExprStmt)
		return ok && exprString(es.X) == delegate+".Commit()"
	}
	isReturnNil := func(st ast.Stmt) bool {
		rs, ok := st.(*ast.ReturnStmt)
		return ok && len(rs.Results) == 1 && exprString(rs.Results[0]) == "nil"
	}
	var walkBlocks func(list []ast.Stmt)
	walkBlocks = func(list []ast.Stmt) {
		for i, st := range list {
			if isCommit(st) {
				c.commits++
				if i+1 < len(list) && isReturnNil(list[i+1]) {
					c.commitThenReturnNil++
				}
			}
			if isReturnNil(st) {
				c.nilReturns++
			}
			ast.Inspect(st, func(n ast.Node) bool {
				if n == ast.Node(st) {
					return true
				}
				switch b := n.(type) {
				case *ast.FuncLit:
					return false
				case *ast.BlockStmt:
					walkBlocks(b.List)
					return false
				case *ast.CaseClause:
					walkBlocks(b.Body)
					return false
				case *ast.CommClause:
					walkBlocks(b.Body)
					return false
				}
				return true
			})
		}
	}
	walkBlocks(body.List)
	// a Commit call hidden in an expression would not be a statement: count all of them
	if n := len(methodCalls(body, "Commit")); n != c.commits {
		return nil, src.errAt(fd, "%d Commit calls, only %d of them are statements `%s.Commit()`", n, c.commits, delegate)
	}
	if n := len(body.List); n >= 2 && isReturnNil(body.List[n-1]) && isCommit(body.List[n-2]) {
		c.endsWithCommitReturn = true
	}

	// --- uses of the declared variables
	uses := map[string][]string{}
	var stack []ast.Node
	ast.Inspect(body, func(n ast.Node) bool {
		if n == nil {
			stack = stack[:len(stack)-1]
			return true
		}
		if id, ok := n.(*ast.Ident); ok && declVar[id.Name] && !declIdent[id] {
			where := ""
			for i := len(stack) - 1; i >= 0 && where == ""; i-- {
				switch p := stack[i].(type) {
				case *ast.CallExpr:
					inArgs := false
					for _, a := range p.Args {
						if a.Pos() <= id.Pos() && id.End() <= a.End() {
							inArgs = true
						}
					}
					if inArgs {
						where = exprString(p.Fun)
						// a re-ordering callee (sort.Strings, …) applied as a statement of the
						// function body itself before ANY other use of the variable canonicalises the
						// command line for output and key alike: marked `canon:`
						if cliMutators[where] && len(uses[id.Name]) == 0 && i == 2 {
							if _, isStmt := stack[1].(*ast.ExprStmt); isStmt && stack[0] == ast.Node(body) {
								where = "canon:" + where
							}
						}
					}
				case *ast.IfStmt:
					where = "if"
				case *ast.SwitchStmt:
					where = "switch"
				case *ast.RangeStmt:
					where = "range"
				case *ast.AssignStmt:
					where = "assign"
				case *ast.ReturnStmt:
					where = "return"
				}
			}
			if where == "" {
				where = "stmt"
			}
			uses[id.Name] = append(uses[id.Name], where)
		}
		stack = append(stack, n)
		return true
	})
	for i := range c.decls {
		c.decls[i].uses = dedup(uses[c.decls[i].varName])
	}
	return c, nil
}

func dedup(xs []string) []string {
	seen := map[string]bool{}
	var out []string
	for _, x := range xs {
		if !seen[x] {
			seen[x] = true
			out = append(out, x)
		}
	}
	return out
}

// ---------------------------------------------------------------------------
// io.go

type cliIO struct {
	commitBody      string
	closeRemoveCond string
	hitRemoveCond   string
	missArms        string
	teeBody         []string // the statements of (*ioDelegate).Write
	missBlock       []string // TryCache: the statements of the block entered when cache.Open failed
}

// cliStmtText: a statement printed by go/printer, on one line (statements of a block joined by "; ")
func cliStmtText(fset *token.FileSet, n ast.Node) string {
	var b bytes.Buffer
	if err := printer.Fprint(&b, fset, n); err != nil {
		return "<unprintable>"
	}
	var out string
	for _, l := range strings.Split(b.String(), "\n") {
		l = strings.Join(strings.Fields(l), " ")
		switch {
		case l == "":
		case out == "" || strings.HasSuffix(out, "{") || strings.HasPrefix(l, "}"):
			if out != "" {
				out += " "
			}
			out += l
		default:
			out += "; " + l
		}
	}
	return out
}

func method(src *source, recvType, name string) (*ast.FuncDecl, error) {
	for _, d := range src.file.Decls {
		fd, ok := d.(*ast.FuncDecl)
		if !ok || fd.Recv == nil || fd.Name.Name != name || fd.Body == nil || len(fd.Recv.List) != 1 {
			continue
		}
		if exprString(fd.Recv.List[0].Type) == recvType {
			return fd, nil
		}
	}
	return nil, fmt.Errorf("%s: method (%s).%s not found", src.name, recvType, name)
}

func cliIOFacts(path string) (*cliIO, error) {
	src, err := parseSource(path)
	if err != nil {
		return nil, err
	}
	out := &cliIO{}
	// func (d *ioDelegate) Commit() { d.done = true }
	cm, err := method(src, "*ioDelegate", "Commit")
	if err != nil {
		return nil, err
	}
	if len(cm.Body.List) != 1 {
		return nil, src.errAt(cm, "Commit: one statement expected")
	}
	as, ok := cm.Body.List[0].(*ast.AssignStmt)
	if !ok || len(as.Lhs) != 1 || len(as.Rhs) != 1 {
		return nil, src.errAt(cm, "Commit: an assignment expected")
	}
	out.commitBody = exprString(as.Lhs[0]) + " " + as.Tok.String() + " " + exprString(as.Rhs[0])

	// Close: if d.cache != nil { if err := d.cache.Close(); <cond> { os.Remove(d.cache.Name()) } }
	cl, err := method(src, "*ioDelegate", "Close")
	if err != nil {
		return nil, err
	}
	found := 0
	for _, st := range cl.Body.List {
		ifs, ok := st.(*ast.IfStmt)
		if !ok || exprString(ifs.Cond) != "d.cache != nil" || ifs.Else != nil || len(ifs.Body.List) != 1 {
			continue
		}
		in, ok := ifs.Body.List[0].(*ast.IfStmt)
		if !ok || in.Init == nil || in.Else != nil || len(in.Body.List) != 1 {
			return nil, src.errAt(ifs, "Close: `if err := d.cache.Close(); cond { os.Remove(d.cache.Name()) }` expected")
		}
		ia, ok := in.Init.(*ast.AssignStmt)
		if !ok || len(ia.Rhs) != 1 || exprString(ia.Rhs[0]) != "d.cache.Close()" || exprString(ia.Lhs[0]) != "err" {
			return nil, src.errAt(in, "Close: `err := d.cache.Close()` expected")
		}
		es, ok := in.Body.List[0].(*ast.ExprStmt)
		if !ok || exprString(es.X) != "os.Remove(d.cache.Name())" {
			return nil, src.errAt(in, "Close: `os.Remove(d.cache.Name())` expected")
		}
		out.closeRemoveCond = exprString(in.Cond)
		found++
	}
	if found != 1 {
		return nil, src.errAt(cl, "Close: exactly one `if d.cache != nil { … }` block expected, found %d", found)
	}
	if n := len(methodCalls(cl.Body, "Remove")); n != 2 { // the entry, and the temporary input copy
		return nil, src.errAt(cl, "Close: two os.Remove calls expected, found %d", n)
	}

	// TryCache: after the hit copy `if <cond> { os.Remove(f.Name()) }`; on a miss `d.cache = f`
	tc, err := method(src, "*ioDelegate", "TryCache")
	if err != nil {
		return nil, err
	}
	hits := 0
	for _, st := range tc.Body.List {
		ifs, ok := st.(*ast.IfStmt)
		if !ok || ifs.Init != nil || len(ifs.Body.List) != 1 {
			continue
		}
		if es, ok := ifs.Body.List[0].(*ast.ExprStmt); ok && exprString(es.X) == "os.Remove(f.Name())" {
			out.hitRemoveCond = exprString(ifs.Cond)
			hits++
		}
	}
	if hits != 1 {
		return nil, src.errAt(tc, "TryCache: exactly one top-level `if cond { os.Remove(f.Name()) }` expected, found %d", hits)
	}
	arms := 0
	ast.Inspect(tc.Body, func(n ast.Node) bool {
		if as, ok := n.(*ast.AssignStmt); ok && len(as.Lhs) == 1 && exprString(as.Lhs[0]) == "d.cache" {
			out.missArms = exprString(as.Lhs[0]) + " = " + exprString(as.Rhs[0])
			arms++
		}
		return true
	})
	if arms != 1 {
		return nil, src.errAt(tc, "TryCache: exactly one assignment to d.cache expected, found %d", arms)
	}

	// Write (the tee), statement by statement
	wr, err := method(src, "*ioDelegate", "Write")
	if err != nil {
		return nil, err
	}
	for _, st := range wr.Body.List {
		out.teeBody = append(out.teeBody, cliStmtText(src.fset, st))
	}
	// TryCache: `f, err := cache.Open(…)` followed by `if err != nil { … cache.CreateLevel … }`
	blocks := 0
	for i, st := range tc.Body.List {
		as, ok := st.(*ast.AssignStmt)
		if !ok || len(as.Rhs) != 1 {
			continue
		}
		if c, ok := as.Rhs[0].(*ast.CallExpr); !ok || exprString(c.Fun) != "cache.Open" {
			continue
		}
		if i+1 >= len(tc.Body.List) {
			return nil, src.errAt(tc, "TryCache: nothing follows cache.Open")
		}
		ifs, ok := tc.Body.List[i+1].(*ast.IfStmt)
		if !ok || ifs.Init != nil || ifs.Else != nil {
			return nil, src.errAt(tc, "TryCache: `if … { … }` expected after cache.Open")
		}
		for _, b := range ifs.Body.List {
			out.missBlock = append(out.missBlock, cliStmtText(src.fset, b))
		}
		blocks++
	}
	if blocks != 1 {
		return nil, src.errAt(tc, "TryCache: exactly one cache.Open expected, found %d", blocks)
	}
	return out, nil
}

// ---------------------------------------------------------------------------
// rendering

func leanStr(s string) string {
	b := strings.Builder{}
	b.WriteByte('"')
	for i := 0; i < len(s); i++ {
		c := s[i]
		switch {
		case c == '"' || c == '\\':
			b.WriteByte('\\')
			b.WriteByte(c)
		case c == '\n':
			b.WriteString("\\n")
		case c == '\t':
			b.WriteString("\\t")
		case c < 0x20 || c >= 0x7f:
			fmt.Fprintf(&b, "\\x%02x", c)
		default:
			b.WriteByte(c)
		}
	}
	b.WriteByte('"')
	return b.String()
}

func leanStrList(xs []string) string {
	q := make([]string, len(xs))
	for i, x := range xs {
		q[i] = leanStr(x)
	}
	return "[" + strings.Join(q, ", ") + "]"
}

func renderCli(cmds []*cliCommand, io *cliIO) string {
	b := strings.Builder{}
	b.WriteString("/-\n  GENERATED by go2lean from cmd/gts/*.go (every function that calls TryCache) and cmd/gts/io.go\n")
	b.WriteString("  - DO NOT EDIT.  Regenerated by bin/setup and by every bin/check run; see go2lean/cli.go.\n")
	b.WriteString("  Tables only, extracted from the AST; what they must satisfy is stated in Gts/Props/C14.lean.\n-/\n")
	b.WriteString("namespace Gts.Gen.Cli\n\n")
	b.WriteString(`/-- one ` + "`opt.<Kind>(short, long, [default,] usage)`" + ` or ` + "`pos.<Kind>(name, usage)`" + ` declaration -/
structure Decl where
  /-- "opt" or "pos" -/
  cls : String
  /-- the method: Switch, String, StringSlice, Int, …, Extra -/
  kind : String
  /-- long option name / positional name -/
  long : String
  /-- short option name ("" when the source says 0) -/
  short : String
  /-- source text of the default value ("" for switches and positionals) -/
  dflt : String
  /-- the Go variable the declaration is bound to -/
  var : String
  /-- declared only under ` + "`if cmd.IsTerminal(os.Stdin.Fd())`" + ` -/
  ttyOnly : Bool
  /-- where the variable is read: innermost enclosing callee (or statement kind) of every occurrence -/
  uses : List String
  deriving DecidableEq, Repr

/-- one ` + "`{\"key\", value}`" + ` of the encodePayload list -/
structure Tuple where
  key : String
  /-- form of the value expression: deref (*v), ident, method:<name>, call:<callee>, literal, other -/
  form : String
  /-- for an identifier: decl (a declared variable itself) or the callee / expression kind that
  first assigns it -/
  prov : String
  /-- identifiers read by the value expression -/
  direct : List String
  /-- declared variables reached from them through the assignments of the function -/
  reads : List String
  deriving DecidableEq, Repr

structure Command where
  file : String
  fn : String
  name : String
  decls : List Decl
  payload : List Tuple
  /-- derived variables read by the payload: (name, declared variables they are computed from) -/
  derived : List (String × List String)
  /-- payload variables bound to h.Sum(nil) (h = the hash handed to TryCache) with everything
  written into the hash since the preceding h.Reset(): ("file", V) = attach(h, f) where
  f, err := os.Open(*V); ("literal", V) = h.Write(p) where p := []byte(*V); V a declared
  variable; ("other", source text) for anything else -/
  digests : List (String × List (String × String))
  /-- first argument of newIODelegate: the primary input path -/
  primary : String
  /-- second argument of newIODelegate: the output path -/
  output : String
  /-- ` + "`defer d.Close()`" + ` directly follows the error check of newIODelegate -/
  deferClose : Bool
  /-- number of ` + "`d.Commit()`" + ` statements -/
  commits : Nat
  /-- number of ` + "`return nil`" + ` statements (function literals excluded) -/
  nilReturns : Nat
  /-- number of ` + "`d.Commit()`" + ` statements immediately followed by ` + "`return nil`" + ` -/
  commitThenReturnNil : Nat
  /-- the function body ends with ` + "`d.Commit(); return nil`" + ` -/
  endsWithCommitReturn : Bool
  deriving DecidableEq, Repr

`)
	b.WriteString("def commands : List Command := [\n")
	for i, c := range cmds {
		fmt.Fprintf(&b, "  { file := %s, fn := %s, name := %s,\n    decls := [\n", leanStr(c.file), leanStr(c.fn), leanStr(c.name))
		for j, d := range c.decls {
			sep := ","
			if j == len(c.decls)-1 {
				sep = ""
			}
			fmt.Fprintf(&b, "      { cls := %s, kind := %s, long := %s, short := %s, dflt := %s, var := %s, ttyOnly := %v,\n        uses := %s }%s\n",
				leanStr(d.class), leanStr(d.kind), leanStr(d.long), leanStr(d.short), leanStr(d.dflt), leanStr(d.varName), d.tty, leanStrList(d.uses), sep)
		}
		b.WriteString("    ],\n    payload := [\n")
		for j, t := range c.payload {
			sep := ","
			if j == len(c.payload)-1 {
				sep = ""
			}
			fmt.Fprintf(&b, "      { key := %s, form := %s, prov := %s, direct := %s, reads := %s }%s\n", leanStr(t.key), leanStr(t.form), leanStr(t.prov), leanStrList(t.direct), leanStrList(t.reads), sep)
		}
		b.WriteString("    ],\n    derived := [")
		for j, d := range c.derived {
			if j > 0 {
				b.WriteString(", ")
			}
			var deps []string
			if d[1] != "" {
				deps = strings.Split(d[1], ",")
			}
			fmt.Fprintf(&b, "(%s, %s)", leanStr(d[0]), leanStrList(deps))
		}
		b.WriteString("],\n")
		b.WriteString("    digests := [")
		for j, d := range c.digests {
			if j > 0 {
				b.WriteString(", ")
			}
			fs := make([]string, len(d.feeds))
			for k, f := range d.feeds {
				fs[k] = "(" + leanStr(f[0]) + ", " + leanStr(f[1]) + ")"
			}
			fmt.Fprintf(&b, "(%s, [%s])", leanStr(d.varName), strings.Join(fs, ", "))
		}
		b.WriteString("],\n")
		fmt.Fprintf(&b, "    primary := %s, output := %s, deferClose := %v,\n", leanStr(c.primary), leanStr(c.output), c.deferClose)
		fmt.Fprintf(&b, "    commits := %d, nilReturns := %d, commitThenReturnNil := %d, endsWithCommitReturn := %v }",
			c.commits, c.nilReturns, c.commitThenReturnNil, c.endsWithCommitReturn)
		if i < len(cmds)-1 {
			b.WriteString(",")
		}
		b.WriteString("\n")
	}
	b.WriteString("]\n\n")
	fmt.Fprintf(&b, "/-- io.go: the single statement of `(*ioDelegate).Commit` -/\ndef commitBody : String := %s\n\n", leanStr(io.commitBody))
	fmt.Fprintf(&b, "/-- io.go `(*ioDelegate).Close`: `if err := d.cache.Close(); <this> { os.Remove(d.cache.Name()) }` -/\ndef closeRemoveCond : String := %s\n\n", leanStr(io.closeRemoveCond))
	fmt.Fprintf(&b, "/-- io.go `TryCache`, after replaying a hit: `if <this> { os.Remove(f.Name()) }` -/\ndef hitRemoveCond : String := %s\n\n", leanStr(io.hitRemoveCond))
	fmt.Fprintf(&b, "/-- io.go `TryCache`, on a miss: the only assignment to `d.cache` -/\ndef missArms : String := %s\n\n", leanStr(io.missArms))
	fmt.Fprintf(&b, "/-- io.go `(*ioDelegate).Write` (the tee), statement by statement -/\ndef teeBody : List String := %s\n\n", leanStrList(io.teeBody))
	fmt.Fprintf(&b, "/-- io.go `TryCache`: the block entered when `cache.Open` failed, statement by statement -/\ndef missBlock : List String := %s\n\n", leanStrList(io.missBlock))
	b.WriteString("end Gts.Gen.Cli\n")
	return b.String()
}

// firstAssignKind: the callee (or expression kind) on the right-hand side of the first
// assignment / definition of name in body
func firstAssignKind(body ast.Node, name string) string {
	kind := ""
	ast.Inspect(body, func(n ast.Node) bool {
		if kind != "" {
			return false
		}
		as, ok := n.(*ast.AssignStmt)
		if !ok {
			return true
		}
		for i, l := range as.Lhs {
			if id, ok := l.(*ast.Ident); ok && id.Name == name {
				rhs := as.Rhs[0]
				if len(as.Rhs) == len(as.Lhs) {
					rhs = as.Rhs[i]
				}
				switch r := rhs.(type) {
				case *ast.CallExpr:
					kind = exprString(r.Fun)
				case *ast.IndexExpr:
					kind = "index"
				case *ast.StarExpr:
					kind = "deref"
				case *ast.BasicLit:
					kind = "literal"
				default:
					kind = fmt.Sprintf("%T", rhs)
				}
				return false
			}
		}
		return true
	})
	if kind == "" {
		kind = "unassigned"
	}
	return kind
}

// callees that re-order or overwrite their argument in place (kept in step with
// Gts.CliTable.mutators)
var cliMutators = map[string]bool{"sort.Strings": true, "sort.Sort": true, "sort.Stable": true, "sort.Slice": true,
	"sort.SliceStable": true, "sort.Ints": true, "copy": true, "slices.Sort": true, "slices.Reverse": true, "rand.Shuffle": true}
