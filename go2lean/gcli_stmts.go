package main

// Statements of the CLI-step / locator translator (see gcli.go for how the Go is read).

import (
	"fmt"
	"go/ast"
	"go/token"
	"go/types"
	"strings"
)

func kindent(s string) string { return "  " + strings.ReplaceAll(s, "\n", "\n  ") }

func kjoin(lets []string, rest string) string {
	if len(lets) == 0 {
		return rest
	}
	return strings.Join(lets, "\n") + "\n" + rest
}

func ktuple(parts []string) string {
	if len(parts) == 0 {
		return "()"
	}
	if len(parts) == 1 {
		return parts[0]
	}
	return "(" + strings.Join(parts, ", ") + ")"
}

func ktupleType(types []string) string {
	if len(types) == 0 {
		return "Unit"
	}
	return strings.Join(types, " × ")
}

// ioShape recognises `if _, err := W.WriteSeq(X); err != nil { return ctx.Raise(err) }` and
// `if err := B.Flush(); err != nil { return ctx.Raise(err) }`
func (c *kctx) ioShape(n *ast.IfStmt) (kind string, arg ast.Expr) {
	as, ok := n.Init.(*ast.AssignStmt)
	if !ok || as.Tok != token.DEFINE || len(as.Rhs) != 1 || n.Else != nil {
		return "", nil
	}
	call, ok := as.Rhs[0].(*ast.CallExpr)
	if !ok {
		return "", nil
	}
	sel, ok := call.Fun.(*ast.SelectorExpr)
	if !ok {
		return "", nil
	}
	h := c.io[identName(sel.X)]
	if _, shadow := c.vars[identName(sel.X)]; shadow {
		h = ""
	}
	errName := identName(as.Lhs[len(as.Lhs)-1])
	if errName == "" || errName == "_" || exprString(n.Cond) != errName+" != nil" {
		return "", nil
	}
	if len(n.Body.List) != 1 {
		return "", nil
	}
	ret, ok := n.Body.List[0].(*ast.ReturnStmt)
	ctxNm := c.ctxNm
	if ctxNm == "" {
		ctxNm = "ctx"
	}
	if !ok || len(ret.Results) != 1 || exprString(ret.Results[0]) != ctxNm+".Raise("+errName+")" {
		return "", nil
	}
	switch {
	case h == "writer" && sel.Sel.Name == "WriteSeq" && len(call.Args) == 1 && len(as.Lhs) == 2 && identName(as.Lhs[0]) == "_":
		return "write", call.Args[0]
	case h == "buffer" && sel.Sel.Name == "Flush" && len(call.Args) == 0 && len(as.Lhs) == 1:
		return "flush", nil
	}
	return "", nil
}

// sortShape recognises the statement calls that re-order a slice variable in place
func sortShape(x ast.Expr) (kind, name string) {
	call, ok := x.(*ast.CallExpr)
	if !ok || len(call.Args) != 1 {
		return "", ""
	}
	inner := func(e ast.Expr, fun string) ast.Expr {
		cc, ok := e.(*ast.CallExpr)
		if !ok || len(cc.Args) != 1 || exprString(cc.Fun) != fun {
			return nil
		}
		return cc.Args[0]
	}
	switch exprString(call.Fun) {
	case "flip.Flip":
		if a := inner(call.Args[0], "gts.BySegment"); a != nil && identName(a) != "" {
			return "flip", identName(a)
		}
	case "sort.Ints":
		if identName(call.Args[0]) != "" {
			return "clSortInts", identName(call.Args[0])
		}
	case "sort.Sort":
		if a := inner(call.Args[0], "sort.Reverse"); a != nil {
			if b := inner(a, "sort.IntSlice"); b != nil && identName(b) != "" {
				return "sortDesc", identName(b)
			}
		}
	}
	return "", ""
}

func kbase(l ast.Expr) string {
	switch x := l.(type) {
	case *ast.Ident:
		return x.Name
	case *ast.IndexExpr:
		if id, ok := x.X.(*ast.Ident); ok {
			return id.Name
		}
	}
	refuse("assignment target %s", exprString(l))
	return ""
}

// assigned: names of variables declared OUTSIDE stmts that stmts assign
func (c *kctx) assigned(stmts []ast.Stmt, acc, local map[string]bool) {
	mark := func(name string) {
		if name != "_" && !local[name] {
			acc[name] = true
		}
	}
	inner := func() map[string]bool {
		m := map[string]bool{}
		for k := range local {
			m[k] = true
		}
		return m
	}
	for _, s := range stmts {
		switch n := s.(type) {
		case *ast.AssignStmt:
			for _, l := range n.Lhs {
				if n.Tok == token.DEFINE {
					id, plain := l.(*ast.Ident)
					if !plain {
						refuse("`:=` on %T", l)
					}
					local[id.Name] = true
					continue
				}
				mark(kbase(l))
			}
		case *ast.IncDecStmt:
			mark(kbase(n.X))
		case *ast.ExprStmt:
			if _, name := sortShape(n.X); name != "" {
				mark(name)
				continue
			}
			refuse("statement %s", exprString(n.X))
		case *ast.IfStmt:
			if kind, _ := c.ioShape(n); kind != "" {
				if kind == "write" {
					mark("written_")
				}
				continue
			}
			if n.Init != nil {
				refuse("if with an init statement (other than the WriteSeq / Flush shapes)")
			}
			c.assigned(n.Body.List, acc, inner())
			switch e := n.Else.(type) {
			case nil:
			case *ast.BlockStmt:
				c.assigned(e.List, acc, inner())
			case *ast.IfStmt:
				c.assigned([]ast.Stmt{e}, acc, inner())
			}
		case *ast.SwitchStmt:
			if n.Init != nil || n.Tag != nil {
				refuse("switch with init or tag")
			}
			for _, cl := range n.Body.List {
				c.assigned(cl.(*ast.CaseClause).Body, acc, inner())
			}
		case *ast.TypeSwitchStmt:
			// only the recognised topology switch (checked where it is translated) — it assigns `top`,
			// which is bound to the parameter `circular` there
		case *ast.RangeStmt:
			in := inner()
			if n.Tok == token.DEFINE {
				for _, kx := range []ast.Expr{n.Key, n.Value} {
					if kx != nil {
						in[identName(kx)] = true
					}
				}
			} else if n.Key != nil || n.Value != nil {
				refuse("range with `=`")
			}
			c.assigned(n.Body.List, acc, in)
		case *ast.ReturnStmt, *ast.BranchStmt:
		default:
			refuse("statement %T", s)
		}
	}
}

func (c *kctx) stateOf(stmts []ast.Stmt) []string {
	acc := map[string]bool{}
	c.assigned(stmts, acc, map[string]bool{})
	return c.bySeq(acc)
}

func (c *kctx) stateExprs(names []string) []string {
	out := make([]string, len(names))
	for i, n := range names {
		out[i] = c.vars[n].term
	}
	return out
}

func (c *kctx) stateTypes(names []string) []string {
	out := make([]string, len(names))
	for i, n := range names {
		out[i] = kTypeOf(c.vars[n])
	}
	return out
}

// rebind: after a join / a loop the state variables are bound to their own names again
func (c *kctx) stateNames(names []string) []string {
	out := make([]string, len(names))
	for i, n := range names {
		out[i] = kLeanName(n)
		v := c.vars[n]
		c.vars[n] = kv{kind: v.kind, term: kLeanName(n)}
	}
	return out
}

// terminates: the list ends in a return or in a break on every path
func terminates(stmts []ast.Stmt) bool {
	if len(stmts) == 0 {
		return false
	}
	switch n := stmts[len(stmts)-1].(type) {
	case *ast.ReturnStmt:
		return true
	case *ast.BranchStmt:
		return n.Tok == token.BREAK && n.Label == nil
	case *ast.IfStmt:
		b, ok := n.Else.(*ast.BlockStmt)
		return ok && terminates(n.Body.List) && terminates(b.List)
	}
	return false
}

// leaves: the list contains a return (other than inside the I/O shapes), or a break that belongs
// to the enclosing switch
func (c *kctx) leaves(stmts []ast.Stmt) bool {
	found := false
	var visit func(n ast.Node, brk bool)
	visit = func(n ast.Node, brk bool) {
		ast.Inspect(n, func(x ast.Node) bool {
			switch m := x.(type) {
			case *ast.ReturnStmt:
				found = true
			case *ast.BranchStmt:
				if brk {
					found = true
				}
			case *ast.IfStmt:
				if kind, _ := c.ioShape(m); kind != "" {
					return false
				}
			case *ast.SwitchStmt:
				if x != n {
					visit(m.Body, false)
					return false
				}
			case *ast.RangeStmt:
				if x != n {
					visit(m.Body, false)
					return false
				}
			}
			return true
		})
	}
	for _, s := range stmts {
		switch s.(type) {
		case *ast.SwitchStmt, *ast.RangeStmt:
			visit(s, false) // a break below it belongs to the statement itself
		default:
			visit(s, true)
		}
	}
	return found
}

func (c *kctx) setVar(name string, v kv, lets *[]string, define bool) {
	if name == "_" {
		return
	}
	v = kscalar(v)
	if define {
		nv := c.declare(name, v.kind)
		*lets = append(*lets, fmt.Sprintf("let %s : %s := %s;", nv.term, kTypeOf(nv), v.term))
		return
	}
	cur, ok := c.vars[name]
	if !ok {
		refuse("assignment to undeclared %s", name)
	}
	if !c.local[name] {
		refuse("assignment to %s, which is declared outside the translated statements (state carried between records)", name)
	}
	if cur.kind != v.kind {
		refuse("assignment of a %s to %s (a %s)", v.kind, name, cur.kind)
	}
	*lets = append(*lets, fmt.Sprintf("let %s : %s := %s;", kLeanName(name), kTypeOf(cur), v.term))
	c.vars[name] = kv{kind: cur.kind, term: kLeanName(name)}
}

// stmts translates a statement list; when the list is exhausted the continuation k yields the
// value of the block (k == nil: the list must return on every path)
func (c *kctx) stmts(list []ast.Stmt, k func(c *kctx) string) string {
	if len(list) == 0 {
		if k == nil {
			refuse("control reaches the end of the function")
		}
		return k(c)
	}
	if _, ok := c.topologyPair(list); ok {
		return c.stmts(list[2:], k)
	}
	s, rest := list[0], list[1:]
	switch n := s.(type) {
	case *ast.ReturnStmt:
		if c.ret == nil {
			refuse("return statement")
		}
		return c.ret(c, n.Results)
	case *ast.BranchStmt:
		if n.Tok != token.BREAK || n.Label != nil || c.brk == nil || c.inLoop {
			refuse("branch statement %s", n.Tok)
		}
		if len(rest) != 0 {
			refuse("statements after break")
		}
		return c.brk(c)
	case *ast.AssignStmt:
		return c.assignStmt(n, rest, k)
	case *ast.IncDecStmt:
		op := map[token.Token]token.Token{token.INC: token.ADD_ASSIGN, token.DEC: token.SUB_ASSIGN}[n.Tok]
		return c.assignStmt(&ast.AssignStmt{Lhs: []ast.Expr{n.X}, Tok: op, Rhs: []ast.Expr{&ast.BasicLit{Kind: token.INT, Value: "1"}}}, rest, k)
	case *ast.ExprStmt:
		kind, name := sortShape(n.X)
		if kind == "" {
			refuse("statement %s", exprString(n.X))
		}
		v, ok := c.vars[name]
		want := map[string]string{"flip": "segs", "clSortInts": "ints", "sortDesc": "ints"}[kind]
		if !ok || v.kind != want {
			refuse("%s of %s, which is not a %s", kind, name, want)
		}
		fn := map[string]string{"flip": "List.reverse", "clSortInts": "clSortInts", "sortDesc": "Gts.Cli.sortDesc"}[kind]
		c.fact(kind)
		var lets []string
		c.setVar(name, kv{kind: want, term: fmt.Sprintf("(%s %s)", fn, v.term)}, &lets, false)
		return kjoin(lets, c.stmts(rest, k))
	case *ast.IfStmt:
		return c.ifStmt(n, rest, k)
	case *ast.SwitchStmt:
		return c.switchStmt(n, rest, k)
	case *ast.RangeStmt:
		return c.rangeLoop(n, rest, k)
	}
	refuse("statement %T", s)
	return ""
}

func (c *kctx) assignStmt(n *ast.AssignStmt, rest []ast.Stmt, k func(c *kctx) string) string {
	if c.ext != nil && c.ext.assign != nil {
		if t, ok := c.ext.assign(c, n, rest, k); ok {
			return t
		}
	}
	var pre []kbind
	var lets []string
	switch n.Tok {
	case token.DEFINE, token.ASSIGN:
		if len(n.Lhs) != len(n.Rhs) {
			refuse("assignment arity")
		}
		// element store `xs[i] = v` / `m[k] = nil`
		if ix, ok := n.Lhs[0].(*ast.IndexExpr); ok {
			name := identName(ix.X)
			if len(n.Lhs) != 1 || n.Tok != token.ASSIGN || name == "" {
				refuse("element assignment")
			}
			cur, ok := c.vars[name]
			if !ok || !c.local[name] {
				refuse("element assignment to %s, which is not a variable of the translated statements", name)
			}
			if cur.kind == "intset" {
				key := c.intOf(ix.Index, &pre)
				if v := c.expr(n.Rhs[0], &pre); v.kind != "nil" {
					refuse("a value other than nil is stored in the set %s", name)
				}
				c.setVar(name, kv{kind: "intset", term: fmt.Sprintf("(clSetAdd %s %s)", cur.term, key)}, &lets, false)
				return kwrap(pre, kjoin(lets, c.stmts(rest, k)))
			}
			ek, isList := kElem[cur.kind]
			if !isList {
				refuse("element assignment to a %s", cur.kind)
			}
			idx := c.intOf(ix.Index, &pre)
			v := c.expr(n.Rhs[0], &pre)
			el := v.term
			if ek == "reg" {
				el = asReg(v)
			} else if v.kind != ek {
				refuse("element assignment of a %s to a %s", v.kind, cur.kind)
			}
			pre = append(pre, kbind{kLeanName(name), fmt.Sprintf("clPut %s %s %s", cur.term, idx, el)})
			c.vars[name] = kv{kind: cur.kind, term: kLeanName(name)}
			return kwrap(pre, c.stmts(rest, k))
		}
		vals := make([]kv, len(n.Rhs))
		for i, r := range n.Rhs {
			vals[i] = kscalar(c.expr(r, &pre))
		}
		if len(n.Lhs) > 1 {
			for i := range vals {
				t := c.tmp()
				lets = append(lets, fmt.Sprintf("let %s : %s := %s;", t, kTypeOf(vals[i]), vals[i].term))
				vals[i] = kv{kind: vals[i].kind, term: t}
			}
		}
		for i, l := range n.Lhs {
			id, ok := l.(*ast.Ident)
			if !ok {
				refuse("assignment target %s", exprString(l))
			}
			define := n.Tok == token.DEFINE
			c.setVar(id.Name, vals[i], &lets, define)
		}
	case token.ADD_ASSIGN, token.SUB_ASSIGN:
		name := identName(n.Lhs[0])
		if len(n.Lhs) != 1 || name == "" {
			refuse("compound assignment target")
		}
		cur := c.intOf(n.Lhs[0], nil)
		v := c.intOf(n.Rhs[0], &pre)
		op := map[token.Token]string{token.ADD_ASSIGN: "+", token.SUB_ASSIGN: "-"}[n.Tok]
		c.setVar(name, kv{kind: "int", term: fmt.Sprintf("(%s %s %s)", cur, op, v)}, &lets, false)
	default:
		refuse("assignment operator %s", n.Tok)
	}
	return kwrap(pre, kjoin(lets, c.stmts(rest, k)))
}

func kite(cond, a, b string) string {
	return fmt.Sprintf("if %s then\n%s\nelse\n%s", cond, kindent("("+a+")"), kindent("("+b+")"))
}

func (c *kctx) ifStmt(n *ast.IfStmt, rest []ast.Stmt, k func(c *kctx) string) string {
	switch kind, arg := c.ioShape(n); kind {
	case "write":
		var pre []kbind
		x := c.kindOf(arg, &pre, "seq")
		w, ok := c.vars["written_"]
		if !ok {
			refuse("WriteSeq outside a step")
		}
		c.fact("write")
		var lets []string
		c.setVar("written_", kv{kind: "seqs", term: fmt.Sprintf("(%s ++ [%s])", w.term, x)}, &lets, false)
		return kwrap(pre, kjoin(lets, c.stmts(rest, k)))
	case "flush":
		c.fact("flush")
		return c.stmts(rest, k)
	}
	if n.Init != nil {
		refuse("if with an init statement (other than the WriteSeq / Flush shapes)")
	}
	var elseList []ast.Stmt
	switch e := n.Else.(type) {
	case nil:
	case *ast.BlockStmt:
		elseList = e.List
	case *ast.IfStmt:
		elseList = []ast.Stmt{e}
	}
	var pre []kbind
	cond := kprop(c.expr(n.Cond, &pre))
	if c.leaves(n.Body.List) || c.leaves(elseList) {
		// a branch that leaves must do so on every path; the rest of the block follows the other
		thenL, elseL := n.Body.List, elseList
		if c.leaves(n.Body.List) && !terminates(n.Body.List) || c.leaves(elseList) && !terminates(elseList) {
			refuse("a branch returns / breaks on some paths only")
		}
		if !terminates(thenL) {
			thenL = append(append([]ast.Stmt{}, thenL...), rest...)
		}
		if !terminates(elseL) {
			elseL = append(append([]ast.Stmt{}, elseL...), rest...)
		}
		if !terminates(n.Body.List) && !terminates(elseList) {
			refuse("internal: neither branch leaves")
		}
		c1, c2 := c.clone(), c.clone()
		return kwrap(pre, kite(cond, c1.stmts(thenL, k), c2.stmts(elseL, k)))
	}
	// join point over the variables assigned in either branch
	state := c.stateOf(append(append([]ast.Stmt{}, n.Body.List...), elseList...))
	join := func(cj *kctx) string { return "some " + ktuple(cj.stateExprs(state)) }
	c1, c2 := c.clone(), c.clone()
	c1.brk, c2.brk = nil, nil
	thenS := c1.stmts(n.Body.List, join)
	elseS := c2.stmts(elseList, join)
	names := c.stateNames(state)
	return kwrap(pre, fmt.Sprintf("(match (%s) with\n| none => none\n| some %s =>\n%s)", kite(cond, thenS, elseS), ktuple(names), c.stmts(rest, k)))
}

// tagless switch: the chain of its clauses; `break` leaves the switch
func (c *kctx) switchStmt(n *ast.SwitchStmt, rest []ast.Stmt, k func(c *kctx) string) string {
	if n.Init != nil || n.Tag != nil {
		refuse("switch with init or tag")
	}
	var all []ast.Stmt
	var def []ast.Stmt
	hasDef := false
	type clause struct {
		cond ast.Expr
		body []ast.Stmt
	}
	var clauses []clause
	for _, cl := range n.Body.List {
		cc := cl.(*ast.CaseClause)
		all = append(all, cc.Body...)
		for _, b := range cc.Body {
			if br, ok := b.(*ast.BranchStmt); ok && br.Tok == token.FALLTHROUGH {
				refuse("fallthrough")
			}
		}
		if cc.List == nil {
			def, hasDef = cc.Body, true
			if cl != n.Body.List[len(n.Body.List)-1] {
				refuse("default clause that is not the last one")
			}
			continue
		}
		if len(cc.List) != 1 {
			refuse("case list")
		}
		clauses = append(clauses, clause{cc.List[0], cc.Body})
	}
	_ = hasDef
	state := c.stateOf(all)
	join := func(cj *kctx) string { return "some " + ktuple(cj.stateExprs(state)) }
	var build func(i int) string
	build = func(i int) string {
		if i == len(clauses) {
			cd := c.clone()
			cd.brk = join
			return cd.stmts(def, join)
		}
		var pre []kbind
		ci := c.clone()
		cond := kprop(ci.expr(clauses[i].cond, &pre))
		if len(pre) != 0 && i > 0 {
			refuse("a case condition with an operation that can panic")
		}
		cb := ci.clone()
		cb.brk = join
		return kwrap(pre, kite(cond, cb.stmts(clauses[i].body, join), build(i+1)))
	}
	chain := build(0)
	names := c.stateNames(state)
	return fmt.Sprintf("(match (%s) with\n| none => none\n| some %s =>\n%s)", chain, ktuple(names), c.stmts(rest, k))
}

// `for i, x := range xs { body }`
func (c *kctx) rangeLoop(n *ast.RangeStmt, rest []ast.Stmt, k func(c *kctx) string) string {
	if n.Tok != token.DEFINE {
		refuse("range without `:=`")
	}
	var pre []kbind
	xs := c.expr(n.X, &pre)
	keyName, valName := "", ""
	if n.Key != nil && identName(n.Key) != "_" {
		keyName = identName(n.Key)
	}
	if n.Value != nil && identName(n.Value) != "_" {
		valName = identName(n.Value)
	}
	list := xs.term
	ek, isList := kElem[xs.kind]
	if xs.kind == "intset" {
		// `for k := range m`: the keys, in an order the language does not specify
		if n.Value != nil {
			refuse("range over a map with a value variable")
		}
		ek, valName, keyName = "int", keyName, ""
		list = fmt.Sprintf("(%s %s)", c.f.use("mapOrder"), xs.term)
	} else if !isList {
		refuse("range over a %s", xs.kind)
	}
	body := n.Body.List
	state := c.stateOf(body)
	inState := map[string]bool{}
	for _, s := range state {
		inState[s] = true
	}
	for _, lv := range []string{keyName, valName} {
		if lv != "" && inState[lv] {
			refuse("the loop variable %s shadows a variable the body assigns", lv)
		}
	}
	// live reads: the body stores into the ranged slice variable
	live := false
	if id := identName(n.X); id != "" && inState[id] {
		live = true
		ast.Inspect(n.Body, func(x ast.Node) bool {
			switch m := x.(type) {
			case *ast.AssignStmt:
				for _, l := range m.Lhs {
					if identName(l) == id {
						refuse("the loop body assigns the ranged slice %s (other than by element)", id)
					}
				}
			case *ast.ExprStmt:
				if _, name := sortShape(m.X); name == id {
					refuse("the loop body re-orders the ranged slice %s", id)
				}
			}
			return true
		})
	}
	hasRet := false
	ast.Inspect(n.Body, func(x ast.Node) bool {
		switch m := x.(type) {
		case *ast.ReturnStmt:
			hasRet = true
		case *ast.IfStmt:
			if kind, _ := c.ioShape(m); kind != "" {
				return false // the return inside the I/O shapes is part of the shape
			}
		case *ast.BranchStmt:
			refuse("%s inside a loop", m.Tok)
		}
		return true
	})
	if hasRet && (len(state) != 0 || c.ret == nil || c.inLoop) {
		refuse("return inside a loop that has state / is nested")
	}
	if !hasRet && len(state) == 0 {
		refuse("a loop without effect")
	}
	// the local variables the body reads and does not assign
	free := map[string]bool{}
	ast.Inspect(n.Body, func(x ast.Node) bool {
		if id, ok := x.(*ast.Ident); ok {
			if c.local[id.Name] && !inState[id.Name] && id.Name != keyName && id.Name != valName {
				free[id.Name] = true
			}
		}
		return true
	})
	fixed := c.bySeq(free)
	var fdecls, fargs []string
	for _, nm := range fixed {
		v := c.vars[nm]
		if !isVarName(strings.TrimSuffix(v.term, "'")) {
			refuse("variable %s is not bound to a Lean variable", nm)
		}
		fdecls = append(fdecls, fmt.Sprintf("(%s : %s)", v.term, kTypeOf(v)))
		fargs = append(fargs, v.term)
	}
	c.f.nloop++
	name := c.f.base + "Loop"
	if c.f.nloop > 1 {
		name = fmt.Sprintf("%sLoop%d", c.f.base, c.f.nloop)
	}
	en := c.clone()
	en.inLoop = true
	en.brk = nil
	counter := ""
	if keyName != "" {
		counter = en.declare(keyName, "int").term
	} else if live {
		counter = "i_"
	}
	elemPat := "_"
	if valName != "" {
		ev := en.declare(valName, ek)
		if !live {
			elemPat = ev.term
		}
	}
	stTypes := c.stateTypes(state)
	stNames := make([]string, len(state))
	for i, s := range state {
		stNames[i] = kLeanName(s)
		en.vars[s] = kv{kind: c.vars[s].kind, term: stNames[i]}
	}
	const hole = "\x00RECUR\x00"
	done := "some " + ktuple(stNames)
	resT := "Option (" + ktupleType(stTypes) + ")"
	if hasRet {
		// a loop that may return: `some none` = ran to completion, `some (some v)` = returned v
		done = "some none"
		resT = "Option (Option " + kLean[c.retKind()] + ")"
		outer := c.ret
		en.ret = func(c2 *kctx, rs []ast.Expr) string {
			inner := outer(c2, rs) // `some v`
			return "some (" + inner + ")"
		}
	}
	bodyText := en.stmts(body, func(c2 *kctx) string {
		parts := []string{hole, "rest_"}
		if counter != "" {
			parts = append(parts, "("+counter+" + 1)")
		}
		return strings.Join(append(parts, c2.stateExprs(state)...), " ")
	})
	if live && valName != "" {
		bodyText = fmt.Sprintf("(match clAt %s %s with\n| none => none\n| some %s =>\n%s)", en.vars[identName(n.X)].term, counter, kLeanName(valName), bodyText)
	}
	head := name + kGArgs
	if len(fargs) > 0 {
		head += " " + strings.Join(fargs, " ")
	}
	bodyText = strings.ReplaceAll(bodyText, hole, head)
	argTypes := []string{"List " + kLean[ek]}
	pats0, pats1 := []string{"[]"}, []string{elemPat + " :: rest_"}
	if counter != "" {
		argTypes = append(argTypes, "Int")
		pats0, pats1 = append(pats0, counter), append(pats1, counter)
	}
	argTypes = append(argTypes, stTypes...)
	pats0, pats1 = append(pats0, stNames...), append(pats1, stNames...)
	h := strings.Builder{}
	mode := ""
	if live {
		mode = "; the body stores into the ranged slice: elements are read live"
	}
	if xs.kind == "intset" {
		mode = "; the keys of a map, visited in the order `mapOrder` gives"
	}
	fmt.Fprintf(&h, "/-- %s: the loop `for %s := range %s` as a recursion over the list; loop state (%s)%s -/\n", c.f.what,
		rangeVars(n), strings.ReplaceAll(types.ExprString(n.X), "-/", "- /"), strings.Join(state, ", "), mode)
	fmt.Fprintf(&h, "def %s%s%s : %s → %s\n", name, kGDecl, kjoinSp(fdecls), strings.Join(argTypes, " → "), resT)
	fmt.Fprintf(&h, "  | %s => %s\n", strings.Join(pats0, ", "), done)
	fmt.Fprintf(&h, "  | %s =>\n%s\n\n", strings.Join(pats1, ", "), kindent(kindent(bodyText)))
	c.f.helpers = append(c.f.helpers, h.String())
	// the call
	call := head + " " + list
	if counter != "" {
		call += " 0"
	}
	if len(state) > 0 {
		call += " " + strings.Join(c.stateExprs(state), " ")
	}
	if hasRet {
		after := c.stmts(rest, k)
		return kwrap(pre, fmt.Sprintf("(match %s with\n| none => none\n| some (some ret_) => some ret_\n| some none =>\n%s)", call, after))
	}
	names := c.stateNames(state)
	return kwrap(pre, fmt.Sprintf("(match %s with\n| none => none\n| some %s =>\n%s)", call, ktuple(names), c.stmts(rest, k)))
}

func rangeVars(n *ast.RangeStmt) string {
	if n.Value == nil {
		return exprString(n.Key)
	}
	return exprString(n.Key) + ", " + exprString(n.Value)
}

func kjoinSp(xs []string) string {
	if len(xs) == 0 {
		return ""
	}
	return " " + strings.Join(xs, " ")
}
