package main

// Translator for the cache-file code of cmd/cache (header.go, file.go) — C13, C14.
//
// The functions `ReadHeader`, `Header.Validate`, `Header.WriteTo`, `Open`, `CreateLevel`, `Create`,
// `File.Write`, `File.Close` are decision logic around calls into the hash, the file and the flate
// writer.  They are translated into pure Lean functions over an ARBITRARY record of primitives
// `io : Gts.Cache.FileIO σ ε` (Gts/Model/CacheFault.lean: one field per external call shape), the
// state `s : σ` threaded through every effectful call in statement order:
//
//	h.Reset()                                   let s := io.hashReset s
//	f, err := os.Open(name)                     let (s, err) := io.osOpen name s
//	if _, err := f.Seek(o, io.SeekStart); ret == nil { ret = err }
//	                                            let (s, err_1) := io.seek o s
//	                                            let ret := if ret.isNone then err_1 else ret
//	f.wr.Close()   (results discarded)          let s := (io.wrClose s).1
//
// so the translator fixes NO semantics of the I/O: the bridge (Gts/Bridge/CacheFile.lean) runs the
// generated functions on the model's machine (`machIO`: faults included) and proves them equal to the
// hand-written model (`openf`, `create`, `close`, and the fault model `createF / writeF / closeF`).
//
// Reading of the Go:
//   - `[]byte` is `List UInt8`: `append(a, b...)` is `a ++ b`, `make([]byte, n)` is n zeros,
//     `p[i:j]` is `(p.drop i).take (j - i)` (a slice expression outside the capacity would be a Go
//     panic; here it yields the shorter list), `nil` is `[]`, `bytes.Equal(a, b)` is `a = b`.
//   - `error` is `Option ε`, `nil` is `none`; `errors.New(lit)` / `fmt.Errorf(lit, …)` is
//     `some (io.mkErr (.<function> i))`, i = index of the creating expression in the function
//     (the message texts are emitted as facts, not compared).
//   - the one hash (`h`, `f.h`), the one file (`f` from os.Open / os.Create, `f.f`, the `io.Reader`
//     of ReadHeader, the `io.Writer` of WriteTo) and the one flate writer (`wr`, `f.wr`) are
//     implicit in `σ`; every call is checked to be ON the expected handle (e.g. `io.Copy(h, f)` from
//     the file, not from the flate reader) and refused otherwise.  `h.Size()` is the parameter `hsize`.
//   - a `Header` is three byte lists; a `*File` result is `Option (header × has-writer)`;
//     `f.wr == nil` reads the flag `hasWr` of the receiver.
//   - `filepath.Join(path, hex.EncodeToString(x))` is `io.hex x` (one cache directory).
//   - `defer X.Close()` at the head of a function is recorded as a fact (`closeDefers`).
//   - cmd/gts/io.go: the condition under which `(*ioDelegate).Close` removes the entry, split into
//     its disjuncts with the error of `d.cache.Close()` named (`ioCloseDiscard`), and the level
//     `TryCache` passes to `CreateLevel` (`tryCacheLevel`).
//
// Anything else is refused.

import (
	"fmt"
	"go/ast"
	"go/parser"
	"go/token"
	"path/filepath"
	"strings"
)

// a value during translation
type cval struct {
	kind string    // int bytes str err bool header hash file reader writer fileptr nil
	term string    // Lean term (int, bytes, str, err, bool; writer: "has a writer" Bool; fileptr)
	hd   [3]string // header: RootSum, DataSum, BodySum
}

type cfn struct {
	file, recv, name, lean string
	site                   string // ErrSite constructor for errors made here ("" = none allowed)
	pure                   bool   // no state threaded
}

type cenv struct {
	vars    map[string]cval
	fn      *cfn
	results []string // result kinds
	nsite   *int
	fresh   *int
	msgs    *[]string
	usesH   *bool
	known   map[string]*cfnInfo // functions already translated (callable)
	defers  *[]string
}

type cfnInfo struct {
	spec    cfn
	usesH   bool
	params  []string // kinds of the Go parameters
	results []string
}

func (e *cenv) clone() *cenv {
	n := *e
	n.vars = map[string]cval{}
	for k, v := range e.vars {
		n.vars[k] = v
	}
	return &n
}

var flateLevels = map[string]string{"NoCompression": "0", "BestSpeed": "1", "BestCompression": "9",
	"DefaultCompression": "(-1)", "HuffmanOnly": "(-2)"}

var headerFields = []string{"RootSum", "DataSum", "BodySum"}

func cfName(n string) string {
	if leanKeywords[n] || n == "s" || n == "io" || n == "hsize" || n == "hasWr" {
		return n + "_"
	}
	return n
}

func (e *cenv) value(x ast.Expr) cval {
	switch n := x.(type) {
	case *ast.ParenExpr:
		return e.value(n.X)
	case *ast.BasicLit:
		if n.Kind == token.INT {
			return cval{kind: "int", term: n.Value}
		}
		refuse("literal %s", n.Value)
	case *ast.Ident:
		if n.Name == "nil" {
			return cval{kind: "nil"}
		}
		v, ok := e.vars[n.Name]
		if !ok {
			refuse("unknown identifier %s", n.Name)
		}
		return v
	case *ast.SelectorExpr:
		if id, ok := n.X.(*ast.Ident); ok {
			if _, shadow := e.vars[id.Name]; !shadow {
				switch {
				case id.Name == "io" && n.Sel.Name == "EOF":
					return cval{kind: "err", term: "(some io.eof)"}
				case id.Name == "flate":
					if l, ok := flateLevels[n.Sel.Name]; ok {
						return cval{kind: "int", term: l}
					}
				}
				refuse("selector %s.%s", id.Name, n.Sel.Name)
			}
		}
		base := e.value(n.X)
		switch base.kind {
		case "header":
			for i, f := range headerFields {
				if f == n.Sel.Name {
					return cval{kind: "bytes", term: base.hd[i]}
				}
			}
		case "recv":
			v, ok := e.vars["."+n.Sel.Name]
			if ok {
				return v
			}
		}
		refuse("field %s of a %s", n.Sel.Name, base.kind)
	case *ast.SliceExpr:
		b := e.value(n.X)
		if b.kind != "bytes" || n.Slice3 {
			refuse("slice expression on %s", b.kind)
		}
		lo, hi := "", ""
		if n.Low != nil {
			lo = e.intTerm(n.Low)
		}
		if n.High != nil {
			hi = e.intTerm(n.High)
		}
		switch {
		case lo == "" && hi == "":
			return b
		case lo == "":
			return cval{kind: "bytes", term: fmt.Sprintf("(%s.take (Int.toNat %s))", b.term, hi)}
		case hi == "":
			return cval{kind: "bytes", term: fmt.Sprintf("(%s.drop (Int.toNat %s))", b.term, lo)}
		}
		return cval{kind: "bytes", term: fmt.Sprintf("((%s.drop (Int.toNat %s)).take (Int.toNat %s - Int.toNat %s))", b.term, lo, hi, lo)}
	case *ast.CompositeLit:
		if identName(n.Type) != "Header" {
			refuse("composite literal %s", exprString(n.Type))
		}
		if len(n.Elts) == 0 {
			return cval{kind: "header", hd: [3]string{"[]", "[]", "[]"}}
		}
		if len(n.Elts) != 3 {
			refuse("Header literal with %d elements", len(n.Elts))
		}
		var hd [3]string
		for i, el := range n.Elts {
			if _, kv := el.(*ast.KeyValueExpr); kv {
				refuse("keyed Header literal")
			}
			hd[i] = e.bytesTerm(el)
		}
		return cval{kind: "header", hd: hd}
	case *ast.UnaryExpr:
		switch n.Op {
		case token.NOT:
			return cval{kind: "bool", term: "(¬ " + e.cond(n.X) + ")"}
		case token.AND:
			cl, ok := n.X.(*ast.CompositeLit)
			if !ok || identName(cl.Type) != "File" || len(cl.Elts) != 5 {
				refuse("& of something that is not a File literal with five elements")
			}
			want := []string{"hash", "file", "header", "reader", "writer"}
			var vs [5]cval
			for i, el := range cl.Elts {
				vs[i] = e.value(el)
				if i == 4 && vs[i].kind == "nil" {
					vs[i] = cval{kind: "writer", term: "false"}
				}
				if vs[i].kind != want[i] {
					refuse("File literal: element %d is a %s, expected the %s", i, vs[i].kind, want[i])
				}
			}
			return cval{kind: "fileptr", term: fmt.Sprintf("(some ((%s, %s, %s), %s))", vs[2].hd[0], vs[2].hd[1], vs[2].hd[2], vs[4].term)}
		}
		refuse("unary %s", n.Op)
	case *ast.BinaryExpr:
		switch n.Op {
		case token.ADD, token.SUB, token.MUL:
			return cval{kind: "int", term: fmt.Sprintf("(%s %s %s)", e.intTerm(n.X), n.Op, e.intTerm(n.Y))}
		case token.EQL, token.NEQ:
			l, r := e.value(n.X), e.value(n.Y)
			if l.kind == "nil" {
				l, r = r, l
			}
			if r.kind == "nil" {
				switch l.kind {
				case "err":
					if n.Op == token.EQL {
						return cval{kind: "bool", term: "(" + l.term + ".isNone = true)"}
					}
					return cval{kind: "bool", term: "(" + l.term + ".isSome = true)"}
				case "writer":
					if n.Op == token.EQL {
						return cval{kind: "bool", term: "(" + l.term + " = false)"}
					}
					return cval{kind: "bool", term: "(" + l.term + " = true)"}
				}
				refuse("comparison of a %s with nil", l.kind)
			}
			if l.kind == "int" && r.kind == "int" {
				op := "="
				if n.Op == token.NEQ {
					op = "≠"
				}
				return cval{kind: "bool", term: fmt.Sprintf("(%s %s %s)", l.term, op, r.term)}
			}
			refuse("comparison of %s and %s", l.kind, r.kind)
		case token.LAND:
			return cval{kind: "bool", term: fmt.Sprintf("(%s ∧ %s)", e.cond(n.X), e.cond(n.Y))}
		case token.LOR:
			return cval{kind: "bool", term: fmt.Sprintf("(%s ∨ %s)", e.cond(n.X), e.cond(n.Y))}
		}
		refuse("binary %s", n.Op)
	case *ast.CallExpr:
		return e.pureCall(n)
	}
	refuse("expression %T", x)
	return cval{}
}

func (e *cenv) intTerm(x ast.Expr) string {
	v := e.value(x)
	if v.kind != "int" {
		refuse("expected an integer, got a %s (%s)", v.kind, exprString(x))
	}
	return v.term
}

func (e *cenv) bytesTerm(x ast.Expr) string {
	v := e.value(x)
	switch v.kind {
	case "bytes":
		return v.term
	case "nil":
		return "[]"
	}
	refuse("expected a byte slice, got a %s (%s)", v.kind, exprString(x))
	return ""
}

func (e *cenv) errTerm(x ast.Expr) string {
	v := e.value(x)
	switch v.kind {
	case "err":
		return v.term
	case "nil":
		return "none"
	}
	refuse("expected an error, got a %s (%s)", v.kind, exprString(x))
	return ""
}

// cond: a Lean proposition (decidable)
func (e *cenv) cond(x ast.Expr) string {
	v := e.value(x)
	if v.kind != "bool" {
		refuse("expected a condition, got a %s (%s)", v.kind, exprString(x))
	}
	return v.term
}

func (e *cenv) handle(x ast.Expr, kind string) {
	v := e.value(x)
	if v.kind != kind {
		refuse("%s: expected the %s, got a %s", exprString(x), kind, v.kind)
	}
}

// calls without effect on the state
func (e *cenv) pureCall(n *ast.CallExpr) cval {
	switch f := n.Fun.(type) {
	case *ast.Ident:
		if _, shadow := e.vars[f.Name]; shadow {
			refuse("call of the variable %s", f.Name)
		}
		switch f.Name {
		case "int64", "int":
			if len(n.Args) == 1 {
				return cval{kind: "int", term: e.intTerm(n.Args[0])}
			}
		case "len":
			if len(n.Args) == 1 {
				return cval{kind: "int", term: "(" + e.bytesTerm(n.Args[0]) + ".length : Int)"}
			}
		case "append":
			if len(n.Args) == 2 && n.Ellipsis.IsValid() {
				return cval{kind: "bytes", term: fmt.Sprintf("(%s ++ %s)", e.bytesTerm(n.Args[0]), e.bytesTerm(n.Args[1]))}
			}
		case "make":
			if len(n.Args) == 2 && exprString(n.Args[0]) == "[]byte" {
				return cval{kind: "bytes", term: fmt.Sprintf("(List.replicate (Int.toNat %s) (0 : UInt8))", e.intTerm(n.Args[1]))}
			}
		}
		refuse("call %s", exprString(n))
	case *ast.SelectorExpr:
		if id, ok := f.X.(*ast.Ident); ok {
			if _, shadow := e.vars[id.Name]; !shadow {
				switch id.Name + "." + f.Sel.Name {
				case "bytes.Equal":
					if len(n.Args) == 2 {
						return cval{kind: "bool", term: fmt.Sprintf("(%s = %s)", e.bytesTerm(n.Args[0]), e.bytesTerm(n.Args[1]))}
					}
				case "errors.New", "fmt.Errorf":
					if len(n.Args) >= 1 {
						msg, ok := stringLiteral(n.Args[0])
						if !ok {
							refuse("%s: the message is not a string literal", exprString(f))
						}
						if e.fn.site == "" {
							refuse("an error value is made in %s", e.fn.name)
						}
						for _, a := range n.Args[1:] {
							e.value(a) // the arguments are values in scope (formatting only)
						}
						i := *e.nsite
						*e.nsite++
						*e.msgs = append(*e.msgs, msg)
						return cval{kind: "err", term: fmt.Sprintf("(some (io.mkErr (.%s %d)))", e.fn.site, i)}
					}
				case "filepath.Join":
					// filepath.Join(path, hex.EncodeToString(x)): the entry's name inside the one directory
					if len(n.Args) == 2 {
						if v := e.value(n.Args[0]); v.kind != "path" {
							refuse("filepath.Join: the first argument is not the cache directory")
						}
						c, ok := n.Args[1].(*ast.CallExpr)
						if ok && exprString(c.Fun) == "hex.EncodeToString" && len(c.Args) == 1 {
							return cval{kind: "str", term: "(io.hex " + e.bytesTerm(c.Args[0]) + ")"}
						}
					}
				case "flate.NewReader":
					if len(n.Args) == 1 {
						e.handle(n.Args[0], "file")
						return cval{kind: "reader"}
					}
				}
				refuse("call %s", exprString(n))
			}
		}
		recv := e.value(f.X)
		switch recv.kind + "." + f.Sel.Name {
		case "hash.Sum":
			if len(n.Args) == 1 && isNil(n.Args[0]) {
				return cval{kind: "bytes", term: "(io.hashSum s)"}
			}
		case "hash.Size":
			if len(n.Args) == 0 {
				*e.usesH = true
				return cval{kind: "int", term: "hsize"}
			}
		case "header.Validate":
			if info, ok := e.known["Header.Validate"]; ok && len(n.Args) == 3 {
				return cval{kind: "err", term: fmt.Sprintf("(%s io %s %s %s %s %s %s)", info.spec.lean, recv.hd[0], recv.hd[1], recv.hd[2],
					e.bytesTerm(n.Args[0]), e.bytesTerm(n.Args[1]), e.bytesTerm(n.Args[2]))}
			}
		}
		refuse("call %s (on a %s)", exprString(n), recv.kind)
	}
	refuse("call %s", exprString(n))
	return cval{}
}

// an effectful call: the Lean call (without the state destructuring) and, per Go result, its kind
// ("-" = not modelled: the Go side must discard it) — the Lean result is the tuple (s, modelled results…)
type ceffect struct {
	call string
	res  []string
}

func (e *cenv) effect(x ast.Expr) (ceffect, bool) {
	n, ok := x.(*ast.CallExpr)
	if !ok {
		return ceffect{}, false
	}
	switch f := n.Fun.(type) {
	case *ast.Ident:
		if _, shadow := e.vars[f.Name]; shadow {
			return ceffect{}, false
		}
		if info, ok := e.known[f.Name]; ok && !info.spec.pure {
			// ReadHeader(f, size), CreateLevel(path, h, rsum, dsum, level)
			if len(n.Args) != len(info.params) {
				refuse("call %s: arity", exprString(n))
			}
			args := []string{"io"}
			if info.usesH {
				*e.usesH = true
				args = append(args, "hsize")
			}
			for i, k := range info.params {
				switch k {
				case "int":
					args = append(args, e.intTerm(n.Args[i]))
				case "bytes":
					args = append(args, e.bytesTerm(n.Args[i]))
				case "file", "hash", "path":
					e.handle(n.Args[i], k)
				default:
					refuse("call %s: parameter kind %s", exprString(n), k)
				}
			}
			return ceffect{call: "(" + info.spec.lean + " " + strings.Join(append(args, "s"), " ") + ")", res: info.results}, true
		}
		return ceffect{}, false
	case *ast.SelectorExpr:
		if id, ok := f.X.(*ast.Ident); ok {
			if _, shadow := e.vars[id.Name]; !shadow {
				switch id.Name + "." + f.Sel.Name {
				case "os.Open", "os.Create":
					if len(n.Args) != 1 {
						refuse("call %s", exprString(n))
					}
					v := e.value(n.Args[0])
					if v.kind != "str" {
						refuse("%s of something that is not the entry's name", exprString(f))
					}
					return ceffect{call: fmt.Sprintf("(io.os%s %s s)", f.Sel.Name, v.term), res: []string{"file", "err"}}, true
				case "io.Copy":
					if len(n.Args) != 2 {
						refuse("call %s", exprString(n))
					}
					e.handle(n.Args[0], "hash")
					e.handle(n.Args[1], "file")
					return ceffect{call: "(io.hashCopy s)", res: []string{"-", "err"}}, true
				case "flate.NewWriter":
					if len(n.Args) != 2 {
						refuse("call %s", exprString(n))
					}
					e.handle(n.Args[0], "file")
					return ceffect{call: fmt.Sprintf("(io.newWriter %s s)", e.intTerm(n.Args[1])), res: []string{"newwriter", "err"}}, true
				}
				return ceffect{}, false
			}
		}
		recv := e.value(f.X)
		switch recv.kind + "." + f.Sel.Name {
		case "hash.Reset":
			if len(n.Args) == 0 {
				return ceffect{call: "(io.hashReset s)", res: nil}, true
			}
		case "hash.Write":
			if len(n.Args) == 1 {
				return ceffect{call: fmt.Sprintf("(io.hashWrite %s s)", e.bytesTerm(n.Args[0])), res: []string{"-", "-"}}, true
			}
		case "file.Read":
			if len(n.Args) == 1 {
				id, ok := n.Args[0].(*ast.Ident)
				if !ok || e.vars[id.Name].kind != "bytes" || e.vars[id.Name].term != cfName(id.Name) {
					refuse("Read into something that is not a local buffer")
				}
				return ceffect{call: fmt.Sprintf("(io.fileRead %s s)", cfName(id.Name)), res: []string{"buf:" + id.Name, "int", "err"}}, true
			}
		case "file.Write":
			if len(n.Args) == 1 {
				return ceffect{call: fmt.Sprintf("(io.fileWrite %s s)", e.bytesTerm(n.Args[0])), res: []string{"int", "err"}}, true
			}
		case "file.Seek":
			if len(n.Args) == 2 && exprString(n.Args[1]) == "io.SeekStart" {
				return ceffect{call: fmt.Sprintf("(io.seek %s s)", e.intTerm(n.Args[0])), res: []string{"-", "err"}}, true
			}
			refuse("Seek that is not relative to io.SeekStart")
		case "writer.Write":
			if len(n.Args) == 1 {
				return ceffect{call: fmt.Sprintf("(io.wrWrite %s s)", e.bytesTerm(n.Args[0])), res: []string{"int", "err"}}, true
			}
		case "writer.Close":
			if len(n.Args) == 0 {
				return ceffect{call: "(io.wrClose s)", res: []string{"err"}}, true
			}
		case "header.WriteTo":
			if info, ok := e.known["Header.WriteTo"]; ok && len(n.Args) == 1 {
				e.handle(n.Args[0], "file")
				return ceffect{call: fmt.Sprintf("(%s io %s %s %s s)", info.spec.lean, recv.hd[0], recv.hd[1], recv.hd[2]), res: []string{"int", "err"}}, true
			}
		}
	}
	return ceffect{}, false
}

// bind the results of an effectful call to the Go left-hand sides (nil: all discarded)
func (e *cenv) bindEffect(ef ceffect, lhs []ast.Expr, scoped bool) string {
	pat := []string{"s"}
	var goRes []string // kinds of the Go results
	bufName := ""
	for _, k := range ef.res {
		if strings.HasPrefix(k, "buf:") {
			bufName = strings.TrimPrefix(k, "buf:")
			continue
		}
		goRes = append(goRes, k)
	}
	if bufName != "" {
		pat = append(pat, cfName(bufName))
	}
	if lhs != nil && len(lhs) != len(goRes) {
		refuse("assignment arity: %d results for %d targets", len(goRes), len(lhs))
	}
	for i, k := range goRes {
		name := "_"
		if lhs != nil {
			name = identName(lhs[i])
			if name == "" {
				refuse("assignment target %s", exprString(lhs[i]))
			}
		}
		if k == "-" {
			if name != "_" {
				refuse("result %d of %s is not modelled and must be discarded", i, ef.call)
			}
			continue
		}
		ln := "_"
		if name != "_" {
			ln = cfName(name)
			if scoped {
				*e.fresh++
				ln = fmt.Sprintf("%s_%d", cfName(name), *e.fresh)
			}
			switch k {
			case "int", "err":
				e.vars[name] = cval{kind: k, term: ln}
			case "file":
				e.vars[name] = cval{kind: "file"}
			case "newwriter":
				e.vars[name] = cval{kind: "writer", term: "true"}
			case "header":
				e.vars[name] = cval{kind: "header", hd: [3]string{ln + "_RootSum", ln + "_DataSum", ln + "_BodySum"}}
			case "fileptr":
				e.vars[name] = cval{kind: "fileptr", term: ln}
			}
		}
		switch k {
		case "file", "newwriter":
			// a handle: no Lean value
		case "header":
			if ln == "_" {
				pat = append(pat, "_")
			} else {
				pat = append(pat, fmt.Sprintf("(%s_RootSum, %s_DataSum, %s_BodySum)", ln, ln, ln))
			}
		default:
			pat = append(pat, ln)
		}
	}
	if len(pat) == 1 {
		// nothing modelled comes back: the Lean primitive returns the state alone
		return fmt.Sprintf("let s := %s;", ef.call)
	}
	allDiscard := true
	for _, p := range pat[1:] {
		if p != "_" {
			allDiscard = false
		}
	}
	if allDiscard {
		return fmt.Sprintf("let s := %s.1;", ef.call)
	}
	return fmt.Sprintf("let (%s) := %s;", strings.Join(pat, ", "), ef.call)
}

// one simple statement (assignment / expression statement); scoped: names it defines get fresh Lean names
func (e *cenv) simple(s ast.Stmt, scoped bool) []string {
	switch n := s.(type) {
	case *ast.ExprStmt:
		ef, ok := e.effect(n.X)
		if !ok {
			refuse("statement %s", exprString(n.X))
		}
		return []string{e.bindEffect(ef, nil, false)}
	case *ast.AssignStmt:
		if n.Tok != token.DEFINE && n.Tok != token.ASSIGN {
			refuse("assignment operator %s", n.Tok)
		}
		if len(n.Rhs) == 1 {
			if ef, ok := e.effect(n.Rhs[0]); ok {
				return []string{e.bindEffect(ef, n.Lhs, scoped)}
			}
		}
		if len(n.Lhs) != len(n.Rhs) {
			refuse("assignment arity")
		}
		vals := make([]cval, len(n.Rhs))
		for i, r := range n.Rhs {
			vals[i] = e.value(r)
		}
		var lets []string
		if len(n.Lhs) > 1 {
			for i, v := range vals {
				if v.kind != "int" {
					refuse("parallel assignment of a %s", v.kind)
				}
				t := fmt.Sprintf("t%d_", i)
				lets = append(lets, fmt.Sprintf("let %s : Int := %s;", t, v.term))
				vals[i].term = t
			}
		}
		for i, l := range n.Lhs {
			lets = append(lets, e.assign(l, vals[i], scoped)...)
		}
		return lets
	}
	refuse("statement %T", s)
	return nil
}

func (e *cenv) assign(lhs ast.Expr, v cval, scoped bool) []string {
	switch l := lhs.(type) {
	case *ast.Ident:
		if l.Name == "_" {
			return nil
		}
		ln := cfName(l.Name)
		if scoped {
			*e.fresh++
			ln = fmt.Sprintf("%s_%d", ln, *e.fresh)
		}
		switch v.kind {
		case "int":
			e.vars[l.Name] = cval{kind: "int", term: ln}
			return []string{fmt.Sprintf("let %s : Int := %s;", ln, v.term)}
		case "bytes":
			e.vars[l.Name] = cval{kind: "bytes", term: ln}
			return []string{fmt.Sprintf("let %s : Gts.Cache.Bytes := %s;", ln, v.term)}
		case "str":
			e.vars[l.Name] = cval{kind: "str", term: ln}
			return []string{fmt.Sprintf("let %s : String := %s;", ln, v.term)}
		case "err":
			e.vars[l.Name] = cval{kind: "err", term: ln}
			return []string{fmt.Sprintf("let %s : Option ε := %s;", ln, v.term)}
		case "header":
			var lets []string
			var hd [3]string
			for i, f := range headerFields {
				hd[i] = ln + "_" + f
				lets = append(lets, fmt.Sprintf("let %s : Gts.Cache.Bytes := %s;", hd[i], v.hd[i]))
			}
			e.vars[l.Name] = cval{kind: "header", hd: hd}
			return lets
		case "reader", "file", "hash":
			e.vars[l.Name] = v
			return nil
		}
		refuse("assignment of a %s to %s", v.kind, l.Name)
	case *ast.SelectorExpr:
		// HD.Field = bytes, HD a header held in Lean variables
		base := e.value(l.X)
		if base.kind != "header" {
			refuse("assignment to a field of a %s", base.kind)
		}
		for i, f := range headerFields {
			if f == l.Sel.Name {
				if !isVarName(base.hd[i]) {
					refuse("assignment to a header field that is not a variable")
				}
				t := v.term
				switch v.kind {
				case "bytes":
				case "nil":
					t = "[]"
				default:
					refuse("assignment of a %s to a header field", v.kind)
				}
				return []string{fmt.Sprintf("let %s : Gts.Cache.Bytes := %s;", base.hd[i], t)}
			}
		}
	}
	refuse("assignment target %s", exprString(lhs))
	return nil
}

func (e *cenv) ret(n *ast.ReturnStmt) string {
	if len(n.Results) == 1 && len(e.results) > 1 {
		// return <effectful call with the same result shape>
		if ef, ok := e.effect(n.Results[0]); ok {
			var ks []string
			for _, k := range ef.res {
				if k == "-" || strings.HasPrefix(k, "buf:") {
					refuse("return of a call whose results are not all modelled")
				}
				ks = append(ks, k)
			}
			if strings.Join(ks, ",") != strings.Join(e.results, ",") {
				refuse("return of a call with results (%s) from a function with results (%s)", strings.Join(ks, ","), strings.Join(e.results, ","))
			}
			return ef.call
		}
	}
	if len(n.Results) != len(e.results) {
		refuse("return arity")
	}
	var parts []string
	if !e.fn.pure {
		parts = append(parts, "s")
	}
	for i, r := range n.Results {
		switch e.results[i] {
		case "int":
			parts = append(parts, e.intTerm(r))
		case "err":
			parts = append(parts, e.errTerm(r))
		case "header":
			v := e.value(r)
			if v.kind != "header" {
				refuse("return of a %s for a Header", v.kind)
			}
			parts = append(parts, fmt.Sprintf("(%s, %s, %s)", v.hd[0], v.hd[1], v.hd[2]))
		case "fileptr":
			v := e.value(r)
			switch v.kind {
			case "nil":
				parts = append(parts, "none")
			case "fileptr":
				parts = append(parts, v.term)
			default:
				refuse("return of a %s for a *File", v.kind)
			}
		default:
			refuse("result kind %s", e.results[i])
		}
	}
	if len(parts) == 1 {
		return parts[0]
	}
	return "(" + strings.Join(parts, ", ") + ")"
}

// a statement list that returns on every path
func (e *cenv) block(stmts []ast.Stmt, ind string) string {
	if len(stmts) == 0 {
		refuse("control reaches the end of %s", e.fn.name)
	}
	st, rest := stmts[0], stmts[1:]
	switch n := st.(type) {
	case *ast.ReturnStmt:
		if len(rest) != 0 {
			refuse("code after return")
		}
		return ind + e.ret(n)
	case *ast.DeferStmt:
		refuse("defer that is not at the head of the function")
	case *ast.IfStmt:
		if n.Else != nil {
			refuse("if with else")
		}
		inner := e.clone()
		var lets []string
		if n.Init != nil {
			lets = inner.simple(n.Init, true)
		}
		c := inner.cond(n.Cond)
		pre := ""
		for _, l := range lets {
			pre += ind + l + "\n"
		}
		if returns(n.Body.List) {
			// the state after the init statement is the state of both branches
			thenS := inner.clone().block(n.Body.List, ind+"  ")
			restEnv := e
			if n.Init != nil {
				restEnv = inner.outer(e)
			}
			elseS := restEnv.block(rest, ind)
			return fmt.Sprintf("%s%sif %s then\n%s\n%selse\n%s", pre, ind, c, thenS, ind, elseS)
		}
		if containsReturn(n.Body.List) {
			refuse("if body returns on some paths only")
		}
		// the body assigns outer variables only: x = e
		out := pre
		for _, bs := range n.Body.List {
			as, ok := bs.(*ast.AssignStmt)
			if !ok || as.Tok != token.ASSIGN || len(as.Lhs) != 1 || len(as.Rhs) != 1 {
				refuse("conditional block: only plain assignments `x = e` are translated")
			}
			name := identName(as.Lhs[0])
			cur, ok := e.vars[name]
			if !ok || cur.kind != "err" || !isVarName(cur.term) {
				refuse("conditional assignment to %s", exprString(as.Lhs[0]))
			}
			if _, eff := inner.effect(as.Rhs[0]); eff {
				refuse("conditional effect")
			}
			v := inner.errTerm(as.Rhs[0])
			out += fmt.Sprintf("%slet %s : Option ε := if %s then %s else %s;\n", ind, cur.term, c, v, cur.term)
			inner.vars[name] = cur
		}
		return out + inner.outer(e).block(rest, ind)
	default:
		lets := e.simple(st, false)
		out := ""
		for _, l := range lets {
			out += ind + l + "\n"
		}
		return out + e.block(rest, ind)
	}
	return ""
}

// outer: the environment after an `if` with an init statement: the variables of the enclosing
// scope as they were (the init's own names go out of scope; the state variable `s` is the one
// threaded through the init)
func (inner *cenv) outer(e *cenv) *cenv {
	n := inner.clone()
	n.vars = map[string]cval{}
	for k, v := range e.vars {
		n.vars[k] = v
	}
	return n
}

// ---------------------------------------------------------------------------

var cacheFns = []cfn{
	{"cmd/cache/header.go", "Header", "Validate", "validate", "validate", true},
	{"cmd/cache/header.go", "", "ReadHeader", "readHeader", "readHeader", false},
	{"cmd/cache/header.go", "Header", "WriteTo", "writeTo", "", false},
	{"cmd/cache/file.go", "", "Open", "open_", "", false},
	{"cmd/cache/file.go", "", "CreateLevel", "createLevel", "", false},
	{"cmd/cache/file.go", "", "Create", "create", "", false},
	{"cmd/cache/file.go", "*File", "Write", "write", "", false},
	{"cmd/cache/file.go", "*File", "Close", "close", "", false},
}

func cfParamKind(t ast.Expr) string {
	switch exprString(t) {
	case "int":
		return "int"
	case "[]byte":
		return "bytes"
	case "string":
		return "path"
	case "hash.Hash":
		return "hash"
	case "io.Reader", "io.Writer":
		return "file"
	}
	refuse("parameter type %s", exprString(t))
	return ""
}

func cfResultKind(t ast.Expr) string {
	switch exprString(t) {
	case "int", "int64":
		return "int"
	case "error":
		return "err"
	case "Header":
		return "header"
	case "*File":
		return "fileptr"
	}
	refuse("result type %s", exprString(t))
	return ""
}

var cfLeanKind = map[string]string{"int": "Int", "err": "Option ε", "header": "(Gts.Cache.Bytes × Gts.Cache.Bytes × Gts.Cache.Bytes)",
	"fileptr": "Option ((Gts.Cache.Bytes × Gts.Cache.Bytes × Gts.Cache.Bytes) × Bool)"}

func genCacheFile(repo string) (text string, err error) {
	defer func() {
		if r := recover(); r != nil {
			if rf, ok := r.(refusal); ok {
				err = fmt.Errorf("%s", rf.msg)
				return
			}
			panic(r)
		}
	}()
	fset := token.NewFileSet()
	files := map[string]*ast.File{}
	load := func(p string) *ast.File {
		if f, ok := files[p]; ok {
			return f
		}
		f, perr := parser.ParseFile(fset, filepath.Join(repo, p), nil, 0)
		if perr != nil {
			refuse("%v", perr)
		}
		files[p] = f
		return f
	}
	// the struct layouts the translation relies on
	checkStruct(load("cmd/cache/header.go"), "Header", []string{"RootSum []byte", "DataSum []byte", "BodySum []byte"})
	checkStruct(load("cmd/cache/file.go"), "File", []string{"h hash.Hash", "f *os.File", "hd Header", "rd io.ReadCloser", "wr io.WriteCloser"})

	b := strings.Builder{}
	b.WriteString("/-\n  GENERATED by go2lean (cachefile.go) from cmd/cache/header.go, cmd/cache/file.go and cmd/gts/io.go — do not edit.\n")
	b.WriteString("  The cache-file functions as pure Lean functions over an arbitrary record of I/O primitives\n  `io : Gts.Cache.FileIO σ ε`, the state `s : σ` threaded through every effectful call in statement order.\n-/\n")
	b.WriteString("import Gts.Model.CacheFault\nnamespace Gts.Gen.CacheFile\nset_option linter.unusedVariables false\n\n")

	known := map[string]*cfnInfo{}
	var allDefers []string
	msgsOf := map[string][]string{}
	for i := range cacheFns {
		spec := cacheFns[i]
		af := load(spec.file)
		var decl *ast.FuncDecl
		for _, d := range af.Decls {
			fd, ok := d.(*ast.FuncDecl)
			if !ok || fd.Name.Name != spec.name || fd.Body == nil {
				continue
			}
			recv := ""
			if fd.Recv != nil && len(fd.Recv.List) == 1 {
				recv = exprString(fd.Recv.List[0].Type)
			}
			if recv == spec.recv {
				if decl != nil {
					refuse("%s: %s declared twice", spec.file, spec.name)
				}
				decl = fd
			}
		}
		if decl == nil {
			refuse("%s: function %s %s not found", spec.file, spec.recv, spec.name)
		}
		func() {
			defer func() {
				if r := recover(); r != nil {
					if rf, ok := r.(refusal); ok {
						panic(refusal{fmt.Sprintf("%s %s: %s", spec.file, strings.TrimPrefix(spec.recv+"."+spec.name, "."), rf.msg)})
					}
					panic(r)
				}
			}()
			nsite, fresh, usesH := 0, 0, false
			var msgs, defers []string
			e := &cenv{vars: map[string]cval{}, fn: &spec, nsite: &nsite, fresh: &fresh, msgs: &msgs, usesH: &usesH, known: known, defers: &defers}
			var params []string
			info := &cfnInfo{spec: spec}
			// receiver
			switch spec.recv {
			case "Header":
				rn := decl.Recv.List[0].Names[0].Name
				ln := cfName(rn)
				e.vars[rn] = cval{kind: "header", hd: [3]string{ln + "_RootSum", ln + "_DataSum", ln + "_BodySum"}}
				params = append(params, fmt.Sprintf("(%s_RootSum %s_DataSum %s_BodySum : Gts.Cache.Bytes)", ln, ln, ln))
			case "*File":
				rn := decl.Recv.List[0].Names[0].Name
				e.vars[rn] = cval{kind: "recv"}
				e.vars[".h"] = cval{kind: "hash"}
				e.vars[".f"] = cval{kind: "file"}
				e.vars[".rd"] = cval{kind: "reader"}
				e.vars[".wr"] = cval{kind: "writer", term: "hasWr"}
				e.vars[".hd"] = cval{kind: "header", hd: [3]string{"hd_RootSum", "hd_DataSum", "hd_BodySum"}}
				params = append(params, "(hasWr : Bool)", "(hd_RootSum hd_DataSum hd_BodySum : Gts.Cache.Bytes)")
			case "":
			default:
				refuse("receiver %s", spec.recv)
			}
			for _, p := range decl.Type.Params.List {
				k := cfParamKind(p.Type)
				for _, nm := range p.Names {
					info.params = append(info.params, k)
					ln := cfName(nm.Name)
					switch k {
					case "int":
						e.vars[nm.Name] = cval{kind: "int", term: ln}
						params = append(params, fmt.Sprintf("(%s : Int)", ln))
					case "bytes":
						e.vars[nm.Name] = cval{kind: "bytes", term: ln}
						params = append(params, fmt.Sprintf("(%s : Gts.Cache.Bytes)", ln))
					default:
						e.vars[nm.Name] = cval{kind: k}
					}
				}
			}
			var rts []string
			if decl.Type.Results != nil {
				for _, r := range decl.Type.Results.List {
					if len(r.Names) != 0 {
						refuse("named results")
					}
					k := cfResultKind(r.Type)
					e.results = append(e.results, k)
					rts = append(rts, cfLeanKind[k])
				}
			}
			info.results = e.results
			// defers at the head
			body := decl.Body.List
			for len(body) > 0 {
				d, ok := body[0].(*ast.DeferStmt)
				if !ok {
					break
				}
				s, ok := d.Call.Fun.(*ast.SelectorExpr)
				if !ok || s.Sel.Name != "Close" || len(d.Call.Args) != 0 {
					refuse("defer %s", exprString(d.Call))
				}
				v := e.value(s.X)
				if v.kind != "file" && v.kind != "reader" {
					refuse("defer Close of a %s", v.kind)
				}
				defers = append(defers, spec.name+": defer "+v.kind+".Close()")
				body = body[1:]
			}
			text := e.block(body, "  ")
			info.usesH = usesH
			sig := "{σ ε : Type} (io : Gts.Cache.FileIO σ ε)"
			if usesH {
				sig += " (hsize : Int)"
			}
			if len(params) > 0 {
				sig += " " + strings.Join(params, " ")
			}
			rt := strings.Join(rts, " × ")
			if !spec.pure {
				sig += " (s : σ)"
				rt = "σ × " + rt
			}
			fmt.Fprintf(&b, "/-- %s: `%s` -/\ndef %s %s :\n    %s :=\n%s\n\n", spec.file, strings.TrimPrefix(spec.recv+"."+spec.name, "."), spec.lean, sig, rt, text)
			key := spec.name
			if spec.recv != "" {
				key = strings.TrimPrefix(spec.recv, "*") + "." + spec.name
			}
			known[key] = info
			allDefers = append(allDefers, defers...)
			msgsOf[spec.lean] = msgs
		}()
	}
	fmt.Fprintf(&b, "/-- the `defer` statements at the head of the translated functions -/\ndef closeDefers : List String := %s\n\n", leanStrList(allDefers))
	fmt.Fprintf(&b, "/-- header.go `ReadHeader`: the messages of the errors it makes, by site -/\ndef readHeaderMessages : List String := %s\n\n", leanStrList(msgsOf["readHeader"]))
	fmt.Fprintf(&b, "/-- header.go `Header.Validate`: the messages of the errors it makes, by site -/\ndef validateMessages : List String := %s\n\n", leanStrList(msgsOf["validate"]))

	// cmd/gts/io.go
	disc, level := cacheIOFacts(load("cmd/gts/io.go"))
	fmt.Fprintf(&b, "/-- cmd/gts/io.go `(*ioDelegate).Close`: `if err := d.cache.Close(); A || B { os.Remove(d.cache.Name()) }` —\nthe disjuncts of the condition; `close-error` is `err != nil` for the error of `d.cache.Close()`,\n`not-committed` is `!d.done` -/\ndef ioCloseDiscard : List String := %s\n\n", leanStrList(disc))
	fmt.Fprintf(&b, "/-- cmd/gts/io.go `TryCache`: the compression level passed to `cache.CreateLevel` -/\ndef tryCacheLevel : Int := %s\n\n", level)
	fmt.Fprintf(&b, "/-- cmd/gts/io.go `TryCache`: `f, err := cache.Open(…); if <this> { … cache.CreateLevel … }` — when an entry is\n(re)created; `open-error` is `err != nil` for the error of `cache.Open` -/\ndef tryCacheMissCond : String := %s\n\n", leanStr(cacheMissCond(load("cmd/gts/io.go"))))
	b.WriteString("end Gts.Gen.CacheFile\n")
	return b.String(), nil
}

func checkStruct(af *ast.File, name string, want []string) {
	for _, d := range af.Decls {
		gd, ok := d.(*ast.GenDecl)
		if !ok || gd.Tok != token.TYPE {
			continue
		}
		for _, sp := range gd.Specs {
			ts := sp.(*ast.TypeSpec)
			if ts.Name.Name != name {
				continue
			}
			st, ok := ts.Type.(*ast.StructType)
			if !ok {
				refuse("type %s is not a struct", name)
			}
			var got []string
			for _, f := range st.Fields.List {
				for _, n := range f.Names {
					got = append(got, n.Name+" "+exprString(f.Type))
				}
				if len(f.Names) == 0 {
					got = append(got, exprString(f.Type))
				}
			}
			if strings.Join(got, "; ") != strings.Join(want, "; ") {
				refuse("struct %s has the fields {%s}, expected {%s}", name, strings.Join(got, "; "), strings.Join(want, "; "))
			}
			return
		}
	}
	refuse("type %s not found", name)
}

// cmd/gts/io.go: Close's removal condition and TryCache's level
func cacheIOFacts(af *ast.File) ([]string, string) {
	var closeFn, tryFn *ast.FuncDecl
	for _, d := range af.Decls {
		fd, ok := d.(*ast.FuncDecl)
		if !ok || fd.Recv == nil || len(fd.Recv.List) != 1 || exprString(fd.Recv.List[0].Type) != "*ioDelegate" || fd.Body == nil {
			continue
		}
		switch fd.Name.Name {
		case "Close":
			closeFn = fd
		case "TryCache":
			tryFn = fd
		}
	}
	if closeFn == nil || tryFn == nil {
		refuse("cmd/gts/io.go: (*ioDelegate).Close / TryCache not found")
	}
	d := closeFn.Recv.List[0].Names[0].Name
	var disc []string
	found := 0
	ast.Inspect(closeFn.Body, func(n ast.Node) bool {
		ifs, ok := n.(*ast.IfStmt)
		if !ok || ifs.Init == nil {
			return true
		}
		as, ok := ifs.Init.(*ast.AssignStmt)
		if !ok || len(as.Lhs) != 1 || len(as.Rhs) != 1 || exprString(as.Rhs[0]) != d+".cache.Close()" {
			return true
		}
		errName := identName(as.Lhs[0])
		found++
		if ifs.Else != nil || len(ifs.Body.List) != 1 {
			refuse("io.go Close: the block guarded by the result of %s.cache.Close() is not a single statement", d)
		}
		if es, ok := ifs.Body.List[0].(*ast.ExprStmt); !ok || exprString(es.X) != "os.Remove("+d+".cache.Name())" {
			refuse("io.go Close: the guarded statement is not os.Remove(%s.cache.Name())", d)
		}
		var split func(x ast.Expr)
		split = func(x ast.Expr) {
			if p, ok := x.(*ast.ParenExpr); ok {
				split(p.X)
				return
			}
			if be, ok := x.(*ast.BinaryExpr); ok && be.Op == token.LOR {
				split(be.X)
				split(be.Y)
				return
			}
			t := exprString(x)
			if t == errName+" != nil" {
				t = "close-error"
			} else if t == "!"+d+".done" {
				t = "not-committed"
			} else if strings.Contains(t, errName) {
				refuse("io.go Close: the error of cache.Close() is used in %s", t)
			}
			disc = append(disc, t)
		}
		split(ifs.Cond)
		return true
	})
	if found != 1 {
		refuse("io.go Close: %d uses of %s.cache.Close(), expected one `if err := %s.cache.Close(); …`", found, d, d)
	}
	if n := len(methodCalls(closeFn.Body, "Close")); n != 3 { // the cache file, infile, outfile
		refuse("io.go Close: %d Close calls, expected three", n)
	}
	var levels []string
	ast.Inspect(tryFn.Body, func(n ast.Node) bool {
		c, ok := n.(*ast.CallExpr)
		if !ok || exprString(c.Fun) != "cache.CreateLevel" || len(c.Args) != 5 {
			return true
		}
		s, ok := c.Args[4].(*ast.SelectorExpr)
		if !ok || identName(s.X) != "flate" || flateLevels[s.Sel.Name] == "" {
			refuse("io.go TryCache: the level of cache.CreateLevel is not a flate constant")
		}
		levels = append(levels, flateLevels[s.Sel.Name])
		return true
	})
	if len(levels) != 1 {
		refuse("io.go TryCache: %d calls of cache.CreateLevel, expected one", len(levels))
	}
	return disc, levels[0]
}

// cmd/gts/io.go TryCache: `f, err := cache.Open(…)` followed by `if COND { … cache.CreateLevel … }`:
// the condition under which an entry is (re)created, with the error of cache.Open named
func cacheMissCond(af *ast.File) string {
	var tryFn *ast.FuncDecl
	for _, d := range af.Decls {
		fd, ok := d.(*ast.FuncDecl)
		if ok && fd.Recv != nil && fd.Name.Name == "TryCache" && fd.Body != nil {
			tryFn = fd
		}
	}
	if tryFn == nil {
		refuse("cmd/gts/io.go: TryCache not found")
	}
	cond := ""
	list := tryFn.Body.List
	for i, st := range list {
		as, ok := st.(*ast.AssignStmt)
		if !ok || len(as.Rhs) != 1 || len(as.Lhs) != 2 {
			continue
		}
		c, ok := as.Rhs[0].(*ast.CallExpr)
		if !ok || exprString(c.Fun) != "cache.Open" {
			continue
		}
		errName := identName(as.Lhs[1])
		if i+1 >= len(list) {
			refuse("io.go TryCache: nothing follows cache.Open")
		}
		ifs, ok := list[i+1].(*ast.IfStmt)
		if !ok || ifs.Init != nil || len(callsOf(ifs.Body, "cache.CreateLevel")) != 1 {
			refuse("io.go TryCache: cache.Open is not followed by `if … { … cache.CreateLevel … }`")
		}
		if cond != "" {
			refuse("io.go TryCache: cache.Open called twice")
		}
		cond = exprString(ifs.Cond)
		if cond == errName+" != nil" {
			cond = "open-error"
		}
	}
	if cond == "" {
		refuse("io.go TryCache: no call of cache.Open")
	}
	return cond
}

func callsOf(n ast.Node, fun string) []*ast.CallExpr {
	var out []*ast.CallExpr
	ast.Inspect(n, func(x ast.Node) bool {
		if c, ok := x.(*ast.CallExpr); ok && exprString(c.Fun) == fun {
			out = append(out, c)
		}
		return true
	})
	return out
}
