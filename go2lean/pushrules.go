package main

// Extractor / translator for the reduction rules of `LocationList.Push` (location.go), the code
// behind `Join` on which C06 (and, through joins, C02–C05, C10, C12) lives or dies.
//
// `Push` is: walk to the last cell; flatten a pushed `Joined`; first element; then a nested type
// switch over (kind of the last element v, kind of the pushed element u) whose clauses are
// `if cond { [locals…;] [ll.Data = X;] return }`; a pair for which no clause returns falls through
// to `ll.Next = &LocationList{loc, nil}` (append).
//
// Generated (Gts/Gen/PushRules.lean):
//   - `pushRule v u force : Option Loc` — the nested type switch as a Lean function:
//     `some d` = the last element becomes d (d = v: the pushed element is dropped) and Push returns,
//     `none` = fall through to append.  Conditions and merged values are translated by the
//     expression translator of arith.go (Go int = Int).
//   - the Complemented/Complemented clause, which calls Push and Join recursively, is not a
//     rule of this table: its statements are recognised one by one and recorded as the fact
//     `pushComplClause`; likewise the frame around the switch (`pushFrame`).
//
// Gts/Bridge/PushRules.lean proves that the hand-written model's `Loc.pushOne` is this table.

import (
	"fmt"
	"go/ast"
	"go/parser"
	"go/token"
	"path/filepath"
	"strings"
)

var pushKinds = map[string]struct {
	pat  func(name string) string // Lean pattern binding the kind's fields to variables derived from name
	bind func(name string) val    // the value the Go variable has inside the clause
	back func(name string) string // the location rebuilt from the variable
}{
	"Between": {
		func(n string) string { return ".between " + n },
		func(n string) val { return val{typ: "int", expr: n} },
		func(n string) string { return "(Gts.Loc.between " + n + ")" },
	},
	"Point": {
		func(n string) string { return ".point " + n },
		func(n string) val { return val{typ: "int", expr: n} },
		func(n string) string { return "(Gts.Loc.point " + n + ")" },
	},
	"Ranged": {
		func(n string) string {
			v := structVar("Ranged", n)
			var ps []string
			for _, l := range flat(v) {
				ps = append(ps, l.expr)
			}
			return ".ranged " + strings.Join(ps, " ")
		},
		func(n string) val { return structVar("Ranged", n) },
		func(n string) string { return asLoc(structVar("Ranged", n)) },
	},
	"Ambiguous": {
		func(n string) string {
			v := structVar("Ambiguous", n)
			var ps []string
			for _, l := range flat(v) {
				ps = append(ps, l.expr)
			}
			return ".ambiguous " + strings.Join(ps, " ")
		},
		func(n string) val { return structVar("Ambiguous", n) },
		func(n string) string { return asLoc(structVar("Ambiguous", n)) },
	},
}

func isSel(x ast.Expr, base, field string) bool {
	s, ok := x.(*ast.SelectorExpr)
	return ok && identName(s.X) == base && s.Sel.Name == field
}

// typeSwitchOf: `switch NAME := EXPR.(type)`; returns NAME and EXPR
func typeSwitchOf(s ast.Stmt) (*ast.TypeSwitchStmt, string, ast.Expr) {
	ts, ok := s.(*ast.TypeSwitchStmt)
	if !ok || ts.Init != nil {
		return nil, "", nil
	}
	as, ok := ts.Assign.(*ast.AssignStmt)
	if !ok || as.Tok != token.DEFINE || len(as.Lhs) != 1 || len(as.Rhs) != 1 {
		return nil, "", nil
	}
	ta, ok := as.Rhs[0].(*ast.TypeAssertExpr)
	if !ok || ta.Type != nil {
		return nil, "", nil
	}
	return ts, identName(as.Lhs[0]), ta.X
}

func genPushRules(repo string) (text string, err error) {
	defer func() {
		if r := recover(); r != nil {
			if rf, ok := r.(refusal); ok {
				err = fmt.Errorf("%s", rf.msg)
				return
			}
			panic(r)
		}
	}()
	fset := token.NewFileSet()
	af, perr := parser.ParseFile(fset, filepath.Join(repo, "location.go"), nil, 0)
	if perr != nil {
		return "", perr
	}
	var fd *ast.FuncDecl
	for _, d := range af.Decls {
		f, ok := d.(*ast.FuncDecl)
		if !ok || f.Name.Name != "Push" || f.Recv == nil || len(f.Recv.List) != 1 {
			continue
		}
		if st, ok := f.Recv.List[0].Type.(*ast.StarExpr); ok && identName(st.X) == "LocationList" {
			fd = f
		}
	}
	if fd == nil {
		refuse("location.go: (*LocationList).Push not found")
	}
	ll := fd.Recv.List[0].Names[0].Name
	if len(fd.Type.Params.List) != 2 || len(fd.Type.Params.List[0].Names) != 1 || len(fd.Type.Params.List[1].Names) != 1 ||
		identName(fd.Type.Params.List[0].Type) != "Location" || identName(fd.Type.Params.List[1].Type) != "bool" {
		refuse("Push: expected the parameters (loc Location, force bool)")
	}
	loc, force := fd.Type.Params.List[0].Names[0].Name, fd.Type.Params.List[1].Names[0].Name
	body := fd.Body.List

	// ---- the frame around the type switch -------------------------------------------------
	var frame []string
	var sw *ast.TypeSwitchStmt
	var vName string
	for _, s := range body {
		switch n := s.(type) {
		case *ast.IfStmt:
			switch {
			case n.Init == nil && isBin(n.Cond, token.NEQ, func(x ast.Expr) bool { return isSel(x, ll, "Next") }, isNil) &&
				len(n.Body.List) == 2 && isCallStmt(n.Body.List[0], func(c *ast.CallExpr) bool {
				s, ok := c.Fun.(*ast.SelectorExpr)
				return ok && isSel(s.X, ll, "Next") && s.Sel.Name == "Push" && len(c.Args) == 2 && identName(c.Args[0]) == loc && identName(c.Args[1]) == force
			}) && isBareReturn(n.Body.List[1]) && n.Else == nil:
				frame = append(frame, "walk-to-last")
			case n.Init != nil && isJoinedAssert(n, loc) && n.Else == nil && len(n.Body.List) == 2 && isFlattenLoop(n.Body.List[0], n, ll, force) && isBareReturn(n.Body.List[1]):
				frame = append(frame, "flatten-pushed-joined")
			case n.Init == nil && isBin(n.Cond, token.EQL, func(x ast.Expr) bool { return isSel(x, ll, "Data") }, isNil) && n.Else == nil &&
				len(n.Body.List) == 2 && isAssignTo(n.Body.List[0], ll, "Data", func(x ast.Expr) bool { return identName(x) == loc }) && isBareReturn(n.Body.List[1]):
				frame = append(frame, "first-element")
			default:
				refuse("Push: unexpected if statement in the frame: %s", exprString(n.Cond))
			}
		case *ast.TypeSwitchStmt:
			ts, name, x := typeSwitchOf(n)
			if ts == nil || !isSel(x, ll, "Data") || sw != nil {
				refuse("Push: unexpected type switch")
			}
			sw, vName = ts, name
			frame = append(frame, "rules")
		case *ast.AssignStmt:
			// ll.Next = &LocationList{loc, nil}
			ok := n.Tok == token.ASSIGN && len(n.Lhs) == 1 && len(n.Rhs) == 1 && isSel(n.Lhs[0], ll, "Next")
			if ok {
				u, isU := n.Rhs[0].(*ast.UnaryExpr)
				ok = isU && u.Op == token.AND
				if ok {
					cl, isCl := u.X.(*ast.CompositeLit)
					ok = isCl && identName(cl.Type) == "LocationList" && len(cl.Elts) == 2 && identName(cl.Elts[0]) == loc && isNil(cl.Elts[1])
				}
			}
			if !ok {
				refuse("Push: unexpected assignment in the frame")
			}
			frame = append(frame, "append")
		default:
			refuse("Push: unexpected statement %T in the frame", s)
		}
	}
	if sw == nil {
		refuse("Push: no type switch over %s.Data", ll)
	}

	// ---- the rules ------------------------------------------------------------------------
	var arms []string
	complClause := "absent"
	for _, oc := range sw.Body.List {
		occ := oc.(*ast.CaseClause)
		if len(occ.List) != 1 {
			refuse("Push: outer case list")
		}
		vk := identName(occ.List[0])
		if vk == "Complemented" {
			complClause = complementedClause(occ.Body, vName, loc, ll, force)
			continue
		}
		kv, ok := pushKinds[vk]
		if !ok {
			refuse("Push: outer case %s", vk)
		}
		if len(occ.Body) != 1 {
			refuse("Push: case %s: expected one inner type switch", vk)
		}
		its, uName, x := typeSwitchOf(occ.Body[0])
		if its == nil || identName(x) != loc {
			refuse("Push: case %s: inner statement is not `switch u := %s.(type)`", vk, loc)
		}
		for _, ic := range its.Body.List {
			icc := ic.(*ast.CaseClause)
			if len(icc.List) != 1 {
				refuse("Push: inner case list")
			}
			uk := identName(icc.List[0])
			ku, ok := pushKinds[uk]
			if !ok {
				refuse("Push: inner case %s", uk)
			}
			if leanKeywords[vName] || leanKeywords[uName] || vName == uName {
				refuse("Push: switch variable names")
			}
			rhs := "none"
			// the clause body: if-statements that return; evaluated first to last
			for j := len(icc.Body) - 1; j >= 0; j-- {
				is, ok := icc.Body[j].(*ast.IfStmt)
				if !ok || is.Init != nil || is.Else != nil {
					refuse("Push: clause (%s, %s): statement is not a plain if", vk, uk)
				}
				e := &env{vars: map[string]val{vName: kv.bind(vName), uName: ku.bind(uName), force: {typ: "bool", expr: force}}}
				cond := asProp(e.expr(is.Cond))
				var lets []string
				result := kv.back(vName) // `return` without assignment: the last element stays
				stmts := is.Body.List
				if len(stmts) == 0 || !isBareReturn(stmts[len(stmts)-1]) {
					refuse("Push: clause (%s, %s): the if body does not end in return", vk, uk)
				}
				for _, st := range stmts[:len(stmts)-1] {
					as, ok := st.(*ast.AssignStmt)
					if !ok || len(as.Lhs) != 1 || len(as.Rhs) != 1 {
						refuse("Push: clause (%s, %s): statement in the if body", vk, uk)
					}
					if isSel(as.Lhs[0], ll, "Data") && as.Tok == token.ASSIGN {
						switch identName(as.Rhs[0]) {
						case uName:
							result = ku.back(uName)
						case vName:
							result = kv.back(vName)
						default:
							result = asLoc(e.expr(as.Rhs[0]))
						}
						continue
					}
					if as.Tok != token.DEFINE {
						refuse("Push: clause (%s, %s): assignment in the if body", vk, uk)
					}
					e.assign(as.Lhs[0], e.expr(as.Rhs[0]), &lets)
				}
				rhs = fmt.Sprintf("if %s then\n      %s some %s\n    else %s", cond, strings.Join(lets, " "), result, rhs)
			}
			arms = append(arms, fmt.Sprintf("  | %s, %s =>\n    %s", kv.pat(vName), ku.pat(uName), rhs))
		}
	}

	b := strings.Builder{}
	b.WriteString("/-\n  GENERATED by go2lean (pushrules.go) from location.go `(*LocationList).Push` — do not edit.\n-/\n")
	b.WriteString("import Gts.Gen.Arith\nnamespace Gts.Gen\nset_option linter.unusedVariables false\n\n")
	b.WriteString("/-- the statements of `Push` around its nested type switch, in source order -/\n")
	fmt.Fprintf(&b, "def pushFrame : List String := [%s]\n\n", quoteAll(frame))
	b.WriteString("/-- the `case Complemented:` clause of the outer switch, recognised statement by statement:\n`if u, ok := loc.(Complemented); ok { tmp := LocationList{u.Location, nil}; tmp.Push(v.Location, force);\nll.Data = Complemented{Join(tmp.Slice()...)}; return }` -/\n")
	fmt.Fprintf(&b, "def pushComplClause : String := %q\n\n", complClause)
	b.WriteString("/-- the nested type switch of `Push` over (last element, pushed element): `some d` — the last\nelement becomes `d` and `Push` returns; `none` — no clause returns: append -/\n")
	fmt.Fprintf(&b, "def pushRule (v_ u_ : Gts.Loc) (%s : Bool) : Option Gts.Loc :=\n  match v_, u_ with\n%s\n  | _, _ => none\n\n", force, strings.Join(arms, "\n"))
	b.WriteString("end Gts.Gen\n")
	return b.String(), nil
}

func quoteAll(xs []string) string {
	q := make([]string, len(xs))
	for i, x := range xs {
		q[i] = fmt.Sprintf("%q", x)
	}
	return strings.Join(q, ", ")
}

func isNil(x ast.Expr) bool { return identName(x) == "nil" }

func isBin(x ast.Expr, op token.Token, l, r func(ast.Expr) bool) bool {
	b, ok := x.(*ast.BinaryExpr)
	return ok && b.Op == op && l(b.X) && r(b.Y)
}

func isBareReturn(s ast.Stmt) bool {
	r, ok := s.(*ast.ReturnStmt)
	return ok && len(r.Results) == 0
}

func isCallStmt(s ast.Stmt, f func(*ast.CallExpr) bool) bool {
	es, ok := s.(*ast.ExprStmt)
	if !ok {
		return false
	}
	c, ok := es.X.(*ast.CallExpr)
	return ok && f(c)
}

func isAssignTo(s ast.Stmt, base, field string, rhs func(ast.Expr) bool) bool {
	as, ok := s.(*ast.AssignStmt)
	return ok && as.Tok == token.ASSIGN && len(as.Lhs) == 1 && len(as.Rhs) == 1 && isSel(as.Lhs[0], base, field) && rhs(as.Rhs[0])
}

// `if NAME, ok := loc.(Joined); ok`
func isJoinedAssert(n *ast.IfStmt, loc string) bool {
	as, ok := n.Init.(*ast.AssignStmt)
	if !ok || as.Tok != token.DEFINE || len(as.Lhs) != 2 || len(as.Rhs) != 1 {
		return false
	}
	ta, ok := as.Rhs[0].(*ast.TypeAssertExpr)
	return ok && identName(ta.X) == loc && identName(ta.Type) == "Joined" && identName(n.Cond) == identName(as.Lhs[1]) && identName(n.Cond) != ""
}

// `for i := range joined { ll.Push(joined[i], force) }`
func isFlattenLoop(s ast.Stmt, n *ast.IfStmt, ll, force string) bool {
	joined := identName(n.Init.(*ast.AssignStmt).Lhs[0])
	rs, ok := s.(*ast.RangeStmt)
	if !ok || rs.Tok != token.DEFINE || identName(rs.X) != joined || rs.Value != nil || len(rs.Body.List) != 1 {
		return false
	}
	i := identName(rs.Key)
	return isCallStmt(rs.Body.List[0], func(c *ast.CallExpr) bool {
		s, ok := c.Fun.(*ast.SelectorExpr)
		if !ok || identName(s.X) != ll || s.Sel.Name != "Push" || len(c.Args) != 2 || identName(c.Args[1]) != force {
			return false
		}
		ix, ok := c.Args[0].(*ast.IndexExpr)
		return ok && identName(ix.X) == joined && identName(ix.Index) == i
	})
}

// the `case Complemented:` clause; returns "as-modelled" when every statement is the expected one
func complementedClause(body []ast.Stmt, v, loc, ll, force string) string {
	if len(body) != 1 {
		return "unexpected: statements"
	}
	n, ok := body[0].(*ast.IfStmt)
	if !ok || n.Else != nil || n.Init == nil {
		return "unexpected: not an if with init"
	}
	as, ok := n.Init.(*ast.AssignStmt)
	if !ok || as.Tok != token.DEFINE || len(as.Lhs) != 2 || len(as.Rhs) != 1 {
		return "unexpected: init"
	}
	ta, ok := as.Rhs[0].(*ast.TypeAssertExpr)
	if !ok || identName(ta.X) != loc || identName(ta.Type) != "Complemented" || identName(n.Cond) != identName(as.Lhs[1]) {
		return "unexpected: type assertion"
	}
	u := identName(as.Lhs[0])
	st := n.Body.List
	if len(st) != 4 || !isBareReturn(st[3]) {
		return "unexpected: body length"
	}
	// tmp := LocationList{u.Location, nil}
	a0, ok := st[0].(*ast.AssignStmt)
	if !ok || a0.Tok != token.DEFINE || len(a0.Lhs) != 1 || len(a0.Rhs) != 1 {
		return "unexpected: tmp"
	}
	tmp := identName(a0.Lhs[0])
	cl, ok := a0.Rhs[0].(*ast.CompositeLit)
	if !ok || identName(cl.Type) != "LocationList" || len(cl.Elts) != 2 || !isSel(cl.Elts[0], u, "Location") || !isNil(cl.Elts[1]) {
		return "unexpected: tmp literal"
	}
	// tmp.Push(v.Location, force)
	if !isCallStmt(st[1], func(c *ast.CallExpr) bool {
		s, ok := c.Fun.(*ast.SelectorExpr)
		return ok && identName(s.X) == tmp && s.Sel.Name == "Push" && len(c.Args) == 2 && isSel(c.Args[0], v, "Location") && identName(c.Args[1]) == force
	}) {
		return "unexpected: tmp.Push"
	}
	// ll.Data = Complemented{Join(tmp.Slice()...)}
	if !isAssignTo(st[2], ll, "Data", func(x ast.Expr) bool {
		c, ok := x.(*ast.CompositeLit)
		if !ok || identName(c.Type) != "Complemented" || len(c.Elts) != 1 {
			return false
		}
		j, ok := c.Elts[0].(*ast.CallExpr)
		if !ok || identName(j.Fun) != "Join" || !j.Ellipsis.IsValid() || len(j.Args) != 1 {
			return false
		}
		sc, ok := j.Args[0].(*ast.CallExpr)
		if !ok || len(sc.Args) != 0 {
			return false
		}
		s, ok := sc.Fun.(*ast.SelectorExpr)
		return ok && identName(s.X) == tmp && s.Sel.Name == "Slice"
	}) {
		return "unexpected: ll.Data"
	}
	return "as-modelled"
}
